import MjProof.Model.Scene
import Drivers.Common
/-
Line protocol (same lines as harness/c/c50_scene.c):
  consts                                  -> the header constants the model uses
  poke … | qpos … | step …                -> ok            (state changes of the implementation side only)
  upd scene=<s> model=<k> cap=<n> catmask=<c> static=<b> transp=<b> groups=<6×0/1> sgroups=<6×0/1> | st0=<b>
      alpha=<h32> zfar=<h32> extent=<h64> cam <6×h32> n=<ngeom> { g type group static dataid matid
      size×3 xpos×3 xmat×9 (h64) rgba×4 (h32) }
    -> n=<ngeom> st=<status> w=<warnings> guard=ok | objid objtype category segid type dataid size×3 pos×3 mat×9 rgba×4 ; …
-/
open MjProof MjProof.Driver MjProof.Scene

def hexNat? (s : String) (len : Nat) : Option Nat :=
  if s.length ≠ len then none else
  s.toList.foldlM (fun acc c =>
    if '0' ≤ c ∧ c ≤ '9' then some (acc * 16 + (c.toNat - '0'.toNat))
    else if 'a' ≤ c ∧ c ≤ 'f' then some (acc * 16 + (c.toNat - 'a'.toNat + 10)) else none) 0

def f64? (s : String) : Option Float := (hexNat? s 16).map (fun n => Float.ofBits n.toUInt64)
def f32? (s : String) : Option Float32 := (hexNat? s 8).map (fun n => Float32.ofBits n.toUInt32)

def hex32 (x : Float32) : String :=
  let h := Nat.toDigits 16 x.toBits.toNat
  String.ofList (List.replicate (8 - h.length) '0' ++ h)

def cvF : Conv Float Float32 where
  n2f := Float.toFloat32
  f2n := Float32.toFloat
  round := fun d => if d > 2147483647.0 then 2147483647.0 else if d < -2147483648.0 then -2147483648.0 else Float.round d
  fadd := (· + ·)
  fmul := (· * ·)
  fzero := fun x => x == 0

def kv? (key : String) (t : String) : Option String :=
  if t.startsWith (key ++ "=") then some (t.drop (key.length + 1)).toString else none

def mask6? (s : String) : Option (Vector Bool 6) :=
  match s.toList with
  | [a, b, c, d, e, f] =>
    if [a, b, c, d, e, f].all (fun ch => ch = '0' ∨ ch = '1') then
      some #v[a = '1', b = '1', c = '1', d = '1', e = '1', f = '1']
    else none
  | _ => none

def vec3? {γ : Type} (p : String → Option γ) : List String → Option (Vector γ 3 × List String)
  | a :: b :: c :: r => do pure (#v[← p a, ← p b, ← p c], r)
  | _ => none

def vec4? {γ : Type} (p : String → Option γ) : List String → Option (Vector γ 4 × List String)
  | a :: b :: c :: d :: r => do pure (#v[← p a, ← p b, ← p c, ← p d], r)
  | _ => none

def vec9? {γ : Type} (p : String → Option γ) : List String → Option (Vector γ 9 × List String)
  | a :: b :: c :: d :: e :: f :: g :: h :: i :: r =>
    do pure (#v[← p a, ← p b, ← p c, ← p d, ← p e, ← p f, ← p g, ← p h, ← p i], r)
  | _ => none

/-- parse the per-geom records; `none` = malformed, `some (none)` = material present (not modelled) -/
def geoms? : Nat → List String → Option (Option (List (GeomIn Float Float32)))
  | 0, [] => some (some [])
  | 0, _ :: _ => none
  | n + 1, "g" :: ty :: gr :: st :: di :: mi :: r => do
    let ty ← ty.toInt?
    let gr ← gr.toInt?
    let st ← st.toNat?
    let di ← di.toInt?
    let mi ← mi.toInt?
    let (size, r) ← vec3? f64? r
    let (xpos, r) ← vec3? f64? r
    let (xmat, r) ← vec9? f64? r
    let (rgba, r) ← vec4? f32? r
    if st > 1 then none
    let rest ← geoms? n r
    if mi ≥ 0 then pure none else
    pure (rest.map (fun l => { type := ty, group := gr, isStatic := st = 1, dataid := di, size, xpos, xmat, rgba } :: l))
  | _ + 1, _ => none

def showGeom (g : VGeom Float32) : String :=
  " ".intercalate ([g.objid, g.objtype, g.category, g.segid, g.type, g.dataid].map toString
    ++ g.size.toList.map hex32 ++ g.pos.toList.map hex32 ++ g.mat.toList.map hex32 ++ g.rgba.toList.map hex32)

def upd (keys inp : List String) : Option String := do
  match keys with
  | [sc, mo, cap, cat, st, tr, gr, og] =>
    let _ ← (← kv? "scene" sc).toNat?
    let _ ← (← kv? "model" mo).toNat?
    let cap ← (← kv? "cap" cap).toNat?
    let cat ← (← kv? "catmask" cat).toNat?
    let st ← (← kv? "static" st).toNat?
    let tr ← (← kv? "transp" tr).toNat?
    let gr ← mask6? (← kv? "groups" gr)
    let _ ← mask6? (← kv? "sgroups" og)
    if cap > 100000 ∨ cat > 7 then none
    match inp with
    | st0 :: al :: zf :: ex :: "cam" :: r =>
      let st0 ← (← kv? "st0" st0).toNat?
      let alpha ← f32? (← kv? "alpha" al)
      let zfar ← f32? (← kv? "zfar" zf)
      let extent ← f64? (← kv? "extent" ex)
      let (cam0, r) ← vec3? f32? r
      let (cam1, r) ← vec3? f32? r
      match r with
      | n :: r =>
        let n ← (← kv? "n" n).toNat?
        if st0 > 1 then none
        match ← geoms? n r with
        | none => pure "unsupported-material"
        | some geoms =>
          let o : Opt := { catmask := cat, visStatic := st ≠ 0, visTransparent := tr ≠ 0, geomgroup := gr }
          let env : Env Float Float32 := { alpha, zfar, extent, cam0, cam1 }
          -- the scene before the call: capacity, sticky status; its old contents are irrelevant (ngeom := 0)
          let s0 : Scn (VGeom Float32) := { maxgeom := cap, ngeom := 0, status := st0 = 1, nwarn := 0, mem := fun _ => none }
          let s := updateScene cvF o env geoms s0
          let gs := (sceneGeoms s).map (fun g => match g with | some g => showGeom g ++ " ;" | none => "UNWRITTEN ;")
          pure (" ".intercalate (["n=" ++ toString s.ngeom, "st=" ++ (if s.status then "1" else "0"),
            "w=" ++ toString s.nwarn, "guard=ok", "|"] ++ gs))
      | _ => none
    | _ => none
  | _ => none

def splitBar : List String → List String × Option (List String)
  | [] => ([], none)
  | "|" :: r => ([], some r)
  | t :: r => let (a, b) := splitBar r; (t :: a, b)

def step (line : String) : String :=
  match words line with
  | ["consts"] =>
    s!"consts plane={GEOM_PLANE} sphere={GEOM_SPHERE} capsule={GEOM_CAPSULE} cylinder={GEOM_CYLINDER} mesh={GEOM_MESH} sdf={GEOM_SDF} objgeom={OBJ_GEOM} static={CAT_STATIC} dynamic={CAT_DYNAMIC} ngroup={NGROUP} planegrid={MAXPLANEGRID}"
  | "poke" :: m :: _ :: _ :: _ => if m.toNat?.isSome then "ok" else "bad-op"
  | ["qpos", m, s] => if m.toNat?.isSome ∧ s.toNat?.isSome then "ok" else "bad-op"
  | ["step", m, n] => if m.toNat?.isSome ∧ n.toNat?.isSome then "ok" else "bad-op"
  | "upd" :: r =>
    match splitBar r with
    | (keys, some inp) => (upd keys inp).getD "bad-op"
    | _ => "bad-op"
  | _ => "bad-op"

def main : IO Unit := runStateless step
