import MjProof.Model.Dispatch
import Drivers.Common
/-
Line protocol of the C02 model driver (one op per line in, one canonical line out):
  chunks <npair> <nthread>     -> <chunksize> <nchunk> | <lo>:<len> …          (mj_narrowphase / collisionTask)
  taxels <ncon> <nthread>      -> <batch> <ntask> | <lo>:<hi> …               (tactile sensor batches)
  exec <nmem> <scrbase> | <prog> ; <prog> ; … | <t>:<id>,<id>,… … | <t>,<t>,…
                               -> mem <v0> … <v(nmem-1)> | term <0|1>
       runs the batch of toy tasks (Model/Dispatch.lean: toyTask) under the assignment (thread t claims the listed
       task ids in order, context = t) and the schedule (one thread id per step) from the memory m0 l = 3*l + 1.
       prog tokens: r<loc> w<loc> a<int> m<int> t sr sw ('-' = empty program).
  anything else                -> bad-op
-/
open MjProof MjProof.Driver MjProof.Dispatch

def natOf (s : String) (hi : Nat) : Option Nat :=
  match s.toNat? with
  | some v => if v ≤ hi ∧ s.length ≤ 9 then some v else none
  | none => none

def chunksLine (npair nthread : Nat) : String :=
  let c := chunkSize npair nthread
  let q := numChunk npair c
  let rs := (List.range q).map (fun i => s!"{chunkLo c i}:{chunkLen npair c i}")
  s!"{c} {q} |" ++ String.join (rs.map (" " ++ ·))

def taxelsLine (ncon nthread : Nat) : String :=
  let b := tactileBatch ncon nthread
  let q := tactileTasks ncon b
  let rs := (List.range q).map (fun t => s!"{taxelLo b t}:{taxelHi ncon b t}")
  s!"{b} {q} |" ++ String.join (rs.map (" " ++ ·))

def parseOp (w : String) : Option ToyOp :=
  if w = "t" then some .tid
  else if w = "sr" then some .srd
  else if w = "sw" then some .swr
  else
    let rest := (w.drop 1).toString
    match w.front with
    | 'r' => (natOf rest 4096).map .rd
    | 'w' => (natOf rest 4096).map .wr
    | 'a' => match rest.toInt? with
             | some c => if rest.length ≤ 6 then some (.add c) else none
             | none => none
    | 'm' => match rest.toInt? with
             | some c => if rest.length ≤ 6 then some (.mul c) else none
             | none => none
    | _ => none

def parseProg (s : String) : Option (List ToyOp) :=
  let ws := words s
  if ws = ["-"] then some [] else if ws = [] then none else ws.mapM parseOp

def parseAsgEntry (w : String) : Option (Nat × List Nat) :=
  match w.splitOn ":" with
  | [t, ids] =>
    match natOf t 64 with
    | none => none
    | some t =>
      if ids = "" then some (t, [])
      else match (ids.splitOn ",").mapM (fun x => natOf x 4096) with
           | some l => some (t, l)
           | none => none
  | _ => none

def parseSched (s : String) : Option (List Nat) :=
  let t := s.trimAscii.toString
  if t = "" then some [] else (t.splitOn ",").mapM (fun x => natOf x.trimAscii.toString 64)

def execLine (nmem scr : Nat) (progs : List (List ToyOp)) (asgl : List (Nat × List Nat)) (sched : List Nat) : String :=
  let parr := progs.toArray
  let tasks : Nat → Task Nat Int Nat (Nat × Int) := fun i => toyTask scr (parr.getD i [])
  let asg : Nat → List (Nat × Nat) := fun t =>
    match asgl.find? (fun e => e.1 = t) with
    | some e => e.2.map (fun i => (i, t))
    | none => []
  let m0 : Mem Nat Int := fun l => 3 * (l : Int) + 1
  let c := exec tasks (start m0 asg) sched
  let term := (List.range 65).all (fun t => (c.thr t).cur.isNone && (c.thr t).todo.isEmpty)
  "mem " ++ joinInts ((List.range nmem).map c.mem) ++ " | term " ++ (if term then "1" else "0")

def step (line : String) : String :=
  match words line with
  | ["chunks", a, b] =>
    match natOf a 100000000, natOf b 4096 with
    | some npair, some nthread => chunksLine npair nthread
    | _, _ => "bad-op"
  | ["taxels", a, b] =>
    match natOf a 100000000, natOf b 4096 with
    | some ncon, some nthread => if nthread = 0 ∨ ncon = 0 then "bad-op" else taxelsLine ncon nthread
    | _, _ => "bad-op"
  | "exec" :: _ =>
    match line.splitOn "|" with
    | [hd, ps, as, sc] =>
      match words hd with
      | ["exec", a, b] =>
        match natOf a 4096, natOf b 4096, (ps.splitOn ";").mapM parseProg, (words as).mapM parseAsgEntry, parseSched sc with
        | some nmem, some scr, some progs, some asgl, some sched =>
          -- every task id of the assignment must name a program; thread ids must be distinct
          if asgl.all (fun e => e.2.all (fun i => i < progs.length)) ∧ (asgl.map (·.1)).Nodup
          then execLine nmem scr progs asgl sched else "bad-op"
        | _, _, _, _, _ => "bad-op"
      | _ => "bad-op"
    | _ => "bad-op"
  | _ => "bad-op"

def main : IO Unit := runStateless step
