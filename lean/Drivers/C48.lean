import MjProof.Model.TimeSeries
import MjProof.Num
import Drivers.Common
/-
Line protocol of the C48 model driver (mirrors harness/py/c48_signal.py).  Sections are separated by `|`,
a series is `n m L ; t.. ; d.. ; name:i,j name:..` (L in {c,f,v}: memory layout used by the Python side,
ignored here; floats are the 16 hex digits of their IEEE bits; data row-major, n*m values):

  resample  S | nt..                                  TimeSeries.resample(new_times)
  bias      S | name | v..                            apply_bias
  gain      S | name | v..                            apply_gain
  delay     S | name | d                              apply_delay
  window    S | lo hi                                 apply_time_window
  dwindow   S | t2.. | minD maxD                      apply_delayed_ts_window (t2 = times of ts_delayed)
  rdelay    S | nt.. | dflt | name=d .. | pred        apply_resample_and_delay
  rdelaycol S | nt.. | dflt | name=d .. | pred        _build_per_column_delays + _apply_resample_and_delay_columnwise
  gb        S | label | pat target v.. , .. | pat target v.. , ..     SignalTransform._apply_gains_biases (gains | biases)

Python-level representation of the arguments.  Every line may end with one more section
  `| types key=tag key=tag ..`
that tells the Python side HOW to pass the (same) numbers to the real code: as python ints or floats, numpy
scalars of several dtypes, lists or arrays, integer-dtype arrays, 1-D data, ...  The documented meaning of an
argument does not depend on its Python type (a delay `1` is the delay `1.0`), so the model ignores the tags --
but it validates them (unknown key for the op, duplicate key, a tag that cannot represent the value exactly,
e.g. `int` on a fractional number or `npf32` on a double that is not a float32: `bad-op`), with the same rules
as the harness.  Keys: `data` f64|i64|1d, `tsd` (dtype of ts.times) f64|i64, `idx` (signal_mapping indices)
i64|i32|list|int, `nt`/`t2` (target times) f64|i64|view, `v` (Parameter nominal) arr|list|ilist|i64|f32|float|
npf64|int, `gv`/`bv` (one `v` tag per gain/bias entry, comma separated), `dflt`/`lo`/`hi` scalar tags
float|int|npf64|npf32|npi64|npi32, `sd` (one scalar tag per sensor delay, comma separated), `sdc` auto|dict,
`pred` bool|int|npbool.

The single command-line argument selects the model variant: `hold` (one-sample series are held constant by
`interpolate`) or `asfound` (they go through interp1d: 0/0).

Output: `ok n m ; t.. ; d..` (a cell `np.empty` never wrote is `uninit`) or `error <kind>`; `bad-op` for
anything malformed.
-/
open MjProof MjProof.Driver MjProof.TimeSeries

abbrev F := Float

def splitTrim (s : String) (sep : String) : List String := (s.splitOn sep).map (fun x => x.trimAscii.toString)

def floats? (ws : List String) : Option (List F) := ws.mapM floatOfBits?

def nat? (s : String) : Option Nat := if s.isEmpty || !s.all Char.isDigit then none else s.toNat?

def validName (s : String) : Bool := !s.isEmpty && s.all (fun c => c.isAlphanum || c == '_')

def parseMapEntry (w : String) : Option (String × List Nat) :=
  match w.splitOn ":" with
  | [name, idx] =>
    if !validName name then none else
    if idx.isEmpty then some (name, []) else
    ((idx.splitOn ",").mapM nat?).map fun is => (name, is)
  | _ => none

def chunk (m : Nat) : Nat → List F → Option (List (Vector F m))
  | 0, [] => some []
  | 0, _ :: _ => none
  | n + 1, l =>
    let r := (l.take m).toArray
    if h : r.size = m then
      match chunk m n (l.drop m) with
      | some rs => some (⟨r, h⟩ :: rs)
      | none => none
    else none

structure AnyTS where
  m : Nat
  ts : TS F m

def parseSeries (sec : String) : Option AnyTS :=
  match splitTrim sec ";" with
  | [hd, ts, ds, mp] =>
    match words hd with
    | [ns, ms, lay] =>
      if !(lay == "c" || lay == "f" || lay == "v") then none else
      match nat? ns, nat? ms, floats? (words ts), floats? (words ds), (words mp).mapM parseMapEntry with
      | some n, some m, some tl, some dl, some mapping =>
        if tl.length ≠ n || dl.length ≠ n * m then none else
        match chunk m n dl with
        | some rs => some ⟨m, { samples := List.zipWith (fun t r => ⟨t, r⟩) tl rs, mapping := mapping }⟩
        | none => none
      | _, _, _, _, _ => none
    | _ => none
  | _ => none

def errStr : Err → String
  | .empty => "error empty"
  | .notIncreasing => "error not-increasing"
  | .unknownSignal => "error unknown-signal"
  | .badIndex => "error bad-index"
  | .badShape => "error bad-shape"
  | .minGtMax => "error min-gt-max"

def showMat {m : Nat} (ts : List F) (cells : List (List String)) : String :=
  s!"ok {ts.length} {m} ; " ++ " ".intercalate (ts.map floatBits) ++ " ; " ++ " ".intercalate (cells.map (" ".intercalate ·))

def showTS {m : Nat} (r : Except Err (TS F m)) : String :=
  match r with
  | .error e => errStr e
  | .ok s => showMat (m := m) (times s.samples) (s.samples.map fun p => p.row.toList.map floatBits)

def showOpt {m : Nat} (r : Except Err (List F × List (Vector (Option F) m))) : String :=
  match r with
  | .error e => errStr e
  | .ok (ts, rs) => showMat (m := m) ts (rs.map fun r => r.toList.map fun c => match c with | some x => floatBits x | none => "uninit")

def parseDelays (ws : List String) : Option (List (String × F)) :=
  ws.mapM fun w =>
    match w.splitOn "=" with
    | [name, d] => if validName name then (floatOfBits? d).map fun x => (name, x) else none
    | _ => none

def parseBool (s : String) : Option Bool := if s == "1" then some true else if s == "0" then some false else none

def validPattern (s : String) : Bool := s == "*" || validName s
def validTarget (s : String) : Bool := s == "predicted" || s == "measured" || s == "both"

def parseEntries (sec : String) : Option (List (GBEntry F)) :=
  if (words sec).isEmpty then some [] else
  (splitTrim sec ",").mapM fun e =>
    match words e with
    | pat :: target :: vs =>
      if validPattern pat && validTarget target then (floats? vs).map fun v => { pattern := pat, target := target, value := v }
      else none
    | _ => none

/-! ### the `types` section (python-level representation tags; validated, semantically ignored) -/

abbrev Types := List (String × String)

def parseTypes (sec : String) : Option Types :=
  match words sec with
  | "types" :: ws =>
    ws.mapM fun w =>
      match w.splitOn "=" with
      | [k, t] => if k.isEmpty || t.isEmpty then none else some (k, t)
      | _ => none
  | _ => none

/-- representable as a python int / numpy int32 / int64 without changing the value -/
def isIntegral (x : F) : Bool := x.isFinite && x == x.floor && x.abs ≤ 2147483647.0
/-- representable as a numpy float32 without changing the value -/
def isF32 (x : F) : Bool := x.isFinite && x.toFloat32.toFloat == x

def scalarTagOk (tag : String) (x : F) : Bool :=
  match tag with
  | "float" | "npf64" => true
  | "int" | "npi64" | "npi32" => isIntegral x
  | "npf32" => isF32 x
  | _ => false

def arrayTagOk (tag : String) (xs : List F) : Bool :=
  match tag with
  | "f64" | "view" => true
  | "i64" => xs.all isIntegral
  | _ => false

def valueTagOk (tag : String) (v : List F) : Bool :=
  match tag with
  | "arr" | "list" => true
  | "ilist" | "i64" => v.all isIntegral
  | "f32" => v.all isF32
  | "float" | "npf64" => v.length == 1
  | "int" => v.length == 1 && v.all isIntegral
  | _ => false

def listTagOk {β : Type} (ok : String → β → Bool) (tags : String) (vals : List β) : Bool :=
  let ts := tags.splitOn ","
  ts.length == vals.length && (List.zipWith ok ts vals).all id

def distinctKeys : List String → Bool
  | [] => true
  | k :: ks => !ks.contains k && distinctKeys ks

/-- every key is allowed for this op (and given at most once) and its tag can represent the value -/
def checkTypes (tys : Types) (allowed : List (String × (String → Bool))) : Bool :=
  distinctKeys (tys.map (·.1)) &&
  tys.all fun kt => allowed.any fun a => a.1 == kt.1 && a.2 kt.2

def oneOf (l : List String) : String → Bool := fun t => l.contains t

/-- the keys every op accepts: dtype/rank of `ts.data`, dtype of `ts.times`, form of the mapping indices -/
def generalKeys {m : Nat} (op : String) (s : TS F m) : List (String × (String → Bool)) :=
  [("data", fun t =>
      t == "f64" ||
      (t == "i64" && ["resample", "rdelay", "rdelaycol", "window", "dwindow"].contains op &&
        s.samples.all (fun p => p.row.toList.all isIntegral)) ||
      (t == "1d" && m == 1 && ["resample", "window", "dwindow"].contains op)),
   ("tsd", fun t => arrayTagOk t (times s.samples) && t != "view"),
   ("idx", oneOf ["i64", "i32", "list", "int"])]

def step (hold : Bool) (line : String) : String :=
  match splitTrim line "|" with
  | hd :: rest0 =>
    let (rest, tysec) : List String × Option String :=
      match rest0.getLast? with
      | some l => if (words l).head? == some "types" then (rest0.dropLast, some l) else (rest0, none)
      | none => (rest0, none)
    match (match tysec with | none => some [] | some l => parseTypes l) with
    | none => "bad-op"
    | some tys =>
    match words (hd.takeWhile (· != ';')).toString with
    | [] => "bad-op"
    | op :: hdws =>
      -- the first section is `<op> n m L ; ...`: strip the op word
      let sec0 := " ".intercalate hdws ++ (hd.dropWhile (· != ';')).toString
      match parseSeries sec0 with
      | none => "bad-op"
      | some ⟨m, s⟩ =>
        let tyOk (extra : List (String × (String → Bool))) : Bool := checkTypes tys (generalKeys op s ++ extra)
        match op, rest with
        | "resample", [nt] =>
          match floats? (words nt) with
          | some nt => if !tyOk [("nt", fun t => arrayTagOk t nt)] then "bad-op" else showTS (resample hold s nt)
          | none => "bad-op"
        | "bias", [name, v] =>
          match words name, floats? (words v) with
          | [name], some v => if !tyOk [("v", fun t => valueTagOk t v)] then "bad-op" else showTS (applyBias s name v)
          | _, _ => "bad-op"
        | "gain", [name, v] =>
          match words name, floats? (words v) with
          | [name], some v => if !tyOk [("v", fun t => valueTagOk t v)] then "bad-op" else showTS (applyGain s name v)
          | _, _ => "bad-op"
        | "delay", [name, d] =>
          match words name, floats? (words d) with
          | [name], some [d] => if !tyOk [("v", fun t => valueTagOk t [d])] then "bad-op" else showTS (applyDelay hold s name d)
          | _, _ => "bad-op"
        | "window", [b] =>
          match floats? (words b) with
          | some [lo, hi] =>
            if !tyOk [("lo", fun t => scalarTagOk t lo), ("hi", fun t => scalarTagOk t hi)] then "bad-op"
            else showTS (applyTimeWindow s lo hi)
          | _ => "bad-op"
        | "dwindow", [t2, b] =>
          match floats? (words t2), floats? (words b) with
          | some t2, some [lo, hi] =>
            if !tyOk [("t2", fun t => arrayTagOk t t2), ("lo", fun t => scalarTagOk t lo), ("hi", fun t => scalarTagOk t hi)] then "bad-op"
            else showTS (applyDelayedWindow s t2 lo hi)
          | _, _ => "bad-op"
        | "rdelay", [nt, dflt, sd, pred] =>
          match floats? (words nt), floats? (words dflt), parseDelays (words sd), (words pred) with
          | some nt, some [dflt], some sd, [p] =>
            match parseBool p with
            | some p =>
              if !tyOk [("nt", fun t => arrayTagOk t nt), ("dflt", fun t => scalarTagOk t dflt),
                        ("sd", fun t => listTagOk scalarTagOk t (sd.map (·.2))), ("sdc", oneOf ["auto", "dict"]),
                        ("pred", oneOf ["bool", "int", "npbool"])] then "bad-op"
              else showOpt (m := m) (applyResampleAndDelay hold s nt dflt sd p)
            | none => "bad-op"
          | _, _, _, _ => "bad-op"
        | "rdelaycol", [nt, dflt, sd, pred] =>
          match floats? (words nt), floats? (words dflt), parseDelays (words sd), (words pred) with
          | some nt, some [dflt], some sd, [p] =>
            match parseBool p with
            | some p =>
              if !tyOk [("nt", fun t => arrayTagOk t nt), ("dflt", fun t => scalarTagOk t dflt),
                        ("sd", fun t => listTagOk scalarTagOk t (sd.map (·.2))), ("sdc", oneOf ["auto", "dict"]),
                        ("pred", oneOf ["bool", "int", "npbool"])] then "bad-op"
              else showOpt (m := m) (applyResampleAndDelayColumnwise hold s nt dflt sd p)
            | none => "bad-op"
          | _, _, _, _ => "bad-op"
        | "gb", [label, gains, biases] =>
          match words label, parseEntries gains, parseEntries biases with
          | [label], some g, some b =>
            if !(label == "predicted" || label == "measured") then "bad-op"
            else if !tyOk [("gv", fun t => listTagOk valueTagOk t (g.map (·.value))),
                           ("bv", fun t => listTagOk valueTagOk t (b.map (·.value)))] then "bad-op"
            else showTS (applyGainsBiases s label g b)
          | _, _, _ => "bad-op"
        | _, _ => "bad-op"
  | [] => "bad-op"

def main (args : List String) : IO UInt32 := do
  match args with
  | ["hold"] => runStateless (step true); return 0
  | ["asfound"] => runStateless (step false); return 0
  | _ => IO.eprintln "usage: drv_c48 hold|asfound"; return 2
