import MjProof.Model.TimeSeries
import MjProof.Num
import Drivers.Common
/-
Line protocol of the C48 model driver (mirrors harness/py/c48_signal.py).  Sections are separated by `|`,
a series is `n m L ; t.. ; d.. ; name:i,j name:..` (L in {c,f,v}: memory layout used by the Python side,
ignored here; floats are the 16 hex digits of their IEEE bits; data row-major, n*m values):

  resample  S | nt..                                  TimeSeries.resample(new_times)
  bias      S | name | v..                            apply_bias
  gain      S | name | v..                            apply_gain
  delay     S | name | d                              apply_delay
  window    S | lo hi                                 apply_time_window
  dwindow   S | t2.. | minD maxD                      apply_delayed_ts_window (t2 = times of ts_delayed)
  rdelay    S | nt.. | dflt | name=d .. | pred        apply_resample_and_delay
  rdelaycol S | nt.. | dflt | name=d .. | pred        _build_per_column_delays + _apply_resample_and_delay_columnwise
  gb        S | label | pat target v.. , .. | pat target v.. , ..     SignalTransform._apply_gains_biases (gains | biases)

The single command-line argument selects the model variant: `hold` (one-sample series are held constant by
`interpolate`) or `asfound` (they go through interp1d: 0/0).

Output: `ok n m ; t.. ; d..` (a cell `np.empty` never wrote is `uninit`) or `error <kind>`; `bad-op` for
anything malformed.
-/
open MjProof MjProof.Driver MjProof.TimeSeries

abbrev F := Float

def splitTrim (s : String) (sep : String) : List String := (s.splitOn sep).map (fun x => x.trimAscii.toString)

def floats? (ws : List String) : Option (List F) := ws.mapM floatOfBits?

def nat? (s : String) : Option Nat := if s.isEmpty || !s.all Char.isDigit then none else s.toNat?

def validName (s : String) : Bool := !s.isEmpty && s.all (fun c => c.isAlphanum || c == '_')

def parseMapEntry (w : String) : Option (String × List Nat) :=
  match w.splitOn ":" with
  | [name, idx] =>
    if !validName name then none else
    if idx.isEmpty then some (name, []) else
    ((idx.splitOn ",").mapM nat?).map fun is => (name, is)
  | _ => none

def chunk (m : Nat) : Nat → List F → Option (List (Vector F m))
  | 0, [] => some []
  | 0, _ :: _ => none
  | n + 1, l =>
    let r := (l.take m).toArray
    if h : r.size = m then
      match chunk m n (l.drop m) with
      | some rs => some (⟨r, h⟩ :: rs)
      | none => none
    else none

structure AnyTS where
  m : Nat
  ts : TS F m

def parseSeries (sec : String) : Option AnyTS :=
  match splitTrim sec ";" with
  | [hd, ts, ds, mp] =>
    match words hd with
    | [ns, ms, lay] =>
      if !(lay == "c" || lay == "f" || lay == "v") then none else
      match nat? ns, nat? ms, floats? (words ts), floats? (words ds), (words mp).mapM parseMapEntry with
      | some n, some m, some tl, some dl, some mapping =>
        if tl.length ≠ n || dl.length ≠ n * m then none else
        match chunk m n dl with
        | some rs => some ⟨m, { samples := List.zipWith (fun t r => ⟨t, r⟩) tl rs, mapping := mapping }⟩
        | none => none
      | _, _, _, _, _ => none
    | _ => none
  | _ => none

def errStr : Err → String
  | .empty => "error empty"
  | .notIncreasing => "error not-increasing"
  | .unknownSignal => "error unknown-signal"
  | .badIndex => "error bad-index"
  | .badShape => "error bad-shape"
  | .minGtMax => "error min-gt-max"

def showMat {m : Nat} (ts : List F) (cells : List (List String)) : String :=
  s!"ok {ts.length} {m} ; " ++ " ".intercalate (ts.map floatBits) ++ " ; " ++ " ".intercalate (cells.map (" ".intercalate ·))

def showTS {m : Nat} (r : Except Err (TS F m)) : String :=
  match r with
  | .error e => errStr e
  | .ok s => showMat (m := m) (times s.samples) (s.samples.map fun p => p.row.toList.map floatBits)

def showOpt {m : Nat} (r : Except Err (List F × List (Vector (Option F) m))) : String :=
  match r with
  | .error e => errStr e
  | .ok (ts, rs) => showMat (m := m) ts (rs.map fun r => r.toList.map fun c => match c with | some x => floatBits x | none => "uninit")

def parseDelays (ws : List String) : Option (List (String × F)) :=
  ws.mapM fun w =>
    match w.splitOn "=" with
    | [name, d] => if validName name then (floatOfBits? d).map fun x => (name, x) else none
    | _ => none

def parseBool (s : String) : Option Bool := if s == "1" then some true else if s == "0" then some false else none

def validPattern (s : String) : Bool := s == "*" || validName s
def validTarget (s : String) : Bool := s == "predicted" || s == "measured" || s == "both"

def parseEntries (sec : String) : Option (List (GBEntry F)) :=
  if (words sec).isEmpty then some [] else
  (splitTrim sec ",").mapM fun e =>
    match words e with
    | pat :: target :: vs =>
      if validPattern pat && validTarget target then (floats? vs).map fun v => { pattern := pat, target := target, value := v }
      else none
    | _ => none

def step (hold : Bool) (line : String) : String :=
  match splitTrim line "|" with
  | hd :: rest =>
    match words (hd.takeWhile (· != ';')).toString with
    | [] => "bad-op"
    | op :: hdws =>
      -- the first section is `<op> n m L ; ...`: strip the op word
      let sec0 := " ".intercalate hdws ++ (hd.dropWhile (· != ';')).toString
      match parseSeries sec0 with
      | none => "bad-op"
      | some ⟨m, s⟩ =>
        match op, rest with
        | "resample", [nt] =>
          match floats? (words nt) with
          | some nt => showTS (resample hold s nt)
          | none => "bad-op"
        | "bias", [name, v] =>
          match words name, floats? (words v) with
          | [name], some v => showTS (applyBias s name v)
          | _, _ => "bad-op"
        | "gain", [name, v] =>
          match words name, floats? (words v) with
          | [name], some v => showTS (applyGain s name v)
          | _, _ => "bad-op"
        | "delay", [name, d] =>
          match words name, floats? (words d) with
          | [name], some [d] => showTS (applyDelay hold s name d)
          | _, _ => "bad-op"
        | "window", [b] =>
          match floats? (words b) with
          | some [lo, hi] => showTS (applyTimeWindow s lo hi)
          | _ => "bad-op"
        | "dwindow", [t2, b] =>
          match floats? (words t2), floats? (words b) with
          | some t2, some [lo, hi] => showTS (applyDelayedWindow s t2 lo hi)
          | _, _ => "bad-op"
        | "rdelay", [nt, dflt, sd, pred] =>
          match floats? (words nt), floats? (words dflt), parseDelays (words sd), (words pred) with
          | some nt, some [dflt], some sd, [p] =>
            match parseBool p with
            | some p => showOpt (m := m) (applyResampleAndDelay hold s nt dflt sd p)
            | none => "bad-op"
          | _, _, _, _ => "bad-op"
        | "rdelaycol", [nt, dflt, sd, pred] =>
          match floats? (words nt), floats? (words dflt), parseDelays (words sd), (words pred) with
          | some nt, some [dflt], some sd, [p] =>
            match parseBool p with
            | some p => showOpt (m := m) (applyResampleAndDelayColumnwise hold s nt dflt sd p)
            | none => "bad-op"
          | _, _, _, _ => "bad-op"
        | "gb", [label, gains, biases] =>
          match words label, parseEntries gains, parseEntries biases with
          | [label], some g, some b =>
            if label == "predicted" || label == "measured" then showTS (applyGainsBiases s label g b) else "bad-op"
          | _, _, _ => "bad-op"
        | _, _ => "bad-op"
  | [] => "bad-op"

def main (args : List String) : IO UInt32 := do
  match args with
  | ["hold"] => runStateless (step true); return 0
  | ["asfound"] => runStateless (step false); return 0
  | _ => IO.eprintln "usage: drv_c48 hold|asfound"; return 2
