import MjProof.Model.Mjb
import MjProof.Gen.MjbLayout
import Drivers.Common
/-
Line protocol (stateful; mirrors harness/c/c31_mjb.c).  The layout is the generated `Gen.MjbLayout.layout`.
  model <description (ignored here)> | S <sizes> | B <hex>x5 | A <hex or ->...   -> ok
  size                      -> <sizeModel>
  save                      -> len=<n> fnv=<fnv1a64 of the image, 16 hex digits>
  load <edit>*              -> ok len=<n> fnv=<h> nbuf=<n> | reject <warnings> nbuf=<n|-> | fatal <msg> nbuf=… | hazard <kind> nbuf=…
       edits: t<n>  w<off>:<hex>  i<off>:<hex>  d<off>:<n>  z<off>:<n>   (applied in order to the saved image)
  sweep <from> <to> <step>  -> n=<k> reject=<k> other=<len:result of the first non-reject or ->
  consistent                -> true | false   (Lean side only: `consistentB`, the hypothesis of the C31 theorems)
-/
open MjProof MjProof.Driver MjProof.Mjb MjProof.Gen.MjbLayout

def hexVal (c : Char) : Option Nat :=
  if '0' ≤ c ∧ c ≤ '9' then some (c.toNat - '0'.toNat)
  else if 'a' ≤ c ∧ c ≤ 'f' then some (c.toNat - 'a'.toNat + 10)
  else none

def parseHexChars : List Char → Option Bytes
  | [] => some []
  | [_] => none
  | a :: b :: rest =>
    match hexVal a, hexVal b, parseHexChars rest with
    | some x, some y, some r => some (UInt8.ofNat (16 * x + y) :: r)
    | _, _, _ => none

def parseHex (s : String) : Option Bytes := if s = "-" then some [] else parseHexChars s.toList

def fnv (b : Bytes) : UInt64 :=
  b.foldl (fun h x => (h ^^^ x.toUInt64) * 1099511628211) 14695981039346656037

def hex16 (v : UInt64) : String :=
  let digs := (Nat.toDigits 16 v.toNat)
  String.ofList (List.replicate (16 - digs.length) '0' ++ digs)

structure St where
  cur : Option (Model NS × Bytes)

def parseDump (s : String) : Option (Model NS) :=
  match s.splitOn " | " with
  | [ss, bs, as] =>
    match words ss, words bs, words as with
    | "S" :: sv, "B" :: bv, "A" :: av =>
      match sv.mapM String.toInt?, bv.mapM parseHex, av.mapM parseHex with
      | some sizes, some blobs, some arrays =>
        if h : sizes.length = NS then
          if blobs.length = layout.blobs.length ∧ arrays.length = layout.ptrs.length then
            some { sizes := ⟨sizes.toArray, by simpa using h⟩, blobs := blobs, arrays := arrays }
          else none
        else none
      | _, _, _ => none
    | _, _, _ => none
  | _ => none

def hazardStr : Hazard → String
  | .inputOverread => "inputOverread"
  | .arrayOverflow n => s!"arrayOverflow:{n}"
  | .intOverflow w => "intOverflow:" ++ w.replace " " "_"
  | .oobIndex w => "oobIndex:" ++ w.replace " " "_"
  | .external w => "external:" ++ w

def loadT (b : Bytes) : Res (Model NS) × Option Nat := (load layout (specialOf layout special) b, loadNbuf layout b)

def resultStr (r : Res (Model NS) × Option Nat) : String :=
  let nb := match r.2 with | some n => s!" nbuf={n}" | none => " nbuf=-"
  match r.1 with
  | .ok m => let img := save layout m; s!"ok len={img.length} fnv={hex16 (fnv img)}" ++ nb
  | .reject w => "reject " ++ w ++ nb
  | .fatal w => "fatal " ++ w ++ nb
  | .hazard u => "hazard " ++ hazardStr u ++ nb

def splitAt? (s : String) (c : Char) : Option (String × String) :=
  match s.splitOn (String.singleton c) with
  | [a, b] => some (a, b)
  | _ => none

def applyEdit (img : Bytes) (tok : String) : Option Bytes :=
  match tok.toList with
  | [] => none
  | k :: restc =>
    let rest := String.ofList restc
    if k = 't' then
      match rest.toNat? with
      | some n => if n ≤ img.length then some (img.take n) else none
      | none => none
    else match splitAt? rest ':' with
      | none => none
      | some (offs, arg) =>
        match offs.toNat? with
        | none => none
        | some off =>
          if k = 'w' ∨ k = 'i' then
            match (if arg = "-" then none else parseHex arg) with
            | none => none
            | some bs =>
              if bs.isEmpty then none
              else if k = 'w' then
                if off + bs.length ≤ img.length then some (img.take off ++ bs ++ img.drop (off + bs.length)) else none
              else
                if off ≤ img.length then some (img.take off ++ bs ++ img.drop off) else none
          else if k = 'd' ∨ k = 'z' then
            match arg.toNat? with
            | none => none
            | some n =>
              if n > 268435456 then none
              else if k = 'd' then
                if off + n ≤ img.length then some (img.take off ++ img.drop (off + n)) else none
              else
                if off ≤ img.length then some (img.take off ++ List.replicate n 0 ++ img.drop off) else none
          else none

def applyEdits (img : Bytes) : List String → Option Bytes
  | [] => some img
  | t :: ts => match applyEdit img t with
    | some i => if i.length ≤ 2147483647 then applyEdits i ts else none
    | none => none

partial def sweep (img : Bytes) (to step : Nat) (l n nrej : Nat) (first : Option String) : String :=
  if l < to then
    let r := resultStr (loadT (img.take l))
    if r.startsWith "reject " then sweep img to step (l + step) (n + 1) (nrej + 1) first
    else sweep img to step (l + step) (n + 1) nrej (match first with | some f => some f | none => some s!"{l}:{r}")
  else s!"n={n} reject={nrej} other={first.getD "-"}"

def step (st : St) (line : String) : St × String :=
  let line := (String.ofList (line.toList.filter (fun c => c ≠ '\n' ∧ c ≠ '\r')))
  match words line with
  | "model" :: _ =>
    match line.splitOn " | " with
    | _ :: d1 :: d2 :: d3 :: [] =>
      match parseDump (d1 ++ " | " ++ d2 ++ " | " ++ d3) with
      | some m => ({ cur := some (m, save layout m) }, "ok")
      | none => (st, "bad-op")
    | _ => (st, "bad-op")
  | ["size"] =>
    match st.cur with
    | some (m, _) => (st, toString (sizeModel layout m))
    | none => (st, "bad-op")
  | ["oracle", v] =>
    -- implementation-side switch (property oracle after an accepted load): no effect on the model
    if v = "0" ∨ v = "1" then (st, "ok") else (st, "bad-op")
  | "rule" :: toks =>
    -- implementation-side configuration of the independent bounds checker: no effect on the model
    if ¬ toks.isEmpty ∧ toks.all (fun t => (t.splitOn "=").length = 2) then (st, "ok") else (st, "bad-op")
  | ["consistent"] =>
    -- Lean side only: the hypothesis `Consistent` of the theorems, evaluated on the current model
    match st.cur with
    | some (m, _) => (st, toString (consistentB layout (specialOf layout special) m))
    | none => (st, "bad-op")
  | ["save"] =>
    match st.cur with
    | some (_, img) => (st, s!"len={img.length} fnv={hex16 (fnv img)}")
    | none => (st, "bad-op")
  | "load" :: edits =>
    match st.cur with
    | some (_, img) =>
      match applyEdits img edits with
      | some b => (st, resultStr (loadT b))
      | none => (st, "bad-op")
    | none => (st, "bad-op")
  | ["sweep", a, b, c] =>
    match st.cur, a.toNat?, b.toNat?, c.toNat? with
    | some (_, img), some from_, some to, some stp =>
      if stp = 0 then (st, "bad-op") else (st, sweep img (min to img.length) stp from_ 0 0 none)
    | _, _, _, _ => (st, "bad-op")
  | _ => (st, "bad-op")

def main : IO Unit := runStateful ({ cur := none } : St) step
