import MjProof.Model.CType
import Drivers.Common
/-
Line protocol (one op per line; strings are sent as `.`-separated hexadecimal code points, `-` = empty):
  parse <hex>          -> `ok <ast> | <hex of decl(ast)> | <ast of parse_type(decl(ast))>`   or `reject`
  ret <hex>            -> same for parse_function_return_type
  decl <ast> [<hex>]   -> `ok <hex of t.decl(name)> | <ast of parse_type(t.decl())>|reject`
  wf <ast>             -> `wf 1` iff the model's WF predicate (or the special type) holds
                          (implementation side: iff parse_type(str(t)) == t)
<ast> is the prefix form of `CType.show_`:  V<c><v>"name"   P<n><c><v><r>(<ast>)   A[e1,e2,...](<ast>)
-/
open MjProof MjProof.CType MjProof.Driver

def hexVal (n : Nat) : Option Nat :=
  if 48 ≤ n ∧ n ≤ 57 then some (n - 48) else if 97 ≤ n ∧ n ≤ 102 then some (n - 87) else none

def hexNat (s : Str) : Option Nat :=
  if s.isEmpty ∨ s.length > 6 then none else
  s.foldl (fun acc c => match acc, hexVal c with | some a, some d => some (a * 16 + d) | _, _ => none) (some 0)

def decodeHex (w : String) : Option Str :=
  if w = "-" then some [] else
  (w.splitOn ".").mapM (fun p => match hexNat (p.toList.map Char.toNat) with
    | some n => if n.isValidChar then some n else none
    | none => none)

def toHex (n : Nat) : String := String.ofList (Nat.toDigits 16 n)

def encodeHex (s : Str) : String :=
  if s.isEmpty then "-" else ".".intercalate (s.map toHex)

def bit (c : Nat) : Option Bool := if c = 49 then some true else if c = 48 then some false else none

def toStr (s : String) : Str := s.toList.map Char.toNat
def ofStr (s : Str) : String := String.ofList (s.map Char.ofNat)

/-- reader for the prefix form; returns the AST and the rest of the input
    (86 `V`, 80 `P`, 65 `A`, 34 `"`, 40 `(`, 41 `)`, 91 `[`, 93 `]`) -/
def readAst : Nat → Str → Option (CType × Str)
  | 0, _ => none
  | f + 1, s =>
    match s with
    | 86 :: c :: v :: 34 :: r =>
      let name := r.takeWhile (· != 34)
      match r.dropWhile (· != 34), bit c, bit v with
      | _ :: rest, some c, some v => some (.value name c v, rest)
      | _, _, _ => none
    | 80 :: n :: c :: v :: q :: 40 :: r =>
      match bit n, bit c, bit v, bit q, readAst f r with
      | some n, some c, some v, some q, some (inner, 41 :: rest) => some (.pointer inner n c v q, rest)
      | _, _, _, _, _ => none
    | 65 :: 91 :: r =>
      let body := r.takeWhile (· != 93)
      match r.dropWhile (· != 93) with
      | 93 :: 40 :: r2 =>
        let exts : Option (List Int) :=
          if body.isEmpty then some [] else
          ((ofStr body).splitOn ",").mapM (fun p => p.toInt?)
        match exts, readAst f r2 with
        | some exts, some (inner, 41 :: rest) => some (.array inner exts, rest)
        | _, _ => none
      | _ => none
    | _ => none

def readAstAll (s : String) : Option CType :=
  match readAst (s.length + 1) (toStr s) with
  | some (t, []) => some t
  | _ => none

def showRes (r : Option CType) : String :=
  match r with
  | some t => "ok " ++ ofStr (show_ t) ++ " | " ++ encodeHex (decl t) ++ " | " ++
      (match parseType (decl t) with | some u => ofStr (show_ u) | none => "reject")
  | none => "reject"

def showParse (r : Option CType) : String :=
  match r with
  | some t => ofStr (show_ t)
  | none => "reject"

/-- the text after the op word, with the single separating blank removed -/
def restOf (line : String) (op : String) : String :=
  ((line.drop (op.length + 1)).toString.trimAscii).toString

def step (line0 : String) : String :=
  let line := (line0.trimAscii).toString
  match words line with
  | ["parse", h] => match decodeHex h with
    | some s => showRes (parseType s)
    | none => "bad-op"
  | ["ret", h] => match decodeHex h with
    | some s => showRes (parseReturnType s)
    | none => "bad-op"
  | "decl" :: _ =>
    -- the AST may contain blanks inside names: split off an optional trailing hex word after the last ')' or '"'
    let body := restOf line "decl"
    let (astStr, nameHex) :=
      match body.splitOn " @ " with
      | [a, h] => (a, some h)
      | _ => (body, none)
    match readAstAll astStr, (match nameHex with | some h => decodeHex h | none => some []) with
    | some t, some nm => "ok " ++ encodeHex (declWith t nm) ++ " | " ++ showParse (parseType (decl t))
    | _, _ => "bad-op"
  | "wf" :: _ =>
    match readAstAll (restOf line "wf") with
    | some t => if WF t || t == specialType then "wf 1" else "wf 0"
    | none => "bad-op"
  | _ => "bad-op"

def main : IO Unit := runStateless step
