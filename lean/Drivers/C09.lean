import MjProof.Model.FwdInv
import Drivers.Common
/-
Line protocol of the discrete-acceleration model (C09; mirrors the `dacc` op of harness/c/c09_fwdinv.c).
Floats are the 16 hex digits of their IEEE bits.

  dacc <nv> M*(nv*nv) Mhat*(nv*nv) a_d*nv   -> x*nv  with  M x = Mhat a_d   (model of mj_discreteAcc)
                                            -> fail  when M is not numerically positive definite
  dacce <disEulerDamp 0|1> <disDamper 0|1> <anyDamping 0|1> <nv> M*(nv*nv) Mhat*(nv*nv) a_d*nv
                                            -> x*nv  (Euler case: the correction only when the branch condition holds)
-/
open MjProof MjProof.Driver MjProof.FwdInv

def fls? (l : List String) : Option (List Float) := l.mapM floatOfBits?
def showFs (l : List Float) : String := " ".intercalate (l.map floatBits)

def chunks {β : Type} (k : Nat) : (fuel : Nat) → List β → List (List β)
  | 0, _ => []
  | fuel + 1, l => if l.isEmpty ∨ k = 0 then [] else l.take k :: chunks k fuel (l.drop k)

def bool? (s : String) : Option Bool := if s == "0" then some false else if s == "1" then some true else none

def step (line : String) : String :=
  match words line with
  | "dacc" :: nv :: rest =>
    match nv.toNat?, fls? rest with
    | some nv, some xs =>
      if nv = 0 ∨ xs.length ≠ 2 * nv * nv + nv then "bad-op" else
      let M := chunks nv nv (xs.take (nv * nv))
      let Mhat := chunks nv nv ((xs.drop (nv * nv)).take (nv * nv))
      let ad := xs.drop (2 * nv * nv)
      if M.length ≠ nv ∨ Mhat.length ≠ nv then "bad-op" else
      match discreteAcc M Mhat ad with
      | some x => if x.length = nv then showFs x else "fail"
      | none => "fail"
    | _, _ => "bad-op"
  | "dacce" :: f1 :: f2 :: f3 :: nv :: rest =>
    match bool? f1, bool? f2, bool? f3, nv.toNat?, fls? rest with
    | some f1, some f2, some f3, some nv, some xs =>
      if nv = 0 ∨ xs.length ≠ 2 * nv * nv + nv then "bad-op" else
      let M := chunks nv nv (xs.take (nv * nv))
      let Mhat := chunks nv nv ((xs.drop (nv * nv)).take (nv * nv))
      let ad := xs.drop (2 * nv * nv)
      if M.length ≠ nv ∨ Mhat.length ≠ nv then "bad-op" else
      match discreteAccEuler f1 f2 f3 M Mhat ad with
      | some x => if x.length = nv then showFs x else "fail"
      | none => "fail"
    | _, _, _, _, _ => "bad-op"
  | _ => "bad-op"

def main : IO Unit := runStateless step
