import MjProof.Model.Kinematics
import MjProof.Model.DofChain
import Drivers.Common
/-
Line protocol of the C07 kinematics model (mirrors the `->` records printed by harness/c/c07_oracle.c).
Floats are the 16 hex digits of their IEEE bits (`nan` for NaN), ints decimal.  A line is an op followed by
`key count v1 .. vcount` groups in any order:

  FK     body_parentid nb .. body_jntadr nb .. body_jntnum nb .. body_mocapid nb .. body_pos 3nb .. body_quat 4nb ..
         body_ipos 3nb .. body_iquat 4nb .. body_sameframe nb .. mocap_pos 3nm .. mocap_quat 4nm ..
         jnt_type nj .. jnt_qposadr nj .. jnt_pos 3nj .. jnt_axis 3nj .. qpos0 nq .. qpos nq ..
         geom_bodyid ng .. geom_pos .. geom_quat .. geom_sameframe .. site_bodyid ns .. site_pos .. site_quat ..
         site_sameframe .. cam_bodyid nc .. cam_pos .. cam_quat .. light_bodyid nl .. light_pos .. light_dir ..
      -> xpos 3nb .. xquat 4nb .. xmat 9nb .. xanchor 3nj .. xaxis 3nj .. xipos 3nb .. ximat 9nb .. geom_xpos ..
         geom_xmat .. site_xpos .. site_xmat .. cam_xpos .. cam_xmat .. light_xpos .. light_xdir ..   (mj_kinematics + fixed cameras / lights)
  INTEG  jnt_type nj .. qpos nq .. qvel nv .. dt 1 ..                  -> nq floats   (mj_integratePos)
  DIFF   jnt_type nj .. qpos1 nq .. qpos2 nq .. dt 1 ..                -> nv floats   (mj_differentiatePos)
  CHAIN  body_weldid nb .. body_dofnum nb .. body_dofadr nb .. dof_parentid nv .. b1 1 .. b2 1 .. skip 1 ..
                                                                       -> NV c1 .. cNV   (mj_mergeChain, general case)

Joint types as in mjtJoint: 0 free, 1 ball, 2 slide, 3 hinge (checked against the headers by checks/c07.py).
Anything else, a malformed token, an index out of range or a length mismatch -> bad-op.
-/
open MjProof MjProof.Driver MjProof.Kinematics

def fls? (l : List String) : Option (List Float) := l.mapM floatOfBits?
def showFs (l : List Float) : String := " ".intercalate (l.map floatBits)
def showGroup (key : String) (l : List Float) : String :=
  key ++ " " ++ toString l.length ++ (if l.isEmpty then "" else " " ++ showFs l)

def groups : (fuel : Nat) → List String → Option (List (String × List String))
  | _, [] => some []
  | 0, _ => none
  | fuel + 1, key :: n :: rest =>
    match n.toNat? with
    | some n =>
      if rest.length < n then none
      else (groups fuel (rest.drop n)).map (fun g => (key, rest.take n) :: g)
    | none => none
  | _, _ => none

def look (g : List (String × List String)) (key : String) : Option (List String) :=
  match g.filter (fun kv => kv.1 == key) with
  | [kv] => some kv.2
  | _ => none
def lookF (g : List (String × List String)) (key : String) : Option (Array Float) :=
  ((look g key).bind fls?).map List.toArray
def lookI (g : List (String × List String)) (key : String) : Option (Array Int) :=
  ((look g key).bind (fun l => l.mapM String.toInt?)).map List.toArray

def nat? (i : Int) : Option Nat := if 0 ≤ i then some i.toNat else none

def g3 (a : Array Float) (i : Nat) : Option (V3 Float) := do
  pure (← a[3 * i]?, ← a[3 * i + 1]?, ← a[3 * i + 2]?)
def g4 (a : Array Float) (i : Nat) : Option (Q4 Float) := do
  pure (← a[i]?, ← a[i + 1]?, ← a[i + 2]?, ← a[i + 3]?)
def l3 (v : V3 Float) : List Float := [v.1, v.2.1, v.2.2]
def l4 (q : Q4 Float) : List Float := [q.1, q.2.1, q.2.2.1, q.2.2.2]
def l9 (m : M9 Float) : List Float :=
  [m.1, m.2.1, m.2.2.1, m.2.2.2.1, m.2.2.2.2.1, m.2.2.2.2.2.1, m.2.2.2.2.2.2.1, m.2.2.2.2.2.2.2.1, m.2.2.2.2.2.2.2.2]

/-- joint coordinates of joint `j` from the flat arrays -/
def jointQ (jtype : Int) (adr : Nat) (qpos qpos0 : Array Float) : Option (JointQ Float) :=
  if jtype = 0 then do
    pure (.free (← qpos[adr]?, ← qpos[adr + 1]?, ← qpos[adr + 2]?) (← g4 qpos (adr + 3)))
  else if jtype = 1 then do pure (.ball (← g4 qpos adr))
  else if jtype = 2 then do pure (.slide (← qpos[adr]?) (← qpos0[adr]?))
  else if jtype = 3 then do pure (.hinge (← qpos[adr]?) (← qpos0[adr]?))
  else none

def runFK (g : List (String × List String)) : Option String := do
  let parent ← lookI g "body_parentid"
  let jntadr ← lookI g "body_jntadr"
  let jntnum ← lookI g "body_jntnum"
  let mocapid ← lookI g "body_mocapid"
  let bpos ← lookF g "body_pos"
  let bquat ← lookF g "body_quat"
  let bipos ← lookF g "body_ipos"
  let biquat ← lookF g "body_iquat"
  let bsame ← lookI g "body_sameframe"
  let mpos ← lookF g "mocap_pos"
  let mquat ← lookF g "mocap_quat"
  let jtype ← lookI g "jnt_type"
  let jqadr ← lookI g "jnt_qposadr"
  let jpos ← lookF g "jnt_pos"
  let jaxis ← lookF g "jnt_axis"
  let qpos0 ← lookF g "qpos0"
  let qpos ← lookF g "qpos"
  let nb := parent.size
  let nj := jtype.size
  if g.length ≠ 31 then none else
  if nb = 0 ∨ jntadr.size ≠ nb ∨ jntnum.size ≠ nb ∨ mocapid.size ≠ nb ∨ bpos.size ≠ 3 * nb ∨ bquat.size ≠ 4 * nb ∨
     bipos.size ≠ 3 * nb ∨ biquat.size ≠ 4 * nb ∨ bsame.size ≠ nb ∨ jqadr.size ≠ nj ∨ jpos.size ≠ 3 * nj ∨
     jaxis.size ≠ 3 * nj ∨ qpos0.size ≠ qpos.size then none else
  -- bodies 1 .. nb-1, joints in index order (body_jntadr must be the running count, as the compiler lays them out)
  let mut bodies : List (Body Float) := []
  let mut jcount : Nat := 0
  for i in List.range nb do
    if i = 0 then continue
    let p ← nat? (← parent[i]?)
    if p ≥ i then none
    let ja ← (← jntadr[i]?) |> fun (x : Int) => if x = -1 then some jcount else nat? x
    let jn ← nat? (← jntnum[i]?)
    if jn > 0 ∧ ja ≠ jcount then none
    let mut js : List (Joint Float) := []
    for k in List.range jn do
      let j := jcount + k
      let jq ← jointQ (← jtype[j]?) (← nat? (← jqadr[j]?)) qpos qpos0
      js := js ++ [{ pos := ← g3 jpos j, axis := ← g3 jaxis j, jq := jq }]
    jcount := jcount + jn
    let mid ← mocapid[i]?
    let b : Body Float ←
      if mid ≥ 0 then do
        let mi ← nat? mid
        pure { parent := p, pos := ← g3 mpos mi, quat := ← g4 mquat (4 * mi), mocap := true, joints := js }
      else do
        pure { parent := p, pos := ← g3 bpos i, quat := ← g4 bquat (4 * i), mocap := false, joints := js }
    bodies := bodies ++ [b]
  if jcount ≠ nj then none
  let outs ← fk bodies
  let frames : Array (Frame Float) := (worldFrame :: outs.map (·.frame)).toArray
  let anchors := outs.flatMap (·.anchors)
  -- inertial frames
  let mut xi : Array (V3 Float × M9 Float) := #[(zero3, eye9)]
  for i in List.range nb do
    if i = 0 then continue
    let f ← frames[i]?
    let r ← local2Global f zero3 eye9 (← g3 bipos i) (← g4 biquat (4 * i)) (← bsame[i]?)
    xi := xi.push r
  -- attached frames
  let attach (pre : String) (withSame : Bool) : Option (List Float × List Float) := do
    let bid ← lookI g (pre ++ "_bodyid")
    let ps ← lookF g (pre ++ "_pos")
    let qs ← lookF g (pre ++ "_quat")
    let sf ← if withSame then lookI g (pre ++ "_sameframe") else some (Array.replicate bid.size 0)
    if ps.size ≠ 3 * bid.size ∨ qs.size ≠ 4 * bid.size ∨ sf.size ≠ bid.size then none else
    let mut xp : List Float := []
    let mut xm : List Float := []
    for k in List.range bid.size do
      let b ← nat? (← bid[k]?)
      let f ← frames[b]?
      let xib ← xi[b]?
      let r ← local2Global f xib.1 xib.2 (← g3 ps k) (← g4 qs (4 * k)) (← sf[k]?)
      xp := xp ++ l3 r.1
      xm := xm ++ l9 r.2
    pure (xp, xm)
  let geo ← attach "geom" true
  let sit ← attach "site" true
  let cam ← attach "cam" false
  -- fixed-mode lights: position through mj_local2Global (no orientation, sameframe 0), direction rotated by the body
  -- quaternion, then mju_normalize3
  let lbid ← lookI g "light_bodyid"
  let lpos ← lookF g "light_pos"
  let ldir ← lookF g "light_dir"
  if lpos.size ≠ 3 * lbid.size ∨ ldir.size ≠ 3 * lbid.size then none else
  let mut lxp : List Float := []
  let mut lxd : List Float := []
  for k in List.range lbid.size do
    let b ← nat? (← lbid[k]?)
    let f ← frames[b]?
    let xib ← xi[b]?
    let r ← local2Global f xib.1 xib.2 (← g3 lpos k) (1, 0, 0, 0) 0
    lxp := lxp ++ l3 r.1
    let dv := rotVecQuat (← g3 ldir k) f.quat
    let nd := MjProof.Gen.mju_normalize3 dv.1 dv.2.1 dv.2.2          -- mj_camlight normalises every direction at the end
    lxd := lxd ++ [nd.2.1, nd.2.2.1, nd.2.2.2]
  pure (" ".intercalate [
    showGroup "xpos" (frames.toList.flatMap (fun f => l3 f.pos)),
    showGroup "xquat" (frames.toList.flatMap (fun f => l4 f.quat)),
    showGroup "xmat" (frames.toList.flatMap (fun f => l9 f.mat)),
    showGroup "xanchor" (anchors.flatMap (fun a => l3 a.1)),
    showGroup "xaxis" (anchors.flatMap (fun a => l3 a.2)),
    showGroup "xipos" (xi.toList.flatMap (fun r => l3 r.1)),
    showGroup "ximat" (xi.toList.flatMap (fun r => l9 r.2)),
    showGroup "geom_xpos" geo.1, showGroup "geom_xmat" geo.2,
    showGroup "site_xpos" sit.1, showGroup "site_xmat" sit.2,
    showGroup "cam_xpos" cam.1, showGroup "cam_xmat" cam.2,
    showGroup "light_xpos" lxp, showGroup "light_xdir" lxd])

def jnq (t : Int) : Option Nat := if t = 0 then some 7 else if t = 1 then some 4 else if t = 2 ∨ t = 3 then some 1 else none
def jnv (t : Int) : Option Nat := if t = 0 then some 6 else if t = 1 then some 3 else if t = 2 ∨ t = 3 then some 1 else none

def showJQ : JointQ Float → List Float
  | .free p q => l3 p ++ l4 q
  | .ball q => l4 q
  | .slide x _ => [x]
  | .hinge x _ => [x]

def runInteg (g : List (String × List String)) : Option String := do
  let jtype ← lookI g "jnt_type"
  let qpos ← lookF g "qpos"
  let qvel ← lookF g "qvel"
  let dt ← match (← lookF g "dt").toList with
    | [x] => some x
    | _ => none
  if g.length ≠ 4 then none else
  let mut pa : Nat := 0
  let mut va : Nat := 0
  let mut out : List Float := []
  for t in jtype.toList do
    let nq ← jnq t
    let nv ← jnv t
    let jq ← jointQ t pa qpos qpos   -- qpos0 is irrelevant here
    let v := (qvel.toList.drop va).take nv
    let r ← integrateJoint dt jq v
    out := out ++ showJQ r
    pa := pa + nq
    va := va + nv
  if pa ≠ qpos.size ∨ va ≠ qvel.size then none else
  pure (showFs out)

def runDiff (g : List (String × List String)) : Option String := do
  let jtype ← lookI g "jnt_type"
  let q1 ← lookF g "qpos1"
  let q2 ← lookF g "qpos2"
  let dt ← match (← lookF g "dt").toList with
    | [x] => some x
    | _ => none
  if g.length ≠ 4 ∨ q1.size ≠ q2.size then none else
  let mut pa : Nat := 0
  let mut out : List Float := []
  for t in jtype.toList do
    let nq ← jnq t
    let a ← jointQ t pa q1 q1
    let b ← jointQ t pa q2 q2
    let v ← differentiateJoint dt a b
    out := out ++ v
    pa := pa + nq
  if pa ≠ q1.size then none else
  pure (showFs out)

def runChain (g : List (String × List String)) : Option String := do
  let weld ← lookI g "body_weldid"
  let dofnum ← lookI g "body_dofnum"
  let dofadr ← lookI g "body_dofadr"
  let par ← lookI g "dof_parentid"
  let one (key : String) : Option Int := match (lookI g key).map Array.toList with
    | some [x] => some x
    | _ => none
  let b1 ← (← one "b1") |> nat?
  let b2 ← (← one "b2") |> nat?
  let skip ← one "skip"
  if g.length ≠ 7 ∨ weld.size ≠ dofnum.size ∨ weld.size ≠ dofadr.size ∨ ¬ (skip = 0 ∨ skip = 1) then none else
  if ¬ MjProof.DofChain.parOk par then none else
  let s1 ← MjProof.DofChain.lastDof weld dofnum dofadr b1
  let s2 ← MjProof.DofChain.lastDof weld dofnum dofadr b2
  if s1 > par.size ∨ s2 > par.size then none else
  let c := MjProof.DofChain.mergeChain (MjProof.DofChain.parOf par) (skip == 1) s1 s2
  pure (" ".intercalate ((toString c.length) :: c.map toString))

def answer (line : String) : String :=
  match words line with
  | op :: rest =>
    match groups (rest.length + 1) rest with
    | some g =>
      (match op with
       | "FK" => runFK g
       | "INTEG" => runInteg g
       | "DIFF" => runDiff g
       | "CHAIN" => runChain g
       | _ => none).getD "bad-op"
    | none => "bad-op"
  | [] => "bad-op"

def main : IO Unit := runStateless answer
