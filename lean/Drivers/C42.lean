import MjProof.Model.SchemaGen
import MjProof.Model.SchemaGen2
import MjProof.Model.SchemaGenExtract
import Drivers.Common
/-
Line protocol (ASCII on the wire, space-separated tokens; a string token is `=` + text with every character outside
0x21..0x7e, the backslash and the double quote written `\u{hex}`) -- see harness/py/c42_generate.py:

  gen <which> =<schema> <hdr> structs <n> {=<struct> <k> {=<field> =<ctype> <dim>}*k}*n
      dims <m> {=<name> <int>}*m sensors (- | <p> {=<name>}*p) groups (- | <q> {=<group> =<struct> =<array>}*q)
  -> `ok =<generated text>` | `error <ExceptionType>`
  xgen <which> ...same...   -> the model's extraction applied to the model's own output, compared with the row layer:
                               `ok <n rows> extract=rows` | `ok <n> MISMATCH` | `error <ExceptionType>`
`hdr` (the C header text) is ignored by the model: its inputs are the parsed `structs` / `dims`.
-/
open MjProof MjProof.Schema MjProof.SchemaGen

def hexDigits (n : Nat) : String := String.ofList (Nat.toDigits 16 n)

def escChar (c : Char) : List Char :=
  if 0x21 ≤ c.toNat ∧ c.toNat ≤ 0x7e ∧ c ≠ '\\' ∧ c ≠ '"' then [c]
  else "\\u{".toList ++ Nat.toDigits 16 c.toNat ++ ['}']

def esc (s : List Char) : List Char := s.flatMap escChar

def hexVal? (c : Char) : Option Nat :=
  if '0' ≤ c ∧ c ≤ '9' then some (c.toNat - '0'.toNat)
  else if 'a' ≤ c ∧ c ≤ 'f' then some (c.toNat - 'a'.toNat + 10)
  else none

def readHex (acc : Nat) (n : Nat) : List Char → Option (Nat × List Char)
  | '}' :: rest => if n = 0 then none else some (acc, rest)
  | c :: rest => match hexVal? c with
    | some v => if n ≥ 6 then none else readHex (acc * 16 + v) (n + 1) rest
    | none => none
  | [] => none

def decode : Nat → List Char → List Char → Option (List Char)
  | _, [], acc => some acc.reverse
  | 0, _ :: _, _ => none
  | fuel + 1, '\\' :: 'u' :: '{' :: rest, acc =>
    match readHex 0 0 rest with
    | some (cp, rest') =>
      if h : cp.isValidChar then decode fuel rest' (Char.ofNatAux cp h :: acc) else none
    | none => none
  | fuel + 1, c :: rest, acc =>
    if c = '\\' ∨ c = '"' ∨ c.toNat < 0x21 ∨ c.toNat > 0x7e then none else decode fuel rest (c :: acc)

/-- token reader over the remaining tokens -/
abbrev P := StateT (List (List Char)) Option

def tok : P (List Char) := do
  match (← get) with
  | [] => failure
  | t :: r => set r; pure t

def kw (w : String) : P Unit := do
  let t ← tok
  if t = w.toList then pure () else failure

def str : P (List Char) := do
  match (← tok) with
  | '=' :: r => match decode r.length r [] with
    | some d => pure d
    | none => failure
  | _ => failure

def peekDash : P Bool := do
  match (← get) with
  | ['-'] :: r => set r; pure true
  | _ => pure false

def optStr : P (Option (List Char)) := do
  if (← peekDash) then pure none else some <$> str

def num : P Nat := do
  let t ← tok
  if t.isEmpty ∨ t.length > 9 ∨ ¬ t.all Char.isDigit then failure
  else pure (Nat.ofDigitChars 10 t 0)

def rep {α : Type} (p : P α) : Nat → P (List α)
  | 0 => pure []
  | n + 1 => do
    let x ← p
    let xs ← rep p n
    pure (x :: xs)

structure Op where
  which : List Char
  schema : List Char
  structs : Structs
  dims : List (Txt × Nat)
  sensors : Option (List Txt)
  groups : Option (List (Txt × Txt × Txt))

/-- dict semantics of the wire encoding: a later duplicate key replaces the earlier value, at the earlier position -/
def dictInsert {β : Type} (l : List (Txt × β)) (k : Txt) (v : β) : List (Txt × β) :=
  if l.any (fun e => e.1 = k) then l.map (fun e => if e.1 = k then (k, v) else e) else l ++ [(k, v)]

def dictOf {β : Type} (l : List (Txt × β)) : List (Txt × β) := l.foldl (fun acc e => dictInsert acc e.1 e.2) []

def opP : P Op := do
  let which ← tok
  let schema ← str
  let _hdr ← optStr
  kw "structs"
  let n ← num
  let structs ← rep (do
    let name ← str
    let k ← num
    let fields ← rep (do
      let f ← str
      let ct ← str
      let dim ← optStr
      pure (f, ct, dim)) k
    pure (name, dictOf fields)) n
  kw "dims"
  let m ← num
  let dims ← rep (do
    let k ← str
    let v ← num
    pure (k, v)) m
  kw "sensors"
  let sensors ← (do
    if (← peekDash) then pure none else
      let p ← num
      some <$> rep str p)
  kw "groups"
  let groups ← (do
    if (← peekDash) then pure none else
      let q ← num
      some <$> rep (do
        let g ← str
        let st ← str
        let arr ← str
        pure (g, st, arr)) q)
  match (← get) with
  | [] => pure ⟨which, schema, dictOf structs, dictOf dims, sensors, (groups.map dictOf)⟩
  | _ => failure

def errName : GenErr → String
  | .schemaError => "SchemaError" | .keyError => "KeyError" | .valueError => "ValueError"
  | .recursionError => "RecursionError" | .assertionError => "AssertionError" | .overflowError => "OverflowError"
  | .typeError => "TypeError" | .attributeError => "AttributeError" | .unmodelled => "UNMODELLED"

def showRes : Except GenErr Txt → String
  | .ok t => "ok =" ++ String.ofList (esc t)
  | .error e => "error " ++ errName e

def whichOk (w : List Char) (l : List String) : Bool := l.any (fun x => x.toList = w)

def runGen (op : Op) : Option String :=
  if ¬ whichOk op.which ["map", "table", "default", "read", "xsd", "dmcontrol"] then none else
  match parseString op.schema with
  | .error _ => some "error SchemaError"
  | .ok s =>
    let cfg : ReadCfg := ⟨op.sensors.getD sensorDispatch, op.groups.getD emitGroups⟩
    if op.which = "map".toList then some (showRes (genMap s))
    else if op.which = "table".toList then some (showRes (genTable s))
    else if op.which = "default".toList then some (showRes (genDefault s op.structs))
    else if op.which = "read".toList then some (showRes (genRead s op.structs cfg))
    else if op.which = "xsd".toList then some (showRes (genXsd s op.dims))
    else if op.which = "dmcontrol".toList then some (showRes (genDmcontrol s op.dims))
    else none

def showX {α : Type} [BEq α] (rows : Except GenErr α) (text : Except GenErr Txt) (ex : Txt → Option α) (size : α → Nat) : String :=
  match rows, text with
  | .ok r, .ok t =>
    match ex t with
    | some r' => "ok " ++ toString (size r) ++ (if r' == r then " extract=rows" else " MISMATCH")
    | none => "ok " ++ toString (size r) ++ " MISMATCH(none)"
  | .error e, _ => "error " ++ errName e
  | _, .error e => "error " ++ errName e

def runX (op : Op) : Option String :=
  if ¬ whichOk op.which ["map", "table", "default"] then none else
  match parseString op.schema with
  | .error _ => some "error SchemaError"
  | .ok s =>
    if op.which = "map".toList then
      some (showX (genMap s |>.map fun _ => mapRows s) (genMap s) extractMap List.length)
    else if op.which = "table".toList then
      some (showX ((tableTree s).map fun t => tableFacts (flatNode 0 t)) (genTable s) extractTable (fun r => r.1.length))
    else if op.which = "default".toList then
      some (showX ((defaultTables s op.structs).map defaultFacts) (genDefault s op.structs) extractDefault List.length)
    else none

def step (line : String) : String :=
  let cs := line.toList
  let cs := if cs.getLast? = some '\n' then cs.dropLast else cs
  match cs.splitOn ' ' with
  | g :: rest =>
    if g = "gen".toList then
      match (opP.run rest) with
      | some (op, _) => (runGen op).getD "bad-op"
      | none => "bad-op"
    else if g = "xgen".toList then
      match (opP.run rest) with
      | some (op, _) => (runX op).getD "bad-op"
      | none => "bad-op"
    else "bad-op"
  | [] => "bad-op"

def main : IO Unit := Driver.runStateless step
