import MjProof.Model.InertiaSparse
import Drivers.Common
/-
Line protocol of the C06 sparse-inertia model (mirrors the `->` records printed by harness/c/c06_oracle.c).
Floats are the 16 hex digits of their IEEE bits (`nan` for NaN), ints decimal.  A line is an op followed by
`key count v1 .. vcount` groups in any order:

  MULM   n 1 <nv> rownnz nv .. rowadr nv .. colind nC .. M nC .. v nv ..       -> nv floats   (mj_mulM)
  FULLM  n 1 <nv> rownnz .. rowadr .. colind .. M ..                           -> nv*nv floats (mj_fullM, row major)
  FACTOR n 1 <nv> rownnz .. rowadr .. colind .. M ..                           -> qLD nC .. dinv nv ..  (mj_factorM)
  SOLVE  n 1 <nv> rownnz .. rowadr .. colind .. qLD nC .. dinv nv .. y k*nv .. -> k*nv floats (mj_solveM, k vectors)

The pattern must satisfy `lowerOk` and `treeOk` (what mj_makeDofDofSparse produces); anything else, a malformed
token or a length mismatch -> bad-op.
-/
open MjProof MjProof.Driver MjProof.InertiaSparse

def fls? (l : List String) : Option (List Float) := l.mapM floatOfBits?
def showFs (l : List Float) : String := " ".intercalate (l.map floatBits)
def showGroup (key : String) (l : List Float) : String :=
  key ++ " " ++ toString l.length ++ (if l.isEmpty then "" else " " ++ showFs l)

/-- parse `key n v1..vn key n ...` -/
def groups : (fuel : Nat) → List String → Option (List (String × List String))
  | _, [] => some []
  | 0, _ => none
  | fuel + 1, key :: n :: rest =>
    match n.toNat? with
    | some n =>
      if rest.length < n then none
      else (groups fuel (rest.drop n)).map (fun g => (key, rest.take n) :: g)
    | none => none
  | _, _ => none

def look (g : List (String × List String)) (key : String) : Option (List String) :=
  match g.filter (fun kv => kv.1 == key) with
  | [kv] => some kv.2
  | _ => none
def lookF (g : List (String × List String)) (key : String) : Option (List Float) := (look g key).bind fls?
def lookI (g : List (String × List String)) (key : String) : Option (List Int) :=
  (look g key).bind (fun l => l.mapM String.toInt?)

def chunks (n : Nat) : (fuel : Nat) → List Float → Option (List (List Float))
  | _, [] => some []
  | 0, _ => none
  | fuel + 1, l => if l.length < n ∨ n = 0 then none else (chunks n fuel (l.drop n)).map (l.take n :: ·)

def runOp (op : String) (g : List (String × List String)) : Option String := do
  let nn ← lookI g "n"
  let n ← match nn with
    | [x] => natOf? x
    | _ => none
  let rownnz ← lookI g "rownnz"
  let rowadr ← lookI g "rowadr"
  let colind ← lookI g "colind"
  let valsKey := if op == "SOLVE" then "qLD" else "M"
  let vals ← lookF g valsKey
  let M : SymCsr Float n ← fromCsr? n rownnz rowadr colind vals
  if !(lowerOk M && treeOk M) then none else
  match op with
  | "MULM" => do
      let v ← vecOf? n (← lookF g "v")
      if g.length ≠ 6 then none else
      pure (showFs (mulM M v).toList)
  | "FULLM" =>
      if g.length ≠ 5 then none else
      pure (showFs (Dense.flat (fullM M)))
  | "FACTOR" =>
      if g.length ≠ 5 then none else
      let r := factorI M
      pure (showGroup "qLD" (SymCsr.flat r.1) ++ " " ++ showGroup "dinv" r.2.toList)
  | "SOLVE" => do
      let dinv ← vecOf? n (← lookF g "dinv")
      let y ← lookF g "y"
      if g.length ≠ 7 ∨ n = 0 then none else
      let ys ← chunks n (y.length + 1) y
      let xs ← ys.mapM (fun yk => (vecOf? n yk).map (fun yv => (solveLD M dinv yv).toList))
      pure (showFs xs.flatten)
  | _ => none

def answer (line : String) : String :=
  match words line with
  | op :: rest =>
    match groups (rest.length + 1) rest with
    | some g => (runOp op g).getD "bad-op"
    | none => "bad-op"
  | [] => "bad-op"

def main : IO Unit := runStateless answer
