import MjProof.Model.Sort
import Drivers.Common
/-
Line protocol (one op per line, keys are ints; element i carries tag i; cmp compares keys only):
  sort k0 k1 ...        -> tags after mjSORT
  isort k0 k1 ...       -> keys after mju_insertionSortInt
  psort K k0 k1 ...     -> tags of the whole array after mjPARTIAL_SORT with k = K
-/
open MjProof MjProof.Driver

def cmpKey (a b : Int × Nat) : Int := if a.1 < b.1 then -1 else if a.1 > b.1 then 1 else 0
def cmpInt (a b : Int) : Int := if a > b then 1 else 0   -- `list[j] > x`

def tagged (ks : List Int) : List (Int × Nat) := ks.zipIdx

def step (line : String) : String :=
  match words line with
  | "sort" :: ks =>
    match ks.mapM String.toInt? with
    | some ks => joinNats ((Sort.mjSort cmpKey (tagged ks)).map (·.2))
    | none => "bad-op"
  | "isort" :: ks =>
    match ks.mapM String.toInt? with
    | some ks => joinInts (Sort.insertionSort cmpInt ks)
    | none => "bad-op"
  | "psort" :: k :: ks =>
    match k.toInt?, ks.mapM String.toInt? with
    | some k, some ks => joinNats ((Sort.partialSort cmpKey (tagged ks) k).map (·.2))
    | _, _ => "bad-op"
  | _ => "bad-op"

def main : IO Unit := runStateless step
