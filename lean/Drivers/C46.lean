import MjProof.Model.LeastSquares
import Drivers.Common
/-
Replay driver for C46.  Floats are the 16 hex digits of their IEEE bits.

  run <spec> | n m maxIter hasBounds eps muMin muMax muFactor xtol gtol c1 x0[n] (lo[n] hi[n])? D[n]
        nR {x[n] r[m]}*  nV {r[m] y}*  nG {r[m] proj[m*n] grad[n] hess[n*n]}*
        nQ {warm[n] H[n*n] g[n] (dl[n] du[n])? ok dx[n]}*   (warm / dx = the dx buffer before / after the call)
      The tables are everything that crossed the residual / Norm / mju_boxQP interfaces in a logged run of
      the real `least_squares`.  The model `LeastSquares.leastSquares` is executed on `Float` with the three
      oracles answering by table lookup on the bit patterns of their arguments (a miss = `aborted`): every
      control decision (clip, FD probe points, dlower/dupper, H = hess + mu I, candidate, accept/reject,
      mu updates, termination status) is the model's own.  Output:
        <status> i=<iters> nres=<#calls> x=<..> T=<x..:y:reduction:mu;...> C=<call points;...>
      `<spec>` (the implementation's problem description) is ignored.
  witness lo hi x D   -> dupper, unclipped x + D*dupper, inside|outside, clipped candidate, inside|outside
                         (one coordinate, box-QP answer clamped at the upper bound)
-/
open MjProof MjProof.Driver MjProof.LeastSquares

abbrev PM := StateT (List String) Option

def tok : PM String := fun s => match s with | [] => none | t :: r => some (t, r)
def pNat : PM Nat := do let t ← tok; match t.toNat? with | some n => pure n | none => failure
def pFloat : PM Float := do let t ← tok; match floatOfBits? t with | some f => pure f | none => failure
def pVec (n : Nat) : PM (List Float) := (List.range n).mapM (fun _ => pFloat)
def pMat (rows cols : Nat) : PM (List (List Float)) := (List.range rows).mapM (fun _ => pVec cols)
def pMany {β : Type} (p : PM β) : PM (List β) := do let k ← pNat; (List.range k).mapM (fun _ => p)

def bitsKey (v : List Float) : List UInt64 := v.map (fun x => if x.isNaN then 0x7ff8000000000000 else x.toBits)

def lookup {β : Type} (tbl : Array (List UInt64 × β)) (k : List UInt64) : Option β :=
  (tbl.find? (fun e => e.1 == k)).map (·.2)

structure Replay where
  Q : Problem Float
  x0 : List Float

def pReplay : PM Replay := do
  let n ← pNat; let m ← pNat; let maxIter ← pNat; let hb ← pNat
  if hb > 1 then failure
  let eps ← pFloat; let muMin ← pFloat; let muMax ← pFloat; let muFactor ← pFloat
  let xtol ← pFloat; let gtol ← pFloat; let c1 ← pFloat
  let x0 ← pVec n
  let bounds ← if hb = 1 then (do let lo ← pVec n; let hi ← pVec n; pure (some (lo, hi))) else pure none
  let D ← pVec n
  let R ← pMany (do let x ← pVec n; let r ← pVec m; pure (bitsKey x, r))
  let V ← pMany (do let r ← pVec m; let y ← pFloat; pure (bitsKey r, y))
  let G ← pMany (do
    let r ← pVec m; let proj ← pMat m n; let g ← pVec n; let h ← pMat n n
    pure (bitsKey r ++ bitsKey proj.flatten, (g, h)))
  let QP ← pMany (do
    let w ← pVec n; let H ← pMat n n; let g ← pVec n
    let db ← if hb = 1 then (do let dl ← pVec n; let du ← pVec n; pure (dl ++ du)) else pure []
    let ok ← pNat; let dx ← pVec n
    if ok > 1 then failure
    pure (bitsKey w ++ bitsKey H.flatten ++ bitsKey g ++ bitsKey db,
          if ok = 1 then QPResult.ok dx else QPResult.failed dx))
  let rest ← get
  if !rest.isEmpty then failure
  let R := R.toArray; let V := V.toArray; let G := G.toArray; let QP := QP.toArray
  let P : Params Float := {
    eps, muMin, muMax, muFactor, xtol, gtol, c1, maxIter, innerFuel := 100000,
    dmu := fun k => Float.pow (1.0 / muFactor) (Float.ofNat (2 ^ k)) }
  let Q : Problem Float := {
    P, bounds, D,
    residual := fun x => lookup R (bitsKey x),
    norm := { value := fun r => lookup V (bitsKey r),
              gradHess := fun r proj => lookup G (bitsKey r ++ bitsKey proj.flatten) },
    boxQP := fun w H g db =>
      let k := match db with | none => [] | some (dl, du) => bitsKey dl ++ bitsKey du
      lookup QP (bitsKey w ++ bitsKey H.flatten ++ bitsKey g ++ k) }
  pure { Q, x0 }

def showVec (v : List Float) : String := ",".intercalate (v.map floatBits)

def showStatus : Status → String
  | .factorizationFailed => "factorizationFailed"
  | .noImprovement => "noImprovement"
  | .maxIter => "maxIter"
  | .dxTol => "dxTol"
  | .gTol => "gTol"
  | .aborted w => "aborted:" ++ w
  | .fuelOut => "fuelOut"

def showResult (r : Result Float) : String :=
  let T := ";".intercalate (r.trace.map (fun e =>
    showVec e.candidate ++ ":" ++ floatBits e.objective ++ ":" ++ floatBits e.reduction ++ ":" ++ floatBits e.regularizer))
  let C := ";".intercalate (r.calls.map showVec)
  s!"{showStatus r.status} i={r.iters} nres={r.calls.length} x={showVec r.x} T={T} C={C}"

def step (line : String) : String :=
  match words line with
  | "run" :: _spec :: "|" :: toks =>
    match pReplay.run toks with
    | some (rp, _) => showResult (leastSquares rp.Q rp.x0)
    | none => "bad-op"
  | ["witness", lo, hi, x, D] =>
    match floatOfBits? lo, floatOfBits? hi, floatOfBits? x, floatOfBits? D with
    | some _lo, some hi, some x, some D =>
      match dBound [hi] [x] [D] with
      | [du] =>
        match candidate [x] [D] [du], clipStart (some ([_lo], [hi])) (candidate [x] [D] [du]) with
        | [xn], [xc] =>
          s!"{floatBits du} {floatBits xn} {if hi < xn then "outside" else "inside"} {floatBits xc} {if hi < xc || xc < _lo then "outside" else "inside"}"
        | _, _ => "bad-op"
      | _ => "bad-op"
    | _, _, _, _ => "bad-op"
  | _ => "bad-op"

def main : IO Unit := runStateless step
