import MjProof.Model.Schema
import Drivers.Common
/-
Line protocol (ASCII only on the wire):
  parse <text>    text with every character outside 0x20..0x7e, and the backslash, written `\u{hex}`
                  -> `ok <canonical dump of the Schema>`  or  `error <line> <class>`
  classes         -> the `\d` (Unicode Nd) and `str.isspace()` tables of the model
-/
open MjProof MjProof.Schema

def hexDigits (n : Nat) : String := String.ofList (Nat.toDigits 16 n)

def escChar (c : Char) : String :=
  if 0x21 ≤ c.toNat ∧ c.toNat ≤ 0x7e ∧ c ≠ '\\' ∧ c ≠ '"' then String.singleton c
  else "\\u{" ++ hexDigits c.toNat ++ "}"

def esc (s : String) : String := String.join (s.toList.map escChar)
def q (s : String) : String := "\"" ++ esc s ++ "\""
def opt : Option String → String
  | none => "-"
  | some s => q s

def hex16 (n : Nat) : String :=
  let d := Nat.toDigits 16 n
  String.ofList (List.replicate (16 - d.length) '0' ++ d)

def dbl (d : Dbl) : String := hex16 d.bits

def kindName : Kind → String
  | .string => "string" | .number => "number" | .dotdot => "dotdot" | .ident => "ident" | .eof => "eof"
  | .punct c => String.singleton c

def clsName : Cls → String
  | .badChar => "badChar" | .expected k => "expected[" ++ kindName k ++ "]" | .badDecl => "badDecl"
  | .dupEnum => "dupEnum" | .dupGroup => "dupGroup" | .dupElement => "dupElement"
  | .enumKey => "enumKey" | .dupEnumKey => "dupEnumKey" | .enumVal => "enumVal"
  | .emptyEnum => "emptyEnum" | .emptyGroup => "emptyGroup"
  | .conTwo => "conTwo" | .setInGroup => "setInGroup" | .childInGroup => "childInGroup" | .card => "card"
  | .unknownType => "unknownType" | .arityRange => "arityRange" | .arityBound => "arityBound"
  | .notInt => "notInt" | .negArity => "negArity" | .badDefault => "badDefault"
  | .unknownFacet => "unknownFacet" | .dupFacet => "dupFacet" | .facetValue => "facetValue"
  | .cycle => "cycle" | .conUnknown => "conUnknown" | .variantUse => "variantUse"
  | .variantRequired => "variantRequired" | .danglingUse => "danglingUse" | .facetName => "facetName"
  | .danglingAlias => "danglingAlias" | .danglingChild => "danglingChild" | .dupChild => "dupChild"
  | .dupAttr => "dupAttr" | .requiresTwo => "requiresTwo" | .danglingEnum => "danglingEnum"
  | .danglingRef => "danglingRef" | .notVector => "notVector" | .charsUnbounded => "charsUnbounded"
  | .patternText => "patternText" | .minMaxNumeric => "minMaxNumeric" | .minMaxOrder => "minMaxOrder"
  | .positiveNumeric => "positiveNumeric" | .requiredDefault => "requiredDefault"
  | .enumDefaultKeyword => "enumDefaultKeyword" | .enumDefaultNotKw => "enumDefaultNotKw"
  | .noDefaultAllowed => "noDefaultAllowed" | .boolDefault => "boolDefault" | .stringDefault => "stringDefault"
  | .numericDefault => "numericDefault" | .vectorForScalar => "vectorForScalar"
  | .defaultTooShort => "defaultTooShort" | .defaultTooLong => "defaultTooLong"

def tyName : Ty → String
  | .double => "double" | .float => "float" | .int => "int" | .bool => "bool" | .string => "string"
  | .file => "file" | .chars => "chars" | .enum => "enum" | .flags => "flags" | .ref => "ref" | .id => "id"

def cardName : Card → String
  | .opt => "?" | .one => "!" | .star => "*" | .rep => "R"

def verbName : Verb → String
  | .exclusive => "exclusive" | .together => "together" | .requires => "requires" | .oneof => "oneof"

def hiStr : Hi → String
  | .num n => "n" ++ toString n
  | .sym s => "s" ++ q s
  | .none => "-"

def defaultStr : Option Default → List String
  | none => ["-"]
  | some (.num d) => ["f" ++ dbl d]
  | some (.str s) => ["s" ++ q s]
  | some (.vec ds) => ("v" ++ toString ds.length) :: ds.map dbl

def facetValStr : FacetVal → String
  | .flag => "T"
  | .str s => "s" ++ q s
  | .num d => "f" ++ dbl d

def facetsStr (fs : Facets) : List String :=
  toString fs.length :: fs.flatMap (fun e => [q e.1, facetValStr e.2])

variable {N : Nat}

def memberStr : Member N → List String
  | .attr a => ["attr", q a.name, tyName a.type, opt a.target, toString a.arity.lo, hiStr a.arity.hi]
      ++ defaultStr a.default ++ facetsStr a.facets ++ [opt a.doc, toString a.line.val]
  | .use u => ["use", q u.group, toString u.line.val]
  | .child c => ["child", q c.name, cardName c.card, opt c.doc, toString c.line.val]
  | .const c => ["const", q c.field, q c.value, opt c.doc, toString c.line.val]
  | .con c => ["con", verbName c.kind, toString c.bundles.length]
      ++ c.bundles.flatMap (fun b => toString b.length :: b.map q) ++ [opt c.doc, toString c.line.val]

def schemaStr (s : Schema N) : List String :=
  ["ok", "enums", toString s.enums.length]
  ++ s.enums.flatMap (fun e => ["enum", q e.name, opt e.ctype, opt e.doc, toString e.line.val,
        toString e.items.length] ++ e.items.flatMap (fun i => [q i.1, q i.2]))
  ++ ["groups", toString s.groups.length]
  ++ s.groups.flatMap (fun g => ["group", q g.name, (if g.variant then "1" else "0"), opt g.doc,
        toString g.line.val, toString g.members.length] ++ g.members.flatMap memberStr)
  ++ ["elements", toString s.elements.length]
  ++ s.elements.flatMap (fun e => ["element", q e.name, opt e.spec] ++ facetsStr e.facets ++ [opt e.doc,
        toString e.line.val, toString e.members.length] ++ e.members.flatMap memberStr)

def hexVal? (c : Char) : Option Nat :=
  if '0' ≤ c ∧ c ≤ '9' then some (c.toNat - '0'.toNat)
  else if 'a' ≤ c ∧ c ≤ 'f' then some (c.toNat - 'a'.toNat + 10)
  else none

/-- Reads `hex}` ; returns the code point and the rest. -/
def readHex (acc : Nat) (n : Nat) : List Char → Option (Nat × List Char)
  | '}' :: rest => if n = 0 then none else some (acc, rest)
  | c :: rest => match hexVal? c with
    | some v => if n ≥ 6 then none else readHex (acc * 16 + v) (n + 1) rest
    | none => none
  | [] => none

/-- Decoder of the wire escaping; `none` = malformed. Structural on a fuel equal to the input length. -/
def decode : Nat → List Char → List Char → Option (List Char)
  | _, [], acc => some acc.reverse
  | 0, _ :: _, _ => none
  | fuel + 1, '\\' :: 'u' :: '{' :: rest, acc =>
    match readHex 0 0 rest with
    | some (cp, rest') =>
      if h : cp.isValidChar then decode fuel rest' (Char.ofNatAux cp h :: acc) else none
    | none => none
  | fuel + 1, c :: rest, acc =>
    if c = '\\' ∨ c.toNat < 0x20 ∨ c.toNat > 0x7e then none else decode fuel rest (c :: acc)

def runParse (text : List Char) : String :=
  match parseString text with
  | .error (l, c) => "error " ++ toString l.val ++ " " ++ clsName c
  | .ok s => " ".intercalate (schemaStr s)

def classes : String :=
  "nd " ++ ",".intercalate (ndStarts.map toString) ++ " sp " ++ ",".intercalate (spaceCodes.map toString)

def step (line : String) : String :=
  let cs := line.toList
  let cs := if cs.getLast? = some '\n' then cs.dropLast else cs
  if cs = "classes".toList then classes
  else if cs = "parse".toList then runParse []
  else if cs.take 6 = "parse ".toList then
    match decode cs.length (cs.drop 6) [] with
    | some text => runParse text
    | none => "bad-op"
  else "bad-op"

def main : IO Unit := Driver.runStateless step
