import MjProof.Model.XmlDefaults
namespace MjProof.XmlDefaults
variable {α : Type}

inductive All₂ {β γ : Type} (R : β → γ → Prop) : List β → List γ → Prop
  | nil : All₂ R [] []
  | cons {x y xs ys} : R x y → All₂ R xs ys → All₂ R (x :: xs) (y :: ys)

theorem sameVec_all₂ (S : Scalar α) : ∀ (xs ds : List α), sameVec S xs ds = true →
    All₂ (fun x d => S.same x d = true) xs ds := by sorry
theorem trimTrail_spec (S : Scalar α) : ∀ (xs ds : List α), xs.length = ds.length →
    ∃ zs, xs = trimTrail S xs ds ++ zs ∧
      All₂ (fun x d => S.eqb x d = true) zs (ds.drop (trimTrail S xs ds).length) := by sorry
theorem trimTrail_nil_same (S : Scalar α) (heq : ∀ a b, S.eqb a b = true → S.same a b = true) :
    ∀ (xs ds : List α), xs.length = ds.length → trimTrail S xs ds = [] → sameVec S xs ds = true := by sorry

theorem All₂.imp {β γ : Type} {R Q : β → γ → Prop} (h : ∀ a b, R a b → Q a b) :
    ∀ {xs ys}, All₂ R xs ys → All₂ Q xs ys
  | _, _, .nil => .nil
  | _, _, .cons h1 h2 => .cons (h _ _ h1) (All₂.imp h h2)

theorem All₂.append {β γ : Type} {R : β → γ → Prop} :
    ∀ {xs ys xs' ys'}, All₂ R xs ys → All₂ R xs' ys' → All₂ R (xs ++ xs') (ys ++ ys')
  | _, _, _, _, .nil, h => h
  | _, _, _, _, .cons h1 h2, h => .cons h1 (All₂.append h2 h)

theorem all₂_map_quant (S : Scalar α) : ∀ (ys : List α),
    All₂ (fun x y => y = S.quant x ∨ S.same x y = true) ys (ys.map S.quant)
  | [] => .nil
  | y :: ys => .cons (Or.inl rfl) (all₂_map_quant S ys)

/-- what a numeric / keyword field looks like after write + read -/
def RowRT (S : Scalar α) : Val α → Val α → Prop
  | .vec xs, .vec ys => All₂ (fun x y => y = S.quant x ∨ S.same x y = true) xs ys
  | .code c, .code c' => c = c'
  | .opaque, .opaque => True
  | _, _ => False

def handled (wd : Bool) (r : Row) : Bool := !(r.handwrite || (wd && r.nodefault))

def KeyOK (keys : List (String × Int)) (c : Int) : Prop :=
  findValue keys c ≠ "" ∧ findKey keys (findValue keys c) = c ∧ 0 ≤ c

/-- the object and the default it is compared with are typed as the row says -/
inductive WT (K : Kind → Scalar α) (r : Row) : Val α → Val α → Prop
  | num (xs ds : List α) : r.kind.isNum = true → xs.length = r.len → ds.length = r.len →
      xs.any (K r.kind).isNaN = false → WT K r (.vec xs) (.vec ds)
  | key (c dc : Int) : r.kind.isNum = false → r.kind.isKey = true → (c = dc ∨ KeyOK r.keys c) → WT K r (.code c) (.code dc)
  | other : r.kind.isNum = false → r.kind.isKey = false → WT K r .opaque .opaque

theorem readRow_writeRow (K : Kind → Scalar α)
    (heq : ∀ k a b, (K k).eqb a b = true → (K k).same a b = true)
    (wd : Bool) (r : Row) (v d : Val α) (hwt : WT K r v d) (hreq : r.required = false) :
    ∃ v', readRow wd r d (writeRow K wd r v d) = .ok v' ∧
      (if handled wd r then RowRT (K r.kind) v v' else v' = d) := by
  by_cases hnd : (wd && r.nodefault) = true
  · -- skipped on both sides
    refine ⟨d, ?_, ?_⟩
    · simp [readRow, hnd]
    · simp [handled, hnd]
  have hnd' : (wd && r.nodefault) = false := by simpa using hnd
  by_cases hhw : r.handwrite = true
  · refine ⟨d, ?_, ?_⟩
    · cases hwt with
      | num xs ds hk _ _ _ => simp [readRow, writeRow, hnd', hhw, hk, hreq]
      | key c dc hn hk _ => simp [readRow, writeRow, hnd', hhw, hk, hn, hreq]
      | other hn hk => simp [readRow, writeRow, hnd', hhw, hk, hn]
    · simp [handled, hhw]
  have hhw' : r.handwrite = false := by simpa using hhw
  have hh : handled wd r = true := by simp [handled, hhw', hnd']
  simp only [hh, if_true]
  cases hwt with
  | other hn hk =>
    exact ⟨.opaque, by simp [readRow, writeRow, hnd', hhw', hk, hn], trivial⟩
  | key c dc hn hk hc =>
    by_cases hcd : c = dc
    · subst hcd
      exact ⟨.code c, by simp [readRow, writeRow, hnd', hhw', hk, hn, hreq], rfl⟩
    · rcases hc with hc | ⟨h1, h2, h3⟩
      · exact absurd hc hcd
      · refine ⟨.code c, ?_, rfl⟩
        have hcd' : (c == dc) = false := by simpa using hcd
        have h1' : (findValue r.keys c == "") = false := by simpa using h1
        have h3' : ¬ c < 0 := by omega
        simp [readRow, writeRow, hnd', hhw', hk, hn, hcd', h1', h2, h3']
  | num xs ds hk hx hd hnan =>
    have hS := heq r.kind
    by_cases hs : sameVec (K r.kind) xs ds = true
    · refine ⟨.vec ds, by simp [readRow, writeRow, hnd', hhw', hk, hnan, hs, hreq], ?_⟩
      exact All₂.imp (fun _ _ h => Or.inr h) (sameVec_all₂ _ _ _ hs)
    · have hs' : sameVec (K r.kind) xs ds = false := by simpa using hs
      have hlen : xs.length = ds.length := by rw [hx, hd]
      by_cases hex : r.exact = true
      · -- no trimming: all `len` values are written
        by_cases hemp : xs = []
        · subst hemp
          have : ds = [] := List.eq_nil_of_length_eq_zero (by simpa using hlen.symm)
          subst this
          simp [sameVec] at hs'
        · refine ⟨.vec (xs.map (K r.kind).quant), ?_, all₂_map_quant _ xs⟩
          have hne : (xs.map (K r.kind).quant).isEmpty = false := by
            cases xs with
            | nil => exact absurd rfl hemp
            | cons _ _ => rfl
          have hne2 : xs.isEmpty = false := by
            cases xs with
            | nil => exact absurd rfl hemp
            | cons _ _ => rfl
          simp [readRow, writeRow, hnd', hhw', hk, hnan, hs', hex, hne, hne2, hx, hd]
      · have hex' : r.exact = false := by simpa using hex
        obtain ⟨zs, h1, h2⟩ := trimTrail_spec (K r.kind) xs ds hlen
        by_cases hemp : trimTrail (K r.kind) xs ds = []
        · exact absurd (trimTrail_nil_same _ hS xs ds hlen hemp) hs
        · have hle : (trimTrail (K r.kind) xs ds).length ≤ r.len := by
            have := congrArg List.length h1
            simp only [List.length_append] at this
            omega
          refine ⟨.vec ((trimTrail (K r.kind) xs ds).map (K r.kind).quant ++
              ds.drop (trimTrail (K r.kind) xs ds).length), ?_, ?_⟩
          · have hne : (trimTrail (K r.kind) xs ds).isEmpty = false := by
              cases ht : trimTrail (K r.kind) xs ds with
              | nil => exact absurd ht hemp
              | cons _ _ => rfl
            have hgt : ¬ (trimTrail (K r.kind) xs ds).length > r.len := by omega
            simp [readRow, writeRow, hnd', hhw', hk, hnan, hs', hex', hne, hgt]
          · show All₂ _ xs _
            conv => lhs; rw [h1]
            exact All₂.append (all₂_map_quant _ _) (All₂.imp (fun _ _ h => Or.inr (hS _ _ h)) h2)
end MjProof.XmlDefaults
