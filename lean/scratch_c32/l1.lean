import MjProof.Model.XmlDefaults
namespace MjProof.XmlDefaults
variable {α : Type}

/-- component-wise relation between two lists of the same length -/
inductive All₂ {β γ : Type} (R : β → γ → Prop) : List β → List γ → Prop
  | nil : All₂ R [] []
  | cons {x y xs ys} : R x y → All₂ R xs ys → All₂ R (x :: xs) (y :: ys)

theorem sameVec_forall₂ (S : Scalar α) : ∀ (xs ds : List α), sameVec S xs ds = true →
    All₂ (fun x d => S.same x d = true) xs ds
  | [], [], _ => .nil
  | x :: xs, d :: ds, h => by
    simp only [sameVec, Bool.and_eq_true] at h
    exact .cons h.1 (sameVec_forall₂ S xs ds h.2)
  | [], _ :: _, h => by simp [sameVec] at h
  | _ :: _, [], h => by simp [sameVec] at h

/-- the kept prefix, and the dropped tail is component-wise `==` the default -/
theorem trimTrail_spec (S : Scalar α) : ∀ (xs ds : List α), xs.length = ds.length →
    ∃ zs, xs = trimTrail S xs ds ++ zs ∧
      All₂ (fun x d => S.eqb x d = true) zs (ds.drop (trimTrail S xs ds).length)
  | [], [], _ => ⟨[], by simp [trimTrail], by simpa [trimTrail] using All₂.nil⟩
  | x :: xs, d :: ds, h => by
    have hl : xs.length = ds.length := by simpa using h
    obtain ⟨zs, h1, h2⟩ := trimTrail_spec S xs ds hl
    rw [trimTrail]
    cases ht : trimTrail S xs ds with
    | nil =>
      rw [ht] at h1 h2
      simp only [List.nil_append, List.length_nil, List.drop_zero] at h1 h2
      by_cases he : S.eqb x d = true
      · simp only [he, if_true]
        refine ⟨x :: xs, by simp, ?_⟩
        simp only [List.length_nil, List.drop_zero]
        rw [h1]
        exact .cons he h2
      · simp only [he, Bool.false_eq_true, if_false]
        refine ⟨xs, by simp, ?_⟩
        simp only [List.length_cons, List.length_nil, List.drop_succ_cons, List.drop_zero]
        rw [h1]; exact h2
    | cons y ys =>
      rw [ht] at h1 h2
      refine ⟨zs, by simp [h1], ?_⟩
      simpa using h2
  | [], _ :: _, h => by simp at h
  | _ :: _, [], h => by simp at h

theorem trimTrail_nil_same (S : Scalar α) (heq : ∀ a b, S.eqb a b = true → S.same a b = true) :
    ∀ (xs ds : List α), xs.length = ds.length → trimTrail S xs ds = [] → sameVec S xs ds = true := by
  intro xs ds hl ht
  obtain ⟨zs, h1, h2⟩ := trimTrail_spec S xs ds hl
  rw [ht] at h1 h2
  simp only [List.nil_append, List.length_nil, List.drop_zero] at h1 h2
  subst h1
  clear ht hl
  induction h2 with
  | nil => rfl
  | cons h _ ih => simp [sameVec, heq _ _ h, ih]
end MjProof.XmlDefaults
