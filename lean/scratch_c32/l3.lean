import MjProof.Model.XmlDefaults
namespace MjProof.XmlDefaults
variable {α : Type}
inductive All₂ {β γ : Type} (R : β → γ → Prop) : List β → List γ → Prop
  | nil : All₂ R [] []
  | cons {x y xs ys} : R x y → All₂ R xs ys → All₂ R (x :: xs) (y :: ys)
def RowRT (S : Scalar α) : Val α → Val α → Prop
  | .vec xs, .vec ys => All₂ (fun x y => y = S.quant x ∨ S.same x y = true) xs ys
  | .code c, .code c' => c = c'
  | .opaque, .opaque => True
  | _, _ => False
def handled (wd : Bool) (r : Row) : Bool := !(r.handwrite || (wd && r.nodefault))
def KeyOK (keys : List (String × Int)) (c : Int) : Prop :=
  findValue keys c ≠ "" ∧ findKey keys (findValue keys c) = c ∧ 0 ≤ c
inductive WT (K : Kind → Scalar α) (r : Row) : Val α → Val α → Prop
  | num (xs ds : List α) : r.kind.isNum = true → xs.length = r.len → ds.length = r.len →
      xs.any (K r.kind).isNaN = false → WT K r (.vec xs) (.vec ds)
  | key (c dc : Int) : r.kind.isNum = false → r.kind.isKey = true → (c = dc ∨ KeyOK r.keys c) → WT K r (.code c) (.code dc)
  | other : r.kind.isNum = false → r.kind.isKey = false → WT K r .opaque .opaque
theorem readRow_writeRow (K : Kind → Scalar α)
    (heq : ∀ k a b, (K k).eqb a b = true → (K k).same a b = true)
    (wd : Bool) (r : Row) (v d : Val α) (hwt : WT K r v d) (hreq : r.required = false) :
    ∃ v', readRow wd r d (writeRow K wd r v d) = .ok v' ∧
      (if handled wd r then RowRT (K r.kind) v v' else v' = d) := by sorry

/-- an element: rows, object values, default values, all of the same length and typed row by row; rows of the
    kinds the table writes are not `required` -/
inductive ElemWT (K : Kind → Scalar α) : List Row → List (Val α) → List (Val α) → Prop
  | nil : ElemWT K [] [] []
  | cons {r rs v vs d ds} : WT K r v d → r.required = false → ElemWT K rs vs ds → ElemWT K (r :: rs) (v :: vs) (d :: ds)

/-- result of write + read, row by row -/
inductive ElemRT (K : Kind → Scalar α) (wd : Bool) : List Row → List (Val α) → List (Val α) → List (Val α) → Prop
  | nil : ElemRT K wd [] [] [] []
  | cons {r rs v vs d ds v' vs'} : (if handled wd r then RowRT (K r.kind) v v' else v' = d) →
      ElemRT K wd rs vs ds vs' → ElemRT K wd (r :: rs) (v :: vs) (d :: ds) (v' :: vs')

theorem lookup_append_of_not_mem (a : String) : ∀ (pre rest : List (String × Tok α)),
    (∀ p ∈ pre, p.1 ≠ a) → lookup a (pre ++ rest) = lookup a rest
  | [], _, _ => rfl
  | (k, t) :: pre, rest, h => by
    have hk : k ≠ a := h (k, t) (by simp)
    have hk' : (k == a) = false := by simpa using hk
    simp only [List.cons_append, lookup, hk', Bool.false_eq_true, if_false]
    exact lookup_append_of_not_mem a pre rest (fun p hp => h p (by simp [hp]))

theorem writeElem_keys (K : Kind → Scalar α) (wd : Bool) : ∀ (rs : List Row) (vs ds : List (Val α)),
    ∀ p ∈ writeElem K wd rs vs ds, p.1 ∈ rs.map (·.attr)
  | [], _, _, p, hp => by simp [writeElem] at hp
  | _ :: _, [], _, p, hp => by simp [writeElem] at hp
  | _ :: _, _ :: _, [], p, hp => by simp [writeElem] at hp
  | r :: rs, v :: vs, d :: ds, p, hp => by
    rw [writeElem] at hp
    cases hw : writeRow K wd r v d with
    | none =>
      rw [hw] at hp
      have := writeElem_keys K wd rs vs ds p hp
      simp only [List.map_cons, List.mem_cons]; exact Or.inr this
    | some t =>
      rw [hw] at hp
      simp only [List.mem_cons] at hp
      rcases hp with rfl | hp
      · simp
      · have := writeElem_keys K wd rs vs ds p hp
        simp only [List.map_cons, List.mem_cons]; exact Or.inr this

theorem lookup_none_of_not_mem (a : String) : ∀ (l : List (String × Tok α)), (∀ p ∈ l, p.1 ≠ a) → lookup a l = none
  | [], _ => rfl
  | (k, t) :: l, h => by
    have hk : (k == a) = false := by simpa using h (k, t) (by simp)
    simp only [lookup, hk, Bool.false_eq_true, if_false]
    exact lookup_none_of_not_mem a l (fun p hp => h p (by simp [hp]))

/-- reading an element whose attribute list is `pre ++ writeElem rows ..` where `pre` mentions none of the rows -/
theorem readElem_writeElem_aux (K : Kind → Scalar α)
    (heq : ∀ k a b, (K k).eqb a b = true → (K k).same a b = true) (wd : Bool) :
    ∀ (rs : List Row) (vs ds : List (Val α)) (pre : List (String × Tok α)),
      ElemWT K rs vs ds → (rs.map (·.attr)).Nodup → (∀ p ∈ pre, p.1 ∉ rs.map (·.attr)) →
      ∃ vs', readElem wd (pre ++ writeElem K wd rs vs ds) rs ds = .ok vs' ∧ ElemRT K wd rs vs ds vs' := by
  intro rs vs ds pre hwt
  induction hwt generalizing pre with
  | nil => intro _ _; exact ⟨[], by simp [readElem], .nil⟩
  | @cons r rs v vs d ds hw hreq _ ih =>
    intro hnd hpre
    simp only [List.map_cons, List.nodup_cons] at hnd
    obtain ⟨v', hv1, hv2⟩ := readRow_writeRow K heq wd r v d hw hreq
    have hpre_r : ∀ p ∈ pre, p.1 ≠ r.attr := fun p hp h => hpre p hp (by simp [h])
    -- what the reader finds for this row is exactly what the writer produced for it
    have hlook : lookup r.attr (pre ++ writeElem K wd (r :: rs) (v :: vs) (d :: ds)) = writeRow K wd r v d := by
      rw [lookup_append_of_not_mem _ _ _ hpre_r, writeElem]
      cases hwr : writeRow K wd r v d with
      | none =>
        simp only
        exact lookup_none_of_not_mem _ _ (fun p hp h => hnd.1 (h ▸ writeElem_keys K wd rs vs ds p hp))
      | some t => simp [lookup]
    -- the remaining rows: move this row's attribute (if any) into the prefix
    have hrest : ∃ pre', pre ++ writeElem K wd (r :: rs) (v :: vs) (d :: ds) = pre' ++ writeElem K wd rs vs ds ∧
        ∀ p ∈ pre', p.1 ∉ rs.map (·.attr) := by
      rw [writeElem]
      cases hwr : writeRow K wd r v d with
      | none => exact ⟨pre, rfl, fun p hp h => hpre p hp (by simp [h])⟩
      | some t =>
        refine ⟨pre ++ [(r.attr, t)], by simp, ?_⟩
        intro p hp
        simp only [List.mem_append, List.mem_singleton] at hp
        rcases hp with hp | rfl
        · exact fun h => hpre p hp (by simp [h])
        · exact hnd.1
    obtain ⟨pre', he, hpre'⟩ := hrest
    obtain ⟨vs', h1, h2⟩ := ih pre' hnd.2 hpre'
    refine ⟨v' :: vs', ?_, .cons hv2 h2⟩
    rw [readElem, hlook, hv1]
    simp only
    rw [he, h1]

theorem readElem_writeElem (K : Kind → Scalar α)
    (heq : ∀ k a b, (K k).eqb a b = true → (K k).same a b = true) (wd : Bool)
    (rs : List Row) (vs ds : List (Val α)) (hwt : ElemWT K rs vs ds) (hnd : (rs.map (·.attr)).Nodup) :
    ∃ vs', readElem wd (writeElem K wd rs vs ds) rs ds = .ok vs' ∧ ElemRT K wd rs vs ds vs' := by
  simpa using readElem_writeElem_aux K heq wd rs vs ds [] hwt hnd (by simp)
end MjProof.XmlDefaults
