/-
Specification of the feature gate of MJX-JAX, transcribed BY HAND from the documentation of the tree:
`doc/mjx.rst`, section "Feature Parity" (column MJX-JAX) and its footnotes [2] (sensors) and [3] (geoms).
The documentation names enumerators without their prefix (``EULER``); the prefix of the C enum is added
here.  Where the documentation is silent the entry is transcribed from the comments of
`mjx/mujoco/mjx/_src/types.py` and marked so.

"MJX will raise an exception if asked to copy an mjModel to the device that references unsupported
features": for a category with an enumerated list, everything not listed is expected to raise.

`deviations` lists, one by one and with a reason, the places where the code's gate is known to differ
from this transcription; the theorem `MjProof.C43.gate_matches_spec` states that the gate extracted from
the source equals the specification patched with exactly these deviations (so a new difference, in
either direction, breaks the theorem).

Core Lean only.
-/
namespace MjProof.Spec.MjxGate

/-- row "Integrator": ``EULER``, ``RK4``, ``IMPLICITFAST`` -/
def integrators : List String := ["mjINT_EULER", "mjINT_RK4", "mjINT_IMPLICITFAST"]
/-- row "Cone": ``PYRAMIDAL``, ``ELLIPTIC`` -/
def cones : List String := ["mjCONE_PYRAMIDAL", "mjCONE_ELLIPTIC"]
/-- row "Solver": ``CG``, ``NEWTON`` -/
def solvers : List String := ["mjSOL_CG", "mjSOL_NEWTON"]
/-- row "Jacobian format": ``DENSE`` only -/
def jacobians : List String := ["mjJAC_DENSE"]
/-- row "Transmission": ``JOINT``, ``JOINTINPARENT``, ``SITE``, ``TENDON`` -/
def transmissions : List String := ["mjTRN_JOINT", "mjTRN_JOINTINPARENT", "mjTRN_SITE", "mjTRN_TENDON"]
/-- row "Actuator Dynamics": ``NONE``, ``INTEGRATOR``, ``FILTER``, ``FILTEREXACT``, ``MUSCLE`` -/
def dynTypes : List String := ["mjDYN_NONE", "mjDYN_INTEGRATOR", "mjDYN_FILTER", "mjDYN_FILTEREXACT", "mjDYN_MUSCLE"]
/-- row "Actuator Gain": ``FIXED``, ``AFFINE``, ``MUSCLE`` -/
def gainTypes : List String := ["mjGAIN_FIXED", "mjGAIN_AFFINE", "mjGAIN_MUSCLE"]
/-- row "Actuator Bias": ``NONE``, ``AFFINE``, ``MUSCLE`` -/
def biasTypes : List String := ["mjBIAS_NONE", "mjBIAS_AFFINE", "mjBIAS_MUSCLE"]
/-- row "Equality": ``CONNECT``, ``WELD``, ``JOINT``, ``TENDON`` -/
def eqTypes : List String := ["mjEQ_CONNECT", "mjEQ_WELD", "mjEQ_JOINT", "mjEQ_TENDON"]
/-- row "Tendon Wrapping": ``JOINT``, ``SITE``, ``PULLEY``, ``SPHERE``, ``CYLINDER`` -/
def wrapTypes : List String := ["mjWRAP_JOINT", "mjWRAP_SITE", "mjWRAP_PULLEY", "mjWRAP_SPHERE", "mjWRAP_CYLINDER"]
/-- row "Joint": ``FREE``, ``BALL``, ``SLIDE``, ``HINGE`` -/
def jointTypes : List String := ["mjJNT_FREE", "mjJNT_BALL", "mjJNT_SLIDE", "mjJNT_HINGE"]
/-- row "Geom": ``PLANE``, ``HFIELD``, ``SPHERE``, ``CAPSULE``, ``BOX``, ``MESH`` fully implemented; ``ELLIPSOID`` and
    ``CYLINDER`` implemented but only collide with other primitives -/
def geomTypes : List String :=
  ["mjGEOM_PLANE", "mjGEOM_HFIELD", "mjGEOM_SPHERE", "mjGEOM_CAPSULE", "mjGEOM_BOX", "mjGEOM_MESH", "mjGEOM_ELLIPSOID", "mjGEOM_CYLINDER"]

/-- footnote [2] -/
def sensors : List String :=
  ["mjSENS_MAGNETOMETER", "mjSENS_CAMPROJECTION", "mjSENS_RANGEFINDER", "mjSENS_JOINTPOS", "mjSENS_TENDONPOS",
   "mjSENS_ACTUATORPOS", "mjSENS_BALLQUAT", "mjSENS_FRAMEPOS", "mjSENS_FRAMEXAXIS", "mjSENS_FRAMEYAXIS",
   "mjSENS_FRAMEZAXIS", "mjSENS_FRAMEQUAT", "mjSENS_SUBTREECOM", "mjSENS_CLOCK", "mjSENS_VELOCIMETER", "mjSENS_GYRO",
   "mjSENS_JOINTVEL", "mjSENS_TENDONVEL", "mjSENS_ACTUATORVEL", "mjSENS_BALLANGVEL", "mjSENS_FRAMELINVEL",
   "mjSENS_FRAMEANGVEL", "mjSENS_SUBTREELINVEL", "mjSENS_SUBTREEANGMOM", "mjSENS_TOUCH", "mjSENS_CONTACT",
   "mjSENS_ACCELEROMETER", "mjSENS_FORCE", "mjSENS_TORQUE", "mjSENS_ACTUATORFRC", "mjSENS_JOINTACTFRC",
   "mjSENS_TENDONACTFRC", "mjSENS_FRAMELINACC", "mjSENS_FRAMEANGACC"]

/-- footnote [2], ``CONTACT``: matching ``none-none``, ``geom-geom``; reduction ``mindist``, ``maxforce``; data ``all``.
    The other matching semantics of the C engine (site, body, subtree) and the other reductions
    (``none`` = 0, ``netforce`` = 3 in `sensor_intprm[1]`) are therefore expected to raise. -/
def contactSensorRejected : List String :=
  ["objtype:mjOBJ_SITE", "objtype|reftype:mjOBJ_BODY", "objtype|reftype:mjOBJ_XBODY", "reduce:0", "reduce:3"]

/-- footnote [3]: "Geom unsupported: ``SDF``. Collisions between (``SPHERE``, ``BOX``, ``MESH``, ``HFIELD``) and
    ``CYLINDER``. Collisions between (``BOX``, ``MESH``, ``HFIELD``) and ``ELLIPSOID``."  (pairs ordered as in the
    C engine's table: lower geom type first) -/
def unsupportedGeoms : List String := ["mjGEOM_SDF"]
def unsupportedCollisions : List (String × String) :=
  [("mjGEOM_SPHERE", "mjGEOM_CYLINDER"), ("mjGEOM_CYLINDER", "mjGEOM_BOX"), ("mjGEOM_CYLINDER", "mjGEOM_MESH"),
   ("mjGEOM_HFIELD", "mjGEOM_CYLINDER"),
   ("mjGEOM_ELLIPSOID", "mjGEOM_BOX"), ("mjGEOM_ELLIPSOID", "mjGEOM_MESH"), ("mjGEOM_HFIELD", "mjGEOM_ELLIPSOID")]

/-- the rows that are conditions rather than enumerations:
    "Integrator": ``IMPLICITFAST`` not supported with fluid drag; "Condim": 1 is not supported with ``ELLIPTIC``;
    "Flex": Not supported; and the sentence quoted in the header for a colliding pair without a collision function -/
def otherChecks : List String := ["implicitfast+fluid", "elliptic+condim1", "flex", "collision-pair-without-function"]

/-- NOT in doc/mjx.rst — transcribed from `types.py`, class `EnableBit` (docstring "Attributes: INVDISCRETE";
    comment "unsupported: OVERRIDE, ENERGY, FWDINV, ISLAND") -/
def enableBits : List String := ["mjENBL_INVDISCRETE"]
/-- NOT in doc/mjx.rst — transcribed from the comment in `_put_model_jax`:
    "margin/gap not supported for meshes and height fields" -/
def noMarginGeoms : List String := ["mjGEOM_MESH", "mjGEOM_HFIELD"]

/-- one known difference between the gate in the code and the transcription above -/
structure Deviation where
  category : String
  item : String
  /-- `true`: the code accepts it although the transcription says it should raise; `false`: the converse -/
  gateAccepts : Bool
  why : String

def deviations : List Deviation := [
  { category := "jacobian", item := "mjJAC_SPARSE", gateAccepts := true,
    why := "types.JacobianType lists SPARSE and AUTO, so _put_option accepts them; the documentation row is about the storage format MJX uses (always dense), not about the option value" },
  { category := "jacobian", item := "mjJAC_AUTO", gateAccepts := true,
    why := "as above (AUTO is the default of every model)" },
  { category := "collision", item := "mjGEOM_SPHERE-mjGEOM_CYLINDER", gateAccepts := true,
    why := "collision_driver._COLLISION_FUNC has sphere_cylinder although footnote [3] lists (SPHERE, CYLINDER) as unsupported: the documentation under-promises" },
  { category := "contact-sensor", item := "reduce:0", gateAccepts := true,
    why := "only netforce (3) raises; reduction none (0) is accepted although footnote [2] lists mindist and maxforce only" },
  { category := "enable", item := "mjENBL_SLEEP", gateAccepts := true,
    why := "types.EnableBit lists SLEEP (used by the Warp backend), so _put_option accepts it for the JAX backend too, which has no sleeping: a hole in the gate, examined by the oracle of checks/c43.py" }
]

end MjProof.Spec.MjxGate
