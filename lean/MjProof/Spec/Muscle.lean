/-
Documented muscle model, transcribed from /repo/doc (NOT from the C code):

* doc/modeling.rst, section "Muscle actuators" (`CMuscle`):
    (actuator_lengthrange[0] − L_T) / L_0 = range[0],  (actuator_lengthrange[1] − L_T) / L_0 = range[1]
    L = (actuator_length − L_T) / L_0,   V = actuator_velocity / L_0
    FLV(L, V, act) = F_L(L)·F_V(V)·act + F_P(L),   actuator_force = −FLV·F_0,   F_0 = scale / actuator_acc0 when the
    attribute force is negative ("not known")
    d/dt act = (ctrl − act) / τ(ctrl, act), ctrl clamped to [0, 1],
    τ = τ_act·(0.5 + 1.5·act) if ctrl − act > 0, τ_deact / (0.5 + 1.5·act) otherwise; with tausmooth > 0 the switch
    is replaced by mju_sigmoid over (ctrl − act) ± tausmooth/2.
* doc/_static/FLV.m ("shows how we compute the FLV function"): the curves F_L (`bump` quadratic spline, plus a second
  bump scaled by 0.15), F_V, F_P, evaluated at V / vmax.
* doc/XMLreference.rst, muscle attributes: vmax = "shortening velocity at which muscle force drops to zero",
  fpmax = "passive force generated at lmax, relative to the peak rest force", fvmax = "active force generated at
  saturating lengthening velocity, relative to the peak rest force".
* doc/computation/index.rst ("Force generation", "Activation dynamics"): p = (a·w or a·u) + b0 + b1·l + b2·l̇;
  integrator ẇ = u; filter / filterexact ẇ = (u − w)/t.

Real-valued, noncomputable; used only in Props/C27.lean.
-/
import Mathlib.Data.Real.Basic

namespace MjProof.Spec.Muscle

/-- optimal resting length from the two range equations -/
noncomputable def L0 (lr0 lr1 r0 r1 : ℝ) : ℝ := (lr1 - lr0) / (r1 - r0)
/-- tendon slack length from the two range equations -/
noncomputable def LT (lr0 lr1 r0 r1 : ℝ) : ℝ := lr0 - r0 * L0 lr0 lr1 r0 r1
noncomputable def scaledLength (len lr0 lr1 r0 r1 : ℝ) : ℝ := (len - LT lr0 lr1 r0 r1) / L0 lr0 lr1 r0 r1
noncomputable def scaledVelocity (vel lr0 lr1 r0 r1 : ℝ) : ℝ := vel / L0 lr0 lr1 r0 r1
/-- peak active force: the attribute, or scale / acc0 when the attribute is negative -/
noncomputable def F0 (force scale acc0 : ℝ) : ℝ := if force < 0 then scale / acc0 else force

/-- FLV.m `bump(L, A, mid, B)`: skewed quadratic-spline bump -/
noncomputable def bump (L A mid B : ℝ) : ℝ :=
  let left := 0.5 * (A + mid)
  let right := 0.5 * (mid + B)
  if L ≤ A ∨ B ≤ L then 0
  else if L < left then
    let x := (L - A) / (left - A); 0.5 * x * x
  else if L < mid then
    let x := (mid - L) / (mid - left); 1 - 0.5 * x * x
  else if L < right then
    let x := (L - mid) / (right - mid); 1 - 0.5 * x * x
  else
    let x := (B - L) / (B - right); 0.5 * x * x

/-- FLV.m length-active curve -/
noncomputable def FL_flvm (L lmin lmax : ℝ) : ℝ :=
  bump L lmin 1 lmax + 0.15 * bump L lmin (0.5 * (lmin + 0.95)) 0.95

/-- FLV.m velocity-active curve; the argument is V / vmax -/
noncomputable def FV (V fvmax : ℝ) : ℝ :=
  let c := fvmax - 1
  if V ≤ -1 then 0
  else if V ≤ 0 then (V + 1) * (V + 1)
  else if V ≤ c then fvmax - (c - V) * (c - V) / c
  else fvmax

/-- FLV.m length-passive curve -/
noncomputable def FP_flvm (L lmax fpmax : ℝ) : ℝ :=
  let b := 0.5 * (1 + lmax)
  if L ≤ 1 then 0
  else if L ≤ b then
    let x := (L - 1) / (b - 1); 0.25 * fpmax * x * x * x
  else
    let x := (L - b) / (b - 1); 0.25 * fpmax * (1 + 3 * x)

/-- effective time constant (hard switching, tausmooth = 0) -/
noncomputable def tau (ctrl act tauAct tauDeact : ℝ) : ℝ :=
  if ctrl - act > 0 then tauAct * (0.5 + 1.5 * act) else tauDeact / (0.5 + 1.5 * act)

/-- the control signal is clamped to [0, 1] -/
noncomputable def clamp01 (u : ℝ) : ℝ := if u < 0 then 0 else if 1 < u then 1 else u

/-- d/dt act -/
noncomputable def actDot (ctrl act tauAct tauDeact : ℝ) : ℝ :=
  (clamp01 ctrl - act) / tau (clamp01 ctrl) act tauAct tauDeact

/-- SISO affine force law of the computation chapter: p = a·(w or u) + b0 + b1·l + b2·l̇ -/
def affineForce (a input b0 b1 b2 l ldot : ℝ) : ℝ := a * input + b0 + b1 * l + b2 * ldot

end MjProof.Spec.Muscle
