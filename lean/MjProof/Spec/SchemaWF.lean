import MjProof.Model.SchemaValidate
/-
C41  The documented rules of the MJCF schema language (`doc/generate/mjcf_schema.py` module docstring, the
comments of `_validate` / `_validate_attr`, the syntax reference at the top of `src/xml/mjcf.schema`),
stated declaratively over the parsed `Schema`: no evaluation order, no first-error semantics.

Two layers, as in the implementation:
  * `ParseWF`  rules enforced while parsing (a breach is a parse error);
  * `WF`       rules enforced by `_validate` on the parsed schema.
-/
namespace MjProof.Schema

variable {N : Nat}

/-! ## rules enforced by the parser -/

/-- "well-formed arity": a numeric upper bound is not below the lower bound (`[n]`, `[lo..hi]` with `lo < hi`). -/
def Arity.WF (a : Arity) : Prop := ∀ h, a.hi = .num h → a.lo ≤ h

/-- Facets are known for their context and given at most once. -/
def FacetsWF (known : List String) (fs : Facets) : Prop :=
  (∀ e ∈ fs, e.1 ∈ known) ∧ (fs.map (·.1)).Nodup

/-- Types with a target (`enum<..>`, `flags<..>`, `ref<..>`, `id<..>`) carry a target and are scalars;
    scalar types carry none. -/
def Ty.hasTarget : Ty → Bool
  | .enum | .flags | .ref | .id => true
  | _ => false

structure AttrParseWF (a : Attr N) : Prop where
  arity : a.arity.WF
  facets : FacetsWF KNOWN_FACETS a.facets
  target : a.type.hasTarget = true → a.target.isSome ∧ a.arity = ⟨1, .num 1⟩
  noTarget : a.type.hasTarget = false → a.target = none

/-- A presence constraint has at least two bundles, none of them empty. -/
def ConParseWF (c : Constraint N) : Prop := 2 ≤ c.bundles.length ∧ ∀ b ∈ c.bundles, b ≠ []

/-- Members of a group (`inElement = false`) may not be `child` / `set`. -/
def MemberParseWF (inElement : Bool) : Member N → Prop
  | .attr a => AttrParseWF a
  | .con c => ConParseWF c
  | .child _ => inElement = true
  | .const _ => inElement = true
  | .use _ => True

/-- An enum is non-empty and its XML keywords are unique. -/
def EnumParseWF (e : Enum N) : Prop := e.items ≠ [] ∧ (e.items.map (·.1)).Nodup

def GroupParseWF (g : Group N) : Prop := g.members ≠ [] ∧ ∀ m ∈ g.members, MemberParseWF false m

def ElementParseWF (e : Element N) : Prop :=
  FacetsWF ELEMENT_FACETS e.facets ∧ ∀ m ∈ e.members, MemberParseWF true m

structure ParseWF (s : Schema N) : Prop where
  /-- unique declarations, per table -/
  enumsUnique : (enumNames s).Nodup
  groupsUnique : (groupNames s).Nodup
  elementsUnique : (elementNames s).Nodup
  enums : ∀ e ∈ s.enums, EnumParseWF e
  groups : ∀ g ∈ s.groups, GroupParseWF g
  elements : ∀ e ∈ s.elements, ElementParseWF e

/-! ## rules enforced by `_validate` -/

/-- `a` uses `b`: the group named `a` has a member `use b`. -/
def UseEdge (s : Schema N) (a b : String) : Prop :=
  ∃ g u, findGroup s a = some g ∧ Member.use u ∈ g.members ∧ u.group = b

/-- Transitive closure of `UseEdge` (one or more steps). -/
inductive Reach (s : Schema N) : String → String → Prop where
  | step {a b : String} : UseEdge s a b → Reach s a b
  | trans {a b c : String} : UseEdge s a b → Reach s b c → Reach s a c

/-- No group reaches itself through `use`. -/
def NoUseCycle (s : Schema N) : Prop := ∀ n : String, ¬ Reach s n n

/-- Every `use` names a declared group. -/
def NoDanglingUse (s : Schema N) : Prop :=
  ∀ ms ∈ containers s, ∀ u : Use N, Member.use u ∈ ms → u.group ∈ groupNames s

/-- Constraints of a group refer to attributes declared directly in that group. -/
def GroupConstraintsResolved (s : Schema N) : Prop :=
  ∀ g ∈ s.groups, ∀ c : Constraint N, Member.con c ∈ g.members → ∀ b ∈ c.bundles, ∀ n ∈ b,
    ∃ a : Attr N, Member.attr a ∈ g.members ∧ a.name = n

/-- A variant group contains no `use` and no required attribute. -/
def VariantGroupsWF (s : Schema N) : Prop :=
  ∀ g ∈ s.groups, g.variant = true →
    (∀ u : Use N, Member.use u ∉ g.members) ∧
    (∀ a : Attr N, Member.attr a ∈ g.members → truthy (a.facets.get "required") = false)

/-- Element facets `xml` / `alias` carry a name; the alias names a declared element. -/
def ElementFacetsWF (s : Schema N) : Prop :=
  ∀ e ∈ s.elements,
    (∀ v, e.facets.get "xml" = some v → ∃ n, v = .str n) ∧
    (∀ v, e.facets.get "alias" = some v → ∃ n, v = .str n ∧ n ∈ elementNames s)

/-- Children name declared elements, each at most once. -/
def ChildrenWF (s : Schema N) : Prop :=
  ∀ e ∈ s.elements,
    (∀ c : Child N, Member.child c ∈ e.members → c.name ∈ elementNames s) ∧
    ((memberChildren e.members).map (·.name)).Nodup

/-- No duplicate attribute after group expansion. -/
def ExpandedAttrsNodup (s : Schema N) : Prop :=
  ∀ e ∈ s.elements, ((expandedAttrs s e.members).map (·.name)).Nodup

/-- Constraints of an element refer to its expanded attributes; `requires` takes exactly two attributes. -/
def ElementConstraintsWF (s : Schema N) : Prop :=
  ∀ e ∈ s.elements, ∀ c : Constraint N, Member.con c ∈ e.members →
    (∀ b ∈ c.bundles, ∀ n ∈ b, ∃ a ∈ expandedAttrs s e.members, a.name = n) ∧
    (c.kind = .requires → ∃ x y, c.bundles = [[x], [y]])

/-- `t` is a namespace: some `id<t>` attribute is declared directly in a group or element. -/
def IsNamespace (s : Schema N) (t : Option String) : Prop :=
  ∃ ms ∈ containers s, ∃ b : Attr N, Member.attr b ∈ ms ∧ b.type = .id ∧ b.target = t

/-- Defaults consistent with type and arity. -/
def DefaultWF (s : Schema N) (a : Attr N) (d : Default) : Prop :=
  match a.type with
  | .enum => ∃ k, d = .str k ∧ k ∈ enumKeywords s a.target
  | .ref | .id | .chars => False
  | .bool => d = .str "true" ∨ d = .str "false"
  | .string | .file => ∃ v, d = .str v
  | .double | .float | .int | .flags =>
    match d with
    | .str _ => False
    | .num _ => a.arity.lo ≤ 1 ∧ ∀ h, a.arity.hi = .num h → 1 ≤ h
    | .vec ds => a.arity ≠ ⟨1, .num 1⟩ ∧ a.arity.lo ≤ ds.length ∧ ∀ h, a.arity.hi = .num h → ds.length ≤ h

structure AttrWF (s : Schema N) (a : Attr N) : Prop where
  enumTarget : a.type = .enum ∨ a.type = .flags → ∃ t, a.target = some t ∧ t ∈ enumNames s
  refTarget : a.type = .ref → IsNamespace s a.target
  fileBoolScalar : a.type = .file ∨ a.type = .bool → a.arity = ⟨1, .num 1⟩
  charsBounded : a.type = .chars → ∃ h, a.arity.hi = .num h
  patternText : (∃ v, a.facets.get "pattern" = some v) → a.type = .string ∨ a.type = .chars
  minNumeric : ∀ v, a.facets.get "min" = some v → a.type.numeric = true ∧ v.isNumeric = true
  maxNumeric : ∀ v, a.facets.get "max" = some v → a.type.numeric = true ∧ v.isNumeric = true
  minLeMax : ∀ lo hi, a.facets.get "min" = some lo → a.facets.get "max" = some hi → lo.key ≤ hi.key
  positiveNumeric : truthy (a.facets.get "positive") = true → a.type.numeric = true
  requiredNoDefault : truthy (a.facets.get "required") = true → a.default = none
  default : ∀ d, a.default = some d → DefaultWF s a d

/-- Every attribute, wherever it is declared, is well-formed. -/
def AttrsWF (s : Schema N) : Prop :=
  ∀ ms ∈ containers s, ∀ a : Attr N, Member.attr a ∈ ms → AttrWF s a

structure WF (s : Schema N) : Prop where
  noUseCycle : NoUseCycle s
  groupConstraints : GroupConstraintsResolved s
  variantGroups : VariantGroupsWF s
  noDanglingUse : NoDanglingUse s
  elementFacets : ElementFacetsWF s
  children : ChildrenWF s
  expandedNodup : ExpandedAttrsNodup s
  elementConstraints : ElementConstraintsWF s
  attrs : AttrsWF s

end MjProof.Schema
