import MjProof.Model.Broadphase
/-
Brute-force rule set for collision pair selection, transcribed from the documentation
(`doc/computation/index.rst`, "Collision detection → Selection"; `doc/XMLreference.rst`: `contact/pair`,
`contact/exclude`, `option/flag` `contact`, `constraint`, `filterparent`) — *not* from the code.  It only reuses
the record types of the model (the fields of mjModel) and the C `&` on ints; none of the model's functions.

Documentation, paraphrased:
 * Candidates come from two sources: body pairs (broad phase) and the explicit `pair` list.  `exclude` removes
   body pairs.  Explicit pairs "specify all their properties explicitly … the properties of the individual geoms
   are not used".
 * Filters 1 and 2 apply to all pairs: (1) a collision function exists for the two geom types; (2) bounding-sphere
   test taking the margin into account (`near` below: margin-inflated proximity, an input of the rule set).
 * Filters 3 and 4 apply only to pairs from the body-pair mechanism: (3) not the same body, not parent and child
   unless the parent is the world body; welded bodies count as one body; pairs where neither body can move are
   skipped; the parent-child part can be disabled (`filterparent`), the same-body part cannot; (4)
   `(contype1 & conaffinity2) || (contype2 & conaffinity1)`.
 * The `contact` and `constraint` disable flags switch collision detection off.
-/
namespace MjProof.Spec.Collide
open MjProof MjProof.Broadphase

variable (M : Model)

/-- the body a geom belongs to -/
def bodyOf (g : Fin M.ngeom) : Fin M.nbody := M.geom[g].bodyid

/-- the weld group ("several bodies welded together … are treated as a single body") -/
def weldOf (b : Fin M.nbody) : Fin M.nbody := M.body[b].weld

/-- the weld group of the parent of a weld group -/
def weldParent (w : Fin M.nbody) : Fin M.nbody := M.body[M.body[w].parent].weld

/-- "neither body can move (both weld groups have no degrees of freedom)" -/
def cannotMove (w : Fin M.nbody) : Prop := M.body[w].dofnum = 0

/-- filter 3 (true = the pair is filtered out) -/
def bodyFiltered (b1 b2 : Fin M.nbody) : Prop :=
  let w1 := weldOf M b1
  let w2 := weldOf M b2
  w1 = w2 ∨ (cannotMove M w1 ∧ cannotMove M w2) ∨
  (M.dsblFilterParent = false ∧
    ((weldParent M w2 = w1 ∧ w1.val ≠ 0) ∨ (weldParent M w1 = w2 ∧ w2.val ≠ 0)))

/-- filter 4 -/
def compatible (g1 g2 : Fin M.ngeom) : Prop :=
  intLand M.geom[g1].contype M.geom[g2].conaffinity ≠ 0 ∨ intLand M.geom[g2].contype M.geom[g1].conaffinity ≠ 0

/-- an `exclude` element names the two bodies (in either order) -/
def excludedBodies (b1 b2 : Fin M.nbody) : Prop :=
  ∃ s ∈ M.excludes, s = (min b1.val b2.val) * 65536 + max b1.val b2.val

/-- an explicit `pair` element names the two geoms (in either order) -/
def hasExplicit (g1 g2 : Fin M.ngeom) : Prop :=
  ∃ p ∈ M.pairs, (p.g1 = g1 ∧ p.g2 = g2) ∨ (p.g1 = g2 ∧ p.g2 = g1)

/-- filter 1 -/
def typesOK (g1 g2 : Fin M.ngeom) : Prop :=
  M.func (min M.geom[g1].gtype M.geom[g2].gtype) (max M.geom[g1].gtype M.geom[g2].gtype) = true

/-- the disable flags -/
def enabled : Prop := M.dsblConstraint = false ∧ M.dsblContact = false

/-- the unordered geom pair `{g1, g2}` is selected through the body-pair mechanism -/
def Dynamic (g1 g2 : Fin M.ngeom) : Prop :=
  enabled M ∧ ¬ bodyFiltered M (bodyOf M g1) (bodyOf M g2) ∧ compatible M g1 g2 ∧
  ¬ excludedBodies M (bodyOf M g1) (bodyOf M g2) ∧ ¬ hasExplicit M g1 g2 ∧ typesOK M g1 g2 ∧ M.near g1 g2 = true

/-- the explicit pair `p` is selected -/
def Explicit (p : Pair M.ngeom) : Prop :=
  enabled M ∧ p ∈ M.pairs ∧ typesOK M p.g1 p.g2 ∧ M.nearPair p.idx = true

end MjProof.Spec.Collide
