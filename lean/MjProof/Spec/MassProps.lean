import MjProof.Model.MassProps
import MjProof.Lemmas.Orient
import Mathlib.Analysis.SpecialFunctions.Trigonometric.Basic
/-
Specification side of C35: the analytic mass properties of the primitive shapes over ℝ, written as the
textbook decomposition (uniform volume density `ρ`, or uniform surface density `σ` for shells):

* volumes / surface areas in terms of `Real.pi`;
* principal moments about the centre, composed from the standard parts by the parallel-axis theorem
  (solid sphere 2/5 M r², spherical shell 2/3 M r², solid cylinder M(3r²+h²)/12 and M r²/2, thin cylindrical
  wall M(r²/2+h²/12) and M r², disk M r²/4 and M r²/2, solid hemisphere with centre of mass at 3r/8,
  hemispherical shell with centre of mass at r/2, thin rectangular plate M q²/12 and M (p²+q²)/12);
* the full inertia tensor of a set of posed parts about a point: Σ R diag(I) Rᵀ + m (‖d‖² 1 − d dᵀ).

`hh` is the half-height (`size[1]` of capsule / cylinder), `a b c` are half-extents (box, ellipsoid).
-/
namespace MjProof.Spec.MassProps
open MjProof MjProof.Orient MjProof.MassProps

noncomputable section

def sphereVol (r : ℝ) : ℝ := 4 / 3 * Real.pi * r ^ 3
def sphereArea (r : ℝ) : ℝ := 4 * Real.pi * r ^ 2
def cylinderVol (r hh : ℝ) : ℝ := Real.pi * r ^ 2 * (2 * hh)
def cylinderWallArea (r hh : ℝ) : ℝ := 2 * Real.pi * r * (2 * hh)
def diskArea (r : ℝ) : ℝ := Real.pi * r ^ 2
def cylinderArea (r hh : ℝ) : ℝ := cylinderWallArea r hh + 2 * diskArea r
def capsuleVol (r hh : ℝ) : ℝ := cylinderVol r hh + sphereVol r
def capsuleArea (r hh : ℝ) : ℝ := cylinderWallArea r hh + sphereArea r
def ellipsoidVol (a b c : ℝ) : ℝ := 4 / 3 * Real.pi * a * b * c
def boxVol (a b c : ℝ) : ℝ := (2 * a) * (2 * b) * (2 * c)
def boxArea (a b c : ℝ) : ℝ := 2 * ((2 * a) * (2 * b) + (2 * b) * (2 * c) + (2 * c) * (2 * a))

/-- solid sphere of density `ρ` -/
def solidSphere (ρ r : ℝ) : V3 ℝ :=
  let M := ρ * sphereVol r
  ⟨2 / 5 * M * r ^ 2, 2 / 5 * M * r ^ 2, 2 / 5 * M * r ^ 2⟩

/-- spherical shell of surface density `σ` -/
def shellSphere (σ r : ℝ) : V3 ℝ :=
  let M := σ * sphereArea r
  ⟨2 / 3 * M * r ^ 2, 2 / 3 * M * r ^ 2, 2 / 3 * M * r ^ 2⟩

/-- solid cylinder along z -/
def solidCylinder (ρ r hh : ℝ) : V3 ℝ :=
  let M := ρ * cylinderVol r hh
  let h := 2 * hh
  ⟨M * (3 * r ^ 2 + h ^ 2) / 12, M * (3 * r ^ 2 + h ^ 2) / 12, M * r ^ 2 / 2⟩

/-- closed cylindrical surface: wall + two disks at `±hh` -/
def shellCylinder (σ r hh : ℝ) : V3 ℝ :=
  let Mw := σ * cylinderWallArea r hh
  let Md := σ * diskArea r
  let h := 2 * hh
  let ix := Mw * (r ^ 2 / 2 + h ^ 2 / 12) + 2 * (Md * r ^ 2 / 4 + Md * hh ^ 2)
  ⟨ix, ix, Mw * r ^ 2 + 2 * (Md * r ^ 2 / 2)⟩

/-- solid capsule: cylinder + two solid hemispheres (mass `Mh` each, centre of mass `3r/8` from the flat face,
    moment `2/5 Mh r²` about the sphere centre) moved to `±hh` by the parallel-axis theorem -/
def solidCapsule (ρ r hh : ℝ) : V3 ℝ :=
  let Mc := ρ * cylinderVol r hh
  let Mh := ρ * (sphereVol r / 2)
  let h := 2 * hh
  let d := 3 * r / 8
  let ix := Mc * (3 * r ^ 2 + h ^ 2) / 12 + 2 * (2 / 5 * Mh * r ^ 2 - Mh * d ^ 2 + Mh * (hh + d) ^ 2)
  ⟨ix, ix, Mc * r ^ 2 / 2 + 2 * (2 / 5 * Mh * r ^ 2)⟩

/-- capsule surface: cylindrical wall + two hemispherical shells (centre of mass `r/2`, moment `2/3 Mh r²`
    about the sphere centre) -/
def shellCapsule (σ r hh : ℝ) : V3 ℝ :=
  let Mw := σ * cylinderWallArea r hh
  let Mh := σ * (sphereArea r / 2)
  let h := 2 * hh
  let d := r / 2
  let ix := Mw * (r ^ 2 / 2 + h ^ 2 / 12) + 2 * (2 / 3 * Mh * r ^ 2 - Mh * d ^ 2 + Mh * (hh + d) ^ 2)
  ⟨ix, ix, Mw * r ^ 2 + 2 * (2 / 3 * Mh * r ^ 2)⟩

/-- solid ellipsoid with semi-axes `a b c` -/
def solidEllipsoid (ρ a b c : ℝ) : V3 ℝ :=
  let M := ρ * ellipsoidVol a b c
  ⟨M * (b ^ 2 + c ^ 2) / 5, M * (a ^ 2 + c ^ 2) / 5, M * (a ^ 2 + b ^ 2) / 5⟩

/-- solid box with half-extents `a b c` (full sides `2a 2b 2c`) -/
def solidBox (ρ a b c : ℝ) : V3 ℝ :=
  let M := ρ * boxVol a b c
  ⟨M * ((2 * b) ^ 2 + (2 * c) ^ 2) / 12, M * ((2 * a) ^ 2 + (2 * c) ^ 2) / 12, M * ((2 * a) ^ 2 + (2 * b) ^ 2) / 12⟩

/-- box surface: three pairs of thin rectangular plates at distance `c`, `a`, `b` from the centre -/
def shellBox (σ a b c : ℝ) : V3 ℝ :=
  let Mz := σ * ((2 * a) * (2 * b))   -- faces z = ±c
  let Mx := σ * ((2 * b) * (2 * c))   -- faces x = ±a
  let My := σ * ((2 * c) * (2 * a))   -- faces y = ±b
  ⟨2 * (Mz * ((2 * b) ^ 2 / 12 + c ^ 2) + Mx * ((2 * b) ^ 2 + (2 * c) ^ 2) / 12 + My * ((2 * c) ^ 2 / 12 + b ^ 2)),
   2 * (Mz * ((2 * a) ^ 2 / 12 + c ^ 2) + Mx * ((2 * c) ^ 2 / 12 + a ^ 2) + My * ((2 * a) ^ 2 + (2 * c) ^ 2) / 12),
   2 * (Mz * ((2 * a) ^ 2 + (2 * b) ^ 2) / 12 + Mx * ((2 * b) ^ 2 / 12 + a ^ 2) + My * ((2 * a) ^ 2 / 12 + b ^ 2))⟩

/-! ### inertia tensors as 6-vectors `(xx, yy, zz, xy, xz, yz)` -/

def Sym6.add (a b : Sym6 ℝ) : Sym6 ℝ := ⟨a.xx + b.xx, a.yy + b.yy, a.zz + b.zz, a.xy + b.xy, a.xz + b.xz, a.yz + b.yz⟩
def Sym6.zero : Sym6 ℝ := ⟨0, 0, 0, 0, 0, 0⟩

/-- `R diag(I) Rᵀ` for a row-major matrix `R` -/
def rotateDiag (R : M9 ℝ) (I : V3 ℝ) : Sym6 ℝ :=
  ⟨R.m0 * R.m0 * I.x + R.m1 * R.m1 * I.y + R.m2 * R.m2 * I.z,
   R.m3 * R.m3 * I.x + R.m4 * R.m4 * I.y + R.m5 * R.m5 * I.z,
   R.m6 * R.m6 * I.x + R.m7 * R.m7 * I.y + R.m8 * R.m8 * I.z,
   R.m0 * R.m3 * I.x + R.m1 * R.m4 * I.y + R.m2 * R.m5 * I.z,
   R.m0 * R.m6 * I.x + R.m1 * R.m7 * I.y + R.m2 * R.m8 * I.z,
   R.m3 * R.m6 * I.x + R.m4 * R.m7 * I.y + R.m5 * R.m8 * I.z⟩

/-- `m (‖d‖² 1 − d dᵀ)`: inertia of a point mass `m` at displacement `d` -/
def pointMass (m : ℝ) (d : V3 ℝ) : Sym6 ℝ :=
  ⟨m * (d.y ^ 2 + d.z ^ 2), m * (d.x ^ 2 + d.z ^ 2), m * (d.x ^ 2 + d.y ^ 2), -(m * d.x * d.y), -(m * d.x * d.z), -(m * d.y * d.z)⟩

/-- inertia of one posed part about the point `c`: `R diag(I) Rᵀ + m (‖d‖² 1 − d dᵀ)`, `d = pos − c`,
    `R` the rotation matrix of the part's quaternion -/
def partAbout (c : V3 ℝ) (g : GeomMI ℝ) : Sym6 ℝ :=
  Sym6.add (rotateDiag (matF g.quat) g.inertia) (pointMass g.mass ⟨g.pos.x - c.x, g.pos.y - c.y, g.pos.z - c.z⟩)

/-- total inertia of a list of parts about `c` -/
def inertiaAbout (c : V3 ℝ) : List (GeomMI ℝ) → Sym6 ℝ
  | [] => Sym6.zero
  | g :: gs => Sym6.add (partAbout c g) (inertiaAbout c gs)

def totalMass : List (GeomMI ℝ) → ℝ
  | [] => 0
  | g :: gs => g.mass + totalMass gs

/-- Σ mᵢ xᵢ -/
def firstMoment : List (GeomMI ℝ) → V3 ℝ
  | [] => ⟨0, 0, 0⟩
  | g :: gs => let r := firstMoment gs; ⟨g.mass * g.pos.x + r.x, g.mass * g.pos.y + r.y, g.mass * g.pos.z + r.z⟩

/-- Σ mᵢ (‖xᵢ − c‖² 1 − (xᵢ − c)(xᵢ − c)ᵀ) -/
def pointMassesAbout (c : V3 ℝ) : List (GeomMI ℝ) → Sym6 ℝ
  | [] => Sym6.zero
  | g :: gs => Sym6.add (pointMass g.mass ⟨g.pos.x - c.x, g.pos.y - c.y, g.pos.z - c.z⟩) (pointMassesAbout c gs)

/-- quadratic form `uᵀ I u` of a symmetric 6-vector -/
def qform (I : Sym6 ℝ) (u : V3 ℝ) : ℝ :=
  I.xx * u.x ^ 2 + I.yy * u.y ^ 2 + I.zz * u.z ^ 2 + 2 * I.xy * u.x * u.y + 2 * I.xz * u.x * u.z + 2 * I.yz * u.y * u.z

def trace (I : Sym6 ℝ) : ℝ := I.xx + I.yy + I.zz

/-- the triangle inequality of a full inertia tensor in coordinate-free form: `2 uᵀ I u ≤ tr(I) ‖u‖²` for every `u`
    (equivalently: the second-moment matrix `½ tr(I) 1 − I` is positive semidefinite).  For a diagonal tensor this
    is `A + B ≥ C` and its two permutations (`triangleFull_diag_iff`). -/
def triangleFull (I : Sym6 ℝ) : Prop := ∀ u : V3 ℝ, 2 * qform I u ≤ trace I * (u.x ^ 2 + u.y ^ 2 + u.z ^ 2)

/-- `A + B ≥ C`, `A + C ≥ B`, `B + C ≥ A` -/
def triangle (I : V3 ℝ) : Prop := I.z ≤ I.x + I.y ∧ I.y ≤ I.x + I.z ∧ I.x ≤ I.y + I.z

end

end MjProof.Spec.MassProps
