import MjProof.Model.XmlSchema
/-
Declarative conformance of an XML element tree to an MJCF grammar (C37).

The grammar is a tree of nodes `Node` (tag, cardinality type, allowed attributes, presence constraints, child
nodes).  `Conforms aliasRec s level x` says that the element `x`, found at nesting depth `level`, is a valid
instance of the grammar node `s`.  It is stated as a relation (no traversal order, no error priority, no counters
that are reset and incremented): tag, attribute set, presence constraints as logical statements over the set of
present attributes, each child licensed by a grammar node, and cardinalities as statements about the number of
children licensed by each child node.

Tag aliasing (`nameMatch`, shared with the model because it *defines* which tags a node admits) is part of the
grammar: the `body` node admits `worldbody` at depth 1 and `frame` / `replicate` at depth >= 1.

`aliasRec = true` is the grammar: every child that a recursive ('R') node admits under its own name rule must itself
conform to that node (a `frame` inside a `body` is validated as a body).  `aliasRec = false` describes what is
enforced when only children whose tag EQUALS the node's name are validated recursively; it is weaker (see
`MjProof.C37.conforms_mono`) and is what `mjXSchema::Check` of the tree implements today.
-/
namespace MjProof.XmlSchema

/-- a bundle is touched when one of its attributes is present, complete when all are -/
def touched (attrs : List (String × String)) (b : List String) : Prop := ∃ a ∈ b, present attrs a = true
def complete (attrs : List (String × String)) (b : List String) : Prop := ∀ a ∈ b, present attrs a = true

/-- meaning of one presence constraint over the attributes of an element -/
def ConHolds (attrs : List (String × String)) (c : Con) : Prop :=
  if c.kind = 'e' then
    -- exclusive: no two bundles (at different positions) are both touched
    c.bundles.Pairwise fun b1 b2 => ¬ (touched attrs b1 ∧ touched attrs b2)
  else if c.kind = 't' then
    -- together: all listed attributes, or none of them
    (∀ b ∈ c.bundles, ∀ a ∈ b, present attrs a = true) ∨ (∀ b ∈ c.bundles, ∀ a ∈ b, present attrs a = false)
  else if c.kind = 'r' then
    -- requires: the first attribute of the first bundle needs the first attribute of the second
    ∃ a ra b rb rest, c.bundles = (a :: ra) :: (b :: rb) :: rest ∧ (present attrs a = true → present attrs b = true)
  else if c.kind = 'o' then
    -- oneof: some bundle is complete
    ∃ b ∈ c.bundles, complete attrs b
  else True

/-- cardinality of a child node: '!' exactly one, '?' at most one, anything else unconstrained -/
def CardOk (type : Char) (n : Nat) : Prop :=
  if type = '!' then n = 1 else if type = '?' then n ≤ 1 else True

/-- the `i`-th child node licenses `k`: it is the first child node (in grammar order) admitting the tag of `k` -/
def Licenses (subs : List Node) (level : Nat) (k : Xml) (i : Nat) : Prop :=
  ∃ h : i < subs.length, nameMatch subs[i].name k.name (level + 1) = true ∧
    ∀ j (hj : j < subs.length), j < i → nameMatch subs[j].name k.name (level + 1) = false

/-- conformance of element `x` at depth `level` to grammar node `s` -/
inductive Conforms (aliasRec : Bool) : Node → Nat → Xml → Prop
  | mk (s : Node) (level : Nat) (name : String) (line : Nat) (attrs : List (String × String)) (kids : List Xml)
      (hname : nameMatch s.name name level = true)
      (hattrs : ∀ a ∈ attrs, a.1 ∈ s.attrs)
      (hcons : ∀ c ∈ s.cons, ConHolds attrs c)
      -- children a recursive node admits under its own name rule conform to the node itself
      (hrec : s.type = 'R' → ∀ k ∈ kids, recSel aliasRec s.name level k = true → Conforms aliasRec s (level + 1) k)
      -- a child licensed by a child node conforms to it
      (hsub : ∀ k ∈ kids, ∀ sub, assign s.subs k.name level = some sub → Conforms aliasRec sub (level + 1) k)
      -- a child no child node admits must be admitted by the recursive rule
      (hnone : ∀ k ∈ kids, assign s.subs k.name level = none →
        s.type = 'R' ∧ nameMatch s.name k.name (level + 1) = true)
      -- cardinalities
      (hcard : ∀ i (h : i < s.subs.length), CardOk s.subs[i].type (refcnt s.subs level kids i)) :
      Conforms aliasRec s level (.mk name line attrs kids)

end MjProof.XmlSchema
