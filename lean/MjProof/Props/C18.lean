/-
C18  Sleeping islands are frozen and wake on the documented events.

Theorems about the executable model `MjProof/Model/Sleep.lean` of `src/engine/engine_sleep.c` (the model is
tied to the tree by the exact correspondence of `checks/c18.py`).  `Cyc`, `succ`, `InOrbit`, `ZInv`,
`DerivedSpec`, `StaleOk` are defined in `MjProof/Lemmas/Sleep.lean`.

  cyc_iff_returns               `Cyc` (closed + injective) ⇔ every sleeping tree's successor is a sleeping tree and
                                following successors returns to the start within ntree steps
  init_cyc, history_cyc         every state reachable from the all-awake array by any history of the modelled
                                operations satisfies `Cyc`
  sleepTrees_preserves / _links_cycle, sleep_preserves
  wakeIsland_preserves / wakeIsland_wakes_whole_cycle   (no error exit, the bound `nwoke < ntree` never fires)
  wake_preserves, wakeCollision_preserves, wakeCollision_wakes_touching
  sleepCycle_min
  derived_lists
  frozen_partial                partial: the modelled `mj_advance` only (see its doc comment)
Wake *triggers* (which island a perturbation / contact / equality selects) are decision logic tied by
correspondence (mj_wake, mj_wakeCollision) or exercised only by the scene oracle (mj_wakeEquality,
mj_wakeTendon, mj_kinematics1's pose comparison) — not theorems about the whole step.
-/
import MjProof.Lemmas.Sleep

namespace MjProof.C18

open MjProof.Sleep Function

variable {n nv nbody njnt : Nat} {V P : Type}

/-! ## the invariant -/

/-- `Cyc` is the same as: the successor of a sleeping tree is a sleeping tree of the array, and following
    successors from a sleeping tree returns to it after `k` steps for some `0 < k ≤ ntree`. -/
theorem cyc_iff_returns (ta : TA n) :
    Cyc ta ↔
      ((∀ j : Fin n, 0 ≤ ta[j] → ∃ k : Fin n, ta[j] = (k.val : Int) ∧ 0 ≤ ta[k]) ∧
       (∀ j : Fin n, 0 ≤ ta[j] → ∃ k : Nat, 0 < k ∧ k ≤ n ∧ (succ ta)^[k] j = j)) := by
  constructor
  · intro hc
    exact ⟨hc.closed, fun j _ => ⟨period ta j, hc.period_pos j, period_le ta j, iterate_period ta j⟩⟩
  · rintro ⟨hcl, hret⟩
    refine ⟨hcl, ?_⟩
    intro j k hj hk hjk
    -- succ j = succ k =: s; both j and k are the point reached from s after (period s - 1) steps
    have hlt : ∀ x : Fin n, 0 ≤ ta[x] → ta[x] < (n : Int) := by
      intro x hx; obtain ⟨y, hy, _⟩ := hcl x hx; rw [hy]; exact_mod_cast y.isLt
    have hs : succ ta j = succ ta k := by
      apply Fin.ext
      have h1 := Sleep.succ_val hj (hlt j hj)
      have h2 := Sleep.succ_val hk (hlt k hk)
      omega
    have key : ∀ x : Fin n, 0 ≤ ta[x] → succ ta x = succ ta j →
        x = (succ ta)^[minimalPeriod (succ ta) (succ ta j) - 1] (succ ta j) := by
      intro x hx hxs
      obtain ⟨a, ha0, _, ha⟩ := hret x hx
      -- succ^[a] (succ x) = succ x
      have hper : IsPeriodicPt (succ ta) a (succ ta x) := by
        show (succ ta)^[a] (succ ta x) = succ ta x
        rw [← iterate_succ_apply, iterate_succ_apply', ha]
      have hdvd := hper.minimalPeriod_dvd
      have hpos : 0 < minimalPeriod (succ ta) (succ ta x) := hper.minimalPeriod_pos ha0
      obtain ⟨c, hc⟩ := hdvd
      obtain ⟨c', rfl⟩ : ∃ c', c = c' + 1 := by
        rcases Nat.eq_zero_or_pos c with h | h
        · subst h; omega
        · exact ⟨c - 1, by omega⟩
      -- x = succ^[a-1] (succ x) and (a-1) % p = p-1
      have hx1 : (succ ta)^[a - 1] (succ ta x) = x := by
        rw [← iterate_succ_apply]
        have : (a - 1).succ = a := by omega
        rw [this, ha]
      have hmod : (a - 1) % minimalPeriod (succ ta) (succ ta x) = minimalPeriod (succ ta) (succ ta x) - 1 := by
        generalize minimalPeriod (succ ta) (succ ta x) = p at hc hpos
        have : a - 1 = p * c' + (p - 1) := by
          rw [Nat.mul_succ] at hc; omega
        rw [this, Nat.mul_add_mod]
        exact Nat.mod_eq_of_lt (by omega)
      calc x = (succ ta)^[a - 1] (succ ta x) := hx1.symm
        _ = (succ ta)^[(a - 1) % minimalPeriod (succ ta) (succ ta x)] (succ ta x) :=
            (iterate_mod_minimalPeriod_eq (f := succ ta) (x := succ ta x) (n := a - 1)).symm
        _ = (succ ta)^[minimalPeriod (succ ta) (succ ta x) - 1] (succ ta x) := by rw [hmod]
        _ = (succ ta)^[minimalPeriod (succ ta) (succ ta j) - 1] (succ ta j) := by rw [hxs]
    rw [key j hj rfl, key k hk hs.symm]

/-- the array after `mj_resetData` (every tree at `kAwake`) is well-formed -/
theorem init_cyc (n : Nat) : Cyc (Vector.replicate n kAwake : TA n) :=
  cyc_of_all_awake (by intro j; simp [kAwake_neg])

/-! ## mj_sleepTrees / mj_sleep -/

/-- `mj_sleepTrees` preserves `Cyc` whenever it completes (it completes exactly on distinct ready trees,
    see `sleepTrees_links_cycle`). -/
theorem sleepTrees_preserves (zero : V) (td : TreeDofs n nv) (l : List (Fin n)) (s s' : St n nv V)
    (hc : Cyc s.ta) (h : sleepTrees zero td l s = (s', none)) : Cyc s'.ta :=
  sleepTrees_cyc zero td l s s' hc h

/-- When `mj_sleepTrees` completes, the trees were distinct and all at ‑1, entry `k` of the list now points
    to entry `(k+1) mod len` — in particular the last tree points to the first — and every other entry is
    unchanged. -/
theorem sleepTrees_links_cycle (zero : V) (td : TreeDofs n nv) (l : List (Fin n)) (s s' : St n nv V)
    (h : sleepTrees zero td l s = (s', none)) :
    l.Nodup ∧ (∀ t ∈ l, s.ta[t] = -1) ∧ (∀ j : Fin n, j ∉ l → s'.ta[j] = s.ta[j]) ∧
    (∀ k (hk : k < l.length), s'.ta[l[k]] = ((l[(k + 1) % l.length]'(Nat.mod_lt _ (by omega))).val : Int)) := by
  obtain ⟨h1, h2, h3, h4⟩ := sleepTrees_spec zero td l s s' h
  refine ⟨h1, h2, h3, ?_⟩
  intro k hk
  rw [h4 k hk]
  have : nextIdx l.length k = (k + 1) % l.length := by
    unfold nextIdx
    by_cases hk2 : k + 1 < l.length
    · rw [if_pos hk2, Nat.mod_eq_of_lt hk2]
    · rw [if_neg hk2]
      have : k + 1 = l.length := by omega
      rw [this, Nat.mod_self]
  simp only [this]

example :
    let r := sleepTrees (0 : Int) (⟨#v[0, 1, 2], #v[1, 1, 1], by decide⟩ : TreeDofs 3 3) [2, 0]
      { ta := #v[-1, -5, -1], qvel := #v[7, 7, 7], qacc := #v[7, 7, 7] }
    r.1.ta = #v[2, -5, 0] ∧ r.1.qvel = #v[0, 7, 0] ∧ r.2 = none := by decide

/-- `mj_sleep` (countdown, islands, unconstrained trees) preserves `Cyc` whenever it completes, for any
    island structure and any can-sleep verdicts. -/
theorem sleep_preserves (zero : V) (td : TreeDofs n nv) (inp : SleepIn n) (s s' : St n nv V) (k : Nat)
    (hc : Cyc s.ta) (h : sleep zero td inp s = (s', k, none)) : Cyc s'.ta :=
  sleep_cyc zero td inp s s' k hc h

/-- The countdown sweep of `mj_sleep`: sleeping entries are untouched; an awake entry in `[kAwake, -1]` stays in
    that range — it moves one step towards ‑1 ("ready") when the tree can sleep and is reset to `kAwake`
    otherwise (so the unbounded-`Int` model never leaves the range of a C `int`). -/
theorem countdown_spec (can : Vector Bool n) (ta : TA n) (j : Fin n) :
    (0 ≤ ta[j] → (countdown can ta)[j] = ta[j]) ∧
    (ta[j] < 0 → can[j] = false → (countdown can ta)[j] = kAwake) ∧
    (ta[j] < -1 → can[j] = true → (countdown can ta)[j] = ta[j] + 1) ∧
    (ta[j] = -1 → can[j] = true → (countdown can ta)[j] = -1) ∧
    (kAwake ≤ ta[j] → ta[j] < 0 → kAwake ≤ (countdown can ta)[j] ∧ (countdown can ta)[j] ≤ -1) := by
  rw [countdown_get]
  unfold kAwake minAwake
  refine ⟨fun h => by rw [if_pos h], fun h hc => ?_, fun h hc => ?_, fun h hc => ?_, fun h1 h2 => ?_⟩
  · rw [if_neg (by omega), hc]; simp
  · rw [if_neg (by omega), hc]; simp only [if_true]; rw [if_pos h]
  · rw [if_neg (by omega), hc]; simp only [if_true]; rw [if_neg (by omega)]; exact h
  · rw [if_neg (by omega)]
    split
    · split <;> omega
    · omega

/-! ## mj_wakeIsland -/

/-- `mj_wakeIsland` preserves `Cyc` for every index (valid or not) and every negative wake value. -/
theorem wakeIsland_preserves {ta : TA n} (hc : Cyc ta) (i : Int) {w : Int} (hw : w < 0) :
    Cyc (wakeIsland ta i w).1 :=
  wakeIsland_cyc hc i hw

/-- On a well-formed array `mj_wakeIsland` of a sleeping tree takes no error exit (in particular its walk
    returns to the start before the `nwoke < ntree` bound can stop it), overwrites exactly the trees of the
    cycle with `wakeval`, leaves every other entry alone and returns the number of trees of the cycle. -/
theorem wakeIsland_wakes_whole_cycle {ta : TA n} (hc : Cyc ta) (i : Fin n) (hi : 0 ≤ ta[i]) (w : Int) :
    ∃ (ta' : TA n) (cyc : List (Fin n)),
      wakeIsland ta (i.val : Int) w = (ta', .ok cyc.length) ∧
      cyc.Nodup ∧ (∀ j, j ∈ cyc ↔ InOrbit ta i j) ∧
      (∀ j, InOrbit ta i j → ta'[j] = w) ∧ (∀ j, ¬ InOrbit ta i j → ta'[j] = ta[j]) := by
  refine ⟨wokeUpTo ta i w (period ta i), (List.range (period ta i)).map (fun t => (succ ta)^[t] i), ?_, ?_, ?_, ?_, ?_⟩
  · rw [wakeIsland_asleep hc i hi w]; simp
  · rw [List.nodup_map_iff_inj_on List.nodup_range]
    intro a ha b hb hab
    exact iterate_inj_of_lt_period (List.mem_range.1 ha) (List.mem_range.1 hb) hab
  · intro j
    rw [inOrbit_iff_lt_period hc]
    simp only [List.mem_map, List.mem_range]
  · intro j hj; rw [wokeUpTo_period hc, if_pos hj]
  · intro j hj; rw [wokeUpTo_period hc, if_neg hj]

example : Cyc (#v[2, -11, 0, 3] : TA 4) := by
  constructor
  · decide
  · decide

/-! ## mj_wake / mj_wakeCollision -/

/-- `mj_wake` (both the sleep-enabled sweep and the sleep-disabled "wake all") preserves `Cyc`, whatever
    the perturbation flags are. -/
theorem wake_preserves {ta : TA n} (enabled : Bool) (ntreeAwake : Nat) (flag : Vector Bool n) (hc : Cyc ta) :
    Cyc (wake enabled ntreeAwake flag ta).1 :=
  wake_cyc enabled ntreeAwake flag hc

/-- `mj_wakeCollision` preserves `Cyc` for any contact list, provided the (stale) `tree_awake` array only
    reports trees as awake that are awake (it is refreshed by `mj_updateSleep` after every change of the
    sleeping set, and waking never puts a tree to sleep). -/
theorem wakeCollision_preserves {ta : TA n} (enabled : Bool) (stale : Vector Bool n) (cs : List (Contact n))
    (hc : Cyc ta) (hs : StaleOk stale ta) : Cyc (wakeCollision enabled stale cs ta).1 :=
  wakeCollision_cyc enabled stale cs hc hs

/-- Wake on touch, at the level of the decision logic: after a completed `mj_wakeCollision` (sleep enabled),
    for every geom–geom contact between two trees of which `tree_awake` reported at least one as awake, both
    trees are awake — and by `wakeIsland_wakes_whole_cycle` so is the whole island of the woken one. -/
theorem wakeCollision_wakes_touching {ta ta' : TA n} (stale : Vector Bool n) (cs : List (Contact n)) (k : Nat)
    (hc : Cyc ta) (hs : StaleOk stale ta) (h : wakeCollision true stale cs ta = (ta', .ok k)) :
    ∀ c ∈ cs, ∀ t1 t2 : Fin n, c.tree1 = some t1 → c.tree2 = some t2 →
      (stale[t1] = true ∨ stale[t2] = true) → ta'[t1] < 0 ∧ ta'[t2] < 0 := by
  unfold wakeCollision at h
  simp only [Bool.not_true, Bool.false_eq_true, if_false] at h
  exact wakeCollisionGo_wakes stale cs ta 0 hc hs ta' k h

example : StaleOk (#v[true, false, false] : Vector Bool 3) (#v[-3, 2, 1] : TA 3) := by
  intro t; revert t; decide

/-! ## histories -/

/-- One modelled operation on the sleeping state.  `sleepOk` is a completed `mj_sleep` (hence also every
    completed `mj_sleepTrees` inside it); wake values are negative as in every call site of the engine
    (`kAwake` or the entry of an awake tree). -/
inductive Step (zero : V) (td : TreeDofs n nv) : St n nv V → St n nv V → Prop
  | sleepOk (inp : SleepIn n) (s s' : St n nv V) (k : Nat) (h : sleep zero td inp s = (s', k, none)) : Step zero td s s'
  | sleepTreesOk (l : List (Fin n)) (s s' : St n nv V) (h : sleepTrees zero td l s = (s', none)) : Step zero td s s'
  | wakeIsland (i w : Int) (hw : w < 0) (s : St n nv V) :
      Step zero td s { s with ta := (wakeIsland s.ta i w).1 }
  | wake (enabled : Bool) (nta : Nat) (flag : Vector Bool n) (s : St n nv V) :
      Step zero td s { s with ta := (wake enabled nta flag s.ta).1 }
  | wakeCollision (enabled : Bool) (stale : Vector Bool n) (cs : List (Contact n)) (s : St n nv V)
      (hs : StaleOk stale s.ta) : Step zero td s { s with ta := (wakeCollision enabled stale cs s.ta).1 }
  | userState (s : St n nv V) (qvel qacc : Vector V nv) : Step zero td s { s with qvel := qvel, qacc := qacc }

/-- states reachable from the all-awake array by any finite history of operations -/
inductive Reach (zero : V) (td : TreeDofs n nv) : St n nv V → Prop
  | init (qvel qacc : Vector V nv) : Reach zero td { ta := Vector.replicate n kAwake, qvel := qvel, qacc := qacc }
  | step {s s' : St n nv V} : Reach zero td s → Step zero td s s' → Reach zero td s'

/-- For any number of trees and any history of sleep / wake operations from the reset state,
    `tree_asleep` encodes closed cycles. -/
theorem history_cyc (zero : V) (td : TreeDofs n nv) {s : St n nv V} (h : Reach zero td s) : Cyc s.ta := by
  induction h with
  | init qvel qacc => exact init_cyc n
  | step _ hstep ih =>
    cases hstep with
    | sleepOk inp s s' k h => exact sleep_cyc zero td inp _ _ k ih h
    | sleepTreesOk l s s' h => exact sleepTrees_cyc zero td l _ _ ih h
    | wakeIsland i w hw s => exact wakeIsland_cyc ih i hw
    | wake enabled nta flag s => exact wake_cyc enabled nta flag ih
    | wakeCollision enabled stale cs s hs => exact wakeCollision_cyc enabled stale cs ih hs
    | userState s qvel qacc => exact ih

/-! ## mj_sleepCycle -/

/-- On a well-formed array `mj_sleepCycle` of a sleeping tree returns (no ‑1 exit) the smallest index among
    the trees of its cycle. -/
theorem sleepCycle_min {ta : TA n} (hc : Cyc ta) (i : Fin n) (hi : 0 ≤ ta[i]) :
    ∃ m : Fin n, sleepCycle ta (i.val : Int) = (m.val : Int) ∧ InOrbit ta i m ∧
      ∀ j, InOrbit ta i j → m.val ≤ j.val :=
  sleepCycle_spec hc i hi

/-! ## mj_updateSleepInit -/

/-- The derived arrays are exactly the filtered index lists: `tree_awake[t] = (tree_asleep[t] < 0)`,
    `ntree_awake` their number, `body_awake[b]` the state of the body's tree (mocap-rooted and, with
    `flg_staticawake`, all dof-less bodies count as awake, other dof-less bodies as static),
    `body_awake_ind` = bodies not asleep, `parent_awake_ind` = non-world bodies whose parent is not asleep,
    `dof_awake_ind` = dofs of awake bodies that belong to a tree — each in increasing order.  Hypothesis:
    parents precede their children (`body_parentid[i] < i`, a compiler invariant), so that the in-loop
    read of `body_awake[body_parentid[i]]` sees the new value. -/
theorem derived_lists (flg : Bool) (ta : TA n) (tp : BodyTopo n nbody nv) (old : Vector Int nbody)
    (hpar : ∀ i : Fin nbody, i.val ≠ 0 → (tp.parentid[i]).val < i.val) :
    DerivedSpec tp flg ta (updateSleepInit flg ta tp old) :=
  updateSleepInit_spec flg ta tp old hpar

/-! ## frozen sleeping trees in the modelled `mj_advance` -/

/-- **Partial.**  In the modelled `mj_advance` (mj_sleep, refresh of the awake lists, velocity update over
    `dof_awake_ind`, position update over `body_awake_ind`) with sleeping enabled: every tree that is asleep
    after the step has zero velocity on all of its dofs and the position blocks of all joints of its bodies
    are unchanged.  Hypotheses: the derived arrays at entry are those of `tree_asleep` at entry
    (`DerivedSpec`), sleeping trees have zero velocity at entry (`ZInv`, established by `mj_sleepTrees` and
    kept by every modelled operation: `sleep_keeps_zero`), and the model tables are consistent (dofs of a
    tree = its dof range, joint ranges of distinct bodies are disjoint, parents precede children).
    What is missing for the full statement: the forward pipeline and the integrators other than the
    Euler/implicit `mj_advance` call (RK4 is documented as unsupported with sleeping), bit-identity of the
    untouched memory (trivial in the functional model) — these are covered by the scene oracle only. -/
theorem frozen_partial (zero : V) (addScl : V → V → V) (integ : Fin njnt → P → Vector V nv → P)
    (td : TreeDofs n nv) (tp : BodyTopo n nbody nv) (bj : BodyJnts nbody njnt)
    (inp : SleepIn n) (qacc : Vector V nv) (der : Derived n nbody nv) (s : St n nv V) (qpos : Vector P njnt)
    (hen : inp.enabled = true)
    (hpar : ∀ i : Fin nbody, i.val ≠ 0 → (tp.parentid[i]).val < i.val)
    (hder : DerivedSpec tp false s.ta der)
    (hdofs : ∀ (i : Fin nv) (t : Fin n),
      tp.treeid[tp.dofBody[i]] = some t ↔ (td.adr[t] ≤ i.val ∧ i.val < td.adr[t] + td.num[t]))
    (hjnt : ∀ (b b' : Fin nbody) (j : Fin njnt), j ∈ bj.joints b → j ∈ bj.joints b' → b = b')
    (hz : ZInv zero td s)
    (hok : (advance zero addScl integ td tp bj inp qacc der s qpos).err = none) :
    ∀ t : Fin n, 0 ≤ (advance zero addScl integ td tp bj inp qacc der s qpos).st.ta[t] →
      (∀ i : Fin nv, tp.treeid[tp.dofBody[i]] = some t →
        (advance zero addScl integ td tp bj inp qacc der s qpos).st.qvel[i] = zero) ∧
      (∀ (b : Fin nbody) (j : Fin njnt), tp.treeid[b] = some t → j ∈ bj.joints b →
        (advance zero addScl integ td tp bj inp qacc der s qpos).qpos[j] = qpos[j]) := by
  have hz1 := sleep_zinv zero td inp s hz
  unfold advance at hok ⊢
  cases hres : sleep zero td inp s with
  | mk s1 r =>
    obtain ⟨k, e⟩ := r
    rw [hres] at hz1
    cases e with
    | some e => rw [hres] at hok; simp at hok
    | none =>
      simp only at hz1 ⊢
      intro t ht
      -- the derived arrays used by the update are those of the array after mj_sleep
      have hd1 : DerivedSpec tp false s1.ta
          (if k ≠ 0 then updateSleepInit false s1.ta tp der.bodyAwake else der) := by
        by_cases hk : k ≠ 0
        · rw [if_pos hk]; exact updateSleepInit_spec false s1.ta tp _ hpar
        · rw [if_neg hk]
          have hk0 : k = 0 := by omega
          subst hk0
          exact hder.congr (sleep_zero zero td inp s s1 hres).1
      have hfilter : inp.enabled = true ∧
          (if k ≠ 0 then updateSleepInit false s1.ta tp der.bodyAwake else der).ntreeAwake < n := by
        refine ⟨hen, ?_⟩
        rw [hd1.ntree]
        have := (List.length_filter_lt_length_iff_exists (l := List.finRange n)
          (p := fun t => decide (s1.ta[t] < 0))).2 ⟨t, List.mem_finRange t, by simp; omega⟩
        simpa using this
      rw [if_pos hfilter, if_pos hfilter]
      have hbody : ∀ b : Fin nbody, tp.treeid[b] = some t → bodyState false s1.ta tp b = sAsleep := by
        intro b hb
        unfold bodyState
        rw [hb]
        simp only
        rw [if_neg (by omega)]
      constructor
      · intro i hi
        rw [addToSclInd_notin]
        · exact hz1 t i ht ((hdofs i t).1 hi).1 ((hdofs i t).1 hi).2
        · rw [hd1.dofInd]
          intro hm
          have := (List.mem_filter.1 hm).2
          simp only [decide_eq_true_eq] at this
          rw [hbody _ hi] at this
          exact absurd this.2 (by decide)
      · intro b j hb hj
        rw [integratePosInd_notin]
        intro b' hb' hj'
        have hbb := hjnt b b' j hj hj'
        subst hbb
        have hm := List.mem_of_mem_drop hb'
        rw [hd1.bodyInd] at hm
        have := (List.mem_filter.1 hm).2
        simp only [decide_eq_true_eq] at this
        exact this (hbody b hb)

/-- a concrete instance of the hypotheses of `frozen_partial`: world + two single-slide bodies, tree 0 asleep
    (a one-tree cycle) with zero velocity, tree 1 awake and moving -/
example :
    let tp : BodyTopo 2 3 2 := { treeid := #v[none, some 0, some 1], parentid := #v[0, 0, 0], rootid := #v[0, 1, 2],
                                  mocapid := #v[-1, -1, -1], dofBody := #v[1, 2] }
    let td : TreeDofs 2 2 := ⟨#v[0, 1], #v[1, 1], by decide⟩
    let bj : BodyJnts 3 2 := ⟨#v[0, 0, 1], #v[0, 1, 1], by decide⟩
    let s : St 2 2 Int := { ta := #v[0, -11], qvel := #v[0, 5], qacc := #v[0, 0] }
    (∀ i : Fin 3, i.val ≠ 0 → (tp.parentid[i]).val < i.val) ∧
    (∀ (i : Fin 2) (t : Fin 2), tp.treeid[tp.dofBody[i]] = some t ↔ (td.adr[t] ≤ i.val ∧ i.val < td.adr[t] + td.num[t])) ∧
    (∀ (b b' : Fin 3) (j : Fin 2), j ∈ bj.joints b → j ∈ bj.joints b' → b = b') ∧
    ZInv 0 td s ∧ Cyc s.ta := by
  refine ⟨by decide, by decide, by decide, ?_, ⟨by decide, by decide⟩⟩
  unfold ZInv; decide

/-- every modelled operation keeps "sleeping trees have zero velocity on their dof range" (`mj_sleep` on
    every exit; the wake operations only shrink the sleeping set) -/
theorem sleep_keeps_zero (zero : V) (td : TreeDofs n nv) (inp : SleepIn n) (s : St n nv V)
    (h : ZInv zero td s) : ZInv zero td (sleep zero td inp s).1 :=
  sleep_zinv zero td inp s h

end MjProof.C18
