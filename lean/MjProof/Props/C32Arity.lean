import MjProof.Model.XmlArity
/-
C32 -- the variable-arity writer branch (tendon `springlength`, one or two values).  Model: Model/XmlArity.lean.

`spring_roundtrip`            for every tendon pair and every class pair, with exact scalars (closeness test = equality,
                              exact printing, no NaN) the reader gives back the tendon's pair from what the writer printed
                              -- in particular the attribute is skipped only if the reloaded value equals the original;
`own_pair_only_loses_value`   the writer that chooses the arity from the tendon's own pair alone elides a single value equal
                              to the lower end of a non-degenerate class pair, and the reader returns the class pair.
-/
namespace MjProof.C32
open MjProof.XmlDefaults MjProof.XmlArity

variable {α : Type} [DecidableEq α]

theorem spring_roundtrip (S : Scalar α)
    (hs : ∀ a b, S.same a b = decide (a = b)) (he : ∀ a b, S.eqb a b = decide (a = b))
    (hq : ∀ a, S.quant a = a) (hn : ∀ a, S.isNaN a = false) (v d : α × α) :
    readSpring d (writeSpring S v d) = some v := by
  obtain ⟨v0, v1⟩ := v
  obtain ⟨d0, d1⟩ := d
  by_cases h01 : v0 = v1 <;> by_cases hd : d0 = d1 <;> by_cases h0 : v0 = d0 <;> by_cases h1 : v1 = d1 <;>
    simp_all [writeSpring, springLen, writeAttr, sameVec, readSpring]

/-- exact integer scalars -/
def exactInt : Scalar Int :=
  { same := fun a b => decide (a = b), eqb := fun a b => decide (a = b), isNaN := fun _ => false, quant := id }

/-- class springlength="2 6", tendon springlength="2": the own-pair-only writer prints nothing and the reloaded tendon
    holds (2, 6); the writer of the tree prints "2 2" and the pair comes back -/
theorem own_pair_only_loses_value :
    writeSpringOwnPairOnly exactInt (2, 2) (2, 6) = none ∧
    readSpring (2, 6) (writeSpringOwnPairOnly exactInt (2, 2) (2, 6)) = some (2, 6) ∧
    writeSpring exactInt (2, 2) (2, 6) = some [2, 2] ∧
    readSpring (2, 6) (writeSpring exactInt (2, 2) (2, 6)) = some (2, 2) := by decide

example : readSpring (3, 3) (writeSpring exactInt (5, 5) (3, 3)) = some (5, 5) :=
  spring_roundtrip exactInt (fun _ _ => rfl) (fun _ _ => rfl) (fun _ => rfl) (fun _ => rfl) _ _

end MjProof.C32
