import MjProof.Lemmas.Integrate
import Mathlib.Algebra.BigOperators.Fin
import Mathlib.LinearAlgebra.Matrix.NonsingularInverse
/-
C05 — Time integration follows the documented schemes.

Every theorem is about the hand model `MjProof/Model/Integrate.lean` (the same definitions that run on `Float`
in `Drivers/C05.lean` and are compared bitwise with the engine), instantiated at `ℝ`, on top of the *generated*
kernels (`MjProof.Gen.mju_quatIntegrate`, `mju_clip`, `mju_max`, regenerated from the working tree by c2lean) and
the *generated* tableau `MjProof.Gen.RK4.A / B` (translate/c05_rk4.py).  Rounding is outside these statements.
-/
namespace MjProof.C05
open MjProof MjProof.Gen MjProof.Spatial MjProof.Integrate

/-! ### semi-implicit Euler: `mj_advance` with `qvel == NULL` -/

/-- The modelled `mj_advance(m, d, act_dot, qacc, NULL)` is the documented semi-implicit rule
(computation chapter, eq. `eq_semimplicit`): velocity first, `v' = v + h a` (componentwise); then the position
is integrated on the joint manifold with the NEW velocity `v'`; `time' = time + h`. -/
theorem euler_update_def (P : Params ℝ) (s s' : State ℝ) (actDot qacc : List ℝ)
    (H : advance P s actDot qacc none = some s') :
    s'.qvel = List.zipWith (fun v a => v + P.h * a) s.qvel qacc ∧
    integratePos P.jtypes s.qpos s'.qvel P.h = some s'.qpos ∧
    s'.time = s.time + P.h := by
  obtain ⟨ht, hv, _, hq, _⟩ := advance_some P s s' actDot qacc none H
  refine ⟨by rw [hv, axpy_eq], ?_, ht⟩
  rw [hv]; exact hq

example : advance (α := ℝ) ⟨1/500, [.hinge, .slide], [], false⟩ ⟨0, [1, 2], [3, 4], []⟩ [] [5, 6] none
    = some ⟨0 + 1/500, [1 + 1/500 * (3 + 5 * (1/500)), 2 + 1/500 * (4 + 6 * (1/500))],
        [3 + 5 * (1/500), 4 + 6 * (1/500)], []⟩ := by
  simp [advance, integratePos, take1, integrateScalar, axpy]

/-- `time` advances by exactly one timestep whatever velocity is used for the positions -/
theorem advance_time (P : Params ℝ) (s s' : State ℝ) (actDot qacc : List ℝ) (vo : Option (List ℝ))
    (H : advance P s actDot qacc vo = some s') : s'.time = s.time + P.h :=
  (advance_some P s s' actDot qacc vo H).1

/-- componentwise form of the velocity update -/
theorem advance_qvel_getElem (P : Params ℝ) (s s' : State ℝ) (actDot qacc : List ℝ) (vo : Option (List ℝ))
    (H : advance P s actDot qacc vo = some s') (i : ℕ) (h1 : i < s'.qvel.length) (h2 : i < s.qvel.length)
    (h3 : i < qacc.length) : s'.qvel[i] = s.qvel[i] + P.h * qacc[i] := by
  obtain ⟨_, hv, _, _, _⟩ := advance_some P s s' actDot qacc vo H
  have e : s'.qvel[i] = (List.zipWith (fun v a => v + P.h * a) s.qvel qacc)[i]'(by
      rw [← axpy_eq, ← hv]; exact h1) := by
    congr 1; rw [hv, axpy_eq]
  rw [e, List.getElem_zipWith]

/-- slide / hinge joints: `q' = q + h v` -/
theorem integratePos_scalar_def (ts : List JType) (x v h : ℝ) (qp qv : List ℝ) :
    integratePos (.hinge :: ts) (x :: qp) (v :: qv) h = (integratePos ts qp qv h).map (fun r => (x + h * v) :: r) ∧
    integratePos (.slide :: ts) (x :: qp) (v :: qv) h = (integratePos ts qp qv h).map (fun r => (x + h * v) :: r) := by
  constructor <;> (cases hr : integratePos ts qp qv h <;> simp [integratePos, take1, integrateScalar, hr])

/-- free joints: translation `p' = p + h v_lin`, rotation by the generated `mju_quatIntegrate` with `v_ang` -/
theorem integratePos_free_def (ts : List JType) (p0 p1 p2 q0 q1 q2 q3 v0 v1 v2 w0 w1 w2 h : ℝ) (qp qv : List ℝ) :
    integratePos (.free :: ts) (p0 :: p1 :: p2 :: q0 :: q1 :: q2 :: q3 :: qp) (v0 :: v1 :: v2 :: w0 :: w1 :: w2 :: qv) h =
      (integratePos ts qp qv h).map (fun r =>
        (p0 + h * v0) :: (p1 + h * v1) :: (p2 + h * v2) ::
        (integrateQuat (q0, q1, q2, q3) (w0, w1, w2) h).1 :: (integrateQuat (q0, q1, q2, q3) (w0, w1, w2) h).2.1 ::
        (integrateQuat (q0, q1, q2, q3) (w0, w1, w2) h).2.2.1 :: (integrateQuat (q0, q1, q2, q3) (w0, w1, w2) h).2.2.2 :: r) := by
  cases hr : integratePos ts qp qv h <;> simp [integratePos, take3, take4, integrateLin, hr]

/-- the quaternion update on the manifold: for a unit quaternion and |w| ≥ mjMINVAL the generated kernel is the
right-multiplication by `exp(h w / 2) = (cos(h|w|/2), sin(h|w|/2) w/|w|)` (`mulQuat` = generated `mju_mulQuat`,
the Hamilton product by `Spatial.mju_mulQuat_eq`) -/
theorem integrateQuat_exp (q : ℝ × ℝ × ℝ × ℝ) (w : ℝ × ℝ × ℝ) (h : ℝ) (hq : nsq4 q = 1)
    (hw : minval ≤ Real.sqrt (nsq3 w)) :
    integrateQuat q w h =
      mulQuat q (Real.cos (h * Real.sqrt (nsq3 w) * (1/2)),
        w.1 / Real.sqrt (nsq3 w) * Real.sin (h * Real.sqrt (nsq3 w) * (1/2)),
        w.2.1 / Real.sqrt (nsq3 w) * Real.sin (h * Real.sqrt (nsq3 w) * (1/2)),
        w.2.2 / Real.sqrt (nsq3 w) * Real.sin (h * Real.sqrt (nsq3 w) * (1/2))) :=
  integrateQuat_exp' q w h hq hw

example : nsq4 ((3/5 : ℝ), (0 : ℝ), (4/5 : ℝ), (0 : ℝ)) = 1 ∧ minval ≤ Real.sqrt (nsq3 ((0 : ℝ), (1 : ℝ), (0 : ℝ))) := by
  constructor
  · simp only [nsq4]; norm_num
  · simp only [nsq3]; norm_num; exact minval_lt_one.le

/-- below mjMINVAL `mju_normalize3` resets the axis to x: rotation by the angle h|w| (< h·1e-15) about x -/
theorem integrateQuat_exp_small (q : ℝ × ℝ × ℝ × ℝ) (w : ℝ × ℝ × ℝ) (h : ℝ) (hq : nsq4 q = 1)
    (hw : Real.sqrt (nsq3 w) < minval) :
    integrateQuat q w h =
      mulQuat q (Real.cos (h * Real.sqrt (nsq3 w) * (1/2)), Real.sin (h * Real.sqrt (nsq3 w) * (1/2)), 0, 0) :=
  integrateQuat_exp_small' q w h hq hw

example : Real.sqrt (nsq3 ((0 : ℝ), (0 : ℝ), (0 : ℝ))) < minval := by
  simp only [nsq3]; norm_num; exact minval_pos

/-! ### unit quaternions -/

/-- For EVERY input quaternion (any norm, zero included), angular velocity and step the result of the generated
`mju_quatIntegrate` satisfies | ‖q'‖ − 1 | ≤ mjMINVAL: exactly unit when `mju_normalize4` resets (‖q‖ < mjMINVAL) or
divides (| ‖q‖ − 1 | > mjMINVAL); in the remaining branch the input is left unnormalised and its norm, within
mjMINVAL of 1, is preserved exactly.  Covers both branches of `angle == 0` and of the mjMINVAL guard of
`mju_normalize3`. -/
theorem quatIntegrate_unit (q : ℝ × ℝ × ℝ × ℝ) (w : ℝ × ℝ × ℝ) (h : ℝ) :
    |Real.sqrt (nsq4 (integrateQuat q w h)) - 1| ≤ minval :=
  integrateQuat_near_unit q w h

/-- exactly unit norm in the resetting / dividing branches and for exactly unit inputs -/
theorem quatIntegrate_unit_exact (q : ℝ × ℝ × ℝ × ℝ) (w : ℝ × ℝ × ℝ) (h : ℝ)
    (hq : Real.sqrt (nsq4 q) < minval ∨ minval < |Real.sqrt (nsq4 q) - 1| ∨ nsq4 q = 1) :
    nsq4 (integrateQuat q w h) = 1 :=
  integrateQuat_unit_of q w h hq

example : minval < |Real.sqrt (nsq4 ((2 : ℝ), (0 : ℝ), (0 : ℝ), (0 : ℝ))) - 1| := by
  have : nsq4 ((2 : ℝ), (0 : ℝ), (0 : ℝ), (0 : ℝ)) = 2 ^ 2 := by simp only [nsq4]; norm_num
  rw [this, Real.sqrt_sq (by norm_num)]
  have : |(2 : ℝ) - 1| = 1 := by norm_num
  rw [this]; exact minval_lt_one

/-- a free joint keeps (or produces) a unit quaternion; the translation does not touch it -/
theorem integratePos_free_unit (ts : List JType) (p0 p1 p2 q0 q1 q2 q3 v0 v1 v2 w0 w1 w2 h : ℝ) (qp qv r : List ℝ)
    (H : integratePos (.free :: ts) (p0 :: p1 :: p2 :: q0 :: q1 :: q2 :: q3 :: qp) (v0 :: v1 :: v2 :: w0 :: w1 :: w2 :: qv) h
      = some r) :
    ∃ a b c e0 e1 e2 e3 rest, r = a :: b :: c :: e0 :: e1 :: e2 :: e3 :: rest ∧
      |Real.sqrt (nsq4 (e0, e1, e2, e3)) - 1| ≤ minval ∧
      (nsq4 (q0, q1, q2, q3) = 1 → nsq4 (e0, e1, e2, e3) = 1) := by
  rw [integratePos_free_def] at H
  cases hr : integratePos ts qp qv h with
  | none => simp [hr] at H
  | some rest =>
    simp only [hr, Option.map_some, Option.some.injEq] at H
    exact ⟨_, _, _, _, _, _, _, rest, H.symm, integrateQuat_near_unit _ _ _,
      fun hq => integrateQuat_unit_of _ _ _ (Or.inr (Or.inr hq))⟩

/-- a ball joint keeps (or produces) a unit quaternion -/
theorem integratePos_ball_unit (ts : List JType) (q0 q1 q2 q3 w0 w1 w2 h : ℝ) (qp qv r : List ℝ)
    (H : integratePos (.ball :: ts) (q0 :: q1 :: q2 :: q3 :: qp) (w0 :: w1 :: w2 :: qv) h = some r) :
    ∃ e0 e1 e2 e3 rest, r = e0 :: e1 :: e2 :: e3 :: rest ∧
      |Real.sqrt (nsq4 (e0, e1, e2, e3)) - 1| ≤ minval ∧
      (nsq4 (q0, q1, q2, q3) = 1 → nsq4 (e0, e1, e2, e3) = 1) := by
  cases hr : integratePos ts qp qv h with
  | none => simp [integratePos, take3, take4, hr] at H
  | some rest =>
    simp [integratePos, take3, take4, hr] at H
    exact ⟨_, _, _, _, rest, H.symm, integrateQuat_near_unit _ _ _,
      fun hq => integrateQuat_unit_of _ _ _ (Or.inr (Or.inr hq))⟩

/-- whole `qpos`, any joint layout: after `mj_integratePos` EVERY quaternion slot (free and ball) is within
mjMINVAL of unit norm, whatever the input; and exactly unit if every input quaternion was exactly unit -/
theorem integratePos_quats_unit (ts : List JType) (h : ℝ) (qp qv qp' : List ℝ)
    (H : integratePos ts qp qv h = some qp') :
    ∃ qs qs', quatsOf ts qp = some qs ∧ quatsOf ts qp' = some qs' ∧
      (∀ q ∈ qs', |Real.sqrt (nsq4 q) - 1| ≤ minval) ∧
      ((∀ q ∈ qs, nsq4 q = 1) → ∀ q ∈ qs', nsq4 q = 1) := by
  obtain ⟨qs, ws, h1, h2, h3⟩ := integratePos_quatsOf ts h qp qv qp' H
  refine ⟨qs, _, h1, h3, ?_, ?_⟩
  · exact forall_zipWith _ (fun x => |Real.sqrt (nsq4 x) - 1| ≤ minval) (fun a b => integrateQuat_near_unit a b h) qs ws
  · intro hu q hq
    rw [List.mem_iff_getElem] at hq
    obtain ⟨i, hi, rfl⟩ := hq
    rw [List.getElem_zipWith]
    exact integrateQuat_unit_of _ _ _ (Or.inr (Or.inr (hu _ (List.getElem_mem _))))

/-- `mj_integratePos` returns a vector of the same length nq -/
theorem integratePos_length (ts : List JType) (h : ℝ) (qp qv qp' : List ℝ)
    (H : integratePos ts qp qv h = some qp') : qp'.length = qp.length :=
  integratePos_length' ts h qp qv qp' H

/-! ### RK4 tableau -/

/-- the generated tableau is the classical one -/
theorem rk4_tableau_classical :
    (RK4.A : List ℝ) = [1/2, 0, 0, 0, 1/2, 0, 0, 0, 1] ∧ (RK4.B : List ℝ) = [1/6, 1/3, 1/3, 1/6] :=
  ⟨rk4A_real, rk4B_real⟩

/-- Butcher coefficients as `mj_RungeKutta` reads them: `a i j = A[(i-1)*(N-1)+j]` for `j < i` (the loops never
read the other entries: explicit method), `b j = B[j]`, `c i = Σ_j a i j` (the code sets C to the row sums) -/
noncomputable def a (i j : Fin 4) : ℝ := if j.val < i.val then (RK4.A : List ℝ).getD ((i.val - 1) * 3 + j.val) 0 else 0
noncomputable def b (j : Fin 4) : ℝ := (RK4.B : List ℝ).getD j.val 0
noncomputable def c (i : Fin 4) : ℝ := ∑ j, a i j

/-- the eight order conditions of a 4th-order Runge–Kutta method hold for the generated tableau -/
theorem rk4_order_conditions :
    (∑ i, b i = 1) ∧ (∑ i, b i * c i = 1/2) ∧ (∑ i, b i * c i ^ 2 = 1/3) ∧
    (∑ i, ∑ j, b i * a i j * c j = 1/6) ∧ (∑ i, b i * c i ^ 3 = 1/4) ∧
    (∑ i, ∑ j, b i * c i * a i j * c j = 1/8) ∧ (∑ i, ∑ j, b i * a i j * c j ^ 2 = 1/12) ∧
    (∑ i, ∑ j, ∑ k, b i * a i j * a j k * c k = 1/24) := by
  simp only [c, a, b, rk4A_real, rk4B_real, Fin.sum_univ_four]
  norm_num [List.getD]

/-- `C = row_sum(A)` as accumulated by the code (from 0, left to right) gives the classical nodes 1/2, 1/2, 1 -/
theorem rk4_row_sums :
    c 0 = 0 ∧ c 1 = 1/2 ∧ c 2 = 1/2 ∧ c 3 = 1 ∧
    ([(1/2 : ℝ)].foldl (· + ·) 0 = c 1) ∧ ([(0 : ℝ), 1/2].foldl (· + ·) 0 = c 2) ∧ ([(0 : ℝ), 0, 1].foldl (· + ·) 0 = c 3) := by
  simp only [c, a, rk4A_real, Fin.sum_univ_four]
  norm_num [List.getD]

/-! ### RK4 combination -/

/-- classical weights -/
noncomputable def classicalB (u v w s : ℝ) : ℝ := 1/6 * u + 1/3 * v + 1/3 * w + 1/6 * s

/-- The modelled `mj_RungeKutta` (stage derivatives `f0..f3` given): the final update is `mj_advance` from the
ORIGINAL state `x0` with `act_dot`, `qacc` and the position velocity replaced by the classical combinations
`(k0 + 2 k1 + 2 k2 + k3)/6` of the stage values — componentwise, with the weights of the generated tableau. -/
theorem rk4_combine_def (P : Params ℝ) (x0 : State ℝ) (f0 f1 f2 f3 : Deriv ℝ) (r : RK4Result ℝ)
    (H : rk4 P x0 f0 f1 f2 f3 = some r) :
    advance P x0
      (map4 classicalB f0.actDot f1.actDot f2.actDot f3.actDot)
      (map4 classicalB f0.qacc f1.qacc f2.qacc f3.qacc)
      (some (map4 classicalB x0.qvel r.x1.qvel r.x2.qvel r.x3.qvel)) = some r.final := by
  obtain ⟨h1, h2, h3, g1, g2, hf⟩ := rk4_some P x0 f0 f1 f2 f3 r H
  obtain ⟨_, a1, b1, _, v1, _, _⟩ := stage_some P x0 r.x1 _ _ _ h1
  obtain ⟨_, a2, b2, _, v2, _, _⟩ := stage_some P x0 r.x2 _ _ _ h2
  obtain ⟨_, a3, b3, _, v3, _, _⟩ := stage_some P x0 r.x3 _ _ _ h3
  have l0 : f0.qacc.length = x0.qvel.length := a1 f0 (by simp)
  have l1 : f1.qacc.length = x0.qvel.length := a2 f1 (by simp)
  have l2 : f2.qacc.length = x0.qvel.length := a3 f2 (by simp)
  have m0 : f0.actDot.length = x0.act.length := b1 f0 (by simp)
  have m1 : f1.actDot.length = x0.act.length := b2 f1 (by simp)
  have m2 : f2.actDot.length = x0.act.length := b3 f2 (by simp)
  have e1 : r.x1.qvel.length = x0.qvel.length := by
    rw [v1, axpy_length, comb_length _ _ (by simpa using l0)]; simp
  have e2 : r.x2.qvel.length = x0.qvel.length := by
    rw [v2, axpy_length, comb_length _ _ (by simp [l0, l1])]; simp
  have e3 : r.x3.qvel.length = x0.qvel.length := by
    rw [v3, axpy_length, comb_length _ _ (by simp [l0, l1, l2])]; simp
  rw [comb4_eq _ _ _ _ _ _ _ _ _ m0 m1 m2 g2, comb4_eq _ _ _ _ _ _ _ _ _ l0 l1 l2 g1,
    comb4_eq _ _ _ _ _ _ _ _ _ rfl e1 e2 e3] at hf
  exact hf

/-- the stage states: `X_i = X_0 ⊕ h Σ_{j<i} a_ij (v_j ; F_j)` with the classical `a_ij`, evaluated at times
`t + c_i h` (c = 1/2, 1/2, 1); positions on the manifold, velocities and activations componentwise
(stage activations are NOT clamped — as coded) -/
theorem rk4_stage_def (P : Params ℝ) (x0 : State ℝ) (f0 f1 f2 f3 : Deriv ℝ) (r : RK4Result ℝ)
    (H : rk4 P x0 f0 f1 f2 f3 = some r) :
    (r.x1.time = x0.time + 1/2 * P.h ∧
      r.x1.qvel = List.zipWith (fun v k => v + P.h * k) x0.qvel (f0.qacc.map (fun u => 1/2 * u)) ∧
      r.x1.act = List.zipWith (fun v k => v + P.h * k) x0.act (f0.actDot.map (fun u => 1/2 * u)) ∧
      integratePos P.jtypes x0.qpos (x0.qvel.map (fun u => 1/2 * u)) P.h = some r.x1.qpos) ∧
    (r.x2.time = x0.time + 1/2 * P.h ∧
      r.x2.qvel = List.zipWith (fun v k => v + P.h * k) x0.qvel (List.zipWith (fun u v => 0 * u + 1/2 * v) f0.qacc f1.qacc) ∧
      r.x2.act = List.zipWith (fun v k => v + P.h * k) x0.act (List.zipWith (fun u v => 0 * u + 1/2 * v) f0.actDot f1.actDot) ∧
      integratePos P.jtypes x0.qpos (List.zipWith (fun u v => 0 * u + 1/2 * v) x0.qvel r.x1.qvel) P.h = some r.x2.qpos) ∧
    (r.x3.time = x0.time + 1 * P.h ∧
      r.x3.qvel = List.zipWith (fun v k => v + P.h * k) x0.qvel (map3 (fun u v w => 0 * u + 0 * v + 1 * w) f0.qacc f1.qacc f2.qacc) ∧
      r.x3.act = List.zipWith (fun v k => v + P.h * k) x0.act (map3 (fun u v w => 0 * u + 0 * v + 1 * w) f0.actDot f1.actDot f2.actDot) ∧
      integratePos P.jtypes x0.qpos (map3 (fun u v w => 0 * u + 0 * v + 1 * w) x0.qvel r.x1.qvel r.x2.qvel) P.h = some r.x3.qpos) := by
  obtain ⟨h1, h2, h3, g1, g2, hf⟩ := rk4_some P x0 f0 f1 f2 f3 r H
  obtain ⟨_, a1, b1, t1, v1, c1, p1⟩ := stage_some P x0 r.x1 _ _ _ h1
  obtain ⟨_, a2, b2, t2, v2, c2, p2⟩ := stage_some P x0 r.x2 _ _ _ h2
  obtain ⟨_, a3, b3, t3, v3, c3, p3⟩ := stage_some P x0 r.x3 _ _ _ h3
  have l0 : f0.qacc.length = x0.qvel.length := a1 f0 (by simp)
  have l1 : f1.qacc.length = x0.qvel.length := a2 f1 (by simp)
  have l2 : f2.qacc.length = x0.qvel.length := a3 f2 (by simp)
  have m0 : f0.actDot.length = x0.act.length := b1 f0 (by simp)
  have m1 : f1.actDot.length = x0.act.length := b2 f1 (by simp)
  have m2 : f2.actDot.length = x0.act.length := b3 f2 (by simp)
  have e1 : r.x1.qvel.length = x0.qvel.length := by
    rw [v1, axpy_length, comb_length _ _ (by simpa using l0)]; simp
  have e2 : r.x2.qvel.length = x0.qvel.length := by
    rw [v2, axpy_length, comb_length _ _ (by simp [l0, l1])]; simp
  simp only [List.map_cons, List.map_nil, List.zip_cons_cons, List.zip_nil_right] at v1 c1 p1 v2 c2 p2 v3 c3 p3
  rw [comb1_eq _ _ _ l0, axpy_eq] at v1
  rw [comb1_eq _ _ _ m0, axpy_eq] at c1
  rw [comb1_eq _ _ _ rfl] at p1
  rw [comb2_eq _ _ _ _ _ l0 l1, axpy_eq] at v2
  rw [comb2_eq _ _ _ _ _ m0 m1, axpy_eq] at c2
  rw [comb2_eq _ _ _ _ _ rfl e1] at p2
  rw [comb3_eq _ _ _ _ _ _ _ l0 l1 l2, axpy_eq] at v3
  rw [comb3_eq _ _ _ _ _ _ _ m0 m1 m2, axpy_eq] at c3
  rw [comb3_eq _ _ _ _ _ _ _ rfl e1 e2] at p3
  refine ⟨⟨?_, v1, c1, p1⟩, ⟨?_, v2, c2, p2⟩, ⟨?_, v3, c3, p3⟩⟩
  · rw [t1]; norm_num
  · rw [t2]; norm_num
  · rw [t3]; norm_num

/-- RK4 advances time by exactly one timestep (the stage times are reset before the final `mj_advance`) -/
theorem rk4_time (P : Params ℝ) (x0 : State ℝ) (f0 f1 f2 f3 : Deriv ℝ) (r : RK4Result ℝ)
    (H : rk4 P x0 f0 f1 f2 f3 = some r) : r.final.time = x0.time + P.h :=
  advance_time P x0 r.final _ _ _ (rk4_combine_def P x0 f0 f1 f2 f3 r H)

/-! ### activations -/

/-- `mj_nextActivation`: when `actlimited` (and actrange is a non-empty interval) the next activation lies in
actrange — for EVERY dyntype branch as coded except `mjDYN_DCMOTOR`, which the code exempts from the clamp -/
theorem nextActivation_in_actrange (p : ActSlot ℝ) (h act actDot : ℝ) (hl : p.actlimited = true)
    (hd : p.dyntype ≠ RK4.mjDYN_DCMOTOR) (hr : p.lo ≤ p.hi) :
    p.lo ≤ nextActivation p h act actDot ∧ nextActivation p h act actDot ≤ p.hi :=
  nextActivation_mem p h act actDot hl hd hr

example : ∃ p : ActSlot ℝ, p.actlimited = true ∧ p.dyntype ≠ RK4.mjDYN_DCMOTOR ∧ p.lo ≤ p.hi ∧
    nextActivation p (1/500) (9/10) 1000 = 1 :=
  ⟨⟨RK4.mjDYN_FILTER, true, 0, -1, 1, 0, 0, 0, 0, 0, 0, 0, 0, 0, 0, 1⟩, rfl, by decide, by norm_num, by
    simp only [nextActivation, nextActRaw, RK4.mjDYN_FILTER, RK4.mjDYN_FILTEREXACT, RK4.mjDYN_DCMOTOR, mju_clip_eq]
    norm_num⟩

/-- the integral slot of a DC motor (anti-windup): with `Imax = dynprm[8] > 0` the state stays in [−Imax, Imax] -/
theorem nextActivation_dcIntegral_bounded (p : ActSlot ℝ) (h act actDot : ℝ) (hd : p.dyntype = RK4.mjDYN_DCMOTOR)
    (ho : p.offset = (dcmotorSlots p).integral) (hc : p.offset ≠ (dcmotorSlots p).current)
    (hb : p.offset ≠ (dcmotorSlots p).bristle) (hi : 0 < p.dynprm8) :
    -p.dynprm8 ≤ nextActivation p h act actDot ∧ nextActivation p h act actDot ≤ p.dynprm8 := by
  have h1 : ¬ (p.dyntype ≠ RK4.mjDYN_DCMOTOR ∧ p.actlimited = true) := fun hh => hh.1 hd
  have h2 : ¬ (p.dyntype = RK4.mjDYN_FILTEREXACT ∧ p.offset = p.actnum - 1) := fun hh => by
    have := hh.1; rw [hd] at this; exact absurd this (by decide)
  have h3 : (MjNum.ofInt 0 : ℝ) < p.dynprm8 := by simpa [real_ofInt] using hi
  simp only [nextActivation, if_neg h1, nextActRaw, if_neg h2, if_pos hd, nextActDC, if_neg hc, if_neg hb, if_pos ho,
    if_pos h3]
  exact mju_clip_mem _ _ _ (by linarith)

/-- every Euler-type dynamics (integrator, filter, muscle, user, …) without clamping: `w' = w + h ẇ` -/
theorem nextActivation_euler_def (p : ActSlot ℝ) (h act actDot : ℝ) (h1 : p.dyntype ≠ RK4.mjDYN_FILTEREXACT)
    (h2 : p.dyntype ≠ RK4.mjDYN_DCMOTOR) (hl : p.actlimited = false) :
    nextActivation p h act actDot = act + h * actDot := by
  have h0 : ¬ (p.dyntype ≠ RK4.mjDYN_DCMOTOR ∧ p.actlimited = true) := by simp [hl]
  simp only [nextActivation, if_neg h0]
  exact nextActivation_euler p h act actDot h1 h2

/-- `filterexact` (documented: `w' = w + (u − w)(1 − e^{−h/t})` with `ẇ = (u − w)/t`), for t ≥ mjMINVAL -/
theorem nextActivation_filterexact_def (p : ActSlot ℝ) (h act u : ℝ) (hd : p.dyntype = RK4.mjDYN_FILTEREXACT)
    (ho : p.offset = p.actnum - 1) (hl : p.actlimited = false) (ht : minval ≤ p.dynprm0) :
    nextActivation p h act ((u - act) / p.dynprm0) = act + (u - act) * (1 - Real.exp (-h / p.dynprm0)) := by
  have h0 : ¬ (p.dyntype ≠ RK4.mjDYN_DCMOTOR ∧ p.actlimited = true) := by simp [hl]
  simp only [nextActivation, if_neg h0, nextActRaw, if_pos (And.intro hd ho)]
  exact filterExact_eq _ _ _ _ ht

/-- the slots that precede the actuator's own activation (plugin state of a `filterexact` actuator) are advanced by
plain Euler, not by the exact filter -/
theorem nextActivation_filterexact_otherSlot (p : ActSlot ℝ) (h act actDot : ℝ) (hd : p.dyntype = RK4.mjDYN_FILTEREXACT)
    (ho : p.offset ≠ p.actnum - 1) (hl : p.actlimited = false) :
    nextActivation p h act actDot = act + h * actDot := by
  have h0 : ¬ (p.dyntype ≠ RK4.mjDYN_DCMOTOR ∧ p.actlimited = true) := by simp [hl]
  have h1 : ¬ (p.dyntype = RK4.mjDYN_FILTEREXACT ∧ p.offset = p.actnum - 1) := fun hh => ho hh.2
  have h2 : p.dyntype ≠ RK4.mjDYN_DCMOTOR := by rw [hd]; decide
  simp only [nextActivation, if_neg h0, nextActRaw, if_neg h1, if_neg h2]
  ring

/-- both activation loops of `mj_advance` on one actuator's block: if the re-anchoring does not apply (not an
integrator, or wrap period ≤ 0 and not an SO3 servo) every activation of an actlimited actuator ends inside
actrange -/
theorem advanceAct_in_actrange (a : Actuator ℝ) (h : ℝ) (blk dots r r' : List ℝ) (k : ℕ)
    (hl : a.actlimited = true) (hd : a.dyntype ≠ RK4.mjDYN_DCMOTOR) (hr : a.lo ≤ a.hi)
    (hw : a.dyntype ≠ RK4.mjDYN_INTEGRATOR ∨ (wrapPeriod a ≤ 0 ∧ a.gaintype ≠ RK4.mjGAIN_SO3))
    (H1 : nextActBlock a h k blk dots = some r) (H2 : reanchorBlock a r = some r') :
    ∀ x ∈ r', a.lo ≤ x ∧ x ≤ a.hi := by
  rw [reanchorBlock_id a r hw] at H2
  cases H2
  exact nextActBlock_mem a h hl hd hr blk dots r k H1

/-- …but when it applies it is executed AFTER the clamp and can move the activation out of actrange: for the
servo `probeAct` (actrange [−1, 1], ball joint, gear (1,0,0), transmission length −3) the clamped activation 1
is re-anchored to 1 − 2π < −1.  (The engine reproduces this: oracle key c05:act-outside-actrange:wrap-after-clamp.) -/
theorem wrap_after_clamp_escapes :
    probeAct.actlimited = true ∧ probeAct.dyntype ≠ RK4.mjDYN_DCMOTOR ∧ probeAct.lo ≤ probeAct.hi ∧
    nextActBlock probeAct (1/500) 0 [1] [0] = some [1] ∧
    reanchorBlock probeAct [1] = some [1 - 2 * piLit] ∧ 1 - 2 * piLit < probeAct.lo := by
  have hb := piLit_bounds
  refine ⟨rfl, by decide, by simp only [probeAct]; norm_num, ?_, ?_, by simp only [probeAct]; linarith⟩
  · simp only [nextActBlock, Option.bind_eq_bind, Option.pure_def, Option.bind_some, Option.some.injEq,
      List.cons.injEq, and_true]
    simp only [nextActivation, nextActRaw, Actuator.slot, probeAct, RK4.mjDYN_INTEGRATOR, RK4.mjDYN_FILTEREXACT,
      RK4.mjDYN_DCMOTOR, mju_clip_eq, real_ofInt]
    norm_num
  · have hp : (MjNum.ofInt 0 : ℝ) < 2 * piLit := by
      simp only [real_ofInt]; push_cast; linarith
    have hd : ¬ probeAct.dyntype ≠ RK4.mjDYN_INTEGRATOR := by simp [probeAct]
    simp only [reanchorBlock, if_neg hd, probe_period, if_pos hp, mapLast, wrapSetpoint]
    have : (1 : ℝ) - probeAct.length = 1 - (-3 : ℝ) := by simp [probeAct]
    rw [this, probe_round]; simp

/-! ### time -/

/-- `d->time += m->opt.timestep`: over the reals `time' = time + h` exactly, for the single-step integrators
(`mj_advance`) and for RK4 (`mj_RungeKutta` resets `d->time` to the entry time before the final advance).
In floating point the engine computes the single rounded sum `fl(time + h)`; the oracle checks that bit pattern. -/
theorem time_advance (P : Params ℝ) (s s' : State ℝ) (actDot qacc : List ℝ) (vo : Option (List ℝ))
    (f0 f1 f2 f3 : Deriv ℝ) (r : RK4Result ℝ) :
    (advance P s actDot qacc vo = some s' → s'.time = s.time + P.h) ∧
    (rk4 P s f0 f1 f2 f3 = some r → r.final.time = s.time + P.h) :=
  ⟨advance_time P s s' actDot qacc vo, rk4_time P s f0 f1 f2 f3 r⟩

/-! ### implicit integrators (Euler with implicit damping, implicit, implicitfast) -/

open Matrix in
/-- PARTIAL (the linear solve itself is not modelled; `D` is whatever the engine assembled — joint damping for
Euler, `qDeriv` for implicit / implicitfast): given a certificate `(M − h D) x = M a` that the vector `x` handed
to `mj_advance` solves the documented system, the velocity update `v' = v + h x` of the model satisfies the
documented implicit-in-velocity equation `(M − h D) v' = (M − h D) v + h M a`. -/
theorem implicit_update_partial {n : ℕ} (M D : Matrix (Fin n) (Fin n) ℝ) (h : ℝ) (v a x : Fin n → ℝ)
    (cert : (M - h • D) *ᵥ x = M *ᵥ a) :
    (M - h • D) *ᵥ (v + h • x) = (M - h • D) *ᵥ v + h • (M *ᵥ a) := by
  rw [Matrix.mulVec_add, Matrix.mulVec_smul, cert]

open Matrix in
/-- …and, when `M − h D` is invertible, `v' = v + h (M − h D)⁻¹ M a` (documented eq. `eq_implicit_update`) -/
theorem implicit_update_inverse {n : ℕ} (M D : Matrix (Fin n) (Fin n) ℝ) (h : ℝ) (v a x : Fin n → ℝ)
    (hdet : IsUnit (M - h • D).det) (cert : (M - h • D) *ᵥ x = M *ᵥ a) :
    v + h • x = v + h • ((M - h • D)⁻¹ *ᵥ (M *ᵥ a)) := by
  have : x = (M - h • D)⁻¹ *ᵥ (M *ᵥ a) := by
    rw [← cert, Matrix.mulVec_mulVec, Matrix.nonsing_inv_mul _ hdet, Matrix.one_mulVec]
  rw [this]

example : IsUnit ((1 : Matrix (Fin 2) (Fin 2) ℝ) - (1/2 : ℝ) • (0 : Matrix (Fin 2) (Fin 2) ℝ)).det := by
  simp

/-! ### which force-velocity derivatives enter `D` (term completeness of the implicit solve) -/

section DTerms
open MjProof.Integrate.DTerms

/-- `implicit`: for EVERY combination of the spring / damper / actuation (/ eulerdamp) disable flags, the matrix `D` of
the `(M − h·D)` solve — `qDeriv` as assembled by the *generated* statement lists of `mjd_smooth_vel`,
`mjd_actuator_vel`, `mjd_passive_vel` with the generated `flg_bias` of `mj_implicitSkip` — contains the velocity
derivative of a smooth force term exactly when the forward pass (generated `mj_passive` / `mj_fluid`, hand-modelled
value gating of `mj_springdamper` / `mj_fwdActuation`) applies that term: no applied velocity-dependent force is
integrated explicitly, no derivative of a force that is not applied is used. -/
theorem implicit_D_complete (f : DFlags) (t : FTerm) : inD .implicit f t = some (applied f t) := by
  cases f with
  | mk s d a e => cases t <;> cases s <;> cases d <;> cases a <;> cases e <;> decide

/-- `implicitfast`: the same, except for the derivative of the Coriolis / centripetal forces of kinematic chains
(documented exclusion); the gyroscopic derivative of standalone free bodies is kept (local 6x6 solve). -/
theorem implicitfast_D_complete (f : DFlags) (t : FTerm) :
    inD .implicitfast f t = some (applied f t && t != .biasChain) := by
  cases f with
  | mk s d a e => cases t <;> cases s <;> cases d <;> cases a <;> cases e <;> decide

/-- `Euler`: `D` holds the joint-damping derivative only, and only while that force is applied and
`mjDSBL_EULERDAMP` is clear; `RK4`: no implicit solve. -/
theorem euler_rk4_D_def (f : DFlags) (t : FTerm) :
    inD .euler f t = some (t == .dofDamper && applied f t && !f.eulerdamp) ∧ inD .rk4 f t = some false := by
  cases f with
  | mk s d a e => cases t <;> cases s <;> cases d <;> cases a <;> cases e <;> decide

/-- no integrator differentiates a force term that the forward pass does not apply -/
theorem D_only_of_applied_forces (i : Integ) (f : DFlags) (t : FTerm) (h : inD i f t = some true) :
    applied f t = true := by
  cases f with
  | mk s d a e =>
    cases i <;> cases t <;> cases s <;> cases d <;> cases a <;> cases e <;> first | rfl | exact absurd h (by decide)

-- non-vacuity: dampers disabled, springs enabled — fluid forces are applied and their derivative is in D
example : applied ⟨false, true, false, false⟩ .fluidBox = true ∧
    inD .implicitfast ⟨false, true, false, false⟩ .fluidBox = some true ∧
    inD .implicit ⟨false, true, false, false⟩ .dofDamper = some false := by decide

end DTerms

open Matrix in
/-- WHY the completeness of `D` matters (all sizes, all matrices): let the smooth force be affine in the velocity,
`f(w) = f0 + D w`, let `a` be the forward acceleration `M a = f(v)`, and let the engine solve with SOME matrix `D'`,
`(M − h D') x = M a`.  Then the new velocity `v' = v + h x` misses the backward-Euler equation
`M (v' − v) = h f(v')` by exactly `h² (D' − D) x`. -/
theorem implicit_update_backward_euler_residual {n : ℕ} (M D D' : Matrix (Fin n) (Fin n) ℝ) (h : ℝ)
    (v a x f0 : Fin n → ℝ) (hforce : M *ᵥ a = f0 + D *ᵥ v) (cert : (M - h • D') *ᵥ x = M *ᵥ a) :
    M *ᵥ ((v + h • x) - v) - h • (f0 + D *ᵥ (v + h • x)) = (h * h) • ((D' - D) *ᵥ x) := by
  have hMx : M *ᵥ x = M *ᵥ a + h • (D' *ᵥ x) := by
    have := cert
    rw [Matrix.sub_mulVec, Matrix.smul_mulVec] at this
    rw [← this]; abel
  rw [add_sub_cancel_left, Matrix.mulVec_smul, hMx, hforce, Matrix.mulVec_add, Matrix.mulVec_smul, Matrix.sub_mulVec]
  ext i
  simp only [Pi.add_apply, Pi.sub_apply, Pi.smul_apply, smul_eq_mul]
  ring

open Matrix in
/-- …so with the force-velocity derivative itself (`D' = D`) the implicit update solves the backward-Euler equation
of an affine force law exactly: `M (v' − v) = h f(v')` (one Newton step is exact). -/
theorem implicit_update_solves_backward_euler {n : ℕ} (M D : Matrix (Fin n) (Fin n) ℝ) (h : ℝ)
    (v a x f0 : Fin n → ℝ) (hforce : M *ᵥ a = f0 + D *ᵥ v) (cert : (M - h • D) *ᵥ x = M *ᵥ a) :
    M *ᵥ ((v + h • x) - v) = h • (f0 + D *ᵥ (v + h • x)) := by
  have := implicit_update_backward_euler_residual M D D h v a x f0 hforce cert
  rw [sub_self, Matrix.zero_mulVec, smul_zero] at this
  exact sub_eq_zero.mp this

-- non-vacuity (1 dof, M = 1, linear drag D = -1, h = 1, v = 1, no constant force): a = -1, x = -1/2, v' = 1/2
example : ((1 : Matrix (Fin 1) (Fin 1) ℝ) - (1 : ℝ) • (-1 : Matrix (Fin 1) (Fin 1) ℝ)).mulVec (fun _ => (-1/2 : ℝ)) =
    (1 : Matrix (Fin 1) (Fin 1) ℝ).mulVec (fun _ => (-1 : ℝ)) := by
  ext i
  have hi : i = 0 := Subsingleton.elim _ _
  subst hi
  simp [Matrix.mulVec, dotProduct]
  norm_num

end MjProof.C05
