/-
C27  Actuation follows the documented transmission and force laws (DESIGN.md §5.C27).

Statements over the reals about the hand model `MjProof.Actuation` (Model/Actuation.lean, compared bitwise with
act_dot / actuator_force / qfrc_actuator of the real engine by checks/c27.py), the translator-generated kernels
(`Gen.mju_clip`, `Gen.mju_muscleGain`, `Gen.mju_muscleGainLength`, `Gen.mju_muscleBias`, `Gen.mju_muscleDynamics`, ...)
and the documented formulas transcribed in Spec/Muscle.lean.

* `ctrl_clamped_in_range`, `ctrlStage_entry`: unless mjDSBL_CLAMPCTRL, every limited control used by the force
  computation lies in its ctrlrange, or all controls were replaced by 0 because one of them was bad.
* `ctrlSources_get`, `ctrlStageDelayed_entry`, `delayed_ctrl_in_range`: with delays the local control of actuator i is
  the clamp of ITS SOURCE (the history-buffer read `mj_readCtrl` when delay ≠ 0, `d->ctrl` otherwise) — so a limited
  control lies in ctrlrange WHATEVER the history buffer holds (raw, unclamped user controls are stored there), or all
  controls were zeroed; `ctrlSource_nodelay`, `ctrlStageDelayed_nodelay`: without delays this is the plain `ctrlStage`;
  `historyRead_zoh_mem`: a zero-order-hold read returns one of the stored samples.
* `actearly_input_in_actrange`: with actearly the activation fed into the force law is `mj_nextActivation(act, act_dot)`,
  inside actrange for a limited activation.
* `act_in_actrange`: `mj_nextActivation` (C05's model) keeps a limited activation in actrange (not for DC motors,
  which the code exempts).
* `force_in_forcerange`, `jointforce_in_range`, `tendon_total_in_range`: the three force limits, at their stage.
* `fixed_affine_eq_spec`, `affine_affine_eq_spec`, `actdot_integrator`, `actdot_filter`: the SISO force law
  p = a·(w or u) + b0 + b1·l + b2·l̇ and the documented activation derivatives.
* `muscle_scaling`, `muscleGain_eq_spec`, `muscleGainLength_eq_bump`, `muscleFV_eq_spec`, `muscleDynamics_eq_spec`:
  the generated muscle kernels equal the documented formulas wherever documentation and code agree (scaled length /
  velocity, F0, F_V, the main bump of F_L, the activation dynamics for act in [0,1]).
  `muscleBias_at_lmax`, `muscleBias_differs_from_doc`, `muscleGainLength_differs_from_FLVm`: where they do NOT agree —
  the passive force at lmax is 1.5·fpmax·F0 in the code, fpmax·F0 in the documentation (XMLreference, FLV.m), and
  FLV.m's second bump (×0.15) is absent from the code.
* `disabled_group_zero_force`: an actuator in a disabled group produces zero force through every later stage, for
  EVERY forcerange (the "clamp actuator_force" loop skips disabled actuators; before the fix ea3125434 of /repo it did
  not, and a forcerange excluding 0 gave the nearest bound — regression input kept in checks/c27.py);
  `clampStage_enabled`: for an enabled actuator that stage is the plain forcerange clamp.
* `qfrc_actuator_eq_momentT_force`: the sparse transpose product as coded equals the dense moment' · force.
-/
import MjProof.Model.Actuation
import MjProof.Model.Integrate
import MjProof.Spec.Muscle
import MjProof.Lemmas.RealNum
import Mathlib.Tactic.Ring
import Mathlib.Tactic.Linarith
import Mathlib.Tactic.NormNum
import Mathlib.Tactic.FieldSimp
import Mathlib.Tactic.Positivity

namespace MjProof.C27
open MjProof MjProof.Gen MjProof.Actuation

/-! ### clip -/

theorem clip_eq (x lo hi : ℝ) : mju_clip x lo hi = if x < lo then lo else if hi < x then hi else x := by
  simp only [mju_clip, real_lt_iff]

theorem clip_mem (x lo hi : ℝ) (h : lo ≤ hi) : lo ≤ mju_clip x lo hi ∧ mju_clip x lo hi ≤ hi := by
  rw [clip_eq]
  split_ifs with h1 h2
  · exact ⟨le_refl _, h⟩
  · exact ⟨h, le_refl _⟩
  · exact ⟨not_lt.mp h1, not_lt.mp h2⟩

theorem clip_of_mem (x lo hi : ℝ) (h1 : lo ≤ x) (h2 : x ≤ hi) : mju_clip x lo hi = x := by
  rw [clip_eq, if_neg (not_lt.mpr h1), if_neg (not_lt.mpr h2)]

theorem real_zero : (zero : ℝ) = 0 := by simp [zero]

/-- mjMINVAL as the translator saw it (the double nearest to 1e-15, printed with 17 digits) -/
theorem real_minval : (minval : ℝ) = 1.0000000000000001e-15 := by
  simp only [minval, real_ofSci]

theorem half_lit : (MjNum.ofSci 5 true 1 : ℝ) = 0.5 := by simp only [real_ofSci]
theorem onehalf_lit : (MjNum.ofSci 15 true 1 : ℝ) = 1.5 := by simp only [real_ofSci]
theorem minval_lit : (MjNum.ofSci 10000000000000001 true 31 : ℝ) = 1.0000000000000001e-15 := by
  simp only [real_ofSci]

/-- `mjMAX(mjMINVAL, x) = x` for x ≥ 1e-14 -/
theorem guard (x : ℝ) (h : (1e-14 : ℝ) ≤ x) :
    (if x < (1.0000000000000001e-15 : ℝ) then (1.0000000000000001e-15 : ℝ) else x) = x := by
  rw [if_neg]; intro h'; linarith

/-! ### controls -/

/-- a limited control, clamped: inside its range -/
theorem ctrl_clamped_in_range (x lo hi : ℝ) (h : lo ≤ hi) :
    lo ≤ clampEntry true x lo hi ∧ clampEntry true x lo hi ≤ hi := by
  simp only [clampEntry, if_true]; exact clip_mem x lo hi h

/-- an unlimited control is passed through -/
theorem ctrl_unlimited (x lo hi : ℝ) : clampEntry false x lo hi = x := by simp [clampEntry]

/-- every entry of the local control vector: 0 if some (clamped) control is bad, the clamped control otherwise
    (the raw control when clamping is disabled) -/
theorem ctrlStage_entry (cd : Bool) (cs : List (Ctrl ℝ)) (i : Nat) (h : i < cs.length) :
    (ctrlStage cd cs)[i]? =
      some (if (cs.map (fun c => if cd then c.value else clampEntry c.limited c.value c.lo c.hi)).any
                (fun x => mju_isBad x != 0)
            then 0 else (if cd then cs[i].value else clampEntry cs[i].limited cs[i].value cs[i].lo cs[i].hi)) := by
  unfold ctrlStage
  by_cases hb : (cs.map (fun c => if cd then c.value else clampEntry c.limited c.value c.lo c.hi)).any
      (fun x => mju_isBad x != 0) = true
  · simp only [hb, if_true]; simp [h, real_zero]
  · simp only [hb, Bool.false_eq_true, if_false]; simp [h]

example : (0 : ℝ) ≤ clampEntry true (-3 : ℝ) 0 2 ∧ clampEntry true (-3 : ℝ) 0 2 ≤ 2 :=
  ctrl_clamped_in_range _ _ _ (by norm_num)

/-! ### delayed controls -/

/-- an actuator without delay reads `d->ctrl` -/
theorem ctrlSource_nodelay (c : CtrlIn ℝ) (time : ℝ) (h : c.delay = 0) : ctrlSource c time = some c.raw := by
  simp [ctrlSource, h, real_zero]

/-- a delayed actuator with a buffer reads the buffer at `time - delay` -/
theorem ctrlSource_delayed (c : CtrlIn ℝ) (time : ℝ) (hb : History ℝ) (h : c.delay ≠ 0) (hh : c.hist = some hb) :
    ctrlSource c time = historyRead hb (time - c.delay) c.interp := by
  simp [ctrlSource, readCtrl, h, hh, real_zero]

/-- the copy loop: one source per control, in order -/
theorem ctrlSources_get (time : ℝ) (cs : List (CtrlIn ℝ)) (vs : List ℝ) (h : ctrlSources time cs = some vs) :
    vs.length = cs.length ∧ ∀ (i : Nat) (hi : i < cs.length), ctrlSource cs[i] time = vs[i]? := by
  induction cs generalizing vs with
  | nil => simp [ctrlSources] at h; subst h; simp
  | cons c cs ih =>
    simp only [ctrlSources] at h
    cases hc : ctrlSource c time with
    | none => simp [hc] at h
    | some v =>
      cases hr : ctrlSources time cs with
      | none => simp [hc, hr] at h
      | some vr =>
        simp [hc, hr] at h
        subst h
        obtain ⟨hl, hg⟩ := ih vr hr
        refine ⟨by simp [hl], ?_⟩
        intro i hi
        cases i with
        | zero => simp [hc]
        | succ k =>
          have hk : k < cs.length := by simpa using hi
          simpa using hg k hk

/-- every entry of the local control vector with delays: 0 if some (clamped) control is bad, otherwise the clamp of
    the SOURCE of that control (raw source when clamping is disabled) -/
theorem ctrlStageDelayed_entry (cd : Bool) (time : ℝ) (cs : List (CtrlIn ℝ)) (us : List ℝ)
    (h : ctrlStageDelayed cd time cs = some us) (i : Nat) (hi : i < cs.length) :
    ∃ (src : ℝ) (allBad : Bool), ctrlSource cs[i] time = some src ∧
      us[i]? = some (if allBad then 0 else (if cd then src else clampEntry cs[i].limited src cs[i].lo cs[i].hi)) := by
  unfold ctrlStageDelayed at h
  cases hs : ctrlSources time cs with
  | none => simp [hs] at h
  | some vs =>
    simp only [hs, Option.some.injEq] at h
    obtain ⟨hl, hg⟩ := ctrlSources_get time cs vs hs
    have hiv : i < vs.length := by omega
    have hlen : i < ((cs.zip vs).map (fun cv => cv.1.withValue cv.2)).length := by simp [hl, hi]
    have he := ctrlStage_entry cd ((cs.zip vs).map (fun cv => cv.1.withValue cv.2)) i hlen
    rw [h] at he
    generalize (List.any _ _) = bad at he
    refine ⟨vs[i], bad, ?_, ?_⟩
    · rw [hg i hi]; simp [hiv]
    · rw [he]; simp [CtrlIn.withValue]

/-- THE clamping clause of the property for delayed controls: clamping enabled, control limited, ctrlrange
    non-empty — the control the forces use lies in ctrlrange for EVERY content of the history buffer (which stores the
    raw user controls), or it is 0 because the controls were zeroed -/
theorem delayed_ctrl_in_range (time : ℝ) (cs : List (CtrlIn ℝ)) (us : List ℝ)
    (h : ctrlStageDelayed false time cs = some us) (i : Nat) (hi : i < cs.length)
    (hl : cs[i].limited = true) (hr : cs[i].lo ≤ cs[i].hi) :
    ∃ u, us[i]? = some u ∧ (u = 0 ∨ (cs[i].lo ≤ u ∧ u ≤ cs[i].hi)) := by
  obtain ⟨src, allBad, _, hu⟩ := ctrlStageDelayed_entry false time cs us h i hi
  refine ⟨_, hu, ?_⟩
  cases allBad with
  | true => left; simp
  | false =>
    right
    simp only [Bool.false_eq_true, if_false, hl]
    exact ctrl_clamped_in_range src _ _ hr

/-- without any delay the delayed stage is the plain control stage on `d->ctrl` -/
theorem ctrlStageDelayed_nodelay (cd : Bool) (time : ℝ) (cs : List (CtrlIn ℝ)) (h : ∀ c ∈ cs, c.delay = 0) :
    ctrlStageDelayed cd time cs = some (ctrlStage cd (cs.map (fun c => c.withValue c.raw))) := by
  have hs : ctrlSources time cs = some (cs.map (·.raw)) := by
    induction cs with
    | nil => simp [ctrlSources]
    | cons c cs ih =>
      have h1 := ctrlSource_nodelay c time (h c (by simp))
      have h2 := ih (fun c' hc' => h c' (by simp [hc']))
      simp [ctrlSources, h1, h2]
  have hz : ∀ l : List (CtrlIn ℝ), (l.zip (l.map (·.raw))).map (fun cv => cv.1.withValue cv.2) =
      l.map (fun c => c.withValue c.raw) := by
    intro l
    induction l with
    | nil => simp
    | cons c l ih => simp [ih]
  simp only [ctrlStageDelayed, hs, hz]

/-- a zero-order-hold read returns one of the stored samples -/
theorem historyRead_zoh_mem (hb : History ℝ) (t v : ℝ) (h : historyRead hb t 0 = some v) : v ∈ hb.values := by
  simp only [historyRead] at h
  split_ifs at h with h0
  split at h
  · split_ifs at h
    · exact List.mem_of_getElem? h
    · exact List.mem_of_getElem? h
    · split at h
      · cases h
      · split at h
        · cases h
        · split_ifs at h
          · exact List.mem_of_getElem? h
          · simp only [interpolate] at h
            split_ifs at h
            split at h
            · rename_i hv _
              cases h
              exact List.mem_of_getElem? hv
            · cases h
  · cases h

example : historyRead (⟨3, [0, 2, 4, 6], [5, -3, 2, 2]⟩ : History ℝ) 3 0 = some (-3) := by
  norm_num [historyRead, physIdx, findIndex, bsearch, interpolate, real_minval, abs_lt]

example : historyRead (⟨3, [0, 2, 4, 6], [5, -3, 2, 2]⟩ : History ℝ) 3 1 = some (-0.5) := by
  norm_num [historyRead, physIdx, findIndex, bsearch, interpolate, real_minval, abs_lt]

example : ∃ us, ctrlStageDelayed false (8 : ℝ)
    [⟨7, true, -1, 1, 5, 0, some ⟨3, [0, 2, 4, 6], [5, -3, 2, 2]⟩⟩] = some us :=
  ⟨_, by
    norm_num [ctrlStageDelayed, ctrlSources, ctrlSource, readCtrl, historyRead, physIdx, findIndex, bsearch, interpolate,
      real_minval, real_zero, abs_lt]; rfl⟩

/-! ### activations -/

/-- mj_nextActivation clamps a limited activation to actrange (every dyntype except the DC motor) -/
theorem act_in_actrange (p : Integrate.ActSlot ℝ) (h act actDot : ℝ) (hl : p.actlimited = true)
    (hd : p.dyntype ≠ RK4.mjDYN_DCMOTOR) (hr : p.lo ≤ p.hi) :
    p.lo ≤ Integrate.nextActivation p h act actDot ∧ Integrate.nextActivation p h act actDot ≤ p.hi := by
  simp only [Integrate.nextActivation]
  rw [if_pos ⟨hd, hl⟩]
  exact clip_mem _ _ _ hr

/-- actearly: the activation fed into the force law is the NEXT activation, inside actrange when limited -/
theorem actearly_input_in_actrange (p : Integrate.ActSlot ℝ) (h act actDot : ℝ) (hl : p.actlimited = true)
    (hd : p.dyntype ≠ RK4.mjDYN_DCMOTOR) (hr : p.lo ≤ p.hi) :
    p.lo ≤ forceInput true p h act actDot ∧ forceInput true p h act actDot ≤ p.hi := by
  simp only [forceInput, if_true]
  exact act_in_actrange p h act actDot hl hd hr

/-- without actearly it is the current activation -/
theorem forceInput_late (p : Integrate.ActSlot ℝ) (h act actDot : ℝ) : forceInput false p h act actDot = act := by
  simp [forceInput]

/-- documented activation derivatives -/
theorem actdot_integrator (d0 d1 d2 u w : ℝ) : actDot .integrator d0 d1 d2 u w = u := rfl

theorem actdot_filter (d0 d1 d2 u w : ℝ) (ht : (1e-14 : ℝ) ≤ d0) :
    actDot .filter d0 d1 d2 u w = (u - w) / d0 ∧ actDot .filterexact d0 d1 d2 u w = (u - w) / d0 := by
  have hm : Gen.mju_max (minval : ℝ) d0 = d0 := by
    simp only [Gen.mju_max, real_le_iff, real_minval]
    rw [if_neg]; intro h; linarith
  simp [actDot, hm]

/-! ### force limits -/

theorem force_in_forcerange (f lo hi : ℝ) (h : lo ≤ hi) :
    lo ≤ clampForce true f lo hi ∧ clampForce true f lo hi ≤ hi := by
  simp only [clampForce, clampEntry, if_true]; exact clip_mem f lo hi h

/-- the same through the clamp stage, for an actuator whose group is not disabled -/
theorem force_in_forcerange_enabled (group : Int) (dis : Nat) (f lo hi : ℝ) (h : lo ≤ hi)
    (he : actuatorDisabled group dis = false) :
    lo ≤ clampStage true group dis f lo hi ∧ clampStage true group dis f lo hi ≤ hi := by
  simp only [clampStage, he]; exact force_in_forcerange f lo hi h

/-- the force is not touched when it is inside the range, nor when the actuator is not force-limited -/
theorem force_clamp_noop (f lo hi : ℝ) (l : Bool) (h : l = false ∨ (lo ≤ f ∧ f ≤ hi)) : clampForce l f lo hi = f := by
  rcases h with rfl | ⟨h1, h2⟩
  · simp [clampForce, clampEntry]
  · cases l <;> simp [clampForce, clampEntry, clip_of_mem f lo hi h1 h2]

theorem jointforce_in_range (q lo hi : ℝ) (g : Option ℝ) (h : lo ≤ hi) :
    lo ≤ jointPost q g true lo hi ∧ jointPost q g true lo hi ≤ hi := by
  simp only [jointPost, clampEntry, if_true]; exact clip_mem _ lo hi h

example : (-1 : ℝ) ≤ jointPost (5 : ℝ) (some 2) true (-1) 1 ∧ jointPost (5 : ℝ) (some 2) true (-1) 1 ≤ 1 :=
  jointforce_in_range _ _ _ _ (by norm_num)

theorem tendonScale_eq (t lo hi f : ℝ) :
    tendonScale t lo hi f = if t = 0 then f else if t < lo then f * (lo / t) else if hi < t then f * (hi / t) else f := by
  simp [tendonScale, real_zero, real_lt_iff]

theorem sum_map_mul (fs : List ℝ) (c : ℝ) : (fs.map (fun f => f * c)).sum = fs.sum * c := by
  induction fs with
  | nil => simp
  | cons f fs ih => simp [ih]; ring

/-- tendon total-force limit: after rescaling, the total force of the actuators on the tendon is inside
    `[lo, hi]` (when it was outside it now sits on the violated bound) -/
theorem tendon_total_in_range (fs : List ℝ) (lo hi : ℝ) (h : lo ≤ hi) :
    let t := fs.sum
    lo ≤ (fs.map (tendonScale t lo hi)).sum ∧ (fs.map (tendonScale t lo hi)).sum ≤ hi ∨ t = 0 := by
  intro t
  by_cases h0 : t = 0
  · exact Or.inr h0
  · left
    by_cases h1 : t < lo
    · have hs : (fs.map (tendonScale t lo hi)).sum = lo := by
        have : (fs.map (tendonScale t lo hi)) = fs.map (fun f => f * (lo / t)) := by
          apply List.map_congr_left; intro f _; rw [tendonScale_eq]; simp [h0, h1]
        rw [this, sum_map_mul]; show t * (lo / t) = lo; field_simp
      rw [hs]; exact ⟨le_refl _, h⟩
    · by_cases h2 : hi < t
      · have hs : (fs.map (tendonScale t lo hi)).sum = hi := by
          have : (fs.map (tendonScale t lo hi)) = fs.map (fun f => f * (hi / t)) := by
            apply List.map_congr_left; intro f _; rw [tendonScale_eq]; simp [h0, h1, h2]
          rw [this, sum_map_mul]; show t * (hi / t) = hi; field_simp
        rw [hs]; exact ⟨h, le_refl _⟩
      · have hs : (fs.map (tendonScale t lo hi)) = fs := by
          conv_rhs => rw [← List.map_id fs]
          apply List.map_congr_left; intro f _; rw [tendonScale_eq]; simp [h0, h1, h2]
        rw [hs]; exact ⟨not_lt.mp h1, not_lt.mp h2⟩

/-! ### affine force law -/

def mkAct (g : GainType) (b : BiasType) (gp bp : List ℝ) (l ld : ℝ) : Act ℝ :=
  { gaintype := g, biastype := b, gainprm := gp, biasprm := bp, length := l, velocity := ld, lr0 := 0, lr1 := 1, acc0 := 1 }

/-- fixed gain, affine bias: the documented p = a·(w or u) + b0 + b1·l + b2·l̇ -/
theorem fixed_affine_eq_spec (a b0 b1 b2 l ld input : ℝ) (gt bt : List ℝ) :
    rawForce (mkAct .fixed .affine (a :: gt) (b0 :: b1 :: b2 :: bt) l ld) input =
      some (Spec.Muscle.affineForce a input b0 b1 b2 l ld) := by
  simp [rawForce, gainOf, biasOf, nth, mkAct, Spec.Muscle.affineForce]; ring

/-- fixed gain, no bias (motor): p = a·u -/
theorem fixed_none_eq_spec (a l ld input : ℝ) (gt bp : List ℝ) :
    rawForce (mkAct .fixed .none (a :: gt) bp l ld) input = some (a * input) := by
  simp [rawForce, gainOf, biasOf, nth, mkAct, real_zero]

/-- affine gain (const + kp·length + kv·velocity) and affine bias -/
theorem affine_affine_eq_spec (g0 g1 g2 b0 b1 b2 l ld input : ℝ) (gt bt : List ℝ) :
    rawForce (mkAct .affine .affine (g0 :: g1 :: g2 :: gt) (b0 :: b1 :: b2 :: bt) l ld) input =
      some (Spec.Muscle.affineForce (g0 + g1 * l + g2 * ld) input b0 b1 b2 l ld) := by
  simp [rawForce, gainOf, biasOf, nth, mkAct, Spec.Muscle.affineForce]; ring

/-! ### disabled groups -/

theorem actuatorDisabled_iff (group : Int) (dis : Nat) :
    actuatorDisabled group dis = true ↔ 0 ≤ group ∧ group ≤ 30 ∧ dis.testBit group.toNat = true := by
  unfold actuatorDisabled
  by_cases h : group < 0 ∨ group > 30
  · simp only [if_pos h]
    constructor
    · intro hf; cases hf
    · rintro ⟨h1, h2, _⟩; omega
  · simp only [if_neg h]
    constructor
    · intro ht; exact ⟨by omega, by omega, ht⟩
    · rintro ⟨_, _, ht⟩; exact ht

/-- an actuator in a disabled group: zero force through every later stage, whatever its forcerange -/
theorem disabled_group_zero_force (a : Act ℝ) (input : ℝ) (group : Int) (dis : Nat) (t tlo thi flo fhi : ℝ)
    (lim : Bool) (hd : actuatorDisabled group dis = true) :
    ∃ f, unclampedForce a input group dis = some f ∧ f = 0 ∧
      clampStage lim group dis (tendonScale t tlo thi f) flo fhi = 0 := by
  refine ⟨0, by simp [unclampedForce, hd, real_zero], rfl, ?_⟩
  have h0 : tendonScale t tlo thi 0 = 0 := by rw [tendonScale_eq]; split_ifs <;> simp
  rw [h0]
  simp [clampStage, hd]

/-- for an enabled actuator the clamp stage is the forcerange clamp -/
theorem clampStage_enabled (lim : Bool) (group : Int) (dis : Nat) (f lo hi : ℝ)
    (he : actuatorDisabled group dis = false) : clampStage lim group dis f lo hi = clampForce lim f lo hi := by
  simp [clampStage, he]

/-- the regression input: group 0 disabled, forcerange [1, 2] — zero force -/
example : clampStage true 0 1 (tendonScale 0 0 0 (0 : ℝ)) 1 2 = 0 := by
  rw [tendonScale_eq]; simp [clampStage]; decide

example : actuatorDisabled 2 0b100 = true := by decide
example : actuatorDisabled 31 0xFFFFFFFF = false := by decide

/-! ### muscles -/
section Muscle
open Spec.Muscle

/-- the scaled length / velocity inside the kernels are the documented L and V / vmax (non-degenerate ranges: every
    `mjMAX(mjMINVAL, ·)` guard is inactive) -/
theorem muscle_scaling (len vel lr0 lr1 r0 r1 vmax : ℝ) (hL : (1e-14 : ℝ) ≤ (lr1 - lr0) / (r1 - r0)) :
    r0 + (len - lr0) / ((lr1 - lr0) / (r1 - r0)) = scaledLength len lr0 lr1 r0 r1 ∧
    vel / ((lr1 - lr0) / (r1 - r0) * vmax) = scaledVelocity vel lr0 lr1 r0 r1 / vmax := by
  have h1 : (lr1 - lr0) / (r1 - r0) ≠ 0 := by intro h; rw [h] at hL; norm_num at hL
  have h2 : r1 - r0 ≠ 0 := by intro h; rw [h, div_zero] at hL; norm_num at hL
  have h3 : lr1 - lr0 ≠ 0 := by intro h; rw [h, zero_div] at hL; norm_num at hL
  constructor
  · simp only [scaledLength, Spec.Muscle.LT, L0]
    field_simp
    ring
  · simp only [scaledVelocity, L0]; rw [div_div]

theorem muscleGainLength_eq_bump (L lmin lmax : ℝ) (h1 : lmin + 1e-13 ≤ 1) (h2 : 1 + 1e-13 ≤ lmax) :
    mju_muscleGainLength L lmin lmax = bump L lmin 1 lmax := by
  have hA : (1e-14 : ℝ) ≤ 0.5 * (lmin + 1) - lmin := by linarith
  have hB : (1e-14 : ℝ) ≤ 1 - 0.5 * (lmin + 1) := by linarith
  have hC : (1e-14 : ℝ) ≤ 0.5 * (1 + lmax) - 1 := by linarith
  have hD : (1e-14 : ℝ) ≤ lmax - 0.5 * (1 + lmax) := by linarith
  simp only [mju_muscleGainLength, half_lit, minval_lit, real_ofInt, real_le_iff, real_lt_iff, Int.cast_one, Int.cast_zero]
  rw [guard _ hA, guard _ hB, guard _ hC, guard _ hD]
  simp only [bump]
  have hd1 : (0.5 * (lmin + 1) - lmin : ℝ) ≠ 0 := by linarith
  have hd2 : (1 - 0.5 * (lmin + 1) : ℝ) ≠ 0 := by linarith
  have hd3 : (0.5 * (1 + lmax) - 1 : ℝ) ≠ 0 := by linarith
  have hd4 : (lmax - 0.5 * (1 + lmax) : ℝ) ≠ 0 := by linarith
  simp only [decide_eq_true_eq]
  by_cases c0 : lmin ≤ L ∧ L ≤ lmax
  · obtain ⟨c0a, c0b⟩ := c0
    simp only [c0a, c0b, and_self, if_true]
    rcases eq_or_lt_of_le c0a with hLA | hLA
    · -- L = lmin: both are 0
      subst hLA
      have p1 : lmin ≤ 0.5 * (lmin + 1) := by linarith
      simp [p1]
    · rcases eq_or_lt_of_le c0b with hLB | hLB
      · -- L = lmax: both are 0
        subst hLB
        have n1 : ¬ (L ≤ 0.5 * (lmin + 1)) := by linarith
        have n2 : ¬ (L ≤ 1) := by linarith
        have n3 : ¬ (L ≤ 0.5 * (1 + L)) := by linarith
        simp [n1, n2, n3]
      · have nA : ¬ (L ≤ lmin ∨ lmax ≤ L) := by
          rintro (h | h) <;> linarith
        simp only [nA, if_false]
        by_cases c1 : L ≤ 0.5 * (lmin + 1)
        · simp only [c1, if_true]
          rcases eq_or_lt_of_le c1 with he | hl
          · -- knot L = left
            have n1 : ¬ (L < 0.5 * (lmin + 1)) := by linarith
            have p2 : L < 1 := by linarith
            simp only [n1, if_false, p2, if_true]
            rw [he]; field_simp; ring
          · simp only [hl, if_true]
        · have n1 : ¬ (L < 0.5 * (lmin + 1)) := by linarith
          simp only [c1, n1, if_false]
          by_cases c2 : L ≤ 1
          · simp only [c2, if_true]
            rcases eq_or_lt_of_le c2 with he | hl
            · -- knot L = mid = 1
              subst he
              have p3 : (1 : ℝ) < 0.5 * (1 + lmax) := by linarith
              simp [p3]
            · simp only [hl, if_true]
          · have n2 : ¬ (L < 1) := by linarith
            simp only [c2, n2, if_false]
            by_cases c3 : L ≤ 0.5 * (1 + lmax)
            · simp only [c3, if_true]
              rcases eq_or_lt_of_le c3 with he | hl
              · -- knot L = right
                have n3 : ¬ (L < 0.5 * (1 + lmax)) := by linarith
                simp only [n3, if_false]
                rw [he]; field_simp; ring
              · simp only [hl, if_true]
            · have n3 : ¬ (L < 0.5 * (1 + lmax)) := by linarith
              simp only [c3, n3, if_false]
  · have : L < lmin ∨ lmax < L := by
      by_contra hc; push Not at hc; exact c0 ⟨hc.1, hc.2⟩
    have hA' : L ≤ lmin ∨ lmax ≤ L := by
      rcases this with h | h
      · exact Or.inl (le_of_lt h)
      · exact Or.inr (le_of_lt h)
    simp only [c0, hA', if_true, if_false]

theorem muscleBias_at_lmax (lmax fpmax force : ℝ) (h2 : 1 + 1e-13 ≤ lmax) (hf : 0 ≤ force) :
    mju_muscleBias lmax 0 1 1 0 1 force 0 lmax fpmax = -(1.5 * fpmax * force) := by
  simp only [mju_muscleBias, half_lit, minval_lit, real_ofInt, real_le_iff, real_lt_iff, Int.cast_one, Int.cast_zero]
  have nf : ¬ force < 0 := not_lt.mpr hf
  have g1 : (1e-14 : ℝ) ≤ 1 - 0 := by norm_num
  have g2 : (1e-14 : ℝ) ≤ (1 - 0) / (1 - 0) := by norm_num
  have g3 : (1e-14 : ℝ) ≤ 0.5 * (1 + lmax) - 1 := by linarith
  rw [guard _ g1, guard _ g2, guard _ g3]
  simp only [nf, decide_false, decide_eq_true_eq, Bool.false_eq_true, if_false]
  have hL : (0 : ℝ) + (lmax - 0) / ((1 - 0) / (1 - 0)) = lmax := by norm_num
  rw [hL]
  have n3 : ¬ (lmax ≤ 1) := by linarith
  have n4 : ¬ (lmax ≤ 0.5 * (1 + lmax)) := by linarith
  simp only [n3, n4, if_false]
  have hd : (0.5 * (1 + lmax) - 1 : ℝ) ≠ 0 := by linarith
  field_simp; ring

theorem muscleBias_differs_from_doc :
    FP_flvm 1.6 1.6 1.3 = 1.3 ∧ mju_muscleBias (1.6 : ℝ) 0 1 1 0 1 1 0 1.6 1.3 = -(1.5 * 1.3 * 1) := by
  constructor
  · simp only [FP_flvm]; norm_num
  · exact muscleBias_at_lmax 1.6 1.3 1 (by norm_num) (by norm_num)

theorem muscleGainLength_differs_from_FLVm :
    mju_muscleGainLength (0.8 : ℝ) 0.5 1.6 ≠ FL_flvm 0.8 0.5 1.6 := by
  rw [muscleGainLength_eq_bump _ _ _ (by norm_num) (by norm_num)]
  simp only [FL_flvm, bump]
  norm_num

theorem muscleDynamics_eq_spec (ctrl act tauAct tauDeact ts : ℝ) (ha0 : 0 ≤ act) (ha1 : act ≤ 1) (hs : ts < 1e-15)
    (hta : (1e-14 : ℝ) ≤ tauAct * 0.5) (htd : (1e-14 : ℝ) ≤ tauDeact / 2) :
    mju_muscleDynamics ctrl act tauAct tauDeact ts = Spec.Muscle.actDot ctrl act tauAct tauDeact := by
  simp only [mju_muscleDynamics, mju_muscleDynamicsTimescale, half_lit, onehalf_lit, minval_lit, real_ofInt, real_lt_iff,
    Int.cast_one, Int.cast_zero, clip_eq, Spec.Muscle.actDot, Spec.Muscle.tau, Spec.Muscle.clamp01]
  have hact : (if act < 0 then (0 : ℝ) else if 1 < act then 1 else act) = act := by
    rw [if_neg (not_lt.mpr ha0), if_neg (not_lt.mpr ha1)]
  rw [hact]
  have hs' : ts < 1.0000000000000001e-15 := by linarith
  simp only [hs', decide_true, if_true]
  have hpos : (0 : ℝ) < 0.5 + 1.5 * act := by linarith
  set u : ℝ := (if ctrl < 0 then 0 else if 1 < ctrl then 1 else ctrl) with hu
  by_cases hd : 0 < u - act
  · have hgt : u - act > 0 := hd
    simp only [hd, hgt, if_true]
    have hta' : 0 ≤ tauAct := by linarith
    have : (1e-14 : ℝ) ≤ tauAct * (0.5 + 1.5 * act) := by nlinarith
    rw [guard _ this]
  · have hgt : ¬ (u - act > 0) := hd
    simp only [hd, hgt, if_false]
    have htd' : 0 ≤ tauDeact := by linarith
    have : (1e-14 : ℝ) ≤ tauDeact / (0.5 + 1.5 * act) := by
      have : tauDeact / 2 ≤ tauDeact / (0.5 + 1.5 * act) := by
        apply div_le_div_of_nonneg_left htd' hpos; linarith
      linarith
    rw [guard _ this]

theorem muscleGain_eq_spec (len vel lr0 lr1 acc0 r0 r1 force scale lmin lmax vmax fvmax : ℝ)
    (hr : (1e-14 : ℝ) ≤ r1 - r0) (hL : (1e-14 : ℝ) ≤ (lr1 - lr0) / (r1 - r0))
    (hV : (1e-14 : ℝ) ≤ (lr1 - lr0) / (r1 - r0) * vmax) (hacc : (1e-14 : ℝ) ≤ acc0)
    (hy : (1e-14 : ℝ) ≤ fvmax - 1) (h1 : lmin + 1e-13 ≤ 1) (h2 : 1 + 1e-13 ≤ lmax) :
    mju_muscleGain len vel lr0 lr1 acc0 r0 r1 force scale lmin lmax vmax fvmax =
      -(F0 force scale acc0) * bump (scaledLength len lr0 lr1 r0 r1) lmin 1 lmax *
        FV (scaledVelocity vel lr0 lr1 r0 r1 / vmax) fvmax := by
  obtain ⟨hsl, hsv⟩ := muscle_scaling len vel lr0 lr1 r0 r1 vmax hL
  simp only [mju_muscleGain, minval_lit, real_ofInt, real_le_iff, real_lt_iff, Int.cast_one, Int.cast_zero,
    Int.cast_neg]
  rw [guard _ hacc, guard _ hr, guard _ hL, guard _ hV, guard _ hy]
  rw [hsl, hsv, muscleGainLength_eq_bump _ _ _ h1 h2]
  simp only [F0, FV, decide_eq_true_eq]

end Muscle

/-! ### qfrc_actuator = moment' · force -/
section Sparse
variable {nc : Nat}

/-- dense entry: Σ_rows (Σ of the stored values of that row in column c) · force_row -/
def denseCol (rows : List (List (Fin nc × ℝ))) (vec : List ℝ) (c : Fin nc) : ℝ :=
  ((rows.zip vec).map (fun rv => ((rv.1.filter (fun e => e.1 = c)).map (·.2)).sum * rv.2)).sum

theorem row_fold (row : List (Fin nc × ℝ)) (s : ℝ) (res : Vector ℝ nc) (c : Fin nc) :
    (row.foldl (fun r e => r.set e.1.val (r[e.1.val] + e.2 * s)) res)[c.val] =
      res[c.val] + ((row.filter (fun e => e.1 = c)).map (·.2)).sum * s := by
  induction row generalizing res with
  | nil => simp
  | cons e es ih =>
    simp only [List.foldl_cons]
    rw [ih]
    by_cases h : e.1 = c
    · subst h
      simp [List.filter_cons, Vector.getElem_set_self]; ring
    · have hne : e.1.val ≠ c.val := fun hv => h (Fin.ext hv)
      simp [List.filter_cons, h, Vector.getElem_set_ne _ _ hne]

/-- the sparse transpose product as coded (zero forces skipped, accumulation in storage order) equals the dense
    product moment' · force -/
theorem qfrc_actuator_eq_momentT_force (rows : List (List (Fin nc × ℝ))) (vec : List ℝ) (c : Fin nc) :
    (mulMatTVecSparse nc rows vec)[c.val] = denseCol rows vec c := by
  unfold mulMatTVecSparse denseCol
  suffices h : ∀ (l : List (List (Fin nc × ℝ) × ℝ)) (res : Vector ℝ nc),
      (l.foldl (fun (res : Vector ℝ nc) (rv : List (Fin nc × ℝ) × ℝ) =>
          if MjNum.beq rv.2 (zero : ℝ) then res
          else rv.1.foldl (fun r e => r.set e.1.val (r[e.1.val] + e.2 * rv.2)) res) res)[c.val] =
        res[c.val] + (l.map (fun rv => ((rv.1.filter (fun e => e.1 = c)).map (·.2)).sum * rv.2)).sum by
    rw [h]; simp [real_zero]
  intro l
  induction l with
  | nil => intro res; simp
  | cons rv rest ih =>
    intro res
    simp only [List.foldl_cons, List.map_cons, List.sum_cons]
    rw [ih]
    by_cases hz : rv.2 = 0
    · simp [hz, real_zero]
    · have : MjNum.beq rv.2 (zero : ℝ) = false := by simp [real_zero, hz]
      simp only [this, Bool.false_eq_true, if_false]
      rw [row_fold]; ring

example : denseCol [[((0 : Fin 2), (2 : ℝ)), (1, 3)], [((1 : Fin 2), 5)]] [10, 1] (1 : Fin 2) = 35 := by
  simp [denseCol]; norm_num

end Sparse

end MjProof.C27
