import MjProof.Lemmas.Vfs
/-
C39  Virtual file system operations have set semantics.

Property theorems only.  Model: `MjProof/Model/Vfs.lean` (tied to `src/user/user_vfs.cc`,
`user_resource.cc`, `user_util.cc` by the differential run of `checks/c39.py`); abstract
specification and history lemmas: `MjProof/Lemmas/Vfs.lean`.

"Name" below always means the key the API computes from its arguments (`fp1 n = FilePath(n)` for
the buffer API, `fileKey d f = FilePath(d,f).StripPath().Lower()` for the file API): that is the
normalisation *the API applies*, and two spellings denote the same file iff they have the same key.

The model has two variant switches (`Env.normContains`, `Env.exactFirst`), one per defect found in
the tree; `checks/c39.py` probes the real code and runs the correspondence against the matching
variant.  Each theorem names exactly the switch it needs as a hypothesis, so that it is tied to the
code as soon as the corresponding fix is in the tree:
* no hypothesis: holds for every variant (state refinement, presence = added-and-not-deleted-since,
  re-add, delete);
* `e.normContains = true`: the clauses observed through `mj_containsBufferVFS`;
* `e.exactFirst = true ∨ path ≠ ""`: the read clause (for the as-found `FindMount` only non-empty paths);
* both: the full trace refinement `vfs_refines_spec`.
All are for every disk, every history (list of operations) and every name, by induction on the
history.  The as-found variant (`Env.asFound`) violates two clauses; the violations are exhibited as
machine-checked counter-witnesses, and `…_partial` theorems state what still holds for it.
-/
namespace MjProof.C39
open MjProof.Vfs

/-! ## Refinement -/

/-- **Refinement.**  For a model variant with both fixes, every history run from the empty VFS is a
    trace of the abstract specification `Name → Option Bytes` (`Sat`: each observed result is one the
    specification allows in the abstract state reached so far), and the final mount table
    abstracts to the final abstract map. -/
theorem vfs_refines_spec (e : Env) (hn : e.normContains = true) (hx : e.exactFirst = true) (ops : List Op) :
    Sat e Abs.empty ops (run e [] ops).1 ∧ abs (run e [] ops).2 = specRun e Abs.empty ops := by
  have hop : ∀ op ∈ ops, OpOK e op := by
    intro op _
    cases op with
    | has n => cases n <;> simp [OpOK, hn]
    | openRead d n => simp [OpOK, hx]
    | _ => trivial
  have := run_refines e [] ops hop
  simpa [abs_nil] using this

example (disk : List (Str × DiskEntry)) : (Env.fixed disk).normContains = true ∧ (Env.fixed disk).exactFirst = true :=
  ⟨rfl, rfl⟩

/-- The same from any table (e.g. in the middle of a history). -/
theorem vfs_refines_spec_from (e : Env) (hn : e.normContains = true) (hx : e.exactFirst = true) (t : Tbl)
    (ops : List Op) :
    Sat e (abs t) ops (run e t ops).1 ∧ abs (run e t ops).2 = specRun e (abs t) ops := by
  have hop : ∀ op ∈ ops, OpOK e op := by
    intro op _
    cases op with
    | has n => cases n <;> simp [OpOK, hn]
    | openRead d n => simp [OpOK, hx]
    | _ => trivial
  exact run_refines e t ops hop

/-- **State refinement, every variant.**  The mount table always abstracts to the abstract map reached
    by the specification: neither defect corrupts the VFS contents, they only affect what
    `mj_containsBufferVFS` / `mju_openResource` answer. -/
theorem vfs_state_refines_spec (e : Env) (ops : List Op) :
    abs (run e [] ops).2 = specRun e Abs.empty ops := by
  simpa [abs_nil] using run_state e [] ops

/-- **Trace refinement, any variant (partial).**  For a variant lacking a fix, refinement is proved
    for histories in which every `has` is asked with an already normalised name (if
    `normContains = false`) and every read has a non-empty path (if `exactFirst = false`).  Missing:
    exactly `asFound_contains_counterexample` / `asFound_read_counterexample`. -/
theorem vfs_refines_spec_partial (e : Env) (ops : List Op) (hops : ∀ op ∈ ops, OpOK e op) :
    Sat e Abs.empty ops (run e [] ops).1 ∧ abs (run e [] ops).2 = specRun e Abs.empty ops := by
  have := run_refines e [] ops hops
  simpa [abs_nil] using this

/-- the hypothesis of `vfs_refines_spec_partial` is satisfiable by a non-trivial history of the as-found variant. -/
example : ∀ op ∈ [Op.addBuf "a/b.txt".toList [1], .has (some "a/b.txt".toList), .openRead none "a/b.txt".toList,
      .del (some "A/B.TXT".toList), .has (some "a/b.txt".toList)], OpOK (Env.asFound []) op := by
  decide

/-- For a name that is already normalised the two `mj_containsBufferVFS` variants agree. -/
theorem containsRaw_eq_containsNorm_partial (t : Tbl) (n : Str) (h : fp1 n = n) :
    containsRaw t (some n) = containsNorm t (some n) := by
  simp [containsRaw, containsNorm, h]

example : fp1 "dir/a.txt".toList = "dir/a.txt".toList := by decide

/-! ## Counter-witnesses for the tree as found -/

/-- **Defect 1 (contains looks up the raw string).**  After `mj_addBufferVFS(vfs, "./c.txt", …) = 0`
    the as-found model (like the real code) answers `mj_containsBufferVFS(vfs, "./c.txt") = 0`,
    while the read returns the bytes; the fixed model answers 1. -/
theorem asFound_contains_counterexample :
    (run (Env.asFound []) [] [.addBuf "./c.txt".toList [104, 105], .has (some "./c.txt".toList),
        .openRead none "./c.txt".toList]).1
      = [.code 0, .code 0, .opened [[104, 105]]] ∧
    (run (Env.fixed []) [] [.addBuf "./c.txt".toList [104, 105], .has (some "./c.txt".toList),
        .openRead none "./c.txt".toList]).1
      = [.code 0, .code 1, .opened [[104, 105]]] := by
  decide

/-- the same for a back-slash and for a `..` spelling. -/
example : (run (Env.asFound []) [] [.addBuf "a\\b.txt".toList [1], .has (some "a\\b.txt".toList)]).1
    = [.code 0, .code 0] := by decide
example : (run (Env.asFound []) [] [.addBuf "x/../y.txt".toList [1], .has (some "x/../y.txt".toList)]).1
    = [.code 0, .code 0] := by decide

/-- …so the as-found model is *not* a refinement of the specification. -/
theorem asFound_not_refinement :
    ¬ ∀ ops, Sat (Env.asFound []) Abs.empty ops (run (Env.asFound []) [] ops).1 := by
  intro h
  have h2 := h [.addBuf "./c.txt".toList [104, 105], .has (some "./c.txt".toList)]
  have hr : (run (Env.asFound []) [] [.addBuf "./c.txt".toList [104, 105], .has (some "./c.txt".toList)]).1
      = [.code 0, .code 0] := by decide
  rw [hr] at h2
  have h3 := h2.2.1
  have hk : (specStep (Env.asFound []) Abs.empty (.addBuf "./c.txt".toList [104, 105])
      (fp1 "./c.txt".toList)).isSome = true := by decide
  simp only [specOut, hk] at h3
  exact absurd h3 (by decide)

/-- **Defect 2 (the empty path is never looked up by `FindMount`).**  With buffers named `""` and
    `"a/"` mounted, reading `""` may return the bytes of `"a/"` (both match the legacy basename
    comparison and the hash-map order decides); the fixed model returns exactly the bytes of `""`. -/
theorem asFound_read_counterexample :
    (run (Env.asFound []) [] [.addBuf [] [5], .addBuf "a/".toList [6], .has (some []), .openRead none []]).1
      = [.code 0, .code 0, .code 1, .opened [[5], [6]]] ∧
    (run (Env.fixed []) [] [.addBuf [] [5], .addBuf "a/".toList [6], .has (some []), .openRead none []]).1
      = [.code 0, .code 0, .code 1, .opened [[5]]] := by
  decide

/-! ## The clauses of the property, state by state -/

/-- Adding a name that is absent succeeds (0), makes exactly that name present with the given
    contents and changes no other name.  (Any model variant, any table.) -/
theorem add_absent (e : Env) (t : Tbl) (op : Op) (k : Str) (b : Bytes)
    (ha : addTarget e op = some (k, b)) (hk : t.get k = none) :
    (step e t op).1 = .code 0 ∧ (step e t op).2.get k = some b ∧
    ∀ k', k' ≠ k → (step e t op).2.get k' = t.get k' := by
  have hi : Inserts e (abs t) op k b := (specEffect_ins_iff e (abs t) op k b).2 ⟨ha, hk⟩
  have hs : abs (step e t op).2 = specStep e (abs t) op := by
    cases op with
    | addBuf n c => exact (step_spec e t (.addBuf n c) (by simp [OpOK])).2
    | addFile d f => exact (step_spec e t (.addFile d f) (by simp [OpOK])).2
    | reset => simp [addTarget] at ha
    | del n => simp [addTarget] at ha
    | has n => simp [addTarget] at ha
    | hasFile d f => simp [addTarget] at ha
    | openRead d n => simp [addTarget] at ha
  have hi' : specEffect e (abs t) op = .ins k b := hi
  refine ⟨((Inserts_iff_AddedOk e t op k b).1 hi).2, ?_, ?_⟩
  · have h1 : (step e t op).2.get k = specStep e (abs t) op k := congrFun hs k
    rw [h1]
    simp [specStep, hi', Effect.apply, Abs.set]
  · intro k' hk'
    have h1 : (step e t op).2.get k' = specStep e (abs t) op k' := congrFun hs k'
    rw [h1]
    simp only [specStep, hi', Effect.apply, Abs.set, hk', if_false]
    rfl

example : addTarget (Env.fixed []) (.addBuf "p\\a.txt".toList [7]) = some ("p/a.txt".toList, [7]) ∧
    Tbl.get [] "p/a.txt".toList = none := by decide

/-- **Re-adding an existing name fails with the repeated-name code (2) and leaves the whole VFS —
    in particular the contents stored under that name — unchanged.**  (Any variant, any table.) -/
theorem add_existing_repeated_unchanged (e : Env) (t : Tbl) (op : Op) (k : Str) (b b0 : Bytes)
    (ha : addTarget e op = some (k, b)) (hk : t.get k = some b0) :
    step e t op = (.code 2, t) := by
  have hh : t.has k = true := by simp [Tbl.has, hk]
  cases op with
  | addBuf n c =>
    simp only [addTarget, Option.some.injEq, Prod.mk.injEq] at ha
    obtain ⟨rfl, rfl⟩ := ha
    simp [step, mount, hh]
  | addFile d f =>
    simp only [addTarget] at ha
    cases hr : e.readFile (fp2 d f) with
    | none => simp [hr] at ha
    | some c =>
      simp only [hr, Option.map_some, Option.some.injEq, Prod.mk.injEq] at ha
      obtain ⟨rfl, rfl⟩ := ha
      simp [step, hr, mount, hh]
  | reset => simp [addTarget] at ha
  | del n => simp [addTarget] at ha
  | has n => simp [addTarget] at ha
  | hasFile d f => simp [addTarget] at ha
  | openRead d n => simp [addTarget] at ha

example : addTarget (Env.fixed []) (.addBuf "./a.txt".toList [9]) = some ("a.txt".toList, [9]) ∧
    Tbl.get [("a.txt".toList, [1])] "a.txt".toList = some [1] := by decide

/-- **Reading a present name through the resource API returns exactly the stored bytes**, whatever
    else is mounted and whatever is on disk (`dir`/`name` are combined and normalised by
    `FilePath(dir, name)` as `mju_openResource` does).  Needs the `FindMount` fix only for the empty
    path. -/
theorem read_present_exact (e : Env) (t : Tbl) (d : Option Str) (n : Str) (b : Bytes)
    (hx : e.exactFirst = true ∨ fp2 d n ≠ []) (h : t.get (fp2 d n) = some b) :
    step e t (.openRead d n) = (.opened [b], t) := by
  simp [step, openRead_present e t d n b hx h]

example : (Env.fixed []).exactFirst = true ∧
    Tbl.get [("a.txt".toList, [1, 2])] (fp2 (some "x/..".toList) "a.txt".toList) = some [1, 2] := by decide
example : fp2 none "a.txt".toList ≠ [] ∧ Tbl.get [("a.txt".toList, [1])] (fp2 none "a.txt".toList) = some [1] := by
  decide

/-- `mj_containsBufferVFS` (normalising variant) answers 1 exactly for present names. -/
theorem has_iff_present (e : Env) (hn : e.normContains = true) (t : Tbl) (n : Str) :
    (step e t (.has (some n))).1 = .code 1 ↔ ∃ b, t.get (fp1 n) = some b := by
  simp only [step, containsBuffer, hn, containsNorm, Tbl.has, b2i, if_true]
  exact code_one_iff _

/-- Raw-lookup variant (partial): the same for names that are already normalised. -/
theorem has_iff_present_raw_partial (e : Env) (t : Tbl) (n : Str) (h : fp1 n = n) :
    (step e t (.has (some n))).1 = .code 1 ↔ ∃ b, t.get (fp1 n) = some b := by
  simp only [step, containsBuffer_eq e t n (Or.inr h), Tbl.has, b2i]
  exact code_one_iff _

example : fp1 "p/a.txt".toList = "p/a.txt".toList := by decide

/-- `mj_containsFileVFS` answers 1 exactly for present (file-API) names. -/
theorem hasFile_iff_present (e : Env) (t : Tbl) (d : Option Str) (f : Str) :
    (step e t (.hasFile d (some f))).1 = .code 1 ↔ ∃ b, t.get (fileKey d f) = some b := by
  simp only [step, containsFile, Tbl.has, b2i]
  exact code_one_iff _

/-- **Deleting an absent name reports failure (-1) and changes nothing**; "absent" for
    `mj_deleteFileVFS` means that neither the normalised name nor its lower-cased basename (the key
    under which `mj_addFileVFS` stores files) is present. -/
theorem delete_absent_fails (e : Env) (t : Tbl) (n : Str)
    (h1 : t.get (fp1 n) = none) (h2 : t.get (delKey2 n) = none) :
    step e t (.del (some n)) = (.code (-1), t) := by
  simp [step, deleteFile, unmount, Tbl.has, h1, h2]

example : Tbl.get [("b.txt".toList, [1])] (fp1 "A.TXT".toList) = none ∧
    Tbl.get [("b.txt".toList, [1])] (delKey2 "A.TXT".toList) = none := by decide

/-- Conversely a delete fails *only* if the name is absent in that sense. -/
theorem delete_fails_iff_absent (e : Env) (t : Tbl) (n : Str) :
    (step e t (.del (some n))).1 = .code (-1) ↔ t.get (fp1 n) = none ∧ t.get (delKey2 n) = none := by
  have hc := (deleteFile_abs t (some n)).1
  simp only [step, hc, delTarget, abs]
  have : ∀ x y : Option Bytes, Out.code (if (if x.isSome = true then some (fp1 n)
      else if y.isSome = true then some (delKey2 n) else none).isSome = true then 0 else -1) = Out.code (-1)
      ↔ x = none ∧ y = none := by
    intro x y; cases x <;> cases y <;> simp
  exact this _ _

/-- A successful delete removes exactly one name — the normalised name if present, else the
    lower-cased basename — and leaves every other name and its contents alone. -/
theorem delete_present (e : Env) (t : Tbl) (n : Str)
    (h : (step e t (.del (some n))).1 = .code 0) :
    ∃ k, (k = fp1 n ∨ k = delKey2 n) ∧ (∃ b, t.get k = some b) ∧ (step e t (.del (some n))).2.get k = none ∧
      (step e t (.del (some n))).2.get (fp1 n) = none ∧
      ∀ k', k' ≠ k → (step e t (.del (some n))).2.get k' = t.get k' := by
  have hd := deleteFile_abs t (some n)
  simp only [step] at h ⊢
  have hget : ∀ k', (deleteFile t (some n)).2.get k' =
      (specEffect ({} : Env) (abs t) (.del (some n))).apply (abs t) k' := fun k' => congrFun hd.2 k'
  by_cases ha : (abs t (fp1 n)).isSome = true
  · have heff : specEffect ({} : Env) (abs t) (.del (some n)) = .rem (fp1 n) := by
      simp [specEffect, delTarget, ha]
    simp only [heff, Effect.apply, Abs.set] at hget
    refine ⟨fp1 n, Or.inl rfl, Option.isSome_iff_exists.mp ha, ?_, ?_, ?_⟩
    · rw [hget]; simp
    · rw [hget]; simp
    · intro k' hk'; rw [hget]; simp only [hk', if_false]; rfl
  · by_cases hb : (abs t (delKey2 n)).isSome = true
    · have heff : specEffect ({} : Env) (abs t) (.del (some n)) = .rem (delKey2 n) := by
        simp [specEffect, delTarget, ha, hb]
      simp only [heff, Effect.apply, Abs.set] at hget
      have hn : abs t (fp1 n) = none := by simpa using ha
      refine ⟨delKey2 n, Or.inr rfl, Option.isSome_iff_exists.mp hb, ?_, ?_, ?_⟩
      · rw [hget]; simp
      · rw [hget]; split <;> simp [hn]
      · intro k' hk'; rw [hget]; simp only [hk', if_false]; rfl
    · rw [hd.1] at h
      simp [delTarget, ha, hb] at h

example : (step (Env.fixed []) [("b.txt".toList, [1])] (.del (some "X/B.TXT".toList))).1 = .code 0 := by decide

/-! ## Names that differ only in path separators -/

/-- For a name without an absolute prefix (no leading separator, no `:/` or `:\\`), replacing
    back-slashes by forward slashes gives the same key: the two spellings denote the same file in
    every operation of the buffer API. -/
theorem fp1_separator_insensitive (n : Str) (h : absPrefix n = []) : fp1 (n.map toSlash) = fp1 n :=
  reduce_map_toSlash n h

example : absPrefix "p\\q\\..\\a.txt".toList = [] ∧
    fp1 ("p\\q\\..\\a.txt".toList.map toSlash) = "p/a.txt".toList := by decide

/-- …whereas inside an absolute prefix the separator is kept verbatim, so these are different names. -/
example : fp1 "\\r\\a.txt".toList = "\\r/a.txt".toList ∧ fp1 "/r/a.txt".toList = "/r/a.txt".toList := by decide

/-! ## The property over whole histories -/

/-- **Present exactly when added and not deleted since** (every model variant).  After any history
    `ops` run from the empty VFS, name `k` is present with contents `b` iff the history contains an
    add (buffer or file) for `k` with contents `b` that returned 0, after which no operation removed
    `k` (no successful delete targeting `k`, no reset).  Because a re-add of a present name fails,
    `b` is the contents of the *first* successful add since the last removal. -/
theorem present_iff_added_not_deleted_since (e : Env) (ops : List Op) (k : Str) (b : Bytes) :
    (run e [] ops).2.get k = some b ↔
      ∃ pre op post, ops = pre ++ op :: post ∧
        AddedOk e (run e [] pre).2 op k b ∧
        ∀ p1 d p2, post = p1 ++ d :: p2 → ¬ DeletedOk e (run e [] (pre ++ op :: p1)).2 d k := by
  have href : ∀ l, abs (run e [] l).2 = specRun e Abs.empty l := fun l => vfs_state_refines_spec e l
  have h0 : (run e [] ops).2.get k = specRun e Abs.empty ops k := congrFun (href ops) k
  rw [h0, specRun_key_iff]
  constructor
  · rintro (⟨h, _⟩ | ⟨pre, op, post, hp, hi, hno⟩)
    · simp [Abs.empty] at h
    · refine ⟨pre, op, post, hp, ?_, ?_⟩
      · rw [← href pre] at hi
        exact (Inserts_iff_AddedOk _ _ _ _ _).1 hi
      · intro p1 d p2 hpost hdel
        have := hno p1 d p2 hpost
        rw [← specRun_append, List.append_assoc, List.singleton_append, ← href] at this
        exact this ((Removes_iff_DeletedOk _ _ _ _).2 hdel)
  · rintro ⟨pre, op, post, hp, hi, hno⟩
    refine Or.inr ⟨pre, op, post, hp, ?_, ?_⟩
    · rw [← href pre]
      exact (Inserts_iff_AddedOk _ _ _ _ _).2 hi
    · intro p1 d p2 hpost hrem
      rw [← specRun_append, List.append_assoc, List.singleton_append, ← href] at hrem
      exact hno p1 d p2 hpost ((Removes_iff_DeletedOk _ _ _ _).1 hrem)

/-- The same as an observation through `mj_containsBufferVFS` (normalising variant): after any
    history, asking for any spelling `n` answers 1 iff some add for the name `FilePath(n)` succeeded
    and the name was not removed since. -/
theorem has_iff_added_not_deleted_since (e : Env) (hn : e.normContains = true) (ops : List Op) (n : Str) :
    (step e (run e [] ops).2 (.has (some n))).1 = .code 1 ↔
      ∃ b pre op post, ops = pre ++ op :: post ∧
        AddedOk e (run e [] pre).2 op (fp1 n) b ∧
        ∀ p1 d p2, post = p1 ++ d :: p2 → ¬ DeletedOk e (run e [] (pre ++ op :: p1)).2 d (fp1 n) := by
  rw [has_iff_present e hn]
  constructor
  · rintro ⟨b, hb⟩
    exact ⟨b, (present_iff_added_not_deleted_since e ops (fp1 n) b).1 hb⟩
  · rintro ⟨b, h⟩
    exact ⟨b, (present_iff_added_not_deleted_since e ops (fp1 n) b).2 h⟩

/-- Raw-lookup variant (partial): the same for spellings that are already normalised. -/
theorem has_iff_added_not_deleted_since_raw_partial (e : Env) (ops : List Op) (n : Str) (h : fp1 n = n) :
    (step e (run e [] ops).2 (.has (some n))).1 = .code 1 ↔
      ∃ b pre op post, ops = pre ++ op :: post ∧
        AddedOk e (run e [] pre).2 op (fp1 n) b ∧
        ∀ p1 d p2, post = p1 ++ d :: p2 → ¬ DeletedOk e (run e [] (pre ++ op :: p1)).2 d (fp1 n) := by
  rw [has_iff_present_raw_partial e _ n h]
  constructor
  · rintro ⟨b, hb⟩
    exact ⟨b, (present_iff_added_not_deleted_since e ops (fp1 n) b).1 hb⟩
  · rintro ⟨b, h⟩
    exact ⟨b, (present_iff_added_not_deleted_since e ops (fp1 n) b).2 h⟩

/-- **Read returns exactly the added bytes**, over histories: if `mj_addBufferVFS(n, b)` returned 0
    at some point and the name was not removed afterwards, then after the whole history a read of
    any spelling `(d, n')` with the same normalised path returns exactly `b` — no matter which
    other adds (including failed re-adds of the same name with other contents), deletes and lookups
    happened in between.  Needs the `FindMount` fix only when the normalised path is empty. -/
theorem read_returns_added_bytes (e : Env) (pre post : List Op) (n : Str) (b : Bytes)
    (d : Option Str) (n' : Str) (hsame : fp2 d n' = fp1 n) (hx : e.exactFirst = true ∨ fp1 n ≠ [])
    (hadd : (step e (run e [] pre).2 (.addBuf n b)).1 = .code 0)
    (hkeep : ∀ p1 o p2, post = p1 ++ o :: p2 →
      ¬ DeletedOk e (run e [] (pre ++ .addBuf n b :: p1)).2 o (fp1 n)) :
    (step e (run e [] (pre ++ .addBuf n b :: post)).2 (.openRead d n')).1 = .opened [b] := by
  have hp : (run e [] (pre ++ .addBuf n b :: post)).2.get (fp1 n) = some b :=
    (present_iff_added_not_deleted_since e _ (fp1 n) b).2
      ⟨pre, .addBuf n b, post, rfl, ⟨rfl, hadd⟩, hkeep⟩
  rw [read_present_exact e _ d n' b (by rw [hsame]; exact hx) (by rw [hsame]; exact hp)]

/-- non-vacuity of `read_returns_added_bytes`: a history with a failed re-add, an unrelated delete
    and a differently spelled read. -/
example :
    (run (Env.fixed []) [] ([.addBuf "q.txt".toList [1]] ++ .addBuf "p\\a.txt".toList [7] ::
      [.addBuf "p/./a.txt".toList [8], .del (some "q.txt".toList), .has (some "p/a.txt".toList),
       .openRead (some "p".toList) "x/../a.txt".toList])).1
    = [.code 0, .code 0, .code 2, .code 0, .code 1, .opened [[7]]] := by decide

end MjProof.C39
