import MjProof.Lemmas.LogCholesky
/-
C47  System-identification inertia parameters are always physical.

Theorems about the model `MjProof.LogChol` (lean/MjProof/Model/LogCholesky.lean) of
`python/mujoco/sysid/_src/model_modifier.py`, instantiated at `ℝ`.  Every theorem is for **all**
`θ ∈ ℝ¹⁰` (no box): the finite box only enters the floating-point correspondence.

Vocabulary (MjProof/Lemmas/LogCholesky.lean): `quad4 J x = xᵀJx`, `quad3 M a = aᵀMa`,
`Mat4.PosDef J := ∀ x ≠ 0, 0 < xᵀJx`, `Orthonormal3 a b c` := the six orthonormality equations,
`quadFull B a` := `aᵀFa` for the symmetric `F` given by `fullinertia = [xx,yy,zz,xy,xz,yz]`,
`pseudo θ := mulTranspose (upperOfTheta θ)` the pseudo-inertia `J = U Uᵀ` built inside `pi_from_theta`.
-/
namespace MjProof.C47
open MjProof.LogChol

/-- The mass returned by `pi_from_theta` is `e^{2α}`, hence positive. -/
theorem mass_eq (θ : Theta ℝ) : (piFromTheta θ).m = Real.exp (2 * θ.alpha) := by
  simp only [piFromTheta, piOfPseudo, mulTranspose, upperOfTheta, real_exp, MjNum.lit, real_ofInt,
    Int.cast_one, one_mul, ← Real.exp_add]
  congr 1; ring

theorem mass_pos (θ : Theta ℝ) : 0 < (piFromTheta θ).m := by
  rw [mass_eq]; exact Real.exp_pos _

/-- `J = U Uᵀ` is symmetric and positive definite: `xᵀJx > 0` for every `x ≠ 0`. -/
theorem pseudoinertia_posdef (θ : Theta ℝ) : (pseudo θ).Symm ∧ (pseudo θ).PosDef :=
  ⟨mulTranspose_symm _, mulTranspose_posDef _ (upperOfTheta_posDiag θ)⟩

/-- `pseudoinertia_from_pi (pi_from_theta θ)` is that same matrix, so the matrix handed to the inverse
    map (and to any consumer of `pi`) is symmetric positive definite. -/
theorem pseudoFromPi_piFromTheta (θ : Theta ℝ) : pseudoFromPi (piFromTheta θ) = pseudo θ :=
  pseudoFromPi_piOfPseudo _ (mulTranspose_symm _)

theorem pseudoFromPi_posdef (θ : Theta ℝ) :
    (pseudoFromPi (piFromTheta θ)).Symm ∧ (pseudoFromPi (piFromTheta θ)).PosDef := by
  rw [pseudoFromPi_piFromTheta]; exact pseudoinertia_posdef θ

/-- The second-moment block `Σ = J[:3,:3]` is positive definite. -/
theorem sigma_posdef (θ : Theta ℝ) : (sigma (pseudo θ)).PosDef :=
  sigma_posDef _ (pseudoinertia_posdef θ).2

/-- The rotational inertia returned by `pi_from_theta` is a symmetric matrix. -/
theorem inertia_symm (θ : Theta ℝ) : (piFromTheta θ).I.Symm := by
  simp [Mat3.Symm, piFromTheta, piOfPseudo, mulTranspose]

/-- **Triangle inequalities in every orthonormal frame** (strict).  For the rotational inertia
    `I_bar` (about the body origin) returned by `pi_from_theta θ` and every orthonormal frame `(a,b,c)` of
    `ℝ³`, the moments `I_v = vᵀ I_bar v` satisfy `I_a + I_b > I_c`; by the symmetry of the hypothesis in
    `(a,b,c)` this gives all three inequalities.  The principal moments are the moments in the
    eigenvector frame of the symmetric matrix `I_bar` (that such a frame exists — the spectral theorem
    — is not part of this statement). -/
theorem triangle_inequalities (θ : Theta ℝ) {a0 a1 a2 b0 b1 b2 c0 c1 c2 : ℝ}
    (h : Orthonormal3 a0 a1 a2 b0 b1 b2 c0 c1 c2) :
    quad3 (piFromTheta θ).I c0 c1 c2 <
      quad3 (piFromTheta θ).I a0 a1 a2 + quad3 (piFromTheta θ).I b0 b1 b2 := by
  have hid := triangle_identity (pseudo θ) h
  have hpos := sigma_posdef θ c0 c1 c2 h.c_ne
  simp only [piFromTheta, pseudo] at *
  linarith

example : Orthonormal3 (3 / 5) (4 / 5) 0 (-4 / 5) (3 / 5) 0 0 0 1 := by
  constructor <;> norm_num

/-- all three triangle inequalities, for every orthonormal frame -/
theorem triangle_inequalities_all (θ : Theta ℝ) {a0 a1 a2 b0 b1 b2 c0 c1 c2 : ℝ}
    (h : Orthonormal3 a0 a1 a2 b0 b1 b2 c0 c1 c2) :
    let I := (piFromTheta θ).I
    quad3 I c0 c1 c2 < quad3 I a0 a1 a2 + quad3 I b0 b1 b2 ∧
    quad3 I a0 a1 a2 < quad3 I b0 b1 b2 + quad3 I c0 c1 c2 ∧
    quad3 I b0 b1 b2 < quad3 I c0 c1 c2 + quad3 I a0 a1 a2 :=
  ⟨triangle_inequalities θ h, triangle_inequalities θ h.rotate,
   triangle_inequalities θ h.rotate.rotate⟩

/-- body frame: `Ixx + Iyy > Izz`, `Iyy + Izz > Ixx`, `Izz + Ixx > Iyy`, and each moment is positive -/
theorem triangle_inequalities_body_frame (θ : Theta ℝ) :
    let I := (piFromTheta θ).I
    I.m22 < I.m00 + I.m11 ∧ I.m00 < I.m11 + I.m22 ∧ I.m11 < I.m22 + I.m00 := by
  have h : Orthonormal3 1 0 0 0 1 0 0 0 1 := by constructor <;> norm_num
  have := triangle_inequalities_all θ h
  simpa [quad3] using this

/-- **Central inertia.**  The `fullinertia` that `apply_body_theta_inertia` writes (inertia about the
    centre of mass `ipos = h/m`, the quantity whose principal moments the MuJoCo compiler checks)
    satisfies the strict triangle inequalities in every orthonormal frame. -/
theorem central_triangle_inequalities (θ : Theta ℝ) {a0 a1 a2 b0 b1 b2 c0 c1 c2 : ℝ}
    (h : Orthonormal3 a0 a1 a2 b0 b1 b2 c0 c1 c2) :
    quadFull (bodyOfTheta θ) c0 c1 c2 <
      quadFull (bodyOfTheta θ) a0 a1 a2 + quadFull (bodyOfTheta θ) b0 b1 b2 := by
  have hm : (pseudo θ).j33 ≠ 0 := by
    have := mass_pos θ
    simp only [piFromTheta, piOfPseudo] at this
    exact this.ne'
  have hs := (pseudoinertia_posdef θ).1
  have hid := central_triangle_identity (pseudo θ) hs hm h
  have hpos := (pseudoinertia_posdef θ).2 c0 c1 c2
    (-((pseudo θ).j03 * c0 + (pseudo θ).j13 * c1 + (pseudo θ).j23 * c2) / (pseudo θ).j33)
    (by have := h.c_ne; tauto)
  rw [← schur_quad _ hs hm] at hpos
  simp only [bodyOfTheta, piFromTheta, pseudo] at *
  linarith

/-- The central inertia is positive definite: every central moment `vᵀFv` along a unit
    vector `v = a` (given with a completion `(a,b,c)` to an orthonormal frame) is positive. -/
theorem central_moment_pos (θ : Theta ℝ) {a0 a1 a2 b0 b1 b2 c0 c1 c2 : ℝ}
    (h : Orthonormal3 a0 a1 a2 b0 b1 b2 c0 c1 c2) :
    0 < quadFull (bodyOfTheta θ) a0 a1 a2 := by
  have h1 := central_triangle_inequalities θ h
  have h2 := central_triangle_inequalities θ h.rotate.rotate
  linarith

/-- **Uniqueness of the Cholesky factor for the explicit recurrence**: the reverse Cholesky recurrence
    returns `U` on `U Uᵀ` for every upper-triangular `U` with positive diagonal. -/
theorem chol_unique (U : Upper ℝ) (h : U.PosDiag) : cholUpper (mulTranspose U) = some U :=
  cholUpper_mulTranspose U h

example : (Upper.mk 2 (-1) 3 0 1 5 (-7) (1 / 2) 4 3 : Upper ℝ).PosDiag := by
  simp only [Upper.PosDiag]; norm_num

/-- **Round trip**: `theta_from_pseudoinertia (pseudoinertia_from_pi (pi_from_theta θ)) = θ`, in
    particular the Cholesky decomposition never fails (no `LinAlgError`) in exact arithmetic. -/
theorem theta_roundtrip (θ : Theta ℝ) : roundTrip θ = some θ := by
  simp only [roundTrip, thetaFromPseudo]
  rw [pseudoFromPi_piFromTheta, pseudo, cholUpper_mulTranspose _ (upperOfTheta_posDiag θ)]
  simp [thetaOfUpper_upperOfTheta]

/-- the direct inverse (without the detour through `pi`) -/
theorem theta_roundtrip_direct (θ : Theta ℝ) : thetaFromPseudo (pseudo θ) = some θ := by
  simp only [thetaFromPseudo, pseudo]
  rw [cholUpper_mulTranspose _ (upperOfTheta_posDiag θ)]
  simp [thetaOfUpper_upperOfTheta]

end MjProof.C47
