import MjProof.Lemmas.LogCholesky
/-
C47  System-identification inertia parameters are always physical.

Theorems about the model `MjProof.LogChol` (lean/MjProof/Model/LogCholesky.lean) of
`python/mujoco/sysid/_src/model_modifier.py`, instantiated at `ℝ`.  Every theorem is for **all**
`θ ∈ ℝ¹⁰` (no box): the finite box only enters the floating-point correspondence.

Vocabulary (MjProof/Lemmas/LogCholesky.lean): `quad4 J x = xᵀJx`, `quad3 M a = aᵀMa`,
`Mat4.PosDef J := ∀ x ≠ 0, 0 < xᵀJx`, `Orthonormal3 a b c` := the six orthonormality equations,
`quadFull B a` := `aᵀFa` for the symmetric `F` given by `fullinertia = [xx,yy,zz,xy,xz,yz]`,
`pseudo θ := mulTranspose (upperOfTheta θ)` the pseudo-inertia `J = U Uᵀ` built inside `pi_from_theta`.
-/
namespace MjProof.C47
open MjProof.LogChol

/-- The mass returned by `pi_from_theta` is `e^{2α}`, hence positive. -/
theorem mass_eq (θ : Theta ℝ) : (piFromTheta θ).m = Real.exp (2 * θ.alpha) := by
  simp only [piFromTheta, piOfPseudo, mulTranspose, upperOfTheta, real_exp, MjNum.lit, real_ofInt,
    Int.cast_one, one_mul, ← Real.exp_add]
  congr 1; ring

theorem mass_pos (θ : Theta ℝ) : 0 < (piFromTheta θ).m := by
  rw [mass_eq]; exact Real.exp_pos _

/-- `J = U Uᵀ` is symmetric and positive definite: `xᵀJx > 0` for every `x ≠ 0`. -/
theorem pseudoinertia_posdef (θ : Theta ℝ) : (pseudo θ).Symm ∧ (pseudo θ).PosDef :=
  ⟨mulTranspose_symm _, mulTranspose_posDef _ (upperOfTheta_posDiag θ)⟩

/-- `pseudoinertia_from_pi (pi_from_theta θ)` is that same matrix, so the matrix handed to the inverse
    map (and to any consumer of `pi`) is symmetric positive definite. -/
theorem pseudoFromPi_piFromTheta (θ : Theta ℝ) : pseudoFromPi (piFromTheta θ) = pseudo θ :=
  pseudoFromPi_piOfPseudo _ (mulTranspose_symm _)

theorem pseudoFromPi_posdef (θ : Theta ℝ) :
    (pseudoFromPi (piFromTheta θ)).Symm ∧ (pseudoFromPi (piFromTheta θ)).PosDef := by
  rw [pseudoFromPi_piFromTheta]; exact pseudoinertia_posdef θ

/-- The second-moment block `Σ = J[:3,:3]` is positive definite. -/
theorem sigma_posdef (θ : Theta ℝ) : (sigma (pseudo θ)).PosDef :=
  sigma_posDef _ (pseudoinertia_posdef θ).2

/-- The rotational inertia returned by `pi_from_theta` is a symmetric matrix. -/
theorem inertia_symm (θ : Theta ℝ) : (piFromTheta θ).I.Symm := by
  simp [Mat3.Symm, piFromTheta, piOfPseudo, mulTranspose]

/-- **Triangle inequalities in every orthonormal frame** (strict).  For the rotational inertia
    `I_bar` (about the body origin) returned by `pi_from_theta θ` and every orthonormal frame `(a,b,c)` of
    `ℝ³`, the moments `I_v = vᵀ I_bar v` satisfy `I_a + I_b > I_c`; by the symmetry of the hypothesis in
    `(a,b,c)` this gives all three inequalities.  The principal moments are the moments in the
    eigenvector frame of the symmetric matrix `I_bar` (that such a frame exists — the spectral theorem
    — is not part of this statement). -/
theorem triangle_inequalities (θ : Theta ℝ) {a0 a1 a2 b0 b1 b2 c0 c1 c2 : ℝ}
    (h : Orthonormal3 a0 a1 a2 b0 b1 b2 c0 c1 c2) :
    quad3 (piFromTheta θ).I c0 c1 c2 <
      quad3 (piFromTheta θ).I a0 a1 a2 + quad3 (piFromTheta θ).I b0 b1 b2 := by
  have hid := triangle_identity (pseudo θ) h
  have hpos := sigma_posdef θ c0 c1 c2 h.c_ne
  simp only [piFromTheta, pseudo] at *
  linarith

example : Orthonormal3 (3 / 5) (4 / 5) 0 (-4 / 5) (3 / 5) 0 0 0 1 := by
  constructor <;> norm_num

/-- all three triangle inequalities, for every orthonormal frame -/
theorem triangle_inequalities_all (θ : Theta ℝ) {a0 a1 a2 b0 b1 b2 c0 c1 c2 : ℝ}
    (h : Orthonormal3 a0 a1 a2 b0 b1 b2 c0 c1 c2) :
    let I := (piFromTheta θ).I
    quad3 I c0 c1 c2 < quad3 I a0 a1 a2 + quad3 I b0 b1 b2 ∧
    quad3 I a0 a1 a2 < quad3 I b0 b1 b2 + quad3 I c0 c1 c2 ∧
    quad3 I b0 b1 b2 < quad3 I c0 c1 c2 + quad3 I a0 a1 a2 :=
  ⟨triangle_inequalities θ h, triangle_inequalities θ h.rotate,
   triangle_inequalities θ h.rotate.rotate⟩

/-- body frame: `Ixx + Iyy > Izz`, `Iyy + Izz > Ixx`, `Izz + Ixx > Iyy`, and each moment is positive -/
theorem triangle_inequalities_body_frame (θ : Theta ℝ) :
    let I := (piFromTheta θ).I
    I.m22 < I.m00 + I.m11 ∧ I.m00 < I.m11 + I.m22 ∧ I.m11 < I.m22 + I.m00 := by
  have h : Orthonormal3 1 0 0 0 1 0 0 0 1 := by constructor <;> norm_num
  have := triangle_inequalities_all θ h
  simpa [quad3] using this

/-- **Central inertia.**  The `fullinertia` that `apply_body_theta_inertia` writes (inertia about the
    centre of mass `ipos = h/m`, the quantity whose principal moments the MuJoCo compiler checks)
    satisfies the strict triangle inequalities in every orthonormal frame. -/
theorem central_triangle_inequalities (θ : Theta ℝ) {a0 a1 a2 b0 b1 b2 c0 c1 c2 : ℝ}
    (h : Orthonormal3 a0 a1 a2 b0 b1 b2 c0 c1 c2) :
    quadFull (bodyOfTheta θ) c0 c1 c2 <
      quadFull (bodyOfTheta θ) a0 a1 a2 + quadFull (bodyOfTheta θ) b0 b1 b2 := by
  have hm : (pseudo θ).j33 ≠ 0 := by
    have := mass_pos θ
    simp only [piFromTheta, piOfPseudo] at this
    exact this.ne'
  have hs := (pseudoinertia_posdef θ).1
  have hid := central_triangle_identity (pseudo θ) hs hm h
  have hpos := (pseudoinertia_posdef θ).2 c0 c1 c2
    (-((pseudo θ).j03 * c0 + (pseudo θ).j13 * c1 + (pseudo θ).j23 * c2) / (pseudo θ).j33)
    (by have := h.c_ne; tauto)
  rw [← schur_quad _ hs hm] at hpos
  simp only [bodyOfTheta, piFromTheta, pseudo] at *
  linarith

/-- The central inertia is positive definite: every central moment `vᵀFv` along a unit
    vector `v = a` (given with a completion `(a,b,c)` to an orthonormal frame) is positive. -/
theorem central_moment_pos (θ : Theta ℝ) {a0 a1 a2 b0 b1 b2 c0 c1 c2 : ℝ}
    (h : Orthonormal3 a0 a1 a2 b0 b1 b2 c0 c1 c2) :
    0 < quadFull (bodyOfTheta θ) a0 a1 a2 := by
  have h1 := central_triangle_inequalities θ h
  have h2 := central_triangle_inequalities θ h.rotate.rotate
  linarith

/-- **Uniqueness of the Cholesky factor for the explicit recurrence**: the reverse Cholesky recurrence
    returns `U` on `U Uᵀ` for every upper-triangular `U` with positive diagonal. -/
theorem chol_unique (U : Upper ℝ) (h : U.PosDiag) : cholUpper (mulTranspose U) = some U :=
  cholUpper_mulTranspose U h

example : (Upper.mk 2 (-1) 3 0 1 5 (-7) (1 / 2) 4 3 : Upper ℝ).PosDiag := by
  simp only [Upper.PosDiag]; norm_num

/-- **Round trip**: `theta_from_pseudoinertia (pseudoinertia_from_pi (pi_from_theta θ)) = θ`, in
    particular the Cholesky decomposition never fails (no `LinAlgError`) in exact arithmetic. -/
theorem theta_roundtrip (θ : Theta ℝ) : roundTrip θ = some θ := by
  simp only [roundTrip, thetaFromPseudo]
  rw [pseudoFromPi_piFromTheta, pseudo, cholUpper_mulTranspose _ (upperOfTheta_posDiag θ)]
  simp [thetaOfUpper_upperOfTheta]

/-- the direct inverse (without the detour through `pi`) -/
theorem theta_roundtrip_direct (θ : Theta ℝ) : thetaFromPseudo (pseudo θ) = some θ := by
  simp only [thetaFromPseudo, pseudo]
  rw [cholUpper_mulTranspose _ (upperOfTheta_posDiag θ)]
  simp [thetaOfUpper_upperOfTheta]

/-! ### applying θ to a body: what is left in the spec, and what the compiler then produces

`CompileEnv` collects everything the mass-property part of `mjCBody::Compile` reads and the Python code
does not write: the geoms' inertial `geo`, `mjuu_fullInertia` (`eig`), the orientation alternative,
`boundmass`/`boundinertia`, `balanceinertia`.  The theorems quantify over **all** of it, over the
caller's `compiler.inertiafromgeom` (`s.ifg`: false / true / auto) and over the body's previous inertial
fields (`s.body`: with or without an explicit inertial, full or diagonal). -/

/-- `apply_body_theta_inertia` succeeds exactly when its query compile (`_infer_inertial`: the caller's
    spec compiled under `inertiafromgeom = AUTO`) does, and then leaves `inertiafromgeom = AUTO` and the
    inertial fields `specOfTheta θ` — whatever the option and the fields were before. -/
theorem applyTheta_eq (env : CompileEnv ℝ) (s : SpecState ℝ) (θ : Theta ℝ) :
    applyTheta env s θ =
      (compileBody env .auto s.body).map
        (fun m => { ifg := .auto, body := specOfTheta θ, model := some m }) := by
  simp only [applyTheta, applyProg, inferInertial, inferProg, run, exec, IFG.ofCode?]
  cases h : compileBody env .auto s.body with
  | error e => simp [Except.map]
  | ok m => simp [Except.map, withModel, specOfTheta]

theorem applyTheta_state (env : CompileEnv ℝ) (s s1 : SpecState ℝ) (θ : Theta ℝ)
    (h : applyTheta env s θ = .ok s1) : s1.ifg = .auto ∧ s1.body = specOfTheta θ := by
  rw [applyTheta_eq] at h
  cases hc : compileBody env .auto s.body with
  | error e => simp [hc, Except.map] at h
  | ok m =>
    simp only [hc, Except.map, Except.ok.injEq] at h
    subst h
    exact ⟨rfl, rfl⟩

/-- the principal moments `d` returned by the compiler's eigen-decomposition are the moments of the
    central inertia in some orthonormal frame (its eigenvector frame) -/
def FrameMoments (θ : Theta ℝ) (d : V3 ℝ) : Prop :=
  ∃ a0 a1 a2 b0 b1 b2 c0 c1 c2 : ℝ, Orthonormal3 a0 a1 a2 b0 b1 b2 c0 c1 c2 ∧
    d.x = quadFull (bodyOfTheta θ) a0 a1 a2 ∧ d.y = quadFull (bodyOfTheta θ) b0 b1 b2 ∧
    d.z = quadFull (bodyOfTheta θ) c0 c1 c2

/-- frame moments are positive and satisfy the strict triangle inequalities: neither the compiler's
    "mass and inertia cannot be negative" nor its `A + B >= C` check (error, or `balanceinertia`
    rewriting the moments) can fire on them. -/
theorem FrameMoments.physical {θ : Theta ℝ} {d : V3 ℝ} (h : FrameMoments θ d) :
    0 < d.x ∧ 0 < d.y ∧ 0 < d.z ∧ d.z < d.x + d.y ∧ d.y < d.x + d.z ∧ d.x < d.y + d.z := by
  obtain ⟨a0, a1, a2, b0, b1, b2, c0, c1, c2, ho, hx, hy, hz⟩ := h
  have t1 := central_triangle_inequalities θ ho
  have t2 := central_triangle_inequalities θ ho.rotate
  have t3 := central_triangle_inequalities θ ho.rotate.rotate
  rw [hx, hy, hz]
  refine ⟨?_, ?_, ?_, ?_, ?_, ?_⟩ <;> linarith

/-- **The compiler keeps the explicit inertial written by `apply_body_theta_inertia`** whenever
    `inertiafromgeom` is not `TRUE` or the body has no geom with mass: mass `m`, `ipos = h/m`, and the
    principal frame / moments of the written `fullinertia`; no error, no `balanceinertia` rewrite. -/
theorem compile_specOfTheta (env : CompileEnv ℝ) (ifg : IFG) (θ : Theta ℝ) (q : Q4 ℝ) (d : V3 ℝ)
    (hsrc : ifg ≠ .on ∨ env.geo = none)
    (hq : env.ialtQuat = true)
    (heig : env.eig (fullOfBody (bodyOfTheta θ)) = some (q, d))
    (hd : FrameMoments θ d)
    (hbm : env.boundmass ≤ (bodyOfTheta θ).mass)
    (hbi : env.boundinertia ≤ d.x ∧ env.boundinertia ≤ d.y ∧ env.boundinertia ≤ d.z) :
    compileBody env ifg (specOfTheta θ) =
      .ok { mass := (bodyOfTheta θ).mass,
            ipos := { x := (bodyOfTheta θ).ipos0, y := (bodyOfTheta θ).ipos1, z := (bodyOfTheta θ).ipos2 },
            iquat := some q, inertia := d } := by
  obtain ⟨p0, p1, p2, t0, t1, t2⟩ := hd.physical
  obtain ⟨b0, b1, b2⟩ := hbi
  have hm : 0 < (bodyOfTheta θ).mass := by
    have := mass_pos θ
    simpa [bodyOfTheta, bodyOfPi] using this
  have hfin : finishBody env
      { mass := (bodyOfTheta θ).mass,
        ipos := some { x := (bodyOfTheta θ).ipos0, y := (bodyOfTheta θ).ipos1, z := (bodyOfTheta θ).ipos2 },
        iquat := some q, inertia := d } =
      .ok { mass := (bodyOfTheta θ).mass,
            ipos := { x := (bodyOfTheta θ).ipos0, y := (bodyOfTheta θ).ipos1, z := (bodyOfTheta θ).ipos2 },
            iquat := some q, inertia := d } := by
    simp only [finishBody, stdMax, MjNum.lit, real_ofInt, Int.cast_zero]
    rw [if_neg (not_lt.mpr hbm), if_neg (not_lt.mpr b0), if_neg (not_lt.mpr b1), if_neg (not_lt.mpr b2)]
    have n0 : ¬ (bodyOfTheta θ).mass < 0 := not_lt.mpr hm.le
    have n1 : ¬ d.x < 0 := not_lt.mpr p0.le
    have n2 : ¬ d.y < 0 := not_lt.mpr p1.le
    have n3 : ¬ d.z < 0 := not_lt.mpr p2.le
    have m1 : ¬ d.x + d.y < d.z := not_lt.mpr t0.le
    have m2 : ¬ d.x + d.z < d.y := not_lt.mpr t1.le
    have m3 : ¬ d.y + d.z < d.x := not_lt.mpr t2.le
    simp [n0, n1, n2, n3, m1, m2, m3]
  simp only [compileBody, specOfTheta, hq, heig, truthy, MjNum.lit, real_ofInt, Int.cast_zero, real_beq,
    Option.isSome_some, Bool.not_true, Bool.and_false, Option.map_some, useGeom, Option.isNone_some,
    Bool.false_and, Bool.or_false, Bool.false_or, decide_true, Bool.not_true, Bool.or_self]
  rcases hsrc with h | h
  · cases ifg
    · simpa using hfin
    · exact absurd rfl h
    · simpa using hfin
  · rw [h]
    cases ifg <;> simpa using hfin

/-- **Apply then compile gives the mass properties of `pi_from_theta θ`**, for every value of the
    caller's `compiler.inertiafromgeom`, every previous inertial of the body, every geom inertial
    (`env.geo`, including none) and with or without `balanceinertia`: the final compile (under the option
    value the call left in the spec) returns mass `m`, `ipos = h/m` and the principal frame / moments of
    the central inertia `I_bar + m·skew(h/m)²`. -/
theorem apply_compile_same (env : CompileEnv ℝ) (s s1 : SpecState ℝ) (θ : Theta ℝ) (q : Q4 ℝ) (d : V3 ℝ)
    (happly : applyTheta env s θ = .ok s1)
    (hq : env.ialtQuat = true)
    (heig : env.eig (fullOfBody (bodyOfTheta θ)) = some (q, d))
    (hd : FrameMoments θ d)
    (hbm : env.boundmass ≤ (bodyOfTheta θ).mass)
    (hbi : env.boundinertia ≤ d.x ∧ env.boundinertia ≤ d.y ∧ env.boundinertia ≤ d.z) :
    compileBody env s1.ifg s1.body =
      .ok { mass := (piFromTheta θ).m,
            ipos := { x := (piFromTheta θ).h0 / (piFromTheta θ).m, y := (piFromTheta θ).h1 / (piFromTheta θ).m,
                      z := (piFromTheta θ).h2 / (piFromTheta θ).m },
            iquat := some q, inertia := d } := by
  obtain ⟨h1, h2⟩ := applyTheta_state env s s1 θ happly
  rw [h1, h2, compile_specOfTheta env .auto θ q d (Or.inl (by decide)) hq heig hd hbm hbi]
  rfl

theorem frameMoments_body_frame (θ : Theta ℝ) :
    FrameMoments θ { x := (bodyOfTheta θ).fxx, y := (bodyOfTheta θ).fyy, z := (bodyOfTheta θ).fzz } :=
  ⟨1, 0, 0, 0, 1, 0, 0, 0, 1, by constructor <;> norm_num, by simp [quadFull], by simp [quadFull],
    by simp [quadFull]⟩

/-- non-vacuity of `apply_compile_same` on the scenario it is about: the caller's spec has
    `inertiafromgeom = TRUE`, the body has a mass-carrying geom (`geo = some _`) and no explicit
    inertial; every hypothesis is satisfiable for every `θ`. -/
example (θ : Theta ℝ) : ∃ (env : CompileEnv ℝ) (s s1 : SpecState ℝ) (q : Q4 ℝ) (d : V3 ℝ),
    s.ifg = .on ∧ env.geo.isSome = true ∧ applyTheta env s θ = .ok s1 ∧ env.ialtQuat = true ∧
    env.eig (fullOfBody (bodyOfTheta θ)) = some (q, d) ∧ FrameMoments θ d ∧
    env.boundmass ≤ (bodyOfTheta θ).mass ∧
    (env.boundinertia ≤ d.x ∧ env.boundinertia ≤ d.y ∧ env.boundinertia ≤ d.z) := by
  let qid : Q4 ℝ := { w := 1, x := 0, y := 0, z := 0 }
  let z3 : V3 ℝ := { x := 0, y := 0, z := 0 }
  let g : Compiled ℝ := { mass := 1, ipos := z3, iquat := some qid, inertia := { x := 1, y := 1, z := 1 } }
  let env : CompileEnv ℝ :=
    { geo := some g, eig := fun f => some (qid, { x := f.xx, y := f.yy, z := f.zz }), normq := id,
      bpos := z3, bquat := qid, ialtQuat := true, altq := qid, boundmass := 0, boundinertia := 0,
      balance := false }
  let s : SpecState ℝ :=
    { ifg := .on,
      body := { explicitinertial := false, mass := 0, ipos := none, iquat := some qid, inertia := z3,
                full := none },
      model := none }
  have hfm := frameMoments_body_frame θ
  obtain ⟨p0, p1, p2, -, -, -⟩ := hfm.physical
  have hm : 0 < (bodyOfTheta θ).mass := by
    have := mass_pos θ
    simpa [bodyOfTheta, bodyOfPi] using this
  refine ⟨env, s, { ifg := .auto, body := specOfTheta θ, model := some g }, qid, _, rfl, rfl, ?_, rfl, rfl,
    hfm, hm.le, p0.le, p1.le, p2.le⟩
  rw [applyTheta_eq]
  simp [compileBody, finishBody, useGeom, stdMax, truthy, Except.map, env, s, g, z3, MjNum.lit]
  norm_num


/-- Why the write `spec.compiler.inertiafromgeom = AUTO` must survive until the final compile: under
    `inertiafromgeom = TRUE` a body with a mass-carrying geom compiles to the *geoms'* inertial, whatever
    explicit inertial was written. -/
theorem compile_under_true_uses_geoms (env : CompileEnv ℝ) (θ : Theta ℝ) (g : Compiled ℝ) (q : Q4 ℝ) (d : V3 ℝ)
    (hq : env.ialtQuat = true) (hg : env.geo = some g)
    (heig : env.eig (fullOfBody (bodyOfTheta θ)) = some (q, d)) :
    compileBody env .on (specOfTheta θ) =
      finishBody env { mass := g.mass, ipos := some g.ipos, iquat := g.iquat, inertia := g.inertia } := by
  simp [compileBody, specOfTheta, hq, hg, heig, truthy, useGeom]

/-- the orientation-alternative error: if the body's inertial orientation was given as
    euler / axisangle / xyaxes / zaxis (`ialt.type ≠ QUAT`, which `_infer_inertial` does not reset), the
    spec left by `apply_body_theta_inertia` does not compile. -/
theorem compile_specOfTheta_orientation_alt (env : CompileEnv ℝ) (ifg : IFG) (θ : Theta ℝ)
    (hq : env.ialtQuat = false) :
    compileBody env ifg (specOfTheta θ) = .error .fullAndOrientation := by
  simp [compileBody, specOfTheta, hq]

/-- `pi_from_body` on the compiled result recovers `pi_from_theta θ` exactly, provided the
    reconstruction `R diag(inertia) Rᵀ` reproduces the written `fullinertia` (correctness of the
    compiler's eigen-decomposition, given as hypothesis). -/
theorem pi_from_body_apply (θ : Theta ℝ) :
    let B := bodyOfTheta θ
    piOfCompiled B.mass { x := B.ipos0, y := B.ipos1, z := B.ipos2 }
      { m00 := B.fxx, m01 := B.fxy, m02 := B.fxz, m10 := B.fxy, m11 := B.fyy, m12 := B.fyz,
        m20 := B.fxz, m21 := B.fyz, m22 := B.fzz } = piFromTheta θ := by
  have hm : (piFromTheta θ).m ≠ 0 := (mass_pos θ).ne'
  have hs := inertia_symm θ
  obtain ⟨s10, s20, s21⟩ := hs
  cases hp : piFromTheta θ with
  | mk m h0 h1 h2 I =>
  cases I with
  | mk m00 m01 m02 m10 m11 m12 m20 m21 m22 =>
  simp only [hp] at hm s10 s20 s21
  subst s10 s20 s21
  simp only [bodyOfTheta, hp, bodyOfPi, piOfCompiled, Pi.mk.injEq, Mat3.mk.injEq]
  refine ⟨trivial, ?_, ?_, ?_, ?_, ?_, ?_, ?_, ?_, ?_, ?_, ?_, ?_⟩ <;> field_simp <;> ring

/-- Helper / informational only (not a clause of C47, which speaks about the target body): when the
    caller's option already was `AUTO`, every other body compiles exactly as before the call (the option
    is the only spec-global thing the call writes). -/
theorem other_body_unchanged_of_auto (env env' : CompileEnv ℝ) (s s1 : SpecState ℝ) (θ : Theta ℝ)
    (b' : SpecBody ℝ) (h0 : s.ifg = .auto) (happly : applyTheta env s θ = .ok s1) :
    compileBody env' s1.ifg b' = compileBody env' s.ifg b' := by
  rw [(applyTheta_state env s s1 θ happly).1, h0]

end MjProof.C47
