/-
C01  Simulation is a deterministic function of the integration state (DESIGN.md §5.C01).

The programs are the call skeletons that translate/skeleton.py regenerates from engine_forward.c /
engine_inverse.c on every run (Gen/Pipeline.lean), inlined by `Pipeline.prog`; the field list and the
integration-state fields are regenerated from mjdata.h / mjxmacro.h / mjtype.h / engine_support.c
(Gen/DataFields.lean); the stage footprints are the hand-written table of Model/Footprint.lean, validated
against the real engine by checks/c01.py.  The general theorems (`Prog.abs_sound`, `Prog.frame_sound`) hold
for every interpretation of the stages respecting the table, every model-constant environment, every loop
fuel; the facts about the concrete programs are evaluated by the kernel (`decide +kernel`) on the abstract
analysis, which covers all guard valuations at once.
-/
import MjProof.Lemmas.Flow
import MjProof.Model.Pipeline

namespace MjProof.C01
open MjProof.Prog MjProof.Footprint MjProof.Pipeline Grp

/-! ### the generated inputs are as the model expects -/

/-- every member of `struct mjData_` found in the working tree is classified into field groups -/
theorem classification_covers_all_fields :
    Gen.DataFields.fieldNames.all (fun f => !(grp f).isEmpty) = true := by decide +kernel

/-- the conditionally meaningful members and their flags are classified (or are model-level conditions) -/
theorem cond_fields_classified :
    condFields.all (fun c => c.2.all (fun f => !(grp f.2).isEmpty)) = true := by decide +kernel

/-- the integration-state groups of the model are exactly the groups of the fields that
    `mjSTATE_INTEGRATION` selects through `mj_stateElemPtr` in the working tree -/
theorem state_groups_are_integration_state :
    subset (Gen.DataFields.integrationStateFields.flatMap grp) stateGroups = true ∧
    subset stateGroups (Gen.DataFields.integrationStateFields.flatMap grp) = true := by decide +kernel

theorem translator_refused_nothing : Gen.Pipeline.refused = [] := by decide +kernel

/-- every atomic stage the skeletons call has a footprint, except the user control callback (which the
    configurations below assume absent) -/
theorem all_stages_have_footprints :
    Gen.Pipeline.stageKeys.all (fun k => k == "cb:mjcb_control" || (stageNoSleep k).isSome) = true := by
  decide +kernel

/-- the chosen number of inlining passes leaves no call to a translated function -/
theorem no_calls_left :
    hasInlinable Gen.Pipeline.table mjStep = false ∧ hasInlinable Gen.Pipeline.table mjForward = false ∧
    hasInlinable Gen.Pipeline.table mjInverse = false := by decide +kernel

/-! ### second layer: the constraint stage is analysed from its translated body

`mj_fwdConstraint` (with the static `warmstart` inlined) and `mj_invConstraint` are atomic stages of the pipeline
programs above; their entries in the footprint table are not taken on faith: the translated bodies
(`Gen.Pipeline.subTable`, regenerated on every run) are analysed against the footprints of their LEAF calls (the
solvers, `mj_constraintUpdate`, `mj_mulJacVec`, …), for every solver the engine accepts and every value of the other
option flags (warm start on / off, islands or monolithic, dense / sparse, noslip on / off are all joined), and the result
must refine the table entry.  A branch that stops determining an array before a leaf reads it (e.g. the cold start not
clearing `efc_force`, which the dual solvers iterate on in place) breaks `fwdConstraint_refines_footprint`. -/

/-- a group listed in `scalarGroups` is the group of exactly one member of `struct mjData_`, so that overwriting that
    member determines the group -/
theorem singleton_groups_have_one_member :
    scalarGroups.all (fun g => (Gen.DataFields.fieldNames.filter (fun f => decide (g ∈ grp f))).length == 1) = true := by
  decide +kernel

/-- every leaf call of the second layer has a footprint (the island dispatch for every solver) -/
theorem all_leaves_have_footprints :
    (none :: solverNames.map some).all (fun s =>
      Gen.Pipeline.subStageKeys.all (fun k => ((ctxS s).stage k).isSome)) = true := by decide +kernel

theorem no_sub_calls_left :
    hasInlinable Gen.Pipeline.subTable mjFwdConstraint = false ∧
    hasInlinable Gen.Pipeline.subTable mjInvConstraint = false := by decide +kernel

/-- the translated bodies are the functions they claim to be (a missing function would leave a bare call) -/
theorem sub_programs_are_bodies :
    stageKeys mjFwdConstraint ≠ ["mj_fwdConstraint"] ∧ stageKeys mjInvConstraint ≠ ["mj_invConstraint"] := by
  decide +kernel

/-- `a` (the analysis of a stage body) refines the stage footprint `fp`: nothing unknown, reads ⊆ `fp.R` (+ the function's
    own locals), writes ⊆ `fp.W` (+ locals and the balanced stack), and every group of `fp.K` — except `empty`, the
    groups that have no elements in the analysed case — is determined on every normal exit -/
def refines (fp : Option (Footprint Grp)) (a : AFlow Grp) (empty : List Grp) : Bool :=
  match fp, a.killN with
  | some fp, some k =>
    a.bad.isEmpty && subset a.rbw (fp.R ++ [locals]) && subset a.may (fp.W ++ [locals, stack]) &&
      subset (diff fp.K empty) k
  | _, _ => false

/-- arrays with `d->nefc` elements: empty when there are no constraints -/
def nefcSized : List Grp := [efc_force, efc_b]

/-- the configuration "solver `s`, `nefc ≠ 0` is `b`" -/
def conCfg (s : Option String) (b : Bool) : Cfg := { solver := s, extra := [("nefc", b)] }

/-- **mj_fwdConstraint respects its table footprint**, for each of the three solvers, with and without constraint
    rows, and for every value of the remaining flags: its inputs are the position / velocity / smooth-dynamics groups
    and `qacc_warmstart`; `qfrc_constraint`, `efc_force`, `efc_b`, `solver_niter`, `qacc` are determined. -/
theorem fwdConstraint_refines_footprint :
    solverNames.all (fun s =>
      refines (stageNoSleep "mj_fwdConstraint") (analyzeS (conCfg (some s) true) mjFwdConstraint) [] &&
      refines (stageNoSleep "mj_fwdConstraint") (analyzeS (conCfg (some s) false) mjFwdConstraint) nefcSized) = true := by
  decide +kernel

/-- **mj_invConstraint respects its table footprint** (no solver involved) -/
theorem invConstraint_refines_footprint :
    refines (stageNoSleep "mj_invConstraint") (analyzeS (conCfg none true) mjInvConstraint) [] = true ∧
    refines (stageNoSleep "mj_invConstraint") (analyzeS (conCfg none false) mjInvConstraint) nefcSized = true := by
  decide +kernel

/-- non-vacuity: without fixing the solver the island dispatch is the union of the dual and the primal solvers, and
    the analysis does report the island copies among the inputs — the per-solver statement above is needed -/
theorem fwdConstraint_unknown_solver_reads_island_copies :
    iacc ∈ (analyzeS (conCfg none true) mjFwdConstraint).rbw := by decide +kernel

/-- the dual solvers' dependency is real in the model: PGS reads `efc_force` (its initial iterate) -/
theorem pgs_reads_efc_force : efc_force ∈ solverDual.R := by decide

/-! ### what the pipeline reads before it determines it -/

/-- groups that are equal in any two `mjData` of one model that are at rest (between API calls):
    allocation constants, an empty stack, and — for models without `mjENBL_SLEEP` — the all-awake sleep
    bookkeeping; plus the function locals of the skeletons, which are not part of `mjData` at all. -/
def restGroups : List Grp := [memc, stack, locals, sleep]

/-- **mj_forward** (no sleeping, any other flags): everything read before being determined is integration
    state (or an allocation constant / the empty stack / a function local). -/
theorem forward_inputs_subset_state :
    (analyze {} mjForward).bad = [] ∧
    subset (analyze {} mjForward).rbw (stateGroups ++ [memc, stack, locals]) = true := by decide +kernel

/-- **mj_step**, all four integrators and the unknown-integrator join (no sleeping): inputs ⊆ integration
    state ∪ rest groups. -/
theorem step_inputs_subset_state :
    [none, some "mjINT_EULER", some "mjINT_RK4", some "mjINT_IMPLICIT", some "mjINT_IMPLICITFAST"].all
      (fun i => (analyze { integrator := i } mjStep).bad.isEmpty &&
        subset (analyze { integrator := i } mjStep).rbw (stateGroups ++ restGroups)) = true := by decide +kernel

/-- **mj_inverse** (no sleeping): inputs ⊆ integration state ∪ rest ∪ {qacc} ∪ {actuation}.
    `_partial`: the documented input set is state ∪ {qacc}; the analysis surfaces one more dependency —
    `mj_sensorAcc` reads `actuator_force` / `qfrc_actuator`, which inverse dynamics does not recompute, so
    actuator-force sensors report the force of the last *forward* call (confirmed on the real engine by
    checks/c01.py, finding `c01:inverse-stale-actuator-force`). -/
theorem inverse_inputs_subset_state_partial :
    (analyze {} mjInverse).bad = [] ∧
    subset (analyze {} mjInverse).rbw (stateGroups ++ restGroups ++ [Grp.qacc, actuation]) = true := by
  decide +kernel

/-- without that sensor dependency nothing else is missing: `actuation` really is in the analysed set -/
theorem inverse_reads_actuation : actuation ∈ (analyze {} mjInverse).rbw := by decide +kernel

/-- **with sleeping enabled** the derived arrays of sleeping trees are latent state: the analysis (with the
    footprints `stageSleep`) finds position- and velocity-derived groups among the inputs of mj_forward.
    `_partial`: only copies that carry those groups (mj_copyData) are covered. -/
theorem forward_sleep_inputs_partial :
    (analyze { sleeping := true } mjForward).bad = [] ∧
    subset (analyze { sleeping := true } mjForward).rbw (stateGroups ++ restGroups ++ latentGroups) = true ∧
    pos ∈ (analyze { sleeping := true } mjForward).rbw := by decide +kernel

/-! ### what the pipeline determines -/

/-- the groups compared by the oracle after mj_forward -/
def forwardOutputs : List Grp :=
  [pos, ePos, sensPos, vel, subtreevel, eVel, sensVel, actuation, smooth, cfrc, efc_force, csol, efc_b, Grp.qacc, rnepost,
   sensAcc]

theorem forward_determines_outputs :
    ∃ k, (analyze {} mjForward).killN = some k ∧ subset forwardOutputs k = true := by
  refine ⟨_, rfl, ?_⟩; decide +kernel

/-- the next state is determined by mj_step for every integrator -/
def stepStateOutputs : List Grp := [qpos, qvel, act, time, history, qacc_warmstart, plugin_state]

theorem step_determines_state :
    [none, some "mjINT_EULER", some "mjINT_RK4", some "mjINT_IMPLICIT", some "mjINT_IMPLICITFAST"].all
      (fun i => match (analyze { integrator := i } mjStep).killN with
        | some k => subset stepStateOutputs k
        | none => false) = true := by decide +kernel

def inverseOutputs : List Grp := [pos, vel, cfrc, efc_force, qfrc_inverse, sensPos, sensVel, sensAcc]

theorem inverse_determines_outputs :
    ∃ k, (analyze {} mjInverse).killN = some k ∧ subset inverseOutputs k = true := by
  refine ⟨_, rfl, ?_⟩; decide +kernel

/-! ### non-interference -/

section NI
variable {V : Type}

/-- **Non-interference** for any inlined program `p` and configuration `c`: for ANY interpretation `S` of the
    atomic stages / guard leaves that respects the footprint table, ANY model-constant environment `M` that
    extends the configuration's knowledge, ANY fuel: two data that agree on a set `I` of groups containing the
    analysed read-before-write set end the same way, still agree on `I`, and — when the run falls through —
    agree on every group the analysis reports as determined. -/
theorem run_noninterference (c : Cfg) (p : Prog) (fuel : Nat) (M : MEnv) (S : Sem (Grp → V))
    (hK : Extends M S (known c)) (hR : Respects (ctx c.sleeping) S p) (hbad : (analyze c p).bad = [])
    (I : List Grp) (hI : subset (analyze c p).rbw I = true) (d d' : Grp → V) (hag : Agree I d d') :
    (run fuel M S [] p d).1 = (run fuel M S [] p d').1 ∧
    Agree I (run fuel M S [] p d).2 (run fuel M S [] p d').2 ∧
    ((run fuel M S [] p d).1 = .norm → ∀ k, (analyze c p).killN = some k →
      Agree k (run fuel M S [] p d).2 (run fuel M S [] p d').2) := by
  have h := abs_sound (C := ctx c.sleeping) (K := known c) fuel hK p [] [] (EnvLe.refl _) hR hbad I
    (subset_iff.mp hI) d d' hag
  refine ⟨h.out, h.agree, ?_⟩
  intro hn k hk
  obtain ⟨k', hk', hag'⟩ := h.norm hn
  have : k' = k := by
    have := hk'.symm.trans hk
    exact Option.some.inj this
  exact this ▸ hag'

/-- the same for a second-layer program (context `ctxS`, which resolves the island dispatch by the solver) -/
theorem sub_noninterference (c : Cfg) (p : Prog) (fuel : Nat) (M : MEnv) (S : Sem (Grp → V))
    (hK : Extends M S (known c)) (hR : Respects (ctxS c.solver) S p) (hbad : (analyzeS c p).bad = [])
    (I : List Grp) (hI : subset (analyzeS c p).rbw I = true) (d d' : Grp → V) (hag : Agree I d d') :
    (run fuel M S [] p d).1 = (run fuel M S [] p d').1 ∧
    Agree I (run fuel M S [] p d).2 (run fuel M S [] p d').2 ∧
    ((run fuel M S [] p d).1 = .norm → ∀ k, (analyzeS c p).killN = some k →
      Agree k (run fuel M S [] p d).2 (run fuel M S [] p d').2) := by
  have h := abs_sound (C := ctxS c.solver) (K := known c) fuel hK p [] [] (EnvLe.refl _) hR hbad I
    (subset_iff.mp hI) d d' hag
  refine ⟨h.out, h.agree, ?_⟩
  intro hn k hk
  obtain ⟨k', hk', hag'⟩ := h.norm hn
  have : k' = k := by
    have := hk'.symm.trans hk
    exact Option.some.inj this
  exact this ▸ hag'

/-- what the constraint stage reads / determines according to the footprint table -/
def fwdConstraintInputs : List Grp := [pos, vel, smooth, qacc_warmstart, memc, stack, locals]
def fwdConstraintOutputs : List Grp := [cfrc, efc_force, csol, efc_b, Grp.qacc]

/-- **mj_fwdConstraint is a function of its table inputs** (models with constraint rows, each solver, any warm-start /
    island / noslip / sparsity setting, any content of the rest of the mjData — stale arena bytes included): for every
    interpretation of the leaf calls respecting the leaf footprints, two data that agree on the inputs end the same
    way and agree on the constraint forces, `efc_b`, `solver_niter` and `qacc`. -/
theorem fwdConstraint_deterministic (s : String) (hs : s ∈ solverNames)
    (fuel : Nat) (M : MEnv) (S : Sem (Grp → V))
    (hK : Extends M S (known (conCfg (some s) true))) (hR : Respects (ctxS (some s)) S mjFwdConstraint)
    (d d' : Grp → V) (hag : Agree fwdConstraintInputs d d') :
    (run fuel M S [] mjFwdConstraint d).1 = (run fuel M S [] mjFwdConstraint d').1 ∧
    ((run fuel M S [] mjFwdConstraint d).1 = .norm →
      Agree fwdConstraintOutputs (run fuel M S [] mjFwdConstraint d).2 (run fuel M S [] mjFwdConstraint d').2) := by
  have hall := List.all_eq_true.mp fwdConstraint_refines_footprint s hs
  simp only [Bool.and_eq_true] at hall
  have h1 := hall.1
  unfold refines at h1
  have hfp : stageNoSleep "mj_fwdConstraint" = some
      { R := [pos, vel, smooth, qacc_warmstart] ++ mem
        W := [cfrc, efc_force, cstate, csol, efc_b] ++ islandGroups ++ [Grp.qacc, diag]
        K := [cfrc, efc_force, csol, efc_b, Grp.qacc] } := rfl
  rw [hfp] at h1
  cases hk : (analyzeS (conCfg (some s) true) mjFwdConstraint).killN with
  | none => simp [hk] at h1
  | some k =>
    simp only [hk, Bool.and_eq_true, List.isEmpty_iff] at h1
    obtain ⟨⟨⟨hbad, hrbw⟩, _⟩, hkill⟩ := h1
    have h := sub_noninterference (conCfg (some s) true) mjFwdConstraint fuel M S hK hR hbad
      fwdConstraintInputs hrbw d d' hag
    refine ⟨h.1, fun hn => ?_⟩
    exact (h.2.2 hn k hk).mono (subset_iff.mp hkill)

/-- the hypothesis `Respects` is satisfiable: an interpretation that overwrites a written group with a
    constant respects a footprint that determines it -/
example : Respects (ctx false) (V := Nat)
    { atom := fun _ d g => if g = rnepost then 0 else d g, guard := fun _ _ => false }
    (.atom "d->flg_rnepost = 0" [] ["flg_rnepost"] ["flg_rnepost"]) := by
  refine ⟨?_, ?_⟩
  · intro d g hg
    have : g ≠ rnepost := by
      intro h; subst h; exact hg (by decide)
    simp [this]
  · intro d d' _ g hg _
    have : g = rnepost := by
      have : g ∈ [rnepost] := hg
      simpa using this
    simp [this]

/-- the hypothesis `Extends` is satisfiable: take the known values, default the rest -/
example : Extends (D := Grp → Nat)
    { mconst := fun s => ((known {}).mconst s).getD false, label := fun s => ((known {}).label s).getD "" }
    { atom := fun _ d => d, guard := fun _ _ => false } (known {}) := by
  refine ⟨?_, ?_, ?_⟩
  · intro s b h; simp [h]
  · intro s l h; simp [h]
  · intro s b h; simp [known] at h

/-- **mj_forward is a function of the integration state** (models without sleeping, no control callback):
    two data that agree on the integration state (and on the allocation constants / the empty stack, as any two
    `mjData` of one model at rest do) produce the same outcome and agree afterwards on the state and on every
    output group of `forwardOutputs`, whatever else they contained. -/
theorem forward_deterministic (fuel : Nat) (M : MEnv) (S : Sem (Grp → V))
    (hK : Extends M S (known {})) (hR : Respects (ctx false) S mjForward)
    (d d' : Grp → V) (hag : Agree (stateGroups ++ [memc, stack, locals]) d d') :
    (run fuel M S [] mjForward d).1 = (run fuel M S [] mjForward d').1 ∧
    ((run fuel M S [] mjForward d).1 = .norm →
      Agree (stateGroups ++ forwardOutputs) (run fuel M S [] mjForward d).2 (run fuel M S [] mjForward d').2) := by
  have h := run_noninterference {} mjForward fuel M S hK hR forward_inputs_subset_state.1
    (stateGroups ++ [memc, stack, locals]) forward_inputs_subset_state.2 d d' hag
  refine ⟨h.1, ?_⟩
  intro hn
  obtain ⟨k, hk, hsub⟩ := forward_determines_outputs
  have hk' := h.2.2 hn k hk
  intro g hg
  rcases List.mem_append.mp hg with h1 | h1
  · exact h.2.1 g (List.mem_append.mpr (Or.inl h1))
  · exact hk' g (subset_iff.mp hsub g h1)

/-- **mj_step is a function of the integration state**, for each integrator (models without sleeping). -/
theorem step_deterministic (integ : Option String)
    (hi : integ ∈ [none, some "mjINT_EULER", some "mjINT_RK4", some "mjINT_IMPLICIT", some "mjINT_IMPLICITFAST"])
    (fuel : Nat) (M : MEnv) (S : Sem (Grp → V))
    (hK : Extends M S (known { integrator := integ })) (hR : Respects (ctx false) S mjStep)
    (d d' : Grp → V) (hag : Agree (stateGroups ++ restGroups) d d') :
    (run fuel M S [] mjStep d).1 = (run fuel M S [] mjStep d').1 ∧
    ((run fuel M S [] mjStep d).1 = .norm →
      Agree (stateGroups ++ restGroups) (run fuel M S [] mjStep d).2 (run fuel M S [] mjStep d').2) := by
  have hall := List.all_eq_true.mp step_inputs_subset_state integ hi
  simp only [Bool.and_eq_true, List.isEmpty_iff] at hall
  have h := run_noninterference { integrator := integ } mjStep fuel M S hK hR hall.1
    (stateGroups ++ restGroups) hall.2 d d' hag
  exact ⟨h.1, fun _ => h.2.1⟩

/-- **mj_inverse** is a function of the integration state, `qacc` and — `_partial`, see
    `inverse_inputs_subset_state_partial` — the actuator forces left by the last forward call. -/
theorem inverse_deterministic_partial (fuel : Nat) (M : MEnv) (S : Sem (Grp → V))
    (hK : Extends M S (known {})) (hR : Respects (ctx false) S mjInverse)
    (d d' : Grp → V) (hag : Agree (stateGroups ++ restGroups ++ [Grp.qacc, actuation]) d d') :
    (run fuel M S [] mjInverse d).1 = (run fuel M S [] mjInverse d').1 ∧
    ((run fuel M S [] mjInverse d).1 = .norm →
      Agree inverseOutputs (run fuel M S [] mjInverse d).2 (run fuel M S [] mjInverse d').2) := by
  have h := run_noninterference {} mjInverse fuel M S hK hR inverse_inputs_subset_state_partial.1
    _ inverse_inputs_subset_state_partial.2 d d' hag
  refine ⟨h.1, ?_⟩
  intro hn
  obtain ⟨k, hk, hsub⟩ := inverse_determines_outputs
  exact (h.2.2 hn k hk).mono (subset_iff.mp hsub)

/-! ### the three ways of making the second mjData -/

/-- `mj_copyState(…, mjSTATE_INTEGRATION)` / `mj_getState` + `mj_setState` at the level of groups: the
    integration-state groups come from `src`, everything else is what the receiver already held
    (C26 proves that the real functions copy exactly the fields the state table designates). -/
def copyState (src dst : Grp → V) : Grp → V := fun g => if g ∈ stateGroups then src g else dst g

/-- the receiver's history does not matter: after copying the integration state into ANY data `dst` of the
    same model at rest, mj_forward gives the outputs it gives on `src`. -/
theorem forward_after_copyState (fuel : Nat) (M : MEnv) (S : Sem (Grp → V))
    (hK : Extends M S (known {})) (hR : Respects (ctx false) S mjForward)
    (src dst : Grp → V) (hrest : Agree [memc, stack, locals] src dst) :
    (run fuel M S [] mjForward src).1 = (run fuel M S [] mjForward (copyState src dst)).1 ∧
    ((run fuel M S [] mjForward src).1 = .norm →
      Agree (stateGroups ++ forwardOutputs) (run fuel M S [] mjForward src).2
        (run fuel M S [] mjForward (copyState src dst)).2) := by
  apply forward_deterministic fuel M S hK hR
  intro g hg
  rcases List.mem_append.mp hg with h1 | h1
  · simp [copyState, h1]
  · by_cases hs : g ∈ stateGroups
    · simp [copyState, hs]
    · simp only [copyState, hs, if_false]; exact hrest g h1

/-- same for mj_step (every integrator); a full copy (`mj_copyData`) is the special case `dst = src`. -/
theorem step_after_copyState (integ : Option String)
    (hi : integ ∈ [none, some "mjINT_EULER", some "mjINT_RK4", some "mjINT_IMPLICIT", some "mjINT_IMPLICITFAST"])
    (fuel : Nat) (M : MEnv) (S : Sem (Grp → V))
    (hK : Extends M S (known { integrator := integ })) (hR : Respects (ctx false) S mjStep)
    (src dst : Grp → V) (hrest : Agree restGroups src dst) :
    (run fuel M S [] mjStep src).1 = (run fuel M S [] mjStep (copyState src dst)).1 ∧
    ((run fuel M S [] mjStep src).1 = .norm →
      Agree (stateGroups ++ restGroups) (run fuel M S [] mjStep src).2
        (run fuel M S [] mjStep (copyState src dst)).2) := by
  apply step_deterministic integ hi fuel M S hK hR
  intro g hg
  rcases List.mem_append.mp hg with h1 | h1
  · simp [copyState, h1]
  · by_cases hs : g ∈ stateGroups
    · simp [copyState, hs]
    · simp only [copyState, hs, if_false]; exact hrest g h1

end NI

end MjProof.C01
