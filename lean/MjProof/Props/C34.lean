import MjProof.Lemmas.Name
/-
C34  Name lookup inverts naming for every object type.

All theorems are about the executable model `MjProof/Model/Name.lean` (hash in `UInt64`, linear-probing table
build of `namelist`, probe loop of `mj_name2id`, subtract-from-the-end offsets of `_getnumadr`, prefix-sum
layout of `CopyNames`).  They hold for every number of objects, every byte content of the names and every hash
function with `hash s n < n` (so in particular for colliding names), and are stated

  * generically (`…_of_orders`): for any `_getnumadr` chain / `CopyNames` order / `nnames_map` sum satisfying
    `OrdersOK`, any `mjLOAD_MULTIPLE ≥ 1`;
  * for the tree (`MjProof.Name.Tree`): instantiated with the tables regenerated from the source
    (`MjProof/Gen/NameOrder.lean`), where `OrdersOK` is discharged by `decide` on the generated tables
    (`orders_equal`).  If the source orders stop agreeing, this file no longer builds.
-/
namespace MjProof.C34
open MjProof.Name MjProof.Gen

/-! ### what the proofs need from the orders and parameters -/

/-- agreement of the three places that enumerate the object types -/
structure OrdersOK (gchain : List Entry) (cchain sumFields : List Nat) : Prop where
  /-- `_getnumadr` visits the `name_*adr` fields in the order in which `CopyNames` lays the segments out -/
  same : gchain.map (·.adrField) = cchain
  /-- each `_getnumadr` block uses the count that is the dimension of its `name_*adr` array -/
  cntadr : ∀ e ∈ gchain, e.cntField = e.adrField
  nodup : cchain.Nodup
  /-- `nnames_map` sums exactly the counts of the fields `CopyNames` writes -/
  sum : sumFields.Perm cchain

structure ParamsOK (P : Params) : Prop where
  lm : 1 ≤ P.lm
  hash : ∀ s n, 0 < n → P.hash s n < n

/-! ### internal: structure of the compiled tables -/

theorem sumCnt_eq (lists : Nat → List Bytes) (m : CModel) (hm : m.cnt = fun f => (lists f).length) :
    ∀ es : List Entry, (∀ e ∈ es, e.cntField = e.adrField) →
      sumCnt m es = sumCounts lists (es.map (·.adrField))
  | [], _ => rfl
  | e :: es, h => by
    have he : e.cntField = e.adrField := h e (by simp)
    simp [sumCnt, sumCounts, hm, he, sumCnt_eq lists m hm es (fun x hx => h x (List.mem_cons_of_mem _ hx))]

/-- the compiled model, explicitly -/
theorem copyNames_some {P : Params} {gchain : List Entry} {cchain sumFields : List Nat}
    (hP : ParamsOK P) (hO : OrdersOK gchain cchain sumFields) (mname : Bytes) (lists : Nat → List Bytes) :
    ∃ as mp bl, copyChain P lists cchain (mname.length + 1) = some (as, mp, bl) ∧
      copyNames P cchain sumFields mname lists = some
        { cnt := fun f => (lists f).length
          adr := lookupAdr as
          nnames_map := P.lm * sumCounts lists cchain
          names_map := mp
          names := mname ++ 0 :: bl } := by
  obtain ⟨⟨as, mp, bl⟩, hc⟩ := copyChain_total P hP.lm hP.hash lists cchain (mname.length + 1)
  obtain ⟨hlen, _⟩ := copyChain_spec P hP.lm hP.hash lists cchain _ as mp bl hc
  refine ⟨as, mp, bl, hc, ?_⟩
  have hs : sumCounts lists sumFields = sumCounts lists cchain := sumCounts_perm lists hO.sum
  simp [copyNames, hc, hs, hlen]

/-- everything the lookups use, for the block `e` selected by `_getnumadr` -/
theorem lookup_setup {P : Params} {gchain : List Entry} {cchain sumFields : List Nat}
    (hP : ParamsOK P) (hO : OrdersOK gchain cchain sumFields) {mname : Bytes} {lists : Nat → List Bytes}
    {m : CModel} (hm : copyNames P cchain sumFields mname lists = some m)
    {t : Int} {e : Entry} {mapadr : Int}
    (hsel : getnumadr P.lm m t gchain m.nnames_map = (some e, mapadr)) :
    m.cnt e.cntField = (lists e.adrField).length ∧
    mapadr = ((segOffset P.lm lists cchain e.adrField : Nat) : Int) ∧
    (∃ seg, Inv (lists e.adrField) (fun s => P.hash s (P.lm * (lists e.adrField).length))
              (P.lm * (lists e.adrField).length) (lists e.adrField).length seg ∧
            View m.names_map seg (segOffset P.lm lists cchain e.adrField) (P.lm * (lists e.adrField).length)) ∧
    AdrOK m.names (m.adr e.adrField) (lists e.adrField) := by
  obtain ⟨as, mp, bl, hc, hm'⟩ := copyNames_some hP hO mname lists
  rw [hm] at hm'
  have hmeq := Option.some.inj hm'
  have h_cnt : m.cnt = fun f => (lists f).length := by rw [hmeq]
  have h_adr : m.adr = lookupAdr as := by rw [hmeq]
  have h_nmap : m.nnames_map = P.lm * sumCounts lists cchain := by rw [hmeq]
  have h_map : m.names_map = mp := by rw [hmeq]
  have h_names : m.names = mname ++ 0 :: bl := by rw [hmeq]
  obtain ⟨pre, post, hg, hma, _⟩ := getnumadr_some _ _ _ _ _ _ _ hsel
  have hcnt : ∀ x ∈ gchain, x.cntField = x.adrField := hO.cntadr
  have hcc : cchain = pre.map (·.adrField) ++ e.adrField :: post.map (·.adrField) := by
    rw [← hO.same, hg]; simp
  have hnd := hO.nodup
  rw [hcc] at hnd
  have hnotin : e.adrField ∉ pre.map (·.adrField) := by
    intro hmem
    have := (List.nodup_append.1 hnd).2.2 _ hmem _ (List.mem_cons_self)
    exact this rfl
  have hoff : segOffset P.lm lists cchain e.adrField = P.lm * sumCounts lists (pre.map (·.adrField)) := by
    rw [hcc]; exact segOffset_append _ _ _ _ _ hnotin
  have hsuf : sumCnt m (e :: post) = sumCounts lists ((e :: post).map (·.adrField)) :=
    sumCnt_eq lists m h_cnt (e :: post) (fun x hx => hcnt x (by rw [hg]; exact List.mem_append_right _ hx))
  have hmem : e.adrField ∈ cchain := by rw [hcc]; simp
  obtain ⟨_, hspec⟩ := copyChain_spec P hP.lm hP.hash lists cchain _ as mp bl hc
  obtain ⟨⟨seg, I, hv⟩, hadr⟩ := hspec _ hmem
  refine ⟨?_, ?_, ⟨seg, I, by rw [h_map]; exact hv⟩, ?_⟩
  · rw [h_cnt, hcnt e (by rw [hg]; simp)]
  · rw [hma, hsuf, hoff, h_nmap, hcc, sumCounts_append, List.map_cons]
    simp only [sumCounts, Nat.mul_add]
    omega
  · have := hadr (mname ++ [0]) [] (by simp)
    rw [h_names, h_adr]
    simpa [List.append_assoc] using this

theorem eqSpec_of_adrOK {m : CModel} {f : Nat} {names : List Bytes} (hA : AdrOK m.names (m.adr f) names)
    (hnul : ∀ s ∈ names, (0 : UInt8) ∉ s) {q : Bytes} (hq0 : (0 : UInt8) ∉ q) :
    EqSpec names q (eqAtField m f q) := by
  intro j s hj _
  obtain ⟨a, rest, h1, h2⟩ := hA.2 j s hj
  have hs0 : (0 : UInt8) ∉ s := hnul s (List.mem_of_getElem? hj)
  have hal : a ≤ m.names.length := by
    rcases Nat.lt_or_ge m.names.length a with h | h
    · rw [List.drop_of_length_le (by omega)] at h2
      simp at h2
    · exact h
  simp [eqAtField, h1, cstrEqAt, hal, h2, strncmpEq_spec q s rest hq0 hs0]

/-! ### generic property theorems -/

/-- **Segment offsets agree.**  The offset `_getnumadr` computes by subtracting from the end of `names_map`
    equals the prefix sum at which `CopyNames` placed the segment of the selected field. -/
theorem segment_offsets_agree_of_orders {P : Params} {gchain : List Entry} {cchain sumFields : List Nat}
    (hP : ParamsOK P) (hO : OrdersOK gchain cchain sumFields) {mname : Bytes} {lists : Nat → List Bytes}
    {m : CModel} (hm : copyNames P cchain sumFields mname lists = some m)
    {t : Int} {e : Entry} {mapadr : Int}
    (hsel : getnumadr P.lm m t gchain m.nnames_map = (some e, mapadr)) :
    mapadr = ((segOffset P.lm lists cchain e.adrField : Nat) : Int) ∧
    m.cnt e.cntField = (lists e.adrField).length :=
  ⟨(lookup_setup hP hO hm hsel).2.1, (lookup_setup hP hO hm hsel).1⟩

/-- **Lookup inverts build.**  If the non-empty names of the selected list are pairwise distinct (and, being C
    strings, contain no NUL), then `mj_name2id` of the `i`-th name is `i`. -/
theorem lookup_build_of_orders {P : Params} {gchain : List Entry} {cchain sumFields : List Nat}
    (hP : ParamsOK P) (hO : OrdersOK gchain cchain sumFields) {mname : Bytes} {lists : Nat → List Bytes}
    {m : CModel} (hm : copyNames P cchain sumFields mname lists = some m)
    {t : Int} {e : Entry} {mapadr : Int}
    (hsel : getnumadr P.lm m t gchain m.nnames_map = (some e, mapadr))
    (hnul : ∀ s ∈ lists e.adrField, (0 : UInt8) ∉ s) (hd : DistinctNamed (lists e.adrField))
    {i : Nat} {q : Bytes} (hi : (lists e.adrField)[i]? = some q) (hq : q ≠ []) :
    name2id P gchain m t q = some (i : Int) := by
  obtain ⟨hcnt, hma, ⟨seg, I, hv⟩, hA⟩ := lookup_setup hP hO hm hsel
  have hil : i < (lists e.adrField).length := by
    rcases Nat.lt_or_ge i (lists e.adrField).length with h | h
    · exact h
    · rw [List.getElem?_eq_none h] at hi; cases hi
  have hpos : 0 < P.lm * (lists e.adrField).length := Nat.mul_pos hP.lm (by omega)
  have hq0 : (0 : UInt8) ∉ q := hnul q (List.mem_of_getElem? hi)
  have hE := eqSpec_of_adrOK hA hnul hq0
  unfold name2id
  rw [hsel]
  simp only [hcnt]
  rw [if_neg (by omega), hma]
  exact probe_found I hv hE hd hi hq (hP.hash q _ hpos)

/-- **Absent strings.**  `mj_name2id` returns −1 for every string that is not the name of an object of the
    selected type: the empty string, proper prefixes/extensions of names, strings colliding with names in
    the hash, … -/
theorem lookup_absent_of_orders {P : Params} {gchain : List Entry} {cchain sumFields : List Nat}
    (hP : ParamsOK P) (hO : OrdersOK gchain cchain sumFields) {mname : Bytes} {lists : Nat → List Bytes}
    {m : CModel} (hm : copyNames P cchain sumFields mname lists = some m)
    {t : Int} {e : Entry} {mapadr : Int}
    (hsel : getnumadr P.lm m t gchain m.nnames_map = (some e, mapadr))
    (hnul : ∀ s ∈ lists e.adrField, (0 : UInt8) ∉ s)
    {q : Bytes} (hq0 : (0 : UInt8) ∉ q) (habs : q = [] ∨ q ∉ lists e.adrField) :
    name2id P gchain m t q = some (-1) := by
  obtain ⟨hcnt, hma, ⟨seg, I, hv⟩, hA⟩ := lookup_setup hP hO hm hsel
  have hE := eqSpec_of_adrOK hA hnul hq0
  unfold name2id
  rw [hsel]
  simp only [hcnt]
  by_cases h0 : P.lm * (lists e.adrField).length = 0
  · rw [if_pos h0]
  · rw [if_neg h0, hma]
    refine probe_absent I hv hE ?_ (hP.hash q _ (Nat.pos_of_ne_zero h0))
    intro j s hj hs hsq
    rcases habs with h | h
    · exact hs (hsq.trans h)
    · exact h (hsq ▸ List.mem_of_getElem? hj)

/-- a type that is no case label of `_getnumadr` has no names -/
theorem lookup_unknown_type {P : Params} {gchain : List Entry} (m : CModel) {t : Int}
    (ht : ∀ e ∈ gchain, e.cases.contains t = false) (q : Bytes) (id : Int) :
    name2id P gchain m t q = some (-1) ∧ id2name P gchain m t id = some none := by
  have h := getnumadr_none P.lm m t gchain m.nnames_map ht
  unfold name2id id2name
  generalize getnumadr P.lm m t gchain m.nnames_map = r at h
  obtain ⟨r1, r2⟩ := r
  simp only at h
  subst h
  exact ⟨rfl, rfl⟩

/-- `mj_name2id` is defined (no out-of-range read, the probe loop ends) for every query -/
theorem name2id_total_of_orders {P : Params} {gchain : List Entry} {cchain sumFields : List Nat}
    (hP : ParamsOK P) (hO : OrdersOK gchain cchain sumFields) {mname : Bytes} {lists : Nat → List Bytes}
    {m : CModel} (hm : copyNames P cchain sumFields mname lists = some m)
    {t : Int} {e : Entry} {mapadr : Int}
    (hsel : getnumadr P.lm m t gchain m.nnames_map = (some e, mapadr))
    (hnul : ∀ s ∈ lists e.adrField, (0 : UInt8) ∉ s) (hd : DistinctNamed (lists e.adrField))
    {q : Bytes} (hq0 : (0 : UInt8) ∉ q) :
    ∃ r, name2id P gchain m t q = some r := by
  by_cases h : q = [] ∨ q ∉ lists e.adrField
  · exact ⟨_, lookup_absent_of_orders hP hO hm hsel hnul hq0 h⟩
  · have hne : q ≠ [] := fun x => h (Or.inl x)
    have hin : q ∈ lists e.adrField := Classical.not_not.1 (fun x => h (Or.inr x))
    obtain ⟨i, hi⟩ := List.getElem?_of_mem hin
    exact ⟨_, lookup_build_of_orders hP hO hm hsel hnul hd hi hne⟩

/-- **mj_id2name.**  For the selected list, `mj_id2name(id)` is the `id`-th name if `id` is in range and that
    name is non-empty, and NULL otherwise; it never reads out of range. -/
theorem id2name_eq_of_orders {P : Params} {gchain : List Entry} {cchain sumFields : List Nat}
    (hP : ParamsOK P) (hO : OrdersOK gchain cchain sumFields) {mname : Bytes} {lists : Nat → List Bytes}
    {m : CModel} (hm : copyNames P cchain sumFields mname lists = some m)
    {t : Int} {e : Entry} {mapadr : Int}
    (hsel : getnumadr P.lm m t gchain m.nnames_map = (some e, mapadr))
    (hnul : ∀ s ∈ lists e.adrField, (0 : UInt8) ∉ s) (id : Int) :
    id2name P gchain m t id =
      some (if 0 ≤ id then ((lists e.adrField)[id.toNat]?).filter (fun s => !s.isEmpty) else none) := by
  obtain ⟨hcnt, _, _, hA⟩ := lookup_setup hP hO hm hsel
  unfold id2name
  rw [hsel]
  simp only [hcnt]
  by_cases hr : 0 ≤ id ∧ id < ((lists e.adrField).length : Int)
  · rw [if_pos hr, if_pos hr.1]
    have hk : id.toNat < (lists e.adrField).length := by omega
    have hs : (lists e.adrField)[id.toNat]? = some (lists e.adrField)[id.toNat] := List.getElem?_eq_getElem hk
    obtain ⟨a, rest, h1, h2⟩ := hA.2 _ _ hs
    have hs0 : (0 : UInt8) ∉ (lists e.adrField)[id.toNat] := hnul _ (List.getElem_mem hk)
    have hget : m.names[a]? = ((lists e.adrField)[id.toNat] ++ 0 :: rest)[0]? := by
      rw [← h2, List.getElem?_drop]; simp
    rw [h1, hs]
    simp only
    generalize (lists e.adrField)[id.toNat] = s at *
    cases s with
    | nil => simp [hget, Option.filter]
    | cons c cs =>
      have hc : c ≠ 0 := fun h => hs0 (by simp [h])
      have := readCStr_spec (c :: cs) rest hs0
      rw [List.cons_append] at this
      simp [hget, hc, h2, this, Option.filter]
  · rw [if_neg hr]
    by_cases h0 : 0 ≤ id
    · rw [if_pos h0]
      have : (lists e.adrField).length ≤ id.toNat := by omega
      rw [List.getElem?_eq_none this]; rfl
    · rw [if_neg h0]

/-- **NULL exactly for unnamed objects and out-of-range ids.** -/
theorem id2name_none_iff_of_orders {P : Params} {gchain : List Entry} {cchain sumFields : List Nat}
    (hP : ParamsOK P) (hO : OrdersOK gchain cchain sumFields) {mname : Bytes} {lists : Nat → List Bytes}
    {m : CModel} (hm : copyNames P cchain sumFields mname lists = some m)
    {t : Int} {e : Entry} {mapadr : Int}
    (hsel : getnumadr P.lm m t gchain m.nnames_map = (some e, mapadr))
    (hnul : ∀ s ∈ lists e.adrField, (0 : UInt8) ∉ s) (id : Int) :
    id2name P gchain m t id = some none ↔
      (id < 0 ∨ ((lists e.adrField).length : Int) ≤ id ∨ (lists e.adrField)[id.toNat]? = some []) := by
  rw [id2name_eq_of_orders hP hO hm hsel hnul id]
  by_cases h0 : 0 ≤ id
  · rw [if_pos h0]
    rcases Nat.lt_or_ge id.toNat (lists e.adrField).length with hk | hk
    · rw [List.getElem?_eq_getElem hk]
      generalize (lists e.adrField)[id.toNat] = s
      cases s with
      | nil => simp [Option.filter]
      | cons c cs =>
        simp [Option.filter]
        omega
    · rw [List.getElem?_eq_none hk]
      simp [Option.filter]
      omega
  · rw [if_neg h0]
    simp
    omega

/-- **Inversion.**  `mj_name2id(mj_id2name(id)) = id` for every named object (distinct names). -/
theorem name2id_id2name_of_orders {P : Params} {gchain : List Entry} {cchain sumFields : List Nat}
    (hP : ParamsOK P) (hO : OrdersOK gchain cchain sumFields) {mname : Bytes} {lists : Nat → List Bytes}
    {m : CModel} (hm : copyNames P cchain sumFields mname lists = some m)
    {t : Int} {e : Entry} {mapadr : Int}
    (hsel : getnumadr P.lm m t gchain m.nnames_map = (some e, mapadr))
    (hnul : ∀ s ∈ lists e.adrField, (0 : UInt8) ∉ s) (hd : DistinctNamed (lists e.adrField))
    {id : Int} {s : Bytes} (h : id2name P gchain m t id = some (some s)) :
    name2id P gchain m t s = some id := by
  rw [id2name_eq_of_orders hP hO hm hsel hnul id] at h
  by_cases h0 : 0 ≤ id
  · rw [if_pos h0] at h
    have h := Option.some.inj h
    obtain ⟨hs, hne⟩ := Option.filter_eq_some_iff.1 h
    have hne' : s ≠ [] := by
      intro x; subst x; simp at hne
    have := lookup_build_of_orders hP hO hm hsel hnul hd hs hne'
    rw [this]
    congr 1
    omega
  · rw [if_neg h0] at h
    cases h

/-- **Probe termination (insert).**  With `mjLOAD_MULTIPLE ≥ 1` every insertion of `namelist` finds a free
    slot within `map_size` steps (the load factor stays below 1 while inserting), no write leaves `names_map`,
    and the model is always built. -/
theorem probe_terminates_of_orders {P : Params} {gchain : List Entry} {cchain sumFields : List Nat}
    (hP : ParamsOK P) (hO : OrdersOK gchain cchain sumFields) (mname : Bytes) (lists : Nat → List Bytes) :
    (∀ names : List Bytes, ∃ seg, namelistMap P names = some seg ∧ seg.length = P.lm * names.length) ∧
    ∃ m, copyNames P cchain sumFields mname lists = some m := by
  refine ⟨fun names => ?_, ?_⟩
  · obtain ⟨seg, h, I⟩ := namelistMap_inv P hP.lm hP.hash names
    exact ⟨seg, h, I.len⟩
  · obtain ⟨as, mp, bl, _, h⟩ := copyNames_some hP hO mname lists
    exact ⟨_, h⟩

/-- **Load factor.**  With `mjLOAD_MULTIPLE ≥ 2` the finished segment of a non-empty list still has a free
    slot (at most half of the slots are used), so every probe sequence of `mj_name2id` ends at a free slot
    or at a match before it wraps around. -/
theorem free_slot_remains {P : Params} (hP : ParamsOK P) (h2 : 2 ≤ P.lm) (names : List Bytes) (hne : names ≠ []) :
    ∃ seg, namelistMap P names = some seg ∧ ∃ p, p < seg.length ∧ seg[p]? = some (-1) := by
  obtain ⟨seg, h, I⟩ := namelistMap_inv P hP.lm hP.hash names
  refine ⟨seg, h, exists_empty I.cnt ?_⟩
  rw [I.len]
  have : 0 < names.length := List.length_pos_iff.2 hne
  calc names.length < 2 * names.length := by omega
    _ ≤ P.lm * names.length := Nat.mul_le_mul_right _ h2

/-! ### the tree: generated tables -/

/-- **Orders equal** (decided on the tables regenerated from the source): `_getnumadr`, `CopyNames` and the
    `nnames_map` sum enumerate the same fields consistently. -/
theorem orders_equal : OrdersOK Tree.chain NameOrder.copyNamesChain NameOrder.makeModelSum where
  same := by decide
  cntadr := by decide
  nodup := by decide
  sum := by decide

/-- every `#define mjLOAD_MULTIPLE` has the same value, and it is at least 2 (load factor ≤ ½) -/
theorem load_multiple_consistent : ∀ v ∈ NameOrder.loadMultiples, v = Tree.params.lm ∧ 2 ≤ v := by decide

theorem tree_params_ok : ParamsOK Tree.params where
  lm := by decide
  hash := fun s _ hn => hashString_lt _ _ s hn

/-- the block `_getnumadr` enters for a type does not depend on the model -/
def selectEntry (t : Int) : List Entry → Option Entry
  | [] => none
  | e :: es => if e.cases.contains t then some e else selectEntry t es

theorem getnumadr_fst (lm : Nat) (m : CModel) (t : Int) : ∀ (chain : List Entry) (a : Int),
    (getnumadr lm m t chain a).1 = selectEntry t chain
  | [], _ => rfl
  | e :: es, a => by
    by_cases h : t ∈ e.cases
    · simp [getnumadr, selectEntry, h]
    · simp [getnumadr, selectEntry, h, getnumadr_fst lm m t es a]

/-- every case label of the tree's `_getnumadr` selects its own block (labels are not shadowed), and every
    field written by `CopyNames` is reachable through some label -/
theorem labels_select : (∀ e ∈ Tree.chain, ∀ t ∈ e.cases, selectEntry t Tree.chain = some e) ∧
    (∀ f ∈ NameOrder.copyNamesChain, ∃ e ∈ Tree.chain, e.adrField = f ∧ e.cases ≠ []) := by decide

theorem lookup_build {mname : Bytes} {lists : Nat → List Bytes} {m : CModel} (hm : Tree.build mname lists = some m)
    {t : Int} {e : Entry} {mapadr : Int}
    (hsel : getnumadr Tree.params.lm m t Tree.chain m.nnames_map = (some e, mapadr))
    (hnul : ∀ s ∈ lists e.adrField, (0 : UInt8) ∉ s) (hd : DistinctNamed (lists e.adrField))
    {i : Nat} {q : Bytes} (hi : (lists e.adrField)[i]? = some q) (hq : q ≠ []) :
    Tree.name2id m t q = some (i : Int) :=
  lookup_build_of_orders tree_params_ok orders_equal hm hsel hnul hd hi hq

theorem lookup_absent {mname : Bytes} {lists : Nat → List Bytes} {m : CModel} (hm : Tree.build mname lists = some m)
    {t : Int} {e : Entry} {mapadr : Int}
    (hsel : getnumadr Tree.params.lm m t Tree.chain m.nnames_map = (some e, mapadr))
    (hnul : ∀ s ∈ lists e.adrField, (0 : UInt8) ∉ s)
    {q : Bytes} (hq0 : (0 : UInt8) ∉ q) (habs : q = [] ∨ q ∉ lists e.adrField) :
    Tree.name2id m t q = some (-1) :=
  lookup_absent_of_orders tree_params_ok orders_equal hm hsel hnul hq0 habs

theorem id2name_none_iff {mname : Bytes} {lists : Nat → List Bytes} {m : CModel}
    (hm : Tree.build mname lists = some m) {t : Int} {e : Entry} {mapadr : Int}
    (hsel : getnumadr Tree.params.lm m t Tree.chain m.nnames_map = (some e, mapadr))
    (hnul : ∀ s ∈ lists e.adrField, (0 : UInt8) ∉ s) (id : Int) :
    Tree.id2name m t id = some none ↔
      (id < 0 ∨ ((lists e.adrField).length : Int) ≤ id ∨ (lists e.adrField)[id.toNat]? = some []) :=
  id2name_none_iff_of_orders tree_params_ok orders_equal hm hsel hnul id

theorem name2id_id2name {mname : Bytes} {lists : Nat → List Bytes} {m : CModel}
    (hm : Tree.build mname lists = some m) {t : Int} {e : Entry} {mapadr : Int}
    (hsel : getnumadr Tree.params.lm m t Tree.chain m.nnames_map = (some e, mapadr))
    (hnul : ∀ s ∈ lists e.adrField, (0 : UInt8) ∉ s) (hd : DistinctNamed (lists e.adrField))
    {id : Int} {s : Bytes} (h : Tree.id2name m t id = some (some s)) :
    Tree.name2id m t s = some id :=
  name2id_id2name_of_orders tree_params_ok orders_equal hm hsel hnul hd h

theorem probe_terminates (mname : Bytes) (lists : Nat → List Bytes) :
    (∀ names : List Bytes, ∃ seg, namelistMap Tree.params names = some seg ∧
        seg.length = Tree.params.lm * names.length) ∧
    ∃ m, Tree.build mname lists = some m :=
  probe_terminates_of_orders tree_params_ok orders_equal mname lists

theorem segment_offsets_agree {mname : Bytes} {lists : Nat → List Bytes} {m : CModel}
    (hm : Tree.build mname lists = some m) {t : Int} {e : Entry} {mapadr : Int}
    (hsel : getnumadr Tree.params.lm m t Tree.chain m.nnames_map = (some e, mapadr)) :
    mapadr = ((segOffset Tree.params.lm lists NameOrder.copyNamesChain e.adrField : Nat) : Int) ∧
    m.cnt e.cntField = (lists e.adrField).length :=
  segment_offsets_agree_of_orders tree_params_ok orders_equal hm hsel

/-! ### non-vacuity: a concrete instance satisfying the hypotheses -/

section Examples

/-- bodies "w", "", "ab", "a" (a prefix pair and an unnamed body); every other list empty -/
def exLists (f : Nat) : List Bytes := if f = 1 then [[119], [], [97, 98], [97]] else []

example : DistinctNamed (exLists 1) := by
  intro i j s hi hj hs
  have hi' : i < 4 := by
    rcases Nat.lt_or_ge i 4 with h | h
    · exact h
    · rw [List.getElem?_eq_none (by simpa [exLists] using h)] at hi; cases hi
  have hj' : j < 4 := by
    rcases Nat.lt_or_ge j 4 with h | h
    · exact h
    · rw [List.getElem?_eq_none (by simpa [exLists] using h)] at hj; cases hj
  have e4 : ∀ k, k < 4 → k = 0 ∨ k = 1 ∨ k = 2 ∨ k = 3 := by omega
  rcases e4 i hi' with rfl | rfl | rfl | rfl <;> rcases e4 j hj' with rfl | rfl | rfl | rfl <;>
    simp_all [exLists] <;> (subst hi; simp at hj)

example : ∀ s ∈ exLists 1, (0 : UInt8) ∉ s := by decide

/-- the hypotheses of the tree theorems are satisfiable: the model is built, type 1 (mjOBJ_BODY) selects the
    body block, and the lookups evaluate as the theorems say -/
example : ∃ m e mapadr, Tree.build [109] exLists = some m ∧
    getnumadr Tree.params.lm m 1 Tree.chain m.nnames_map = (some e, mapadr) ∧ e.adrField = 1 := by
  obtain ⟨m, hm⟩ := (probe_terminates [109] exLists).2
  have hs : selectEntry 1 Tree.chain = some ⟨[1, 2], 1, 1⟩ := by decide
  have h1 := getnumadr_fst Tree.params.lm m 1 Tree.chain m.nnames_map
  rw [hs] at h1
  exact ⟨m, ⟨[1, 2], 1, 1⟩, (getnumadr Tree.params.lm m 1 Tree.chain m.nnames_map).2, hm,
    by rw [← h1], rfl⟩

example : OrdersOK [⟨[1, 2], 0, 0⟩, ⟨[3], 1, 1⟩] [0, 1] [1, 0] := ⟨by decide, by decide, by decide, by decide⟩

example : ParamsOK ⟨1, fun _ _ => 0⟩ := ⟨by decide, fun _ _ h => h⟩

end Examples

end MjProof.C34
