import MjProof.Props.C44
import MjProof.Gen.MjxStateTable
/-
C44, part 2: the table regenerated from the MJX sources of the current tree
(`MjProof/Gen/MjxStateTable.lean`, translator `translate/c44_tables.py`: `_STATE_MAP`,
`_state_elem_size`, the loop templates of `state_size`/`get_state`/`set_state`, the shapes
`make_data` allocates) against the table regenerated from the C sources
(`MjProof/Gen/StateTable.lean`, translator `translate/c26_tables.py`).
-/
namespace MjProof.C44
open List MjProof.State MjProof.MjxState MjProof.Gen

/-- every constructor of the generated field type is listed -/
theorem fields_complete : ∀ f : StateField, f ∈ StateField.all := by
  intro f; cases f <;> decide

/-- **The MJX state table equals the C state table**: every name MJX uses exists on the C side;
    `mjNSTATE` bounds both loops; the entries of `_STATE_MAP`, in source order, are the `case`s of
    `mj_stateElemSize`, in source order — same enumerator, same bit, same `mjData`/`mjx.Data` field,
    size expressions with the same normal form (coefficient and multiset of model sizes, e.g.
    `nmocap*3` vs `3*m->nmocap`), converted (`astype` / per-entry `mjtBool` loop) on both sides or on
    neither; every field has the same allocated dimension (`make_data` shape vs `MJDATA_POINTERS`)
    and storage type; `_STATE_MAP` has exactly one entry per single-bit enumerator of `mjtState`, and
    each element's bit is the one the header gives to its key.
    Decided by kernel evaluation on the two finite generated tables. -/
theorem mjx_table_eq_c_table :
    Mjx.mjxUnmatched = []
    ∧ agreeTables StateField.all Mjx.mjxSym stateSym = true
    ∧ Mjx.stateMap.map Prod.fst = stateEnum.map Prod.fst
    ∧ (∀ e ∈ Mjx.mjxSym.elems, (e.name, e.bit) ∈ stateEnum)
    ∧ Mjx.mjxSym.elems.map (fun e => (e.name, StateField.name e.field)) = Mjx.stateMap := by
  decide

/-- the MJX table is well formed on its own (hypothesis `WF` of the generic theorems) -/
theorem mjx_table_wf : WF Mjx.mjxTable :=
  SymTable.wf_sound Mjx.mjxSym (by decide)

/-- the field `set_state` reads with `value[0]` has size 1 -/
theorem mjx_scalar_ok (sz : StateSize → Nat) : ScalarOK Mjx.mjxTable sz Mjx.mjxScalar := by
  have h : Mjx.mjxSym.elems.all (fun e => !Mjx.mjxScalar e.field || e.size.equiv [.const 1]) = true := by
    decide
  intro e he hs
  simp only [Mjx.mjxTable, SymTable.toTable, List.mem_map] at he
  obtain ⟨se, hse, rfl⟩ := he
  have := List.all_eq_true.mp h se hse
  simp only [SymElem.toElem] at hs
  simp only [hs, Bool.not_true, Bool.false_or] at this
  exact SizeExpr.equiv_sound this sz

private theorem lookups (sz : StateSize → Nat) (i : Nat) : LookupRel Mjx.mjxTable stateTable sz i :=
  (agreeTables_sound mjx_table_eq_c_table.2.1).2.1 sz i

private theorem nstate_eq : Mjx.mjxTable.nstate = stateTable.nstate :=
  (agreeTables_sound mjx_table_eq_c_table.2.1).1

/-- data shaped as `make_data` allocates it is shaped as `mj_makeData` allocates it, and conversely -/
theorem shaped_iff {α : Type} (sz : StateSize → Nat) (d : Data StateField α) :
    Shaped Mjx.mjxTable sz d ↔ Shaped stateTable sz d := by
  have h := (agreeTables_sound mjx_table_eq_c_table.2.1).2.2.1
  constructor
  · intro hd f; rw [hd f]; exact h f (fields_complete f) sz
  · intro hd f; rw [hd f]; exact (h f (fields_complete f) sz).symm

/-- **MJX state API = C state API, as modelled** (`_partial`: this is the state-API clause of C44
    only; `jit`/`vmap` transparency, `put_data`/`get_data` and `make_data` are examined by the oracle
    on the real code and are not claimed by a theorem).  For all model sizes, all data shaped as
    allocated and every `spec` in `[0, 2^mjNSTATE)`: `state_size`, `get_state` and `set_state` over
    the MJX table return exactly what `mj_stateSize`, `mj_getState`, `mj_setState` over the C table
    return (for `get_state`/`set_state` also on the error branch `spec ≥ 2^mjNSTATE`); `set_state` for
    a vector of the length `mj_stateSize` reports (`mjx_set_state_size_guard` covers the others). -/
theorem mjx_state_api_eq_c_state_api_partial {α : Type} (sz : StateSize → Nat) (cast : α → α)
    {d : Data StateField α} (hd : Shaped stateTable sz d) {spec : Int} (h0 : 0 ≤ spec) :
    (spec < 2 ^ stateTable.nstate →
        MjxState.stateSize Mjx.mjxTable sz spec = liftE (State.stateSize stateTable sz spec))
    ∧ MjxState.getState Mjx.mjxTable d spec = liftE (State.getState stateTable sz d spec)
    ∧ ∀ st : List α, (spec < 2 ^ stateTable.nstate → State.stateSize stateTable sz spec = .ok st.length) →
        MjxState.setState Mjx.mjxTable sz Mjx.mjxScalar cast st spec d
          = liftE (State.setState stateTable sz cast st spec d) := by
  have hdm := (shaped_iff sz d).mpr hd
  have hsize : State.stateSize Mjx.mjxTable sz spec = State.stateSize stateTable sz spec :=
    stateSize_congr nstate_eq (lookups sz) spec
  have hget : State.getState Mjx.mjxTable sz d spec = State.getState stateTable sz d spec :=
    getState_congr nstate_eq (lookups sz) d spec
  have hset : ∀ st, State.setState Mjx.mjxTable sz cast st spec d = State.setState stateTable sz cast st spec d :=
    fun st => setState_congr nstate_eq (lookups sz) cast st spec d
  refine ⟨fun h1 => ?_, ?_, fun st hlen => ?_⟩
  · rw [mjx_state_size_eq_model h0 (by rw [nstate_eq]; exact h1), hsize]
  · rw [mjx_get_state_eq_model mjx_table_wf hdm h0, hget]
  · rw [mjx_set_state_eq_model mjx_table_wf (mjx_scalar_ok sz) cast hdm h0
      (fun h => by rw [hsize]; exact hlen (by rw [← nstate_eq]; exact h)), hset]

/-! ### the generic theorems instantiated on the generated MJX table (no `WF` hypothesis left) -/

theorem gen_mjx_size_eq_length_get_state {α : Type} (sz : StateSize → Nat) {d : Data StateField α}
    (hd : Shaped Mjx.mjxTable sz d) {spec : Int} (hlt : spec < 2 ^ Mjx.mjxTable.nstate) :
    MjxState.stateSize Mjx.mjxTable sz spec = (MjxState.getState Mjx.mjxTable d spec).map List.length :=
  mjx_size_eq_length_get_state mjx_table_wf hd hlt

theorem gen_mjx_set_get_id {α : Type} (sz : StateSize → Nat) (cast : α → α) {d d' : Data StateField α}
    (hd : Shaped Mjx.mjxTable sz d) (hd' : Shaped Mjx.mjxTable sz d') (hbool : BoolOK Mjx.mjxTable cast d)
    {spec : Int} (hlt : spec < 2 ^ Mjx.mjxTable.nstate) {v : List α}
    (hg : MjxState.getState Mjx.mjxTable d spec = .ok v) :
    ∃ d'', MjxState.setState Mjx.mjxTable sz Mjx.mjxScalar cast v spec d' = .ok d'' ∧
      (∀ e, MjxSel Mjx.mjxTable spec e → d'' e.field = d e.field) ∧
      (∀ f, (∀ e, MjxSel Mjx.mjxTable spec e → e.field ≠ f) → d'' f = d' f) :=
  mjx_set_get_id mjx_table_wf (mjx_scalar_ok sz) cast hd hd' hbool hlt hg

/-! ### non-vacuity on the generated table -/

/-- all model sizes 2 -/
def sz0 : StateSize → Nat := fun _ => 2
/-- every field filled with ones -/
def d1 : Data StateField Int := fun f => List.replicate (Mjx.mjxTable.alloc f sz0) 1

example : Shaped Mjx.mjxTable sz0 d1 := fun f => by simp [d1]
example : Shaped stateTable sz0 d1 := (shaped_iff sz0 d1).mp (fun f => by simp [d1])
example : BoolOK Mjx.mjxTable C26.castInt d1 := by
  intro e _ _ x hx
  have : x = 1 := by simp [d1] at hx; exact hx.2
  subst this; rfl
/-- the full spec, and `-1` (all bits in two's complement), are served -/
example : ∃ v, MjxState.getState Mjx.mjxTable d1 (2 ^ Mjx.mjxTable.nstate - 1) = .ok v :=
  mjx_get_state_total mjx_table_wf (sz := sz0) (fun f => by simp [d1]) (by decide)
example : ∃ v, MjxState.getState Mjx.mjxTable d1 (-1) = .ok v :=
  mjx_get_state_total mjx_table_wf (sz := sz0) (fun f => by simp [d1]) (by decide)

end MjProof.C44
