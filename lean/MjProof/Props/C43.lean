import MjProof.Model.MjxMath
import MjProof.Gen.Kernels
import MjProof.Lemmas.RealNum
import MjProof.Lemmas.MjxKbi
import Mathlib.Tactic.Ring
import Mathlib.Tactic.Linarith
import Mathlib.Tactic.NormNum
/-
C43  MJX reproduces the MuJoCo C engine — kernel half ("one model, two implementations").

For the closed-form functions of `mjx/_src/math.py` the MJX formula (hand-written model
`MjProof/Model/MjxMath.lean`, compared with the real `math.py` under x64 by `Drivers/C43.lean`) and the
C function (kernel generated from the C source by `translate/c2lean.py`, compared bitwise with the
compiled C by `checks/kernelval.py`) are THE SAME real function: the theorems below are stated over
`ℝ` for all inputs (for `rotate`: all unit quaternions, the domain on which both are a rotation).
Rounding is outside the proofs; the two Float evaluations are compared by the check (1e-12).

Constraint parameters: `mjx_kbi_eq_c` — `_kbi` of `mjx/_src/constraint.py` (hand model `mjxKbi`, compared with the real
function) and the K, B, I that `getsolparam` / `getimpedance` / `mj_makeImpedance` write to `efc_KBIP` (hand model `cKbi`,
compared with the real C engine) are the same real function for both solref formats, either REFSAFE setting and every
solimp with `dmin ≤ dmax`, `width > mjMINVAL`; outside these hypotheses the two sources genuinely differ (findings).

Everything else of C43 (kinematics, inertia, bias/passive forces, actuation, contacts, constraints,
solver, sensors, integrators — the whole pipeline) is NOT claimed by a theorem: it is examined by the
oracle on the real code (one model description instantiated in the tree's C engine and in MJX).
The feature gate is in `Props/C43Gate.lean`.
-/
namespace MjProof.C43
open MjProof MjProof.Gen MjProof.MjxMath MjProof.MjxKbi

/-! the operations of the `MjNum ℝ` instance are the field operations of `ℝ` (definitionally) -/
private theorem r_mul (a b : ℝ) : @HMul.hMul ℝ ℝ ℝ (@instHMul ℝ (MjNum.toMul)) a b = a * b := rfl
private theorem r_add (a b : ℝ) : @HAdd.hAdd ℝ ℝ ℝ (@instHAdd ℝ (MjNum.toAdd)) a b = a + b := rfl
private theorem r_sub (a b : ℝ) : @HSub.hSub ℝ ℝ ℝ (@instHSub ℝ (MjNum.toSub)) a b = a - b := rfl
private theorem r_neg (a : ℝ) : @Neg.neg ℝ (MjNum.toNeg) a = -a := rfl

/-- close an equation between tuples of real polynomial expressions -/
macro "tuple_ring" : tactic =>
  `(tactic| first
    | rfl
    | (simp only [Prod.mk.injEq, r_mul, r_add, r_sub, r_neg]; (repeat' constructor) <;> first | trivial | rfl | ring))

/-- `quat_mul` = `mju_mulQuat` -/
theorem mjx_quat_mul_eq_c (u0 u1 u2 u3 v0 v1 v2 v3 : ℝ) :
    quatMul u0 u1 u2 u3 v0 v1 v2 v3 = mju_mulQuat u0 u1 u2 u3 v0 v1 v2 v3 := by
  simp only [quatMul, mju_mulQuat]

/-- `quat_mul_axis` = `mju_mulQuatAxis` -/
theorem mjx_quat_mul_axis_eq_c (q0 q1 q2 q3 a0 a1 a2 : ℝ) :
    quatMulAxis q0 q1 q2 q3 a0 a1 a2 = mju_mulQuatAxis q0 q1 q2 q3 a0 a1 a2 := by
  simp only [quatMulAxis, mju_mulQuatAxis]

/-- `rotate` = `mju_rotVecQuat` on unit quaternions (the two sources use different formulas:
    `2(u·v)u + (s²−u·u)v + 2s u×v` versus `v + 2 u×(u×v + s v)`; they differ by `(|q|²−1) v`). -/
theorem mjx_rotate_eq_c (v0 v1 v2 q0 q1 q2 q3 : ℝ) (hq : q0 * q0 + q1 * q1 + q2 * q2 + q3 * q3 = 1) :
    rotate v0 v1 v2 q0 q1 q2 q3 = mju_rotVecQuat v0 v1 v2 q0 q1 q2 q3 := by
  have h0 : q0 * q0 = 1 - q1 * q1 - q2 * q2 - q3 * q3 := by linarith
  simp only [rotate, dot3, cross3, two, mju_rotVecQuat, real_beq, real_ofInt, decide_eq_true_eq, Bool.decide_and,
    Bool.and_eq_true]
  push_cast
  split_ifs with h1 h2
  · obtain ⟨⟨rfl, rfl⟩, rfl⟩ := h1; simp
  · obtain ⟨⟨⟨rfl, rfl⟩, rfl⟩, rfl⟩ := h2; simp
  · simp only [Prod.mk.injEq]
    refine ⟨?_, ?_, ?_⟩ <;> (rw [h0]; ring)

/-- the general relation behind the previous theorem (no hypothesis on `q`) -/
theorem mjx_rotate_sub_c (v0 v1 v2 q0 q1 q2 q3 : ℝ) :
    let n := q0 * q0 + q1 * q1 + q2 * q2 + q3 * q3
    let a := rotate v0 v1 v2 q0 q1 q2 q3
    let b := mju_rotVecQuat v0 v1 v2 q0 q1 q2 q3
    (a.1 - b.1, a.2.1 - b.2.1, a.2.2 - b.2.2) = ((n - 1) * v0, (n - 1) * v1, (n - 1) * v2) := by
  simp only [rotate, dot3, cross3, two, mju_rotVecQuat, real_beq, real_ofInt, decide_eq_true_eq, Bool.decide_and,
    Bool.and_eq_true]
  push_cast
  split_ifs with h1 h2
  · obtain ⟨⟨rfl, rfl⟩, rfl⟩ := h1; simp
  · obtain ⟨⟨⟨rfl, rfl⟩, rfl⟩, rfl⟩ := h2; simp
  · simp only [Prod.mk.injEq]
    refine ⟨?_, ?_, ?_⟩ <;> ring

/-- `quat_to_mat` = `mju_quat2Mat` (the C function special-cases the identity quaternion) -/
theorem mjx_quat_to_mat_eq_c (q0 q1 q2 q3 : ℝ) :
    quatToMat q0 q1 q2 q3 = mju_quat2Mat q0 q1 q2 q3 := by
  simp only [quatToMat, two, mju_quat2Mat, real_beq, real_ofInt, decide_eq_true_eq, Bool.decide_and, Bool.and_eq_true]
  push_cast
  split_ifs with h
  · obtain ⟨⟨⟨rfl, rfl⟩, rfl⟩, rfl⟩ := h
    norm_num
  · tuple_ring

/-- `axis_angle_to_quat` = `mju_axisAngle2Quat` (the C function special-cases a zero angle) -/
theorem mjx_axis_angle_to_quat_eq_c (a0 a1 a2 angle : ℝ) :
    axisAngleToQuat a0 a1 a2 angle = mju_axisAngle2Quat a0 a1 a2 angle := by
  simp only [axisAngleToQuat, half, mju_axisAngle2Quat, real_beq, real_ofInt, decide_eq_true_eq, real_sin, real_cos]
  push_cast
  split_ifs with h
  · subst h; simp
  · rfl

/-- `motion_cross` = `mju_crossMotion` -/
theorem mjx_motion_cross_eq_c (u0 u1 u2 u3 u4 u5 v0 v1 v2 v3 v4 v5 : ℝ) :
    motionCross u0 u1 u2 u3 u4 u5 v0 v1 v2 v3 v4 v5 = mju_crossMotion u0 u1 u2 u3 u4 u5 v0 v1 v2 v3 v4 v5 := by
  simp only [motionCross, cross3, mju_crossMotion]
  tuple_ring

/-- `motion_cross_force` = `mju_crossForce` -/
theorem mjx_motion_cross_force_eq_c (v0 v1 v2 v3 v4 v5 f0 f1 f2 f3 f4 f5 : ℝ) :
    motionCrossForce v0 v1 v2 v3 v4 v5 f0 f1 f2 f3 f4 f5 = mju_crossForce v0 v1 v2 v3 v4 v5 f0 f1 f2 f3 f4 f5 := by
  simp only [motionCrossForce, cross3, mju_crossForce]
  tuple_ring

/-- `inert_mul` = `mju_mulInertVec` -/
theorem mjx_inert_mul_eq_c (i0 i1 i2 i3 i4 i5 i6 i7 i8 i9 v0 v1 v2 v3 v4 v5 : ℝ) :
    inertMul i0 i1 i2 i3 i4 i5 i6 i7 i8 i9 v0 v1 v2 v3 v4 v5
      = mju_mulInertVec i0 i1 i2 i3 i4 i5 i6 i7 i8 i9 v0 v1 v2 v3 v4 v5 := by
  simp only [inertMul, dot3, cross3, mju_mulInertVec]
  tuple_ring

/-! ### non-vacuity -/

/-- a unit quaternion that is not the identity (so the general branch of `mju_rotVecQuat` is taken) -/
example : (0 : ℝ) * 0 + 1 * 1 + 0 * 0 + 0 * 0 = 1 := by norm_num
/-- off the unit sphere the two `rotate` formulas really differ: `q = (2,0,0,0)` scales by 4 in MJX, by 1 in C -/
example : rotate (1 : ℝ) 0 0 2 0 0 0 ≠ mju_rotVecQuat (1 : ℝ) 0 0 2 0 0 0 := by
  have h := mjx_rotate_sub_c 1 0 0 2 0 0 0
  simp only at h
  intro heq
  rw [heq] at h
  norm_num at h

/-! ### stiffness, damping and impedance of a constraint row (`constraint._kbi` versus `mj_makeImpedance`) -/

/-- **`_kbi` of MJX computes the K, B, I of `efc_KBIP` of the C engine**, for every REFSAFE setting, time step, solref in
    either format (standard: both positive; direct: both non-positive), every solimp with `dmin ≤ dmax` and
    `width > mjMINVAL`, any midpoint and power (both sides clamp them) and every position; `hden` says that the two
    denominators the C engine guards with `mju_max(mjMINVAL, ·)` are not below `mjMINVAL` (standard format only). -/
theorem mjx_kbi_eq_c (refsafe : Bool) (ts sr0 sr1 d0 d1 w mid p pos : ℝ)
    (hfmt : 0 < sr0 ↔ 0 < sr1) (hd : d0 ≤ d1) (hw : 1 / 10 ^ 15 < w)
    (hden : 0 < sr0 →
      (1 / 10 ^ 15 : ℝ) ≤ min (max d1 (1 / 10000)) (9999 / 10000) * min (max d1 (1 / 10000)) (9999 / 10000)
          * (if refsafe then max sr0 (2 * ts) else sr0) * (if refsafe then max sr0 (2 * ts) else sr0) * sr1 * sr1
      ∧ (1 / 10 ^ 15 : ℝ) ≤ min (max d1 (1 / 10000)) (9999 / 10000) * (if refsafe then max sr0 (2 * ts) else sr0)) :
    mjxKbi rpw refsafe ts sr0 sr1 d0 d1 w mid p pos = cKbi rpw refsafe ts sr0 sr1 d0 d1 w mid p pos := by
  have hwJ : MjNum.max (minval : ℝ) w = w := by rw [max_real, minval_real]; exact max_eq_right hw.le
  have hwC : MjNum.max (zero : ℝ) w = w := by
    rw [max_real, zero_real]; exact max_eq_right (le_trans (by positivity) hw.le)
  have hcl : ∀ x : ℝ, cclip x minimp maximp = jclip x minimp maximp := fun x => by rw [cclip_real, jclip_real]
  have hjc : ∀ x : ℝ, jclip x minimp maximp = min (max x (1 / 10000)) (9999 / 10000) := fun x => by
    rw [jclip_real, minimp_real, maximp_real]
  have hmono : min (max d0 (1 / 10000)) (9999 / 10000 : ℝ) ≤ min (max d1 (1 / 10000)) (9999 / 10000) :=
    min_le_min (max_le_max hd le_rfl) le_rfl
  have hP : (1 : ℝ) ≤ MjNum.max (one : ℝ) p := by rw [max_real, one_real]; exact le_max_left _ _
  simp only [mjxKbi, cKbi, hcl, hwJ, hwC, hjc]
  refine Prod.ext ?_ (Prod.ext ?_ ?_)
  · exact mjx_K_eq_c refsafe ts sr0 sr1 _ hfmt (clip_imp_bounds d1).1 (fun h => (hden h).1)
  · exact mjx_B_eq_c refsafe ts sr0 sr1 _ hfmt (clip_imp_bounds d1).1 (fun h => (hden h).2)
  · exact mjx_imp_eq_c _ _ w _ _ pos hmono hw
      (lt_of_lt_of_le (by norm_num) (clip_imp_bounds mid).1) (lt_of_le_of_lt (clip_imp_bounds mid).2 (by norm_num)) hP

/-! non-vacuity: the default parameters (solref 0.02 1, solimp 0.9 0.95 0.001 0.5 2, timestep 0.002, REFSAFE active) and a
    direct-format solref (-2000, -40) satisfy the hypotheses -/
example : mjxKbi rpw true 0.002 0.02 1 0.9 0.95 0.001 0.5 2 0.0004 = cKbi rpw true 0.002 0.02 1 0.9 0.95 0.001 0.5 2 0.0004 := by
  apply mjx_kbi_eq_c <;> norm_num [max_def, min_def]
example : mjxKbi rpw true 0.002 (-2000) (-40) 0.9 0.95 0.001 0.5 2 0.0004 = cKbi rpw true 0.002 (-2000) (-40) 0.9 0.95 0.001 0.5 2 0.0004 := by
  apply mjx_kbi_eq_c <;> norm_num [max_def, min_def]

/-- outside the hypotheses the two really differ — mixed-sign solref: the C engine substitutes the default (0.02, 1),
    `_kbi` combines the standard K with the direct B -/
example : (mjxKbi rpw false 0.002 0.01 (-10) 0.9 0.95 0.001 0.5 2 0).2.1 ≠ (cKbi rpw false 0.002 0.01 (-10) 0.9 0.95 0.001 0.5 2 0).2.1 := by
  simp only [mjxKbi, cKbi, mjxB, cB, cSolref, jclip_real, cclip_real, max_real, one_real, zero_real, two_real, minimp_real,
    maximp_real, minval_real, k_mul, k_div, k_neg, k_lt, k_le]
  norm_num [max_def, min_def]

/-! ### implicit joint damping of `euler`, sparse storage -/

/-- **the damping of dof i lands on the diagonal**: the entry of `M_colind` at `M_rowadr[i] + M_rownnz[i] - 1` is i -/
theorem mjx_euler_damping_on_diagonal (ps : List Int) (i : Nat) (hi : i < ps.length) :
    (sparseRows ps).flatten[diagAdr (sparseRows ps) i]? = some i := by
  have hlen := sparseRows_length ps
  obtain ⟨r, hr⟩ : ∃ r, (sparseRows ps)[i]? = some r := ⟨(sparseRows ps)[i]'(by omega), List.getElem?_eq_getElem (by omega)⟩
  have hlast := sparseRows_last ps i r hr
  have hne : r ≠ [] := by intro h; subst h; simp at hlast
  unfold diagAdr
  rw [hr]; simp only [Option.getD_some]
  rw [flatten_last _ i r hr hne, hlast]

/-- the start of the row is NOT the diagonal as soon as the dof has an ancestor dof (chain 0 <- 1) -/
example : (sparseRows [-1, 0]).flatten[rowAdr (sparseRows [-1, 0]) 1]? = some 0 := by decide

end MjProof.C43
