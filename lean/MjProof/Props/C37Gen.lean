import MjProof.Gen.MjcfTable
/-
C37, statements about the grammar table regenerated from src/xml/generated/mjcf_table.inc on every run
(kept apart from Props/C37.lean so that a source change that breaks them shows up as exactly these obligations).
-/
namespace MjProof.C37
open MjProof.XmlSchema MjProof.Gen.MjcfTable

/-- The model of the `mjXSchema` constructor consumes the generated rows without ever reading outside the table,
    and the resulting grammar tree is well formed: node types are among `! ? * R` and sibling nodes have pairwise
    different names (so "the first child node admitting a tag" is the only one, up to the `body` aliases). -/
theorem generated_table_wf :
    (match buildTable rows cons with
     | some s => wfNode s
     | none => false) = true := by decide +kernel

/-- the checked-in table is what the tree's generator produces from mjcf.schema (evaluated by the translator) -/
theorem generated_table_fresh : fresh = true := by decide

end MjProof.C37
