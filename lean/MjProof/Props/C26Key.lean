import MjProof.Lemmas.StateKey
/-
C26, keyframe clause: "`mj_resetDataKeyframe` loads exactly the keyframe's values".

Model: `MjProof/Model/State.lean` (section Keyframes), generic over any keyframe table (the two lists
of copy statements of `mj_resetDataKeyframe` and `mj_setKeyframe`); the concrete table
`Gen.keyTable` is regenerated from `engine_io.c`, `engine_support.c` and `mjxmacro.h` by
`translate/c26_tables.py` on every run, which refuses any statement in either body that is not a
plain copy (so post-processing of the loaded values — clamping, normalising — cannot hide).
`_resetData` is not modelled: its result is the arbitrary parameter `base`.

Stated for arbitrary model sizes, arbitrary contents of the `key_*` arrays (in particular keyframes
written at run time that the model compiler would never produce) and an ARBITRARY index `key : Int`.
`generated_keytable_wf` (in `Props/C26Gen.lean`) discharges `KeyWF` for the current tree.
-/
namespace MjProof.C26
open List MjProof.State

section
variable {σ φ κ α : Type} [DecidableEq φ] [DecidableEq κ] {t : KeyTable σ φ κ} {sz : σ}

omit [DecidableEq φ] [DecidableEq κ] in
private theorem rowOK_load (hwf : KeyWF t) : ∀ r, r ∈ t.load → RowOK t sz r :=
  fun r hr => hwf.row_ok r (List.mem_append_left _ hr) sz
omit [DecidableEq φ] [DecidableEq κ] in
private theorem rowOK_store (hwf : KeyWF t) : ∀ r, r ∈ t.store → RowOK t sz r :=
  fun r hr => hwf.row_ok r (List.mem_append_right _ hr) sz

private theorem valid_key {key : Int} {n : Nat} (h0 : 0 ≤ key) (h1 : key < n) : key.toNat < n := by
  omega

omit [DecidableEq κ] in
/-- **`mj_resetDataKeyframe` loads exactly the keyframe's values**: for a valid index the call
    returns normally; every field that the keyframe holds equals row `key` of its `key_*` array,
    entry for entry (whatever those values are); every other field is what `_resetData` left. -/
theorem key_load_exact (hwf : KeyWF t) {m : KeyData κ α} (hm : KShaped t sz m) {base : Data φ α}
    (hb : DShaped t sz base) (key : Int) (h0 : 0 ≤ key) (h1 : key < t.nkey sz) :
    ∃ d', resetDataKeyframe t sz m base key = .ok d' ∧ DShaped t sz d' ∧
      (∀ r, r ∈ t.load → d' r.field = keyRow (m r.key) key.toNat (r.size sz)) ∧
      (∀ f, (∀ r, r ∈ t.load → r.field ≠ f) → d' f = base f) := by
  obtain ⟨d', hl, hd', hv, hfr⟩ := loadRows_spec t sz hm (valid_key h0 h1) t.load base
    hwf.load_fields_nodup (rowOK_load hwf) hb
  refine ⟨d', ?_, hd', hv, fun f hf => hfr f (fun hmem => ?_)⟩
  · unfold resetDataKeyframe; rw [if_pos ⟨h0, h1⟩]; exact hl
  · obtain ⟨r, hr, rfl⟩ := List.mem_map.mp hmem
    exact hf r hr rfl

omit [DecidableEq κ] in
/-- an index outside `[0, nkey)` is a plain reset (for ANY table) -/
theorem key_invalid_is_reset (m : KeyData κ α) (base : Data φ α) (key : Int)
    (h : key < 0 ∨ (t.nkey sz : Int) ≤ key) : resetDataKeyframe t sz m base key = .ok base := by
  unfold resetDataKeyframe
  rw [if_neg (by omega)]

omit [DecidableEq φ] in
/-- **`mj_setKeyframe` stores exactly the state**: row `k` of every stored `key_*` array becomes the
    `mjData` field, all other rows and all other arrays are untouched. -/
theorem key_set_stores_state (hwf : KeyWF t) {m : KeyData κ α} (hm : KShaped t sz m) {d : Data φ α}
    (hd : DShaped t sz d) (k : Int) (h0 : 0 ≤ k) (h1 : k < t.nkey sz) :
    ∃ m', setKeyframe t sz m d k = .ok m' ∧ KShaped t sz m' ∧
      (∀ r, r ∈ t.store → keyRow (m' r.key) k.toNat (r.size sz) = d r.field) ∧
      (∀ r, r ∈ t.store → ∀ k', k' ≠ k.toNat →
          keyRow (m' r.key) k' (r.size sz) = keyRow (m r.key) k' (r.size sz)) ∧
      (∀ g, (∀ r, r ∈ t.store → r.key ≠ g) → m' g = m g) := by
  obtain ⟨m', hs, hm', hv, hoth, hfr⟩ := storeRows_spec t sz hd (valid_key h0 h1) t.store m
    hwf.store_keys_nodup (rowOK_store hwf) hm
  refine ⟨m', ?_, hm', hv, hoth, fun g hg => hfr g (fun hmem => ?_)⟩
  · unfold setKeyframe; rw [if_neg (by omega), if_neg (by omega)]; exact hs
  · obtain ⟨r, hr, rfl⟩ := List.mem_map.mp hmem
    exact hg r hr rfl

omit [DecidableEq φ] in
/-- the two guards of `mj_setKeyframe` (`k >= nkey` is tested first) -/
theorem key_set_errors (m : KeyData κ α) (d : Data φ α) (k : Int) :
    ((t.nkey sz : Int) ≤ k → setKeyframe t sz m d k = .error .keyRange) ∧
    (k < 0 → setKeyframe t sz m d k = .error (if (t.nkey sz : Int) ≤ k then .keyRange else .keyNeg)) := by
  unfold setKeyframe
  refine ⟨fun h => by rw [if_pos h], fun h => ?_⟩
  by_cases hr : (t.nkey sz : Int) ≤ k
  · rw [if_pos hr, if_pos hr]
  · rw [if_neg hr, if_pos h, if_neg hr]

/-- **round trip**: saving a state with `mj_setKeyframe` and loading it with
    `mj_resetDataKeyframe` is lossless — every keyframe field comes back entry for entry (no
    assumption on the values: non-unit or zero quaternions included), the rest is the reset data. -/
theorem key_set_load_roundtrip (hwf : KeyWF t) {m : KeyData κ α} (hm : KShaped t sz m)
    {d base : Data φ α} (hd : DShaped t sz d) (hb : DShaped t sz base) (k : Int) (h0 : 0 ≤ k)
    (h1 : k < t.nkey sz) :
    ∃ m' d', setKeyframe t sz m d k = .ok m' ∧ resetDataKeyframe t sz m' base k = .ok d' ∧
      (∀ r, r ∈ t.load → d' r.field = d r.field) ∧
      (∀ f, (∀ r, r ∈ t.load → r.field ≠ f) → d' f = base f) := by
  obtain ⟨m', hs, hm', hv, _, _⟩ := key_set_stores_state hwf hm hd k h0 h1
  obtain ⟨d', hl, _, hlv, hfr⟩ := key_load_exact hwf hm' hb k h0 h1
  refine ⟨m', d', hs, hl, fun r hr => ?_, hfr⟩
  obtain ⟨r', hr', hf, hk⟩ := hwf.load_stored r hr
  have hsz : r.size sz = r'.size sz := by
    rw [(rowOK_load hwf r hr).2.1, (rowOK_store hwf r' hr').2.1, hf]
  rw [hlv r hr, hsz, ← hk, hv r' hr', hf]

end

/-! ### non-vacuity: a hand-made instance (the generated one is in `Props/C26Gen.lean`) -/

inductive ExKSize | nkey | n deriving DecidableEq
inductive ExKField | time | q | other deriving DecidableEq
inductive ExKArr | ktime | kq deriving DecidableEq

def exKeySym : SymKeyTable ExKSize ExKField ExKArr where
  nkey := .nkey
  load := [⟨.time, .ktime, [.const 1], [.const 1]⟩, ⟨.q, .kq, [.var .n], [.var .n]⟩]
  store := [⟨.time, .ktime, [.const 1], [.const 1]⟩, ⟨.q, .kq, [.var .n], [.var .n]⟩]
  alloc := fun | .time => [.const 1] | .q => [.var .n, .const 1] | .other => [.const 2]
  kalloc := fun | .ktime => [.var .nkey, .const 1] | .kq => [.var .nkey, .var .n]

def exKeyTable := exKeySym.toTable
def exKSz : ExKSize → Nat := fun | .nkey => 2 | .n => 4
/-- second keyframe holds a NON-unit "quaternion" `0 0 0 0` -/
def exM : KeyData ExKArr Int := fun | .ktime => [5, 6] | .kq => [3, 0, 4, 0, 0, 0, 0, 0]
def exBase : Data ExKField Int := fun | .time => [0] | .q => [1, 0, 0, 0] | .other => [8, 9]

example : KeyWF exKeyTable := SymKeyTable.wf_sound exKeySym (by decide)
example : KShaped exKeyTable exKSz exM := fun k => by cases k <;> rfl
example : DShaped exKeyTable exKSz exBase := fun f => by cases f <;> rfl
/-- loading key 1 gives the stored zeros, not a "repaired" quaternion; `other` keeps its reset value -/
example : (resetDataKeyframe exKeyTable exKSz exM exBase 1).map (fun d => (d .time, d .q, d .other))
    = .ok ([6], [0, 0, 0, 0], [8, 9]) := by rfl
example : (resetDataKeyframe exKeyTable exKSz exM exBase 0).map (fun d => (d .time, d .q, d .other))
    = .ok ([5], [3, 0, 4, 0], [8, 9]) := by rfl
example : (resetDataKeyframe exKeyTable exKSz exM exBase 2).map (fun d => (d .time, d .q, d .other))
    = .ok ([0], [1, 0, 0, 0], [8, 9]) := by rfl
example : (setKeyframe exKeyTable exKSz exM exBase 0).map (fun m => (m .ktime, m .kq))
    = .ok ([0, 6], [1, 0, 0, 0, 0, 0, 0, 0]) := by rfl
example : (setKeyframe exKeyTable exKSz exM exBase 2).map (fun m => m .ktime) = .error .keyRange := by rfl
example : (setKeyframe exKeyTable exKSz exM exBase (-1)).map (fun m => m .ktime) = .error .keyNeg := by rfl
/-- a table whose load list post-processes nothing but writes one field twice is not `KeyWF` -/
example : ¬ KeyWF ({ exKeyTable with load := exKeyTable.load ++ exKeyTable.load }) := by
  intro h; have := h.load_fields_nodup; simp [exKeyTable, SymKeyTable.toTable, exKeySym, SymKeyRow.toRow] at this

end MjProof.C26
