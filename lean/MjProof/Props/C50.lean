import MjProof.Lemmas.Scene
/-
C50 — Visualization scene construction is bounded and faithful.

Property theorems about the model of `acquireGeom`/`releaseGeom` and of the geom pass of `mjv_addGeoms`
(`MjProof/Model/Scene.lean`).  The capacity theorems quantify over *every* sequence of add attempts (any pass,
any interleaving of kept / abandoned geoms, any return-from-pass policy), every initial scene and every
capacity.  The geom-pass theorems quantify over every list of model geoms, option set, capacity, previous
scene and every instance of the float conversions (`Conv`), hence in particular the IEEE one the driver runs.
-/
namespace MjProof.C50
open MjProof.Scene

/-! ### capacity: any sequence of add attempts -/

/-- `ngeom` never exceeds the capacity, whatever is attempted; the capacity itself is never changed. -/
theorem ngeom_le_maxgeom {G : Type} (as : List (Attempt G)) (s : Scn G) (h : s.ngeom ≤ s.maxgeom) :
    (run as s).1.ngeom ≤ s.maxgeom ∧ (run as s).1.maxgeom = s.maxgeom :=
  ⟨(run_step as s).bounded h, (run_step as s).maxgeom⟩

example : (2 : Nat) ≤ ({ maxgeom := 3, ngeom := 2, status := false, nwarn := 0, mem := fun _ => none } : Scn Nat).maxgeom := by decide

/-- No slot at or beyond the capacity is ever written, and geoms already released are never overwritten. -/
theorem no_write_beyond_capacity {G : Type} (as : List (Attempt G)) (s : Scn G) (i : Nat)
    (h : s.maxgeom ≤ i ∨ i < s.ngeom) : (run as s).1.mem i = s.mem i :=
  (run_step as s).frame i (h.symm)

/-- Overflow is reported: the status flag after the sequence is the old flag or "some acquisition failed"
(it is sticky: nothing in the update clears it), and exactly one warning is issued, on the first failure. -/
theorem overflow_sets_status {G : Type} (as : List (Attempt G)) (s : Scn G) :
    (run as s).1.status = (s.status || (run as s).2) ∧
    (run as s).1.nwarn = s.nwarn + (if !s.status && (run as s).2 then 1 else 0) :=
  ⟨(run_step as s).status, (run_step as s).nwarn⟩

/-- A failed acquisition writes nothing and a successful one writes exactly the slot `ngeom` (< capacity). -/
theorem attempt_footprint {G : Type} (s : Scn G) (mk : Nat → G) (keep : Bool) (i : Nat) :
    (attempt s mk keep).1.mem i ≠ s.mem i → i = s.ngeom ∧ s.ngeom < s.maxgeom := by
  intro hne
  have h := attempt_spec s mk keep
  simp only at h
  obtain ⟨_, hf, ht⟩ := h
  cases hr : (attempt s mk keep).2
  · exact absurd (by rw [(hf hr).2.2.1]) hne
  · obtain ⟨h1, _, h3, _⟩ := ht hr
    refine ⟨?_, h1⟩
    rw [h3] at hne
    unfold write at hne
    by_cases hi : i = s.ngeom
    · exact hi
    · simp [hi] at hne

/-- a non-trivial run: capacity 2, three kept geoms and one abandoned → 2 geoms, status set, one warning -/
example :
    let as : List (Attempt Nat) := [⟨fun k => 10 + k, true, 0⟩, ⟨fun k => 20 + k, false, 0⟩, ⟨fun k => 30 + k, true, 0⟩,
                                    ⟨fun k => 40 + k, true, 5⟩]
    let r := run as { maxgeom := 2, ngeom := 0, status := false, nwarn := 0, mem := fun _ => none }
    sceneGeoms r.1 = [some 10, some 31] ∧ r.1.status = true ∧ r.1.nwarn = 1 ∧ r.2 = true := by
  simp [run, attempt, overflow, write, sceneGeoms, List.range_succ]

/-! ### a concrete instance used by the non-vacuity examples below -/
namespace Example

/-- a toy numeric instance (integers; the transcendental functions are dummies): only used to exhibit concrete
instances of the hypotheses — the theorems are generic in the numeric type and in the conversions -/
instance toyNum : MjNum Int where
  ofInt := id
  ofSci := fun m _ _ => m
  decLt := inferInstance
  decLe := inferInstance
  beq := fun a b => a == b
  sqrt := id
  sin := id
  cos := id
  tan := id
  asin := id
  acos := id
  atan2 := fun a _ => a
  exp := id
  log := id
  abs := fun x => (x.natAbs : Int)
  floor := id
  ceil := id
  isNaN := fun _ => false

def cv : Conv Int Int :=
  { n2f := id, f2n := id, round := id, fadd := (· + ·), fmul := (· * ·), fzero := fun x => x == 0 }
/-- a dynamic unit sphere in group `grp` with alpha `a` -/
def sphere (grp : Int) (a : Int) : GeomIn Int Int :=
  { type := GEOM_SPHERE, group := grp, isStatic := false, dataid := -1, size := #v[1, 0, 0], xpos := #v[0, 0, 1],
    xmat := #v[1, 0, 0, 0, 1, 0, 0, 0, 1], rgba := #v[5, 5, 5, a] }
def opt : Opt := { catmask := 7, visStatic := true, visTransparent := false, geomgroup := #v[true, true, true, false, false, false] }
def env : Env Int Int := { alpha := 3, zfar := 50, extent := 1, cam0 := #v[0, 0, 0], cam1 := #v[0, 0, 0] }
/-- groups 0, 7 (clamped to 5: disabled), 1 with alpha 0 (acquired, not shown), -2 (clamped to 0) -/
def geoms : List (GeomIn Int Int) := [sphere 0 1, sphere 7 1, sphere 1 0, sphere (-2) 1]

theorem shown_two : (shown cv opt env (annotate 0 (-1) geoms)).length = 2 := by decide
theorem acquiring_three : (acquiring opt (annotate 0 (-1) geoms)).length = 3 := by decide
theorem no_infinite_plane : ∀ g ∈ geoms, infinitePlane g = false := by decide

end Example

section pass
variable {α β : Type} [MjNum α]

/-! ### the geom pass is such a sequence, so the capacity theorems apply to `mjv_updateScene` -/

theorem geomPass_is_attempt_sequence (cv : Conv α β) (o : Opt) (env : Env α β) (geoms : List (GeomIn α β))
    (s : Scn (VGeom β)) :
    updateScene cv o env geoms s = (run (attemptsOf cv o env 0 (-1) geoms) { s with ngeom := 0 }).1 :=
  geomPass_eq_run cv o env 0 (-1) geoms _

/-- `mjv_updateScene` never leaves more than `maxgeom` geoms and never writes outside the allocation, for
every model, option set, capacity and previous scene. -/
theorem updateScene_bounded (cv : Conv α β) (o : Opt) (env : Env α β) (geoms : List (GeomIn α β)) (s : Scn (VGeom β)) :
    (updateScene cv o env geoms s).ngeom ≤ s.maxgeom ∧ (updateScene cv o env geoms s).maxgeom = s.maxgeom ∧
    ∀ i, s.maxgeom ≤ i → (updateScene cv o env geoms s).mem i = s.mem i := by
  rw [geomPass_is_attempt_sequence]
  have h := run_step (attemptsOf cv o env 0 (-1) geoms) { s with ngeom := 0 }
  exact ⟨h.bounded (Nat.zero_le _), h.maxgeom, fun i hi => h.frame i (Or.inr hi)⟩

/-! ### faithfulness -/

/-- **The scene is the filter.**  After `mjv_updateScene` with only geom visualization enabled the scene holds
exactly the model geoms whose category and group are enabled and whose alpha is non-zero, in model order,
truncated at the capacity; the k-th of them is built by `mkGeom` with segment id k. -/
theorem geom_only_scene_eq_filter (cv : Conv α β) (o : Opt) (env : Env α β) (geoms : List (GeomIn α β))
    (s : Scn (VGeom β)) :
    sceneGeoms (updateScene cv o env geoms s) =
      built cv o env 0 ((shown cv o env (annotate 0 (-1) geoms)).take s.maxgeom) := by
  have h := (geomPass_spec cv o env 0 (-1) geoms { s with ngeom := 0 } (Nat.zero_le _)).1
  simpa [updateScene, sceneGeoms] using h

/-- number of geoms = min(number of shown geoms, capacity) -/
theorem updateScene_ngeom (cv : Conv α β) (o : Opt) (env : Env α β) (geoms : List (GeomIn α β)) (s : Scn (VGeom β)) :
    (updateScene cv o env geoms s).ngeom = min s.maxgeom (shown cv o env (annotate 0 (-1) geoms)).length := by
  have h := congrArg List.length (geom_only_scene_eq_filter cv o env geoms s)
  rw [sceneGeoms_length, built_length, List.length_take] at h
  exact h

/-- the status flag is set exactly when it was set before or the loop reaches a geom with enabled category
and group while the buffer is full, i.e. some proper prefix of the acquiring geoms already contains
`maxgeom` shown ones -/
theorem status_iff_overflow (cv : Conv α β) (o : Opt) (env : Env α β) (geoms : List (GeomIn α β)) (s : Scn (VGeom β)) :
    (updateScene cv o env geoms s).status = true ↔
      s.status = true ∨
      ∃ n, n < (acquiring o (annotate 0 (-1) geoms)).length ∧
        s.maxgeom ≤ (((acquiring o (annotate 0 (-1) geoms)).take n).filter (fun t => visibleAlpha cv o env t.2.2)).length := by
  have h := (geomPass_spec cv o env 0 (-1) geoms { s with ngeom := 0 } (Nat.zero_le _)).2
  unfold updateScene
  rw [h]
  simp only [Nat.sub_zero, Bool.or_eq_true, hitsFull_iff, List.length_map]
  constructor
  · rintro (h | ⟨n, hn, hc⟩)
    · exact Or.inl h
    · refine Or.inr ⟨n, hn, ?_⟩
      rw [← List.map_take, List.count_eq_countP, List.countP_map, List.countP_eq_length_filter] at hc
      simpa [Function.comp_def] using hc
  · rintro (h | ⟨n, hn, hc⟩)
    · exact Or.inl h
    · refine Or.inr ⟨n, hn, ?_⟩
      rw [← List.map_take, List.count_eq_countP, List.countP_map, List.countP_eq_length_filter]
      simpa [Function.comp_def] using hc

/-- more shown geoms than capacity ⇒ the overflow is reported through the status flag -/
theorem overflow_reported (cv : Conv α β) (o : Opt) (env : Env α β) (geoms : List (GeomIn α β)) (s : Scn (VGeom β))
    (h : s.maxgeom < (shown cv o env (annotate 0 (-1) geoms)).length) :
    (updateScene cv o env geoms s).status = true := by
  have hs := (geomPass_spec cv o env 0 (-1) geoms { s with ngeom := 0 } (Nat.zero_le _)).2
  unfold updateScene
  rw [hs]
  simp only [Nat.sub_zero, Bool.or_eq_true]
  right
  apply hitsFull_of_count
  rw [shown_eq_filter_acquiring] at h
  rw [List.count_eq_countP, List.countP_map, List.countP_eq_length_filter]
  simpa [Function.comp_def] using h

/-- instance: 2 shown geoms, capacity 1 -/
example : ({ maxgeom := 1, ngeom := 9, status := false, nwarn := 0, mem := fun _ => none } : Scn (VGeom Int)).maxgeom <
    (shown Example.cv Example.opt Example.env (annotate 0 (-1) Example.geoms)).length := by
  rw [Example.shown_two]; decide

/-- everything that reaches `acquireGeom` fits ⇒ nothing is dropped and the status flag is untouched -/
theorem complete_when_fits (cv : Conv α β) (o : Opt) (env : Env α β) (geoms : List (GeomIn α β)) (s : Scn (VGeom β))
    (h : (acquiring o (annotate 0 (-1) geoms)).length ≤ s.maxgeom) :
    (updateScene cv o env geoms s).status = s.status ∧
    sceneGeoms (updateScene cv o env geoms s) = built cv o env 0 (shown cv o env (annotate 0 (-1) geoms)) := by
  refine ⟨?_, ?_⟩
  · have hs := (geomPass_spec cv o env 0 (-1) geoms { s with ngeom := 0 } (Nat.zero_le _)).2
    unfold updateScene
    rw [hs, hitsFull_of_fits _ _ (by simpa using h)]
    simp
  · rw [geom_only_scene_eq_filter, List.take_of_length_le]
    rw [shown_eq_filter_acquiring]
    exact Nat.le_trans (List.length_filter_le _ _) h

/-- instance: 3 acquiring geoms (one of them invisible), capacity 3 -/
example : (acquiring Example.opt (annotate 0 (-1) Example.geoms)).length ≤
    ({ maxgeom := 3, ngeom := 0, status := true, nwarn := 0, mem := fun _ => none } : Scn (VGeom Int)).maxgeom := by
  rw [Example.acquiring_three]; decide

/-- the group filter reads `geomgroup` at the clamped group: negative groups use entry 0, groups ≥ 6 entry 5 -/
theorem clampGroup_spec (g : Int) :
    (g ≤ 0 → (clampGroup g).val = 0) ∧ (0 ≤ g → g ≤ 5 → ((clampGroup g).val : Int) = g) ∧ (5 ≤ g → (clampGroup g).val = 5) := by
  unfold clampGroup
  refine ⟨fun h => ?_, fun h1 h2 => ?_, fun h => ?_⟩ <;> simp only <;> omega

/-- **Pose and size are the simulated ones.**  Every geom of the scene comes from a model geom `geoms[i]` with
enabled category/group and non-zero alpha; it carries that index, the geom's world orientation and (unless it
is an infinite plane, which is re-centred under the camera) its world position, converted to float, and the
size prescribed by `mjv_initGeom` for its type. -/
theorem scene_geom_faithful (cv : Conv α β) (o : Opt) (env : Env α β) (geoms : List (GeomIn α β)) (s : Scn (VGeom β))
    (vg : VGeom β) (hv : some vg ∈ sceneGeoms (updateScene cv o env geoms s)) :
    ∃ (i : Nat) (g : GeomIn α β), geoms[i]? = some g ∧ acquires o g = true ∧ visibleAlpha cv o env g = true ∧
      vg.objid = i ∧ vg.objtype = OBJ_GEOM ∧ vg.type = g.type ∧ vg.category = category g ∧
      vg.mat = g.xmat.map cv.n2f ∧ vg.size = sizeOf cv g ∧ vg.rgba = rgbaOf cv o env g ∧
      (infinitePlane g = false → vg.pos = g.xpos.map cv.n2f) := by
  rw [geom_only_scene_eq_filter] at hv
  -- membership in `built`
  have hb : ∀ (k : Nat) (l : List (Nat × Int × GeomIn α β)), some vg ∈ built cv o env k l →
      ∃ t ∈ l, ∃ k', vg = mkGeom cv o env t.1 t.2.1 t.2.2 k' := by
    intro k l
    induction l generalizing k with
    | nil => simp [built]
    | cons t ts ih =>
      simp only [built, List.mem_cons]
      rintro (h | h)
      · exact ⟨t, Or.inl rfl, k, Option.some.inj h⟩
      · obtain ⟨t', ht', k', hk'⟩ := ih (k + 1) h
        exact ⟨t', Or.inr ht', k', hk'⟩
  obtain ⟨t, ht, k', rfl⟩ := hb _ _ hv
  have ht' := List.mem_of_mem_take ht
  simp only [shown, List.mem_filter, Bool.and_eq_true] at ht'
  obtain ⟨hmem, hacq, hvis⟩ := ht'
  obtain ⟨_, hidx⟩ := annotate_mem 0 (-1) geoms t hmem
  refine ⟨t.1, t.2.2, by simpa using hidx, hacq, hvis, rfl, rfl, rfl, rfl, rfl, rfl, rfl, ?_⟩
  intro hinf
  simp only [mkGeom]
  split
  · simp [planePos, hinf]
  · rfl

/-- **Determinism across scene histories.**  Two scenes of equal capacity — whatever they held before, whatever
their previous cameras and status — hold the same geoms after an update with the same model, data and
options, provided no model geom is an infinite plane (those are re-centred under the scene's previous camera,
so their position legitimately depends on it). -/
theorem updateScene_history_independent (cv : Conv α β) (o : Opt) (env env' : Env α β) (geoms : List (GeomIn α β))
    (s s' : Scn (VGeom β)) (hcap : s.maxgeom = s'.maxgeom) (halpha : env.alpha = env'.alpha)
    (hplane : ∀ g ∈ geoms, infinitePlane g = false) :
    sceneGeoms (updateScene cv o env geoms s) = sceneGeoms (updateScene cv o env' geoms s') := by
  rw [geom_only_scene_eq_filter, geom_only_scene_eq_filter, hcap]
  have hrgba : ∀ g : GeomIn α β, rgbaOf cv o env g = rgbaOf cv o env' g := by
    intro g; simp [rgbaOf, halpha]
  have hvis : ∀ g : GeomIn α β, visibleAlpha cv o env g = visibleAlpha cv o env' g := by
    intro g; simp [visibleAlpha, hrgba]
  have hshown : shown cv o env (annotate 0 (-1) geoms) = shown cv o env' (annotate 0 (-1) geoms) := by
    simp [shown, hvis]
  rw [hshown]
  -- `built` agrees on lists all of whose members are not infinite planes
  have hb : ∀ (k : Nat) (l : List (Nat × Int × GeomIn α β)), (∀ t ∈ l, infinitePlane t.2.2 = false) →
      built cv o env k l = built cv o env' k l := by
    intro k l
    induction l generalizing k with
    | nil => intro _; rfl
    | cons t ts ih =>
      intro h
      simp only [built]
      rw [ih (k + 1) (fun t' ht' => h t' (List.mem_cons_of_mem _ ht'))]
      congr 2
      have hinf := h t (List.mem_cons_self)
      simp [mkGeom, planePos, hinf, hrgba]
  apply hb
  intro t ht
  have ht' := List.mem_of_mem_take ht
  simp only [shown, List.mem_filter] at ht'
  obtain ⟨_, hidx⟩ := annotate_mem 0 (-1) geoms t ht'.1
  exact hplane _ (List.mem_of_getElem? hidx)

/-- instance of the hypotheses of `updateScene_history_independent`: two scenes of capacity 2 with different
contents, status and previous cameras; no geom of the model is an infinite plane -/
example : ∃ (s s' : Scn (VGeom Int)) (e e' : Env Int Int), s.maxgeom = s'.maxgeom ∧ s.status ≠ s'.status ∧ s.ngeom ≠ s'.ngeom ∧
    e.cam0 ≠ e'.cam0 ∧ e.alpha = e'.alpha ∧ ∀ g ∈ Example.geoms, infinitePlane g = false :=
  ⟨{ maxgeom := 2, ngeom := 2, status := true, nwarn := 1, mem := fun _ => none },
   { maxgeom := 2, ngeom := 0, status := false, nwarn := 0, mem := fun _ => none },
   Example.env, { Example.env with cam0 := #v[4, 5, 6] }, rfl, by decide, by decide, by decide, rfl, Example.no_infinite_plane⟩

end pass

end MjProof.C50
