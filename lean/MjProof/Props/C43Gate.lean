import MjProof.Spec.MjxGate
import MjProof.Gen.MjxGate
/-
C43, gate half: the feature gate of MJX-JAX extracted from the source of the current tree
(`MjProof/Gen/MjProof.Spec.MjxGate.lean`, translator `translate/c43_gate.py`: every `raise NotImplementedError` of
`_put_option`, `_put_model_jax`, `_make_data_jax`, the enum classes of `types.py`, the keys of
`collision_driver._COLLISION_FUNC`) against the specification transcribed by hand from `doc/mjx.rst`
(`MjProof/Spec/MjProof.Spec.MjxGate.lean`).
-/
namespace MjProof.C43

def sameSet {α : Type} [DecidableEq α] (a b : List α) : Bool :=
  a.all (fun x => decide (x ∈ b)) && b.all (fun x => decide (x ∈ a))

/-- the specification of a category with the listed deviations applied -/
def patched (cat : String) (spec : List String) : List String :=
  spec.filter (fun x => !(MjProof.Spec.MjxGate.deviations.any (fun d => d.category == cat && d.item == x && !d.gateAccepts)))
  ++ ((MjProof.Spec.MjxGate.deviations.filter (fun d => d.category == cat && d.gateAccepts)).map (·.item)).filter (fun x => decide (x ∉ spec))

def look (l : List (String × List String)) (k : String) : List String :=
  match l.lookup k with
  | some v => v
  | none => ["<missing " ++ k ++ ">"]

def pairName (p : String × String) : String := p.1 ++ "-" ++ p.2

/-- what the documentation promises for collisions: every pair the C engine collides, minus the
    unsupported geom types and the pairs of footnote [3] -/
def specCollisions : List String :=
  (MjProof.Gen.MjxGate.cCollisionPairs.filter (fun p =>
      decide (p.1 ∉ MjProof.Spec.MjxGate.unsupportedGeoms) && decide (p.2 ∉ MjProof.Spec.MjxGate.unsupportedGeoms)
      && decide (p ∉ MjProof.Spec.MjxGate.unsupportedCollisions))).map pairName

/-- **The gate in the code is the documented gate** (up to the deviations listed, one by one and with
    their reason, in `Spec/MjProof.Spec.MjxGate.lean`): for every option enum and every model enum the set of
    enumerators that do not raise; the enable flags; the set of geom-type pairs that have a collision
    function, against the C engine's own table minus footnote [3]; the contact-sensor semantics that
    raise; the geom types that refuse a margin; the remaining raise sites; and the categories the code
    does not gate at all (joint and geom types) — all enumerators involved are those of the tree's
    headers.  Decided by kernel evaluation on the finite generated table. -/
theorem gate_matches_spec :
    sameSet (look MjProof.Gen.MjxGate.optionEnums "integrator") (patched "integrator" MjProof.Spec.MjxGate.integrators) = true
    ∧ sameSet (look MjProof.Gen.MjxGate.optionEnums "cone") (patched "cone" MjProof.Spec.MjxGate.cones) = true
    ∧ sameSet (look MjProof.Gen.MjxGate.optionEnums "solver") (patched "solver" MjProof.Spec.MjxGate.solvers) = true
    ∧ sameSet (look MjProof.Gen.MjxGate.optionEnums "jacobian") (patched "jacobian" MjProof.Spec.MjxGate.jacobians) = true
    ∧ MjProof.Gen.MjxGate.optionEnums.map Prod.fst = ["integrator", "cone", "jacobian", "solver"]
    ∧ sameSet MjProof.Gen.MjxGate.enableBits (patched "enable" MjProof.Spec.MjxGate.enableBits) = true
    ∧ sameSet (look MjProof.Gen.MjxGate.modelEnums "actuator_trntype") (patched "transmission" MjProof.Spec.MjxGate.transmissions) = true
    ∧ sameSet (look MjProof.Gen.MjxGate.modelEnums "actuator_dyntype") (patched "dyn" MjProof.Spec.MjxGate.dynTypes) = true
    ∧ sameSet (look MjProof.Gen.MjxGate.modelEnums "actuator_gaintype") (patched "gain" MjProof.Spec.MjxGate.gainTypes) = true
    ∧ sameSet (look MjProof.Gen.MjxGate.modelEnums "actuator_biastype") (patched "bias" MjProof.Spec.MjxGate.biasTypes) = true
    ∧ sameSet (look MjProof.Gen.MjxGate.modelEnums "eq_type") (patched "equality" MjProof.Spec.MjxGate.eqTypes) = true
    ∧ sameSet (look MjProof.Gen.MjxGate.modelEnums "wrap_type") (patched "wrap" MjProof.Spec.MjxGate.wrapTypes) = true
    ∧ sameSet (look MjProof.Gen.MjxGate.modelEnums "sensor_type") (patched "sensor" MjProof.Spec.MjxGate.sensors) = true
    ∧ sameSet (MjProof.Gen.MjxGate.modelEnums.map Prod.fst)
        ["actuator_biastype", "actuator_dyntype", "actuator_gaintype", "actuator_trntype", "eq_type", "sensor_type", "wrap_type"] = true
    ∧ sameSet (MjProof.Gen.MjxGate.collisionPairs.map pairName) (patched "collision" specCollisions) = true
    ∧ sameSet MjProof.Gen.MjxGate.contactSensorRejected
        (MjProof.Spec.MjxGate.contactSensorRejected.filter (fun x => decide (x ∉ patched "contact-sensor" []))) = true
    ∧ sameSet MjProof.Gen.MjxGate.noMarginGeoms (patched "margin" MjProof.Spec.MjxGate.noMarginGeoms) = true
    ∧ sameSet MjProof.Gen.MjxGate.otherChecks (patched "other" MjProof.Spec.MjxGate.otherChecks) = true
    ∧ sameSet MjProof.Gen.MjxGate.jointTypes (look MjProof.Gen.MjxGate.allEnumerators "mjtJoint") = true
    ∧ sameSet MjProof.Gen.MjxGate.jointTypes MjProof.Spec.MjxGate.jointTypes = true
    ∧ sameSet MjProof.Gen.MjxGate.geomTypes MjProof.Spec.MjxGate.geomTypes = true := by
  decide

/-- every deviation names a category the theorem above patches (no dead entries) -/
theorem deviations_used :
    MjProof.Spec.MjxGate.deviations.all (fun d => decide (d.category ∈
      ["integrator", "cone", "solver", "jacobian", "enable", "transmission", "dyn", "gain", "bias", "equality", "wrap",
       "sensor", "collision", "contact-sensor", "margin", "other"])) = true := by
  decide

end MjProof.C43
