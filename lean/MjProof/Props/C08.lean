import MjProof.Lemmas.Energy
import MjProof.Gen.Kernels
import MjProof.Props.C05
import Mathlib.Analysis.Calculus.Deriv.Pow
import Mathlib.Analysis.Calculus.Deriv.Add
import Mathlib.Analysis.Calculus.Deriv.Mul
import Mathlib.Analysis.Calculus.Deriv.Comp
/-
C08  Conservative systems conserve energy and momentum.

What is proved here (over ℝ, for all inputs):
  * `kinetic_eq_half_vMv`        the model of `mj_energyVel` (sparse symmetric product `mj_mulM` + `mju_dot`)
                                  equals ½ vᵀ M v with `M` the symmetric matrix stored in the lower-triangular CSR;
                                  `kinetic_matrix_symm`, `fullM_is_stored_matrix`: that matrix is symmetric and is
                                  what `mj_fullM` (`mju_sym2dense`) returns;
  * `spring_force_is_neg_grad`   for slide/hinge joints the spring force coded in `mj_passive`
                                  (`-x * mju_polyForce(k, poly, x)`, x = q − q_spring) is minus the derivative of the
                                  potential coded in `mj_energyPos` (`mju_polyPotential(k, poly, x)`), both
                                  kernels translated from the source on every run; `spring_potential_at_ref`:
                                  potential and force vanish at the reference;
  * `joint_loop_force_is_neg_grad`  the same for the whole joint loops INCLUDING their skip test
                                  (`stiffness == 0 && mju_isZero(poly, mjNPOLY)`): for any number of slide/hinge
                                  joints, `qfrc_spring[j]` of the model of `mj_springdamper` is minus the partial derivative
                                  of `energy[0]` of the model of `mj_energyPos` (Model/Energy.lean, tied bitwise to the
                                  engine on every run) with respect to `q j`;
                                  `skip_test_iff_no_potential`: the skip test holds exactly for the springs whose
                                  potential is identically zero (so a joint with a purely polynomial spring is not skipped);
  * `rk4_order_conditions`       the tableau extracted from `mj_RungeKutta` satisfies the eight order-4 conditions
                                  (C05's theorem about the generated tableau, re-exported);
  * `rk4_energy_oscillator_partial`  for the harmonic oscillator one RK4 step with the generated tableau multiplies
                                  the energy by exactly 1 − z⁶/72 + z⁸/576, z = hω (so the drift over a fixed horizon
                                  is O(h⁵) there).
NOT proved (oracle only, checks/c08.py): fourth-order energy drift for general conservative multibody systems and
conservation of linear/angular momentum — consequences of classical theorems about Runge–Kutta methods and
Newton–Euler dynamics that are not formalised here.
-/
namespace MjProof.C08
open MjProof MjProof.Energy

/-! ### kinetic energy -/

/-- `energy[1]` as computed by (the model of) `mj_energyVel` equals `½ Σᵢ vᵢ Σⱼ Mᵢⱼ vⱼ`. -/
theorem kinetic_eq_half_vMv {n : ℕ} (rows : Fin n → SymRow ℝ n) (hwf : wf rows = true) (v : Fin n → ℝ) :
    energyVel rows v = 1 / 2 * ∑ i, v i * ∑ j, symMat rows i j * v j :=
  energyVel_real rows ((wf_iff rows).mp hwf) v

/-- `mj_mulM` (model of `mju_mulSymVecSparse`) is the product with that matrix, component by component -/
theorem mulM_eq_matrix_product {n : ℕ} (rows : Fin n → SymRow ℝ n) (hwf : wf rows = true) (v : Fin n → ℝ)
    (i : Fin n) : mulSymVec rows v i = ∑ j, symMat rows i j * v j :=
  mulSymVec_eq rows ((wf_iff rows).mp hwf) v i

theorem kinetic_matrix_symm {n : ℕ} (rows : Fin n → SymRow ℝ n) (i j : Fin n) :
    symMat rows i j = symMat rows j i := symMat_symm rows i j

/-- the dense matrix returned by (the model of) `mj_fullM` is that same matrix (no column stored twice in a row) -/
theorem fullM_is_stored_matrix {n : ℕ} (rows : Fin n → SymRow ℝ n) (hwf : wf rows = true)
    (hnd : ∀ i, ((rows i).offs.map (·.1)).Nodup) (i j : Fin n) : denseEntry rows i j = symMat rows i j :=
  denseEntry_eq rows ((wf_iff rows).mp hwf) hnd i j

/-- non-vacuity: a 2×2 inertia `[[2, 1/2], [1/2, 3]]` stored as rows `[2]`, `[(0, 1/2), 3]` -/
example : ∃ rows : Fin 2 → SymRow ℝ 2, wf rows = true ∧ (∀ i, ((rows i).offs.map (·.1)).Nodup) ∧
    symMat rows 0 1 = 1 / 2 := by
  refine ⟨![⟨[], 2⟩, ⟨[(0, 1 / 2)], 3⟩], ?_, ?_, ?_⟩
  · rw [wf_iff]; intro i p hp; fin_cases i <;> simp_all
  · intro i; fin_cases i <;> simp
  · simp [symMat]

/-! ### joint springs: force = −d potential / dq -/

/-- `qfrc_spring` of a slide/hinge joint as coded in `mj_passive` -/
noncomputable def springForce (k p0 p1 qspring q : ℝ) : ℝ :=
  -(q - qspring) * Gen.c08_polyForce k p0 p1 (q - qspring)

/-- its contribution to `energy[0]` as coded in `mj_energyPos` -/
noncomputable def springPotential (k p0 p1 qspring q : ℝ) : ℝ :=
  Gen.c08_polyPotential k p0 p1 (q - qspring)

/-- **The spring force is minus the gradient of the reported spring potential** (slide and hinge joints),
    for every stiffness, every polynomial coefficients, every reference and every position. -/
theorem spring_force_is_neg_grad (k p0 p1 qspring q : ℝ) :
    HasDerivAt (springPotential k p0 p1 qspring) (-(springForce k p0 p1 qspring q)) q := by
  have hfun : springPotential k p0 p1 qspring =
      fun q => 1 / 2 * k * (q - qspring) ^ 2 + p0 / 3 * (q - qspring) ^ 3 + p1 / 4 * (q - qspring) ^ 4 := by
    funext q; exact polyPotential_real k p0 p1 (q - qspring)
  have hu : HasDerivAt (fun q : ℝ => q - qspring) 1 q := (hasDerivAt_id q).sub_const qspring
  have h2 := (hu.pow 2).const_mul (1 / 2 * k)
  have h3 := (hu.pow 3).const_mul (p0 / 3)
  have h4 := (hu.pow 4).const_mul (p1 / 4)
  have h := (h2.add h3).add h4
  rw [hfun]
  refine h.congr_deriv ?_
  unfold springForce
  rw [polyForce_real]
  simp only [Nat.cast_ofNat]
  ring

/-- potential and force vanish at the spring reference -/
theorem spring_potential_at_ref (k p0 p1 qspring : ℝ) :
    springPotential k p0 p1 qspring qspring = 0 ∧ springForce k p0 p1 qspring qspring = 0 := by
  unfold springPotential springForce
  rw [polyPotential_real, polyForce_real]
  simp

/-! ### the joint loops of `mj_energyPos` / `mj_springdamper` with their skip test -/

/-- **The skip test of the joint loops drops exactly the springs without potential**: `stiffness == 0 &&
    mju_isZero(poly, mjNPOLY)` holds iff the potential coded in `mj_energyPos` vanishes for every displacement
    (in particular a spring with zero linear stiffness and a non-zero polynomial coefficient is NOT skipped). -/
theorem skip_test_iff_no_potential (k p0 p1 : ℝ) :
    noSpring k p0 p1 = true ↔ ∀ x : ℝ, Gen.c08_polyPotential k p0 p1 x = 0 := by
  rw [noSpring_real]
  constructor
  · rintro ⟨rfl, rfl, rfl⟩ x
    rw [polyPotential_real]; ring
  · intro h
    have h1 := h 1
    have h2 := h (-1)
    have h3 := h 2
    rw [polyPotential_real] at h1 h2 h3
    refine ⟨?_, ?_, ?_⟩ <;> linarith

/-- the engine's view of `n` slide/hinge joints at position `q` (joint `j` owns dof `j`), any gravity term,
    springs enabled, no tendons -/
noncomputable def potIn {n : ℕ} (gOn : Bool) (g0 g1 g2 : ℝ) (bodies : List (Body ℝ)) (P : Fin n → ScalarSpring)
    (q : Fin n → ℝ) : PotIn ℝ :=
  ⟨gOn, g0, g1, g2, bodies, true, (List.finRange n).map (scalarJoint P q), []⟩

/-- `energy[0]` of the modelled `mj_energyPos` = (position-independent gravity term of fixed bodies) + the sum of the
    UNGUARDED spring potentials: the skip test drops only zero terms -/
theorem energyPos_scalarJoints {n : ℕ} (gOn : Bool) (g0 g1 g2 : ℝ) (bodies : List (Body ℝ))
    (P : Fin n → ScalarSpring) (q : Fin n → ℝ) :
    energyPos (potIn gOn g0 g1 g2 bodies P q) =
      energyPos (potIn (n := 0) gOn g0 g1 g2 bodies (fun i => i.elim0) (fun i => i.elim0)) + ∑ j, potTerm P q j := by
  unfold energyPos potIn
  simp only [if_true, List.foldl_nil, foldl_jointPotential, List.finRange_zero, List.map_nil, Fin.sum_univ_def]

/-- `qfrc_spring[j]` of the modelled `mj_springdamper` is the UNGUARDED spring force of joint `j` -/
theorem springForce_scalarJoints {n : ℕ} (gOn : Bool) (g0 g1 g2 : ℝ) (bodies : List (Body ℝ))
    (P : Fin n → ScalarSpring) (q : Fin n → ℝ) (j : Fin n) :
    springForceFn (potIn gOn g0 g1 g2 bodies P q) j.val = forceTerm P q j := by
  unfold springForceFn potIn
  simp only [if_true, List.foldl_nil]
  rw [foldl_jointForce P q _ (List.nodup_finRange n)]
  by_cases hs : noSpring (P j).k (P j).p0 (P j).p1 = true
  · simp [hs, forceTerm_of_noSpring P q j hs, zero_real]
  · simp [hs]

/-- **Spring forces are minus the gradient of the reported spring potential, through the joint loops and their
    skip test**: for any number of slide/hinge joints with arbitrary (possibly zero, possibly purely polynomial)
    spring coefficients and any position, `qfrc_spring[j]` computed by the model of `mj_springdamper` is minus the
    partial derivative with respect to `q j` of `energy[0]` computed by the model of `mj_energyPos`. -/
theorem joint_loop_force_is_neg_grad {n : ℕ} (gOn : Bool) (g0 g1 g2 : ℝ) (bodies : List (Body ℝ))
    (P : Fin n → ScalarSpring) (q : Fin n → ℝ) (j : Fin n) :
    HasDerivAt (fun t => energyPos (potIn gOn g0 g1 g2 bodies P (Function.update q j t)))
      (-(springForceFn (potIn gOn g0 g1 g2 bodies P q) j.val)) (q j) := by
  rw [springForce_scalarJoints]
  set C := energyPos (potIn (n := 0) gOn g0 g1 g2 bodies (fun i => i.elim0) (fun i => i.elim0)) with hC
  set K := C + ∑ i ∈ Finset.univ.erase j, potTerm P q i with hK
  have key : (fun t => energyPos (potIn gOn g0 g1 g2 bodies P (Function.update q j t))) =
      fun t => springPotential (P j).k (P j).p0 (P j).p1 (P j).qspring t + K := by
    funext t
    rw [energyPos_scalarJoints, ← Finset.add_sum_erase _ _ (Finset.mem_univ j)]
    have h1 : potTerm P (Function.update q j t) j = springPotential (P j).k (P j).p0 (P j).p1 (P j).qspring t := by
      simp [potTerm, springPotential]
    have h2 : ∑ i ∈ Finset.univ.erase j, potTerm P (Function.update q j t) i =
        ∑ i ∈ Finset.univ.erase j, potTerm P q i := by
      refine Finset.sum_congr rfl fun i hi => ?_
      have hne : i ≠ j := Finset.ne_of_mem_erase hi
      simp [potTerm, Function.update_of_ne hne]
    rw [h1, h2, hK]; ring
  rw [key]
  have h := (spring_force_is_neg_grad (P j).k (P j).p0 (P j).p1 (P j).qspring (q j)).add_const K
  have hf : forceTerm P q j = springForce (P j).k (P j).p0 (P j).p1 (P j).qspring (q j) := rfl
  rw [hf]
  exact h

/-- non-vacuity: two joints, the second with a purely cubic potential (`k = 0`, `p1 = 40`): it is not skipped and
    its force at `q = 0.9` is `-(0.9) * 40 * 0.9²` -/
example : noSpring (0 : ℝ) 0 40 = false ∧
    forceTerm (n := 2) ![⟨3, 0, 0, 0⟩, ⟨0, 0, 40, 0⟩] ![0.1, 0.9] 1 = -(0.9) * (40 * 0.9 ^ 2) := by
  constructor
  · simp [noSpring, polyIsZero, zero_real]
  · simp [forceTerm, polyForce_real]

/-! ### RK4 tableau -/

/-- the tableau extracted from `mj_RungeKutta` satisfies the eight conditions for order 4 (C05) -/
theorem rk4_order_conditions :
    (∑ i, C05.b i = 1) ∧ (∑ i, C05.b i * C05.c i = 1/2) ∧ (∑ i, C05.b i * C05.c i ^ 2 = 1/3) ∧
    (∑ i, ∑ j, C05.b i * C05.a i j * C05.c j = 1/6) ∧ (∑ i, C05.b i * C05.c i ^ 3 = 1/4) ∧
    (∑ i, ∑ j, C05.b i * C05.c i * C05.a i j * C05.c j = 1/8) ∧
    (∑ i, ∑ j, C05.b i * C05.a i j * C05.c j ^ 2 = 1/12) ∧
    (∑ i, ∑ j, ∑ k, C05.b i * C05.a i j * C05.a j k * C05.c k = 1/24) :=
  C05.rk4_order_conditions

/-- harmonic oscillator `x' = v, v' = −ω² x` -/
noncomputable def oscF (ω : ℝ) (y : ℝ × ℝ) : ℝ × ℝ := (y.2, -(ω ^ 2) * y.1)
noncomputable def oscEnergy (ω : ℝ) (y : ℝ × ℝ) : ℝ := 1 / 2 * (y.2 ^ 2 + ω ^ 2 * y.1 ^ 2)

/-- one explicit four-stage Runge–Kutta step with the GENERATED tableau (`C05.a`, `C05.b` read `RK4_A`, `RK4_B`
    the way `mj_RungeKutta` indexes them) -/
noncomputable def rkStep (f : ℝ × ℝ → ℝ × ℝ) (h : ℝ) (y : ℝ × ℝ) : ℝ × ℝ :=
  let k0 := f y
  let k1 := f (y + h • (C05.a 1 0 • k0))
  let k2 := f (y + h • (C05.a 2 0 • k0 + C05.a 2 1 • k1))
  let k3 := f (y + h • (C05.a 3 0 • k0 + C05.a 3 1 • k1 + C05.a 3 2 • k2))
  y + h • (C05.b 0 • k0 + C05.b 1 • k1 + C05.b 2 • k2 + C05.b 3 • k3)

/-- **Partial** (a special case of the drift claim): on the harmonic oscillator one RK4 step with the
    generated tableau multiplies the energy by exactly `1 − z⁶/72 + z⁸/576`, `z = hω`: the per-step energy
    error is O(h⁶), the drift over a fixed horizon O(h⁵) ≤ O(h⁴).  Missing for the full property: the same
    bound for general (nonlinear, multibody) conservative systems — a consequence of the order conditions
    via the classical convergence theorem for Runge–Kutta methods, which is not formalised; the oracle of
    checks/c08.py measures the observed order on generated models instead. -/
theorem rk4_energy_oscillator_partial (ω h : ℝ) (y : ℝ × ℝ) :
    oscEnergy ω (rkStep (oscF ω) h y) =
      oscEnergy ω y * (1 - (h * ω) ^ 6 / 72 + (h * ω) ^ 8 / 576) := by
  have ha : C05.a 1 0 = 1 / 2 ∧ C05.a 2 0 = 0 ∧ C05.a 2 1 = 1 / 2 ∧ C05.a 3 0 = 0 ∧ C05.a 3 1 = 0 ∧
      C05.a 3 2 = 1 := by
    simp only [C05.a, Integrate.rk4A_real]
    norm_num [List.getD]
  have hb : C05.b 0 = 1 / 6 ∧ C05.b 1 = 1 / 3 ∧ C05.b 2 = 1 / 3 ∧ C05.b 3 = 1 / 6 := by
    simp only [C05.b, Integrate.rk4B_real]
    norm_num [List.getD]
  obtain ⟨a10, a20, a21, a30, a31, a32⟩ := ha
  obtain ⟨b0, b1, b2, b3⟩ := hb
  obtain ⟨x, v⟩ := y
  simp only [rkStep, oscF, oscEnergy, a10, a20, a21, a30, a31, a32, b0, b1, b2, b3, Prod.smul_mk, Prod.mk_add_mk,
    smul_eq_mul]
  ring

end MjProof.C08
