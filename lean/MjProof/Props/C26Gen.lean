import MjProof.Props.C26
import MjProof.Gen.StateTable
/-
C26, part 2: the table regenerated from the current source tree (`MjProof/Gen/StateTable.lean`,
translator `translate/c26_tables.py`) satisfies the hypothesis `WF` of the generic theorems of
`Props/C26.lean`.
-/
namespace MjProof.C26
open List MjProof.State

/-- The regenerated table is well formed: `mjNSTATE ≤ 30`, one `case` per bit below `mjNSTATE`,
    distinct bits, distinct `mjData` fields, and for every element the size expression returned by
    `mj_stateElemSize` has the same normal form (coefficient, multiset of size names) as the
    allocated dimension `nr*nc` of the field returned by `mj_stateElemPtr` — hence the same value
    for EVERY assignment of model sizes (`SizeExpr.equiv_sound`); a special-case loop moves exactly
    `size` entries and is used iff the field is stored as `mjtBool`.
    Decided by kernel evaluation of the syntactic check on the finite generated table. -/
theorem generated_table_wf : WF Gen.stateTable :=
  SymTable.wf_sound Gen.stateSym (by decide)

/-! ### the generic theorems instantiated on the generated table (no `WF` hypothesis left) -/

theorem gen_size_eq_length_getState {α : Type} (sz : Gen.StateSize → Nat) {d : Data Gen.StateField α}
    (hd : Shaped Gen.stateTable sz d) (sig : Int) :
    stateSize Gen.stateTable sz sig = (getState Gen.stateTable sz d sig).map List.length :=
  size_eq_length_getState generated_table_wf hd sig

theorem gen_copy_eq_set_get {α : Type} (cast : α → α) (sz : Gen.StateSize → Nat)
    {src dst : Data Gen.StateField α} (hs : Shaped Gen.stateTable sz src)
    (hdst : Shaped Gen.stateTable sz dst) (hb : BoolOK Gen.stateTable cast src) (sig : Int) :
    copyState Gen.stateTable sz src dst sig
      = (getState Gen.stateTable sz src sig >>= fun v => setState Gen.stateTable sz cast v sig dst) :=
  copy_eq_set_get generated_table_wf cast hs hdst hb sig

/-! ### non-vacuity on the generated table -/

/-- all model sizes 2 -/
def sz0 : Gen.StateSize → Nat := fun _ => 2
/-- every field filled with ones -/
def d1 : Data Gen.StateField Int := fun f => List.replicate (Gen.stateTable.alloc f sz0) 1

example : Shaped Gen.stateTable sz0 d1 := fun f => by simp [d1]
example : BoolOK Gen.stateTable castInt d1 := by
  intro e _ _ x hx
  have : x = 1 := by simp [d1] at hx; exact hx.2
  subst this; rfl
/-- the full signature is served -/
example : ∃ v, getState Gen.stateTable sz0 d1 (2 ^ Gen.stateTable.nstate - 1) = .ok v :=
  getState_total generated_table_wf (fun f => by simp [d1]) _ (by decide) (by decide)

end MjProof.C26
