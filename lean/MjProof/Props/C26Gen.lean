import MjProof.Props.C26
import MjProof.Props.C26Key
import MjProof.Gen.StateTable
/-
C26, part 2: the table regenerated from the current source tree (`MjProof/Gen/StateTable.lean`,
translator `translate/c26_tables.py`) satisfies the hypothesis `WF` of the generic theorems of
`Props/C26.lean`.
-/
namespace MjProof.C26
open List MjProof.State

/-- The regenerated table is well formed: `mjNSTATE ≤ 30`, one `case` per bit below `mjNSTATE`,
    distinct bits, distinct `mjData` fields, and for every element the size expression returned by
    `mj_stateElemSize` has the same normal form (coefficient, multiset of size names) as the
    allocated dimension `nr*nc` of the field returned by `mj_stateElemPtr` — hence the same value
    for EVERY assignment of model sizes (`SizeExpr.equiv_sound`); a special-case loop moves exactly
    `size` entries and is used iff the field is stored as `mjtBool`.
    Decided by kernel evaluation of the syntactic check on the finite generated table. -/
theorem generated_table_wf : WF Gen.stateTable :=
  SymTable.wf_sound Gen.stateSym (by decide)

/-! ### the generic theorems instantiated on the generated table (no `WF` hypothesis left) -/

theorem gen_size_eq_length_getState {α : Type} (sz : Gen.StateSize → Nat) {d : Data Gen.StateField α}
    (hd : Shaped Gen.stateTable sz d) (sig : Int) :
    stateSize Gen.stateTable sz sig = (getState Gen.stateTable sz d sig).map List.length :=
  size_eq_length_getState generated_table_wf hd sig

theorem gen_copy_eq_set_get {α : Type} (cast : α → α) (sz : Gen.StateSize → Nat)
    {src dst : Data Gen.StateField α} (hs : Shaped Gen.stateTable sz src)
    (hdst : Shaped Gen.stateTable sz dst) (hb : BoolOK Gen.stateTable cast src) (sig : Int) :
    copyState Gen.stateTable sz src dst sig
      = (getState Gen.stateTable sz src sig >>= fun v => setState Gen.stateTable sz cast v sig dst) :=
  copy_eq_set_get generated_table_wf cast hs hdst hb sig

/-! ### keyframes: the generated lists of copies of `mj_resetDataKeyframe` / `mj_setKeyframe` -/

/-- The regenerated keyframe table is well formed: `mj_resetDataKeyframe` writes no `mjData` field
    twice and `mj_setKeyframe` no `key_*` array twice; in every copy the stride `key*N` and the count
    `N` agree, `N` is the allocated length of the `mjData` field (`MJDATA_POINTERS`) and the `key_*`
    array holds `nkey` rows of `N` entries (`MJMODEL_POINTERS`) — compared as normal forms, hence for
    EVERY assignment of model sizes; everything that is loaded is also stored.  (That the two bodies
    contain nothing but these copies is what the translator's template match establishes.) -/
theorem generated_keytable_wf : KeyWF Gen.keyTable :=
  SymKeyTable.wf_sound Gen.keySym (by decide)

theorem gen_key_load_exact {α : Type} (sz : Gen.StateSize → Nat) {m : KeyData Gen.KeyArray α}
    (hm : KShaped Gen.keyTable sz m) {base : Data Gen.StateField α} (hb : DShaped Gen.keyTable sz base)
    (key : Int) (h0 : 0 ≤ key) (h1 : key < Gen.keyTable.nkey sz) :
    ∃ d', resetDataKeyframe Gen.keyTable sz m base key = .ok d' ∧ DShaped Gen.keyTable sz d' ∧
      (∀ r, r ∈ Gen.keyTable.load → d' r.field = keyRow (m r.key) key.toNat (r.size sz)) ∧
      (∀ f, (∀ r, r ∈ Gen.keyTable.load → r.field ≠ f) → d' f = base f) :=
  key_load_exact generated_keytable_wf hm hb key h0 h1

theorem gen_key_set_load_roundtrip {α : Type} (sz : Gen.StateSize → Nat) {m : KeyData Gen.KeyArray α}
    (hm : KShaped Gen.keyTable sz m) {d base : Data Gen.StateField α} (hd : DShaped Gen.keyTable sz d)
    (hb : DShaped Gen.keyTable sz base) (k : Int) (h0 : 0 ≤ k) (h1 : k < Gen.keyTable.nkey sz) :
    ∃ m' d', setKeyframe Gen.keyTable sz m d k = .ok m' ∧ resetDataKeyframe Gen.keyTable sz m' base k = .ok d' ∧
      (∀ r, r ∈ Gen.keyTable.load → d' r.field = d r.field) ∧
      (∀ f, (∀ r, r ∈ Gen.keyTable.load → r.field ≠ f) → d' f = base f) :=
  key_set_load_roundtrip generated_keytable_wf hm hd hb k h0 h1

/-- the same allocation function serves both tables, so `Shaped` data of the state API is `DShaped` -/
theorem gen_shaped_iff {α : Type} (sz : Gen.StateSize → Nat) (d : Data Gen.StateField α) :
    Shaped Gen.stateTable sz d ↔ DShaped Gen.keyTable sz d := Iff.rfl

/-! ### non-vacuity on the generated table -/

/-- all model sizes 2 -/
def sz0 : Gen.StateSize → Nat := fun _ => 2
/-- every field filled with ones -/
def d1 : Data Gen.StateField Int := fun f => List.replicate (Gen.stateTable.alloc f sz0) 1

example : Shaped Gen.stateTable sz0 d1 := fun f => by simp [d1]
example : BoolOK Gen.stateTable castInt d1 := by
  intro e _ _ x hx
  have : x = 1 := by simp [d1] at hx; exact hx.2
  subst this; rfl
/-- the full signature is served -/
example : ∃ v, getState Gen.stateTable sz0 d1 (2 ^ Gen.stateTable.nstate - 1) = .ok v :=
  getState_total generated_table_wf (fun f => by simp [d1]) _ (by decide) (by decide)

/-- key arrays of two keyframes filled with zeros (e.g. all-zero quaternions) -/
def m0 : KeyData Gen.KeyArray Int := fun k => List.replicate (Gen.keyTable.kalloc k sz0) 0
example : KShaped Gen.keyTable sz0 m0 := fun k => by simp [m0]
example : DShaped Gen.keyTable sz0 d1 := fun f => by simp [d1, Gen.keyTable, SymKeyTable.toTable, Gen.keySym, Gen.stateTable, State.SymTable.toTable]
example : (1 : Int) < Gen.keyTable.nkey sz0 := by decide

end MjProof.C26
