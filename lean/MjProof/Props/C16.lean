import MjProof.Lemmas.Ray
import MjProof.Lemmas.RayPrims
/-
C16  Ray casting returns the nearest intersection (DESIGN.md §5.C16).

Kernel theorems are about the *generated* definitions `MjProof.Gen.ray_quad`, `mju_rayGeom_plane`,
`mju_rayGeom_sphere`, `mju_rayGeom_ellipsoid`, `mju_rayGeom_box`, `mju_rayGeom_cylinder`, `mju_rayGeom_capsule`
(translated by `translate/c2lean.py` from `src/engine/engine_ray.c` of the working tree on every run; these are
the `normal == NULL` paths of the exported `mju_rayGeom`, specialised per geom type) at `α := ℝ`, through the
uncurrying wrappers of `MjProof.RayLemmas` (`raySphere pos r pnt vec := mju_rayGeom_sphere pos.1 … vec.2.2`).
Geometry is stated in the geom frame: `toLocal pos mat q = mat' (q - pos)` is what the code's own `ray_map`
computes (`rayMap_eq`), and it is affine along the ray (`toLocal_pointAt`), so no orthonormality of `mat` is
needed except where a bounding-sphere pre-test is involved (`IsRot`).
`eps` is `mjMINVAL` (1e-15).  Reals, not doubles: rounding is outside the proofs (trusted base).

Selection theorems are about the hand model `MjProof.Ray` (tied to the real `ray_eliminate`, `mj_ray`,
`mj_multiRay` by exact correspondence on every run).
-/
namespace MjProof.C16
open MjProof MjProof.Gen MjProof.Ray MjProof.RayLemmas

/-! ### the quadratic helper `ray_quad` (solves `a x² + 2 b x + c = 0`) -/

/-- `ray_quad` returns the smallest non-negative root, and −1 exactly when there is none
    (for `a ≥ mjMINVAL`; below that the code reports "no solution", see `ray_quad_rejects`). -/
theorem ray_quad_smallest_nonneg_root (a b c : ℝ) (ha : eps ≤ a) :
    (0 ≤ (ray_quad a b c).1 → Q a b c (ray_quad a b c).1 = 0) ∧
    (∀ t, 0 ≤ t → Q a b c t = 0 → 0 ≤ (ray_quad a b c).1 ∧ (ray_quad a b c).1 ≤ t) ∧
    ((ray_quad a b c).1 = -1 ↔ ¬ ∃ t, 0 ≤ t ∧ Q a b c t = 0) ∧
    ((ray_quad a b c).1 = -1 ∨ 0 ≤ (ray_quad a b c).1) :=
  ⟨fun h => quadRet_root h, fun _ ht hq => quadRet_least ha ht hq, quadRet_neg_iff ha, quadRet_range a b c⟩

example : eps ≤ (1 : ℝ) := by unfold eps; norm_num

/-- the two output slots `x[0] ≤ x[1]` are exactly the two real roots (discriminant ≥ 0, `a ≥ mjMINVAL`) -/
theorem ray_quad_outputs (a b c : ℝ) (ha : eps ≤ a) (hd : 0 ≤ b * b - a * c) :
    (ray_quad a b c).2.1 ≤ (ray_quad a b c).2.2 ∧
    Q a b c (ray_quad a b c).2.1 = 0 ∧ Q a b c (ray_quad a b c).2.2 = 0 ∧
    ∀ t, Q a b c t = 0 → t = (ray_quad a b c).2.1 ∨ t = (ray_quad a b c).2.2 := by
  have hapos : 0 < a := lt_of_lt_of_le eps_pos ha
  have hc : ¬ (b * b - a * c < 0 ∨ a < eps) := by push Not; exact ⟨hd, ha⟩
  rw [ray_quad_eq, if_neg hc]
  exact ⟨root0_le_root1 hapos, Q_root0 hapos.ne' hd, Q_root1 hapos.ne' hd, fun t ht => (Q_zero_iff hapos.ne' hd t).mp ht⟩

example : eps ≤ (2 : ℝ) ∧ (0 : ℝ) ≤ 1 * 1 - 2 * (-3) := by unfold eps; norm_num

/-- the guard of `ray_quad`: negative discriminant or `a < mjMINVAL` gives (−1, −1, −1);
    with a negative discriminant (and a > 0) there is indeed no real root -/
theorem ray_quad_rejects (a b c : ℝ) (h : b * b - a * c < 0 ∨ a < eps) :
    ray_quad a b c = (-1, -1, -1) ∧ (0 < a → b * b - a * c < 0 → ∀ t, Q a b c t ≠ 0) := by
  refine ⟨by rw [ray_quad_eq, if_pos h], fun ha hd t => Q_ne_zero_of_disc_neg ha hd t⟩

/-! ### ray–sphere (`mju_rayGeom` with `mjGEOM_SPHERE`) -/

/-- squared distance of the ray point at parameter `t` to the sphere centre -/
def sphereDistSq (pos pnt vec : V3) (t : ℝ) : ℝ :=
  dot3 (sub3 (pointAt pnt vec t) pos) (sub3 (pointAt pnt vec t) pos)

/-- a returned `x ≥ 0` puts `pnt + x·vec` on the sphere -/
theorem sphere_hit_on_surface (pos : V3) (r : ℝ) (pnt vec : V3) (h : 0 ≤ raySphere pos r pnt vec) :
    sphereDistSq pos pnt vec (raySphere pos r pnt vec) = r * r := by
  rw [raySphere_eq] at h ⊢
  have := quadRet_root h
  rw [sphere_Q] at this
  unfold sphereDistSq
  linarith

/-- no smaller non-negative parameter is on the sphere, and if any is, a hit is reported -/
theorem sphere_nearest (pos : V3) (r : ℝ) (pnt vec : V3) (hv : eps ≤ dot3 vec vec) (t : ℝ) (ht : 0 ≤ t)
    (hon : sphereDistSq pos pnt vec t = r * r) :
    0 ≤ raySphere pos r pnt vec ∧ raySphere pos r pnt vec ≤ t := by
  rw [raySphere_eq]
  apply quadRet_least hv ht
  rw [sphere_Q]; unfold sphereDistSq at hon; linarith

/-- −1 exactly when no point of the ray (t ≥ 0) is on the sphere; the only other values are ≥ 0 -/
theorem sphere_miss_iff (pos : V3) (r : ℝ) (pnt vec : V3) (hv : eps ≤ dot3 vec vec) :
    (raySphere pos r pnt vec = -1 ↔ ¬ ∃ t, 0 ≤ t ∧ sphereDistSq pos pnt vec t = r * r) ∧
    (raySphere pos r pnt vec = -1 ∨ 0 ≤ raySphere pos r pnt vec) := by
  refine ⟨?_, by rw [raySphere_eq]; exact quadRet_range _ _ _⟩
  constructor
  · rintro h ⟨t, ht, hon⟩
    have := (sphere_nearest pos r pnt vec hv t ht hon).1
    rw [h] at this; norm_num at this
  · intro h
    have hr : raySphere pos r pnt vec = -1 ∨ 0 ≤ raySphere pos r pnt vec := by
      rw [raySphere_eq]; exact quadRet_range _ _ _
    rcases hr with h1 | h1
    · exact h1
    · exact absurd ⟨_, h1, sphere_hit_on_surface pos r pnt vec h1⟩ h

example : eps ≤ dot3 ((1 : ℝ), (0 : ℝ), (0 : ℝ)) ((1 : ℝ), (0 : ℝ), (0 : ℝ)) := by
  simp only [dot3, eps]; norm_num

/-- non-vacuity: the ray from (−2,0,0) along +x hits the unit sphere at the origin at parameter 1 (the near side) -/
example : raySphere ((0 : ℝ), (0 : ℝ), (0 : ℝ)) 1 ((-2 : ℝ), (0 : ℝ), (0 : ℝ)) ((1 : ℝ), (0 : ℝ), (0 : ℝ)) = 1 := by
  have hv : eps ≤ dot3 ((1 : ℝ), (0 : ℝ), (0 : ℝ)) ((1 : ℝ), (0 : ℝ), (0 : ℝ)) := by simp only [dot3, eps]; norm_num
  have h1 := sphere_nearest ((0 : ℝ), (0 : ℝ), (0 : ℝ)) 1 ((-2 : ℝ), (0 : ℝ), (0 : ℝ)) ((1 : ℝ), (0 : ℝ), (0 : ℝ)) hv 1
    (by norm_num) (by simp only [sphereDistSq, dot3, sub3, pointAt]; norm_num)
  have h2 := sphere_hit_on_surface ((0 : ℝ), (0 : ℝ), (0 : ℝ)) 1 ((-2 : ℝ), (0 : ℝ), (0 : ℝ)) ((1 : ℝ), (0 : ℝ), (0 : ℝ)) h1.1
  simp only [sphereDistSq, dot3, sub3, pointAt] at h2
  nlinarith [h1.1, h1.2]

/-! ### ray–ellipsoid (`mjGEOM_ELLIPSOID`): surface `Σ l_i² / size_i² = 1` in the geom frame -/

/-- value of the ellipsoid's implicit function at the ray point of parameter `t`, in the geom frame -/
noncomputable def ellAt (pos : V3) (m : M9) (size pnt vec : V3) (t : ℝ) : ℝ :=
  ellF size (toLocal pos m (pointAt pnt vec t))

theorem ellipsoid_hit_on_surface (pos : V3) (m : M9) (size pnt vec : V3)
    (h : 0 ≤ rayEllipsoid pos m size pnt vec) :
    ellAt pos m size pnt vec (rayEllipsoid pos m size pnt vec) = 1 := by
  rw [rayEllipsoid_eq] at h ⊢
  have := quadRet_root h
  rw [ellipsoid_Q] at this
  unfold ellAt
  rw [toLocal_pointAt]
  linarith

/-- nearest: the hypothesis is the code's own guard `a ≥ mjMINVAL` on the scaled direction -/
theorem ellipsoid_nearest (pos : V3) (m : M9) (size pnt vec : V3) (hv : eps ≤ ellF size (rotT m vec))
    (t : ℝ) (ht : 0 ≤ t) (hon : ellAt pos m size pnt vec t = 1) :
    0 ≤ rayEllipsoid pos m size pnt vec ∧ rayEllipsoid pos m size pnt vec ≤ t := by
  rw [rayEllipsoid_eq]
  have hQ := ellipsoid_Q size (toLocal pos m pnt) (rotT m vec) t
  refine quadRet_least (a := ellA size (rotT m vec)) hv ht ?_
  rw [hQ]
  unfold ellAt at hon
  rw [toLocal_pointAt] at hon
  linarith

theorem ellipsoid_miss_iff (pos : V3) (m : M9) (size pnt vec : V3) (hv : eps ≤ ellF size (rotT m vec)) :
    (rayEllipsoid pos m size pnt vec = -1 ↔ ¬ ∃ t, 0 ≤ t ∧ ellAt pos m size pnt vec t = 1) ∧
    (rayEllipsoid pos m size pnt vec = -1 ∨ 0 ≤ rayEllipsoid pos m size pnt vec) := by
  have hr : rayEllipsoid pos m size pnt vec = -1 ∨ 0 ≤ rayEllipsoid pos m size pnt vec := by
    rw [rayEllipsoid_eq]; exact quadRet_range _ _ _
  refine ⟨?_, hr⟩
  constructor
  · rintro h ⟨t, ht, hon⟩
    have := (ellipsoid_nearest pos m size pnt vec hv t ht hon).1
    rw [h] at this; norm_num at this
  · intro h
    rcases hr with h1 | h1
    · exact h1
    · exact absurd ⟨_, h1, ellipsoid_hit_on_surface pos m size pnt vec h1⟩ h

example : eps ≤ ellF ((1 : ℝ), (2 : ℝ), (3 : ℝ))
    (rotT ((1 : ℝ), (0 : ℝ), (0 : ℝ), (0 : ℝ), (1 : ℝ), (0 : ℝ), (0 : ℝ), (0 : ℝ), (1 : ℝ)) ((0 : ℝ), (0 : ℝ), (1 : ℝ))) := by
  simp only [ellF, rotT, eps]; norm_num

/-! ### ray–plane (`mjGEOM_PLANE`): front face only, optional finite rectangle -/

/-- the geom-frame point `l` is on the rendered part of the plane: `z = 0`, within `size[0]`, `size[1]` when positive -/
def OnPlane (size l : V3) : Prop :=
  l.2.2 = 0 ∧ (size.1 ≤ 0 ∨ |l.1| ≤ size.1) ∧ (size.2.1 ≤ 0 ∨ |l.2.1| ≤ size.2.1)

/-- the geom-frame `z` coordinate is the signed distance along the plane normal `(mat[2], mat[5], mat[8])`
    (for any `mat`): "z = 0" is "the point is on the plane through `pos` with that normal" -/
theorem toLocal_z (pos : V3) (m : M9) (q : V3) :
    (toLocal pos m q).2.2 = dot3 (m.2.2.1, m.2.2.2.2.2.1, m.2.2.2.2.2.2.2.2) (sub3 q pos) := by
  obtain ⟨p0, p1, p2⟩ := pos; obtain ⟨m0, m1, m2, m3, m4, m5, m6, m7, m8⟩ := m; obtain ⟨q0, q1, q2⟩ := q
  simp only [toLocal, rotT, sub3, dot3]

/-- a returned `x ≥ 0` is a front-face hit: the direction has geom-frame z-component ≤ −mjMINVAL (sign convention
    of the code: rays travelling against the plane normal) and the point is on the rendered plane -/
theorem plane_hit_on_surface (pos : V3) (m : M9) (size pnt vec : V3) (h : 0 ≤ rayPlane pos m size pnt vec) :
    (rotT m vec).2.2 ≤ -eps ∧
    OnPlane size (toLocal pos m (pointAt pnt vec (rayPlane pos m size pnt vec))) := by
  rw [toLocal_pointAt]
  rw [rayPlane_eq] at h ⊢
  simp only at h ⊢
  have he := eps_pos
  split_ifs at h ⊢ with h1 h2 h3
  · norm_num at h
  · norm_num at h
  · push Not at h1 h2
    have hz : (rotT m vec).2.2 ≠ 0 := by intro hc; rw [hc] at h1; linarith
    refine ⟨h1, ?_, h3.1, h3.2⟩
    simp only [pointAt]
    field_simp
    ring
  · norm_num at h

/-- for a direction towards the front face the intersection parameter with the plane is unique, and the code returns it -/
theorem plane_unique (pos : V3) (m : M9) (size pnt vec : V3) (hv : (rotT m vec).2.2 ≤ -eps) (t : ℝ) (ht : 0 ≤ t)
    (hon : OnPlane size (toLocal pos m (pointAt pnt vec t))) :
    rayPlane pos m size pnt vec = t := by
  rw [toLocal_pointAt] at hon
  obtain ⟨hz, hx, hy⟩ := hon
  simp only [pointAt] at hz hx hy
  have he := eps_pos
  have hz0 : (rotT m vec).2.2 ≠ 0 := by intro hc; rw [hc] at hv; linarith
  have hx' : -(toLocal pos m pnt).2.2 / (rotT m vec).2.2 = t := by
    field_simp
    linarith
  rw [rayPlane_eq]
  simp only
  rw [hx']
  have h1 : ¬ (-eps < (rotT m vec).2.2) := by push Not; exact hv
  have h2 : ¬ (t < 0) := by push Not; exact ht
  rw [if_neg h1, if_neg h2, if_pos ⟨hx, hy⟩]

/-- nearest-hit form of `plane_unique` -/
theorem plane_nearest (pos : V3) (m : M9) (size pnt vec : V3) (hv : (rotT m vec).2.2 ≤ -eps) (t : ℝ) (ht : 0 ≤ t)
    (hon : OnPlane size (toLocal pos m (pointAt pnt vec t))) :
    0 ≤ rayPlane pos m size pnt vec ∧ rayPlane pos m size pnt vec ≤ t := by
  rw [plane_unique pos m size pnt vec hv t ht hon]; exact ⟨ht, le_refl _⟩

/-- −1 exactly when there is no admissible (front-face, within the rectangle, t ≥ 0) intersection -/
theorem plane_miss_iff (pos : V3) (m : M9) (size pnt vec : V3) :
    (rayPlane pos m size pnt vec = -1 ↔
      ¬ ((rotT m vec).2.2 ≤ -eps ∧ ∃ t, 0 ≤ t ∧ OnPlane size (toLocal pos m (pointAt pnt vec t)))) ∧
    (rayPlane pos m size pnt vec = -1 ∨ 0 ≤ rayPlane pos m size pnt vec) := by
  have hr : rayPlane pos m size pnt vec = -1 ∨ 0 ≤ rayPlane pos m size pnt vec := by
    rw [rayPlane_eq]
    simp only
    split_ifs with h1 h2 h3
    · left; rfl
    · left; rfl
    · right; push Not at h2; exact h2
    · left; rfl
  refine ⟨?_, hr⟩
  constructor
  · rintro h ⟨hv, t, ht, hon⟩
    rw [plane_unique pos m size pnt vec hv t ht hon] at h
    linarith
  · intro h
    rcases hr with h1 | h1
    · exact h1
    · have := plane_hit_on_surface pos m size pnt vec h1
      exact absurd ⟨this.1, _, h1, this.2⟩ h

/-- non-vacuity: straight down onto the infinite ground plane from height 3 -/
example : rayPlane ((0 : ℝ), (0 : ℝ), (0 : ℝ)) ((1 : ℝ), (0 : ℝ), (0 : ℝ), (0 : ℝ), (1 : ℝ), (0 : ℝ), (0 : ℝ), (0 : ℝ), (1 : ℝ))
    ((0 : ℝ), (0 : ℝ), (1 : ℝ)) ((0 : ℝ), (0 : ℝ), (3 : ℝ)) ((0 : ℝ), (0 : ℝ), (-1 : ℝ)) = 3 := by
  apply plane_unique
  · simp only [rotT, eps]; norm_num
  · norm_num
  · simp only [OnPlane, toLocal, rotT, sub3, pointAt]; norm_num

/-! ### ray–box, ray–cylinder, ray–capsule (`OnBox`, `OnCylinder`, `OnCapsule`: `MjProof/Lemmas/RayPrims.lean`)

`…_partial`: proved is soundness (a returned `x ≥ 0` is on the surface, with the face/cap/side conditions of the code) and
the range (−1 or ≥ 0).  NOT proved: that no smaller non-negative parameter is on the surface and that −1 is returned only
when there is none (this needs the convexity argument through the bounding-sphere pre-test and the `|lvec_i| > mjMINVAL`
guards); that half is covered by the analytic oracle of checks/c16.py only. -/

/-- a returned `x ≥ 0` puts the point on the boundary of the box `|l_i| ≤ size_i` (geom frame), for any `mat` -/
theorem box_hit_on_surface_partial (pos : V3) (m : M9) (size pnt vec : V3) (h : 0 ≤ rayBox pos m size pnt vec) :
    OnBox size (toLocal pos m (pointAt pnt vec (rayBox pos m size pnt vec))) :=
  RayLemmas.box_hit_on_surface pos m size pnt vec h

theorem box_range (pos : V3) (m : M9) (size pnt vec : V3) :
    rayBox pos m size pnt vec = -1 ∨ 0 ≤ rayBox pos m size pnt vec :=
  RayLemmas.box_range pos m size pnt vec

/-- a returned `x ≥ 0` puts the point on the cylinder surface (flat caps `|z| = size[1]` within the radius, or the round
    side `x² + y² = size[0]²` between the caps), for any `mat` -/
theorem cylinder_hit_on_surface_partial (pos : V3) (m : M9) (size pnt vec : V3) (h : 0 ≤ rayCylinder pos m size pnt vec) :
    OnCylinder size (toLocal pos m (pointAt pnt vec (rayCylinder pos m size pnt vec))) :=
  RayLemmas.cylinder_hit_on_surface pos m size pnt vec h

theorem cylinder_range (pos : V3) (m : M9) (size pnt vec : V3) :
    rayCylinder pos m size pnt vec = -1 ∨ 0 ≤ rayCylinder pos m size pnt vec :=
  RayLemmas.cylinder_range pos m size pnt vec

/-- a returned `x ≥ 0` puts the point on the capsule surface (round side between the cap centres, or the outer half of
    a cap sphere), for any `mat` -/
theorem capsule_hit_on_surface_partial (pos : V3) (m : M9) (size pnt vec : V3) (h : 0 ≤ rayCapsule pos m size pnt vec) :
    OnCapsule size (toLocal pos m (pointAt pnt vec (rayCapsule pos m size pnt vec))) :=
  RayLemmas.capsule_hit_on_surface pos m size pnt vec h

theorem capsule_range (pos : V3) (m : M9) (size pnt vec : V3) :
    rayCapsule pos m size pnt vec = -1 ∨ 0 ≤ rayCapsule pos m size pnt vec :=
  RayLemmas.capsule_range pos m size pnt vec

/-! ### the geom filter `ray_eliminate` -/

/-- visible: the alpha that the code inspects (the geom's own when it has no material, else the material's) is non-zero -/
def Visible (g : GeomAttr) : Prop := if g.matid < 0 then g.geomAlpha0 = false else g.matAlpha0 = false

/-- the group mask admits the geom: no mask, or the entry of the geom's group clamped to `[0, mjNGROUP-1]` is set -/
def GroupOn (mask : Option (Vector Bool nGroup)) (g : GeomAttr) : Prop :=
  match mask with
  | none => True
  | some m => m[clampGroup g.group] = true

/-- the documented filter: not on the excluded body, visible, not static unless `flg_static`, group enabled -/
def Eligible (g : GeomAttr) (mask : Option (Vector Bool nGroup)) (flgStatic : Bool) (bodyexclude : Int) : Prop :=
  g.bodyid ≠ bodyexclude ∧ Visible g ∧ (flgStatic = true ∨ g.weld0 = false) ∧ GroupOn mask g

/-- `ray_eliminate` keeps exactly the geoms that pass the documented filter -/
theorem eliminate_matches_spec (g : GeomAttr) (mask : Option (Vector Bool nGroup)) (flgStatic : Bool) (bodyexclude : Int) :
    rayEliminate g mask flgStatic bodyexclude = false ↔ Eligible g mask flgStatic bodyexclude := by
  unfold rayEliminate Eligible Visible GroupOn
  by_cases h1 : g.bodyid = bodyexclude
  · simp [h1]
  · by_cases h2 : g.matid < 0
    · have h2' : ¬ g.matid ≥ 0 := by omega
      cases hg : g.geomAlpha0 <;> cases hs : flgStatic <;> cases hw : g.weld0 <;> cases mask <;> simp [h1, h2, h2']
    · have h2' : g.matid ≥ 0 := by omega
      cases hg : g.matAlpha0 <;> cases hs : flgStatic <;> cases hw : g.weld0 <;> cases mask <;> simp [h1, h2, h2']

/-- the group index: negative groups count as group 0, groups above 5 as group 5 -/
theorem clampGroup_spec (g : Int) :
    (g ≤ 0 → (clampGroup g).val = 0) ∧ (5 ≤ g → (clampGroup g).val = 5) ∧
    (0 ≤ g → g ≤ 5 → ((clampGroup g).val : Int) = g) := by
  unfold clampGroup
  refine ⟨?_, ?_, ?_⟩ <;> intro h <;> simp only <;> split <;> split <;> omega

/-- geoms of the excluded body are always eliminated; static geoms are eliminated iff `flg_static` is off (other filters passing) -/
theorem eliminate_bodyexclude (g : GeomAttr) (mask : Option (Vector Bool nGroup)) (flgStatic : Bool) :
    rayEliminate g mask flgStatic g.bodyid = true := by
  unfold rayEliminate; simp

theorem eliminate_static (g : GeomAttr) (mask : Option (Vector Bool nGroup)) (bodyexclude : Int) (hw : g.weld0 = true) :
    rayEliminate g mask false bodyexclude = true := by
  have := (eliminate_matches_spec g mask false bodyexclude).not
  by_contra hc
  have h2 : rayEliminate g mask false bodyexclude = false := by
    cases h : rayEliminate g mask false bodyexclude
    · rfl
    · exact absurd h hc
  have := (eliminate_matches_spec g mask false bodyexclude).mp h2
  rcases this.2.2.1 with h | h
  · simp at h
  · rw [hw] at h; simp at h

/-! ### `mj_ray`: minimum over the eligible geoms -/

/-- geom `k` of the scene passes the filter and is hit at distance `d` -/
def HitAt (gs : List (GeomAttr × ℝ)) (mask : Option (Vector Bool nGroup)) (flgStatic : Bool) (bodyexclude : Int)
    (k : Nat) (d : ℝ) : Prop :=
  ∃ g, gs[k]? = some (g, d) ∧ Eligible g mask flgStatic bodyexclude ∧ 0 ≤ d

/-- `mj_ray` returns the minimum of the per-geom distances over the geoms that pass the filter and are hit; the geom
    id is the first index attaining it; and `(-1, -1)` is returned exactly when no eligible geom is hit. -/
theorem ray_all_min (gs : List (GeomAttr × ℝ)) (mask : Option (Vector Bool nGroup)) (flgStatic : Bool) (bodyexclude : Int) :
    let r := mjRayFiltered gs mask flgStatic bodyexclude
    (∀ k d, HitAt gs mask flgStatic bodyexclude k d → 0 ≤ r.1 ∧ r.1 ≤ d) ∧
    (0 ≤ r.1 → ∃ k : Nat, r.2 = (k : Int) ∧ HitAt gs mask flgStatic bodyexclude k r.1 ∧
        ∀ j d', j < k → HitAt gs mask flgStatic bodyexclude j d' → r.1 < d') ∧
    (r = (-1, -1) ↔ ¬ ∃ k d, HitAt gs mask flgStatic bodyexclude k d) ∧
    (r.1 < 0 ↔ r.2 = -1) ∧ (r.1 = -1 ∨ 0 ≤ r.1) := by
  intro r
  set fl : List (Bool × ℝ) := gs.map fun p => (rayEliminate p.1 mask flgStatic bodyexclude, p.2) with hfl
  have hr : r = rayLoop fl 0 ((-1 : ℝ), (-1 : Int)) := by
    show mjRayFiltered gs mask flgStatic bodyexclude = _
    unfold mjRayFiltered
    rw [mjRay_real]
  obtain ⟨hA, hB, _, hD⟩ := rayLoop_spec fl 0 ((-1 : ℝ), (-1 : Int))
  rw [← hr] at hA hB hD
  -- translate between flags and the documented filter
  have hget : ∀ (k : Nat) (d : ℝ), fl[k]? = some (false, d) ↔ ∃ g, gs[k]? = some (g, d) ∧ Eligible g mask flgStatic bodyexclude := by
    intro k d
    rw [hfl, List.getElem?_map]
    cases hk : gs[k]? with
    | none => simp
    | some p =>
      obtain ⟨g, d'⟩ := p
      simp only [Option.map_some, Option.some.injEq, Prod.mk.injEq]
      constructor
      · rintro ⟨he, rfl⟩
        exact ⟨g, ⟨rfl, rfl⟩, (eliminate_matches_spec g mask flgStatic bodyexclude).mp he⟩
      · rintro ⟨g', ⟨rfl, rfl⟩, hel⟩
        exact ⟨(eliminate_matches_spec g mask flgStatic bodyexclude).mpr hel, rfl⟩
  have hhit : ∀ (k : Nat) (d : ℝ), HitAt gs mask flgStatic bodyexclude k d ↔ (fl[k]? = some (false, d) ∧ 0 ≤ d) := by
    intro k d
    unfold HitAt
    rw [hget]
    constructor
    · rintro ⟨g, h1, h2, h3⟩; exact ⟨⟨g, h1, h2⟩, h3⟩
    · rintro ⟨⟨g, h1, h2⟩, h3⟩; exact ⟨g, h1, h2, h3⟩
  have hrange : r.1 = -1 ∨ 0 ≤ r.1 := by
    rcases hA with h | ⟨k, d, _, hd, hrr, _, _⟩
    · left; rw [h]
    · right; rw [hrr]; exact hd
  have hnone : r = (-1, -1) ↔ ¬ ∃ k d, HitAt gs mask flgStatic bodyexclude k d := by
    constructor
    · rintro h ⟨k, d, hh⟩
      have := (hB k d ((hhit k d).mp hh).1 ((hhit k d).mp hh).2).1
      rw [h] at this; norm_num at this
    · intro h
      rcases hA with h1 | ⟨k, d, hk, hd, _, _, _⟩
      · exact h1
      · exact absurd ⟨k, d, (hhit k d).mpr ⟨hk, hd⟩⟩ h
  refine ⟨?_, ?_, hnone, ?_, hrange⟩
  · intro k d hh
    exact hB k d ((hhit k d).mp hh).1 ((hhit k d).mp hh).2
  · intro h0
    rcases hA with h1 | ⟨k, d, hk, hd, hrr, hfirst, _⟩
    · rw [h1] at h0; norm_num at h0
    · refine ⟨k, by rw [hrr]; simp, ?_, ?_⟩
      · rw [hrr]; exact (hhit k d).mpr ⟨hk, hd⟩
      · intro j d' hj hh
        rw [hrr]
        exact hfirst j d' hj ((hhit j d').mp hh).1 ((hhit j d').mp hh).2
  · constructor
    · intro hneg
      rw [hD hneg]
    · intro hid
      rcases hA with h1 | ⟨k, d, _, _, hrr, _, _⟩
      · rw [h1]; norm_num
      · rw [hrr] at hid
        have h2 : ((0 + k : Nat) : Int) = -1 := hid
        omega

/-- non-vacuity of `ray_all_min`: two eligible geoms, the nearer one (index 1) wins -/
example : mjRay [(false, (3 : ℝ)), (false, (2 : ℝ)), (true, (1 : ℝ))] = ((2 : ℝ), (1 : Int)) := by
  rw [mjRay_real]
  simp only [rayLoop]
  rcases rayStep_cases ((-1 : ℝ), (-1 : Int)) 0 false 3 with ⟨_, _, _, h⟩ | ⟨h, _⟩
  · rw [h]
    rcases rayStep_cases ((3 : ℝ), ((0 : Nat) : Int)) 1 false 2 with ⟨_, _, _, h2⟩ | ⟨h2, _⟩
    · rw [h2]
      rcases rayStep_cases ((2 : ℝ), ((1 : Nat) : Int)) 2 true 1 with ⟨h3, _⟩ | ⟨_, h3⟩
      · simp at h3
      · rw [h3]; norm_num
    · exact absurd ⟨rfl, by norm_num, Or.inl (by norm_num)⟩ h2
  · exact absurd ⟨rfl, by norm_num, Or.inr (by norm_num)⟩ h

/-! ### `mj_multiRay` -/

/-- with culling that only removes geoms the ray does not hit and no too-short direction, `mj_multiRay` is the map of
    `mj_ray` (same distances, every `geomid` entry written with the same geom id) -/
theorem multiRay_eq_map_ray (rays : List (MultiRayIn ℝ))
    (hshort : ∀ r ∈ rays, r.short = false)
    (hsound : ∀ r ∈ rays, ∀ g ∈ r.geoms, g.culled = true → ¬ 0 ≤ g.dist) :
    multiRay rays = rays.map fun r =>
      let x := mjRay (r.geoms.map fun g => (g.elim, g.dist)); (x.1, some x.2) := by
  unfold multiRay
  apply List.map_congr_left
  intro r hr
  rw [if_neg (by rw [hshort r hr]; simp)]
  have : singleRay r.geoms = mjRay (r.geoms.map fun g => (g.elim, g.dist)) := by
    unfold singleRay
    rw [mjRay_real, mjRay_real]
    apply rayLoop_congr_nohit _ _ (by simp)
    intro k hk
    simp only [List.getElem_map]
    refine ⟨by first | rfl | trivial, ?_⟩
    have hk' : k < r.geoms.length := by simpa using hk
    cases hc : (r.geoms[k]'hk').culled
    · left; simp
    · right; exact hsound r hr _ (List.getElem_mem hk') hc
  rw [this]

/-- the quirk of the C code the model reproduces: a ray with `dot(vec,vec) < mjMINVAL` gets distance −1 and its `geomid`
    entry is left unwritten -/
theorem multiRay_short (r : MultiRayIn ℝ) (h : r.short = true) :
    multiRay [r] = [((-1 : ℝ), none)] := by
  unfold multiRay
  simp [h]

end MjProof.C16
