import MjProof.Lemmas.OrientRot
import MjProof.Lemmas.Attach
/-
C36  Equivalent model descriptions compile to equivalent physics — the orientation spellings.

Theorems over ℝ about the executable model `Model/Orient.lean` of `ResolveOrientation` (user_objects.cc) and of the
frame accumulators of user_util.cc (whose straight-line kernels are the definitions generated from the source),
instantiated with `π = Real.pi`: every orientation spelling yields the quaternion of the rotation it denotes.
The pose semantics of `mjs_attach` (every attachment point x attached element, `Model/Attach.lean`) is modelled and
proved equal to the written-out description.  Defaults, fusestatic, discardvisual and `mj_setConst` are NOT modelled
(oracle only).
-/
set_option linter.unusedSimpArgs false
set_option linter.unusedVariables false
set_option linter.unusedTactic false
set_option linter.unreachableTactic false
namespace MjProof.C36
open MjProof MjProof.Gen MjProof.Orient

/-! ### degrees versus radians -/

/-- with `degree` set an angle `x` is used as `x / 180 · π` -/
theorem degree_scaling (x : ℝ) : toRad Real.pi true x = x / 180 * Real.pi ∧ toRad Real.pi false x = x := by
  simp only [toRad, L, real_ofInt, if_true, Bool.false_eq_true, if_false]
  push_cast
  constructor <;> first | rfl | trivial

/-- an axis-angle or Euler spelling in degrees is the same spelling in radians with the angles scaled by `π/180` -/
theorem degree_vs_radian (q0 : Q ℝ) (seq : Nat × Nat × Nat) (a : V3 ℝ) (θ e0 e1 e2 : ℝ) :
    resolveOrientation Real.pi q0 true seq (.axisangle a θ) =
      resolveOrientation Real.pi q0 false seq (.axisangle a (θ / 180 * Real.pi)) ∧
    resolveOrientation Real.pi q0 true seq (.euler e0 e1 e2) =
      resolveOrientation Real.pi q0 false seq (.euler (e0 / 180 * Real.pi) (e1 / 180 * Real.pi) (e2 / 180 * Real.pi)) := by
  simp only [resolveOrientation, toRad, L, real_ofInt, if_true, Bool.false_eq_true, if_false]
  push_cast
  constructor <;> first | rfl | trivial

/-- the explicit quaternion is passed through untouched -/
theorem quat_spelling (q0 : Q ℝ) (deg : Bool) (seq : Nat × Nat × Nat) :
    resolveOrientation Real.pi q0 deg seq .quat = .ok q0 := rfl

/-! ### axis-angle -/

/-- an axis-angle spelling with a normalisable axis gives `(cos φ/2, sin φ/2 · â)` -/
theorem axisangle_quat (q0 : Q ℝ) (deg : Bool) (seq : Nat × Nat × Nat) (a : V3 ℝ) (θ : ℝ) (ha : Normalisable a) :
    resolveOrientation Real.pi q0 deg seq (.axisangle a θ) =
      .ok ⟨Real.cos (toRad Real.pi deg θ / 2), Real.sin (toRad Real.pi deg θ / 2) * (unitize a).x,
           Real.sin (toRad Real.pi deg θ / 2) * (unitize a).y, Real.sin (toRad Real.pi deg θ / 2) * (unitize a).z⟩ := by
  have hl : (L 2 : ℝ) = 2 := by simp only [L, real_ofInt]; push_cast; rfl
  simp only [resolveOrientation, normvec3_normalisable a ha, if_neg (sqrt_not_lt_eps a ha), real_cos, real_sin, hl]

/-- the quaternion `(cos φ/2, sin φ/2 · u)` of a unit axis `u` is a unit quaternion whose rotation matrix fixes `u`
    and has trace `1 + 2 cos φ`: it is the rotation by `φ` about `u` -/
theorem axisangle_denotes_rotation (u : V3 ℝ) (φ : ℝ) (hu : nsq3 u = 1) :
    let q : Q ℝ := ⟨Real.cos (φ / 2), Real.sin (φ / 2) * u.x, Real.sin (φ / 2) * u.y, Real.sin (φ / 2) * u.z⟩
    nsq q = 1 ∧ mulvecmat u (matF q) = u ∧ (matF q).m0 + (matF q).m4 + (matF q).m8 = 1 + 2 * Real.cos φ := by
  obtain ⟨x, y, z⟩ := u
  have hu' : x * x + y * y + z * z = 1 := by simpa [nsq3] using hu
  have h1 := cos_half_sq_sub φ
  have h3 := cos_half_sq_add φ
  set c := Real.cos (φ / 2)
  set s := Real.sin (φ / 2)
  have hn : c * c + s * x * (s * x) + s * y * (s * y) + s * z * (s * z) = 1 := by
    have : c * c + s * x * (s * x) + s * y * (s * y) + s * z * (s * z) = c * c + s * s * (x * x + y * y + z * z) := by ring
    rw [this, hu']; linarith
  refine ⟨by simpa [nsq] using hn, ?_, ?_⟩
  · simp only [mulvecmat_eq, matF, V3.mk.injEq]
    refine ⟨?_, ?_, ?_⟩
    · linear_combination (x * s * s) * hu' + x * h3
    · linear_combination (y * s * s) * hu' + y * h3
    · linear_combination (z * s * s) * hu' + z * h3
  · simp only [matF]
    linear_combination (-(s * s)) * hu' + 2 * h1 + h3

example : Normalisable (⟨0, 0, 2⟩ : V3 ℝ) := by
  right
  have h4 : nsq3 (⟨0, 0, 2⟩ : V3 ℝ) = 2 ^ 2 := by simp only [nsq3]; norm_num
  rw [h4, Real.sqrt_sq (by norm_num)]
  refine ⟨?_, ?_⟩
  · rw [mjEPS_eq]; norm_num
  · rw [mjEPS_eq]; norm_num

/-! ### Euler sequences: all `6³ = 216` letter patterns -/

/-- rotation-matrix counterpart of one step of the Euler loop: lower case = moving axes = post-multiplication,
    upper case = fixed axes = pre-multiplication -/
noncomputable def eulerMatStep (M : M9 ℝ) (l : ELetter) (θ : ℝ) : M9 ℝ :=
  if l.moving then mulmat M (elemRot l.ax θ) else mulmat (elemRot l.ax θ) M

theorem eulerStep_unit (q : Q ℝ) (l : ELetter) (e : ℝ) (hq : nsq q = 1) : nsq (eulerStep q l e) = 1 := by
  unfold eulerStep
  split
  · exact nsq_mulquat _ _ hq (nsq_eulerRot _ _)
  · exact nsq_mulquat _ _ (nsq_eulerRot _ _) hq

theorem matF_eulerStep (q : Q ℝ) (l : ELetter) (e : ℝ) (hq : nsq q = 1) :
    matF (eulerStep q l e) = eulerMatStep (matF q) l e := by
  unfold eulerStep eulerMatStep
  split
  · rw [mulquat_unit _ _ hq (nsq_eulerRot _ _), matF_hamilton, matF_eulerRot]
  · rw [mulquat_unit _ _ (nsq_eulerRot _ _) hq, matF_hamilton, matF_eulerRot]

/-- **Euler spelling**: for every one of the `6³` sequences of letters `x y z X Y Z` (by ASCII code) the resolved
    quaternion is a unit quaternion whose rotation matrix is the product of the three elementary rotations, each
    post-multiplied for a lower-case letter (intrinsic / moving axes) and pre-multiplied for an upper-case letter
    (extrinsic / fixed axes), with the angles converted from degrees when `degree` is set -/
theorem euler_denotes_rotation_product (q0 : Q ℝ) (deg : Bool) (c0 c1 c2 : Nat) (l0 l1 l2 : ELetter) (e0 e1 e2 : ℝ)
    (h0 : ELetter.ofCode c0 = some l0) (h1 : ELetter.ofCode c1 = some l1) (h2 : ELetter.ofCode c2 = some l2) :
    ∃ q, resolveOrientation Real.pi q0 deg (c0, c1, c2) (.euler e0 e1 e2) = .ok q ∧ nsq q = 1 ∧
      matF q = eulerMatStep (eulerMatStep (eulerMatStep matOne l0 (toRad Real.pi deg e0)) l1 (toRad Real.pi deg e1))
                 l2 (toRad Real.pi deg e2) := by
  have u0 := eulerStep_unit qunit l0 (toRad Real.pi deg e0) nsq_qunit
  have u1 := eulerStep_unit _ l1 (toRad Real.pi deg e1) u0
  have u2 := eulerStep_unit _ l2 (toRad Real.pi deg e2) u1
  refine ⟨eulerStep (eulerStep (eulerStep qunit l0 (toRad Real.pi deg e0)) l1 (toRad Real.pi deg e1)) l2 (toRad Real.pi deg e2), ?_, u2, ?_⟩
  · simp only [resolveOrientation, h0, h1, h2, normvec4_unit _ u2]
  · rw [matF_eulerStep _ _ _ u1, matF_eulerStep _ _ _ u0, matF_eulerStep _ _ _ nsq_qunit, matF_qunit]

/-- the table of accepted letters is exactly `x y z X Y Z`; any other character is rejected -/
theorem euler_letters (c : Nat) :
    (ELetter.ofCode c).isSome ↔ c = 'x'.toNat ∨ c = 'y'.toNat ∨ c = 'z'.toNat ∨ c = 'X'.toNat ∨ c = 'Y'.toNat ∨ c = 'Z'.toNat := by
  simp only [ELetter.ofCode]
  constructor
  · intro h
    split_ifs at h with a b c d e f <;> simp_all [Char.toNat]
  · rintro (h | h | h | h | h | h) <;> subst h <;> decide

/-- the default sequence `xyz` is `R = Rx(e0) · Ry(e1) · Rz(e2)`, and `XYZ` is `R = Rz(e2) · Ry(e1) · Rx(e0)` -/
theorem euler_xyz_XYZ (q0 : Q ℝ) (e0 e1 e2 : ℝ) :
    (∃ q, resolveOrientation Real.pi q0 false (120, 121, 122) (.euler e0 e1 e2) = .ok q ∧
       matF q = mulmat (mulmat (elemRot .x e0) (elemRot .y e1)) (elemRot .z e2)) ∧
    (∃ q, resolveOrientation Real.pi q0 false (88, 89, 90) (.euler e0 e1 e2) = .ok q ∧
       matF q = mulmat (elemRot .z e2) (mulmat (elemRot .y e1) (elemRot .x e0))) := by
  constructor
  · obtain ⟨q, hq, _, hm⟩ := euler_denotes_rotation_product q0 false 120 121 122 ⟨.x, true⟩ ⟨.y, true⟩ ⟨.z, true⟩ e0 e1 e2 rfl rfl rfl
    refine ⟨q, hq, ?_⟩
    rw [hm]
    simp only [eulerMatStep, if_true, toRad, Bool.false_eq_true, if_false, matOne, mulmat, elemRot, M9.mk.injEq]
    comp_ring
  · obtain ⟨q, hq, _, hm⟩ := euler_denotes_rotation_product q0 false 88 89 90 ⟨.x, false⟩ ⟨.y, false⟩ ⟨.z, false⟩ e0 e1 e2 rfl rfl rfl
    refine ⟨q, hq, ?_⟩
    rw [hm]
    simp only [eulerMatStep, Bool.false_eq_true, if_false, toRad, matOne, mulmat, elemRot, M9.mk.injEq]
    comp_ring

/-! ### xyaxes: Gram–Schmidt frame -/

/-- Gram–Schmidt step of the `xyaxes` branch: `y − (x̂·y) x̂` -/
noncomputable def gsY (xh y : V3 ℝ) : V3 ℝ :=
  ⟨y.x - xh.x * dot3 xh y, y.y - xh.y * dot3 xh y, y.z - xh.z * dot3 xh y⟩

theorem dot_unitize_gs (x y : V3 ℝ) (hx : 0 < nsq3 x) :
    dot3 (unitize x) (gsY (unitize x) y) = 0 := by
  have hu := nsq3_unitize x hx
  generalize unitize x = u at hu
  obtain ⟨a, b, c⟩ := u
  have hu' : a * a + b * b + c * c = 1 := by simpa [nsq3] using hu
  simp only [dot3_eq, gsY]
  linear_combination (-(a * y.x + b * y.y + c * y.z)) * hu'

theorem dot_unitize_right (u g : V3 ℝ) (hg : 0 < nsq3 g) (h : dot3 u g = 0) : dot3 u (unitize g) = 0 := by
  have hs : Real.sqrt (nsq3 g) ≠ 0 := (Real.sqrt_pos.mpr hg).ne'
  simp only [dot3_eq] at h ⊢
  simp only [unitize]
  have e : u.x * (g.x / Real.sqrt (nsq3 g)) + u.y * (g.y / Real.sqrt (nsq3 g)) + u.z * (g.z / Real.sqrt (nsq3 g)) =
      (u.x * g.x + u.y * g.y + u.z * g.z) / Real.sqrt (nsq3 g) := by field_simp
  rw [e, h, zero_div]

/-- the cross product of two orthonormal vectors is a unit vector (Lagrange identity) -/
theorem nsq3_cross_orthonormal (u v : V3 ℝ) (hu : nsq3 u = 1) (hv : nsq3 v = 1) (huv : dot3 u v = 0) :
    nsq3 (crossvec u v) = 1 := by
  obtain ⟨a, b, c⟩ := u
  obtain ⟨d, e, f⟩ := v
  have hu' : a * a + b * b + c * c = 1 := by simpa [nsq3] using hu
  have hv' : d * d + e * e + f * f = 1 := by simpa [nsq3] using hv
  have hd : a * d + b * e + c * f = 0 := by simpa [dot3_eq] using huv
  simp only [crossvec_eq, nsq3]
  linear_combination (d * d + e * e + f * f) * hu' + hv' - (a * d + b * e + c * f) * hd

/-- **xyaxes spelling**: for a normalisable `x` and a normalisable Gram–Schmidt remainder, the resolved quaternion
    is `mjuu_frame2quat` of the right-handed orthonormal frame `(x̂, ŷ, x̂ × ŷ)` with
    `x̂ = x/‖x‖`, `ŷ = (y − (x̂·y)x̂)/‖…‖` -/
theorem xyaxes_gram_schmidt (q0 : Q ℝ) (deg : Bool) (seq : Nat × Nat × Nat) (x y : V3 ℝ)
    (hx : Normalisable x) (hy : Normalisable (gsY (unitize x) y)) :
    let xh := unitize x
    let yh := unitize (gsY xh y)
    resolveOrientation Real.pi q0 deg seq (.xyaxes x y) = .ok (frame2quat xh yh (crossvec xh yh)) ∧
    nsq3 xh = 1 ∧ nsq3 yh = 1 ∧ dot3 xh yh = 0 ∧ nsq3 (crossvec xh yh) = 1 := by
  have hxp := nsq3_pos_of_normalisable x hx
  have hyp := nsq3_pos_of_normalisable _ hy
  have ux := nsq3_unitize x hxp
  have uy := nsq3_unitize _ hyp
  have hdot : dot3 (unitize x) (unitize (gsY (unitize x) y)) = 0 :=
    dot_unitize_right _ _ hyp (dot_unitize_gs x y hxp)
  have uz := nsq3_cross_orthonormal _ _ ux uy hdot
  refine ⟨?_, ux, uy, hdot, uz⟩
  have hgs : (⟨y.x - (unitize x).x * dot3 (unitize x) y, y.y - (unitize x).y * dot3 (unitize x) y,
      y.z - (unitize x).z * dot3 (unitize x) y⟩ : V3 ℝ) = gsY (unitize x) y := rfl
  simp only [resolveOrientation, normvec3_normalisable x hx, if_neg (sqrt_not_lt_eps x hx), hgs,
    normvec3_normalisable _ hy, if_neg (sqrt_not_lt_eps _ hy), normvec3_unit _ uz]
  rw [if_neg (not_lt.mpr (le_of_lt mjEPS_lt_one))]

/-- **frames round-trip** (`mjuu_frame2quat` inverts the rotation matrix): if the Gram–Schmidt frame is the frame of a
    unit quaternion `p` then the `xyaxes` spelling resolves to `±p`, i.e. to a quaternion with exactly that frame.
    **Partial**: that every right-handed orthonormal frame is the frame of some unit quaternion is not proved. -/
theorem xyaxes_denotes_frame_partial (q0 : Q ℝ) (deg : Bool) (seq : Nat × Nat × Nat) (x y : V3 ℝ) (p : Q ℝ)
    (hx : Normalisable x) (hy : Normalisable (gsY (unitize x) y)) (hp : nsq p = 1)
    (h0 : unitize x = col0 (matF p)) (h1 : unitize (gsY (unitize x) y) = col1 (matF p))
    (h2 : crossvec (unitize x) (unitize (gsY (unitize x) y)) = col2 (matF p)) :
    ∃ q, resolveOrientation Real.pi q0 deg seq (.xyaxes x y) = .ok q ∧ (q = p ∨ q = qneg p) ∧ matF q = matF p := by
  obtain ⟨hres, _⟩ := xyaxes_gram_schmidt q0 deg seq x y hx hy
  rw [h2, h1, h0] at hres
  refine ⟨_, hres, frame2quat_matF p hp, ?_⟩
  rcases frame2quat_matF p hp with h | h
  · rw [h]
  · rw [h, matF_qneg]

/-! ### zaxis: minimal rotation -/

/-- **zaxis spelling** on a unit direction `v` that is not (numerically) parallel to the z axis: the resolved
    quaternion is a unit quaternion whose rotation axis is orthogonal to z (zero z-component: the rotation is the
    minimal one) and whose rotation matrix maps `(0,0,1)` to `v` -/
theorem zaxis_minimal_rotation (q0 : Q ℝ) (deg : Bool) (seq : Nat × Nat × Nat) (v : V3 ℝ) (hv : nsq3 v = 1)
    (hn : Normalisable ⟨-v.y, v.x, 0⟩) (hs : (1 : ℝ) / 10 ^ 10 ≤ Real.sqrt (v.x * v.x + v.y * v.y)) :
    ∃ q, resolveOrientation Real.pi q0 deg seq (.zaxis v) = .ok q ∧ nsq q = 1 ∧ q.z = 0 ∧
      mulvecmat ⟨0, 0, 1⟩ (matF q) = v := by
  obtain ⟨vx, vy, vz⟩ := v
  have hv' : vx * vx + vy * vy + vz * vz = 1 := by simpa [nsq3] using hv
  have hc : crossvec (⟨L 0, L 0, L 1⟩ : V3 ℝ) ⟨vx, vy, vz⟩ = ⟨-vy, vx, 0⟩ := by
    simp only [crossvec_eq, L, real_ofInt, V3.mk.injEq]; push_cast
    refine ⟨by ring, by ring, by ring⟩
  have hnsq : nsq3 (⟨-vy, vx, 0⟩ : V3 ℝ) = vx * vx + vy * vy := by simp only [nsq3]; ring
  have hpos : 0 < vx * vx + vy * vy := by rw [← hnsq]; exact nsq3_pos_of_normalisable _ hn
  set s := Real.sqrt (vx * vx + vy * vy) with hsdef
  have hs0 : 0 < s := Real.sqrt_pos.mpr hpos
  have hss : s * s = vx * vx + vy * vy := Real.mul_self_sqrt hpos.le
  have hcirc : s * s + vz * vz = 1 := by rw [hss]; exact hv'
  have hcos := cos_realAtan2 s vz hs0.le hcirc
  have hsin := sin_realAtan2 s vz hs0.le hcirc
  set a := realAtan2 s vz with hadef
  have c1 := cos_half_sq_sub a
  have c2 := two_sin_cos_half a
  have c3 := cos_half_sq_add a
  rw [hcos] at c1
  rw [hsin] at c2
  have hl2 : (L 2 : ℝ) = 2 := by simp only [L, real_ofInt]; push_cast; rfl
  have hnot : ¬ (s < MjNum.ofSci 1 true 10) := by rw [ofSci_1em10]; exact not_lt.mpr hs
  refine ⟨⟨Real.cos (a / 2), -vy / s * Real.sin (a / 2), vx / s * Real.sin (a / 2), 0 / s * Real.sin (a / 2)⟩, ?_, ?_, ?_, ?_⟩
  · simp only [resolveOrientation, normvec3_unit _ hv, if_neg (not_lt.mpr (le_of_lt mjEPS_lt_one)), z2quat, hc,
      normvec3_normalisable _ hn, hnsq, unitize, ← hsdef, if_neg hnot, real_atan2, real_cos, real_sin, hl2, ← hadef]
  · simp only [nsq]
    have e : -vy / s * Real.sin (a / 2) * (-vy / s * Real.sin (a / 2)) + vx / s * Real.sin (a / 2) * (vx / s * Real.sin (a / 2))
        = Real.sin (a / 2) * Real.sin (a / 2) * ((vx * vx + vy * vy) / (s * s)) := by field_simp; ring
    have e1 : (vx * vx + vy * vy) / (s * s) = 1 := by rw [hss]; exact div_self (ne_of_gt hpos)
    have : Real.cos (a / 2) * Real.cos (a / 2) + -vy / s * Real.sin (a / 2) * (-vy / s * Real.sin (a / 2)) +
        vx / s * Real.sin (a / 2) * (vx / s * Real.sin (a / 2)) + 0 / s * Real.sin (a / 2) * (0 / s * Real.sin (a / 2))
        = Real.cos (a / 2) * Real.cos (a / 2) + (-vy / s * Real.sin (a / 2) * (-vy / s * Real.sin (a / 2)) + vx / s * Real.sin (a / 2) * (vx / s * Real.sin (a / 2))) := by
      simp only [zero_div, zero_mul, add_zero]; ring
    rw [this, e, e1]; linarith
  · simp only [zero_div, zero_mul]
  · simp only [mulvecmat_eq, matF, V3.mk.injEq, zero_div, zero_mul, mul_zero, mul_one, add_zero, sub_zero, zero_add]
    have hsne : s ≠ 0 := ne_of_gt hs0
    have e1 : (vx * vx + vy * vy) / (s * s) = 1 := by rw [hss]; exact div_self (ne_of_gt hpos)
    refine ⟨?_, ?_, ?_⟩
    · field_simp
      linear_combination vx * c2
    · field_simp
      linear_combination vy * c2
    · field_simp
      linear_combination (s * s) * c1 + (Real.sin (a / 2) * Real.sin (a / 2)) * hss

/-- `zaxis = (0,0,1)` resolves to the identity and `zaxis = (0,0,-1)` to the half turn about x -/
theorem zaxis_poles (q0 : Q ℝ) (deg : Bool) (seq : Nat × Nat × Nat) :
    resolveOrientation Real.pi q0 deg seq (.zaxis ⟨0, 0, 1⟩) = .ok ⟨1, 0, 0, 0⟩ ∧
    resolveOrientation Real.pi q0 deg seq (.zaxis ⟨0, 0, -1⟩) = .ok ⟨0, 1, 0, 0⟩ := by
  have hl2 : (L 2 : ℝ) = 2 := by simp only [L, real_ofInt]; push_cast; rfl
  have hl0 : (L 0 : ℝ) = 0 := by simp only [L, real_ofInt]; push_cast; rfl
  have hl1 : (L 1 : ℝ) = 1 := by simp only [L, real_ofInt]; push_cast; rfl
  have hz : ∀ c : ℝ, normvec3 (⟨0 * c - 1 * 0, 1 * 0 - 0 * c, 0 * 0 - 0 * 0⟩ : V3 ℝ) = (⟨0 * c - 1 * 0, 1 * 0 - 0 * c, 0 * 0 - 0 * 0⟩, 0) := by
    intro c
    simp only [normvec3, hl0]
    rw [if_pos (by have := mjEPS_pos; nlinarith)]
  have hlt : (0 : ℝ) < MjNum.ofSci 1 true 10 := by rw [ofSci_1em10]; positivity
  constructor
  · have hu : nsq3 (⟨0, 0, 1⟩ : V3 ℝ) = 1 := by simp [nsq3]
    simp only [resolveOrientation, normvec3_unit _ hu, if_neg (not_lt.mpr (le_of_lt mjEPS_lt_one)), z2quat, crossvec_eq, hl0, hl1,
      hz, if_pos hlt, real_atan2, real_cos, real_sin, hl2]
    have : realAtan2 0 1 = 0 := by simp [realAtan2]
    rw [this]; simp
  · have hu : nsq3 (⟨0, 0, -1⟩ : V3 ℝ) = 1 := by simp [nsq3]
    simp only [resolveOrientation, normvec3_unit _ hu, if_neg (not_lt.mpr (le_of_lt mjEPS_lt_one)), z2quat, crossvec_eq, hl0, hl1,
      hz, if_pos hlt, real_atan2, real_cos, real_sin, hl2]
    have : realAtan2 0 (-1) = Real.pi := by simp [realAtan2]
    rw [this]; simp

/-! ### composition of frames -/

/-- nesting frames is associative: accumulating `(B then C)` into `A` equals accumulating `C` into `(A then B)`,
    for unit orientations (positions arbitrary) -/
theorem frame_composition_assoc (pa pb pc : V3 ℝ) (qa qb qc : Q ℝ) (ha : nsq qa = 1) (hb : nsq qb = 1) (hc : nsq qc = 1) :
    let ab := frameaccum pa qa pb qb
    let bc := frameaccum pb qb pc qc
    frameaccum ab.1 ab.2 pc qc = frameaccum pa qa bc.1 bc.2 := by
  have hab := nsq_mulquat qa qb ha hb
  have hbc := nsq_mulquat qb qc hb hc
  simp only [frameaccum, quat2mat_eq, mulvecmat_eq, Prod.mk.injEq]
  refine ⟨?_, ?_⟩
  · rw [mulquat_unit qa qb ha hb]
    simp only [matF, hamilton, V3.mk.injEq]
    refine ⟨by ring, by ring, by ring⟩
  · rw [mulquat_unit _ _ hab hc, mulquat_unit qa qb ha hb, mulquat_unit _ _ ha hbc, mulquat_unit qb qc hb hc, hamilton_assoc]

/-- the null frame is a left and right identity of frame accumulation -/
theorem frame_composition_identity (p : V3 ℝ) (q : Q ℝ) (hq : nsq q = 1) :
    frameaccum ⟨0, 0, 0⟩ ⟨1, 0, 0, 0⟩ p q = (p, q) ∧ frameaccum p q ⟨0, 0, 0⟩ ⟨1, 0, 0, 0⟩ = (p, q) := by
  have h1 : nsq (⟨1, 0, 0, 0⟩ : Q ℝ) = 1 := by simp [nsq]
  obtain ⟨x, y, z⟩ := p
  obtain ⟨w, a, b, c⟩ := q
  simp only [frameaccum, quat2mat_eq, mulvecmat_eq, mulquat_unit _ _ h1 hq, mulquat_unit _ _ hq h1, matF, hamilton,
    Prod.mk.injEq, V3.mk.injEq, Q.mk.injEq]
  refine ⟨⟨⟨by ring, by ring, by ring⟩, ⟨by ring, by ring, by ring, by ring⟩⟩, ⟨⟨by ring, by ring, by ring⟩, ⟨by ring, by ring, by ring, by ring⟩⟩⟩

/-- a body placed in a frame: the child's pose is `frame ∘ child`; rotating the child's position by the frame's
    rotation matrix and adding the frame position (what every `…->frame` branch of the compiler does through
    `mjuu_frameaccumChild`) -/
theorem frameaccumChild_pose (pf pc : V3 ℝ) (qf qc : Q ℝ) (hf : nsq qf = 1) (hc : nsq qc = 1) :
    (frameaccumChild pf qf pc qc).2 = hamilton qf qc ∧ nsq (frameaccumChild pf qf pc qc).2 = 1 ∧
    (frameaccumChild pf qf pc qc).1 =
      ⟨pf.x + (mulvecmat pc (matF qf)).x, pf.y + (mulvecmat pc (matF qf)).y, pf.z + (mulvecmat pc (matF qf)).z⟩ := by
  simp only [frameaccumChild, frameaccum, quat2mat_eq, mulquat_unit _ _ hf hc, nsq_hamilton, hf, hc, mul_one]
  exact ⟨trivial, trivial, trivial⟩

example : nsq (⟨3/5, 0, 4/5, 0⟩ : Q ℝ) = 1 := by simp only [nsq]; norm_num

/-! ### further instances of the hypotheses -/

-- `zaxis_minimal_rotation`: the unit direction (3/5, 0, 4/5)
example : nsq3 (⟨3/5, 0, 4/5⟩ : V3 ℝ) = 1 := by simp only [nsq3]; norm_num

-- `xyaxes_gram_schmidt` / `axisangle_quat`: a normalisable (non-unit) axis
example : Normalisable (⟨0, 3, 0⟩ : V3 ℝ) := by
  right
  have h4 : nsq3 (⟨0, 3, 0⟩ : V3 ℝ) = 3 ^ 2 := by simp only [nsq3]; norm_num
  rw [h4, Real.sqrt_sq (by norm_num)]
  refine ⟨?_, ?_⟩
  · rw [mjEPS_eq]; norm_num
  · rw [mjEPS_eq]; norm_num

/-! ### `mjs_attach` versus the written-out description -/
section attach
open MjProof.Attach

/-- **Attached body / frame = inline body / frame**, for every number class (in particular bit for bit on doubles):
    attaching a body or a frame of a child spec to a frame, a body or a site of the host compiles the observed body to
    exactly the pose of the written-out description — the attachment point spelled as a frame with the same `pos`,
    `quat` and `alt` (and the same compiler settings), the attached frames and the body written inside it, every element
    keeping the `degree` / `eulerseq` of the spec it was written in.  For a site this needs that the site's spelling is
    resolved with the settings of the spec the site was WRITTEN in (`ownSettings`) and is resolvable. -/
theorem attach_eq_inline {α : Type} [MjNum α] (pi : α) (host : Comp) (p : Point α) (c : Child α)
    (hown : p.ownSettings) (hres : p.resolvable pi)
    (hc : ∀ cc inner b, c ≠ .model cc inner b) (hbb : ∀ b, ¬ (p = .body ∧ c = .body b)) :
    attachPose pi host p c = inlinePose pi p c := by
  cases p with
  | body =>
    cases c with
    | body b => exact absurd ⟨rfl, rfl⟩ (hbb b)
    | frame g inner b => simp only [attachPose, attachChain, childChain, inlinePose, inlineChain, List.nil_append]
    | model cc inner b => exact absurd rfl (hc cc inner b)
  | frame outer f =>
    cases c with
    | body b => simp only [attachPose, attachChain, childChain, inlinePose, inlineChain]
    | frame g inner b =>
      simp only [attachPose, attachChain, childChain, inlinePose, inlineChain, List.append_assoc, List.cons_append, List.nil_append]
    | model cc inner b => exact absurd rfl (hc cc inner b)
  | site outer s owner =>
    have ho : owner = s.comp := hown
    subst ho
    obtain ⟨q, hq⟩ := hres
    cases c with
    | body b =>
      simp only [attachPose, attachChain, childChain, hq, inlinePose, inlineChain]
      exact placeBody_siteFrame pi host outer [] s b q hq
    | frame g inner b =>
      simp only [attachPose, attachChain, childChain, hq, inlinePose, inlineChain, List.append_assoc, List.cons_append, List.nil_append]
      exact placeBody_siteFrame pi host outer (g :: inner) s b q hq
    | model cc inner b => exact absurd rfl (hc cc inner b)

/-- a site whose spelling cannot be resolved: the attachment compiles to the same error as the site itself, and the
    written-out description does not compile either -/
theorem attach_site_unresolvable {α : Type} [MjNum α] (pi : α) (host : Comp) (outer : List (Placed α)) (s : Placed α)
    (c : Child α) (e : String) (h : resolveOrientation pi s.quat s.comp.degree s.comp.seq s.alt = .error e) :
    attachPose pi host (.site outer s s.comp) c = .error e ∧ ∃ e', inlinePose pi (.site outer s s.comp) c = .error e' := by
  refine ⟨by simp only [attachPose, attachChain, h], ?_⟩
  cases c with
  | body b => exact placeBody_unresolvable pi outer [] s b e h
  | frame g inner b =>
    simp only [inlinePose, inlineChain, List.append_assoc, List.cons_append, List.nil_append]
    exact placeBody_unresolvable pi outer (g :: inner) s b e h
  | model cc inner b =>
    simp only [inlinePose, inlineChain, List.append_assoc, List.cons_append, List.nil_append]
    exact placeBody_unresolvable pi outer inner s b e h

/-- **Attached model = inline bodies** over ℝ: the identity frame `mjs_attach` wraps around the world of an attached
    spec is neutral, so the observed body compiles to the pose of the description in which the children of the child's
    world are written directly at the attachment point — provided every spelling on the way denotes a unit quaternion
    (which the spelling theorems above establish for each kind of spelling). -/
theorem attach_model_eq_inline (pi : ℝ) (host cc : Comp) (p : Point ℝ) (inner : List (Placed ℝ)) (b : Placed ℝ)
    (hown : p.ownSettings) (hres : p.resolvable pi)
    (hp : ∀ f ∈ p.frames, UnitFrame pi f) (hin : ∀ f ∈ inner, UnitFrame pi f) (hb : UnitBody pi b) :
    attachPose pi host p (.model cc inner b) = inlinePose pi p (.model cc inner b) := by
  cases p with
  | body =>
    simp only [attachPose, attachChain, childChain, inlinePose, inlineChain, List.nil_append]
    exact placeBody_worldFrame pi cc [] inner b (fun f hf => by cases hf) hin hb
  | frame outer f =>
    simp only [attachPose, attachChain, childChain, inlinePose, inlineChain]
    have := placeBody_worldFrame pi cc (outer ++ [f]) inner b hp hin hb
    simpa only [List.append_assoc, List.cons_append, List.nil_append] using this
  | site outer s owner =>
    have ho : owner = s.comp := hown
    subst ho
    obtain ⟨q, hq⟩ := hres
    simp only [attachPose, attachChain, childChain, hq, inlinePose, inlineChain]
    rw [placeBody_siteFrame pi host outer (worldFrame cc :: inner) s b q hq]
    have := placeBody_worldFrame pi cc (outer ++ [s]) inner b hp hin hb
    simpa only [List.append_assoc, List.cons_append, List.nil_append] using this

/-- **A body attached to a site is mounted with the site's rotation**: when the site's spelling denotes the unit
    quaternion `qs` and the body's the unit quaternion `qb`, the attached body is compiled at
    `pos_site + R(qs) · pos_body` with orientation `qs ⊗ qb` (not with the identity in place of `qs`). -/
theorem attach_site_pose (pi : ℝ) (host : Comp) (s b : Placed ℝ) (qs qb : Q ℝ)
    (hs : resolveOrientation pi s.quat s.comp.degree s.comp.seq s.alt = .ok qs) (hqs : nsq qs = 1)
    (hb : resolveOrientation pi (normvec4 b.quat).1 b.comp.degree b.comp.seq b.alt = .ok qb) (hqb : nsq qb = 1) :
    attachPose pi host (.site [] s s.comp) (.body b) =
      .ok (⟨s.pos.x + (mulvecmat b.pos (matF qs)).x, s.pos.y + (mulvecmat b.pos (matF qs)).y,
            s.pos.z + (mulvecmat b.pos (matF qs)).z⟩, hamilton qs qb) := by
  have hq : ∀ (d : Bool) (sq : Nat × Nat × Nat), resolveOrientation pi qs d sq (.quat : OrientSpec ℝ) = .ok qs := fun _ _ => rfl
  have h3 := frameaccumChild_pose s.pos b.pos qs qb hqs hqb
  simp only [attachPose, attachChain, childChain, hs, List.nil_append, placeBody, compileChain, compileFrame, siteFrame, hq,
    normvec4_unit qs hqs, compileBody, hb]
  exact congrArg Except.ok (Prod.ext h3.2.2 h3.1)

-- instances of the hypotheses: a site of the host spec spelled as a quaternion is resolvable with its own settings
example (outer : List (Placed ℝ)) (s : Placed ℝ) (h : s.alt = .quat) :
    (Point.site outer s s.comp).ownSettings ∧ (Point.site outer s s.comp).resolvable Real.pi :=
  ⟨rfl, ⟨s.quat, by simp only [h]; rfl⟩⟩

-- a frame spelled as the unit quaternion (3/5, 0, 4/5, 0) is a `UnitFrame`
example (c : Comp) (p : V3 ℝ) : UnitFrame Real.pi ⟨c, p, ⟨3/5, 0, 4/5, 0⟩, .quat⟩ := by
  intro q hq
  have : q = ⟨3/5, 0, 4/5, 0⟩ := by
    have h' : (Except.ok (⟨3/5, 0, 4/5, 0⟩ : Q ℝ) : Except String (Q ℝ)) = .ok q := hq
    injection h' with h''; exact h''.symm
  rw [this]; simp only [nsq]; norm_num

end attach

-- `euler_denotes_rotation_product`: the mixed sequence "zYx"
example : ELetter.ofCode 122 = some ⟨.z, true⟩ ∧ ELetter.ofCode 89 = some ⟨.y, false⟩ ∧ ELetter.ofCode 120 = some ⟨.x, true⟩ := by
  decide

end MjProof.C36
