import MjProof.Lemmas.ThreadPoolRank
/-
C03  Thread-pool dispatch runs each task exactly once.

Property theorems only.  The model is the transition system of `MjProof/Model/ThreadPool.lean`
(one program counter per thread, one transition per atomic operation of `ThreadPoolContext::Dispatch`,
`::Worker`, the constructor and the destructor, sequentially consistent atomics).  `Reachable s`
quantifies over every pool size, every task count, every history of `mju_threadpool` / `mju_dispatch`
calls and every interleaving of the dispatching thread and the workers (including spurious wake-ups
of `atomic::wait`).  The tie to `src/engine/engine_thread.cc` is the schedule replay and the
memory-order table of `checks/c03.py`.
-/
namespace MjProof.C03
open MjProof.ThreadPool
set_option linter.unusedSimpArgs false

/-- The invariant (`MjProof.ThreadPool.Inv`: task ownership, `ndone_` counts exactly the workers that
    finished the current batch, no worker is inside a batch other than the current one) holds in every
    reachable state. -/
theorem inv_reachable {s : State} (h : Reachable s) : Inv s := inv_of_reachable h

/-- **No invocation after return.**  While the dispatching thread is between API calls every worker is
    parked in `signal_.wait` or does not exist: nobody is inside the task function or about to claim a task. -/
theorem idle_workers_parked {s : State} (h : Inv s) (hm : s.mpc = .idle) (i : Nat) :
    (s.w i).pc = .unborn ∨ (s.w i).pc = .wait ∨ (s.w i).pc = .sleep := by
  by_cases hi : 1 ≤ i ∧ i ≤ s.N
  · have := h.workers i hi.1 hi.2
    simp only [phase, hm] at this
    cases ha : s.alive <;> simp only [ha, WOK] at this
    · exact Or.inl this
    · exact Or.inr this.1
  · exact Or.inl (h.outside i (by omega))

/-- **Exactly once.**  Whenever `mju_dispatch(…, n)` returns (the step emits `ret (dispatch n)`), in
    the state it returns to: every task id `< n` has been executed exactly once and no other id at all,
    each by a thread id of the pool (`< mju_numThread`), the dispatching thread is idle, and every worker
    is parked in `signal_.wait` (or does not exist) — none is inside the task function or about to claim
    a task.  Covers the pooled path, the serial path (`ntask < 2` or no pool) and `n = 0`. -/
theorem exactly_once {s s' : State} {a : Act} {evs : List Ev} {n k : Nat} (hr : Reachable s)
    (hs : step s a = some (s', evs)) (hret : Ev.ret (.dispatch n) k ∈ evs) :
    s'.mpc = .idle ∧
    (∀ t, s'.execCnt t = if t < n then 1 else 0) ∧
    (∀ t, t < n → s'.execBy t < numThread s') ∧
    (∀ i, (s'.w i).pc = .unborn ∨ (s'.w i).pc = .wait ∨ (s'.w i).pc = .sleep) := by
  have h := inv_of_reachable hr
  have h' := inv_step h hs
  suffices hmain : s'.mpc = .idle ∧ s'.reqN = n ∧ (∀ t, t < n → s'.execBy t < numThread s') by
    obtain ⟨e1, e2, e3⟩ := hmain
    have hg := h'.glob
    simp only [Glob, e1] at hg
    exact ⟨e1, fun t => by rw [← e2]; exact hg.1 t, e3, idle_workers_parked h' e1⟩
  obtain ⟨ho, hw, hg⟩ := h
  cases a with
  | call c =>
    simp only [step] at hs
    split at hs
    · cases c with
      | threadpool k' =>
        simp only [stepCall, beginCreate] at hs
        repeat' split at hs
        all_goals (simp at hs; obtain ⟨rfl, rfl⟩ := hs; simp at hret)
      | dispatch n' =>
        simp only [stepCall] at hs
        repeat' split at hs
        all_goals (simp at hs; obtain ⟨rfl, rfl⟩ := hs; simp at hret)
        rename_i hidle _ hn0
        obtain ⟨rfl, _⟩ := hret
        exact ⟨hidle, rfl, by omega⟩
    · simp at hs
  | main =>
    simp only [step, stepMain, beginCreate] at hs
    split at hs
    all_goals rename_i hpc
    all_goals simp only [Glob, hpc] at hg
    all_goals try (repeat' split at hs)
    all_goals try (simp at hs; done)
    all_goals (simp at hs; obtain ⟨rfl, rfl⟩ := hs; simp at hret)
    · -- dSpin returns
      rename_i hd
      obtain ⟨rfl, _⟩ := hret
      obtain ⟨_, _, hby, _⟩ := batch_complete hg.1 hpc hg.2 hd ho
      refine ⟨rfl, rfl, ?_⟩
      intro t ht
      have := hby t ht
      have ha := hg.1.1
      simp only [numThread, ha, if_true]
      omega
    · -- last task of the serial path
      obtain ⟨rfl, _⟩ := hret
      refine ⟨rfl, rfl, ?_⟩
      intro t ht
      have := hg.2.2.1 t
      simp only [numThread]
      split <;> split <;> omega
  | worker i =>
    simp only [step, stepWorker] at hs
    split at hs
    all_goals try (repeat' split at hs)
    all_goals try (simp at hs; done)
    all_goals (simp at hs; obtain ⟨rfl, rfl⟩ := hs; simp at hret)
  | spurious i =>
    simp only [step, stepSpurious] at hs
    split at hs
    all_goals try (simp at hs; done)
    all_goals (simp at hs; obtain ⟨rfl, rfl⟩ := hs; simp at hret)


/-- Outside a batch no worker is inside the task function. -/
theorem no_exec_outside_batch {s : State} (h : Inv s) (hb : ¬ inBatch s) (i t : Nat) :
    (s.w i).pc ≠ .exec t := by
  intro hc
  by_cases hi : 1 ≤ i ∧ i ≤ s.N
  · exact hb (inBatch_of_pc h hi (Or.inr (Or.inl ⟨t, hc⟩))).1
  · have := h.outside i (by omega); simp [this] at hc

/-- **No lost or duplicated task, in every reachable state.**  No task id ever runs twice, ids `≥ n`
    never run, an id held by a thread (claimed by `next_.fetch_add`, task function not yet finished) has
    not run yet and is held by exactly one thread, and during a batch every claimed id `< min(next_, n)`
    has either run exactly once or is held. -/
theorem no_lost_or_duplicate {s : State} (hr : Reachable s) :
    (∀ t, s.execCnt t ≤ 1) ∧ (∀ t, s.reqN ≤ t → s.execCnt t = 0) ∧
    (∀ t, held s t → s.execCnt t = 0 ∧ t < s.reqN) ∧
    (∀ i j t, (s.w i).pc = .exec t → (s.w j).pc = .exec t → i = j) ∧
    (∀ i t, s.mpc = .dExec t → (s.w i).pc ≠ .exec t) ∧
    (inBatch s → ∀ t, t < s.next → t < s.reqN → s.execCnt t = 1 ∨ held s t) := by
  have h := inv_of_reachable hr
  by_cases hb : inBatch s
  · have hown : Own s := by
      have hg := h.glob
      unfold inBatch at hb
      cases hm : s.mpc <;> simp only [Glob, phase, hm] at hg hb
      all_goals try (split at hb <;> simp at hb)
      all_goals try (simp at hb; done)
      all_goals first | exact hg.2.2.2.2 | exact hg.1.2.2.2.2
    obtain ⟨a1, a2, a2w, a3, a4, a5, a6⟩ := hown
    refine ⟨a1, ?_, ?_, a5, a6, fun _ => a3⟩
    · intro t ht
      have := a4 t
      omega
    · intro t ht
      rcases ht with ht | ⟨i, ht⟩
      · have := a2 t ht; omega
      · have := a2w t i ht; omega
  · have hne := no_exec_outside_batch h hb
    have hnm : ∀ t, s.mpc ≠ .dExec t := by
      intro t hc; apply hb; unfold inBatch; simp [phase, hc]
    have hcnt : (∀ t, s.execCnt t ≤ 1) ∧ (∀ t, s.reqN ≤ t → s.execCnt t = 0) := by
      have hg := h.glob
      unfold inBatch at hb
      cases hm : s.mpc <;> simp only [Glob, phase, hm, Done, PreOK, Fresh] at hg hb
      all_goals try (simp at hb; done)
      all_goals constructor <;> intro t <;> first
        | (have := hg.1 t; split at this <;> omega)
        | (have h2 := hg.2.1 t; have h1 := hg.1; split at h2 <;> omega)
        | (have := hg.2.2.2 t; omega)
        | (have := hg.1.2.2.2 t; omega)
    refine ⟨hcnt.1, hcnt.2, ?_, ?_, ?_, fun hh => absurd hh hb⟩
    · intro t ht
      rcases ht with ht | ⟨i, ht⟩
      · exact absurd ht (hnm t)
      · exact absurd ht (hne i t)
    · intro i j t hi; exact absurd hi (hne i t)
    · intro i t hm; exact absurd hm (hnm t)


/-- **Deadlock freedom.**  In every reachable state in which the dispatching thread is inside an API
    call, some thread (the dispatcher or a worker) has an enabled step that is not a spin step (failed
    poll of `ndone_`, blocking `wait` check, spurious wake-up). -/
theorem deadlock_free {s : State} (hr : Reachable s) (hm : s.mpc ≠ .idle) :
    ∃ a s' evs, (a = .main ∨ ∃ i, a = .worker i) ∧ step s a = some (s', evs) ∧ ¬ isSpin s a :=
  enabled_nonspin (inv_of_reachable hr) hm

/-- Between API calls every call is enabled (the dispatching thread never blocks at a call). -/
theorem call_enabled {s : State} (hm : s.mpc = .idle) (c : Api) :
    ∃ s' evs, step s (.call c) = some (s', evs) := by
  cases c with
  | threadpool k =>
    simp only [step, hm, if_true, stepCall]
    split <;> (try split) <;> exact ⟨_, _, rfl⟩
  | dispatch n =>
    simp only [step, hm, if_true, stepCall]
    split <;> (try split) <;> exact ⟨_, _, rfl⟩

/-- **Bounded progress (ranking function).**  Along any execution that enters no new API call, the
    number `k` of non-spin steps is bounded by the rank of the start state: every non-spin step
    strictly decreases `rank`, spin steps leave it unchanged. -/
theorem bounded_progress {s s' : State} {k : Nat} (hr : Reachable s) (hrun : Run s k s') :
    k + rank s' ≤ rank s := run_rank (inv_of_reachable hr) hrun

/-- After `mju_dispatch(…, n)` has been entered on a pool of `N` workers, every execution of that
    dispatch contains at most `3 n + 5 N + 7` non-spin steps. -/
theorem dispatch_step_bound {s s1 s' : State} {n k : Nat} {evs : List Ev} (hr : Reachable s)
    (hc : step s (.call (.dispatch n)) = some (s1, evs)) (hrun : Run s1 k s') :
    k ≤ 3 * n + 5 * s.N + 7 := by
  have h := inv_of_reachable hr
  have := run_rank (inv_step h hc) hrun
  have := rank_call_dispatch h hc
  omega

/-- After `mju_threadpool(d, k)` has been entered with a pool of `N` workers, every execution of that
    call (destroy, then create) contains at most `6 N + 2 k + 3` non-spin steps. -/
theorem threadpool_step_bound {s s1 s' : State} {k m : Nat} {evs : List Ev} (hr : Reachable s)
    (hc : step s (.call (.threadpool k)) = some (s1, evs)) (hrun : Run s1 m s') :
    m ≤ 6 * s.N + 2 * k + 3 := by
  have h := inv_of_reachable hr
  have := run_rank (inv_step h hc) hrun
  have := rank_call_threadpool h hc
  omega

/-- **Termination under a fair scheduler.**  Every non-spin step decreases the rank
    (`bounded_progress`), a non-spin step is always enabled while a call is in progress
    (`deadlock_free`); hence from every reachable state the call in progress can be completed, with at
    most `rank s` non-spin steps, and a scheduler that eventually runs an enabled non-spin step cannot
    avoid completing it. -/
theorem can_always_finish {s : State} (hr : Reachable s) :
    ∃ k s', Run s k s' ∧ s'.mpc = .idle ∧ k ≤ rank s :=
  can_finish_of_inv (rank s) s (inv_of_reachable hr) (Nat.le_refl _)

/-- **Lifecycle.**  Whenever `mju_threadpool(d, k)` returns — after any history of create / resize /
    dispatch / destroy calls and any interleaving — the invariant holds (`inv_reachable`), the reported
    thread count is `mju_numThread`, and: for `k = 0` no pool exists and *no worker thread is left*
    (every one has been joined); for `k ≥ 1` a pool of exactly `k` workers exists, each parked in
    `signal_.wait`, and no other worker thread exists. -/
theorem lifecycle {s s' : State} {a : Act} {evs : List Ev} {k nt : Nat} (hr : Reachable s)
    (hs : step s a = some (s', evs)) (hret : Ev.ret (.threadpool k) nt ∈ evs) :
    s'.mpc = .idle ∧ nt = numThread s' ∧
    (if k = 0 then s'.alive = false ∧ ∀ i, (s'.w i).pc = .unborn
     else s'.alive = true ∧ s'.N = k ∧
       (∀ i, 1 ≤ i → i ≤ k → ((s'.w i).pc = .wait ∨ (s'.w i).pc = .sleep) ∧ (s'.w i).status = s'.signal) ∧
       (∀ i, (i = 0 ∨ k < i) → (s'.w i).pc = .unborn)) := by
  have h := inv_of_reachable hr
  have h' := inv_step h hs
  suffices hmain : s'.mpc = .idle ∧ nt = numThread s' ∧
      (if k = 0 then s'.alive = false else s'.alive = true ∧ s'.N = k) by
    obtain ⟨e1, e2, e3⟩ := hmain
    refine ⟨e1, e2, ?_⟩
    have hw := h'.workers
    have hg := h'.glob
    simp only [phase, e1] at hw
    simp only [Glob, e1] at hg
    by_cases hk : k = 0
    · simp only [hk, if_true] at e3 ⊢
      simp only [e3] at hw hg
      refine ⟨e3, fun i => ?_⟩
      by_cases hi : 1 ≤ i ∧ i ≤ s'.N
      · simpa [WOK] using hw i hi.1 hi.2
      · exact h'.outside i (by omega)
    · simp only [hk, if_false] at e3 ⊢
      simp only [e3.1, if_true] at hw
      refine ⟨e3.1, e3.2, ?_, ?_⟩
      · intro i h1 h2
        simpa [WOK] using hw i h1 (by omega)
      · intro i hi
        exact h'.outside i (by omega)
  obtain ⟨ho, hw, hg⟩ := h
  cases a with
  | call c =>
    simp only [step] at hs
    split at hs
    · rename_i hidle
      simp only [Glob, hidle] at hg
      cases c with
      | threadpool k' =>
        simp only [stepCall, beginCreate] at hs
        repeat' split at hs
        all_goals (simp at hs; obtain ⟨rfl, rfl⟩ := hs; simp at hret)
        · rename_i ha hk
          obtain ⟨rfl, rfl⟩ := hret
          simp only [ha, if_true] at hg
          have := hg.2.1
          have hk0 : ¬ s.N = 0 := by omega
          subst hk
          exact ⟨hidle, by simp [numThread, ha], by simp [hk0, ha]⟩
        · rename_i ha hk
          obtain ⟨rfl, rfl⟩ := hret
          have hk0 : k = 0 := by omega
          exact ⟨rfl, by simp [numThread], by simp [hk0]⟩
      | dispatch n' =>
        simp only [stepCall] at hs
        repeat' split at hs
        all_goals (simp at hs; obtain ⟨rfl, rfl⟩ := hs; simp at hret)
    · simp at hs
  | main =>
    simp only [step, stepMain, beginCreate] at hs
    split at hs
    all_goals rename_i hpc
    all_goals simp only [Glob, hpc] at hg
    all_goals try (repeat' split at hs)
    all_goals try (simp at hs; done)
    all_goals (simp at hs; obtain ⟨rfl, rfl⟩ := hs; simp at hret)
    · -- last `std::thread` constructed
      obtain ⟨rfl, rfl⟩ := hret
      have hk0 : ¬ s.N = 0 := by omega
      exact ⟨rfl, by simp [numThread, setW], by simp [hk0, setW]⟩
    · -- last thread joined, no new pool
      rename_i hk
      obtain ⟨rfl, rfl⟩ := hret
      have hk0 : k = 0 := by omega
      exact ⟨rfl, by simp [numThread], by simp [hk0]⟩
  | worker i =>
    simp only [step, stepWorker] at hs
    split at hs
    all_goals try (repeat' split at hs)
    all_goals try (simp at hs; done)
    all_goals (simp at hs; obtain ⟨rfl, rfl⟩ := hs; simp at hret)
  | spurious i =>
    simp only [step, stepSpurious] at hs
    split at hs
    all_goals try (simp at hs; done)
    all_goals (simp at hs; obtain ⟨rfl, rfl⟩ := hs; simp at hret)

/-- The plain (non-atomic) field `ntask_` is written only when `mju_dispatch` is entered from the idle
    state, and read only by a thread about to do `next_.fetch_add`: whenever a worker is at that point
    the dispatching thread is inside the batch (past `signal_.store`), so the two accesses never race,
    and the value read is the `n` of the current call. -/
theorem ntask_race_free {s : State} (hr : Reachable s) {i : Nat} (hpc : (s.w i).pc = .fetch) :
    (s.mpc = .dNotify ∨ s.mpc = .dFetch ∨ (∃ t, s.mpc = .dExec t) ∨ s.mpc = .dSpin) ∧
      s.ntask = s.reqN := by
  have h := inv_of_reachable hr
  have hi : 1 ≤ i ∧ i ≤ s.N := by
    by_cases hc : 1 ≤ i ∧ i ≤ s.N
    · exact hc
    · have := h.outside i (by omega); simp [this] at hpc
  have hb := (inBatch_of_pc h hi (Or.inl hpc)).1
  have hg := h.glob
  unfold inBatch at hb
  cases hm : s.mpc <;> simp only [Glob, phase, hm] at hg hb
  all_goals try (split at hb <;> simp at hb)
  all_goals try (simp at hb; done)
  all_goals simp
  all_goals first | exact hg.2.2.1 | exact hg.1.2.2.1

/-- The release/acquire pairing the sequentially consistent abstraction relies on: every publishing
    store / read-modify-write of the table is at least `release`, every consuming load / wait at least
    `acquire` (finite table; compared with the source on every run). -/
theorem orders_pairing : ∀ x ∈ sites, x.ok = true := by decide

/-! ### non-vacuity: a concrete run (pool of one worker, dispatch of two tasks) -/

/-- create a pool of 1 worker, dispatch 2 tasks; the worker runs task 0, the dispatcher task 1 -/
def demoActs : List Act :=
  [.call (.threadpool 1), .main, .call (.dispatch 2), .main, .main, .main, .main, .main,
   .worker 1, .worker 1, .worker 1, .main, .worker 1, .main, .worker 1, .worker 1, .main]

def demoState : State := (runActs init demoActs).getD init

theorem demo_reachable : Reachable demoState := reachable_runActs_getD demoActs

/-- the hypotheses of `exactly_once` are satisfiable: the dispatcher's poll returns from a dispatch of 2 tasks -/
example : ∃ s' evs, Reachable demoState ∧ step demoState .main = some (s', evs) ∧
    Ev.ret (.dispatch 2) 2 ∈ evs :=
  ⟨((step demoState .main).getD (init, [])).1, ((step demoState .main).getD (init, [])).2,
    demo_reachable, step_eq_getD _ (by decide), by decide⟩

/-- …and in that state both tasks ran once, task 0 on the worker and task 1 on the dispatcher -/
example : (demoState.execCnt 0, demoState.execCnt 1, demoState.execBy 0, demoState.execBy 1) = (1, 1, 1, 0) := by
  decide

/-- the hypotheses of `deadlock_free` / `ntask_race_free` are satisfiable (mid-dispatch state, worker about to claim) -/
example : ((runActs init (demoActs.take 10)).getD init).mpc ≠ .idle ∧
    (((runActs init (demoActs.take 10)).getD init).w 1).pc = .fetch := by decide

/-- the hypotheses of `lifecycle` are satisfiable: destroying the pool right after creating it -/
example : ∃ s s' evs, Reachable s ∧ step s .main = some (s', evs) ∧ Ev.ret (.threadpool 0) 1 ∈ evs :=
  let acts : List Act := [.call (.threadpool 1), .main, .call (.threadpool 0), .main, .main,
    .worker 1, .worker 1]
  let s := (runActs init acts).getD init
  ⟨s, ((step s .main).getD (init, [])).1, ((step s .main).getD (init, [])).2,
    reachable_runActs_getD acts, step_eq_getD _ (by decide), by decide⟩

/-- a `Run` with a non-spin step exists (hypothesis of `bounded_progress`) -/
example : ∃ s', Run demoState 1 s' :=
  ⟨_, .move (a := .main) (evs := ((step demoState .main).getD (init, [])).2)
    (s1 := ((step demoState .main).getD (init, [])).1) (step_eq_getD _ (by decide)) (by intro c; simp) (by decide) (.nil _)⟩

end MjProof.C03
