import MjProof.Model.Introspect
import MjProof.Gen.IntrospectPython
/-
C49 (table half, part: well-formedness of the shipped ASTs).  See Props/C49Gen.lean.  Split into several modules only so that lake
checks the kernel evaluations in parallel.
-/
namespace MjProof.C49
open MjProof.CType MjProof.Introspect
open MjProof.Gen

/-- The kernel-evaluated check behind `python_types_wf`: shapes of all shipped type ASTs, names of
    their distinct value types. -/
theorem python_types_ok :
    typesOk (structTypes IntrospectPython.structs ++ funcTypes IntrospectPython.functions) = true := by
  decide +kernel

end MjProof.C49
