import MjProof.Spec.MassProps
import MjProof.Lemmas.Orient
import Mathlib.Tactic.Ring
import Mathlib.Tactic.FieldSimp
import Mathlib.Tactic.Positivity
import Mathlib.Tactic.Linarith
import Mathlib.Tactic.LinearCombination
/-
C35  Compiled mass properties match the geometry.

Theorems about the executable model `Model/MassProps.lean` (whose straight-line kernels `mjuu_quat2mat`,
`mjuu_globalinertia`, `mjuu_offcenter` are the definitions *generated* from user_util.cc) instantiated at
`α = ℝ`, `π = Real.pi`, against the analytic formulas of `Spec/MassProps.lean`.
Reals vs doubles: rounding is outside the proofs; the model is tied to the compiled code bitwise on `Float`.
-/
set_option linter.unusedSimpArgs false
set_option linter.unusedVariables false
set_option linter.unusedTactic false
set_option linter.unreachableTactic false
namespace MjProof.C35
open MjProof MjProof.Gen MjProof.Orient MjProof.MassProps MjProof.Spec.MassProps

/-! ### volumes and surface areas (`mjCGeom::GetVolume`) -/

theorem volume_eq_spec_sphere (r s1 s2 : ℝ) :
    geomVolume Real.pi .sphere false ⟨r, s1, s2⟩ = some (sphereVol r) ∧
    geomVolume Real.pi .sphere true ⟨r, s1, s2⟩ = some (sphereArea r) := by
  simp only [geomVolume, sphereVol, sphereArea, L, real_ofInt, Option.some.injEq]
  push_cast
  constructor <;> ring

theorem volume_eq_spec_capsule (r hh s2 : ℝ) :
    geomVolume Real.pi .capsule false ⟨r, hh, s2⟩ = some (capsuleVol r hh) ∧
    geomVolume Real.pi .capsule true ⟨r, hh, s2⟩ = some (capsuleArea r hh) := by
  simp only [geomVolume, capsuleVol, capsuleArea, cylinderVol, sphereVol, cylinderWallArea, sphereArea, L,
    real_ofInt, Option.some.injEq]
  push_cast
  constructor <;> ring

theorem volume_eq_spec_cylinder (r hh s2 : ℝ) :
    geomVolume Real.pi .cylinder false ⟨r, hh, s2⟩ = some (cylinderVol r hh) ∧
    geomVolume Real.pi .cylinder true ⟨r, hh, s2⟩ = some (cylinderArea r hh) := by
  simp only [geomVolume, cylinderVol, cylinderArea, cylinderWallArea, diskArea, L, real_ofInt, Option.some.injEq]
  push_cast
  constructor <;> ring

/-- the ellipsoid *surface* (Thomsen approximation with `std::pow`) is outside the model -/
theorem volume_eq_spec_ellipsoid (a b c : ℝ) :
    geomVolume Real.pi .ellipsoid false ⟨a, b, c⟩ = some (ellipsoidVol a b c) := by
  simp only [geomVolume, ellipsoidVol, L, real_ofInt, Option.some.injEq]
  push_cast
  ring

theorem volume_eq_spec_box (a b c : ℝ) :
    geomVolume Real.pi .box false ⟨a, b, c⟩ = some (boxVol a b c) ∧
    geomVolume Real.pi .box true ⟨a, b, c⟩ = some (boxArea a b c) := by
  simp only [geomVolume, boxVol, boxArea, L, real_ofInt, Option.some.injEq]
  push_cast
  constructor <;> ring

/-! ### mass = density × volume and principal moments (`mjCGeom::Compile` mass branch + `SetInertia`) -/

theorem inertia_eq_spec_sphere (ρ r s1 s2 : ℝ) (hρ : ρ ≠ 0) :
    geomMassInertia Real.pi .sphere false none ρ ⟨r, s1, s2⟩ = some (ρ * sphereVol r, solidSphere ρ r) ∧
    geomMassInertia Real.pi .sphere true none ρ ⟨r, s1, s2⟩ = some (ρ * sphereArea r, shellSphere ρ r) := by
  simp only [geomMassInertia, geomVolume, geomInertia, sphereVol, sphereArea, solidSphere, shellSphere, L, real_ofInt,
    real_beq, decide_eq_true_eq]
  push_cast
  simp only [if_neg hρ, Option.some.injEq, Prod.mk.injEq, V3.mk.injEq]
  refine ⟨⟨by ring, ?_, ?_, ?_⟩, ⟨by ring, ?_, ?_, ?_⟩⟩ <;> ring

example : (1000 : ℝ) ≠ 0 := by norm_num

theorem inertia_eq_spec_capsule (ρ r hh s2 : ℝ) (hρ : ρ ≠ 0) (hr : 0 < r) (hh0 : 0 ≤ hh) :
    geomMassInertia Real.pi .capsule false none ρ ⟨r, hh, s2⟩ = some (ρ * capsuleVol r hh, solidCapsule ρ r hh) ∧
    geomMassInertia Real.pi .capsule true none ρ ⟨r, hh, s2⟩ = some (ρ * capsuleArea r hh, shellCapsule ρ r hh) := by
  have hpi := Real.pi_pos
  have h1 : (4 : ℝ) * r + 3 * (2 * hh) ≠ 0 := by positivity
  have h2 : (4 : ℝ) * Real.pi * r * r + 2 * Real.pi * r * (2 * hh) ≠ 0 := by positivity
  simp only [geomMassInertia, geomVolume, geomInertia, capsuleVol, capsuleArea, cylinderVol, sphereVol, cylinderWallArea,
    sphereArea, solidCapsule, shellCapsule, L, real_ofInt, real_beq, decide_eq_true_eq]
  push_cast
  simp only [if_neg hρ, Option.some.injEq, Prod.mk.injEq, V3.mk.injEq]
  refine ⟨⟨by ring, ?_, ?_, ?_⟩, ⟨by ring, ?_, ?_, ?_⟩⟩ <;> field_simp <;> ring

example : (1000 : ℝ) ≠ 0 ∧ (0 : ℝ) < 0.05 ∧ (0 : ℝ) ≤ 0.2 := by norm_num

theorem inertia_eq_spec_cylinder (ρ r hh s2 : ℝ) (hρ : ρ ≠ 0) (hr : 0 < r) (hh0 : 0 ≤ hh) :
    geomMassInertia Real.pi .cylinder false none ρ ⟨r, hh, s2⟩ = some (ρ * cylinderVol r hh, solidCylinder ρ r hh) ∧
    geomMassInertia Real.pi .cylinder true none ρ ⟨r, hh, s2⟩ = some (ρ * cylinderArea r hh, shellCylinder ρ r hh) := by
  have hpi := Real.pi_pos
  have h2 : (2 : ℝ) * (Real.pi * r * r) + 2 * Real.pi * r * (2 * hh) ≠ 0 := by positivity
  simp only [geomMassInertia, geomVolume, geomInertia, cylinderVol, cylinderArea, cylinderWallArea, diskArea,
    solidCylinder, shellCylinder, L, real_ofInt, real_beq, decide_eq_true_eq]
  push_cast
  simp only [if_neg hρ, Option.some.injEq, Prod.mk.injEq, V3.mk.injEq]
  refine ⟨⟨by ring, ?_, ?_, ?_⟩, ⟨by ring, ?_, ?_, ?_⟩⟩ <;> field_simp <;> ring

theorem inertia_eq_spec_ellipsoid (ρ a b c : ℝ) (hρ : ρ ≠ 0) :
    geomMassInertia Real.pi .ellipsoid false none ρ ⟨a, b, c⟩ = some (ρ * ellipsoidVol a b c, solidEllipsoid ρ a b c) := by
  simp only [geomMassInertia, geomVolume, geomInertia, ellipsoidVol, solidEllipsoid, L, real_ofInt, real_beq,
    decide_eq_true_eq]
  push_cast
  simp only [if_neg hρ, Option.some.injEq, Prod.mk.injEq, V3.mk.injEq]
  refine ⟨by ring, ?_, ?_, ?_⟩ <;> ring

theorem inertia_eq_spec_box (ρ a b c : ℝ) (hρ : ρ ≠ 0) (ha : 0 < a) (hb : 0 < b) (hc : 0 < c) :
    geomMassInertia Real.pi .box false none ρ ⟨a, b, c⟩ = some (ρ * boxVol a b c, solidBox ρ a b c) ∧
    geomMassInertia Real.pi .box true none ρ ⟨a, b, c⟩ = some (ρ * boxArea a b c, shellBox ρ a b c) := by
  have h2 : (2 : ℝ) * (2 * a * (2 * b) + 2 * b * (2 * c) + 2 * c * (2 * a)) ≠ 0 := by positivity
  simp only [geomMassInertia, geomVolume, geomInertia, boxVol, boxArea, solidBox, shellBox, L, real_ofInt, real_beq,
    decide_eq_true_eq]
  push_cast
  simp only [if_neg hρ, Option.some.injEq, Prod.mk.injEq, V3.mk.injEq]
  refine ⟨⟨by ring, ?_, ?_, ?_⟩, ⟨by ring, ?_, ?_, ?_⟩⟩ <;> field_simp <;> ring

/-- a geom given by `mass` (non-zero, volume above `mjEPS`) has the mass properties of the same shape with
    density `mass / volume` -/
theorem mass_branch_eq_density_branch (t : GType) (shell : Bool) (m d : ℝ) (s : V3 ℝ) (vol : ℝ)
    (hv : geomVolume Real.pi t shell s = some vol) (hm : m ≠ 0) (hvol : mjEPS < vol) :
    geomMassInertia Real.pi t shell (some m) d s = geomMassInertia Real.pi t shell none (m / vol) s := by
  have hv0 : vol ≠ 0 := ne_of_gt (lt_trans mjEPS_pos hvol)
  have hq : m / vol ≠ 0 := div_ne_zero hm hv0
  have hmul : m / vol * vol = m := by field_simp
  simp only [geomMassInertia, hv, real_beq, L, real_ofInt, decide_eq_true_eq]
  push_cast
  rw [if_neg hm, if_pos hvol, if_neg hq, hmul]

/-! ### triangle inequality of the primitives -/

/-- every primitive with non-negative mass and positive sizes has principal moments with `A + B ≥ C`
    (the ellipsoid shell, computed by differencing two solids with `eps = 1e-6`, is excluded) -/
theorem primitive_inertia_triangle (t : GType) (shell : Bool) (m : ℝ) (s : V3 ℝ)
    (hns : ¬ (t = .ellipsoid ∧ shell = true)) (hm : 0 ≤ m) (hx : 0 < s.x) (hy : 0 < s.y) (hz : 0 < s.z) :
    triangle (geomInertia Real.pi t shell m s) := by
  obtain ⟨a, b, c⟩ := s
  have ha : 0 < a := hx
  have hb : 0 < b := hy
  have hc : 0 < c := hz
  have hpi := Real.pi_pos
  cases t <;> cases shell
  -- sphere, solid / shell
  · simp only [triangle, geomInertia, L, real_ofInt]; push_cast
    have : 0 ≤ 2 * m * a * a / 5 := by positivity
    refine ⟨by linarith, by linarith, by linarith⟩
  · simp only [triangle, geomInertia, L, real_ofInt]; push_cast
    have : 0 ≤ 2 * m * a * a / 3 := by positivity
    refine ⟨by linarith, by linarith, by linarith⟩
  -- capsule, solid
  · simp only [triangle, geomInertia, L, real_ofInt]; push_cast
    have hden : 0 < 4 * a + 3 * (2 * b) := by positivity
    have hsm : 0 ≤ m * 4 * a / (4 * a + 3 * (2 * b)) := by positivity
    have hcm : 0 ≤ m - m * 4 * a / (4 * a + 3 * (2 * b)) := by
      rw [sub_nonneg, div_le_iff₀ hden]; nlinarith [mul_nonneg hm hb.le, mul_nonneg hm ha.le]
    generalize m * 4 * a / (4 * a + 3 * (2 * b)) = sm at hsm hcm
    generalize hcmd : m - sm = cm at hcm
    have e1 : 0 ≤ cm * (2 * b * (2 * b)) := by positivity
    have e2 : 0 ≤ cm * a * a := by positivity
    have e3 : 0 ≤ sm * a * a := by positivity
    have e4 : 0 ≤ sm * (2 * b) * (3 * a + 2 * (2 * b)) := by positivity
    have e5 : 0 ≤ cm * (3 * a * a) := by positivity
    refine ⟨by nlinarith, by nlinarith, by nlinarith⟩
  -- capsule, shell
  · simp only [triangle, geomInertia, L, real_ofInt]; push_cast
    have hAs : 0 < 4 * Real.pi * a * a := by positivity
    have hAc : 0 < 2 * Real.pi * a * (2 * b) := by positivity
    have hAt : 0 < 4 * Real.pi * a * a + 2 * Real.pi * a * (2 * b) := by positivity
    have hsm : 0 ≤ m * (4 * Real.pi * a * a) / (4 * Real.pi * a * a + 2 * Real.pi * a * (2 * b)) := by positivity
    have hcm : 0 ≤ m - m * (4 * Real.pi * a * a) / (4 * Real.pi * a * a + 2 * Real.pi * a * (2 * b)) := by
      rw [sub_nonneg, div_le_iff₀ hAt]; nlinarith [mul_nonneg hm hAc.le]
    generalize m * (4 * Real.pi * a * a) / (4 * Real.pi * a * a + 2 * Real.pi * a * (2 * b)) = sm at hsm hcm
    generalize hcmd : m - sm = cm at hcm
    have e1 : 0 ≤ cm * (2 * b * (2 * b)) := by positivity
    have e2 : 0 ≤ cm * a * a := by positivity
    have e3 : 0 ≤ sm * a * a := by positivity
    have e4 : 0 ≤ sm * ((b + a / 2) * (b + a / 2) - a / 2 * (a / 2)) := by
      apply mul_nonneg hsm; nlinarith [mul_pos ha hb, mul_pos hb hb]
    refine ⟨by nlinarith, by nlinarith, by nlinarith⟩
  -- cylinder, solid
  · simp only [triangle, geomInertia, L, real_ofInt]; push_cast
    have e1 : 0 ≤ m * (2 * b * (2 * b)) := by positivity
    have e2 : 0 ≤ m * a * a := by positivity
    refine ⟨by nlinarith, by nlinarith, by nlinarith⟩
  -- cylinder, shell
  · simp only [triangle, geomInertia, L, real_ofInt]; push_cast
    have hAd : 0 < Real.pi * a * a := by positivity
    have hAc : 0 < 2 * Real.pi * a * (2 * b) := by positivity
    have hAt : 0 < 2 * (Real.pi * a * a) + 2 * Real.pi * a * (2 * b) := by positivity
    have hmd : 0 ≤ m * (Real.pi * a * a) / (2 * (Real.pi * a * a) + 2 * Real.pi * a * (2 * b)) := by positivity
    have hmc : 0 ≤ m - 2 * (m * (Real.pi * a * a) / (2 * (Real.pi * a * a) + 2 * Real.pi * a * (2 * b))) := by
      rw [sub_nonneg, ← mul_div_assoc, div_le_iff₀ hAt]; nlinarith [mul_nonneg hm hAc.le]
    generalize m * (Real.pi * a * a) / (2 * (Real.pi * a * a) + 2 * Real.pi * a * (2 * b)) = md at hmd hmc
    generalize hmcd : m - 2 * md = mc at hmc
    have e1 : 0 ≤ mc * (2 * b * (2 * b)) := by positivity
    have e2 : 0 ≤ mc * a * a := by positivity
    have e3 : 0 ≤ md * a * a := by positivity
    have e4 : 0 ≤ md * b * b := by positivity
    refine ⟨by nlinarith, by nlinarith, by nlinarith⟩
  -- ellipsoid, solid
  · simp only [triangle, geomInertia, L, real_ofInt]; push_cast
    have e1 : 0 ≤ m * (a * a) := by positivity
    have e2 : 0 ≤ m * (b * b) := by positivity
    have e3 : 0 ≤ m * (c * c) := by positivity
    refine ⟨by nlinarith, by nlinarith, by nlinarith⟩
  -- ellipsoid, shell: excluded
  · exact absurd ⟨rfl, rfl⟩ hns
  -- box, solid
  · simp only [triangle, geomInertia, L, real_ofInt]; push_cast
    have e1 : 0 ≤ m * (a * a) := by positivity
    have e2 : 0 ≤ m * (b * b) := by positivity
    have e3 : 0 ≤ m * (c * c) := by positivity
    refine ⟨by nlinarith, by nlinarith, by nlinarith⟩
  -- box, shell
  · simp only [triangle, geomInertia, L, real_ofInt]; push_cast
    have hAt : 0 < 2 * (2 * a * (2 * b) + 2 * b * (2 * c) + 2 * c * (2 * a)) := by positivity
    have h0 : 0 ≤ m * (2 * a * (2 * b)) / (2 * (2 * a * (2 * b) + 2 * b * (2 * c) + 2 * c * (2 * a))) := by positivity
    have h1 : 0 ≤ m * (2 * b * (2 * c)) / (2 * (2 * a * (2 * b) + 2 * b * (2 * c) + 2 * c * (2 * a))) := by positivity
    have h2 : 0 ≤ m * (2 * c * (2 * a)) / (2 * (2 * a * (2 * b) + 2 * b * (2 * c) + 2 * c * (2 * a))) := by positivity
    generalize m * (2 * a * (2 * b)) / (2 * (2 * a * (2 * b) + 2 * b * (2 * c) + 2 * c * (2 * a))) = m0 at h0
    generalize m * (2 * b * (2 * c)) / (2 * (2 * a * (2 * b) + 2 * b * (2 * c) + 2 * c * (2 * a))) = m1 at h1
    generalize m * (2 * c * (2 * a)) / (2 * (2 * a * (2 * b) + 2 * b * (2 * c) + 2 * c * (2 * a))) = m2 at h2
    have a0 : 0 ≤ m0 * (a * a) := by positivity
    have b0 : 0 ≤ m0 * (b * b) := by positivity
    have c0 : 0 ≤ m0 * (c * c) := by positivity
    have a1 : 0 ≤ m1 * (a * a) := by positivity
    have b1 : 0 ≤ m1 * (b * b) := by positivity
    have c1 : 0 ≤ m1 * (c * c) := by positivity
    have a2 : 0 ≤ m2 * (a * a) := by positivity
    have b2 : 0 ≤ m2 * (b * b) := by positivity
    have c2 : 0 ≤ m2 * (c * c) := by positivity
    refine ⟨by nlinarith, by nlinarith, by nlinarith⟩

example : ¬ (GType.capsule = .ellipsoid ∧ false = true) ∧ (0 : ℝ) ≤ 2 ∧ (0 : ℝ) < 0.1 := by
  refine ⟨by simp, by norm_num, by norm_num⟩

/-! ### parallel-axis accumulation (`mjCBody::InertiaFromGeom`) -/

/-- the generated `mjuu_globalinertia` is `R diag(I) Rᵀ` with `R` the rotation matrix of the quaternion -/
theorem globalinertia_eq_rotateDiag (I : V3 ℝ) (q : Q ℝ) : globalinertia I q = rotateDiag (matF q) I := by
  simp only [globalinertia, mjuu_globalinertia, mjuu_quat2mat_eq, rotateDiag, matF, Sym6.mk.injEq]
  comp_ring

/-- the generated `mjuu_offcenter` is `m (‖d‖² 1 − d dᵀ)` -/
theorem offcenter_eq_pointMass (m : ℝ) (d : V3 ℝ) : offcenter m d = pointMass m d := by
  simp only [offcenter, mjuu_offcenter, pointMass, Sym6.mk.injEq]
  comp_ring

/-- **parallel-axis accumulation**: the inertia accumulated by the geom loop of `InertiaFromGeom` about `c` is
    `t₀ + Σ (R diag(I) Rᵀ + m (‖d‖² 1 − d dᵀ))`, `d = pos − c` -/
theorem parallel_axis (c : V3 ℝ) (gs : List (GeomMI ℝ)) (t : Sym6 ℝ) :
    totalInertia c gs t = Sym6.add t (inertiaAbout c gs) := by
  induction gs generalizing t with
  | nil => simp only [totalInertia, inertiaAbout, Sym6.add, Sym6.zero, add_zero]
  | cons g gs ih =>
    simp only [totalInertia, ih, inertiaAbout, partAbout, globalinertia_eq_rotateDiag, offcenter_eq_pointMass,
      sym6acc, Sym6.add, Sym6.mk.injEq]
    comp_ring

/-- the accumulation used when fusing static bodies (`AccumulateInertia`) is the same sum -/
theorem parallel_axis_accumulate (c : V3 ℝ) (gs : List (GeomMI ℝ)) (t : Sym6 ℝ) :
    totalInertia' c gs t = Sym6.add t (inertiaAbout c gs) := by
  induction gs generalizing t with
  | nil => simp only [totalInertia', inertiaAbout, Sym6.add, Sym6.zero, add_zero]
  | cons g gs ih =>
    simp only [totalInertia', ih, inertiaAbout, partAbout, globalinertia_eq_rotateDiag, offcenter_eq_pointMass,
      sym6acc', Sym6.add, Sym6.mk.injEq]
    comp_ring

/-- total mass and first moment accumulated by the first loop -/
theorem massCom_eq (gs : List (GeomMI ℝ)) (m0 : ℝ) (c0 : V3 ℝ) :
    massCom gs (m0, c0) =
      (m0 + totalMass gs, ⟨c0.x + (firstMoment gs).x, c0.y + (firstMoment gs).y, c0.z + (firstMoment gs).z⟩) := by
  induction gs generalizing m0 c0 with
  | nil => simp only [massCom, totalMass, firstMoment, add_zero]
  | cons g gs ih =>
    simp only [massCom, ih, totalMass, firstMoment, Prod.mk.injEq, V3.mk.injEq]
    comp_ring

/-- general displacement formula behind the Huygens–Steiner theorem -/
theorem inertiaAbout_shift (c : V3 ℝ) (gs : List (GeomMI ℝ)) :
    inertiaAbout c gs =
      let P := inertiaAbout ⟨0, 0, 0⟩ gs
      let S := firstMoment gs
      let M := totalMass gs
      ⟨P.xx - 2 * (c.y * S.y + c.z * S.z) + M * (c.y ^ 2 + c.z ^ 2),
       P.yy - 2 * (c.x * S.x + c.z * S.z) + M * (c.x ^ 2 + c.z ^ 2),
       P.zz - 2 * (c.x * S.x + c.y * S.y) + M * (c.x ^ 2 + c.y ^ 2),
       P.xy + (c.x * S.y + c.y * S.x) - M * c.x * c.y,
       P.xz + (c.x * S.z + c.z * S.x) - M * c.x * c.z,
       P.yz + (c.y * S.z + c.z * S.y) - M * c.y * c.z⟩ := by
  induction gs with
  | nil => simp only [inertiaAbout, firstMoment, totalMass, Sym6.zero, Sym6.mk.injEq]; comp_ring
  | cons g gs ih =>
    rw [inertiaAbout, ih]
    simp only [inertiaAbout, partAbout, pointMass, firstMoment, totalMass, Sym6.add, Sym6.mk.injEq]
    comp_ring

/-- **Huygens–Steiner (parallel-axis theorem)**: if `c` is the centre of mass (`M c = Σ mᵢ xᵢ`) then the inertia
    about the origin is the inertia about `c` plus that of the total mass placed at `c` -/
theorem parallel_axis_steiner (c : V3 ℝ) (gs : List (GeomMI ℝ))
    (hx : totalMass gs * c.x = (firstMoment gs).x) (hy : totalMass gs * c.y = (firstMoment gs).y)
    (hz : totalMass gs * c.z = (firstMoment gs).z) :
    Sym6.add (inertiaAbout c gs) (pointMass (totalMass gs) c) = inertiaAbout ⟨0, 0, 0⟩ gs := by
  rw [inertiaAbout_shift c gs]
  simp only [Sym6.add, pointMass, ← hx, ← hy, ← hz]
  generalize inertiaAbout ⟨0, 0, 0⟩ gs = P
  obtain ⟨pxx, pyy, pzz, pxy, pxz, pyz⟩ := P
  simp only [Sym6.mk.injEq]
  comp_ring

/-- what `InertiaFromGeom` computes for two or more selected geoms: total mass, the mass-weighted mean position,
    and the principal decomposition (`mjuu_fullInertia`, i.e. the Jacobi iteration `mjuu_eig3`) of the analytic
    total inertia about that point.  **Partial**: that the Jacobi iteration diagonalises its input is not proved
    (iterative numerics; covered by the reconstruction certificate below and by the oracle). -/
theorem inertiaFromGeom_spec_partial (g1 g2 : GeomMI ℝ) (gs : List (GeomMI ℝ)) (b : BodyMI ℝ)
    (hsel : ∀ g ∈ g1 :: g2 :: gs, mjEPS < g.mass)
    (hres : inertiaFromGeom (g1 :: g2 :: gs) = .ok (some b)) :
    b.mass = totalMass (g1 :: g2 :: gs) ∧
    b.mass * b.ipos.x = (firstMoment (g1 :: g2 :: gs)).x ∧
    b.mass * b.ipos.y = (firstMoment (g1 :: g2 :: gs)).y ∧
    b.mass * b.ipos.z = (firstMoment (g1 :: g2 :: gs)).z ∧
    (let T := inertiaAbout b.ipos (g1 :: g2 :: gs)
     fullInertia T.xx T.yy T.zz T.xy T.xz T.yz = .ok (b.iquat, b.inertia)) := by
  have hf : (g1 :: g2 :: gs).filter (fun g => decide (mjEPS < g.mass)) = g1 :: g2 :: gs := by
    apply List.filter_eq_self.mpr
    intro g hg; simpa using hsel g hg
  unfold inertiaFromGeom at hres
  rw [hf] at hres
  simp only [massCom_eq, parallel_axis] at hres
  split_ifs at hres with hlt
  split at hres
  · simp at hres
  · rename_i q ev hT
    simp only [Except.ok.injEq, Option.some.injEq] at hres
    subst hres
    have hz : (L 0 : ℝ) = 0 := by simp only [L, real_ofInt]; push_cast; rfl
    simp only [hz, v3zero, sym6zero, Sym6.add, zero_add] at hT hlt ⊢
    have hMpos : 0 < totalMass (g1 :: g2 :: gs) := lt_of_lt_of_le mjEPS_pos (not_lt.mp hlt)
    have hMne : totalMass (g1 :: g2 :: gs) ≠ 0 := ne_of_gt hMpos
    refine ⟨trivial, ?_, ?_, ?_, hT⟩ <;> field_simp

/-! ### triangle inequality of composed bodies -/

theorem triangleFull_diag (I : V3 ℝ) (h : triangle I) : triangleFull ⟨I.x, I.y, I.z, 0, 0, 0⟩ := by
  intro u
  obtain ⟨h1, h2, h3⟩ := h
  simp only [qform, trace]
  nlinarith [mul_nonneg (sub_nonneg.2 h1) (sq_nonneg u.z), mul_nonneg (sub_nonneg.2 h2) (sq_nonneg u.y),
    mul_nonneg (sub_nonneg.2 h3) (sq_nonneg u.x)]

theorem triangleFull_add (a b : Sym6 ℝ) (ha : triangleFull a) (hb : triangleFull b) : triangleFull (Sym6.add a b) := by
  intro u
  have h1 := ha u
  have h2 := hb u
  simp only [qform, trace, Sym6.add] at *
  nlinarith

theorem triangleFull_zero : triangleFull Sym6.zero := by
  intro u; simp only [qform, trace, Sym6.zero]; nlinarith

theorem triangleFull_pointMass (m : ℝ) (d : V3 ℝ) (hm : 0 ≤ m) : triangleFull (pointMass m d) := by
  intro u
  simp only [qform, trace, pointMass]
  nlinarith [mul_nonneg hm (sq_nonneg (d.x * u.x + d.y * u.y + d.z * u.z))]

/-- `Rᵀ u` for the rotation matrix of `(w, x, y, z)` -/
def colDot (w x y z ux uy uz : ℝ) : V3 ℝ :=
  ⟨(w*w + x*x - y*y - z*z) * ux + (2 * (x*y + w*z)) * uy + (2 * (x*z - w*y)) * uz,
   (2 * (x*y - w*z)) * ux + (w*w - x*x + y*y - z*z) * uy + (2 * (y*z + w*x)) * uz,
   (2 * (x*z + w*y)) * ux + (2 * (y*z - w*x)) * uy + (w*w - x*x - y*y + z*z) * uz⟩

theorem qform_rotateDiag (w x y z A B C ux uy uz : ℝ) :
    qform (rotateDiag (matF ⟨w, x, y, z⟩) ⟨A, B, C⟩) ⟨ux, uy, uz⟩ =
      A * (colDot w x y z ux uy uz).x ^ 2 + B * (colDot w x y z ux uy uz).y ^ 2 + C * (colDot w x y z ux uy uz).z ^ 2 := by
  simp only [qform, rotateDiag, matF, colDot]; ring

theorem colDot_norm (w x y z ux uy uz : ℝ) :
    (colDot w x y z ux uy uz).x ^ 2 + (colDot w x y z ux uy uz).y ^ 2 + (colDot w x y z ux uy uz).z ^ 2 =
      (w * w + x * x + y * y + z * z) ^ 2 * (ux ^ 2 + uy ^ 2 + uz ^ 2) := by
  simp only [colDot]; ring

theorem trace_rotateDiag (w x y z A B C : ℝ) :
    trace (rotateDiag (matF ⟨w, x, y, z⟩) ⟨A, B, C⟩) = (w * w + x * x + y * y + z * z) ^ 2 * (A + B + C) := by
  simp only [trace, rotateDiag, matF]; ring

/-- rotating a principal-axes tensor that satisfies the triangle inequality by a unit quaternion keeps it -/
theorem triangleFull_rotateDiag (q : Q ℝ) (I : V3 ℝ) (hq : nsq q = 1) (h : triangle I) :
    triangleFull (rotateDiag (matF q) I) := by
  intro u
  obtain ⟨w, x, y, z⟩ := q
  obtain ⟨ux, uy, uz⟩ := u
  obtain ⟨A, B, C⟩ := I
  have hn : w * w + x * x + y * y + z * z = 1 := by simpa [nsq] using hq
  have hB := colDot_norm w x y z ux uy uz
  rw [qform_rotateDiag, trace_rotateDiag, hn]
  rw [hn] at hB
  have hd := triangleFull_diag ⟨A, B, C⟩ h (colDot w x y z ux uy uz)
  simp only [qform, trace] at hd
  generalize colDot w x y z ux uy uz = v at hd hB
  simp only [one_pow, one_mul] at hB ⊢
  rw [hB] at hd
  linarith

theorem triangleFull_inertiaAbout (c : V3 ℝ) (gs : List (GeomMI ℝ))
    (h : ∀ g ∈ gs, 0 ≤ g.mass ∧ nsq g.quat = 1 ∧ triangle g.inertia) : triangleFull (inertiaAbout c gs) := by
  induction gs with
  | nil => exact triangleFull_zero
  | cons g gs ih =>
    obtain ⟨hm, hq, ht⟩ := h g (List.mem_cons_self)
    simp only [inertiaAbout, partAbout]
    exact triangleFull_add _ _
      (triangleFull_add _ _ (triangleFull_rotateDiag _ _ hq ht) (triangleFull_pointMass _ _ hm))
      (ih (fun g' hg' => h g' (List.mem_cons_of_mem _ hg')))

/-- a principal decomposition `R(q) diag(λ) R(q)ᵀ` (unit `q`) of a tensor satisfying the coordinate-free triangle
    inequality has principal moments with `A + B ≥ C` -/
theorem triangle_of_triangleFull (q : Q ℝ) (ev : V3 ℝ) (hq : nsq q = 1)
    (h : triangleFull (rotateDiag (matF q) ev)) : triangle ev := by
  obtain ⟨w, x, y, z⟩ := q
  obtain ⟨A, B, C⟩ := ev
  have hn : w * w + x * x + y * y + z * z = 1 := by simpa [nsq] using hq
  have key : ∀ ux uy uz : ℝ, 2 * (A * (colDot w x y z ux uy uz).x ^ 2 + B * (colDot w x y z ux uy uz).y ^ 2 + C * (colDot w x y z ux uy uz).z ^ 2) ≤
      (A + B + C) * (ux ^ 2 + uy ^ 2 + uz ^ 2) := by
    intro ux uy uz
    have := h ⟨ux, uy, uz⟩
    rw [qform_rotateDiag, trace_rotateDiag, hn] at this
    simpa using this
  -- test vectors: the columns of R; Rᵀ col_j = n² e_j
  have c0 : colDot w x y z (w*w + x*x - y*y - z*z) (2 * (x*y + w*z)) (2 * (x*z - w*y)) = ⟨(w * w + x * x + y * y + z * z) ^ 2, 0, 0⟩ := by
    simp only [colDot, V3.mk.injEq]; refine ⟨by ring, by ring, by ring⟩
  have c1 : colDot w x y z (2 * (x*y - w*z)) (w*w - x*x + y*y - z*z) (2 * (y*z + w*x)) = ⟨0, (w * w + x * x + y * y + z * z) ^ 2, 0⟩ := by
    simp only [colDot, V3.mk.injEq]; refine ⟨by ring, by ring, by ring⟩
  have c2 : colDot w x y z (2 * (x*z + w*y)) (2 * (y*z - w*x)) (w*w - x*x - y*y + z*z) = ⟨0, 0, (w * w + x * x + y * y + z * z) ^ 2⟩ := by
    simp only [colDot, V3.mk.injEq]; refine ⟨by ring, by ring, by ring⟩
  have n0 : (w*w + x*x - y*y - z*z) ^ 2 + (2 * (x*y + w*z)) ^ 2 + (2 * (x*z - w*y)) ^ 2 = (w * w + x * x + y * y + z * z) ^ 2 := by ring
  have n1 : (2 * (x*y - w*z)) ^ 2 + (w*w - x*x + y*y - z*z) ^ 2 + (2 * (y*z + w*x)) ^ 2 = (w * w + x * x + y * y + z * z) ^ 2 := by ring
  have n2 : (2 * (x*z + w*y)) ^ 2 + (2 * (y*z - w*x)) ^ 2 + (w*w - x*x - y*y + z*z) ^ 2 = (w * w + x * x + y * y + z * z) ^ 2 := by ring
  have k0 := key (w*w + x*x - y*y - z*z) (2 * (x*y + w*z)) (2 * (x*z - w*y))
  have k1 := key (2 * (x*y - w*z)) (w*w - x*x + y*y - z*z) (2 * (y*z + w*x))
  have k2 := key (2 * (x*z + w*y)) (2 * (y*z - w*x)) (w*w - x*x - y*y + z*z)
  rw [c0, n0, hn] at k0
  rw [c1, n1, hn] at k1
  rw [c2, n2, hn] at k2
  simp only [triangle]
  norm_num at k0 k1 k2
  refine ⟨by linarith, by linarith, by linarith⟩
/-- **the sum preserves the triangle inequality**: if every part has non-negative mass, a unit orientation and
    principal moments with `A + B ≥ C`, then any exact principal decomposition `(q, λ)` (unit `q`) of the inertia that
    `InertiaFromGeom` accumulates has `λ` with `A + B ≥ C` -/
theorem sum_preserves_triangle (c : V3 ℝ) (gs : List (GeomMI ℝ)) (q : Q ℝ) (ev : V3 ℝ)
    (h : ∀ g ∈ gs, 0 ≤ g.mass ∧ nsq g.quat = 1 ∧ triangle g.inertia) (hq : nsq q = 1)
    (hdec : totalInertia c gs sym6zero = rotateDiag (matF q) ev) : triangle ev := by
  apply triangle_of_triangleFull q ev hq
  rw [← hdec, parallel_axis]
  refine triangleFull_add _ _ ?_ (triangleFull_inertiaAbout c gs h)
  intro u
  simp only [qform, trace, sym6zero, L, real_ofInt]
  push_cast
  nlinarith

example : ∀ g ∈ [(⟨1, ⟨0, 0, 0⟩, ⟨1, 0, 0, 0⟩, ⟨1, 1, 1⟩⟩ : GeomMI ℝ)],
    0 ≤ g.mass ∧ nsq g.quat = 1 ∧ triangle g.inertia := by
  intro g hg
  simp only [List.mem_singleton] at hg
  subst hg
  refine ⟨by norm_num, by simp [nsq], by simp [triangle]⟩

/-! ### principal axes reconstruct the tensor -/

/-- symmetric matrix–vector product of a 6-vector tensor -/
def symMulVec (I : Sym6 ℝ) (u : V3 ℝ) : V3 ℝ :=
  ⟨I.xx * u.x + I.xy * u.y + I.xz * u.z, I.xy * u.x + I.yy * u.y + I.yz * u.z, I.xz * u.x + I.yz * u.y + I.zz * u.z⟩

/-- **principal axes reconstruct**: for a unit `iquat` the tensor `R diag(inertia) Rᵀ` denoted by the stored pair
    `(body_iquat, body_inertia)` has the columns of `R` as eigenvectors with the stored moments as eigenvalues; so a
    stored pair whose reconstruction equals the full tensor *is* its principal decomposition (this is the
    certificate checked on the compiled output by the oracle). -/
theorem principal_axes_reconstruct (q : Q ℝ) (ev : V3 ℝ) (hq : nsq q = 1) :
    let R := matF q
    let F := rotateDiag R ev
    symMulVec F ⟨R.m0, R.m3, R.m6⟩ = ⟨ev.x * R.m0, ev.x * R.m3, ev.x * R.m6⟩ ∧
    symMulVec F ⟨R.m1, R.m4, R.m7⟩ = ⟨ev.y * R.m1, ev.y * R.m4, ev.y * R.m7⟩ ∧
    symMulVec F ⟨R.m2, R.m5, R.m8⟩ = ⟨ev.z * R.m2, ev.z * R.m5, ev.z * R.m8⟩ := by
  obtain ⟨w, x, y, z⟩ := q
  obtain ⟨A, B, C⟩ := ev
  have h2 : (w * w + x * x + y * y + z * z) ^ 2 = 1 := by
    simp only [nsq] at hq; rw [hq]; norm_num
  simp only [symMulVec, rotateDiag, matF, V3.mk.injEq]
  refine ⟨⟨?_, ?_, ?_⟩, ⟨?_, ?_, ?_⟩, ⟨?_, ?_, ?_⟩⟩
  · linear_combination (A * (w*w + x*x - y*y - z*z)) * h2
  · linear_combination (A * (2 * (x*y + w*z))) * h2
  · linear_combination (A * (2 * (x*z - w*y))) * h2
  · linear_combination (B * (2 * (x*y - w*z))) * h2
  · linear_combination (B * (w*w - x*x + y*y - z*z)) * h2
  · linear_combination (B * (2 * (y*z + w*x))) * h2
  · linear_combination (C * (2 * (x*z + w*y))) * h2
  · linear_combination (C * (2 * (y*z - w*x))) * h2
  · linear_combination (C * (w*w - x*x - y*y + z*z)) * h2

example : nsq (⟨1, 0, 0, 0⟩ : Q ℝ) = 1 := by simp [nsq]

/-- a single selected geom is copied: `ipos, iquat, mass, inertia` are the geom's -/
theorem inertiaFromGeom_single (g : GeomMI ℝ) (h : mjEPS < g.mass) :
    inertiaFromGeom [g] = .ok (some ⟨g.mass, g.pos, g.quat, g.inertia⟩) := by
  simp only [inertiaFromGeom, List.filter, h, decide_true]

/-! ### further instances of the hypotheses -/

-- `parallel_axis_steiner`: two unit masses at x = 0 and x = 2 have their centre of mass at (1, 0, 0)
example :
    let gs : List (GeomMI ℝ) := [⟨1, ⟨0, 0, 0⟩, ⟨1, 0, 0, 0⟩, ⟨1, 1, 1⟩⟩, ⟨1, ⟨2, 0, 0⟩, ⟨1, 0, 0, 0⟩, ⟨1, 1, 1⟩⟩]
    totalMass gs * (1 : ℝ) = (firstMoment gs).x ∧ totalMass gs * (0 : ℝ) = (firstMoment gs).y := by
  simp only [totalMass, firstMoment]; norm_num

-- `mass_branch_eq_density_branch`: a unit box of mass 2
example : geomVolume Real.pi .box false (⟨1, 1, 1⟩ : V3 ℝ) = some 8 ∧ (mjEPS : ℝ) < 8 ∧ (2 : ℝ) ≠ 0 := by
  refine ⟨?_, ?_, by norm_num⟩
  · simp only [geomVolume, L, real_ofInt]; norm_num
  · rw [mjEPS_eq]; norm_num

/-! ### the bound / sign / triangle step of `mjCBody::Compile`, the inertial clause, `settotalmass` -/

theorem L0_eq : (L 0 : ℝ) = 0 := by simp only [L, real_ofInt]; push_cast; rfl
theorem L3_eq : (L 3 : ℝ) = 3 := by simp only [L, real_ofInt]; push_cast; rfl

theorem mx_spec (a c : ℝ) : a ≤ (if a < c then c else a) ∧ c ≤ (if a < c then c else a) := by
  split_ifs with h
  · exact ⟨le_of_lt h, le_refl _⟩
  · exact ⟨le_refl _, not_lt.mp h⟩

/-- **compiled inertias satisfy the triangle inequality**: whatever the inertial values, the bounds and the
    `balanceinertia` flag, a body that passes the bound / sign / triangle step of `mjCBody::Compile` has non-negative
    mass and moments, respects `boundmass` / `boundinertia`, and its moments satisfy `A + B ≥ C` in all three
    arrangements (so the check cannot be reduced to one comparison: the moments of an inertial clause are unordered) -/
theorem bodyFinish_triangle (bm bi : ℝ) (bal : Bool) (b r : BodyMI ℝ) (h : bodyFinish bm bi bal b = .ok r) :
    triangle r.inertia ∧ 0 ≤ r.mass ∧ 0 ≤ r.inertia.x ∧ 0 ≤ r.inertia.y ∧ 0 ≤ r.inertia.z ∧
    bm ≤ r.mass ∧ bi ≤ r.inertia.x ∧ bi ≤ r.inertia.y ∧ bi ≤ r.inertia.z := by
  unfold bodyFinish at h
  simp only [L0_eq, L3_eq] at h
  obtain ⟨_, hm⟩ := mx_spec b.mass bm
  obtain ⟨_, h0⟩ := mx_spec b.inertia.x bi
  obtain ⟨_, h1⟩ := mx_spec b.inertia.y bi
  obtain ⟨_, h2⟩ := mx_spec b.inertia.z bi
  generalize (if b.mass < bm then bm else b.mass) = m at *
  generalize (if b.inertia.x < bi then bi else b.inertia.x) = i0 at *
  generalize (if b.inertia.y < bi then bi else b.inertia.y) = i1 at *
  generalize (if b.inertia.z < bi then bi else b.inertia.z) = i2 at *
  split_ifs at h with hneg htri hbal
  · push Not at hneg
    obtain ⟨n0, n1, n2, n3⟩ := hneg
    simp only [Except.ok.injEq] at h
    subst h
    simp only [triangle]
    refine ⟨⟨?_, ?_, ?_⟩, n0, ?_, ?_, ?_, hm, ?_, ?_, ?_⟩ <;> linarith
  · push Not at hneg htri
    obtain ⟨n0, n1, n2, n3⟩ := hneg
    obtain ⟨t0, t1, t2⟩ := htri
    simp only [Except.ok.injEq] at h
    subst h
    exact ⟨⟨t0, t1, t2⟩, n0, n1, n2, n3, hm, h0, h1, h2⟩

/-- the step changes neither the inertial frame nor, without balancing, anything but the clamped values -/
theorem bodyFinish_frame (bm bi : ℝ) (bal : Bool) (b r : BodyMI ℝ) (h : bodyFinish bm bi bal b = .ok r) :
    r.ipos = b.ipos ∧ r.iquat = b.iquat := by
  unfold bodyFinish at h
  simp only [] at h
  split_ifs at h <;> simp only [Except.ok.injEq] at h <;> subst h <;> exact ⟨rfl, rfl⟩

/-- no false rejection: physically valid values within the bounds (including the lamina `A + B = C`) pass unchanged -/
theorem bodyFinish_physical (bm bi : ℝ) (bal : Bool) (b : BodyMI ℝ) (hbm : bm ≤ b.mass) (hm : 0 ≤ b.mass)
    (bx : bi ≤ b.inertia.x) (by' : bi ≤ b.inertia.y) (bz : bi ≤ b.inertia.z)
    (nx : 0 ≤ b.inertia.x) (ny : 0 ≤ b.inertia.y) (nz : 0 ≤ b.inertia.z) (ht : triangle b.inertia) :
    bodyFinish bm bi bal b = .ok b := by
  obtain ⟨t0, t1, t2⟩ := ht
  unfold bodyFinish
  simp only [L0_eq, if_neg (not_lt.mpr hbm), if_neg (not_lt.mpr bx), if_neg (not_lt.mpr by'), if_neg (not_lt.mpr bz)]
  rw [if_neg (by push Not; exact ⟨hm, nx, ny, nz⟩), if_neg (by push Not; exact ⟨t0, t1, t2⟩)]

/-- non-physical moments (within the bounds, non-negative, violating the triangle inequality in ANY of the three
    arrangements) are rejected, or replaced by their mean (same trace) under `balanceinertia` -/
theorem bodyFinish_nonphysical (bm bi : ℝ) (b : BodyMI ℝ) (hbm : bm ≤ b.mass) (hm : 0 ≤ b.mass)
    (bx : bi ≤ b.inertia.x) (by' : bi ≤ b.inertia.y) (bz : bi ≤ b.inertia.z)
    (nx : 0 ≤ b.inertia.x) (ny : 0 ≤ b.inertia.y) (nz : 0 ≤ b.inertia.z) (ht : ¬ triangle b.inertia) :
    (∃ e, bodyFinish bm bi false b = .error e) ∧
    bodyFinish bm bi true b = .ok ⟨b.mass, b.ipos, b.iquat,
      ⟨(b.inertia.x + b.inertia.y + b.inertia.z) / 3, (b.inertia.x + b.inertia.y + b.inertia.z) / 3,
       (b.inertia.x + b.inertia.y + b.inertia.z) / 3⟩⟩ := by
  have hv : b.inertia.x + b.inertia.y < b.inertia.z ∨ b.inertia.x + b.inertia.z < b.inertia.y ∨
      b.inertia.y + b.inertia.z < b.inertia.x := by
    by_contra hc
    push Not at hc
    exact ht ⟨hc.1, hc.2.1, hc.2.2⟩
  unfold bodyFinish
  simp only [L0_eq, L3_eq, if_neg (not_lt.mpr hbm), if_neg (not_lt.mpr bx), if_neg (not_lt.mpr by'), if_neg (not_lt.mpr bz)]
  have hn : ¬ (b.mass < 0 ∨ b.inertia.x < 0 ∨ b.inertia.y < 0 ∨ b.inertia.z < 0) := by
    push Not; exact ⟨hm, nx, ny, nz⟩
  simp only [if_neg hn, if_pos hv, Bool.false_eq_true, if_false, if_true, and_true]
  exact ⟨_, rfl⟩

example : ¬ triangle (⟨0.1, 0.1, 1⟩ : V3 ℝ) ∧ ¬ triangle (⟨0.1, 1, 0.1⟩ : V3 ℝ) ∧ ¬ triangle (⟨1, 0.1, 0.1⟩ : V3 ℝ) := by
  simp only [triangle]; norm_num

/-- **every body compiled by the inertial part of `mjCBody::Compile` satisfies the triangle inequality**: for every
    inertial clause (diagonal or full inertia, any frame), every geom list, group range, `inertiafromgeom` mode, bounds
    and `balanceinertia` flag, a successful result has non-negative mass and moments within the bounds, with
    `A + B ≥ C` in all three arrangements -/
theorem bodyCompile_triangle (o : MassOpts ℝ) (bpos : V3 ℝ) (bquat : Q ℝ) (sp : BodyInertial ℝ) (geoms : List (GeomIn ℝ))
    (r : BodyMI ℝ) (h : bodyCompile o bpos bquat sp geoms = .ok r) :
    triangle r.inertia ∧ 0 ≤ r.mass ∧ 0 ≤ r.inertia.x ∧ 0 ≤ r.inertia.y ∧ 0 ≤ r.inertia.z ∧
    o.boundmass ≤ r.mass ∧ o.boundinertia ≤ r.inertia.x ∧ o.boundinertia ≤ r.inertia.y ∧ o.boundinertia ≤ r.inertia.z := by
  unfold bodyCompile at h
  simp only [] at h
  repeat' split at h
  all_goals first
    | exact bodyFinish_triangle _ _ _ _ _ h
    | (exfalso; simp at h)

/-- an explicit inertial clause with a defined position, a unit quaternion, diagonal inertia and physically valid
    values within the bounds is stored exactly as given (unless `inertiafromgeom = true` overrides it) -/
theorem bodyCompile_explicit (o : MassOpts ℝ) (bpos : V3 ℝ) (bquat : Q ℝ) (sp : BodyInertial ℝ) (geoms : List (GeomIn ℝ))
    (p : V3 ℝ) (hip : sp.ipos = some p) (hfull : sp.fullinertia = none) (hfg : o.fromgeom ≠ .yes) (hq : nsq sp.iquat = 1)
    (hbm : o.boundmass ≤ sp.mass) (hm : 0 ≤ sp.mass)
    (bx : o.boundinertia ≤ sp.inertia.x) (by' : o.boundinertia ≤ sp.inertia.y) (bz : o.boundinertia ≤ sp.inertia.z)
    (nx : 0 ≤ sp.inertia.x) (ny : 0 ≤ sp.inertia.y) (nz : 0 ≤ sp.inertia.z) (ht : triangle sp.inertia) :
    bodyCompile o bpos bquat sp geoms = .ok ⟨sp.mass, p, sp.iquat, sp.inertia⟩ := by
  unfold bodyCompile
  simp only [hip, hfull, normvec4_unit _ hq, hfg, decide_false, Bool.false_or, Option.isNone_some, Bool.false_and,
    Bool.false_eq_true, if_false]
  exact bodyFinish_physical _ _ _ ⟨sp.mass, p, sp.iquat, sp.inertia⟩ hbm hm bx by' bz nx ny nz ht

example : nsq (⟨1, 0, 0, 0⟩ : Q ℝ) = 1 ∧ triangle (⟨0.3, 0.5, 0.6⟩ : V3 ℝ) ∧ triangle (⟨1, 2, 3⟩ : V3 ℝ) := by
  simp only [nsq, triangle]; norm_num

/-! #### `settotalmass` -/

theorem mjMINVAL_eq : (mjMINVAL : ℝ) = 1 / 10 ^ 15 := by
  simp only [mjMINVAL, real_ofSci]; norm_num
theorem mjMINVAL_pos : (0 : ℝ) < mjMINVAL := by rw [mjMINVAL_eq]; positivity

/-- the scale factor of `mj_setTotalmass` -/
noncomputable def totalmassScale (newmass total : ℝ) : ℝ :=
  if newmass / (if total ≤ mjMINVAL then mjMINVAL else total) ≤ mjMINVAL then mjMINVAL
  else newmass / (if total ≤ mjMINVAL then mjMINVAL else total)

theorem totalmassScale_pos (newmass total : ℝ) : 0 < totalmassScale newmass total := by
  have hq : ∀ q : ℝ, 0 < (if q ≤ mjMINVAL then mjMINVAL else q) := by
    intro q
    split_ifs with h
    · exact mjMINVAL_pos
    · exact lt_trans mjMINVAL_pos (not_le.mp h)
  exact hq _

theorem foldl_mass (bs : List (BodyMI ℝ)) (a : ℝ) :
    bs.foldl (fun s b => s + b.mass) a = a + (bs.map (·.mass)).sum := by
  induction bs generalizing a with
  | nil => simp
  | cons b bs ih => simp only [List.foldl_cons, List.map_cons, List.sum_cons, ih]; ring

/-- `mj_setTotalmass` multiplies every mass and every moment by one positive factor -/
theorem setTotalmass_eq (newmass : ℝ) (bs : List (BodyMI ℝ)) :
    setTotalmass newmass bs =
      bs.map (fun b => ⟨b.mass * totalmassScale newmass (bs.map (·.mass)).sum, b.ipos, b.iquat,
        ⟨b.inertia.x * totalmassScale newmass (bs.map (·.mass)).sum,
         b.inertia.y * totalmassScale newmass (bs.map (·.mass)).sum,
         b.inertia.z * totalmassScale newmass (bs.map (·.mass)).sum⟩⟩) := by
  unfold setTotalmass totalmassScale
  simp only [foldl_mass, L0_eq, zero_add]

/-- … hence it keeps the triangle inequality (and the signs) of every body -/
theorem setTotalmass_triangle (stm : ℝ) (bs : List (BodyMI ℝ))
    (hb : ∀ b ∈ bs, triangle b.inertia ∧ 0 ≤ b.mass ∧ 0 ≤ b.inertia.x ∧ 0 ≤ b.inertia.y ∧ 0 ≤ b.inertia.z) :
    ∀ r ∈ applyTotalmass stm bs, triangle r.inertia ∧ 0 ≤ r.mass ∧ 0 ≤ r.inertia.x ∧ 0 ≤ r.inertia.y ∧ 0 ≤ r.inertia.z := by
  intro r hr
  unfold applyTotalmass at hr
  split_ifs at hr with hpos
  · rw [setTotalmass_eq] at hr
    obtain ⟨b, hbm, rfl⟩ := List.mem_map.mp hr
    obtain ⟨⟨t0, t1, t2⟩, m0, i0, i1, i2⟩ := hb b hbm
    have hs := totalmassScale_pos stm (bs.map (·.mass)).sum
    generalize totalmassScale stm (bs.map (·.mass)).sum = s at *
    simp only [triangle]
    refine ⟨⟨?_, ?_, ?_⟩, ?_, ?_, ?_, ?_⟩ <;> nlinarith
  · exact hb r hr

/-- … and, when the total mass and the requested ratio are above `mjMINVAL`, the new total mass is the requested one -/
theorem setTotalmass_total (newmass : ℝ) (bs : List (BodyMI ℝ))
    (ht : mjMINVAL < (bs.map (·.mass)).sum) (hr : mjMINVAL * (bs.map (·.mass)).sum < newmass) :
    ((setTotalmass newmass bs).map (·.mass)).sum = newmass := by
  rw [setTotalmass_eq]
  have hpos : 0 < (bs.map (·.mass)).sum := lt_trans mjMINVAL_pos ht
  have hsc : totalmassScale newmass (bs.map (·.mass)).sum = newmass / (bs.map (·.mass)).sum := by
    unfold totalmassScale
    rw [if_neg (not_le.mpr ht), if_neg]
    rw [not_le, lt_div_iff₀ hpos]
    exact hr
  rw [hsc]
  simp only [List.map_map, Function.comp_def]
  rw [List.sum_map_mul_right]
  field_simp

example : mjMINVAL < (([⟨2, ⟨0, 0, 0⟩, ⟨1, 0, 0, 0⟩, ⟨1, 1, 1⟩⟩] : List (BodyMI ℝ)).map (·.mass)).sum ∧
    mjMINVAL * (([⟨2, ⟨0, 0, 0⟩, ⟨1, 0, 0, 0⟩, ⟨1, 1, 1⟩⟩] : List (BodyMI ℝ)).map (·.mass)).sum < (5 : ℝ) := by
  simp only [List.map_cons, List.map_nil, List.sum_cons, List.sum_nil]; rw [mjMINVAL_eq]; norm_num

/-! ### compile state surviving between compiles of one spec (edit + recompile) -/

/-- the one input class for which `mjCGeom::Compile` with `inferinertia` writes neither `mass_` nor `inertia`:
    a defined non-zero `mass` on a geom whose volume (area) is `≤ mjEPS` -/
def staleGeom (pi : ℝ) (d : GeomDesc ℝ) : Prop :=
  ∃ m vol, d.mass = some m ∧ m ≠ 0 ∧ geomVolume pi d.t d.shell d.size = some vol ∧ vol ≤ mjEPS

/-- a first compile (constructor state) is the stateless mass branch `geomMassInertia` -/
theorem geomCompileState_fresh (pi : ℝ) (d : GeomDesc ℝ) :
    geomCompileState pi geomState0 true d =
      (geomMassInertia pi d.t d.shell d.mass d.density d.size).map (fun r => ⟨r.1, r.2⟩) := by
  unfold geomCompileState geomMassInertia geomState0
  simp only [Bool.not_true, Bool.false_eq_true, if_false]
  cases geomVolume pi d.t d.shell d.size with
  | none => rfl
  | some vol =>
    cases d.mass with
    | none => simp only []; split_ifs <;> rfl
    | some m => simp only []; split_ifs <;> rfl

/-- **recompiled = fresh, per geom**: outside `staleGeom`, what `InertiaFromGeom` selects from a geom whose inertia
    is inferred does not depend on the state left by earlier compiles (in particular `density = 0` and `mass = 0`
    reset `mass_`, so an edited-to-massless geom drops out) -/
theorem geomCompileState_indep (pi : ℝ) (o : MassOpts ℝ) (st st' : GeomState ℝ) (d : GeomDesc ℝ) (h : ¬ staleGeom pi d) :
    (geomCompileState pi st true d).map (geomSelect o d) = (geomCompileState pi st' true d).map (geomSelect o d) := by
  unfold geomCompileState
  simp only [Bool.not_true, Bool.false_eq_true, if_false]
  have hz : ¬ ((mjEPS : ℝ) < L 0) := by rw [L0_eq]; exact not_lt.mpr (le_of_lt mjEPS_pos)
  cases hv : geomVolume pi d.t d.shell d.size with
  | none => rfl
  | some vol =>
    cases hm : d.mass with
    | none =>
      simp only []
      split_ifs
      · simp only [Option.map_some, geomSelect, hz, and_false, if_false]
      · rfl
    | some m =>
      simp only []
      split_ifs with h0 hvol
      · simp only [Option.map_some, geomSelect, hz, and_false, if_false]
      · rfl
      · exfalso
        apply h
        refine ⟨m, vol, hm, ?_, hv, not_lt.mp hvol⟩
        intro hm0
        apply h0
        simp only [real_beq, L0_eq, hm0, decide_true]

/-- out-of-range geoms are neither compiled for inertia nor selected -/
theorem geomStep_indep (pi : ℝ) (o : MassOpts ℝ) (st st' : GeomState ℝ) (d : GeomDesc ℝ)
    (h : o.glo ≤ d.group ∧ d.group ≤ o.ghi → ¬ staleGeom pi d) :
    (geomCompileState pi st (true && decide (o.glo ≤ d.group ∧ d.group ≤ o.ghi)) d).map (geomSelect o d) =
    (geomCompileState pi st' (true && decide (o.glo ≤ d.group ∧ d.group ≤ o.ghi)) d).map (geomSelect o d) := by
  by_cases hr : o.glo ≤ d.group ∧ d.group ≤ o.ghi
  · simp only [hr, and_self, decide_true, Bool.and_true]
    exact geomCompileState_indep pi o st st' d (h hr)
  · have hsel : ∀ s : GeomState ℝ, geomSelect o d s = none := by
      intro s
      unfold geomSelect
      rw [if_neg]
      intro hc
      exact hr ⟨hc.1, hc.2.1⟩
    simp only [hr, decide_false, Bool.and_false, geomCompileState, Bool.not_false, if_true, Option.map_some, hsel]

theorem compileGeoms_cons_sel (pi : ℝ) (o : MassOpts ℝ) (inferB : Bool) (d : GeomDesc ℝ) (st : GeomState ℝ)
    (rest : List (GeomDesc ℝ × GeomState ℝ)) :
    (compileGeoms pi o inferB ((d, st) :: rest)).map (·.2) =
      match (geomCompileState pi st (inferB && decide (o.glo ≤ d.group ∧ d.group ≤ o.ghi)) d).map (geomSelect o d),
            (compileGeoms pi o inferB rest).map (·.2) with
      | some g?, some sel => some (match g? with | some g => g :: sel | none => sel)
      | _, _ => none := by
  simp only [compileGeoms]
  cases geomCompileState pi st (inferB && decide (o.glo ≤ d.group ∧ d.group ≤ o.ghi)) d with
  | none => rfl
  | some a =>
    cases compileGeoms pi o inferB rest with
    | none => rfl
    | some r =>
      obtain ⟨r1, r2⟩ := r
      simp only [Option.map_some]
      cases geomSelect o d a <;> rfl

/-- **the selection of `InertiaFromGeom` after an edit + recompile equals that of a fresh spec**: for any two
    assignments of prior compile states to the geoms, when inertia is inferred and no in-range geom is `staleGeom` -/
theorem compileGeoms_sel_indep (pi : ℝ) (o : MassOpts ℝ) (l : List (GeomDesc ℝ × GeomState ℝ × GeomState ℝ))
    (h : ∀ x ∈ l, o.glo ≤ x.1.group ∧ x.1.group ≤ o.ghi → ¬ staleGeom pi x.1) :
    (compileGeoms pi o true (l.map fun x => (x.1, x.2.1))).map (·.2) =
    (compileGeoms pi o true (l.map fun x => (x.1, x.2.2))).map (·.2) := by
  induction l with
  | nil => rfl
  | cons x xs ih =>
    simp only [List.map_cons]
    rw [compileGeoms_cons_sel, compileGeoms_cons_sel,
      geomStep_indep pi o x.2.1 x.2.2 x.1 (h x (List.mem_cons_self)),
      ih (fun y hy => h y (List.mem_cons_of_mem _ hy))]

/-- **recompiled = fresh, per body**: the mass properties that `mjCBody::Compile` delivers for an edited spec do not
    depend on the compile state left in its geoms by earlier compiles (`st₁` vs `st₂`, e.g. `st₂ = geomState0` for a
    fresh spec), provided the body infers inertia from its geoms (`!explicitinertial || inertiafromgeom = true`) and
    no geom in the group range is `staleGeom` -/
theorem bodyCompileState_indep (pi : ℝ) (o : MassOpts ℝ) (bpos : V3 ℝ) (bquat : Q ℝ) (sp : BodyInertial ℝ)
    (l : List (GeomDesc ℝ × GeomState ℝ × GeomState ℝ))
    (hinf : sp.explicitinertial = false ∨ o.fromgeom = .yes)
    (h : ∀ x ∈ l, o.glo ≤ x.1.group ∧ x.1.group ≤ o.ghi → ¬ staleGeom pi x.1) :
    (bodyCompileState pi o bpos bquat sp (l.map fun x => (x.1, x.2.1))).map (·.1) =
    (bodyCompileState pi o bpos bquat sp (l.map fun x => (x.1, x.2.2))).map (·.1) := by
  have hB : (!sp.explicitinertial || decide (o.fromgeom = .yes)) = true := by
    rcases hinf with h1 | h1 <;> simp [h1]
  have hs := compileGeoms_sel_indep pi o l h
  unfold bodyCompileState
  simp only [hB]
  split
  · rfl
  · revert hs
    cases compileGeoms pi o true (l.map fun x => (x.1, x.2.1)) with
    | none =>
      cases compileGeoms pi o true (l.map fun x => (x.1, x.2.2)) with
      | none => intro _; rfl
      | some b => intro hs; simp at hs
    | some a =>
      cases compileGeoms pi o true (l.map fun x => (x.1, x.2.2)) with
      | none => intro hs; simp at hs
      | some b =>
        intro hs
        simp only [Option.map_some, Option.some.injEq] at hs
        obtain ⟨a1, a2⟩ := a
        obtain ⟨b1, b2⟩ := b
        simp only at hs
        subst hs
        rfl

-- the hypotheses are satisfiable: a box of density 0 after having been compiled with mass 5 is not `staleGeom`
example : ¬ staleGeom Real.pi (⟨0, .box, false, none, 0, ⟨1, 1, 1⟩, ⟨0, 0, 0⟩, ⟨1, 0, 0, 0⟩⟩ : GeomDesc ℝ) := by
  rintro ⟨m, vol, hm, -⟩
  simp at hm

theorem compileGeoms_noinfer_some (pi : ℝ) (o : MassOpts ℝ) (l : List (GeomDesc ℝ × GeomState ℝ)) :
    ∃ r, compileGeoms pi o false l = some r := by
  induction l with
  | nil => exact ⟨_, rfl⟩
  | cons x xs ih =>
    obtain ⟨r, hr⟩ := ih
    obtain ⟨d, st⟩ := x
    obtain ⟨r1, r2⟩ := r
    simp only [compileGeoms, Bool.false_and, geomCompileState, Bool.not_false, if_true, hr]
    exact ⟨_, rfl⟩

/-- an explicit inertial clause that is not overridden by the geoms (`explicitinertial`, `inertiafromgeom ≠ true`,
    and `InertiaFromGeom` not called: `ipos` defined or `inertiafromgeom = false`) compiles to the same mass
    properties whatever state the geoms carry -/
theorem bodyCompileState_explicit_indep (pi : ℝ) (o : MassOpts ℝ) (bpos : V3 ℝ) (bquat : Q ℝ) (sp : BodyInertial ℝ)
    (g1 g2 : List (GeomDesc ℝ × GeomState ℝ))
    (hexp : sp.explicitinertial = true) (hfg : o.fromgeom ≠ .yes) (hcall : sp.ipos.isSome = true ∨ o.fromgeom = .no) :
    (bodyCompileState pi o bpos bquat sp g1).map (·.1) = (bodyCompileState pi o bpos bquat sp g2).map (·.1) := by
  have hB : (!sp.explicitinertial || decide (o.fromgeom = .yes)) = false := by simp [hexp, hfg]
  have hc : (decide (o.fromgeom = .yes) || (sp.ipos.isNone && decide (o.fromgeom = .auto))) = false := by
    rcases hcall with h1 | h1
    · cases hi : sp.ipos with
      | none => simp [hi] at h1
      | some p => simp [hfg]
    · simp [h1]
  obtain ⟨⟨a1, a2⟩, ha⟩ := compileGeoms_noinfer_some pi o g1
  obtain ⟨⟨b1, b2⟩, hb⟩ := compileGeoms_noinfer_some pi o g2
  unfold bodyCompileState
  simp only [hB, hc, ha, hb, Bool.false_eq_true, if_false]
  split <;> rfl

end MjProof.C35
