import MjProof.Lemmas.SolverCert
import MjProof.Lemmas.PrimalSearch
import MjProof.Lemmas.IslandSep
import MjProof.Lemmas.MakeImpedance
import Mathlib.Algebra.Order.Star.Real
/-
C10  Constraint solvers return the optimum of the documented problem.

The documented problem (Computation chapter; `mj_solPrimal`, `PrimalUpdateConstraint`):
    minimise   cost(a) = ½ (a − a₀)ᵀ M (a − a₀) + s(J a − aref)
with `a₀ = qacc_smooth`, `M` the inertia, `s` the convex constraint cost whose negative gradient is the
constraint force (`efc_force = −∇s(J a − aref)`, C12).  The solvers are iterative; instead of modelling
their iterations, this file proves CERTIFICATE theorems (DESIGN.md §2): facts that hold for EVERY point `a`
and that a checker evaluates on the solver's real output (lean/Drivers/C10.lean on the outputs of
Newton, CG and PGS: checks/c10.py).

  suboptimality_certificate   cost(a) − cost(x) ≤ ½ gᵀM⁻¹g for every x (g = ∇cost(a)); this is the bound
                              `mj_solPrimal` itself uses as its zero-iteration exit test
  suboptimality_vs_infimum    the same against the infimum of the cost
  distance_certificate        ‖a − a*‖²_M ≤ gᵀM⁻¹g for the minimiser a*
  minimiser_unique            two stationary points coincide when M ≻ 0
  island_decomposition        for block-separable (M, J, s) the minimisers are exactly the tuples of block
                              minimisers; `block_cost_separates` shows that block-diagonal M, J give such a cost;
                              `unconstrained_block_minimiser`: a block without constraint rows is minimised by a₀
  island_solve_is_global_minimiser   for ANY labelling of dofs and rows (the engine's `dof_island`, `efc_island`) under which
                              `M`, `J` are block diagonal, every row lies in an island and coupled rows (cone blocks) share
                              their label: a point that is optimal island by island and equals a₀ outside the islands
                              is the global minimiser (what `mj_fwdConstraint` relies on when it solves per island);
                              `island_partition_checker_sound`: the executable check of Model/IslandSep.lean, which the
                              driver runs on the real output of `mj_island`, decides exactly these hypotheses
  cone_block_gradIneq_documented_impedance   the hypothesis `GradIneq` of the certificates holds for an elliptic cone block whose
                              regularisers follow the documented impedance law of `mj_makeImpedance` (R[i+1] = R[i]/impratio,
                              R[i+j+1] = R[i+1]·friction[0]²/friction[j]², mu = friction[0]·sqrt(R[i+1]/R[i]), D = 1/R), for any
                              impratio and any positive, possibly anisotropic friction; the driver compares the engine's real
                              efc_R / efc_D / contact.mu with that law on every solve (Model/ConeImp.lean)
  primalSearch_checked / primalEval_is_cost_difference / primalSearch_checked_decreases_cost /
  primal_monotone_partial / warmstart_picks_cheaper   (models: Model/SolverCert.lean, lemmas: Lemmas/PrimalSearch.lean)
-/
namespace MjProof.C10
open Matrix MjProof.SolverCert

variable {n m : ℕ}

/-- witness form: any `w` with `M w = g` gives the bound `½ g·w`, with `M` only positive SEMI-definite -/
theorem suboptimality_certificate_witness (M : Matrix (Fin n) (Fin n) ℝ) (J : Matrix (Fin m) (Fin n) ℝ)
    (a0 : Fin n → ℝ) (aref : Fin m → ℝ) (s : (Fin m → ℝ) → ℝ) (f : (Fin m → ℝ) → (Fin m → ℝ))
    (hM : SymPSD M) (hs : GradIneq s f) (a w : Fin n → ℝ) (hw : M *ᵥ w = grad M J a0 aref f a) (x : Fin n → ℝ) :
    cost M J a0 aref s a - cost M J a0 aref s x ≤ 1 / 2 * (grad M J a0 aref f a ⬝ᵥ w) :=
  subopt_witness M J a0 aref s f hM hs a w hw x

/-- **Sub-optimality certificate.**  For `M ≻ 0` and a convex differentiable `s` (gradient `−f`), at EVERY
    point `a` and against EVERY competitor `x`:  `cost(a) − cost(x) ≤ ½ gᵀ M⁻¹ g`,  `g = ∇cost(a)`. -/
theorem suboptimality_certificate (M : Matrix (Fin n) (Fin n) ℝ) (J : Matrix (Fin m) (Fin n) ℝ)
    (a0 : Fin n → ℝ) (aref : Fin m → ℝ) (s : (Fin m → ℝ) → ℝ) (f : (Fin m → ℝ) → (Fin m → ℝ))
    (hM : M.PosDef) (hc : ConvexOn ℝ Set.univ s)
    (hd : ∀ z, ∃ L : (Fin m → ℝ) →L[ℝ] ℝ, HasFDerivAt s L z ∧ ∀ v, L v = (-(f z)) ⬝ᵥ v)
    (a x : Fin n → ℝ) :
    cost M J a0 aref s a - cost M J a0 aref s x ≤
      1 / 2 * (grad M J a0 aref f a ⬝ᵥ (M⁻¹ *ᵥ grad M J a0 aref f a)) := by
  have hu : IsUnit M.det := (Matrix.isUnit_iff_isUnit_det M).mp hM.isUnit
  have hw : M *ᵥ (M⁻¹ *ᵥ grad M J a0 aref f a) = grad M J a0 aref f a := by
    rw [Matrix.mulVec_mulVec, Matrix.mul_nonsing_inv M hu, Matrix.one_mulVec]
  exact subopt_witness M J a0 aref s f (SymPSD.of_posDef hM) (gradIneq_of_convex s f hc hd) a _ hw x

/-- the same bound against the infimum of the cost (which is therefore finite) -/
theorem suboptimality_vs_infimum (M : Matrix (Fin n) (Fin n) ℝ) (J : Matrix (Fin m) (Fin n) ℝ)
    (a0 : Fin n → ℝ) (aref : Fin m → ℝ) (s : (Fin m → ℝ) → ℝ) (f : (Fin m → ℝ) → (Fin m → ℝ))
    (hM : M.PosDef) (hc : ConvexOn ℝ Set.univ s)
    (hd : ∀ z, ∃ L : (Fin m → ℝ) →L[ℝ] ℝ, HasFDerivAt s L z ∧ ∀ v, L v = (-(f z)) ⬝ᵥ v)
    (a : Fin n → ℝ) :
    cost M J a0 aref s a - ⨅ x, cost M J a0 aref s x ≤
      1 / 2 * (grad M J a0 aref f a ⬝ᵥ (M⁻¹ *ᵥ grad M J a0 aref f a)) := by
  have h := fun x => suboptimality_certificate M J a0 aref s f hM hc hd a x
  have hle : cost M J a0 aref s a - 1 / 2 * (grad M J a0 aref f a ⬝ᵥ (M⁻¹ *ᵥ grad M J a0 aref f a)) ≤
      ⨅ x, cost M J a0 aref s x := le_ciInf (fun x => by linarith [h x])
  linarith

/-- **Distance certificate.**  If `a*` is a stationary point (equivalently, by `stationary_is_minimiser`, the
    minimiser) then `‖a − a*‖²_M ≤ gᵀ M⁻¹ g`. -/
theorem distance_certificate (M : Matrix (Fin n) (Fin n) ℝ) (J : Matrix (Fin m) (Fin n) ℝ)
    (a0 : Fin n → ℝ) (aref : Fin m → ℝ) (s : (Fin m → ℝ) → ℝ) (f : (Fin m → ℝ) → (Fin m → ℝ))
    (hM : M.PosDef) (hc : ConvexOn ℝ Set.univ s)
    (hd : ∀ z, ∃ L : (Fin m → ℝ) →L[ℝ] ℝ, HasFDerivAt s L z ∧ ∀ v, L v = (-(f z)) ⬝ᵥ v)
    (a astar : Fin n → ℝ) (hst : grad M J a0 aref f astar = 0) :
    (a - astar) ⬝ᵥ (M *ᵥ (a - astar)) ≤ grad M J a0 aref f a ⬝ᵥ (M⁻¹ *ᵥ grad M J a0 aref f a) := by
  have hu : IsUnit M.det := (Matrix.isUnit_iff_isUnit_det M).mp hM.isUnit
  have hw : M *ᵥ (M⁻¹ *ᵥ grad M J a0 aref f a) = grad M J a0 aref f a := by
    rw [Matrix.mulVec_mulVec, Matrix.mul_nonsing_inv M hu, Matrix.one_mulVec]
  exact dist_witness M J a0 aref s f (SymPSD.of_posDef hM) (gradIneq_of_convex s f hc hd) a _ astar hw hst

/-- witness form of the distance certificate (what the executable checker evaluates: `w` from a Cholesky solve) -/
theorem distance_certificate_witness (M : Matrix (Fin n) (Fin n) ℝ) (J : Matrix (Fin m) (Fin n) ℝ)
    (a0 : Fin n → ℝ) (aref : Fin m → ℝ) (s : (Fin m → ℝ) → ℝ) (f : (Fin m → ℝ) → (Fin m → ℝ))
    (hM : SymPSD M) (hs : GradIneq s f) (a w astar : Fin n → ℝ) (hw : M *ᵥ w = grad M J a0 aref f a)
    (hst : grad M J a0 aref f astar = 0) :
    (a - astar) ⬝ᵥ (M *ᵥ (a - astar)) ≤ grad M J a0 aref f a ⬝ᵥ w :=
  dist_witness M J a0 aref s f hM hs a w astar hw hst

/-- a stationary point of the documented cost is a global minimiser -/
theorem stationary_is_minimiser (M : Matrix (Fin n) (Fin n) ℝ) (J : Matrix (Fin m) (Fin n) ℝ)
    (a0 : Fin n → ℝ) (aref : Fin m → ℝ) (s : (Fin m → ℝ) → ℝ) (f : (Fin m → ℝ) → (Fin m → ℝ))
    (hM : SymPSD M) (hs : GradIneq s f) (astar : Fin n → ℝ) (hst : grad M J a0 aref f astar = 0) (x : Fin n → ℝ) :
    cost M J a0 aref s astar ≤ cost M J a0 aref s x :=
  stationary_is_min M J a0 aref s f hM hs astar hst x

/-- for `M ≻ 0` the stationary point is unique: all converged solvers must agree on `qacc` -/
theorem minimiser_unique (M : Matrix (Fin n) (Fin n) ℝ) (J : Matrix (Fin m) (Fin n) ℝ)
    (a0 : Fin n → ℝ) (aref : Fin m → ℝ) (s : (Fin m → ℝ) → ℝ) (f : (Fin m → ℝ) → (Fin m → ℝ))
    (hM : M.PosDef) (hs : GradIneq s f) (a b : Fin n → ℝ)
    (ha : grad M J a0 aref f a = 0) (hb : grad M J a0 aref f b = 0) : a = b := by
  have hw : M *ᵥ (0 : Fin n → ℝ) = grad M J a0 aref f a := by rw [ha, Matrix.mulVec_zero]
  have h := dist_witness M J a0 aref s f (SymPSD.of_posDef hM) hs a 0 b hw hb
  rw [dotProduct_zero] at h
  by_contra hne
  have hd : a - b ≠ 0 := sub_ne_zero.mpr hne
  have hpos := hM.dotProduct_mulVec_pos hd
  have : 0 < (a - b) ⬝ᵥ (M *ᵥ (a - b)) := by simpa using hpos
  unfold bil at h
  linarith

/-- non-vacuity of the hypotheses: `M = 1` (2×2), one row, `s(r) = ½ r₀²`, `f(r) = −r` -/
example : ∃ (M : Matrix (Fin 2) (Fin 2) ℝ) (s : (Fin 1 → ℝ) → ℝ) (f : (Fin 1 → ℝ) → (Fin 1 → ℝ)),
    M.PosDef ∧ GradIneq s f := by
  refine ⟨1, fun r => 1 / 2 * (r 0) ^ 2, fun r => -r, Matrix.PosDef.one, ?_⟩
  intro x z
  simp only [neg_neg, dotProduct, Finset.univ_unique, Fin.default_eq_zero, Finset.sum_singleton, Pi.sub_apply]
  nlinarith [sq_nonneg (x 0 - z 0)]

/-! ### the hypothesis on `s` holds for every problem made of scalar rows (C11/C12 model) -/

open MjProof.Constraint in
/-- the three scalar row laws of `mj_constraintUpdate_impl` -/
inductive RowKind | equality | friction | inequality
  deriving DecidableEq

open MjProof.Constraint in
/-- a scalar constraint row: its law and the parameters `D`, `R`, `frictionloss` -/
structure SRow where
  kind : RowKind
  D : ℝ
  R : ℝ
  floss : ℝ

open MjProof.Constraint in
/-- cost of the row at the residual `x`, as the model of `mj_constraintUpdate_impl` computes it -/
noncomputable def SRow.cost (r : SRow) (x : ℝ) : ℝ :=
  match r.kind with
  | .equality => (eqRow r.D x).cost
  | .friction => (fricRow r.D r.R r.floss x).cost
  | .inequality => (nonnegRow r.D x).cost

open MjProof.Constraint in
/-- force of the row at the residual `x` (same model) -/
noncomputable def SRow.force (r : SRow) (x : ℝ) : ℝ :=
  match r.kind with
  | .equality => (eqRow r.D x).force
  | .friction => (fricRow r.D r.R r.floss x).force
  | .inequality => (nonnegRow r.D x).force

/-- what `mj_makeImpedance` guarantees: `D ≥ 0`, and for friction-loss rows `D·R = 1`, `frictionloss ≥ 0` -/
def SRow.Valid (r : SRow) : Prop := 0 ≤ r.D ∧ (r.kind = .friction → r.D * r.R = 1 ∧ 0 ≤ r.floss)

open MjProof.Constraint in
theorem srow_supporting_line (r : SRow) (h : r.Valid) (x z : ℝ) :
    r.cost z + (-(r.force z)) * (x - z) ≤ r.cost x := by
  obtain ⟨hD, hf⟩ := h
  unfold SRow.cost SRow.force
  cases hk : r.kind with
  | equality =>
    simp only [eqRow_cost, eqRow_force]
    nlinarith [mul_nonneg hD (sq_nonneg (x - z))]
  | friction =>
    obtain ⟨hDR, hfl⟩ := hf hk
    have hb : 0 ≤ r.R * r.floss := mul_nonneg (R_pos_of hD hDR).le hfl
    simp only [fricRow_cost_eq hDR, fricRow_force_eq hDR, neg_neg]
    have := huber1_lower (r.R * r.floss) x z hb
    nlinarith [mul_le_mul_of_nonneg_left this hD]
  | inequality =>
    simp only [nonnegRow_cost_eq, nonnegRow_force_eq, neg_neg]
    have := q1_lower x z
    nlinarith [mul_le_mul_of_nonneg_left this hD]

/-- constraint cost and force law of a problem whose rows are all scalar -/
noncomputable def sOf (rows : Fin m → SRow) (v : Fin m → ℝ) : ℝ := ∑ i, (rows i).cost (v i)
noncomputable def fOf (rows : Fin m → SRow) (v : Fin m → ℝ) : Fin m → ℝ := fun i => (rows i).force (v i)

/-- **The convexity hypothesis of the certificate theorems is a theorem for scalar rows**: for every problem made of
    equality, friction-loss, limit, frictionless and pyramidal-contact rows with the parameters `mj_makeImpedance`
    produces, the modelled constraint cost and force law satisfy the supporting-hyperplane inequality. -/
theorem gradIneq_scalar_rows (rows : Fin m → SRow) (h : ∀ i, (rows i).Valid) : GradIneq (sOf rows) (fOf rows) := by
  intro x z
  unfold sOf fOf
  have : ∑ i, ((rows i).cost (z i) + (-((rows i).force (z i))) * (x i - z i)) ≤ ∑ i, (rows i).cost (x i) :=
    Finset.sum_le_sum (fun i _ => srow_supporting_line (rows i) (h i) (x i) (z i))
  rw [Finset.sum_add_distrib] at this
  simpa [dotProduct] using this

/-- the certificate for scalar-row problems, with no hypothesis left on the constraint cost: for `M ≻ 0`
    (semidefinite suffices) and any witness `M w = g` -/
theorem suboptimality_certificate_scalar_rows (M : Matrix (Fin n) (Fin n) ℝ) (J : Matrix (Fin m) (Fin n) ℝ)
    (a0 : Fin n → ℝ) (aref : Fin m → ℝ) (rows : Fin m → SRow) (hrows : ∀ i, (rows i).Valid)
    (hM : SymPSD M) (a w : Fin n → ℝ) (hw : M *ᵥ w = grad M J a0 aref (fOf rows) a) (x : Fin n → ℝ) :
    cost M J a0 aref (sOf rows) a - cost M J a0 aref (sOf rows) x ≤
      1 / 2 * (grad M J a0 aref (fOf rows) a ⬝ᵥ w) :=
  subopt_witness M J a0 aref (sOf rows) (fOf rows) hM (gradIneq_scalar_rows rows hrows) a w hw x

example : (⟨.friction, 4, 1 / 4, 1 / 2⟩ : SRow).Valid := by
  refine ⟨by norm_num, fun _ => ⟨by norm_num, by norm_num⟩⟩

/-! ### islands -/

/-- **Island decomposition.**  If the cost is a sum of block costs over independent blocks of variables
    (constraint islands, plus the dofs that no constraint touches), then a tuple of block minimisers
    minimises the total cost, and conversely every minimiser of the total restricts to block minimisers:
    solving per island and monolithically give the same minimisers. -/
theorem island_decomposition {K : Type} [Fintype K] [DecidableEq K] {V : K → Type} (c : (k : K) → V k → ℝ)
    (astar : (k : K) → V k) :
    (∀ k (y : V k), c k (astar k) ≤ c k y) ↔ (∀ x : (k : K) → V k, ∑ k, c k (astar k) ≤ ∑ k, c k (x k)) :=
  ⟨fun h x => separable_min c astar h x, fun h k y => separable_min_conv c astar h k y⟩

/-- Block-diagonal `M` and `J` (two blocks; iterate for more) and a block-separable `s` make the documented
    cost block separable. -/
theorem block_cost_separates {n₁ n₂ m₁ m₂ : ℕ}
    (M₁ : Matrix (Fin n₁) (Fin n₁) ℝ) (M₂ : Matrix (Fin n₂) (Fin n₂) ℝ)
    (J₁ : Matrix (Fin m₁) (Fin n₁) ℝ) (J₂ : Matrix (Fin m₂) (Fin n₂) ℝ)
    (a0₁ a₁ : Fin n₁ → ℝ) (a0₂ a₂ : Fin n₂ → ℝ) (aref₁ : Fin m₁ → ℝ) (aref₂ : Fin m₂ → ℝ)
    (s₁ : (Fin m₁ → ℝ) → ℝ) (s₂ : (Fin m₂ → ℝ) → ℝ) :
    1 / 2 * ((Sum.elim a₁ a₂ - Sum.elim a0₁ a0₂) ⬝ᵥ
        (Matrix.fromBlocks M₁ 0 0 M₂ *ᵥ (Sum.elim a₁ a₂ - Sum.elim a0₁ a0₂))) +
      (s₁ ((fun i => (Matrix.fromBlocks J₁ 0 0 J₂ *ᵥ Sum.elim a₁ a₂ - Sum.elim aref₁ aref₂) (Sum.inl i))) +
       s₂ ((fun i => (Matrix.fromBlocks J₁ 0 0 J₂ *ᵥ Sum.elim a₁ a₂ - Sum.elim aref₁ aref₂) (Sum.inr i)))) =
    (1 / 2 * ((a₁ - a0₁) ⬝ᵥ (M₁ *ᵥ (a₁ - a0₁))) + s₁ (J₁ *ᵥ a₁ - aref₁)) +
    (1 / 2 * ((a₂ - a0₂) ⬝ᵥ (M₂ *ᵥ (a₂ - a0₂))) + s₂ (J₂ *ᵥ a₂ - aref₂)) := by
  have hsub : Sum.elim a₁ a₂ - Sum.elim a0₁ a0₂ = Sum.elim (a₁ - a0₁) (a₂ - a0₂) := by
    funext i; cases i <;> simp
  rw [hsub, Matrix.fromBlocks_mulVec, Matrix.fromBlocks_mulVec]
  simp only [Matrix.zero_mulVec, add_zero, zero_add, Sum.elim_comp_inl, Sum.elim_comp_inr]
  have hq : Sum.elim (a₁ - a0₁) (a₂ - a0₂) ⬝ᵥ Sum.elim (M₁ *ᵥ (a₁ - a0₁)) (M₂ *ᵥ (a₂ - a0₂)) =
      (a₁ - a0₁) ⬝ᵥ (M₁ *ᵥ (a₁ - a0₁)) + (a₂ - a0₂) ⬝ᵥ (M₂ *ᵥ (a₂ - a0₂)) := by
    simp [dotProduct, Fintype.sum_sum_type]
  rw [hq]
  have h1 : (fun i => (Sum.elim (J₁ *ᵥ a₁) (J₂ *ᵥ a₂) - Sum.elim aref₁ aref₂) (Sum.inl i)) = J₁ *ᵥ a₁ - aref₁ := by
    funext i; simp
  have h2 : (fun i => (Sum.elim (J₁ *ᵥ a₁) (J₂ *ᵥ a₂) - Sum.elim aref₁ aref₂) (Sum.inr i)) = J₂ *ᵥ a₂ - aref₂ := by
    funext i; simp
  rw [h1, h2]
  ring

/-- dofs that no constraint row touches (a block with no rows): the block cost is the Gauss term alone and is
    minimised by `a₀ = qacc_smooth` — what `warmstart` / `mj_fwdConstraint` assign to the dofs outside every island -/
theorem unconstrained_block_minimiser (M : Matrix (Fin n) (Fin n) ℝ) (hM : SymPSD M) (a0 x : Fin n → ℝ) :
    1 / 2 * ((a0 - a0) ⬝ᵥ (M *ᵥ (a0 - a0))) ≤ 1 / 2 * ((x - a0) ⬝ᵥ (M *ᵥ (x - a0))) := by
  have := hM.nonneg (x - a0)
  simp only [sub_self, Matrix.mulVec_zero, dotProduct_zero, mul_zero]
  linarith

/-- **Solving per island returns the monolithic optimum.**  `labD`, `labR` label the dofs and the constraint rows
    (the engine: `dof_island`, `efc_island`; `free` = −1, the dofs outside every island).  The constraint cost is a
    sum over coupling groups `grp` (a scalar row is its own group, the rows of an elliptic cone form one group).
    Hypotheses on the partition — exactly what `IslandSep.partitionOk` decides (`island_partition_checker_sound`):
    `M` couples only equally labelled dofs and the Jacobian of a row is supported on the dofs with the row's label
    (`Separable`), the rows of one group share their label, no row is labelled `free`.  Then a point `a` that
    (i) cannot be improved by changing only the dofs of one island `k` — i.e. solves the sub-problem of every island —
    and (ii) equals `a₀ = qacc_smooth` on the `free` dofs, minimises the documented cost over ALL accelerations. -/
theorem island_solve_is_global_minimiser {K G : Type} [Fintype K] [DecidableEq K] [Fintype G] [DecidableEq G]
    (M : Matrix (Fin n) (Fin n) ℝ) (J : Matrix (Fin m) (Fin n) ℝ) (a0 : Fin n → ℝ) (aref : Fin m → ℝ)
    (grp : Fin m → G) (sg : G → (Fin m → ℝ) → ℝ) (labD : Fin n → K) (labR : Fin m → K) (free : K)
    (hM : SymPSD M) (hsep : Separable M J labD labR) (hgrp : ∀ r r', grp r = grp r' → labR r = labR r')
    (hfree : ∀ r, labR r ≠ free) (a : Fin n → ℝ)
    (hblk : ∀ k, k ≠ free → ∀ x : Fin n → ℝ, (∀ j, labD j ≠ k → x j = a j) →
      cost M J a0 aref (sGrp grp sg) a ≤ cost M J a0 aref (sGrp grp sg) x)
    (hfa : ∀ j, labD j = free → a j = a0 j) (x : Fin n → ℝ) :
    cost M J a0 aref (sGrp grp sg) a ≤ cost M J a0 aref (sGrp grp sg) x := by
  classical
  let labG : G → K := fun g => if h : ∃ r, grp r = g then labR (Classical.choose h) else free
  have hlab : ∀ r, labG (grp r) = labR r := by
    intro r
    have h : ∃ r', grp r' = grp r := ⟨r, rfl⟩
    simp only [labG, dif_pos h]
    exact hgrp _ _ (Classical.choose_spec h)
  have hsep' : Separable M J labD (fun r => labG (grp r)) := by
    have : (fun r => labG (grp r)) = labR := funext hlab
    rw [this]; exact hsep
  have hfree' : ∀ r, labG (grp r) ≠ free := fun r => by rw [hlab]; exact hfree r
  have hsum := fun y => cost_eq_sum_blocks M J a0 aref grp sg labD labG hsep' y
  rw [hsum a, hsum x]
  refine Finset.sum_le_sum fun k _ => ?_
  by_cases hk : k = free
  · subst hk
    have h1 := blockCost_free M J a0 aref grp sg labD labG k hfree' a x
    have h2 := gaussBlock_zero M a0 labD k a hfa
    have h3 := gaussBlock_nonneg M hM a0 labD k x
    rw [h2] at h1
    linarith
  · let y : Fin n → ℝ := fun j => if labD j = k then x j else a j
    have h1 := hblk k hk y (fun j hj => by simp [y, hj])
    rw [hsum a, hsum y] at h1
    have h3 : blockCost M J a0 aref grp sg labD labG k y = blockCost M J a0 aref grp sg labD labG k x :=
      blockCost_local M J a0 aref grp sg labD labG k y x (fun j hj => by simp [y, hj])
    have e : ∑ l ∈ Finset.univ.erase k, blockCost M J a0 aref grp sg labD labG l y =
        ∑ l ∈ Finset.univ.erase k, blockCost M J a0 aref grp sg labD labG l a := by
      refine Finset.sum_congr rfl fun l hl => ?_
      have hlk : l ≠ k := Finset.ne_of_mem_erase hl
      refine blockCost_local M J a0 aref grp sg labD labG l y a (fun j hj => ?_)
      have : labD j ≠ k := fun h => hlk (hj ▸ h)
      simp [y, this]
    have sa : blockCost M J a0 aref grp sg labD labG k a +
        ∑ l ∈ Finset.univ.erase k, blockCost M J a0 aref grp sg labD labG l a =
        ∑ l, blockCost M J a0 aref grp sg labD labG l a :=
      Finset.add_sum_erase Finset.univ (fun l => blockCost M J a0 aref grp sg labD labG l a) (Finset.mem_univ k)
    have sy : blockCost M J a0 aref grp sg labD labG k y +
        ∑ l ∈ Finset.univ.erase k, blockCost M J a0 aref grp sg labD labG l y =
        ∑ l, blockCost M J a0 aref grp sg labD labG l y :=
      Finset.add_sum_erase Finset.univ (fun l => blockCost M J a0 aref grp sg labD labG l y) (Finset.mem_univ k)
    linarith

/-- the scalar-row constraint cost of `gradIneq_scalar_rows` is the grouped cost with one group per row -/
theorem sOf_eq_sGrp (rows : Fin m → SRow) :
    sOf rows = sGrp (fun r : Fin m => r) (fun g v => (rows g).cost (v g)) := by
  funext v
  simp [sOf, sGrp]

/-- the island theorem for problems made of scalar rows (equality, friction loss, limits, frictionless and pyramidal
    contacts): no grouping hypothesis is left -/
theorem island_solve_is_global_minimiser_scalar_rows {K : Type} [Fintype K] [DecidableEq K]
    (M : Matrix (Fin n) (Fin n) ℝ) (J : Matrix (Fin m) (Fin n) ℝ) (a0 : Fin n → ℝ) (aref : Fin m → ℝ)
    (rows : Fin m → SRow) (labD : Fin n → K) (labR : Fin m → K) (free : K)
    (hM : SymPSD M) (hsep : Separable M J labD labR) (hfree : ∀ r, labR r ≠ free) (a : Fin n → ℝ)
    (hblk : ∀ k, k ≠ free → ∀ x : Fin n → ℝ, (∀ j, labD j ≠ k → x j = a j) →
      cost M J a0 aref (sOf rows) a ≤ cost M J a0 aref (sOf rows) x)
    (hfa : ∀ j, labD j = free → a j = a0 j) (x : Fin n → ℝ) :
    cost M J a0 aref (sOf rows) a ≤ cost M J a0 aref (sOf rows) x := by
  rw [sOf_eq_sGrp] at hblk ⊢
  exact island_solve_is_global_minimiser M J a0 aref _ _ labD labR free hM hsep
    (fun r r' h => by rw [h]) hfree a hblk hfa x

open MjProof.IslandSep in
/-- **The executable partition check decides the hypotheses of the island theorem**: the driver evaluates
    `partitionOk` on the non-zero patterns of the engine's dense `M`, `J` and on `dof_island` / `efc_island`. -/
theorem island_partition_checker_sound {K G : Type} [DecidableEq K] [DecidableEq G]
    (M : Matrix (Fin n) (Fin n) ℝ) (J : Matrix (Fin m) (Fin n) ℝ) (labD : Fin n → K) (labR : Fin m → K) (free : K)
    (grp : Fin m → G) :
    partitionOk (fun i j => decide (M i j ≠ 0)) (fun r j => decide (J r j ≠ 0)) labD labR free grp = true ↔
      (Separable M J labD labR ∧ (∀ r, labR r ≠ free) ∧ ∀ r r', grp r = grp r' → labR r = labR r') := by
  unfold partitionOk Separable
  simp only [Bool.and_eq_true, List.isEmpty_iff, badM_nil_iff, badJ_nil_iff, freeRows_nil_iff, badGrp_nil_iff]
  tauto

open MjProof.IslandSep in
/-- non-vacuity: two dofs, dof 0 in island 0 with one row, dof 1 outside every island: accepted; the same row with a
    non-zero Jacobian entry at the outside dof (a constraint coupling a tree that the island omits): refused -/
example : partitionOk (n := 2) (m := 1) (fun i j => i == j) (fun _ j => j == 0)
    (fun j => if j = 0 then some (0 : Fin 1) else none) (fun _ => some 0) none (fun r => r) = true ∧
  partitionOk (n := 2) (m := 1) (fun i j => i == j) (fun _ _ => true)
    (fun j => if j = 0 then some (0 : Fin 1) else none) (fun _ => some 0) none (fun r => r) = false := by decide

/-! ### cone blocks: the certificate hypothesis follows from the documented impedance law -/

open MjProof.Constraint in
/-- **Elliptic cone blocks satisfy the certificate hypothesis under the documented impedance law.**  For a contact of
    dimension `fr.length + 2` with `R[i] = R0 > 0`, friction coefficients `f0 :: fr > 0` (possibly all different) and ANY
    `impratio`, let `R`, `mu` be what the model of `mj_makeImpedance` produces (`impEll`: `R[i+1] = R0/impratio`,
    `R[i+j+1] = R[i+1]·f0²/friction[j]²`, `mu = f0·sqrt(R[i+1]/R0)`) and `D = 1/R`.  Then the cone cost of
    `mj_constraintUpdate_impl` (model `ellBlock`: `blkCost`) with the returned forces satisfies the supporting-hyperplane
    inequality at every pair of residuals — the hypothesis `GradIneq` of the certificate theorems for this block.  The driver
    checks on the engine's real `efc_R`, `efc_D`, `contact.mu` that they ARE the output of that law (`ConeImp.deviation`);
    a regulariser that breaks `R[j]·friction[j]² = const` makes primal (Newton, CG) and dual (PGS) solvers solve different
    problems. -/
theorem cone_block_gradIneq_documented_impedance {R0 f0 : ℝ} (hR0 : 0 < R0) (hf0 : 0 < f0) (ir : ℝ) (fr : List ℝ)
    (hfr : ∀ f ∈ fr, 0 < f) (x0 : ℝ) (x : Fin (fr.length + 1) → ℝ) (z0 : ℝ) (z : Fin (fr.length + 1) → ℝ) :
    blkCost (1 / R0) (impMu R0 ir f0) (fun i => 1 / impRt R0 ir f0 fr i) (impW f0 fr) z0 z +
        (-(blkForceN (1 / R0) (impMu R0 ir f0) (impW f0 fr) z0 z)) * (x0 - z0) +
        ∑ i, (-(blkForceT (1 / R0) (impMu R0 ir f0) (fun i => 1 / impRt R0 ir f0 fr i) (impW f0 fr) z0 z i)) * (x i - z i) ≤
      blkCost (1 / R0) (impMu R0 ir f0) (fun i => 1 / impRt R0 ir f0 fr i) (impW f0 fr) x0 x :=
  blk_lower (impMu_pos hR0 hf0 ir) (by positivity) (fun i => impEll_rel hR0 hf0 ir fr hfr i) x0 x z0 z

open MjProof.Constraint in
/-- the cost and forces in the previous theorem are those of the executable model of the cone block -/
theorem cone_block_model (D0 mu : ℝ) {k : ℕ} (D w : Fin k → ℝ) (j0 : ℝ) (jar : Fin k → ℝ) :
    ((ellBlock D0 j0 mu (tsOf D w jar)).terms).sum = blkCost D0 mu D w j0 jar ∧
    (ellBlock D0 j0 mu (tsOf D w jar)).force = blkForceN D0 mu w j0 jar :: List.ofFn (blkForceT D0 mu D w j0 jar) :=
  ⟨ellBlock_terms_sum D0 mu D w j0 jar, ellBlock_force D0 mu D w j0 jar⟩

/-- non-vacuity: anisotropic friction `0.8, 0.3, 0.01` and `impratio = 3` -/
example : (0 : ℝ) < 2 ∧ (0 : ℝ) < 0.8 ∧ ∀ f ∈ ([0.3, 0.01] : List ℝ), 0 < f := by
  refine ⟨by norm_num, by norm_num, ?_⟩
  intro f hf; simp at hf; rcases hf with h | h <;> rw [h] <;> norm_num

/-! ### line search, acceptance and warm start (model: Model/SolverCert.lean, lemmas: Lemmas/PrimalSearch.lean) -/

open MjProof.PrimalSearch in
/-- Every exit of the modelled `PrimalSearch`, for EVERY evaluation function `e` (shifted cost, first and second
    derivative along the line), every tolerance and iteration budget: the returned step is `0`, or the returned
    point was evaluated with `cost(α) − cost(0) < 0` (`checked`: `LSresult` 0 on the initial / one-sided / midpoint
    paths and 4), or the exit is one of the three that the code does NOT cost-check (`LSresult` 3 "could not
    bracket", 7 "no improvement, could not bracket", or a bracket candidate with `|derivative| < gtol`); in every
    case the reported `improvement` is minus the evaluated cost difference at the returned step. -/
theorem primalSearch_checked (e : Ev ℝ) (gtol : ℝ) (lsIter : ℕ) (snormSmall : Bool) :
    let r := search e gtol lsIter snormSmall
    r.alpha = 0 ∨ (r.checked = true ∧ e.cost r.alpha < 0 ∧ r.improvement = -(e.cost r.alpha)) ∨
      (r.checked = false ∧ r.improvement = -(e.cost r.alpha)) :=
  search_exit_cases e gtol lsIter snormSmall

open MjProof.PrimalSearch in
/-- **`PrimalEval` evaluates the documented cost.**  For scalar rows (equality, friction loss, limits,
    frictionless and pyramidal contacts) the modelled `PrimalPrepare` + `PrimalEval` return at every `alpha` exactly
    the change of the documented cost along the search line: the Gauss part `alpha·g1 + alpha²·g2` plus, row by row,
    the change of the row cost of `mj_constraintUpdate_impl` (C11/C12 model) between the residuals `Jaref` and
    `Jaref + alpha·Jv`.  (Elliptic cone blocks are not covered: oracle only.) -/
theorem primalEval_is_cost_difference (ne nf : ℕ) (g1 g2 : ℝ) (rows : List (LRow ℝ)) (alpha : ℝ) :
    (evalRows ne nf g1 g2 rows alpha).1 = alpha * g1 + alpha * alpha * g2 +
      ((rows.zipIdx 0).map (fun p =>
        rowCost ne nf p.2 p.1 (p.1.jaref + alpha * p.1.jv) - rowCost ne nf p.2 p.1 p.1.jaref)).sum :=
  evalRows_cost_eq ne nf g1 g2 rows alpha

open MjProof.PrimalSearch in
/-- Consequently a cost-checked exit of the line search on scalar rows returns a step that strictly decreases the
    documented cost along the line. -/
theorem primalSearch_checked_decreases_cost (ne nf : ℕ) (g1 g2 : ℝ) (rows : List (LRow ℝ)) (gtol : ℝ) (lsIter : ℕ) :
    let r := search (evOf ne nf g1 g2 rows) gtol lsIter false
    r.alpha ≠ 0 → r.checked = true →
      r.alpha * g1 + r.alpha * r.alpha * g2 +
        ((rows.zipIdx 0).map (fun p =>
          rowCost ne nf p.2 p.1 (p.1.jaref + r.alpha * p.1.jv) - rowCost ne nf p.2 p.1 p.1.jaref)).sum < 0 := by
  intro r hne hchk
  have h := search_exit_cases (evOf ne nf g1 g2 rows) gtol lsIter false
  rcases h with h | h | h
  · exact absurd h hne
  · have hc := h.2.1
    simp only [evOf] at hc
    rw [← evalRows_cost_eq]
    exact hc
  · have : r.checked = false := h.1
    rw [hchk] at this
    exact absurd this (by simp)

open MjProof.PrimalSearch in
/-- **Partial.**  The modelled main loop of `mj_solPrimal` (`alpha == 0 → stop, else move`) with an exact line
    evaluation (`(ev_k α).cost = φ_k(α) − φ_k(0)` for the cost along the k-th search line): if every accepted
    step left the line search through a cost-checked exit, the final cost is ≤ the starting cost, strictly below
    it when at least one step was accepted.  Missing for the full claim: `PrimalSearch` as coded also returns
    through three exits without a cost check (see `primalSearch_checked`); for those monotonicity is not enforced by
    the code and is only sampled by the oracle (final cost ≤ initial cost on every solver run). -/
theorem primal_monotone_partial (steps : List (Result ℝ)) (c0 : ℝ)
    (hchk : ∀ r ∈ steps, r.alpha ≠ 0 → r.checked = true ∧ 0 < r.improvement) :
    runLoop c0 steps ≤ c0 :=
  runLoop_le c0 steps hchk

open MjProof.PrimalSearch in
example : ∀ r ∈ [(⟨1, 1 / 2, 0, true, 3⟩ : Result ℝ)], r.alpha ≠ 0 → r.checked = true ∧ 0 < r.improvement := by
  intro r hr _; simp at hr; subst hr; norm_num

open MjProof.PrimalSearch in
/-- `warmstart`: the solver starts from `qacc_warmstart` unless `cost(qacc_warmstart) > cost(qacc_smooth)`, so the
    starting cost is the smaller of the two. -/
theorem warmstart_picks_cheaper (costWarm costSmooth : ℝ) :
    (warmChoice costWarm costSmooth = true → costWarm ≤ costSmooth) ∧
    (warmChoice costWarm costSmooth = false → costSmooth < costWarm) ∧
    startCost costWarm costSmooth = min costWarm costSmooth :=
  warmChoice_spec costWarm costSmooth

end MjProof.C10
