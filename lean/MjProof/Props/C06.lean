import MjProof.Lemmas.InertiaSparse
import MjProof.Lemmas.Spatial
import Mathlib.LinearAlgebra.Matrix.PosDef
import Mathlib.LinearAlgebra.Matrix.NonsingularInverse
import Mathlib.Data.Real.Basic
import Mathlib.Data.Real.Star
import Mathlib.Algebra.Order.Star.Real
import Mathlib.Tactic.Linarith
import Mathlib.Tactic.Positivity
import Mathlib.Tactic.FinCases
import Mathlib.Tactic.NormNum
/-
C06 — Inertia, bias force and inverse dynamics are mutually consistent (DESIGN.md §5.C06).

Property theorems, over ℝ, about
  (a) the executable model of the sparse inertia routines (`MjProof/Model/InertiaSparse.lean`: `mj_mulM`, `mj_fullM`,
      `mj_factorI`, `mj_solveLD` on the "lower triangle by rows" CSR format; tied to the engine by the bitwise
      differential of checks/c06.py), for every dimension `n` and every pattern accepted by `lowerOk` / `treeOk`
      (what `mj_makeDofDofSparse` produces from any `dof_parentid` forest, reduced or not);
  (b) the spatial-algebra kernels generated from the C sources (`MjProof/Gen/Kernels.lean`);
  (c) the algebraic fact behind "M is positive definite": `Σ_b J_bᵀ I_b J_b + diag(armature)`.
Not proved here (decided by the oracle of checks/c06.py on the real engine): that `mj_crb` *computes* `Σ JᵀIJ`, and
`mj_rne(a) = M a + bias`.
-/
set_option linter.unusedSimpArgs false
set_option linter.unusedVariables false

open MjProof MjProof.Gen MjProof.InertiaSparse Matrix

namespace MjProof.C06

/-! ## (a) sparse format: `mj_mulM`, `mj_fullM`, `mj_solveLD` -/

section sparse
variable {n : Nat}


/-- `mj_fullM` and `mj_mulM` agree: the dense matrix times `v` is the sparse product -/
theorem fullM_mulM_agree (M : SymCsr ℝ n) (hM : lowerOk M = true) (v : Vector ℝ n) (a : Fin n) :
    ∑ j : Fin n, (fullM M)[a][j] * v[j] = (mulM M v)[a] := by
  have h := (lowerOk_iff M).1 hM
  rw [mulM_get M h]
  apply Finset.sum_congr rfl
  intro j _
  rw [fullM_get M h]

/-- `mj_fullM` fills exactly the matrix `D + Lo + Loᵀ` the format stands for -/
theorem fullM_entry (M : SymCsr ℝ n) (hM : lowerOk M = true) (a b : Fin n) : (fullM M)[a][b] = entry M a b :=
  fullM_get M ((lowerOk_iff M).1 hM) a b

/-- `mj_mulM` multiplies by that same matrix -/
theorem mulM_entry (M : SymCsr ℝ n) (hM : lowerOk M = true) (v : Vector ℝ n) (a : Fin n) :
    (mulM M v)[a] = ∑ j : Fin n, entry M a j * v[j] :=
  mulM_get M ((lowerOk_iff M).1 hM) v a

/-- `mj_solveLD` solves `(LᵀDL) y = x` for whatever `qLD` / `qLDiagInv` hold (lower pattern, `qLDiagInv ≠ 0`):
`L` = unit lower-triangular matrix stored in the off-diagonal slots, `D = 1 / qLDiagInv`. -/
theorem solveLD_solves (L : SymCsr ℝ n) (dinv : Vector ℝ n) (hL : lowerOk L = true) (hd : ∀ i : Fin n, dinv[i] ≠ 0)
    (x : Vector ℝ n) (a : Fin n) :
    ∑ b : Fin n, ldlEntry L dinv a b * (solveLD L dinv x)[b] = x[a] :=
  solveLD_spec L ((lowerOk_iff L).1 hL) dinv hd x a

/-- the output of `mju_sym2dense` is symmetric — for EVERY input (no hypothesis on the pattern) -/
theorem sym2dense_symmetric (M : SymCsr ℝ n) (a b : Fin n) : (fullM M)[a][b] = (fullM M)[b][a] :=
  fullM_symm M a b

/-- certificate form: if the stored factors reconstruct `M` (`LᵀDL = M`), `mj_mulM ∘ mj_solveM = id` -/
theorem solveLD_inverts_of_cert (M L : SymCsr ℝ n) (dinv : Vector ℝ n)
    (hM : lowerOk M = true) (hL : lowerOk L = true) (hd : ∀ i : Fin n, dinv[i] ≠ 0)
    (hfac : ∀ a b : Fin n, ldlEntry L dinv a b = entry M a b) (x : Vector ℝ n) (a : Fin n) :
    (mulM M (solveLD L dinv x))[a] = x[a] := by
  rw [mulM_get M ((lowerOk_iff M).1 hM)]
  rw [← solveLD_spec L ((lowerOk_iff L).1 hL) dinv hd x a]
  apply Finset.sum_congr rfl
  intro j _
  rw [hfac]

/-- certificate form, other direction: `mj_solveM ∘ mj_mulM = id` (a surjective endomorphism of `ℝⁿ` is injective) -/
theorem solveLD_mulM_of_cert (M L : SymCsr ℝ n) (dinv : Vector ℝ n)
    (hM : lowerOk M = true) (hL : lowerOk L = true) (hd : ∀ i : Fin n, dinv[i] ≠ 0)
    (hfac : ∀ a b : Fin n, ldlEntry L dinv a b = entry M a b) (v : Vector ℝ n) (a : Fin n) :
    (solveLD L dinv (mulM M v))[a] = v[a] := by
  let A : Matrix (Fin n) (Fin n) ℝ := Matrix.of (fun a b => entry M a b)
  have hmul : ∀ w : Vector ℝ n, (fun a => (mulM M w)[a]) = A *ᵥ (fun b => w[b]) := by
    intro w; funext a
    rw [mulM_get M ((lowerOk_iff M).1 hM)]
    simp [A, mulVec, dotProduct]
  have hsurj : Function.Surjective A.mulVec := by
    intro f
    refine ⟨fun b => (solveLD L dinv (Vector.ofFn f))[b], ?_⟩
    rw [← hmul]
    funext a
    rw [solveLD_inverts_of_cert M L dinv hM hL hd hfac]
    simp
  have hinj : Function.Injective A.mulVec :=
    mulVec_injective_iff_isUnit.2 (mulVec_surjective_iff_isUnit.1 hsurj)
  have key : A *ᵥ (fun b => (solveLD L dinv (mulM M v))[b]) = A *ᵥ (fun b => v[b]) := by
    rw [← hmul, ← hmul]
    funext a
    rw [solveLD_inverts_of_cert M L dinv hM hL hd hfac]
  exact congrFun (hinj key) a


/-- **`mj_factorI` reconstructs `M`**: on a tree pattern (`lowerOk`, `treeOk`), whenever every stored `qLDiagInv` is
non-zero (i.e. no zero pivot was met), the factors left in `qLD` satisfy `LᵀDL = M` entry by entry — `L` the unit
lower-triangular matrix of the off-diagonal slots, `D = 1 / qLDiagInv` = the diagonal slots — and the pattern is
unchanged. -/
theorem ltdl_reconstruct (M : SymCsr ℝ n) (hM : lowerOk M = true) (hT : treeOk M = true)
    (hnz : ∀ r : Fin n, (factorI M).2[r] ≠ 0) :
    lowerOk (factorI M).1 = true ∧
    (∀ r : Fin n, (factorI M).2[r] = 1 / (factorI M).1[r].d) ∧
    ∀ a b : Fin n, ldlEntry (factorI M).1 (factorI M).2 a b = entry M a b := by
  have hL := (lowerOk_iff M).1 hM
  obtain ⟨hP, hD, hE⟩ := factorI_spec M hL ((treeOk_iff M).1 hT) hnz
  exact ⟨(lowerOk_iff _).2 (hP.lowerOk hL), fun r => (hD r).1, hE⟩

/-- **`mj_solveM` inverts `mj_mulM`** (both directions), for the factorisation `mj_factorM` computes -/
theorem solveM_mulM_inverse (M : SymCsr ℝ n) (hM : lowerOk M = true) (hT : treeOk M = true)
    (hnz : ∀ r : Fin n, (factorI M).2[r] ≠ 0) (v : Vector ℝ n) (a : Fin n) :
    (solveLD (factorI M).1 (factorI M).2 (mulM M v))[a] = v[a] ∧
    (mulM M (solveLD (factorI M).1 (factorI M).2 v))[a] = v[a] := by
  obtain ⟨h1, _, h3⟩ := ltdl_reconstruct M hM hT hnz
  exact ⟨solveLD_mulM_of_cert M _ _ hM h1 hnz h3 v a, solveLD_inverts_of_cert M _ _ hM h1 hnz h3 v a⟩

/-- the hypotheses are satisfiable: the 2-dof chain `M = [[2, 1], [1, 3]]` (row 1 = child of row 0) -/
noncomputable def exM : SymCsr ℝ 2 :=
  #v[{ off := [], dcol := 0, d := 2 }, { off := [(0, 1)], dcol := 1, d := 3 }]

set_option maxRecDepth 4000 in
example : lowerOk exM = true ∧ treeOk exM = true ∧ ∀ r : Fin 2, (factorI exM).2[r] ≠ 0 := by
  refine ⟨by decide, by decide, ?_⟩
  have h : (factorI exM).2 = #v[(3/5 : ℝ), 1/3] := by
    simp only [factorI, exM, List.finRange_succ, List.finRange_zero, List.map_nil, List.map_cons, List.foldr_cons,
      List.foldr_nil, factorRow]
    simp [Row.vals, Row.addPrefix, addToScl, InertiaSparse.one, InertiaSparse.zero]
    norm_num
    rfl
  intro r
  rw [h]
  fin_cases r <;> simp

/-- a 3-dof pattern with branching (rows 1 and 2 are both children of row 0 … row 2 also of row 1) is accepted -/
example : lowerOk (#v[{ off := [], dcol := 0, d := 2 }, { off := [(0, 1)], dcol := 1, d := 3 },
      { off := [(0, 1/2), (1, 1)], dcol := 2, d := 4 }] : SymCsr ℝ 3) = true ∧
    treeOk (#v[{ off := [], dcol := 0, d := 2 }, { off := [(0, 1)], dcol := 1, d := 3 },
      { off := [(0, 1/2), (1, 1)], dcol := 2, d := 4 }] : SymCsr ℝ 3) = true := by
  exact ⟨by decide, by decide⟩

end sparse

/-! ## (b) spatial algebra kernels (generated from engine_util_spatial.c / engine_inline.h) -/


/-- 6D dot product (specification side) -/
def dot6 (a b : ℝ × ℝ × ℝ × ℝ × ℝ × ℝ) : ℝ :=
  a.1 * b.1 + a.2.1 * b.2.1 + a.2.2.1 * b.2.2.1 + a.2.2.2.1 * b.2.2.2.1 + a.2.2.2.2.1 * b.2.2.2.2.1 +
    a.2.2.2.2.2 * b.2.2.2.2.2

/-- `mju_crossForce(v, ·)` is minus the transpose of `mju_crossMotion(v, ·)`: `⟨v ×ₘ w, f⟩ = −⟨w, v ×f f⟩` -/
theorem crossForce_dual_crossMotion (v0 v1 v2 v3 v4 v5 w0 w1 w2 w3 w4 w5 f0 f1 f2 f3 f4 f5 : ℝ) :
    dot6 (mju_crossMotion v0 v1 v2 v3 v4 v5 w0 w1 w2 w3 w4 w5) (f0, f1, f2, f3, f4, f5) =
      - dot6 (w0, w1, w2, w3, w4, w5) (mju_crossForce v0 v1 v2 v3 v4 v5 f0 f1 f2 f3 f4 f5) := by
  simp only [mju_crossMotion, mju_crossForce, dot6]
  ring

/-- the inline copy used by `mj_rne` is the same function as `mju_crossForce` -/
theorem mji_crossForce_eq (v0 v1 v2 v3 v4 v5 f0 f1 f2 f3 f4 f5 : ℝ) :
    mji_crossForce v0 v1 v2 v3 v4 v5 f0 f1 f2 f3 f4 f5 = mju_crossForce v0 v1 v2 v3 v4 v5 f0 f1 f2 f3 f4 f5 := rfl

/-- the inline copy used by `mj_comVel` / `mj_jacDot` is the same function as `mju_crossMotion` -/
theorem mji_crossMotion_eq (v0 v1 v2 v3 v4 v5 f0 f1 f2 f3 f4 f5 : ℝ) :
    mji_crossMotion v0 v1 v2 v3 v4 v5 f0 f1 f2 f3 f4 f5 = mju_crossMotion v0 v1 v2 v3 v4 v5 f0 f1 f2 f3 f4 f5 := rfl

/-- `mji_dot6` (pairwise summation order of `mju_dot`) is the 6D dot product over ℝ -/
theorem mji_dot6_eq (a0 a1 a2 a3 a4 a5 b0 b1 b2 b3 b4 b5 : ℝ) :
    mji_dot6 a0 a1 a2 a3 a4 a5 b0 b1 b2 b3 b4 b5 = dot6 (a0, a1, a2, a3, a4, a5) (b0, b1, b2, b3, b4, b5) := by
  simp only [mji_dot6, dot6]; ring

/-- `v ×ₘ v = 0` (why `mj_comVel` may use the velocity before or after the joint for `cdof_dot`) -/
theorem crossMotion_self (v0 v1 v2 v3 v4 v5 : ℝ) :
    mju_crossMotion v0 v1 v2 v3 v4 v5 v0 v1 v2 v3 v4 v5 = (0, 0, 0, 0, 0, 0) := by
  simp only [mju_crossMotion, Prod.mk.injEq]
  refine ⟨?_, ?_, ?_, ?_, ?_, ?_⟩ <;> ring

/-- `mju_inertCom` + `mju_mulInertVec`: parallel-axis theorem in spatial form.  With `R` the inertial-frame
orientation, `I` the principal inertias, `d` the offset of the body COM from the reference point and `m` the mass,
the spatial inertia maps the motion vector `(ω, v)` (velocity `v` of the reference point) to the momentum
`(R I Rᵀ ω + d × p, p)` with `p = m (v + ω × d)` the linear momentum. -/
theorem inertCom_parallel_axis (I0 I1 I2 r0 r1 r2 r3 r4 r5 r6 r7 r8 d0 d1 d2 m w0 w1 w2 u0 u1 u2 : ℝ) :
    let ci := mju_inertCom I0 I1 I2 r0 r1 r2 r3 r4 r5 r6 r7 r8 d0 d1 d2 m
    let p0 := m * (u0 + (w1 * d2 - w2 * d1))
    let p1 := m * (u1 + (w2 * d0 - w0 * d2))
    let p2 := m * (u2 + (w0 * d1 - w1 * d0))
    -- body-frame angular velocity Rᵀ ω
    let b0 := r0 * w0 + r3 * w1 + r6 * w2
    let b1 := r1 * w0 + r4 * w1 + r7 * w2
    let b2 := r2 * w0 + r5 * w1 + r8 * w2
    mju_mulInertVec ci.1 ci.2.1 ci.2.2.1 ci.2.2.2.1 ci.2.2.2.2.1 ci.2.2.2.2.2.1 ci.2.2.2.2.2.2.1 ci.2.2.2.2.2.2.2.1
        ci.2.2.2.2.2.2.2.2.1 ci.2.2.2.2.2.2.2.2.2 w0 w1 w2 u0 u1 u2 =
      (r0 * (I0 * b0) + r1 * (I1 * b1) + r2 * (I2 * b2) + (d1 * p2 - d2 * p1),
       r3 * (I0 * b0) + r4 * (I1 * b1) + r5 * (I2 * b2) + (d2 * p0 - d0 * p2),
       r6 * (I0 * b0) + r7 * (I1 * b1) + r8 * (I2 * b2) + (d0 * p1 - d1 * p0),
       p0, p1, p2) := by
  simp only [mju_inertCom, mju_mulInertVec, Prod.mk.injEq]
  refine ⟨?_, ?_, ?_, ?_, ?_, ?_⟩ <;> ring

/-- kinetic-energy form of the same: `vᵀ (I_spatial v) = Σ_k I_k (Rᵀω)_k² + m |v + ω × d|²`; in particular the 6×6
spatial inertia built by `mju_inertCom` is positive semidefinite for `I_k ≥ 0, m ≥ 0` (no assumption on `R`). -/
theorem inertCom_quadratic_form (I0 I1 I2 r0 r1 r2 r3 r4 r5 r6 r7 r8 d0 d1 d2 m w0 w1 w2 u0 u1 u2 : ℝ) :
    let ci := mju_inertCom I0 I1 I2 r0 r1 r2 r3 r4 r5 r6 r7 r8 d0 d1 d2 m
    dot6 (w0, w1, w2, u0, u1, u2)
      (mju_mulInertVec ci.1 ci.2.1 ci.2.2.1 ci.2.2.2.1 ci.2.2.2.2.1 ci.2.2.2.2.2.1 ci.2.2.2.2.2.2.1 ci.2.2.2.2.2.2.2.1
        ci.2.2.2.2.2.2.2.2.1 ci.2.2.2.2.2.2.2.2.2 w0 w1 w2 u0 u1 u2) =
      I0 * (r0 * w0 + r3 * w1 + r6 * w2) ^ 2 + I1 * (r1 * w0 + r4 * w1 + r7 * w2) ^ 2 +
        I2 * (r2 * w0 + r5 * w1 + r8 * w2) ^ 2 +
        m * ((u0 + (w1 * d2 - w2 * d1)) ^ 2 + (u1 + (w2 * d0 - w0 * d2)) ^ 2 + (u2 + (w0 * d1 - w1 * d0)) ^ 2) := by
  simp only [mju_inertCom, mju_mulInertVec, dot6]
  ring


/-! ## (c) positive (semi)definiteness of `Σ JᵀIJ + diag(armature)` -/

section psd
variable {ι : Type} [Fintype ι] {n : Nat}


/-- `Σ_b J_bᵀ I_b J_b + diag(armature)` is positive semidefinite when every `I_b` is and `armature ≥ 0` -/
theorem sum_congruence_psd (J : ι → Matrix (Fin 6) (Fin n) ℝ) (I : ι → Matrix (Fin 6) (Fin 6) ℝ)
    (arm : Fin n → ℝ) (hI : ∀ b, (I b).PosSemidef) (ha : ∀ i, 0 ≤ arm i) :
    (∑ b, (J b)ᵀ * I b * J b + Matrix.diagonal arm).PosSemidef := by
  apply PosSemidef.add
  · apply posSemidef_sum
    intro b _
    have := (hI b).conjTranspose_mul_mul_same (J b)
    simpa using this
  · exact PosSemidef.diagonal ha

/-- its quadratic form: `xᵀ M x = Σ_b (J_b x)ᵀ I_b (J_b x) + Σ_i armature_i x_i²` -/
theorem quad_form (J : ι → Matrix (Fin 6) (Fin n) ℝ) (I : ι → Matrix (Fin 6) (Fin 6) ℝ)
    (arm : Fin n → ℝ) (x : Fin n → ℝ) :
    star x ⬝ᵥ ((∑ b, (J b)ᵀ * I b * J b + Matrix.diagonal arm) *ᵥ x) =
      ∑ b, star (J b *ᵥ x) ⬝ᵥ (I b *ᵥ (J b *ᵥ x)) + ∑ i, arm i * x i ^ 2 := by
  rw [add_mulVec, dotProduct_add, sum_mulVec, dotProduct_sum]
  congr 1
  · apply Finset.sum_congr rfl
    intro b _
    rw [← mulVec_mulVec, ← mulVec_mulVec, dotProduct_mulVec, vecMul_transpose]
    simp
  · simp [dotProduct, mulVec_diagonal, pow_two]
    apply Finset.sum_congr rfl; intro i _; ring

/-- … and positive definite when every `I_b` is positive definite, `armature ≥ 0`, and every non-zero `x` is either
moved by some body (`J_b x ≠ 0`) or has a component with positive armature -/
theorem sum_congruence_pd (J : ι → Matrix (Fin 6) (Fin n) ℝ) (I : ι → Matrix (Fin 6) (Fin 6) ℝ)
    (arm : Fin n → ℝ) (hI : ∀ b, (I b).PosDef) (ha : ∀ i, 0 ≤ arm i)
    (hfull : ∀ v : Fin n → ℝ, v ≠ 0 → (∃ b, J b *ᵥ v ≠ 0) ∨ (∃ i, 0 < arm i ∧ v i ≠ 0)) :
    (∑ b, (J b)ᵀ * I b * J b + Matrix.diagonal arm).PosDef := by
  have hpsd := sum_congruence_psd J I arm (fun b => (hI b).posSemidef) ha
  apply PosDef.of_dotProduct_mulVec_pos hpsd.isHermitian
  intro x hx
  rw [quad_form]
  have h1 : ∀ b, 0 ≤ star (J b *ᵥ x) ⬝ᵥ (I b *ᵥ (J b *ᵥ x)) := fun b => (hI b).posSemidef.dotProduct_mulVec_nonneg _
  have h2 : ∀ i, 0 ≤ arm i * x i ^ 2 := fun i => mul_nonneg (ha i) (sq_nonneg _)
  rcases hfull x hx with ⟨b, hb⟩ | ⟨i, hi, hxi⟩
  · have : 0 < star (J b *ᵥ x) ⬝ᵥ (I b *ᵥ (J b *ᵥ x)) := (hI b).dotProduct_mulVec_pos hb
    have s1 : 0 < ∑ b, star (J b *ᵥ x) ⬝ᵥ (I b *ᵥ (J b *ᵥ x)) :=
      Finset.sum_pos' (fun b _ => h1 b) ⟨b, Finset.mem_univ _, this⟩
    have s2 : 0 ≤ ∑ i, arm i * x i ^ 2 := Finset.sum_nonneg (fun i _ => h2 i)
    linarith
  · have : 0 < arm i * x i ^ 2 := mul_pos hi (by positivity)
    have s1 : 0 ≤ ∑ b, star (J b *ᵥ x) ⬝ᵥ (I b *ᵥ (J b *ᵥ x)) := Finset.sum_nonneg (fun b _ => h1 b)
    have s2 : 0 < ∑ i, arm i * x i ^ 2 := Finset.sum_pos' (fun i _ => h2 i) ⟨i, Finset.mem_univ _, this⟩
    linarith

/-- the hypotheses of `sum_congruence_pd` are satisfiable: one body, `J` selecting two coordinates, `I = 1`, no armature -/
example : ∃ (J : Unit → Matrix (Fin 6) (Fin 2) ℝ) (I : Unit → Matrix (Fin 6) (Fin 6) ℝ) (arm : Fin 2 → ℝ),
    (∀ b, (I b).PosDef) ∧ (∀ i, 0 ≤ arm i) ∧
    (∀ v : Fin 2 → ℝ, v ≠ 0 → (∃ b, J b *ᵥ v ≠ 0) ∨ (∃ i, 0 < arm i ∧ v i ≠ 0)) := by
  refine ⟨fun _ => Matrix.of (fun i j => if (i : ℕ) = j then 1 else 0), fun _ => 1, fun _ => 0,
    fun _ => PosDef.one, fun _ => le_refl _, ?_⟩
  intro v hv
  left
  refine ⟨(), ?_⟩
  intro h0
  apply hv
  funext j
  have := congrFun h0 ⟨j.1, by omega⟩
  simp only [mulVec, dotProduct, Matrix.of_apply, Pi.zero_apply] at this
  fin_cases j <;> simpa [Fin.sum_univ_two] using this

end psd

end MjProof.C06
