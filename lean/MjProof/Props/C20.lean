import MjProof.Lemmas.ArenaConsumers
import MjProof.Lemmas.Arena
/-
C20  Exhausted arena memory is handled gracefully.

Property theorems only.  The model (`Model/ArenaConsumers.lean`) writes every consumer of
`mj_arenaAllocByte` in src/engine as a program over the C19 arena model; `checks/c20.py` ties it to the
tree on every run: the guard table of the programs (`guards`: allocated variable / tested variable /
failure actions / exit, per allocation site) is compared with the table `translate/c20_guards.py`
extracts from the C source, the real static consumers are run against the interpreter on the same
inputs, and the allocator answers of real `mj_step`s under shrunken arenas are replayed.

The tree tests the wrong variable in `pushPairArena` (`if (!pair)` instead of `if (!new_pair)`):
`never_use_failed_alloc` therefore excludes that one program, `pushPair_asIs_null_deref` proves the
model of the code *as it is* dereferences NULL exactly when the arena is full (with a concrete
witness), and `never_use_failed_alloc_pushPair_after_fix` covers the variant testing the right variable.
-/
namespace MjProof.C20
open MjProof.Arena MjProof.ArenaConsumers
set_option linter.unusedSimpArgs false
set_option linter.unusedVariables false

/-! ### Every use of an allocation result is dominated by a success test on that result -/

/-- the syntactic discipline holds of every consumer except the as-is `pushPairArena`, for every
    request list / size parameter. -/
theorem wellGuarded_all (k : Consumer) (hk : k.isAsIsPushPair = false) : WellGuarded k.params k.prog = true := by
  cases k with
  | pushPair v => cases v with
    | asIs => simp [Consumer.isAsIsPushPair] at hk
    | fixed => decide
  | addContact => decide
  | allocEfc reqs =>
    simp only [WellGuarded, Consumer.prog, Consumer.params, allocEfc, guarded, actFacts]
    apply guarded_xmacro
    · intro f' h'
      exact ⟨_, rfl, by simpa using h'⟩
    · intro f' h'
      simp only [guarded, exitOk, decide_eq_true_eq]; simpa using h'
  | allocIsland reqs =>
    simp only [WellGuarded, Consumer.prog, Consumer.params, allocIsland, guarded, actFacts]
    apply guarded_xmacro
    · intro f' h'
      exact ⟨_, rfl, by simpa using h'⟩
    · intro f' h'
      simp only [guarded, exitOk, decide_eq_true_eq]; simpa using h'
  | narrowphaseCon n => rfl
  | flexCon n => rfl
  | flexConElems n => rfl
  | makeYSparse nefc nY => rfl
  | makeYDense nefc nv => rfl
  | makeARSparse nefc nA => rfl
  | makeARDense nefc => rfl
  | effAlloc b al => rfl

/-- **never_use_failed_alloc.**  For every consumer of the arena other than the as-is `pushPairArena`,
    every arena configuration and every mjData state in which the caller-supplied pointers are valid:
    the run never dereferences a NULL (or unassigned) pointer – in particular never a failed
    allocation – never calls mj_freeStack without a matching mj_markStack, and when it returns the
    stack marks it took are released. -/
theorem never_use_failed_alloc (k : Consumer) (hk : k.isAsIsPushPair = false) (c : Cfg) (d : D)
    (hp : ∀ v ∈ k.params, ∃ p, lookup d.env v = some (some p)) :
    (∀ f, (run c k.prog d).1 ≠ .fault f) ∧
    (∀ code, (run c k.prog d).1 = .ret code → (run c k.prog d).2.depth = d.depth) := by
  have h := guarded_sound c k.prog ⟨k.params, k.params, 0⟩ d d.depth (wellGuarded_all k hk)
    ⟨hp, fun v hv => by obtain ⟨p, h⟩ := hp v hv; exact ⟨_, h⟩, rfl⟩
  refine ⟨fun f hf => ?_, fun code hc => h.2 (by rw [hc]; rfl)⟩
  have := h.1
  rw [hf] at this
  exact absurd this (by simp [Outcome.isFault])

/-- the hypothesis of `never_use_failed_alloc` is satisfiable: a 4 KiB arena, one contact, a valid `con`. -/
def d0 : D :=
  { a := State.init, ncon := 1, nefc := 3, nisland := 1, nidof := 0, nJ := 0, nY := 0, nA := 0, wCon := 0,
    wCnstr := 0, parenaOld := 0, depth := 0, env := [(vCon, some 12345), (vPair, some 777)] }
def c0 : Cfg := ⟨65536, 4096, 0⟩

example : ∀ v ∈ Consumer.addContact.params, ∃ p, lookup d0.env v = some (some p) := by
  intro v hv
  simp only [Consumer.params, List.mem_singleton] at hv
  subst hv
  exact ⟨12345, rfl⟩
example : (run c0 addContact d0).1 = .ret (some 0) := by decide
example : (run ⟨65536, 1000, 0⟩ addContact d0).1 = .ret (some 1) := by decide

/-! ### pushPairArena as the tree has it: the model dereferences NULL exactly when the arena is full -/

/-- the as-is program violates the discipline (the test is on `pair`, the store is through `new_pair`). -/
theorem pushPair_asIs_not_guarded : WellGuarded [vPair] (pushPair .asIs) = false := by decide

/-- **The defect, semantically.**  With a valid `pair` argument, the as-is `pushPairArena` dereferences
    the NULL `new_pair` if and only if `mj_arenaAllocByte` refuses the 24 bytes; the `mjERROR` branch
    is dead. -/
theorem pushPair_asIs_null_deref (c : Cfg) (d : D) (hp : ∃ p, lookup d.env vPair = some (some p)) :
    ((run c (pushPair .asIs) d).1 = .fault (.nullDeref vNewPair) ↔ (arenaAlloc c d.a SZPAIR ALPAIR).1 = .null) ∧
    (run c (pushPair .asIs) d).1 ≠ .error := by
  obtain ⟨q, hq⟩ := hp
  have hne : vNewPair ≠ vPair := by decide
  rcases arenaAlloc_cases c d.a SZPAIR ALPAIR with hn | ⟨p, s', hs, _⟩
  · simp [pushPair, run, hn, anyNull, deref, lookup_cons_ne _ _ hne, lookup_cons_self, hq]
  · simp [pushPair, run, hs, anyNull, deref, lookup_cons_ne _ _ hne, lookup_cons_self, hq]

/-- a concrete witness: a 4 KiB arena whose stack has grown to within 16 bytes of the pair buffer. -/
def dFull : D := { d0 with a := { State.init with parena := 2000, pstack := 2080 } }

theorem pushPair_asIs_witness :
    (∃ p, lookup dFull.env vPair = some (some p)) ∧ dFull.a.parena + dFull.a.pstack ≤ c0.narena ∧
    (run c0 (pushPair .asIs) dFull).1 = .fault (.nullDeref vNewPair) := ⟨⟨777, rfl⟩, by decide, by decide⟩

/-- **never_use_failed_alloc for `pushPairArena` after the fix** (`if (!new_pair)`): a refused
    allocation raises the error, a granted one is stored through; never a fault. -/
theorem never_use_failed_alloc_pushPair_after_fix (c : Cfg) (d : D)
    (hp : ∃ p, lookup d.env vPair = some (some p)) :
    (∀ f, (run c (pushPair .fixed) d).1 ≠ .fault f) ∧
    ((run c (pushPair .fixed) d).1 = .error ↔ (arenaAlloc c d.a SZPAIR ALPAIR).1 = .null) ∧
    ((run c (pushPair .fixed) d).1 = .error → (run c (pushPair .fixed) d).2.a = d.a) := by
  obtain ⟨q, hq⟩ := hp
  have hne : vNewPair ≠ vPair := by decide
  rcases arenaAlloc_cases c d.a SZPAIR ALPAIR with hn | ⟨p, s', hs, _⟩
  · simp [pushPair, run, hn, anyNull, lookup_cons_self, failExit, runActs, exitOutcome]
  · simp [pushPair, run, hs, anyNull, deref, lookup_cons_ne _ _ hne, lookup_cons_self, hq]

example : (run c0 (pushPair .fixed) dFull).1 = .error := by decide

/-! ### State after a failure: counts truncated, pointers cleared, parena restored -/

/-- every arena pointer field of the environment is NULL. -/
def AllFieldsNull (d : D) : Prop := ∀ v x, v.isFld = true → lookup d.env v = some x → x = none

/-- **mj_addContact.**  It returns 1 exactly when the arena refuses the contact; then the contact count
    is unchanged, `parena` is the end of the contact array, the constraint counts are zero, every arena
    pointer is NULL, the stack is untouched and mjWARN_CONTACTFULL was raised once.  Otherwise it
    returns 0, the new contact lies directly behind the old ones (`dst = arena + ncon*sizeof(mjContact)`)
    and below the stack. -/
theorem state_consistent_after_failure_addContact (c : Cfg) (d : D)
    (hcon : ∃ p, lookup d.env vCon = some (some p)) :
    let r := run c addContact d
    let a0 : State := { d.a with parena := d.ncon * SZCON }
    (r.1 = .ret (some 1) ∨ r.1 = .ret (some 0)) ∧
    (r.1 = .ret (some 1) ↔ (arenaAlloc c a0 SZCON ALCON).1 = .null) ∧
    (r.1 = .ret (some 1) → r.2.ncon = d.ncon ∧ r.2.a.parena = d.ncon * SZCON ∧ r.2.a.pstack = d.a.pstack ∧
        r.2.nefc = 0 ∧ r.2.nisland = 0 ∧ r.2.nJ = 0 ∧ r.2.nY = 0 ∧ r.2.nA = 0 ∧
        r.2.wCon = d.wCon + 1 ∧ r.2.wCnstr = d.wCnstr ∧ AllFieldsNull r.2) ∧
    (r.1 = .ret (some 0) → r.2.ncon = d.ncon + 1 ∧ r.2.nefc = 0 ∧ r.2.wCon = d.wCon ∧
        ∃ p, lookup r.2.env vDst = some (some p) ∧ (arenaAlloc c a0 SZCON ALCON).1 = .ptr p) := by
  obtain ⟨q, hq⟩ := hcon
  have hne : vDst ≠ vCon := by decide
  have hcl : lookup (nullify Var.isFld d.env) vCon = some (some q) := by
    rw [lookup_nullify, hq]; rfl
  intro r a0
  have hnull : ∀ (env : List (Var × Val)), AllFieldsNull
      { d with env := (vDst, none) :: nullify Var.isFld env } := by
    intro env v x hv hl
    have : vDst ≠ v := by intro e; rw [← e] at hv; simp [vDst, Var.isFld] at hv
    simp only [lookup_cons_ne _ _ this] at hl
    exact lookup_after_nullify_isFld env v x hv hl
  rcases arenaAlloc_cases c a0 SZCON ALCON with hn | ⟨p, s', hs, hps, _⟩
  · have hr : r = (.ret (some 1),
        { d with
          a := a0, nefc := 0, nisland := 0, nJ := 0, nY := 0, nA := 0, wCon := d.wCon + 1,
          env := (vDst, none) :: nullify Var.isFld d.env }) := by
      simp [r, addContact, run, runAct, a0, hn, anyNull, lookup_cons_self, failExit, runActs, exitOutcome]
    rw [hr]
    refine ⟨Or.inl rfl, by simp [hn], fun _ => ⟨rfl, rfl, rfl, rfl, rfl, rfl, rfl, rfl, rfl, rfl, hnull d.env⟩, by simp⟩
  · have hr : r = (.ret (some 0),
        { d with
          a := s', nefc := 0, nisland := 0, nJ := 0, nY := 0, nA := 0, ncon := d.ncon + 1,
          env := (vDst, some p) :: nullify Var.isFld d.env }) := by
      simp [r, addContact, run, runAct, a0, hs, anyNull, deref, lookup_cons_self, lookup_cons_ne _ _ hne, hcl,
            exitOutcome]
    rw [hr]
    refine ⟨Or.inr rfl, by simp [hs], by simp, fun _ => ⟨rfl, rfl, rfl, p, lookup_cons_self _ _ _, by simp [hs]⟩⟩

/-- where the granted contact lies: directly behind the `ncon` old contacts and below the stack
    (the contact array stays contiguous; `584 = 8·73` keeps it 8-aligned). -/
theorem addContact_block_in_arena (c : Cfg) (s : State) (ncon p : Nat) (s' : State)
    (hc : c.base + c.narena < W) (h63 : c.narena < 2 ^ 63) (hfit : ncon * SZCON + s.pstack ≤ c.narena)
    (h : arenaAlloc c { s with parena := ncon * SZCON } SZCON ALCON = (.ptr p, s')) :
    p = c.base + ncon * SZCON ∧ s'.parena = (ncon + 1) * SZCON ∧ s'.parena + s'.pstack ≤ c.narena := by
  have hnw : ncon * SZCON + ALCON + SZCON < W := by unfold SZCON ALCON W at *; omega
  have hspec := arenaAlloc_spec (c := c) (s := { s with parena := ncon * SZCON }) (bytes := SZCON) (al := ALCON)
    hc hfit (by decide) hnw
  have hal : (ncon * SZCON) % ALCON = 0 := by unfold SZCON ALCON; omega
  simp only [hal, ne_eq, not_true_eq_false, if_false, Nat.add_zero] at hspec
  split at hspec
  · rw [hspec] at h; simp at h
  · rw [hspec] at h
    simp only [Prod.mk.injEq, Res.ptr.injEq] at h
    obtain ⟨rfl, rfl⟩ := h
    refine ⟨rfl, by simp only [Nat.add_mul, Nat.one_mul], ?_⟩
    simp only; omega

/-- **arenaAllocEfc.**  For every request list: it returns 1 with every solver array allocated
    (non-NULL), or it returns 0 and then – whichever request was refused – every arena pointer is NULL,
    `nefc = nisland = 0`, `parena` is back at the end of the contact array, the contacts and the stack
    are untouched and mjWARN_CNSTRFULL was raised exactly once.  No other outcome exists. -/
theorem state_consistent_after_failure_allocEfc (c : Cfg) (d : D) (reqs : List (Nat × Nat)) :
    let r := run c (allocEfc reqs) d
    (r.1 = .ret (some 1) ∧ (∀ j, j < reqs.length → ∃ p, lookup r.2.env (.fld .solver j) = some (some p)) ∧
        r.2.ncon = d.ncon ∧ r.2.nefc = d.nefc ∧ r.2.wCnstr = d.wCnstr ∧ r.2.a.pstack = d.a.pstack)
    ∨ (r.1 = .ret (some 0) ∧ AllFieldsNull r.2 ∧ r.2.nefc = 0 ∧ r.2.nisland = 0 ∧ r.2.nJ = 0 ∧ r.2.nY = 0 ∧
        r.2.nA = 0 ∧ r.2.a.parena = d.ncon * SZCON ∧ r.2.ncon = d.ncon ∧ r.2.a.pstack = d.a.pstack ∧
        r.2.wCnstr = d.wCnstr + 1 ∧ r.2.wCon = d.wCon ∧ r.2.depth = d.depth) := by
  intro r
  let dA : D := { d with a := { d.a with parena := d.ncon * SZCON } }
  have hr : r = run c (xmacro .solver efcFail 0 reqs ++ [.exit (.ret 1)]) dA := by
    simp [r, allocEfc, run, runAct, dA]
  rcases run_xmacro c .solver efcFail [.exit (.ret 1)] reqs 0 dA with ⟨d', hg, he, hnn⟩ | ⟨d1, j, hg, _, he⟩
  · left
    rw [hr, he]
    refine ⟨rfl, fun j hj => ?_, hg.same.ncon, hg.same.nefc, hg.same.wCnstr, hg.same.pstack⟩
    obtain ⟨p, hp⟩ := hnn j hj
    exact ⟨p, by rw [Nat.zero_add] at hp; exact hp⟩
  · right
    rw [hr, he]
    refine ⟨rfl, ?_, rfl, rfl, rfl, rfl, rfl, ?_, hg.same.ncon, hg.same.pstack, ?_, hg.same.wCon, hg.same.depth⟩
    · intro v x hv hl
      exact lookup_after_nullify_isFld _ v x hv hl
    · show d1.ncon * SZCON = d.ncon * SZCON
      rw [hg.same.ncon]
    · show d1.wCnstr + 1 = d.wCnstr + 1
      rw [hg.same.wCnstr]

/-- **arenaAllocIsland.**  It returns 1 with every island array allocated, or it returns 0 and then every
    island array pointer is NULL, `nisland = nidof = 0`, `nefc = 0` (clearIsland also drops the
    constraint count), `parena` is restored to its value at entry, every other pointer (the solver
    arrays below the restored `parena`) is exactly what it was – no pointer made by the failed call
    survives – and mjWARN_CNSTRFULL was raised exactly once. -/
theorem state_consistent_after_failure_allocIsland (c : Cfg) (d : D) (reqs : List (Nat × Nat)) :
    let r := run c (allocIsland reqs) d
    (r.1 = .ret (some 1) ∧ (∀ j, j < reqs.length → ∃ p, lookup r.2.env (.fld .island j) = some (some p)) ∧
        r.2.nefc = d.nefc ∧ r.2.nisland = d.nisland ∧ r.2.wCnstr = d.wCnstr ∧
        (∀ v, v.isIsland = false → lookup r.2.env v = lookup d.env v))
    ∨ (r.1 = .ret (some 0) ∧ (∀ v x, v.isIsland = true → lookup r.2.env v = some x → x = none) ∧
        (∀ v, v.isIsland = false → lookup r.2.env v = lookup d.env v) ∧
        r.2.nisland = 0 ∧ r.2.nidof = 0 ∧ r.2.nefc = 0 ∧ r.2.a.parena = d.a.parena ∧ r.2.ncon = d.ncon ∧
        r.2.a.pstack = d.a.pstack ∧ r.2.wCnstr = d.wCnstr + 1 ∧ r.2.depth = d.depth) := by
  intro r
  let dA : D := { d with parenaOld := d.a.parena }
  have hr : r = run c (xmacro .island islandFail 0 reqs ++ [.exit (.ret 1)]) dA := by
    simp [r, allocIsland, run, runAct, dA]
  have other : ∀ d', Grown .island 0 dA d' → ∀ v, v.isIsland = false → lookup d'.env v = lookup d.env v := by
    intro d' hg v hv
    rw [hg.lookup_other v (fun k _ e => by rw [e] at hv; simp [Var.isIsland] at hv)]
  rcases run_xmacro c .island islandFail [.exit (.ret 1)] reqs 0 dA with ⟨d', hg, he, hnn⟩ | ⟨d1, j, hg, _, he⟩
  · left
    rw [hr, he]
    refine ⟨rfl, fun j hj => ?_, hg.same.nefc, hg.same.nisland, hg.same.wCnstr, other d' hg⟩
    obtain ⟨p, hp⟩ := hnn j hj
    exact ⟨p, by rw [Nat.zero_add] at hp; exact hp⟩
  · right
    rw [hr, he]
    refine ⟨rfl, ?_, ?_, rfl, rfl, rfl, ?_, hg.same.ncon, hg.same.pstack, ?_, hg.same.depth⟩
    rotate_left 2
    · show d1.parenaOld = d.a.parena
      rw [hg.same.parenaOld]
    · show d1.wCnstr + 1 = d.wCnstr + 1
      rw [hg.same.wCnstr]
    · intro v x hv hl
      exact lookup_after_nullify Var.isIsland _ v x hv hl
    · intro v hv
      have hne : Var.fld .island (0 + j) ≠ v := by intro e; rw [← e] at hv; simp [Var.isIsland] at hv
      change lookup (nullify Var.isIsland ((Var.fld .island (0 + j), none) :: d1.env)) v = lookup d.env v
      rw [lookup_nullify, lookup_cons_ne _ _ hne, other d1 hg v hv]
      cases lookup d.env v <;> simp [hv]

/-- **The contact buffers** (mj_narrowphase, mj_collideGeomElem, mj_collideElems, mj_collideElemVert):
    a refused buffer leaves `ncon`, `parena`, the stack pointer and every pointer as they were, raises
    mjWARN_CONTACTFULL once and releases the stack mark; a granted one adds `n` contacts. -/
theorem state_consistent_after_failure_contactBuffer (c : Cfg) (d : D) (n : Nat)
    (prog : List Stmt) (hprog : prog = narrowphaseCon n ∨ prog = flexCon n ∨ prog = flexConElems n) :
    let r := run c prog d
    r.1 = .ret none ∧ r.2.depth = d.depth ∧
    (((arenaAlloc c d.a (SZCON * n) ALCON).1 = .null ∧ r.2.ncon = d.ncon ∧ r.2.a = d.a ∧ r.2.wCon = d.wCon + 1 ∧
        r.2.nefc = d.nefc ∧ ∀ v, v ≠ vCon → lookup r.2.env v = lookup d.env v)
     ∨ ((∃ p, (arenaAlloc c d.a (SZCON * n) ALCON).1 = .ptr p) ∧ r.2.ncon = d.ncon + n ∧ r.2.wCon = d.wCon)) := by
  intro r
  rcases arenaAlloc_cases c d.a (SZCON * n) ALCON with hn | ⟨p, s', hs, _⟩
  · rcases hprog with rfl | rfl | rfl <;>
      (simp only [r, narrowphaseCon, flexCon, flexConElems, run, runAct, hn, anyNull, lookup_cons_self, failExit,
                  runActs, exitOutcome, Nat.add_one_ne_zero, if_false, Nat.add_sub_cancel]
       simp
       intro v hv
       exact lookup_cons_ne _ _ (Ne.symm hv))
  · rcases hprog with rfl | rfl | rfl <;>
      (simp only [r, narrowphaseCon, flexCon, flexConElems, run, runAct, hs, anyNull, deref, lookup_cons_self,
                  Nat.add_one_ne_zero, if_false, Nat.add_sub_cancel]
       simp)

/-- closes what is left of a dual-array case after the run has been evaluated: the stack pointer chain
    and "every arena pointer is NULL". -/
local macro "dual_close" : tactic =>
  `(tactic| first
      | done
      | exact fun v x hv hl => lookup_after_nullify Var.isFld _ v x hv hl
      | exact ⟨by omega, fun v x hv hl => lookup_after_nullify Var.isFld _ v x hv hl⟩
      | omega)

/-- **mj_makeY / mj_makeAR** (dual arrays, sparse and dense): whichever of the allocations is refused –
    also when only the second of a tested pair fails – the function returns with every arena pointer
    NULL, `nefc = nisland = nJ = nY = nA = 0`, `parena` at the end of the contact array, one
    mjWARN_CNSTRFULL and the stack mark released; otherwise all its arrays are non-NULL. -/
theorem state_consistent_after_failure_dual (c : Cfg) (d : D) (k : Consumer)
    (hk : (∃ nefc nY, k = .makeYSparse nefc nY) ∨ (∃ nefc nv, k = .makeYDense nefc nv) ∨
          (∃ nefc nA, k = .makeARSparse nefc nA) ∨ (∃ nefc, k = .makeARDense nefc))
    (hp : ∀ v ∈ k.params, ∃ p, lookup d.env v = some (some p)) :
    let r := run c k.prog d
    r.1 = .ret none ∧ r.2.depth = d.depth ∧ r.2.ncon = d.ncon ∧ r.2.a.pstack = d.a.pstack ∧
    ((r.2.wCnstr = d.wCnstr ∧ r.2.nefc = d.nefc)
     ∨ (r.2.wCnstr = d.wCnstr + 1 ∧ AllFieldsNull r.2 ∧ r.2.nefc = 0 ∧ r.2.nisland = 0 ∧ r.2.nJ = 0 ∧
        r.2.nY = 0 ∧ r.2.nA = 0 ∧ r.2.a.parena = d.ncon * SZCON)) := by
  intro r
  rcases hk with ⟨nefc, nY, rfl⟩ | ⟨nefc, nv, rfl⟩ | ⟨nefc, nA, rfl⟩ | ⟨nefc, rfl⟩
  · -- makeYSparse
    simp only [r, Consumer.prog, makeYSparse, dualFail, AllFieldsNull]
    rcases arenaAlloc_cases c d.a (4 * nefc) 4 with h1 | ⟨p1, s1, h1, hp1, _⟩
    · simp [run, runAct, h1, anyNull, lookup, failExit, runActs, exitOutcome, yRownnz, yRowadr]
      dual_close
    · rcases arenaAlloc_cases c s1 (4 * nefc) 4 with h2 | ⟨p2, s2, h2, hp2, _⟩
      · simp [run, runAct, h1, h2, anyNull, lookup, failExit, runActs, exitOutcome, yRownnz, yRowadr]
        dual_close
      · rcases arenaAlloc_cases c s2 (8 * nY) 8 with h3 | ⟨p3, s3, h3, hp3, _⟩
        · rcases arenaAlloc_cases c s2 (4 * nY) 4 with h4 | ⟨p4, s4, h4, hp4, _⟩
          · simp [run, runAct, h1, h2, h3, h4, anyNull, lookup, deref, failExit, runActs, exitOutcome, yRownnz,
                  yRowadr, yVal, yColind]
            dual_close
          · simp [run, runAct, h1, h2, h3, h4, anyNull, lookup, deref, failExit, runActs, exitOutcome, yRownnz,
                  yRowadr, yVal, yColind]
            dual_close
        · rcases arenaAlloc_cases c s3 (4 * nY) 4 with h4 | ⟨p4, s4, h4, hp4, _⟩
          · simp [run, runAct, h1, h2, h3, h4, anyNull, lookup, deref, failExit, runActs, exitOutcome, yRownnz,
                  yRowadr, yVal, yColind]
            dual_close
          · simp [run, runAct, h1, h2, h3, h4, anyNull, lookup, deref, failExit, runActs, exitOutcome, yRownnz,
                  yRowadr, yVal, yColind]
            dual_close
  · -- makeYDense
    simp only [r, Consumer.prog, makeYDense, dualFail, AllFieldsNull]
    rcases arenaAlloc_cases c d.a (8 * (nefc * nv)) 8 with h1 | ⟨p1, s1, h1, hp1, _⟩
    · simp [run, runAct, h1, anyNull, lookup, failExit, runActs, exitOutcome, yVal]
      dual_close
    · simp [run, runAct, h1, anyNull, lookup, deref, yVal]
      dual_close
  · -- makeARSparse
    simp only [Consumer.params, List.mem_cons, List.not_mem_nil, or_false, forall_eq_or_imp, forall_eq] at hp
    obtain ⟨⟨q1, hq1⟩, ⟨q2, hq2⟩, ⟨q3, hq3⟩, ⟨q4, hq4⟩⟩ := hp
    simp only [yVal, yRownnz, yRowadr, yColind] at hq1 hq2 hq3 hq4
    simp only [r, Consumer.prog, makeARSparse, dualFail, AllFieldsNull]
    rcases arenaAlloc_cases c d.a (4 * nefc) 4 with h1 | ⟨p1, s1, h1, hp1, _⟩
    · simp [run, runAct, h1, anyNull, lookup, deref, failExit, runActs, exitOutcome, yRownnz, yRowadr, yVal,
            yColind, arRownnz, arRowadr, arVal, arColind, hq1, hq2, hq3, hq4]
      dual_close
    · rcases arenaAlloc_cases c s1 (4 * nefc) 4 with h2 | ⟨p2, s2, h2, hp2, _⟩
      · simp [run, runAct, h1, h2, anyNull, lookup, deref, failExit, runActs, exitOutcome, yRownnz, yRowadr, yVal,
              yColind, arRownnz, arRowadr, arVal, arColind, hq1, hq2, hq3, hq4]
        dual_close
      · rcases arenaAlloc_cases c s2 (8 * nA) 8 with h3 | ⟨p3, s3, h3, hp3, _⟩
        · rcases arenaAlloc_cases c s2 (4 * nA) 4 with h4 | ⟨p4, s4, h4, hp4, _⟩
          · simp [run, runAct, h1, h2, h3, h4, anyNull, lookup, deref, failExit, runActs, exitOutcome, yRownnz,
                  yRowadr, yVal, yColind, arRownnz, arRowadr, arVal, arColind, hq1, hq2, hq3, hq4]
            dual_close
          · simp [run, runAct, h1, h2, h3, h4, anyNull, lookup, deref, failExit, runActs, exitOutcome, yRownnz,
                  yRowadr, yVal, yColind, arRownnz, arRowadr, arVal, arColind, hq1, hq2, hq3, hq4]
            dual_close
        · rcases arenaAlloc_cases c s3 (4 * nA) 4 with h4 | ⟨p4, s4, h4, hp4, _⟩
          · simp [run, runAct, h1, h2, h3, h4, anyNull, lookup, deref, failExit, runActs, exitOutcome, yRownnz,
                  yRowadr, yVal, yColind, arRownnz, arRowadr, arVal, arColind, hq1, hq2, hq3, hq4]
            dual_close
          · simp [run, runAct, h1, h2, h3, h4, anyNull, lookup, deref, failExit, runActs, exitOutcome, yRownnz,
                  yRowadr, yVal, yColind, arRownnz, arRowadr, arVal, arColind, hq1, hq2, hq3, hq4]
            dual_close
  · -- makeARDense
    simp only [Consumer.params, List.mem_cons, List.not_mem_nil, or_false, forall_eq] at hp
    obtain ⟨q1, hq1⟩ := hp
    simp only [yVal] at hq1
    simp only [r, Consumer.prog, makeARDense, dualFail, AllFieldsNull]
    rcases arenaAlloc_cases c d.a (8 * (nefc * nefc)) 8 with h1 | ⟨p1, s1, h1, hp1, _⟩
    · simp [run, runAct, h1, anyNull, lookup, failExit, runActs, exitOutcome, arVal]
      dual_close
    · simp [run, runAct, h1, anyNull, lookup, deref, arVal, yVal, hq1]
      dual_close

end MjProof.C20
