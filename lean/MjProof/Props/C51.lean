import MjProof.Lemmas.PidCable
/-
C51 — First-party plugins honour their documented laws.

PID (`plugin/actuator/pid.cc`, model `MjProof/Model/Pid.lean` instantiated at ℝ): theorems for every gain/limit
configuration accepted by `Pid::Create`, every state and every control sequence.
Cable (`plugin/elasticity/cable.cc`): theorems about the kernels *generated from the working tree*
(`MjProof/Gen/CablePlugin.lean`) composed as `Cable::Compute` composes them (`MjProof/Model/Cable.lean`).

The state-tracking theorems (`integral_state_tracks`, `setpoint_state_tracks`, `consecutive_setpoints_slew_bounded`,
`integral_in_imax`) need the engine to advance the plugin's activation slots by the Euler rule (`OwnEuler`:
`dyntype ≠ filterexact`, or an engine whose exact-filter rule is restricted to the native activation).  In the tree
as it stands `mj_nextActivation` advances *all* activations of a filterexact actuator, including the two
plugin-owned ones, with the exact-filter formula, and the slew bound between consecutive steps is then false (the
property oracle of checks/c51.py exhibits concrete inputs).  `integral_in_imax_filterexact` shows what survives
in that case.
-/
namespace MjProof.C51
open MjProof MjProof.Pid

/-! ### PID -/

/-- **force law**: `kp·e + ki·I + kd·ė` with `e = setpoint − length`, `ė = setpoint rate − velocity`
(rate 0 for a stateless actuator) and `I` the clamped running integral `clip(I_prev + e·dt, ±i_max)` -/
theorem force_eq_pid_law (c : Cfg ℝ) (s : St ℝ) (i : In ℝ) :
    let e := getCtrl c s i c.early - i.len
    let ed := (match c.dyn with | .none => (0 : ℝ) | _ => i.nactdot) - i.vel
    force c s i = c.kp * e + c.ki * integralOf c s e + c.kd * ed := by
  simp only [force]
  cases c.dyn <;> simp <;> ring

/-- the integral entering the force is the previous integral plus `e·dt`, clamped to `±i_max` when a clamp is
configured, and is absent when `ki = 0` -/
theorem integral_term_def (c : Cfg ℝ) (s : St ℝ) (e : ℝ) :
    integralOf c s e =
      if c.ki = 0 then 0 else
      match c.imax with
      | some m => clip (s.actI + e * c.dt) (-m) m
      | none => s.actI + e * c.dt := by
  unfold integralOf
  by_cases h : c.ki = 0
  · simp [hasI, h]
  · simp only [hasI, real_beq, real_ofInt, Int.cast_zero, h, decide_false, Bool.not_false, if_true, if_false]
    cases c.imax <;> rfl

/-- the integral used by the force never leaves `[-i_max, i_max]` — for every state, even a corrupted one -/
theorem integral_used_in_imax (c : Cfg ℝ) (s : St ℝ) (e M : ℝ) (hM : c.imax = some M) (h0 : 0 ≤ M) :
    -M ≤ integralOf c s e ∧ integralOf c s e ≤ M :=
  integralOf_mem c s e M hM h0

/-- documented form of the clamp: with the attribute `imax = F ≥ 0` (a force) and `ki > 0`, `Create` stores
`i_max = F/ki` and the force contributed by the I term lies in `[-F, F]` -/
theorem iterm_force_in_imax (kp ki kd F dt tau : ℝ) (slew : Option ℝ) (dyn : Dyn) (early : Bool) (clim : Option (ℝ × ℝ))
    (hki : 0 < ki) (hF : 0 ≤ F) (c : Cfg ℝ) (own : Bool)
    (hc : create? kp ki kd (some F) slew dt dyn tau early clim own = some c)
    (s : St ℝ) (e : ℝ) : |c.ki * integralOf c s e| ≤ F := by
  have hk : (MjNum.beq ki (MjNum.ofInt 0 : ℝ)) = false := by simp [hki.ne']
  have hfields : c.imax = some (F / ki) ∧ c.ki = ki := by
    unfold create? at hc
    simp only [hk, Bool.false_eq_true, if_false] at hc
    split_ifs at hc with hb
    have hc' := Option.some.inj hc
    subst hc'
    exact ⟨rfl, rfl⟩
  obtain ⟨hM, hkc⟩ := hfields
  have hM0 : (0 : ℝ) ≤ F / ki := div_nonneg hF hki.le
  have h := integralOf_mem c s e (F / ki) hM hM0
  rw [hkc, abs_le]
  have e1 : ki * (F / ki) = F := by field_simp
  constructor
  · have := mul_le_mul_of_nonneg_left h.1 hki.le
    rw [mul_neg, e1] at this; exact this
  · have := mul_le_mul_of_nonneg_left h.2 hki.le
    rw [e1] at this; exact this

example : create? (40 : ℝ) 40 4 (some 1) (some 3) (1 / 500) Dyn.none 0 false none =
    some { kp := 40, ki := 40, kd := 4, imax := some (1 / 40), slew := some 3, dt := 1 / 500, dyn := Dyn.none, tau := 0,
           early := false, clim := none, ownExact := true } := by
  simp [create?]

/-- the configuration of the README (kp 40, ki 40, kd 4, slewmax 3, imax 1, 2 ms) satisfies the hypotheses used below:
stateless actuator (so the owned slots are Euler-advanced), positive time step, non-negative limits -/
noncomputable def readmeCfg : Cfg ℝ :=
  { kp := 40, ki := 40, kd := 4, imax := some (1 / 40), slew := some 3, dt := 1 / 500, dyn := Dyn.none, tau := 0,
    early := false, clim := none, ownExact := true }

example : OwnEuler readmeCfg ∧ readmeCfg.imax = some (1 / 40) ∧ (0 : ℝ) ≤ 1 / 40 ∧ readmeCfg.ki ≠ 0 ∧ (0 : ℝ) < readmeCfg.dt ∧
    readmeCfg.slew = some 3 ∧ (0 : ℝ) ≤ 3 := by
  refine ⟨Or.inl (by simp [readmeCfg]), rfl, by norm_num, by simp [readmeCfg], by simp [readmeCfg], rfl, by norm_num⟩

/-- and the clamp really bites: a large error saturates the integral at `i_max` -/
example : integralOf readmeCfg { actI := 0, actP := 0 } 100 = 1 / 40 := by
  simp [integralOf, hasI, readmeCfg, clip]
  norm_num

/-- **slew limit**: whenever a previous setpoint exists (`time > 0`), the setpoint used by the controller is within
`slewmax · timestep` of the stored previous setpoint -/
theorem setpoint_slew_bounded (c : Cfg ℝ) (s : St ℝ) (i : In ℝ) (early : Bool) (r : ℝ) (hr : c.slew = some r)
    (hr0 : 0 ≤ r) (hdt : 0 ≤ c.dt) (ht : 0 < i.time) : |getCtrl c s i early - s.actP| ≤ r * c.dt := by
  unfold getCtrl
  simp only [hr, prevExists]
  have : (MjNum.ofInt 0 : ℝ) < i.time := by simpa using ht
  simp only [this, decide_true, if_true]
  exact clip_abs_sub _ _ _ (mul_nonneg hr0 hdt)

/-- the previous-setpoint slot stores the setpoint just used (Euler-advanced activations, `dt ≠ 0`) -/
theorem setpoint_state_tracks (c : Cfg ℝ) (s : St ℝ) (i : In ℝ) (r : ℝ) (hr : c.slew = some r)
    (hdyn : OwnEuler c) (hdt : c.dt ≠ 0) : (step c s i).next.actP = getCtrl c s i false := by
  simp only [step, hr]
  rw [nextOwn_euler c hdyn]
  exact euler_roundtrip _ _ _ hdt

/-- **slew limit between consecutive steps**: for every state and every two consecutive inputs, the setpoint of
the second step differs from the setpoint of the first by at most `slewmax · timestep` -/
theorem consecutive_setpoints_slew_bounded (c : Cfg ℝ) (s : St ℝ) (i1 i2 : In ℝ) (early : Bool) (r : ℝ)
    (hr : c.slew = some r) (hr0 : 0 ≤ r) (hdyn : OwnEuler c) (hdt : 0 < c.dt) (ht : 0 < i2.time) :
    |getCtrl c (step c s i1).next i2 early - getCtrl c s i1 false| ≤ r * c.dt := by
  rw [← setpoint_state_tracks c s i1 r hr hdyn hdt.ne']
  exact setpoint_slew_bounded c _ i2 early r hr hr0 hdt.le ht

/-- the integral slot stores the clamped running integral just used by `ActDot` (Euler-advanced, `dt ≠ 0`) -/
theorem integral_state_tracks (c : Cfg ℝ) (s : St ℝ) (i : In ℝ) (hki : c.ki ≠ 0)
    (hdyn : OwnEuler c) (hdt : c.dt ≠ 0) :
    (step c s i).next.actI = integralOf c s (getCtrl c s i false - i.len) := by
  have hI : hasI c = true := (hasI_iff c).mpr hki
  simp only [step, hI, if_true]
  rw [nextOwn_euler c hdyn]
  exact euler_roundtrip _ _ _ hdt

/-- **integral clamp as a state invariant**: for every control sequence and every initial state, after each
step the integral activation lies in `[-i_max, i_max]` -/
theorem integral_in_imax (c : Cfg ℝ) (M : ℝ) (hM : c.imax = some M) (h0 : 0 ≤ M) (hki : c.ki ≠ 0)
    (hdyn : OwnEuler c) (hdt : c.dt ≠ 0) (s : St ℝ) (is : List (In ℝ)) :
    ∀ o ∈ runSeq c s is, -M ≤ o.next.actI ∧ o.next.actI ≤ M := by
  induction is generalizing s with
  | nil => simp [runSeq]
  | cons i is ih =>
    intro o ho
    simp only [runSeq, List.mem_cons] at ho
    rcases ho with rfl | ho
    · rw [integral_state_tracks c s i hki hdyn hdt]
      exact integralOf_mem c s _ M hM h0
    · exact ih _ o ho

/-- with dyntype filterexact the engine advances the integral slot by a contraction towards the clamped
integral, so the clamp range is still invariant once the state is inside it (`dt > 0`, `tau ≥ mjMINVAL`) -/
theorem integral_in_imax_filterexact (c : Cfg ℝ) (M : ℝ) (hM : c.imax = some M) (h0 : 0 ≤ M) (hki : c.ki ≠ 0)
    (hdyn : c.dyn = Dyn.filterexact) (hown : c.ownExact = true) (hdt : 0 < c.dt) (s : St ℝ) (i : In ℝ)
    (hs : -M ≤ s.actI ∧ s.actI ≤ M) : -M ≤ (step c s i).next.actI ∧ (step c s i).next.actI ≤ M := by
  have hI : hasI c = true := (hasI_iff c).mpr hki
  obtain ⟨hlo, hhi⟩ := integralOf_mem c s (getCtrl c s i false - i.len) M hM h0
  set I := integralOf c s (getCtrl c s i false - i.len) with hIdef
  simp only [step, hI, if_true, nextOwn, nextAct, hdyn, hown, and_self]
  set tau : ℝ := MjNum.max (MjNum.ofSci 1 true 15) c.tau with htau
  have htau0 : 0 < tau := by
    simp only [htau, MjNum.max]
    split
    · norm_num
    · rename_i h
      have : (0:ℝ) < MjNum.ofSci 1 true 15 := by norm_num
      have h' : ¬ (c.tau < (MjNum.ofSci 1 true 15 : ℝ)) := h
      linarith [not_lt.mp h']
  obtain ⟨k0, k1⟩ := exact_factor_bounds c.dt tau hdt htau0
  have hk : (MjNum.ofInt 1 : ℝ) - MjNum.exp (-c.dt / tau) = 1 - Real.exp (-c.dt / tau) := by simp
  rw [hk]
  set k := tau * (1 - Real.exp (-c.dt / tau)) with hkdef
  have hlam : s.actI + (I - s.actI) / c.dt * tau * (1 - Real.exp (-c.dt / tau)) = s.actI + (I - s.actI) * (k / c.dt) := by
    rw [hkdef]; field_simp
  rw [hlam]
  have l0 : 0 ≤ k / c.dt := div_nonneg k0.le hdt.le
  have l1 : k / c.dt ≤ 1 := (div_le_one hdt).mpr k1
  constructor
  · nlinarith [hs.1, hs.2]
  · nlinarith [hs.1, hs.2]

/-! ### cable -/
open MjProof.Cable MjProof.Gen

/-- a body whose joint quaternion is the identity both in `qpos0` and in `qpos` (the model's reference pose) -/
def AtReference (b : Body ℝ) : Prop := b.q = (1, 0, 0, 0) ∧ b.q0 = (1, 0, 0, 0)

theorem stress_zero_at_reference (b : Body ℝ) (h : AtReference b) :
    stressPull b (omega0Of false true b) = ((0 : ℝ), (0 : ℝ), (0 : ℝ)) ∧
    stressNoPull b (omega0Of false true b) = ((0 : ℝ), (0 : ℝ), (0 : ℝ)) := by
  obtain ⟨hq, hq0⟩ := h
  have hn : stressNoPull b (omega0Of false true b) = ((0 : ℝ), (0 : ℝ), (0 : ℝ)) := by
    simp only [stressNoPull, quatDiff, omega0Of, hq, hq0, Bool.not_false, Bool.and_self, if_true]
    rw [quatDiff_id, subQuat_id, stress_nopull_eq]
    simp
  refine ⟨?_, hn⟩
  simp only [stressPull]
  rw [stress_pull_eq]
  simp only [stressNoPull] at hn
  simp only [hn]
  exact rotVecQuat_zero _ _ _ _

/-- a body whose joint rotation cancels its frame rotation (straight cable), for the `flat` reference -/
def Straight (b : Body ℝ) : Prop := ∃ w : ℝ, 0 < w ∧ quatDiff b = (w, 0, 0, 0)

theorem stress_zero_when_straight (b : Body ℝ) (hp : Bool) (h : Straight b) :
    stressPull b (omega0Of true hp b) = ((0 : ℝ), (0 : ℝ), (0 : ℝ)) ∧
    stressNoPull b (omega0Of true hp b) = ((0 : ℝ), (0 : ℝ), (0 : ℝ)) := by
  obtain ⟨w, hw, hq⟩ := h
  have hn : stressNoPull b (omega0Of true hp b) = ((0 : ℝ), (0 : ℝ), (0 : ℝ)) := by
    simp only [stressNoPull, omega0Of, hq, Bool.not_true, Bool.and_false, Bool.false_eq_true, if_false, zero3]
    rw [stress_nopull_eq, quatVel_straight w hw]
    simp
  refine ⟨?_, hn⟩
  simp only [stressPull]
  rw [stress_pull_eq]
  simp only [stressNoPull] at hn
  simp only [hn]
  exact rotVecQuat_zero _ _ _ _

/-- non-vacuity: frame orientation and joint rotation that cancel (here both the identity) -/
example : Straight { bq := (1, 0, 0, 0), q0 := (1, 0, 0, 0), q := (1, 0, 0, 0), stiff := (3, 2, 2, 0.1), xquat := (1, 0, 0, 0) } :=
  ⟨1, one_pos, by simp [quatDiff, cable_QuatDiff]⟩

/-- the loop of `Cable::Compute` produces only zero stresses and zero torques when every stress it evaluates is zero -/
theorem loopFrom_zero (hasPrev : Bool) (t : Body ℝ × V ℝ × V ℝ) (rest : List (Body ℝ × V ℝ × V ℝ))
    (hs : t.2.2 = ((0 : ℝ), (0 : ℝ), (0 : ℝ)))
    (hp : hasPrev = true → stressPull t.1 t.2.1 = ((0 : ℝ), (0 : ℝ), (0 : ℝ)))
    (hrest : ∀ u ∈ rest, u.2.2 = ((0 : ℝ), (0 : ℝ), (0 : ℝ)) ∧ stressPull u.1 u.2.1 = ((0 : ℝ), (0 : ℝ), (0 : ℝ)) ∧
      stressNoPull u.1 u.2.1 = ((0 : ℝ), (0 : ℝ), (0 : ℝ))) :
    ∀ r ∈ loopFrom hasPrev t rest, r.1 = ((0 : ℝ), (0 : ℝ), (0 : ℝ)) ∧ (r.2 = none ∨ r.2 = some ((0 : ℝ), (0 : ℝ), (0 : ℝ))) := by
  induction rest generalizing hasPrev t with
  | nil =>
    obtain ⟨b, w, s⟩ := t
    simp only at hs hp
    intro r hr
    simp only [loopFrom, List.mem_singleton] at hr
    subst hr
    unfold iteration
    by_cases hsk : skipped b = true
    · simp [hsk, hs]
    · cases hasPrev
      · simp [hsk, hs, zero3, rotVecQuat_zero]
      · simp [hsk, hp rfl, zero3, addScl, rotVecQuat_zero]
  | cons u rest ih =>
    obtain ⟨b, w, s⟩ := t
    obtain ⟨nb, wn, sn⟩ := u
    simp only at hs hp
    have hu := hrest (nb, wn, sn) (List.mem_cons_self)
    simp only at hu
    obtain ⟨hsn, hpn, hnn⟩ := hu
    intro r hr
    simp only [loopFrom, List.mem_cons] at hr
    rcases hr with rfl | hr
    · unfold iteration
      by_cases hsk : skipped b = true
      · simp [hsk, hs]
      · cases hasPrev
        · simp [hsk, hs, hnn, zero3, addScl, rotVecQuat_zero]
        · simp [hsk, hp rfl, hnn, zero3, addScl, rotVecQuat_zero]
    · refine ih true (nb, wn, _) ?_ (fun _ => hpn) (fun v hv => hrest v (List.mem_cons_of_mem _ hv)) r hr
      simp only
      unfold iteration
      by_cases hsk : skipped b = true
      · simp [hsk, hsn]
      · simp [hsk, hnn]

/-- **zero force in the stress-free configuration** (reference = the configuration of the model): with every
joint quaternion at its reference value the cable plugin computes zero stress for every body and applies zero
torque to every body, for every chain, body orientation and stiffness -/
theorem cable_zero_at_reference (bodies : List (Body ℝ)) (h : ∀ b ∈ bodies, AtReference b) :
    ∀ r ∈ compute false bodies, r.1 = ((0 : ℝ), (0 : ℝ), (0 : ℝ)) ∧ (r.2 = none ∨ r.2 = some ((0 : ℝ), (0 : ℝ), (0 : ℝ))) := by
  unfold compute
  cases bodies with
  | nil => simp [prep, loop]
  | cons b bs =>
    simp only [prep, loop]
    apply loopFrom_zero false _ _ (by simp [zero3]) (by simp)
    intro u hu
    -- every later entry is (b', omega0Of false true b', 0) for a body at reference
    have key : ∀ (l : List (Body ℝ)), (∀ b ∈ l, AtReference b) → ∀ u ∈ prep false true l,
        u.2.2 = ((0 : ℝ), (0 : ℝ), (0 : ℝ)) ∧ stressPull u.1 u.2.1 = ((0 : ℝ), (0 : ℝ), (0 : ℝ)) ∧
        stressNoPull u.1 u.2.1 = ((0 : ℝ), (0 : ℝ), (0 : ℝ)) := by
      intro l
      induction l with
      | nil => simp [prep]
      | cons b' l ih =>
        intro hl u hu
        simp only [prep, List.mem_cons] at hu
        rcases hu with rfl | hu
        · have := stress_zero_at_reference b' (hl b' List.mem_cons_self)
          exact ⟨by simp [zero3], this.1, this.2⟩
        · exact ih (fun b hb => hl b (List.mem_cons_of_mem _ hb)) u hu
    exact key bs (fun b' hb' => h b' (List.mem_cons_of_mem _ hb')) u hu

/-- with `flat = true` the stress-free configuration is the straight cable -/
theorem cable_flat_zero_when_straight (bodies : List (Body ℝ)) (h : ∀ b ∈ bodies, Straight b) :
    ∀ r ∈ compute true bodies, r.1 = ((0 : ℝ), (0 : ℝ), (0 : ℝ)) ∧ (r.2 = none ∨ r.2 = some ((0 : ℝ), (0 : ℝ), (0 : ℝ))) := by
  unfold compute
  cases bodies with
  | nil => simp [prep, loop]
  | cons b bs =>
    simp only [prep, loop]
    apply loopFrom_zero false _ _ (by simp [zero3]) (by simp)
    intro u hu
    have key : ∀ (l : List (Body ℝ)), (∀ b ∈ l, Straight b) → ∀ u ∈ prep true true l,
        u.2.2 = ((0 : ℝ), (0 : ℝ), (0 : ℝ)) ∧ stressPull u.1 u.2.1 = ((0 : ℝ), (0 : ℝ), (0 : ℝ)) ∧
        stressNoPull u.1 u.2.1 = ((0 : ℝ), (0 : ℝ), (0 : ℝ)) := by
      intro l
      induction l with
      | nil => simp [prep]
      | cons b' l ih =>
        intro hl u hu
        simp only [prep, List.mem_cons] at hu
        rcases hu with rfl | hu
        · have := stress_zero_when_straight b' true (hl b' List.mem_cons_self)
          exact ⟨by simp [zero3], this.1, this.2⟩
        · exact ih (fun b hb => hl b (List.mem_cons_of_mem _ hb)) u hu
    exact key bs (fun b' hb' => h b' (List.mem_cons_of_mem _ hb')) u hu

/-- non-vacuity: a body with an arbitrary frame orientation and stiffness is at reference when its joint is -/
example : AtReference { bq := (0.5, 0.5, 0.5, 0.5), q0 := (1, 0, 0, 0), q := (1, 0, 0, 0), stiff := (3, 2, 2, 0.1),
                        xquat := (1, 0, 0, 0) } := ⟨rfl, rfl⟩

/-- the stress is *not* identically zero: away from the reference the twist component is `-k0·(ω - ω0)/L` -/
theorem stress_nopull_formula (k0 k1 k2 k3 q0 q1 q2 q3 w0 w1 w2 : ℝ) :
    cable_LocalStress_nopull k0 k1 k2 k3 q0 q1 q2 q3 w0 w1 w2 =
      ((-k0) * ((quatVel q0 q1 q2 q3).1 - w0) / k3, (-k1) * ((quatVel q0 q1 q2 q3).2.1 - w1) / k3,
       (-k2) * ((quatVel q0 q1 q2 q3).2.2 - w2) / k3) :=
  stress_nopull_eq ..

end MjProof.C51
