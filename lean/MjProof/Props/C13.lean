import MjProof.Lemmas.Collide
/-!
# C13 — contacts report true geometry

Theorems over ℝ about the *generated* kernels `MjProof.Gen.mju_makeFrame`, `mjraw_SphereSphere`,
`mjraw_PlaneSphere`, `mjraw_SphereCapsule`, `mju_clampVec3` (regenerated from the C sources of the working
tree on every run), through the uncurrying wrappers of `MjProof.Collide` (`z1`, `z2` are the third columns of
the geoms' orientation matrices, `RawCon` is (return value, dist, normal, pos, tangent)).

All branches of the C code are part of the generated definitions and are handled here: the early `return 0`
outside the margin (the contact record is then left untouched), the coincident-centre fallback normal of
`mjraw_SphereSphere`, the mjMINVAL guard of `mju_normalize3`, `mju_clip`, the "undefined y axis" fallback of
`mju_makeFrame` and its two normalisations.

Reals, not doubles: rounding is outside the proofs (translation validation is bitwise on `Float`, the engine
oracle of `checks/c13.py` uses tolerances).  Not modelled (engine oracle only): capsule–capsule, plane–capsule,
plane–box, plane–cylinder, sphere–cylinder, sphere–box beyond its clamp step, box–box, and the convex
(GJK/EPA) pairs, `mj_geomDistance`.
-/
namespace MjProof.C13
open MjProof MjProof.Gen MjProof.Collide

/-! ### `mju_makeFrame` -/

/-- `mju_makeFrame` raises its error ("xaxis of contact frame undefined") exactly when ‖x‖ < 1/2 -/
theorem makeFrame_err_iff (x y : Vec3) : (makeFrame x y).1 = 1 ↔ norm3 x < 1 / 2 := by
  rw [makeFrame_eq, normalize3_fst]
  show (if norm3 x < 1 / 2 then (1 : Int) else 0) = 1 ↔ norm3 x < 1 / 2
  by_cases h : norm3 x < 1 / 2
  · rw [if_pos h]; exact ⟨fun _ => h, fun _ => rfl⟩
  · rw [if_neg h]; exact ⟨fun e => absurd e (by decide), fun e => absurd e h⟩

/-- whenever no error is raised the first axis is x / ‖x‖, a unit vector -/
theorem makeFrame_first_axis (x y : Vec3) (hx : 1 / 2 ≤ norm3 x) :
    (makeFrame x y).1 = 0 ∧
    row0 (makeFrame x y).2 = (x.1 / norm3 x, x.2.1 / norm3 x, x.2.2 / norm3 x) ∧
    dot3 (row0 (makeFrame x y).2) (row0 (makeFrame x y).2) = 1 := by
  have hm : minval ≤ norm3 x := by
    have : minval < 1 / 2 := by unfold minval; norm_num
    linarith
  have e : row0 (makeFrame x y).2 = (normalize3 x).2 := by rw [makeFrame_eq]; rfl
  refine ⟨?_, ?_, ?_⟩
  · rw [makeFrame_eq, normalize3_fst]
    show (if norm3 x < 1 / 2 then (1 : Int) else 0) = 0
    exact if_neg (not_lt.mpr hx)
  · rw [e, normalize3_snd_of_ge x hm]
  · rw [e]; exact normalize3_snd_unit x

/-- non-vacuity of `makeFrame_first_axis`: a normal of length 1 -/
example : (1 : ℝ) / 2 ≤ norm3 ((0, 0, 1) : Vec3) := by
  have : norm3 ((0, 0, 1) : Vec3) = 1 := by simp [norm3, dot3]
  rw [this]; norm_num

/-- **Orthonormal contact frame.**  For a unit normal `x` (what every collider writes into `frame[0..2]`)
    and a tangent hint `y` that is either "undefined" (‖y‖² < 1/4, in particular the zero vector written by
    the primitive colliders) or has a Gram–Schmidt residual `y − (x·y)x` of length ≥ mjMINVAL, `mju_makeFrame`
    raises no error, keeps `x` as the first axis and completes it to a right-handed orthonormal frame
    (`z = x × y`, determinant 1).  Covers the y-axis fallback ((0,1,0) when |x₁| < 1/2, else (0,0,1)) and the
    mjMINVAL guards of both normalisations. -/
theorem makeFrame_orthonormal (x y : Vec3) (hx : dot3 x x = 1)
    (hy : dot3 y y < 1 / 4 ∨ minval ≤ norm3 (sub3 y (scl3 x (dot3 x y)))) :
    (makeFrame x y).1 = 0 ∧ row0 (makeFrame x y).2 = x ∧ Orthonormal (makeFrame x y).2 ∧
    matDet (makeFrame x y).2 = 1 ∧
    row2 (makeFrame x y).2 = cross3 (row0 (makeFrame x y).2) (row1 (makeFrame x y).2) := by
  have hnx : normalize3 x = (1, x) := normalize3_of_unit x hx
  -- the residual that is normalised into the second axis
  set w : Vec3 := sub3 (frameY x.2.1 y) (scl3 x (dot3 x (frameY x.2.1 y))) with hw
  have hwlen : minval ≤ norm3 w := by
    rcases hy with h | h
    · have h4 := frameY_residual_ge x y hx h
      have : (1 / 2 : ℝ) ≤ norm3 w := by
        unfold norm3
        rw [show (1 / 2 : ℝ) = Real.sqrt (1 / 4) by
          rw [show (1 / 4 : ℝ) = (1 / 2) ^ 2 by norm_num, Real.sqrt_sq (by norm_num)]]
        exact Real.sqrt_le_sqrt h4
      have : minval < 1 / 2 := by unfold minval; norm_num
      linarith
    · by_cases c : dot3 y y < 1 / 4
      · have h4 := frameY_residual_ge x y hx c
        have : (1 / 2 : ℝ) ≤ norm3 w := by
          unfold norm3
          rw [show (1 / 2 : ℝ) = Real.sqrt (1 / 4) by
            rw [show (1 / 4 : ℝ) = (1 / 2) ^ 2 by norm_num, Real.sqrt_sq (by norm_num)]]
          exact Real.sqrt_le_sqrt h4
        have : minval < 1 / 2 := by unfold minval; norm_num
        linarith
      · have : frameY x.2.1 y = y := by simp only [frameY, if_neg c]
        rw [hw, this]; exact h
  have hF : makeFrame x y =
      (0, x.1, x.2.1, x.2.2, (normalize3 w).2.1, (normalize3 w).2.2.1, (normalize3 w).2.2.2,
        cross3 x (normalize3 w).2) := by
    rw [makeFrame_eq, hnx]
    have : ¬ ((1 : ℝ) < 1 / 2) := by norm_num
    simp only [this, if_false]
    rfl
  have hYu : dot3 (normalize3 w).2 (normalize3 w).2 = 1 := normalize3_snd_unit w
  have hpos : 0 < norm3 w := lt_of_lt_of_le minval_pos hwlen
  have hXY : dot3 x (normalize3 w).2 = 0 := by
    rw [normalize3_snd_of_ge w hwlen]
    have hxw : dot3 x w = 0 := by
      rw [hw]
      obtain ⟨x0, x1, x2⟩ := x
      generalize frameY (x0, x1, x2).2.1 y = f
      obtain ⟨f0, f1, f2⟩ := f
      simp only [dot3, sub3, scl3] at hx ⊢
      linear_combination (-(x0 * f0 + x1 * f1 + x2 * f2)) * hx
    obtain ⟨x0, x1, x2⟩ := x
    obtain ⟨w0, w1, w2⟩ := w
    simp only [dot3] at hxw ⊢
    have hne : norm3 (w0, w1, w2) ≠ 0 := ne_of_gt hpos
    field_simp
    linarith
  obtain ⟨hZ, hXZ, hYZ, hdet⟩ := frame_of_orthonormal_pair x (normalize3 w).2 hx hYu hXY
  rw [hF]
  refine ⟨rfl, rfl, ⟨hx, hYu, hZ, hXY, hXZ, hYZ⟩, hdet, rfl⟩

/-- non-vacuity: the z-up normal with the zero tangent written by the primitive colliders -/
example : dot3 ((0, 0, 1) : Vec3) (0, 0, 1) = 1 ∧ dot3 ((0, 0, 0) : Vec3) (0, 0, 0) < 1 / 4 := by
  constructor <;> norm_num [dot3]

/-- the case used by every translated collider (tangent = 0): a unit normal always yields an orthonormal,
    right-handed frame whose first axis is the normal -/
theorem makeFrame_zero_tangent (x : Vec3) (hx : dot3 x x = 1) :
    (makeFrame x (0, 0, 0)).1 = 0 ∧ row0 (makeFrame x (0, 0, 0)).2 = x ∧
    Orthonormal (makeFrame x (0, 0, 0)).2 ∧ matDet (makeFrame x (0, 0, 0)).2 = 1 := by
  have h := makeFrame_orthonormal x (0, 0, 0) hx (Or.inl (by norm_num [dot3]))
  exact ⟨h.1, h.2.1, h.2.2.1, h.2.2.2.1⟩

/-- The Gram–Schmidt hypothesis of `makeFrame_orthonormal` cannot be dropped: a tangent hint parallel to
    the normal makes `mju_normalize3` fall back to (1,0,0), which is not orthogonal to a tilted normal.
    (Reachable in the engine only from `mjc_PlaneCapsule`, which passes the capsule axis as the hint:
    a capsule standing exactly along the normal of a plane that is tilted about the y axis.) -/
theorem makeFrame_parallel_hint_not_orthonormal :
    ¬ Orthonormal (makeFrame ((3 / 5, 0, 4 / 5) : Vec3) (3 / 5, 0, 4 / 5)).2 := by
  have hx : dot3 ((3 / 5, 0, 4 / 5) : Vec3) (3 / 5, 0, 4 / 5) = 1 := by norm_num [dot3]
  have hf : frameY ((3 / 5, 0, 4 / 5) : Vec3).2.1 (3 / 5, 0, 4 / 5) = (3 / 5, 0, 4 / 5) := by
    have : ¬ (dot3 ((3 / 5, 0, 4 / 5) : Vec3) (3 / 5, 0, 4 / 5) < 1 / 4) := by rw [hx]; norm_num
    simp only [frameY, if_neg this]
  have hw : sub3 ((3 / 5, 0, 4 / 5) : Vec3) (scl3 (3 / 5, 0, 4 / 5) (dot3 ((3 / 5, 0, 4 / 5) : Vec3) (3 / 5, 0, 4 / 5)))
      = (0, 0, 0) := by
    rw [hx]; simp [sub3, scl3]
  have hn : (normalize3 ((0, 0, 0) : Vec3)).2 = (1, 0, 0) :=
    normalize3_snd_of_lt _ (by simp [norm3, dot3, minval_pos])
  intro h
  have h01 := h.2.2.2.1
  rw [makeFrame_eq, normalize3_of_unit _ hx] at h01
  simp only [hf, hw, hn] at h01
  norm_num [row0, row1, dot3] at h01

/-! ### sphere : sphere (`mjraw_SphereSphere`) -/

section SphereSphere
variable (con : PreCon) (margin : ℝ) (c1 z1 : Vec3) (r1 : ℝ) (c2 z2 : Vec3) (r2 : ℝ)

theorem sphereSphere_ret_cases :
    (sphereSphere con margin c1 z1 r1 c2 z2 r2).ret = 0 ∨ (sphereSphere con margin c1 z1 r1 c2 z2 r2).ret = 1 := by
  rw [sphereSphere_eq]; split_ifs <;> simp

/-- no contact is returned iff ‖c2 − c1‖² > (margin + r1 + r2)² -/
theorem sphereSphere_ret_zero_iff :
    (sphereSphere con margin c1 z1 r1 c2 z2 r2).ret = 0 ↔
      (margin + r1 + r2) ^ 2 < dot3 (sub3 c2 c1) (sub3 c2 c1) := by
  rw [sphereSphere_eq, dot3_sub_comm c1 c2, sq]; split_ifs with h <;> simp [h]

/-- on the early-return path the contact record is left untouched -/
theorem sphereSphere_unchanged (h : (sphereSphere con margin c1 z1 r1 c2 z2 r2).ret = 0) :
    sphereSphere con margin c1 z1 r1 c2 z2 r2 = con.unchanged := by
  rw [sphereSphere_eq] at h ⊢; split_ifs at h ⊢ with c
  · rfl
  · simp at h

/-- **dist is the true signed distance** of the two spheres: ‖c2 − c1‖ − r1 − r2 -/
theorem sphereSphere_dist (h : (sphereSphere con margin c1 z1 r1 c2 z2 r2).ret = 1) :
    (sphereSphere con margin c1 z1 r1 c2 z2 r2).dist = dist3 c2 c1 - r1 - r2 := by
  rw [sphereSphere_eq] at h ⊢; split_ifs at h ⊢ with c
  · simp at h
  · simp [dist3, norm3, dot3_sub_comm c2 c1]

/-- a returned contact is within the margin (for the non-negative `margin + r1 + r2` of any valid model:
    the C code compares squares) -/
theorem sphereSphere_dist_le_margin (hm : 0 ≤ margin + r1 + r2)
    (h : (sphereSphere con margin c1 z1 r1 c2 z2 r2).ret = 1) :
    (sphereSphere con margin c1 z1 r1 c2 z2 r2).dist ≤ margin := by
  rw [sphereSphere_eq] at h ⊢; split_ifs at h ⊢ with c
  · simp at h
  · simp only [mkCon_dist]
    have hle : dot3 (sub3 c1 c2) (sub3 c1 c2) ≤ (margin + r1 + r2) ^ 2 := by rw [sq]; exact not_lt.mp c
    have := (Real.sqrt_le_left hm).mpr hle
    linarith

/-- completeness of the margin test: a contact is returned exactly when the true distance is ≤ margin -/
theorem sphereSphere_ret_one_iff (hm : 0 ≤ margin + r1 + r2) :
    (sphereSphere con margin c1 z1 r1 c2 z2 r2).ret = 1 ↔ dist3 c2 c1 - r1 - r2 ≤ margin := by
  rw [sphereSphere_eq, dist3, norm3, dot3_sub_comm c2 c1]
  split_ifs with c
  · simp only [unchanged_ret, zero_ne_one, false_iff, not_le]
    have := (Real.lt_sqrt hm).mpr (by rw [sq]; exact c)
    linarith
  · simp only [mkCon_ret, true_iff]
    have hle : dot3 (sub3 c1 c2) (sub3 c1 c2) ≤ (margin + r1 + r2) ^ 2 := by rw [sq]; exact not_lt.mp c
    have := (Real.sqrt_le_left hm).mpr hle
    linarith

/-- the normal is a unit vector in *every* case (also for coincident centres, where it is the normalised
    cross product of the z axes or (1,0,0)) -/
theorem sphereSphere_normal_unit (h : (sphereSphere con margin c1 z1 r1 c2 z2 r2).ret = 1) :
    dot3 (sphereSphere con margin c1 z1 r1 c2 z2 r2).normal (sphereSphere con margin c1 z1 r1 c2 z2 r2).normal = 1 := by
  rw [sphereSphere_eq] at h ⊢; split_ifs at h ⊢ with c
  · simp at h
  · simp only [mkCon_normal, ssNormal]
    split_ifs <;> exact normalize3_snd_unit _

/-- **the normal is (c2 − c1)/‖c2 − c1‖** when the centres are not within mjMINVAL -/
theorem sphereSphere_normal (h : (sphereSphere con margin c1 z1 r1 c2 z2 r2).ret = 1)
    (hd : minval ≤ dist3 c2 c1) :
    (sphereSphere con margin c1 z1 r1 c2 z2 r2).normal =
      ((c2.1 - c1.1) / dist3 c2 c1, (c2.2.1 - c1.2.1) / dist3 c2 c1, (c2.2.2 - c1.2.2) / dist3 c2 c1) := by
  rw [sphereSphere_eq] at h ⊢; split_ifs at h ⊢ with c
  · simp at h
  · have hd' : minval ≤ norm3 (sub3 c2 c1) := hd
    simp only [mkCon_normal, ssNormal, normalize3_fst]
    rw [if_neg (not_lt.mpr hd'), normalize3_snd_of_ge _ hd']; rfl

/-- **the normal points from geom 1 to geom 2**: n · (c2 − c1) = ‖c2 − c1‖ > 0 -/
theorem sphereSphere_normal_direction (h : (sphereSphere con margin c1 z1 r1 c2 z2 r2).ret = 1)
    (hd : minval ≤ dist3 c2 c1) :
    dot3 (sphereSphere con margin c1 z1 r1 c2 z2 r2).normal (sub3 c2 c1) = dist3 c2 c1 ∧ 0 < dist3 c2 c1 := by
  have hpos : 0 < dist3 c2 c1 := lt_of_lt_of_le minval_pos hd
  refine ⟨?_, hpos⟩
  rw [sphereSphere_normal con margin c1 z1 r1 c2 z2 r2 h hd]
  have hsq : dist3 c2 c1 * dist3 c2 c1 = dot3 (sub3 c2 c1) (sub3 c2 c1) := norm3_sq _
  obtain ⟨a0, a1, a2⟩ := c1; obtain ⟨b0, b1, b2⟩ := c2
  simp only [dot3, sub3] at hsq ⊢
  have hne : dist3 (b0, b1, b2) (a0, a1, a2) ≠ 0 := ne_of_gt hpos
  field_simp
  linarith

/-- degenerate case: centres within mjMINVAL ⇒ the normal is the normalised cross product of the z axes -/
theorem sphereSphere_normal_degenerate (h : (sphereSphere con margin c1 z1 r1 c2 z2 r2).ret = 1)
    (hd : dist3 c2 c1 < minval) :
    (sphereSphere con margin c1 z1 r1 c2 z2 r2).normal = (normalize3 (cross3 z1 z2)).2 := by
  rw [sphereSphere_eq] at h ⊢; split_ifs at h ⊢ with c
  · simp at h
  · have hd' : norm3 (sub3 c2 c1) < minval := hd
    simp only [mkCon_normal, ssNormal, normalize3_fst]
    rw [if_pos hd']

/-- the contact position is c1 + n·(r1 + dist/2) -/
theorem sphereSphere_pos (h : (sphereSphere con margin c1 z1 r1 c2 z2 r2).ret = 1) :
    (sphereSphere con margin c1 z1 r1 c2 z2 r2).pos =
      add3 (scl3 (sphereSphere con margin c1 z1 r1 c2 z2 r2).normal
        (r1 + (sphereSphere con margin c1 z1 r1 c2 z2 r2).dist / 2)) c1 := by
  rw [sphereSphere_eq] at h ⊢; split_ifs at h ⊢ with c
  · simp at h
  · simp

/-- **the position lies between the two surfaces**: with s1 = c1 + n·r1 (on sphere 1) and s2 = c2 − n·r2
    (on sphere 2), the contact position is their midpoint and s2 − s1 = n·dist, so pos ∓ n·dist/2 are the two
    surface points -/
theorem sphereSphere_pos_midpoint (h : (sphereSphere con margin c1 z1 r1 c2 z2 r2).ret = 1)
    (hd : minval ≤ dist3 c2 c1) :
    let n := (sphereSphere con margin c1 z1 r1 c2 z2 r2).normal
    let s1 := add3 c1 (scl3 n r1)
    let s2 := sub3 c2 (scl3 n r2)
    (sphereSphere con margin c1 z1 r1 c2 z2 r2).pos = scl3 (add3 s1 s2) (1 / 2) ∧
    sub3 s2 s1 = scl3 n (sphereSphere con margin c1 z1 r1 c2 z2 r2).dist := by
  have hpos : 0 < dist3 c2 c1 := lt_of_lt_of_le minval_pos hd
  have hne : dist3 c2 c1 ≠ 0 := ne_of_gt hpos
  intro n s1 s2
  have hn : n = ((c2.1 - c1.1) / dist3 c2 c1, (c2.2.1 - c1.2.1) / dist3 c2 c1, (c2.2.2 - c1.2.2) / dist3 c2 c1) :=
    sphereSphere_normal con margin c1 z1 r1 c2 z2 r2 h hd
  have hdist := sphereSphere_dist con margin c1 z1 r1 c2 z2 r2 h
  have hp := sphereSphere_pos con margin c1 z1 r1 c2 z2 r2 h
  rw [hp, hdist]
  simp only [s1, s2]
  change add3 (scl3 n _) c1 = scl3 (add3 (add3 c1 (scl3 n r1)) (sub3 c2 (scl3 n r2))) (1 / 2) ∧
    sub3 (sub3 c2 (scl3 n r2)) (add3 c1 (scl3 n r1)) = scl3 n _
  rw [hn]
  generalize dist3 c2 c1 = D at hne ⊢
  obtain ⟨a0, a1, a2⟩ := c1; obtain ⟨b0, b1, b2⟩ := c2
  simp only [add3, scl3, sub3, Prod.mk.injEq]
  refine ⟨⟨?_, ?_, ?_⟩, ⟨?_, ?_, ?_⟩⟩ <;> field_simp <;> ring

/-- non-vacuity: two unit spheres at distance 1.5 along x with margin 0 penetrate by 0.5 and a contact is returned -/
example (con : PreCon) (z1 z2 : Vec3) :
    (sphereSphere con 0 (0, 0, 0) z1 1 (3 / 2, 0, 0) z2 1).ret = 1 := by
  rw [sphereSphere_eq]; norm_num [dot3, sub3]

example : minval ≤ dist3 ((3 / 2, 0, 0) : Vec3) (0, 0, 0) := by
  have : dist3 ((3 / 2, 0, 0) : Vec3) (0, 0, 0) = 3 / 2 := by
    simp only [dist3, norm3, dot3, sub3]
    rw [show ((3:ℝ) / 2 - 0) * (3 / 2 - 0) + (0 - 0) * (0 - 0) + (0 - 0) * (0 - 0) = (3 / 2) ^ 2 by ring,
      Real.sqrt_sq (by norm_num)]
  rw [this]; unfold minval; norm_num

end SphereSphere

/-! ### plane : sphere (`mjraw_PlaneSphere`) -/

section PlaneSphere
variable (con : PreCon) (margin : ℝ) (p1 n c2 : Vec3) (r2 : ℝ)

/-- no contact iff the signed height of the centre above the plane exceeds margin + r -/
theorem planeSphere_ret_zero_iff :
    (planeSphere con margin p1 n c2 r2).ret = 0 ↔ margin + r2 < dot3 (sub3 c2 p1) n := by
  rw [planeSphere_eq]; split_ifs with h <;> simp [h, RawCon.ret, mkCon]

/-- the normal written is always the plane normal (third column of the plane's matrix) -/
theorem planeSphere_normal : (planeSphere con margin p1 n c2 r2).normal = n := by
  rw [planeSphere_eq]; split_ifs <;> rfl

/-- **dist = (c − p)·n − r**, within the margin, position midway between the sphere's lowest point and the plane -/
theorem planeSphere_contact (h : (planeSphere con margin p1 n c2 r2).ret = 1) :
    (planeSphere con margin p1 n c2 r2).dist = dot3 (sub3 c2 p1) n - r2 ∧
    (planeSphere con margin p1 n c2 r2).dist ≤ margin ∧
    (planeSphere con margin p1 n c2 r2).pos =
      sub3 c2 (scl3 n (r2 + (planeSphere con margin p1 n c2 r2).dist / 2)) ∧
    (planeSphere con margin p1 n c2 r2).tangent = (0, 0, 0) := by
  rw [planeSphere_eq] at h ⊢; split_ifs at h ⊢ with c
  · simp [RawCon.ret] at h
  · refine ⟨by simp, by simp only [mkCon_dist]; linarith [not_lt.mp c], ?_, by simp⟩
    simp only [mkCon_pos, mkCon_dist]
    generalize dot3 (sub3 c2 p1) n = d
    obtain ⟨a0, a1, a2⟩ := c2; obtain ⟨n0, n1, n2⟩ := n
    simp only [add3, sub3, scl3, Prod.mk.injEq]
    refine ⟨?_, ?_, ?_⟩ <;> ring

/-- **the position lies between the surfaces** (unit plane normal): with s2 = c − n·r the lowest point of
    the sphere and s1 = c − n·((c − p)·n) its foot on the plane, pos is their midpoint, s1 is on the plane and
    s2 − s1 = n·dist -/
theorem planeSphere_pos_midpoint (hn : dot3 n n = 1) (h : (planeSphere con margin p1 n c2 r2).ret = 1) :
    let s1 := sub3 c2 (scl3 n (dot3 (sub3 c2 p1) n))
    let s2 := sub3 c2 (scl3 n r2)
    (planeSphere con margin p1 n c2 r2).pos = scl3 (add3 s1 s2) (1 / 2) ∧
    dot3 (sub3 s1 p1) n = 0 ∧
    sub3 s2 s1 = scl3 n (planeSphere con margin p1 n c2 r2).dist := by
  obtain ⟨hd, -, hp, -⟩ := planeSphere_contact con margin p1 n c2 r2 h
  intro s1 s2
  rw [hp, hd]
  simp only [s1, s2]
  obtain ⟨a0, a1, a2⟩ := c2; obtain ⟨n0, n1, n2⟩ := n; obtain ⟨p0, p1', p2⟩ := p1
  simp only [dot3, add3, sub3, scl3, Prod.mk.injEq] at hn ⊢
  refine ⟨⟨by ring, by ring, by ring⟩, ?_, ⟨by ring, by ring, by ring⟩⟩
  linear_combination (-((a0 - p0) * n0 + (a1 - p1') * n1 + (a2 - p2) * n2)) * hn

/-- **(c − p)·n is the true signed distance of the centre from the plane** (unit normal): no point q of the
    plane is closer to c than |(c − p)·n| -/
theorem plane_distance_is_min (hn : dot3 n n = 1) (q : Vec3) (hq : dot3 (sub3 q p1) n = 0) :
    (dot3 (sub3 c2 p1) n) ^ 2 ≤ dot3 (sub3 c2 q) (sub3 c2 q) := by
  obtain ⟨a0, a1, a2⟩ := c2; obtain ⟨n0, n1, n2⟩ := n; obtain ⟨p0, p1', p2⟩ := p1; obtain ⟨q0, q1, q2⟩ := q
  simp only [dot3, sub3] at hn hq ⊢
  -- (c − p)·n = (c − q)·n, then Cauchy–Schwarz with |n| = 1
  have e : (a0 - p0) * n0 + (a1 - p1') * n1 + (a2 - p2) * n2
      = (a0 - q0) * n0 + (a1 - q1) * n1 + (a2 - q2) * n2 := by linear_combination hq
  rw [e]
  nlinarith [sq_nonneg ((a0 - q0) * n1 - (a1 - q1) * n0), sq_nonneg ((a0 - q0) * n2 - (a2 - q2) * n0),
    sq_nonneg ((a1 - q1) * n2 - (a2 - q2) * n1)]

/-- non-vacuity: unit sphere resting 0.9 above the z = 0 plane, margin 0 -/
example (con : PreCon) :
    (planeSphere con 0 (0, 0, 0) (0, 0, 1) (0, 0, 9 / 10) 1).ret = 1 ∧ dot3 ((0, 0, 1) : Vec3) (0, 0, 1) = 1 := by
  rw [planeSphere_eq]; norm_num [dot3, sub3]

end PlaneSphere

/-! ### sphere : capsule (`mjraw_SphereCapsule`) -/

section SphereCapsule
variable (con : PreCon) (margin : ℝ) (c1 z1 : Vec3) (r1 : ℝ) (p2 a : Vec3) (r2 len : ℝ)

/-- `mjraw_SphereCapsule` is the sphere–sphere test against the sphere of radius `r2` centred at the
    clamped projection of the sphere centre on the capsule axis; all `sphereSphere_*` theorems transfer -/
theorem sphereCapsule_eq_sphereSphere :
    sphereCapsule con margin c1 z1 r1 p2 a r2 len =
      sphereSphere con margin c1 z1 r1 (capsulePoint c1 p2 a len) a r2 :=
  sphereCapsule_eq con margin c1 z1 r1 p2 a r2 len

/-- the selected point is p2 + a·t with t ∈ [−len, len]: a point of the capsule's segment -/
theorem capsulePoint_on_segment (hl : 0 ≤ len) :
    ∃ t, -len ≤ t ∧ t ≤ len ∧ capsulePoint c1 p2 a len = add3 (scl3 a t) p2 :=
  ⟨clip (dot3 a (sub3 c1 p2)) (-len) len, (clip_mem _ _ _ (by linarith)).1, (clip_mem _ _ _ (by linarith)).2, rfl⟩

/-- **clamping the projection minimises the distance over the segment** (unit axis): no point p2 + a·t,
    t ∈ [−len, len], is closer to the sphere centre than the selected one -/
theorem capsulePoint_nearest (ha : dot3 a a = 1) (t : ℝ) (ht : -len ≤ t ∧ t ≤ len) :
    dot3 (sub3 c1 (capsulePoint c1 p2 a len)) (sub3 c1 (capsulePoint c1 p2 a len)) ≤
      dot3 (sub3 c1 (add3 (scl3 a t) p2)) (sub3 c1 (add3 (scl3 a t) p2)) := by
  have key := clip_nearest (dot3 a (sub3 c1 p2)) (-len) len t ht
  unfold capsulePoint
  generalize clip (dot3 a (sub3 c1 p2)) (-len) len = x at key ⊢
  obtain ⟨c0, c1', c2⟩ := c1; obtain ⟨p0, p1, p2'⟩ := p2; obtain ⟨a0, a1, a2⟩ := a
  simp only [dot3, sub3, add3, scl3] at ha key ⊢
  -- |c − p − a s|² = |c − p|² − 2 s (a·(c−p)) + s² for unit a, so the difference is (x−m)² − (t−m)²
  have h2 : (a0 * a0 + a1 * a1 + a2 * a2) * (x * x - t * t) = x * x - t * t := by rw [ha]; ring
  linarith [key, h2]

/-- **dist is the true signed distance between the sphere and the capsule**: it equals
    ‖c1 − q‖ − r1 − r2 at the selected point q and no point of the segment gives a smaller value -/
theorem sphereCapsule_dist (ha : dot3 a a = 1)
    (h : (sphereCapsule con margin c1 z1 r1 p2 a r2 len).ret = 1) :
    (sphereCapsule con margin c1 z1 r1 p2 a r2 len).dist = dist3 (capsulePoint c1 p2 a len) c1 - r1 - r2 ∧
    ∀ t, -len ≤ t ∧ t ≤ len →
      (sphereCapsule con margin c1 z1 r1 p2 a r2 len).dist ≤ dist3 (add3 (scl3 a t) p2) c1 - r1 - r2 := by
  rw [sphereCapsule_eq] at h ⊢
  have hd := sphereSphere_dist con margin c1 z1 r1 (capsulePoint c1 p2 a len) a r2 h
  refine ⟨hd, fun t ht => ?_⟩
  rw [hd]
  have := capsulePoint_nearest c1 p2 a len ha t ht
  have hs : dist3 (capsulePoint c1 p2 a len) c1 ≤ dist3 (add3 (scl3 a t) p2) c1 := by
    rw [dist3_comm _ c1, dist3_comm _ c1]
    exact Real.sqrt_le_sqrt this
  linarith

/-- within the margin, unit normal, position rule: inherited from the sphere–sphere theorems -/
theorem sphereCapsule_contact (hm : 0 ≤ margin + r1 + r2)
    (h : (sphereCapsule con margin c1 z1 r1 p2 a r2 len).ret = 1) :
    (sphereCapsule con margin c1 z1 r1 p2 a r2 len).dist ≤ margin ∧
    dot3 (sphereCapsule con margin c1 z1 r1 p2 a r2 len).normal
      (sphereCapsule con margin c1 z1 r1 p2 a r2 len).normal = 1 ∧
    (sphereCapsule con margin c1 z1 r1 p2 a r2 len).pos =
      add3 (scl3 (sphereCapsule con margin c1 z1 r1 p2 a r2 len).normal
        (r1 + (sphereCapsule con margin c1 z1 r1 p2 a r2 len).dist / 2)) c1 := by
  rw [sphereCapsule_eq] at h ⊢
  exact ⟨sphereSphere_dist_le_margin con margin c1 z1 r1 _ a r2 hm h,
    sphereSphere_normal_unit con margin c1 z1 r1 _ a r2 h, sphereSphere_pos con margin c1 z1 r1 _ a r2 h⟩

/-- the normal points from the sphere to the nearest point of the capsule's segment -/
theorem sphereCapsule_normal (h : (sphereCapsule con margin c1 z1 r1 p2 a r2 len).ret = 1)
    (hd : minval ≤ dist3 (capsulePoint c1 p2 a len) c1) :
    dot3 (sphereCapsule con margin c1 z1 r1 p2 a r2 len).normal (sub3 (capsulePoint c1 p2 a len) c1) =
      dist3 (capsulePoint c1 p2 a len) c1 := by
  rw [sphereCapsule_eq] at h ⊢
  exact (sphereSphere_normal_direction con margin c1 z1 r1 _ a r2 h hd).1

/-- non-vacuity: sphere of radius 1/2 at height 1 above the middle of a horizontal capsule (radius 1/2, half-length 1) -/
example (con : PreCon) (z1 : Vec3) :
    (sphereCapsule con 0 (0, 0, 1) z1 (1 / 2) (0, 0, 0) (1, 0, 0) (1 / 2) 1).ret = 1 ∧
    dot3 ((1, 0, 0) : Vec3) (1, 0, 0) = 1 := by
  rw [sphereCapsule_eq, sphereSphere_eq]
  have : capsulePoint ((0, 0, 1) : Vec3) (0, 0, 0) (1, 0, 0) 1 = (0, 0, 0) := by
    norm_num [capsulePoint, clip_eq, dot3, sub3, add3, scl3]
  rw [this]; norm_num [dot3, sub3]

end SphereCapsule

/-! ### `mju_clampVec` with n = 3 (closest point of a box, the first step of `mjraw_SphereBox`) -/

/-- for positive half-sizes the clamped vector lies in the box and is its point nearest to `v` -/
theorem clampVec3_nearest (v lim w : Vec3) (hl : 0 < lim.1 ∧ 0 < lim.2.1 ∧ 0 < lim.2.2)
    (hw : (-lim.1 ≤ w.1 ∧ w.1 ≤ lim.1) ∧ (-lim.2.1 ≤ w.2.1 ∧ w.2.1 ≤ lim.2.1) ∧ (-lim.2.2 ≤ w.2.2 ∧ w.2.2 ≤ lim.2.2)) :
    ((-lim.1 ≤ (clampVec3 v lim).1 ∧ (clampVec3 v lim).1 ≤ lim.1) ∧
     (-lim.2.1 ≤ (clampVec3 v lim).2.1 ∧ (clampVec3 v lim).2.1 ≤ lim.2.1) ∧
     (-lim.2.2 ≤ (clampVec3 v lim).2.2 ∧ (clampVec3 v lim).2.2 ≤ lim.2.2)) ∧
    dot3 (sub3 (clampVec3 v lim) v) (sub3 (clampVec3 v lim) v) ≤ dot3 (sub3 w v) (sub3 w v) := by
  obtain ⟨v0, v1, v2⟩ := v; obtain ⟨l0, l1, l2⟩ := lim; obtain ⟨w0, w1, w2⟩ := w
  obtain ⟨h0, h1, h2⟩ := hl
  obtain ⟨hw0, hw1, hw2⟩ := hw
  simp only at h0 h1 h2 hw0 hw1 hw2
  rw [clampVec3_eq]
  simp only [h0, h1, h2, if_true, dot3, sub3]
  refine ⟨⟨clip_mem _ _ _ (by linarith), clip_mem _ _ _ (by linarith), clip_mem _ _ _ (by linarith)⟩, ?_⟩
  have k0 := clip_nearest v0 (-l0) l0 w0 hw0
  have k1 := clip_nearest v1 (-l1) l1 w1 hw1
  have k2 := clip_nearest v2 (-l2) l2 w2 hw2
  linarith

example : (0 : ℝ) < 1 ∧ (0 : ℝ) < 2 ∧ (0 : ℝ) < 3 := by norm_num

/-- a non-positive limit disables the clamp for that coordinate (the `limit[i] > 0` guard) -/
theorem clampVec3_inactive (v lim : Vec3) (h : lim.1 ≤ 0 ∧ lim.2.1 ≤ 0 ∧ lim.2.2 ≤ 0) : clampVec3 v lim = v := by
  obtain ⟨v0, v1, v2⟩ := v; obtain ⟨l0, l1, l2⟩ := lim
  obtain ⟨h0, h1, h2⟩ := h
  simp only at h0 h1 h2
  rw [clampVec3_eq]
  simp [not_lt.mpr h0, not_lt.mpr h1, not_lt.mpr h2]

end MjProof.C13
