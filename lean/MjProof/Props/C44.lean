import MjProof.Lemmas.MjxState
import MjProof.Props.C26
/-
C44  MJX batching, compilation and data transfer are transparent — the state-API clause
("get_state and set_state round-trip for every state signature consistently with the C state API").

Property theorems only (generic part).  Model of the Python functions: `MjProof/Model/MjxState.lean`
(`state_size`, `get_state`, `set_state` of `mjx/_src/io.py` as they are written: unbounded `spec`,
two's-complement bit test, whole-array flatten / replace, the size guard of `set_state`).
All statements are for an arbitrary table, arbitrary model sizes, arbitrary data and an ARBITRARY
integer `spec`; the table regenerated from the MJX sources is shown to satisfy the hypotheses, and to
agree with the table regenerated from the C sources, in `Props/C44Gen.lean`.

NOT covered by any theorem here (oracle only, see checks/c44.py): `jax.jit` / `jax.vmap` equal eager
evaluation (a statement about JAX's tracing semantics), `put_data`/`get_data` round trip, `make_data`
versus `put_data` of a fresh `MjData`.
-/
namespace MjProof.C44
open List MjProof.State MjProof.MjxState

section
variable {σ φ α : Type} [DecidableEq φ] {t : Table σ φ} {sz : σ}

/-- `e` is an element whose bit is set in the low `mjNSTATE` bits of the two's complement of `spec`
    (what Python's `element & spec_int` tests) -/
def MjxSel (t : Table σ φ) (spec : Int) (e : Elem σ φ) : Prop :=
  e ∈ t.elems ∧ (specNat t.nstate spec).testBit e.bit = true

/-- the field `set_state` treats as a scalar has size 1 -/
def ScalarOK (t : Table σ φ) (sz : σ) (scalar : φ → Bool) : Prop :=
  ∀ e, e ∈ t.elems → scalar e.field = true → e.size sz = 1

private theorem not_ge_of_lt {a b : Int} (h : a < b) : ¬ a ≥ b := by omega

private theorem c_checkSig_mod (t : Table σ φ) (spec : Int) :
    checkSig t (spec % 2 ^ t.nstate) = .ok (specNat t.nstate spec) := by
  obtain ⟨h0, h1⟩ := mod_range t.nstate spec
  rw [C26.checkSig_of_range h0 h1]
  rfl

/-! ### the Python functions against the C-model functions on the same table -/

/-- **`get_state` = `mj_getState`** (as modelled) for every non-negative `spec`, error branch
    `spec ≥ 2^mjNSTATE` included (ValueError on one side, `mju_error` on the other). -/
theorem mjx_get_state_eq_model (hwf : WF t) {d : Data φ α} (hd : Shaped t sz d) {spec : Int}
    (h0 : 0 ≤ spec) : MjxState.getState t d spec = liftE (State.getState t sz d spec) := by
  unfold MjxState.getState State.getState
  by_cases hr : spec ≥ 2 ^ t.nstate
  · have hc : checkSig t spec = .error .sigRange := by
      unfold checkSig
      have : ¬ spec < 0 := by omega
      simp [this, hr]
    simp only [hr, ↓reduceIte, hc]
    rfl
  · have hlt : spec < 2 ^ t.nstate := by omega
    rw [C26.checkSig_of_range h0 hlt, specNat_of_range h0 hlt]
    simp only [hr, ↓reduceIte]
    exact getLoop_eq hwf hd _ _

/-- **`state_size` = `mj_stateSize`** (as modelled) for every `spec` in `[0, 2^mjNSTATE)`.
    (Outside that range the C function raises `mju_error`; `state_size` has no guard: see
    `mjx_spec_mod`.) -/
theorem mjx_state_size_eq_model {spec : Int} (h0 : 0 ≤ spec) (h1 : spec < 2 ^ t.nstate) :
    MjxState.stateSize t sz spec = liftE (State.stateSize t sz spec) := by
  unfold MjxState.stateSize State.stateSize MjxState.sizeLoop
  rw [C26.checkSig_of_range h0 h1, specNat_of_range h0 h1]
  rfl

/-- **`set_state` = `mj_setState`** (as modelled) for every non-negative `spec`, when the vector has
    the length `mj_stateSize` reports (the precondition of the C function; `set_state` checks it,
    see `mjx_set_state_size_guard`). -/
theorem mjx_set_state_eq_model (hwf : WF t) {scalar : φ → Bool} (hsc : ScalarOK t sz scalar)
    (cast : α → α) {d : Data φ α} (hd : Shaped t sz d) {spec : Int} (h0 : 0 ≤ spec) {st : List α}
    (hlen : spec < 2 ^ t.nstate → State.stateSize t sz spec = .ok st.length) :
    MjxState.setState t sz scalar cast st spec d = liftE (State.setState t sz cast st spec d) := by
  unfold MjxState.setState State.setState
  by_cases hr : spec ≥ 2 ^ t.nstate
  · have hc : checkSig t spec = .error .sigRange := by
      unfold checkSig
      have : ¬ spec < 0 := by omega
      simp [this, hr]
    simp only [hr, ↓reduceIte, hc]
    rfl
  · have hlt : spec < 2 ^ t.nstate := by omega
    have hsz := hlen hlt
    have hs := mjx_state_size_eq_model (sz := sz) h0 hlt
    rw [hsz] at hs
    unfold State.stateSize at hsz
    rw [C26.checkSig_of_range h0 hlt] at hsz ⊢
    simp only [hr, ↓reduceIte, hs]
    show (if st.length ≠ st.length then _ else _) = _
    simp only [ne_eq, not_true_eq_false, ↓reduceIte]
    rw [specNat_of_range h0 hlt]
    exact setLoop_eq hwf scalar cast hsc _ _ st d hd hsz

/-! ### what a negative or oversized `spec` means in Python -/

/-- `state_size` depends only on the low `mjNSTATE` bits of `spec` (no guard at all), and so do
    `get_state` / `set_state` below `2^mjNSTATE` — in particular a negative `spec` is served (with
    its two's-complement bits), where the C API raises `mju_error`. -/
theorem mjx_spec_mod (scalar : φ → Bool) (cast : α → α) (d : Data φ α) (st : List α) (spec : Int) :
    MjxState.stateSize t sz spec = MjxState.stateSize t sz (spec % 2 ^ t.nstate)
    ∧ (spec < 2 ^ t.nstate →
        MjxState.getState t d spec = MjxState.getState t d (spec % 2 ^ t.nstate)
        ∧ MjxState.setState t sz scalar cast st spec d
            = MjxState.setState t sz scalar cast st (spec % 2 ^ t.nstate) d) := by
  have hm := (mod_range t.nstate spec).2
  refine ⟨?_, fun hlt => ⟨?_, ?_⟩⟩
  · unfold MjxState.stateSize; rw [specNat_mod]
  · unfold MjxState.getState
    simp only [not_ge_of_lt hlt, not_ge_of_lt hm, ↓reduceIte, specNat_mod]
  · unfold MjxState.setState MjxState.stateSize
    simp only [not_ge_of_lt hlt, not_ge_of_lt hm, ↓reduceIte, specNat_mod]

/-- `spec ≥ 2^mjNSTATE`: `get_state` and `set_state` raise ValueError -/
theorem mjx_spec_too_large (scalar : φ → Bool) (cast : α → α) (d : Data φ α) (st : List α) {spec : Int}
    (h : spec ≥ 2 ^ t.nstate) :
    MjxState.getState t d spec = .error .specRange
    ∧ MjxState.setState t sz scalar cast st spec d = .error .specRange := by
  unfold MjxState.getState MjxState.setState
  simp only [h, ↓reduceIte, and_self]

/-! ### the C26 theorems, transferred to the Python functions (every `spec < 2^mjNSTATE`) -/

private theorem get_to_c (hwf : WF t) {d : Data φ α} (hd : Shaped t sz d) {spec : Int}
    (hlt : spec < 2 ^ t.nstate) :
    MjxState.getState t d spec = liftE (State.getState t sz d (spec % 2 ^ t.nstate)) := by
  rw [(mjx_spec_mod (sz := sz) (fun _ => false) id d [] spec).2 hlt |>.1]
  exact mjx_get_state_eq_model hwf hd (mod_range _ _).1

private theorem liftE_ok_inv {β : Type} {x : Except Err β} {v : β} (h : liftE x = .ok v) : x = .ok v := by
  cases x with
  | ok w => cases h; rfl
  | error e => cases h

/-- **`state_size` equals the length of what `get_state` returns** — as an equation between the
    two outcomes, so both raise for exactly the same `spec`. -/
theorem mjx_size_eq_length_get_state (hwf : WF t) {d : Data φ α} (hd : Shaped t sz d) {spec : Int}
    (hlt : spec < 2 ^ t.nstate) :
    MjxState.stateSize t sz spec = (MjxState.getState t d spec).map List.length := by
  rw [get_to_c hwf hd hlt, (mjx_spec_mod (sz := sz) (fun _ => false) id d [] spec).1,
    mjx_state_size_eq_model (mod_range _ _).1 (mod_range _ _).2,
    C26.size_eq_length_getState hwf hd]
  cases State.getState t sz d (spec % 2 ^ t.nstate) <;> rfl

/-- **`set_state` after `get_state`**: writing the vector read from `d` into any `d'` succeeds, makes
    every selected component equal to that of `d`, and leaves every other field of `d'` as it was. -/
theorem mjx_set_get_id (hwf : WF t) {scalar : φ → Bool} (hsc : ScalarOK t sz scalar) (cast : α → α)
    {d d' : Data φ α} (hd : Shaped t sz d) (hd' : Shaped t sz d') (hbool : BoolOK t cast d)
    {spec : Int} (hlt : spec < 2 ^ t.nstate) {v : List α} (hg : MjxState.getState t d spec = .ok v) :
    ∃ d'', MjxState.setState t sz scalar cast v spec d' = .ok d'' ∧
      (∀ e, MjxSel t spec e → d'' e.field = d e.field) ∧
      (∀ f, (∀ e, MjxSel t spec e → e.field ≠ f) → d'' f = d' f) := by
  obtain ⟨h0, h1⟩ := mod_range t.nstate spec
  rw [get_to_c hwf hd hlt] at hg
  have hg' := liftE_ok_inv hg
  obtain ⟨d'', hset, hsel, hfr⟩ := C26.set_get_id hwf cast hd hd' hbool _ hg'
  have hsize := C26.size_eq_length_getState_ok hwf hd _ hg'
  have hmjx := mjx_set_state_eq_model hwf hsc cast hd' h0 (st := v) (fun _ => hsize)
  rw [hset] at hmjx
  have hnat : (spec % 2 ^ t.nstate).toNat = specNat t.nstate spec := rfl
  refine ⟨d'', ?_, ?_, ?_⟩
  · rw [(mjx_spec_mod (sz := sz) scalar cast d' v spec).2 hlt |>.2]; exact hmjx
  · intro e ⟨he, hb⟩
    exact hsel e ⟨he, by rw [hnat]; exact hb⟩
  · intro f hf
    refine hfr f (fun e ⟨he, hb⟩ => hf e ⟨he, ?_⟩)
    rw [hnat] at hb; exact hb

/-- **frame of `set_state`** (any vector): when it succeeds, every field that is not the field of a
    selected component is untouched — in particular every `mjx.Data` field outside the table — and,
    for a well-formed table, every component whose bit is not selected. -/
theorem mjx_set_state_frame (hwf : WF t) {scalar : φ → Bool} (hsc : ScalarOK t sz scalar) (cast : α → α)
    {d d' : Data φ α} (hd : Shaped t sz d) {spec : Int} (hlt : spec < 2 ^ t.nstate) {st : List α}
    (h : MjxState.setState t sz scalar cast st spec d = .ok d') :
    (∀ f, (∀ e, MjxSel t spec e → e.field ≠ f) → d' f = d f) ∧
    (∀ e, e ∈ t.elems → (specNat t.nstate spec).testBit e.bit = false → d' e.field = d e.field) := by
  obtain ⟨h0, h1⟩ := mod_range t.nstate spec
  rw [(mjx_spec_mod (sz := sz) scalar cast d st spec).2 hlt |>.2] at h
  -- the size guard passed, so the vector has the reported length
  have hlen : State.stateSize t sz (spec % 2 ^ t.nstate) = .ok st.length := by
    have hs := mjx_state_size_eq_model (sz := sz) h0 h1
    unfold MjxState.setState at h
    simp only [not_ge_of_lt h1, ↓reduceIte] at h
    cases hx : State.stateSize t sz (spec % 2 ^ t.nstate) with
    | error x => rw [hx] at hs; rw [hs] at h; cases h
    | ok n =>
      rw [hx] at hs; rw [hs] at h
      by_cases hn : st.length = n
      · rw [hn]
      · exfalso
        have : (Except.error (PyErr.sizeMismatch st.length n) : Except PyErr (Data φ α)) = .ok d' := by
          simpa only [liftE_ok, ne_eq, hn, not_false_eq_true, ↓reduceIte, bind, Except.bind] using h
        cases this
  rw [mjx_set_state_eq_model hwf hsc cast hd h0 (fun _ => hlen)] at h
  obtain ⟨hf1, hf2⟩ := C26.get_set_frame cast st _ (liftE_ok_inv h)
  have hnat : (spec % 2 ^ t.nstate).toNat = specNat t.nstate spec := rfl
  refine ⟨fun f hf => hf1 f (fun e ⟨he, hb⟩ => hf e ⟨he, by rw [← hnat]; exact hb⟩), ?_⟩
  intro e he hb
  exact hf2 hwf e he (by rw [hnat]; exact hb)

/-- **the size guard of `set_state`**: a vector whose length differs from `state_size(m, spec)` is
    rejected with ValueError, nothing is written. -/
theorem mjx_set_state_size_guard (scalar : φ → Bool) (cast : α → α) (d : Data φ α) {spec : Int}
    (hlt : spec < 2 ^ t.nstate) {st : List α} {n : Nat} (hs : MjxState.stateSize t sz spec = .ok n)
    (hne : st.length ≠ n) :
    MjxState.setState t sz scalar cast st spec d = .error (.sizeMismatch st.length n) := by
  unfold MjxState.setState
  simp only [not_ge_of_lt hlt, ↓reduceIte, hs]
  show (if st.length ≠ n then _ else _) = _
  simp only [ne_eq, hne, not_false_eq_true, ↓reduceIte]

/-- for a well-formed table and shaped data every `spec < 2^mjNSTATE` is served -/
theorem mjx_get_state_total (hwf : WF t) {d : Data φ α} (hd : Shaped t sz d) {spec : Int}
    (hlt : spec < 2 ^ t.nstate) : ∃ v, MjxState.getState t d spec = .ok v := by
  obtain ⟨h0, h1⟩ := mod_range t.nstate spec
  obtain ⟨v, hv⟩ := C26.getState_total hwf hd _ h0 h1
  exact ⟨v, by rw [get_to_c hwf hd hlt, hv]; rfl⟩

end

/-! ### non-vacuity on the hand-made table of `Props/C26.lean` -/

open C26 in
example : ScalarOK exTable exSz (fun f => decide (f = .t)) := by
  intro e he hs
  simp only [exTable, SymTable.toTable, exSym, List.map_cons, List.map_nil, List.mem_cons,
    List.not_mem_nil, or_false] at he
  rcases he with rfl | rfl | rfl | rfl <;> simp [SymElem.toElem] at hs ⊢
  rfl
/-- spec `-6` has the low bits `1010`: the same elements as spec `10` -/
example : MjxState.getState C26.exTable C26.exD (-6) = .ok [10, 11, 1, 0, 1] := by rfl
example : MjxState.stateSize C26.exTable C26.exSz (-6) = .ok 5 := by rfl
example : MjxState.getState C26.exTable C26.exD 16 = .error .specRange := by rfl
/-- `state_size` has no guard: spec 16+10 is served like 10 -/
example : MjxState.stateSize C26.exTable C26.exSz 26 = .ok 5 := by rfl
example : (MjxState.setState C26.exTable C26.exSz (fun f => decide (f = .t)) C26.castInt [10, 11, 1, 0, 7] 10 C26.exD'
    >>= fun d => MjxState.getState C26.exTable d 15) = .ok [5, 10, 11, 5, 5, 5, 5, 5, 5, 1, 0, 1] := by rfl
example : MjxState.setState C26.exTable C26.exSz (fun f => decide (f = .t)) C26.castInt [1, 2] 10 C26.exD'
    = .error (.sizeMismatch 2 5) := by rfl

end MjProof.C44
