/-
C04  Staged and split pipeline calls equal the monolithic call (DESIGN.md §5.C04).

Same programs, footprints and semantics as Props/C01.lean.  Two programs are compared through the
normaliser `Prog.simp`, which resolves the guards decided by the assumed model constants, drops the
atoms that only write diagnostics (timers, warning counters) and the scopes that no longer matter, and
whose meaning-preservation up to the diagnostics group is `Prog.simp_sim`; the normal forms are compared
by the kernel (`decide +kernel`).  Everything holds for every interpretation of the stages respecting
the footprint table, every remaining guard valuation, every loop fuel.

What the analysis SURFACED (each is tested on the real engine by checks/c04.py):
* `mj_step` raises an error for models with passive flex contacts outside the effective-metric gate
  (`flex_has_passive_contact(m) && !mj_flexCG(m)`), `mj_step1`/`mj_step2` do not check: the theorems assume
  `flex_has_passive_contact(m)` false;
* `mj_step1` calls `mjcb_control` whenever it is installed, `mj_forwardSkip` only when actuation is enabled:
  the theorems are stated without a control callback (`Pipeline.known`);
* input edits between the halves commute with `mj_step1` only when no auto-reset is triggered (a reset in
  `mj_checkPos` / `mj_checkVel` overwrites ctrl / applied forces): `step_with_input_edits` assumes a finite
  state;
* with sleeping enabled `mj_kinematics` (first half) reads qvel and the applied forces
  (doc "Notes on sleeping: violated assumptions"): `step1_reads_inputs_when_sleeping`.
-/
import MjProof.Lemmas.Flow
import MjProof.Model.Pipeline
import MjProof.Props.C01

namespace MjProof.C04
open MjProof.Prog MjProof.Footprint MjProof.Pipeline Grp

/-- every group is in `Grp.all` -/
theorem mem_all (g : Grp) : g ∈ Grp.all := by cases g <;> decide

/-- the groups the comparison is "up to": diagnostics -/
def E : List Grp := [diag]

/-- no passive flex contact outside the effective-metric gate (otherwise mj_forwardSkip raises an error) -/
def noFlexError : List (String × Bool) := [("flex_has_passive_contact(m)", false)]

/-- the state is finite: mj_checkPos / mj_checkVel find nothing (no warning, no auto-reset) -/
def finiteState : List (String × Bool) := [("mju_isBad(qpos[i])", false), ("mju_isBad(d->qvel[i])", false)]

def nf (c : Cfg) (p : Prog) : Prog := simp (ctx c.sleeping) E (known c) [] p
def ok (c : Cfg) (p : Prog) : Bool := simpOK (ctx c.sleeping) E (known c) [] p

section Generic
variable {V : Type}

/-- two programs with the same normal form mean the same up to diagnostics -/
theorem same_nf (c : Cfg) (p q : Prog) (hnf : nf c p = nf c q) (hp : ok c p = true) (hq : ok c q = true)
    (fuel : Nat) (M : MEnv) (S : Sem (Grp → V)) (hK : Extends M S (known c))
    (hRp : Respects (ctx c.sleeping) S p) (hRq : Respects (ctx c.sleeping) S q)
    (d d' : Grp → V) (h : AgreeOff E d d') :
    (run fuel M S [] p d).1 = (run fuel M S [] q d').1 ∧
    AgreeOff E (run fuel M S [] p d).2 (run fuel M S [] q d').2 := by
  have h1 := simp_sim (C := ctx c.sleeping) (K := known c) fuel hK E p [] [] (EnvLe.refl _) hRp hp d d h0
  have h2 := simp_sim (C := ctx c.sleeping) (K := known c) fuel hK E q [] [] (EnvLe.refl _) hRq hq d' d (fun g hg => (h g hg).symm)
  unfold nf at hnf
  rw [hnf] at h1
  refine ⟨h1.1.trans h2.1.symm, ?_⟩
  intro g hg
  exact (h1.2 g hg).trans (h2.2 g hg).symm
where h0 : AgreeOff E d d := fun _ _ => rfl

end Generic

/-! ### mj_step = mj_step1 ; mj_step2 -/

/-- the configurations of the split-step theorem: integrator ∈ {Euler, implicit, implicitfast} (the switch of
    mj_step and the `if` of mj_step2 are resolved consistently: `Pipeline.known` gives the scrutinee's label
    and the two comparisons of mj_step2 the values that integrator implies), no control callback, no
    passive-flex error -/
def splitCfg (i : String) : Cfg := { integrator := some i, extra := noFlexError }

def splitIntegrators : List String := ["mjINT_EULER", "mjINT_IMPLICIT", "mjINT_IMPLICITFAST"]

/-- the kernel-checked fact: same normal form, side conditions of the normaliser hold -/
theorem split_normal_forms :
    splitIntegrators.all (fun i =>
      decide (nf (splitCfg i) mjStep = nf (splitCfg i) (.seq mjStep1 mjStep2)) &&
      ok (splitCfg i) mjStep && ok (splitCfg i) (.seq mjStep1 mjStep2)) = true := by decide +kernel

/-- RK4 is excluded exactly as the property excludes it: there the normal forms differ (mj_step2 integrates
    with Euler) -/
theorem split_fails_for_RK4 :
    nf (splitCfg "mjINT_RK4") mjStep ≠ nf (splitCfg "mjINT_RK4") (.seq mjStep1 mjStep2) := by decide +kernel

section Split
variable {V : Type}

/-- **mj_step = mj_step1 ; mj_step2** for Euler / implicit / implicitfast: for every interpretation respecting
    the footprints and every constant environment consistent with the configuration, the monolithic call and the
    two halves in sequence end the same way with the same data outside the diagnostics. -/
theorem step_eq_step1_step2 (i : String) (hi : i ∈ splitIntegrators)
    (fuel : Nat) (M : MEnv) (S : Sem (Grp → V)) (hK : Extends M S (known (splitCfg i)))
    (hR : Respects (ctx false) S mjStep) (hR1 : Respects (ctx false) S mjStep1) (hR2 : Respects (ctx false) S mjStep2)
    (d : Grp → V) :
    (run fuel M S [] mjStep d).1 = (run fuel M S [] (.seq mjStep1 mjStep2) d).1 ∧
    AgreeOff E (run fuel M S [] mjStep d).2 (run fuel M S [] (.seq mjStep1 mjStep2) d).2 := by
  have hall := List.all_eq_true.mp split_normal_forms i hi
  simp only [Bool.and_eq_true, decide_eq_true_eq] at hall
  exact same_nf (splitCfg i) mjStep (.seq mjStep1 mjStep2) hall.1.1 hall.1.2 hall.2 fuel M S hK hR ⟨hR1, hR2⟩ d d
    (fun _ _ => rfl)

/-- spelled out: when the first half falls through with data `e`, the monolithic call equals the second half
    run on `e` -/
theorem step_eq_step2_after_step1 (i : String) (hi : i ∈ splitIntegrators)
    (fuel : Nat) (M : MEnv) (S : Sem (Grp → V)) (hK : Extends M S (known (splitCfg i)))
    (hR : Respects (ctx false) S mjStep) (hR1 : Respects (ctx false) S mjStep1) (hR2 : Respects (ctx false) S mjStep2)
    (d e : Grp → V) (h1 : run fuel M S [] mjStep1 d = (.norm, e)) :
    (run fuel M S [] mjStep d).1 = (run fuel M S [] mjStep2 e).1 ∧
    AgreeOff E (run fuel M S [] mjStep d).2 (run fuel M S [] mjStep2 e).2 := by
  have h := step_eq_step1_step2 i hi fuel M S hK hR hR1 hR2 d
  rw [run_seq_norm fuel M S h1] at h
  exact h

/-- the consistency hypothesis is satisfiable: Euler -/
example : Extends (D := Grp → Nat)
    { mconst := fun s => ((known (splitCfg "mjINT_EULER")).mconst s).getD false,
      label := fun s => ((known (splitCfg "mjINT_EULER")).label s).getD "" }
    { atom := fun _ d => d, guard := fun s _ => ((known (splitCfg "mjINT_EULER")).data s).getD true }
    (known (splitCfg "mjINT_EULER")) := by
  refine ⟨?_, ?_, ?_⟩
  · intro s b h; show Option.getD _ _ = b; rw [h]; rfl
  · intro s l h; show Option.getD _ _ = l; rw [h]; rfl
  · intro s b h d; show Option.getD _ _ = b; rw [h]; rfl

/-! ### controls and applied forces set between the halves -/

/-- the inputs the user may set between mj_step1 and mj_step2 -/
def inputGroups : List Grp := [ctrl, qfrc_applied, xfrc_applied]

/-- overwrite the input groups with the values `v` -/
def setInputs (v d : Grp → V) : Grp → V := fun g => if g ∈ inputGroups then v g else d g

def editCfg (i : String) : Cfg := { integrator := some i, extra := noFlexError ++ finiteState }

/-- kernel-checked: under a finite state the first half neither reads nor writes ctrl / qfrc_applied /
    xfrc_applied -/
theorem step1_ignores_inputs :
    splitIntegrators.all (fun i =>
      (analyze (editCfg i) mjStep1).bad.isEmpty &&
      disjoint (analyze (editCfg i) mjStep1).rbw inputGroups &&
      disjoint (analyze (editCfg i) mjStep1).may inputGroups &&
      decide (nf (editCfg i) mjStep = nf (editCfg i) (.seq mjStep1 mjStep2)) &&
      ok (editCfg i) mjStep && ok (editCfg i) (.seq mjStep1 mjStep2)) = true := by decide +kernel

/-- SURFACED: without the finite-state assumption the first half may write the inputs (auto-reset) -/
theorem step1_may_reset_inputs : ctrl ∈ (analyze (splitCfg "mjINT_EULER") mjStep1).may := by decide +kernel

/-- SURFACED: with sleeping enabled the first half reads qvel-independent inputs too: the applied forces -/
theorem step1_reads_inputs_when_sleeping :
    xfrc_applied ∈ (analyze { sleeping := true, integrator := some "mjINT_EULER", extra := noFlexError ++ finiteState } mjStep1).rbw ∧
    qfrc_applied ∈ (analyze { sleeping := true, integrator := some "mjINT_EULER", extra := noFlexError ++ finiteState } mjStep1).rbw := by
  decide +kernel

/-- **mj_step with the new inputs = mj_step1 ; set inputs ; mj_step2** (Euler / implicit / implicitfast, finite
    state, no sleeping): setting ctrl / qfrc_applied / xfrc_applied before the monolithic call gives the same
    result as setting them between the halves. -/
theorem step_with_input_edits (i : String) (hi : i ∈ splitIntegrators)
    (fuel : Nat) (M : MEnv) (S : Sem (Grp → V)) (hK : Extends M S (known (editCfg i)))
    (hR : Respects (ctx false) S mjStep) (hR1 : Respects (ctx false) S mjStep1) (hR2 : Respects (ctx false) S mjStep2)
    (v d e : Grp → V) (h1 : run fuel M S [] mjStep1 d = (.norm, e)) :
    (run fuel M S [] mjStep (setInputs v d)).1 = (run fuel M S [] mjStep2 (setInputs v e)).1 ∧
    AgreeOff E (run fuel M S [] mjStep (setInputs v d)).2 (run fuel M S [] mjStep2 (setInputs v e)).2 := by
  have hall := List.all_eq_true.mp step1_ignores_inputs i hi
  simp only [Bool.and_eq_true, decide_eq_true_eq, List.isEmpty_iff] at hall
  obtain ⟨⟨⟨⟨⟨hbad, hrbw⟩, hmay⟩, hnf⟩, hok1⟩, hok2⟩ := hall
  -- monolithic = halves in sequence, on the edited data
  have hs := same_nf (editCfg i) mjStep (.seq mjStep1 mjStep2) hnf hok1 hok2 fuel M S hK hR ⟨hR1, hR2⟩
    (setInputs v d) (setInputs v d) (fun _ _ => rfl)
  -- the first half does not see the edit
  let I := diff Grp.all inputGroups
  have hag : Agree I (setInputs v d) d := by
    intro g hg
    have : g ∉ inputGroups := (mem_diff.mp hg).2
    simp [setInputs, this]
  have hI : ∀ g, g ∈ (analyze (editCfg i) mjStep1).rbw → g ∈ I := by
    intro g hg
    exact mem_diff.mpr ⟨mem_all g, disjoint_iff.mp hrbw g hg⟩
  have hni := abs_sound (C := ctx false) (K := known (editCfg i)) fuel hK mjStep1 [] [] (EnvLe.refl _) hR1 hbad I hI
    (setInputs v d) d hag
  have hout : (run fuel M S [] mjStep1 (setInputs v d)).1 = .norm := by rw [hni.out, h1]
  have hdata : (run fuel M S [] mjStep1 (setInputs v d)).2 = setInputs v e := by
    funext g
    by_cases hg : g ∈ inputGroups
    · have hfr := frame_sound (C := ctx false) (K := known (editCfg i)) fuel hK mjStep1 [] [] (EnvLe.refl _) hR1 hbad g
        (fun hm => disjoint_iff.mp hmay g hm hg) (setInputs v d)
      rw [hfr]; simp [setInputs, hg]
    · have := hni.agree g (mem_diff.mpr ⟨mem_all g, hg⟩)
      rw [this, h1]; simp [setInputs, hg]
  have e1 : run fuel M S [] mjStep1 (setInputs v d) = (.norm, setInputs v e) := by
    rw [← hdata, ← hout]
  rw [run_seq_norm fuel M S e1] at hs
  exact hs

end Split

/-! ### mj_forward does not change the state it reads; repeated calls are idempotent -/

theorem forward_writes_no_state :
    (analyze {} mjForward).bad = [] ∧ disjoint stateGroups (analyze {} mjForward).may = true ∧
    disjoint (analyze {} mjForward).rbw (analyze {} mjForward).may = true := by decide +kernel

section Forward
variable {V : Type}

/-- **mj_forward never changes the state it reads**: every integration-state group has the same value after
    the call (no sleeping; the control callback is outside the model). -/
theorem forward_preserves_state (fuel : Nat) (M : MEnv) (S : Sem (Grp → V)) (hK : Extends M S (known {}))
    (hR : Respects (ctx false) S mjForward) (d : Grp → V) (g : Grp) (hg : g ∈ stateGroups) :
    (run fuel M S [] mjForward d).2 g = d g :=
  frame_sound (C := ctx false) (K := known {}) fuel hK mjForward [] [] (EnvLe.refl _) hR forward_writes_no_state.1 g
    (disjoint_iff.mp forward_writes_no_state.2.1 g hg) d

/-- **repeated mj_forward is idempotent** on the state and on every output group — in the footprint model this
    needs no assumption on warm-starting, because the warm-start acceleration is integration state that only
    the integrators write. -/
theorem forward_idempotent (fuel : Nat) (M : MEnv) (S : Sem (Grp → V)) (hK : Extends M S (known {}))
    (hR : Respects (ctx false) S mjForward) (d0 d1 : Grp → V) (h1 : run fuel M S [] mjForward d0 = (.norm, d1)) :
    (run fuel M S [] mjForward d1).1 = .norm ∧
    Agree (stateGroups ++ C01.forwardOutputs) (run fuel M S [] mjForward d1).2 d1 := by
  obtain ⟨hbad, _, hdis⟩ := forward_writes_no_state
  -- d1 agrees with d0 on the inputs
  have hag : Agree (analyze {} mjForward).rbw d1 d0 := by
    intro g hg
    have := frame_sound (C := ctx false) (K := known {}) fuel hK mjForward [] [] (EnvLe.refl _) hR hbad g
      (disjoint_iff.mp hdis g hg) d0
    rw [h1] at this; exact this
  have hni := abs_sound (C := ctx false) (K := known {}) fuel hK mjForward [] [] (EnvLe.refl _) hR hbad _ (fun _ h => h)
    d1 d0 hag
  have hout : (run fuel M S [] mjForward d1).1 = .norm := by rw [hni.out, h1]
  refine ⟨hout, ?_⟩
  obtain ⟨k, hk, hagk⟩ := hni.norm hout
  rw [h1] at hagk
  obtain ⟨k0, hk0, hsub⟩ := C01.forward_determines_outputs
  have hkk : k0 = k := Option.some.inj (hk0.symm.trans hk)
  subst hkk
  intro g hg
  rcases List.mem_append.mp hg with hs | ho
  · exact frame_sound (C := ctx false) (K := known {}) fuel hK mjForward [] [] (EnvLe.refl _) hR hbad g
      (disjoint_iff.mp forward_writes_no_state.2.1 g hs) d1
  · exact hagk g (subset_iff.mp hsub g ho)

/-- the property's clause, as a corollary: with warm-starting disabled (or not) repeated calls are idempotent -/
theorem forward_idempotent_nowarm (fuel : Nat) (M : MEnv) (S : Sem (Grp → V)) (hK : Extends M S (known {}))
    (_hnowarm : M.mconst "mjDISABLED(mjDSBL_WARMSTART)" = true)
    (hR : Respects (ctx false) S mjForward) (d0 d1 : Grp → V) (h1 : run fuel M S [] mjForward d0 = (.norm, d1)) :
    (run fuel M S [] mjForward d1).1 = .norm ∧
    Agree stateGroups (run fuel M S [] mjForward d1).2 d1 := by
  have h := forward_idempotent fuel M S hK hR d0 d1 h1
  exact ⟨h.1, h.2.mono (fun g hg => List.mem_append.mpr (Or.inl hg))⟩

end Forward

/-! ### mj_forwardSkip -/

def skipCfg : Cfg := { extra := noFlexError }

/-- normal form of the full call `mj_forwardSkip(mjSTAGE_NONE, skipsensor)` -/
def fsF (sk : Int) : Prog := nf skipCfg (mjForwardSkip 0 sk)
/-- normal form of the skipping call = the rest `R` -/
def fsR (ss sk : Int) : Prog := nf skipCfg (mjForwardSkip ss sk)
/-- the skipped prefix `P` (so that the full call is `P ; R`) -/
def fsP (ss sk : Int) : Prog := (stripSuffix (fsF sk) (fsR ss sk)).getD .skip

/-- the output groups claimed for a skipping call -/
def skipOutputs : List Grp :=
  stateGroups ++ [pos, ePos, sensPos, vel, subtreevel, eVel, sensVel, actuation, smooth, cfrc, efc_force, csol, efc_b,
    Grp.qacc, rnepost, sensAcc]

/-- groups the skipped stages only partially rewrite -/
def fsJ (ss sk : Int) : List Grp :=
  diff (abs (ctx false) (known skipCfg) [] (fsP ss sk)).may ((abs (ctx false) (known skipCfg) [] (fsP ss sk)).killN.getD [])

def fsI (ss sk : Int) : List Grp := diff Grp.all (uni (fsJ ss sk) E)

/-- all side conditions of the replay argument, for one (skipstage, skipsensor) -/
def fsCond (ss sk : Int) : Bool :=
  let aP := abs (ctx false) (known skipCfg) [] (fsP ss sk)
  let aR := abs (ctx false) (known skipCfg) [] (fsR ss sk)
  decide (stripSuffix (fsF sk) (fsR ss sk) = some (fsP ss sk)) &&
  ok skipCfg (mjForwardSkip 0 sk) && ok skipCfg (mjForwardSkip ss sk) &&
  aP.bad.isEmpty && aR.bad.isEmpty && aP.killN.isSome && aR.killN.isSome &&
  disjoint aP.rbw (uni aP.may aR.may) &&
  disjoint (aP.killN.getD []) aR.may &&
  subset aR.rbw (fsI ss sk) &&
  skipOutputs.all (fun g => decide (g ∈ fsI ss sk ∨ g ∈ aR.killN.getD []))

/-- (skipstage, skipsensor): POS with / without sensors, VEL without sensors.  `_partial`: (VEL, sensors on) is
    not covered — there the acceleration stage may lazily upgrade the subtree-velocity cache that the skipped
    velocity stage resets, which this replay argument cannot see through; that case is decided by the oracle only. -/
def skipCases : List (Int × Int) := [(1, 0), (1, 1), (2, 1)]

theorem forwardSkip_conditions : skipCases.all (fun c => fsCond c.1 c.2) = true := by decide +kernel

section Skip
variable {V : Type}

/-- **mj_forwardSkip(stage, s) = mj_forwardSkip(mjSTAGE_NONE, s)** when the inputs of the skipped stages are
    unchanged since the last full call: `d1` is what the full call left behind (from any `d0`); then the
    skipping call (stage = POS or VEL, s = 0 or 1) and a second full call on `d1` end the same way and agree on
    the state and on every output group (lazily evaluated caches as flag + cache). -/
theorem forwardSkip_eq_partial (ss sk : Int) (hc : (ss, sk) ∈ skipCases)
    (fuel : Nat) (M : MEnv) (S : Sem (Grp → V)) (hK : Extends M S (known skipCfg))
    (hRF : Respects (ctx false) S (mjForwardSkip 0 sk)) (hRS : Respects (ctx false) S (mjForwardSkip ss sk))
    (d0 d1 : Grp → V) (hprev : run fuel M S [] (mjForwardSkip 0 sk) d0 = (.norm, d1)) :
    (run fuel M S [] (mjForwardSkip 0 sk) d1).1 = (run fuel M S [] (mjForwardSkip ss sk) d1).1 ∧
    ((run fuel M S [] (mjForwardSkip ss sk) d1).1 = .norm →
      Agree skipOutputs (run fuel M S [] (mjForwardSkip 0 sk) d1).2 (run fuel M S [] (mjForwardSkip ss sk) d1).2) := by
  have hcond := List.all_eq_true.mp forwardSkip_conditions (ss, sk) hc
  simp only [fsCond, Bool.and_eq_true, decide_eq_true_eq, List.isEmpty_iff, List.all_eq_true] at hcond
  obtain ⟨⟨⟨⟨⟨⟨⟨⟨⟨⟨hstrip, hokF⟩, hokS⟩, hbP⟩, hbR⟩, hkPs⟩, hkRs⟩, hA⟩, hKR⟩, hIR⟩, hout⟩ := hcond
  -- names
  have hRFs : Respects (ctx false) S (fsF sk) := Respects_simp E (known skipCfg) _ [] hRF
  have hRSs : Respects (ctx false) S (fsR ss sk) := Respects_simp E (known skipCfg) _ [] hRS
  obtain ⟨hRP, hRR⟩ := Respects_stripSuffix (fsF sk) (fsR ss sk) (fsP ss sk) hstrip hRFs
  obtain ⟨kP, hkP⟩ := Option.isSome_iff_exists.mp hkPs
  obtain ⟨kR, hkR⟩ := Option.isSome_iff_exists.mp hkRs
  have hkP' : (abs (ctx false) (known skipCfg) [] (fsP ss sk)).killN.getD [] = kP := by rw [hkP]; rfl
  have hkR' : (abs (ctx false) (known skipCfg) [] (fsR ss sk)).killN.getD [] = kR := by rw [hkR]; rfl
  rw [hkP'] at hKR
  -- the previous full call, normalised: some d1s equal to d1 outside diagnostics
  have sF0 : (run fuel M S [] (mjForwardSkip 0 sk) d0).1 = (run fuel M S [] (fsF sk) d0).1 ∧
      AgreeOff E (run fuel M S [] (mjForwardSkip 0 sk) d0).2 (run fuel M S [] (fsF sk) d0).2 :=
    simp_sim (C := ctx false) (K := known skipCfg) fuel hK E (mjForwardSkip 0 sk) [] [] (EnvLe.refl _) hRF hokF
      d0 d0 (fun _ _ => rfl)
  have hsplit : ∀ d, run fuel M S [] (fsF sk) d = run fuel M S [] (.seq (fsP ss sk) (fsR ss sk)) d :=
    run_stripSuffix fuel M S [] (fsF sk) (fsR ss sk) (fsP ss sk) hstrip
  have hprevs : run fuel M S [] (.seq (fsP ss sk) (fsR ss sk)) d0 =
      (.norm, (run fuel M S [] (.seq (fsP ss sk) (fsR ss sk)) d0).2) := by
    have : (run fuel M S [] (.seq (fsP ss sk) (fsR ss sk)) d0).1 = .norm := by
      rw [← hsplit d0, ← sF0.1, hprev]
    rw [← this]
  have hd1s : AgreeOff E d1 (run fuel M S [] (.seq (fsP ss sk) (fsR ss sk)) d0).2 := by
    have := sF0.2
    rw [hprev] at this
    rw [← hsplit d0]; exact this
  -- replay on the normalised data
  have hIJ : disjoint (fsI ss sk) (diff (abs (ctx false) (known skipCfg) [] (fsP ss sk)).may kP) = true := by
    apply disjoint_iff.mpr
    intro g hg hj
    have hgI := (mem_diff.mp hg).2
    apply hgI
    apply mem_uni.mpr; left
    unfold fsJ; rw [hkP']; exact hj
  have hrep := replay (C := ctx false) (K := known skipCfg) fuel hK (fsP ss sk) (fsR ss sk) [] hRP hRR hbP hbR kP hkP hA hKR
    (fsI ss sk) hIR hIJ d0 _ hprevs
  -- transport both runs from d1 to the normalised data
  have sF1 : (run fuel M S [] (mjForwardSkip 0 sk) d1).1 =
        (run fuel M S [] (fsF sk) (run fuel M S [] (.seq (fsP ss sk) (fsR ss sk)) d0).2).1 ∧
      AgreeOff E (run fuel M S [] (mjForwardSkip 0 sk) d1).2
        (run fuel M S [] (fsF sk) (run fuel M S [] (.seq (fsP ss sk) (fsR ss sk)) d0).2).2 :=
    simp_sim (C := ctx false) (K := known skipCfg) fuel hK E (mjForwardSkip 0 sk) [] [] (EnvLe.refl _) hRF hokF
      d1 _ hd1s
  have sS1 : (run fuel M S [] (mjForwardSkip ss sk) d1).1 =
        (run fuel M S [] (fsR ss sk) (run fuel M S [] (.seq (fsP ss sk) (fsR ss sk)) d0).2).1 ∧
      AgreeOff E (run fuel M S [] (mjForwardSkip ss sk) d1).2
        (run fuel M S [] (fsR ss sk) (run fuel M S [] (.seq (fsP ss sk) (fsR ss sk)) d0).2).2 :=
    simp_sim (C := ctx false) (K := known skipCfg) fuel hK E (mjForwardSkip ss sk) [] [] (EnvLe.refl _) hRS hokS
      d1 _ hd1s
  rw [hsplit] at sF1
  refine ⟨sF1.1.trans (hrep.1.trans sS1.1.symm), ?_⟩
  intro hn
  have hnR : (run fuel M S [] (fsR ss sk) (run fuel M S [] (.seq (fsP ss sk) (fsR ss sk)) d0).2).1 = .norm := by
    rw [← hn]; exact sS1.1.symm
  have hk := hrep.2.2 hnR kR hkR
  intro g hg
  have hgd : g ∉ E := by
    intro h
    have : g = diag := by simpa [E] using h
    subst this
    revert hg; decide
  have hcase := hout g hg
  rw [hkR'] at hcase
  have hmid : (run fuel M S [] (.seq (fsP ss sk) (fsR ss sk)) (run fuel M S [] (.seq (fsP ss sk) (fsR ss sk)) d0).2).2 g =
      (run fuel M S [] (fsR ss sk) (run fuel M S [] (.seq (fsP ss sk) (fsR ss sk)) d0).2).2 g := by
    rcases hcase with h | h
    · exact hrep.2.1 g h
    · exact hk g h
  exact (sF1.2 g hgd).trans (hmid.trans (sS1.2 g hgd).symm)

end Skip

end MjProof.C04
