import MjProof.Model.XmlInertial
/-
C32  Saved MJCF recompiles to the same model -- the INERTIA-SOURCE decision of the hand-written writer branch
`mjXWriter::Body` (<inertial>) together with the compiler stage that feeds it (`mjCBody::Compile` / `InertiaFromGeom`,
`mjCModel::IndexAssets(discardvisual)`) and the reader side (compiler defaults of the reloaded text, `<inertial>` ->
explicit body).  Model: `MjProof/Model/XmlInertial.lean`.  `_partial` with respect to the property: the statement is
about `body_mass` as a function of the geom masses (every mass algebra, i.e. also IEEE doubles with the C summation
order); ipos/iquat/inertia follow the same source decision but their arithmetic is not modelled.

`inertial_roundtrip`      for every compiler setting, every list of bodies and every body satisfying `safe`, the mass
                          compiled from the saved text equals the mass compiled from the original;
`written_roundtrip`       whenever `<inertial>` is written the reloaded body holds the compiled mass (no hypothesis);
`unsafe_*`                each class excluded by `safe` really loses the mass in the model (the model reproduces the
                          tree's behaviour there: these are recorded findings, the tie checks the model against the
                          real writer/compiler on them as well);
`promotion_needs_demotion` the reason for the demotion TRUE -> AUTO in `IndexAssets`: without it the promoted body's
                          `<inertial>` is not written and the discarded geoms' mass is lost.
-/
namespace MjProof.C32
open MjProof.XmlInertial

variable {μ : Type}

theorem written_roundtrip (A : Alg μ) (c : Comp) (bs : List (Body μ)) (b : Body μ)
    (hw : written c bs b = true) : rtMass A c bs b = mass A c b := by
  simp [rtMass, saveBody, hw, reloadBody, mass, callsIFG, reloadComp]

private theorem filter_not_visual_of_not_hasVisual (b : Body μ) (h : hasVisual b = false) :
    b.geoms.filter (fun g => !g.visual) = b.geoms := by
  unfold hasVisual at h
  rw [List.filter_eq_self]
  intro g hg
  have := List.any_eq_false.mp h g hg
  simpa using this

private theorem filter_map_eq {α : Type} (p q : α → Bool) (z : α → α) :
    ∀ l : List α, (∀ g ∈ l, p (z g) = q g ∧ (q g = true → z g = g)) → (l.map z).filter p = l.filter q
  | [], _ => rfl
  | g :: l, h => by
    have hg := h g (by simp)
    have ih := filter_map_eq p q z l (fun g' hg' => h g' (by simp [hg']))
    simp only [List.map_cons, List.filter_cons, hg.1, ih]
    cases hq : q g with
    | false => simp
    | true => simp [hg.2 hq]

private theorem massOf_keep (A : Alg μ) (k k' : μ) (l : List (Geom μ)) (h : l = [] → k = k') :
    massOf A k l = massOf A k' l := by
  match l, h with
  | [], h => simp [massOf, h rfl]
  | [_], _ => rfl
  | _ :: _ :: _, _ => rfl

/-- Saved MJCF reproduces `body_mass` on every body that `safe` admits (all compiler settings, all body lists, all
    mass algebras).  `hz`: a body without `<inertial>` has the constructor's mass 0 in its spec -- true of every body
    read from MJCF (for an mjSpec program that sets `mass` without `explicitinertial` it is an extra assumption);
    `hh0`: 0 is not heavier than mjEPS. -/
theorem inertial_roundtrip (A : Alg μ) (hh0 : A.heavy A.zero = false) (c : Comp) (bs : List (Body μ)) (b : Body μ)
    (hb : b ∈ bs) (hs : safe A c bs b = true) (hz : b.explicit = false → b.emass = A.zero) :
    rtMass A c bs b = mass A c b := by
  by_cases hw : written c bs b = true
  · exact written_roundtrip A c bs b hw
  · have hw' : written c bs b = false := by simpa using hw
    have hany : promoted c b = true → bs.any (promoted c) = true :=
      fun h => List.any_eq_true.mpr ⟨b, hb, h⟩
    simp only [safe, hw', Bool.false_or, Bool.and_eq_true, bne_iff_ne, ne_eq] at hs
    obtain ⟨⟨hno, hrn⟩, hex⟩ := hs
    have hrange : ∀ g ∈ b.geoms, geomNeutral A c g = true := fun g hg => List.all_eq_true.mp hrn g hg
    -- a promoted body is always written
    have hnp : promoted c b = false := by
      cases hp : promoted c b with
      | false => rfl
      | true =>
        exfalso
        have h1 := hany hp
        cases hi : c.ifg <;> simp [written, hp, ifgAfter, hi, h1] at hw'
    -- not written: no saveinertial; an explicit body is unwritten only under inertiafromgeom = true
    have hsi : c.saveinertial = false := by
      cases h : c.saveinertial with
      | false => rfl
      | true => simp [written, h] at hw'
    have hcall : callsIFG c b = true := by
      cases hi : c.ifg with
      | no => exact absurd hi hno
      | yes => simp [callsIFG, hi]
      | auto =>
        cases hbe : b.explicit with
        | false => simp [callsIFG, hi, hbe]
        | true => simp [written, hbe, ifgAfter, hi] at hw'
    -- nothing visual is discarded from an unwritten body
    have hkeep : (if c.discard then b.geoms.filter (fun g => !g.visual) else b.geoms) = b.geoms := by
      cases hd : c.discard with
      | false => simp
      | true =>
        simp only [if_true]
        apply filter_not_visual_of_not_hasVisual
        cases hbe : b.explicit with
        | true =>
          have h2 : hasVisual b = false ∧ ¬sel A c b = [] := by simpa [hbe, hd] using hex
          exact h2.1
        | false =>
          cases hv : hasVisual b with
          | false => rfl
          | true => simp [promoted, hd, hbe, hv] at hnp
    have hinf : ∀ g, inferGeom c b g = inRange c g := by
      intro g
      have : (!b.explicit || c.ifg == .yes) = true := by
        cases hi : c.ifg <;> cases hbe : b.explicit <;> simp [callsIFG, hi, hbe] at hcall ⊢
      simp [inferGeom, this]
    have hsel : sel A reloadComp (reloadBody A (saveBody A c bs b)) = sel A c b := by
      simp only [sel, reloadBody, saveBody, hkeep]
      apply filter_map_eq
      intro g hg
      have hn := hrange g hg
      unfold geomNeutral at hn
      unfold saveGeom
      rw [hinf g]
      cases hr : inRange c g with
      | true => simp [hr] at hn ⊢; simp [hn]
      | false =>
        simp only [hr, Bool.false_eq_true, if_false, Bool.or_eq_true, Bool.not_eq_true'] at hn
        cases hma : g.massAttr with
        | true => simp [hh0]
        | false =>
          simp only [hma, Bool.false_eq_true, false_or] at hn
          rcases hn with hn | hn <;> simp [hn]
    have hkeepmass : sel A c b = [] → A.zero = b.emass := by
      intro he
      cases hbe : b.explicit with
      | false => exact (hz hbe).symm
      | true => simp [hbe, he] at hex
    simp only [rtMass]
    rw [show mass A c b = massOf A b.emass (sel A c b) by simp [mass, hcall]]
    have hc2 : callsIFG reloadComp (reloadBody A (saveBody A c bs b)) = true := by
      simp [callsIFG, reloadComp, reloadBody, saveBody, hw']
    rw [show mass A reloadComp (reloadBody A (saveBody A c bs b))
          = massOf A (reloadBody A (saveBody A c bs b)).emass (sel A reloadComp (reloadBody A (saveBody A c bs b))) by
        simp [mass, hc2]]
    rw [hsel]
    apply massOf_keep
    intro he
    simpa [reloadBody, saveBody, hw'] using hkeepmass he

/-- the classifier used by the oracle of checks/c32.py to attribute a mass difference to a recorded finding is the
    negation of `safe`: class 0 exactly on the bodies `inertial_roundtrip` covers -/
theorem unsafeClass_zero_iff_safe (A : Alg μ) (c : Comp) (bs : List (Body μ)) (b : Body μ) :
    unsafeClass A c bs b = 0 ↔ safe A c bs b = true := by
  unfold unsafeClass safe
  cases written c bs b <;> cases hi : c.ifg <;> cases rangeNeutral A c b <;> cases b.explicit <;>
    cases c.discard <;> cases hasVisual b <;> cases (sel A c b).isEmpty <;> simp

/-! ### the classes `safe` excludes really lose the mass (model = behaviour of the tree: recorded findings) -/

/-- masses as integers, everything positive is heavy -/
def natAlg : Alg Int := { add := (· + ·), zero := 0, heavy := fun x => decide (0 < x) }

def cAuto : Comp := { ifg := .auto, discard := false, saveinertial := false, glo := 0, ghi := 5 }
def gCol (id : Nat) (m : Int) (group : Int := 0) (massAttr : Bool := false) : Geom Int :=
  { id, visual := false, group, m, massAttr }
def gVis (id : Nat) (m : Int) : Geom Int := { id, visual := true, group := 0, m, massAttr := false }

/-- 1. `inertiafromgeom="false"`: a body without `<inertial>` has mass 0, after reload the mass of its geom -/
theorem unsafe_ifg_false :
    let c := { cAuto with ifg := .no }
    let b : Body Int := { explicit := false, emass := 0, geoms := [gCol 1 7] }
    safe natAlg c [b] b = false ∧ mass natAlg c b = 0 ∧ rtMass natAlg c [b] b = 7 := by decide

/-- 2. `inertiagrouprange="0 1"`: the geom of group 3 (specified by density) does not count in the original and counts
    after reload; the same geom with a `mass` attribute is saved with mass 0 and the body is safe -/
theorem unsafe_grouprange :
    let c := { cAuto with ghi := 1 }
    let b : Body Int := { explicit := false, emass := 0, geoms := [gCol 1 7, gCol 2 5 3] }
    let b' : Body Int := { explicit := false, emass := 0, geoms := [gCol 1 7, gCol 2 5 3 true] }
    safe natAlg c [b] b = false ∧ mass natAlg c b = 7 ∧ rtMass natAlg c [b] b = 12 ∧
    safe natAlg c [b'] b' = true ∧ rtMass natAlg c [b'] b' = 7 := by decide

/-- 3. `inertiafromgeom="true"` + `discardvisual`, body with `<inertial>` and a visual geom: the reloaded mass lacks
    the discarded geom -/
theorem unsafe_explicit_visual :
    let c := { cAuto with ifg := .yes, discard := true }
    let b : Body Int := { explicit := true, emass := 3, geoms := [gCol 1 7, gVis 2 5] }
    safe natAlg c [b] b = false ∧ mass natAlg c b = 12 ∧ rtMass natAlg c [b] b = 7 := by decide

/-- 4. `inertiafromgeom="true"`, body with `<inertial>` and no geoms: keeps its explicit mass, reloads with mass 0 -/
theorem unsafe_explicit_nogeom :
    let c := { cAuto with ifg := .yes }
    let b : Body Int := { explicit := true, emass := 3, geoms := [] }
    safe natAlg c [b] b = false ∧ mass natAlg c b = 3 ∧ rtMass natAlg c [b] b = 0 := by decide

/-- The demotion TRUE -> AUTO of `IndexAssets` is what makes the promoted body's `<inertial>` appear: a writer that sees
    `inertiafromgeom = true` for a promoted body (i.e. `ifgAfter` replaced by `c.ifg`) drops it, and the reloaded mass
    lacks the discarded visual geom.  With the demotion the same body round-trips (`inertial_roundtrip`). -/
theorem promotion_needs_demotion :
    let c := { cAuto with ifg := .yes, discard := true }
    let b : Body Int := { explicit := false, emass := 0, geoms := [gCol 1 7, gVis 2 5] }
    safe natAlg c [b] b = true ∧ written c [b] b = true ∧ rtMass natAlg c [b] b = mass natAlg c b ∧ mass natAlg c b = 12 ∧
    -- the same body, the setting left at `true`: <inertial> not written, reload from the kept geom only
    mass natAlg reloadComp (reloadBody natAlg { inertial := none, geoms := (saveBody natAlg c [b] b).geoms }) = 7 := by
  decide

/-! ### non-vacuity -/

/-- a two-body document under `inertiafromgeom="true"` + `discardvisual`: the promoted body and an explicit body with
    a visual geom (made safe by the promotion of the first) both satisfy the hypotheses of `inertial_roundtrip` -/
example :
    let c := { cAuto with ifg := .yes, discard := true }
    let b1 : Body Int := { explicit := false, emass := 0, geoms := [gCol 1 7, gVis 2 5] }
    let b2 : Body Int := { explicit := true, emass := 3, geoms := [gCol 3 2, gVis 4 1] }
    safe natAlg c [b1, b2] b1 = true ∧ safe natAlg c [b1, b2] b2 = true ∧ b2 ∈ [b1, b2] ∧
    (b1.explicit = false → b1.emass = natAlg.zero) := by
  refine ⟨by decide, by decide, by simp, fun _ => rfl⟩

end MjProof.C32
