import MjProof.Lemmas.Spatial
set_option linter.unusedSimpArgs false
set_option linter.unusedTactic false
set_option linter.unreachableTactic false
/-
C24  Rotation and pose utilities implement the group operations (DESIGN.md §5.C24).

Every theorem is about the *generated* kernels `MjProof.Gen.mju_*` (translated by `translate/c2lean.py` from
`src/engine/engine_util_spatial.c` / `engine_util_blas.c` of the working tree on every run) instantiated at
`α := ℝ`, through the uncurrying wrappers of `MjProof.Spatial` (`mulQuat a b := Gen.mju_mulQuat a.1 … b.2.2.2`).
All special-case branches of the C code (`quat == identity`, `vec == 0`, `angle == 0`, the mjMINVAL guards
of mju_normalize3/4) are part of the generated definitions and are handled in the proofs.
Reals, not doubles: rounding is outside the proofs (trusted base).
-/
namespace MjProof.C24
open MjProof MjProof.Gen MjProof.Spatial

/-! ### quaternion product: a monoid with norm-multiplicative product, conjugate = inverse on units -/

theorem mulQuat_assoc (a b c : Quat) : mulQuat (mulQuat a b) c = mulQuat a (mulQuat b c) := by
  obtain ⟨a0, a1, a2, a3⟩ := a; obtain ⟨b0, b1, b2, b3⟩ := b; obtain ⟨c0, c1, c2, c3⟩ := c
  simp only [mulQuat, mju_mulQuat_eq, Prod.mk.injEq]
  tuple_ring

theorem mulQuat_one_left (q : Quat) : mulQuat quatOne q = q := by
  obtain ⟨q0, q1, q2, q3⟩ := q
  simp only [mulQuat, quatOne, mju_mulQuat_eq, Prod.mk.injEq]
  tuple_ring

theorem mulQuat_one_right (q : Quat) : mulQuat q quatOne = q := by
  obtain ⟨q0, q1, q2, q3⟩ := q
  simp only [mulQuat, quatOne, mju_mulQuat_eq, Prod.mk.injEq]
  tuple_ring

/-- |ab|² = |a|²|b|² for all quaternions (unit quaternions are closed under the product) -/
theorem mulQuat_normSq (a b : Quat) : normSq4 (mulQuat a b) = normSq4 a * normSq4 b := by
  obtain ⟨a0, a1, a2, a3⟩ := a; obtain ⟨b0, b1, b2, b3⟩ := b
  simp only [mulQuat, mju_mulQuat_eq, normSq4]
  ring

theorem negQuat_normSq (q : Quat) : normSq4 (negQuat q) = normSq4 q := by
  obtain ⟨q0, q1, q2, q3⟩ := q
  simp only [negQuat, mju_negQuat_eq, normSq4]
  ring

/-- q·q̄ = q̄·q = (|q|², 0, 0, 0) for every quaternion -/
theorem mulQuat_negQuat (q : Quat) :
    mulQuat q (negQuat q) = (normSq4 q, 0, 0, 0) ∧ mulQuat (negQuat q) q = (normSq4 q, 0, 0, 0) := by
  obtain ⟨q0, q1, q2, q3⟩ := q
  simp only [mulQuat, negQuat, mju_mulQuat_eq, mju_negQuat_eq, normSq4, Prod.mk.injEq]
  tuple_ring

/-- `mju_negQuat` is the inverse on unit quaternions -/
theorem negQuat_inverse (q : Quat) (h : normSq4 q = 1) :
    mulQuat q (negQuat q) = quatOne ∧ mulQuat (negQuat q) q = quatOne := by
  have := mulQuat_negQuat q
  rw [h] at this
  exact this

example : normSq4 ((3/5 : ℝ), (4/5 : ℝ), (0 : ℝ), (0 : ℝ)) = 1 := by simp only [normSq4]; norm_num

theorem negQuat_mulQuat (a b : Quat) : negQuat (mulQuat a b) = mulQuat (negQuat b) (negQuat a) := by
  obtain ⟨a0, a1, a2, a3⟩ := a; obtain ⟨b0, b1, b2, b3⟩ := b
  simp only [mulQuat, negQuat, mju_mulQuat_eq, mju_negQuat_eq, Prod.mk.injEq]
  tuple_ring

/-- `mju_mulQuatAxis q x` is the product of `q` with the pure quaternion `(0, x)` -/
theorem mulQuatAxis_eq_mulQuat (q : Quat) (x : Vec3) :
    mulQuatAxis q x = mulQuat q (0, x.1, x.2.1, x.2.2) := by
  obtain ⟨q0, q1, q2, q3⟩ := q; obtain ⟨x0, x1, x2⟩ := x
  simp only [mulQuatAxis, mulQuat, mju_mulQuatAxis, mju_mulQuat_eq, Prod.mk.injEq]
  tuple_ring

/-- `mju_derivQuat q w` = ½ · (0, w) · q  (time derivative of q for an angular velocity w in the parent frame) -/
theorem derivQuat_eq_half_mulQuat (q : Quat) (w : Vec3) :
    derivQuat q w = ((1/2) * (mulQuat (0, w.1, w.2.1, w.2.2) q).1, (1/2) * (mulQuat (0, w.1, w.2.1, w.2.2) q).2.1,
      (1/2) * (mulQuat (0, w.1, w.2.1, w.2.2) q).2.2.1, (1/2) * (mulQuat (0, w.1, w.2.1, w.2.2) q).2.2.2) := by
  obtain ⟨q0, q1, q2, q3⟩ := q; obtain ⟨w0, w1, w2⟩ := w
  simp only [derivQuat, mulQuat, mju_derivQuat, mju_mulQuat_eq, ofSci_half, Prod.mk.injEq]
  tuple_ring

/-! ### rotation of vectors -/

theorem rotVecQuat_one (v : Vec3) : rotVecQuat v quatOne = v := by
  obtain ⟨v0, v1, v2⟩ := v
  simp only [rotVecQuat, quatOne, mju_rotVecQuat_eq, rotF, Prod.mk.injEq]
  tuple_ring

/-- q and −q are the same rotation (double cover) -/
theorem rotVecQuat_quatNeg (v : Vec3) (q : Quat) : rotVecQuat v (quatNeg q) = rotVecQuat v q := by
  obtain ⟨v0, v1, v2⟩ := v; obtain ⟨q0, q1, q2, q3⟩ := q
  simp only [rotVecQuat, quatNeg, mju_rotVecQuat_eq, rotF, Prod.mk.injEq]
  tuple_ring

/-- rotation by a unit quaternion preserves the Euclidean norm -/
theorem rotVecQuat_normSq (v : Vec3) (q : Quat) (h : normSq4 q = 1) :
    normSq3 (rotVecQuat v q) = normSq3 v := by
  obtain ⟨v0, v1, v2⟩ := v; obtain ⟨a0, a1, a2, a3⟩ := q
  simp only [normSq4] at h
  simp only [rotVecQuat, mju_rotVecQuat_eq, rotF, normSq3]
  linear_combination (-8*a1*a2*v0*v1 - 8*a1*a3*v0*v2 + 4*a1^2*v1^2 + 4*a1^2*v2^2 - 8*a2*a3*v1*v2
    + 4*a2^2*v0^2 + 4*a2^2*v2^2 + 4*a3^2*v0^2 + 4*a3^2*v1^2) * h

/-- for *every* quaternion: rot(v, q) = M(q) v + (1 − |q|²) v, with M(q) = `mju_quat2Mat q` -/
theorem rotVecQuat_eq_quat2Mat_homogeneous (v : Vec3) (q : Quat) :
    rotVecQuat v q =
      ((mulMatVec3 (quat2Mat q) v).1 + (1 - normSq4 q) * v.1,
       (mulMatVec3 (quat2Mat q) v).2.1 + (1 - normSq4 q) * v.2.1,
       (mulMatVec3 (quat2Mat q) v).2.2 + (1 - normSq4 q) * v.2.2) := by
  obtain ⟨v0, v1, v2⟩ := v; obtain ⟨q0, q1, q2, q3⟩ := q
  simp only [rotVecQuat, mulMatVec3, quat2Mat, mju_rotVecQuat_eq, mju_quat2Mat_eq, mju_mulMatVec3_eq,
    rotF, matF, normSq4, Prod.mk.injEq]
  tuple_ring

/-- `mju_rotVecQuat` agrees with the rotation matrix of `mju_quat2Mat` on unit quaternions -/
theorem rotVecQuat_eq_quat2Mat_mulVec (v : Vec3) (q : Quat) (h : normSq4 q = 1) :
    rotVecQuat v q = mulMatVec3 (quat2Mat q) v := by
  rw [rotVecQuat_eq_quat2Mat_homogeneous, h]
  simp

/-- rotation by q₁q₂ is rotation by q₂ followed by rotation by q₁ (unit quaternions) -/
theorem rotVecQuat_mulQuat (v : Vec3) (a b : Quat) (ha : normSq4 a = 1) (hb : normSq4 b = 1) :
    rotVecQuat v (mulQuat a b) = rotVecQuat (rotVecQuat v b) a := by
  obtain ⟨v0, v1, v2⟩ := v; obtain ⟨a0, a1, a2, a3⟩ := a; obtain ⟨b0, b1, b2, b3⟩ := b
  simp only [normSq4] at ha hb
  simp only [rotVecQuat, mulQuat, mju_rotVecQuat_eq, mju_mulQuat_eq, rotF, Prod.mk.injEq]
  refine ⟨?_, ?_, ?_⟩
  · linear_combination (2*b0*b2*v2 - 2*b0*b3*v1 + 2*b1*b2*v1 + 2*b1*b3*v2 - 2*b2^2*v0 - 2*b3^2*v0) * ha + (2*a0*a2*v2 - 2*a0*a3*v1 + 2*a1*a2*v1 + 2*a1*a3*v2 - 2*a2^2*v0 - 2*a3^2*v0) * hb
  · linear_combination (-2*b0*b1*v2 + 2*b0*b3*v0 + 2*b1*b2*v0 - 2*b1^2*v1 + 2*b2*b3*v2 - 2*b3^2*v1) * ha + (-2*a0*a1*v2 + 2*a0*a3*v0 + 2*a1*a2*v0 - 2*a1^2*v1 + 2*a2*a3*v2 - 2*a3^2*v1) * hb
  · linear_combination (2*b0*b1*v1 - 2*b0*b2*v0 + 2*b1*b3*v0 - 2*b1^2*v2 + 2*b2*b3*v1 - 2*b2^2*v2) * ha + (2*a0*a1*v1 - 2*a0*a2*v0 + 2*a1*a3*v0 - 2*a1^2*v2 + 2*a2*a3*v1 - 2*a2^2*v2) * hb

/-- rotating back with the conjugate undoes the rotation (unit q) -/
theorem rotVecQuat_negQuat (v : Vec3) (q : Quat) (h : normSq4 q = 1) :
    rotVecQuat (rotVecQuat v q) (negQuat q) = v ∧ rotVecQuat (rotVecQuat v (negQuat q)) q = v := by
  have hn : normSq4 (negQuat q) = 1 := by rw [negQuat_normSq, h]
  constructor
  · rw [← rotVecQuat_mulQuat v _ _ hn h, (negQuat_inverse q h).2, rotVecQuat_one]
  · rw [← rotVecQuat_mulQuat v _ _ h hn, (negQuat_inverse q h).1, rotVecQuat_one]

/-! ### rotation matrices -/

theorem quat2Mat_one : quat2Mat quatOne = matOne := by
  simp only [quat2Mat, quatOne, matOne, mju_quat2Mat_eq, matF, Prod.mk.injEq]
  norm_num

/-- the matrix of a product is the product of the matrices, for all quaternions -/
theorem quat2Mat_mulQuat (a b : Quat) : quat2Mat (mulQuat a b) = matMul (quat2Mat a) (quat2Mat b) := by
  obtain ⟨a0, a1, a2, a3⟩ := a; obtain ⟨b0, b1, b2, b3⟩ := b
  simp only [quat2Mat, mulQuat, mju_quat2Mat_eq, mju_mulQuat_eq, matF, matMul, Prod.mk.injEq]
  tuple_ring

/-- M Mᵀ = Mᵀ M = |q|⁴ I for every quaternion -/
theorem quat2Mat_mul_transpose (q : Quat) :
    matMul (quat2Mat q) (matT (quat2Mat q)) = matScale (normSq4 q ^ 2) matOne ∧
    matMul (matT (quat2Mat q)) (quat2Mat q) = matScale (normSq4 q ^ 2) matOne := by
  obtain ⟨q0, q1, q2, q3⟩ := q
  simp only [quat2Mat, mju_quat2Mat_eq, matF, matMul, matT, matScale, matOne, normSq4, Prod.mk.injEq]
  tuple_ring

/-- the matrix of a unit quaternion is orthogonal -/
theorem quat2Mat_orthogonal (q : Quat) (h : normSq4 q = 1) :
    matMul (quat2Mat q) (matT (quat2Mat q)) = matOne ∧ matMul (matT (quat2Mat q)) (quat2Mat q) = matOne := by
  have := quat2Mat_mul_transpose q
  rw [h] at this
  simpa [matScale, matOne] using this

/-- det M(q) = |q|⁶ for every quaternion -/
theorem quat2Mat_det_homogeneous (q : Quat) : matDet (quat2Mat q) = normSq4 q ^ 3 := by
  obtain ⟨q0, q1, q2, q3⟩ := q
  simp only [quat2Mat, mju_quat2Mat_eq, matF, matDet, normSq4]
  ring

/-- … hence a proper rotation (det = 1) for a unit quaternion -/
theorem quat2Mat_det (q : Quat) (h : normSq4 q = 1) : matDet (quat2Mat q) = 1 := by
  rw [quat2Mat_det_homogeneous, h]; norm_num

/-- the transposed matrix is the matrix of the conjugate quaternion (all q) -/
theorem quat2Mat_negQuat (q : Quat) : quat2Mat (negQuat q) = matT (quat2Mat q) := by
  obtain ⟨q0, q1, q2, q3⟩ := q
  simp only [quat2Mat, negQuat, mju_quat2Mat_eq, mju_negQuat_eq, matF, matT, Prod.mk.injEq]
  tuple_ring

/-- `mju_mulMatTVec3` with the matrix of a unit quaternion is the inverse rotation -/
theorem mulMatTVec3_quat2Mat (v : Vec3) (q : Quat) (h : normSq4 q = 1) :
    mulMatTVec3 (quat2Mat q) v = rotVecQuat v (negQuat q) := by
  have hn : normSq4 (negQuat q) = 1 := by rw [negQuat_normSq, h]
  rw [rotVecQuat_eq_quat2Mat_mulVec v _ hn]
  obtain ⟨v0, v1, v2⟩ := v; obtain ⟨q0, q1, q2, q3⟩ := q
  simp only [mulMatTVec3, mulMatVec3, quat2Mat, negQuat, mju_quat2Mat_eq, mju_negQuat_eq,
    mju_mulMatVec3_eq, mju_mulMatTVec3_eq, matF, Prod.mk.injEq]
  tuple_ring

/-! ### axis-angle -/

/-- unit axis ⇒ unit quaternion (both the `angle == 0` branch and the generic branch) -/
theorem axisAngle2Quat_unit (axis : Vec3) (angle : ℝ) (h : normSq3 axis = 1) :
    normSq4 (axisAngle2Quat axis angle) = 1 := by
  obtain ⟨x0, x1, x2⟩ := axis
  simp only [normSq3] at h
  simp only [axisAngle2Quat, mju_axisAngle2Quat_eq, normSq4]
  have hsc := Real.sin_sq_add_cos_sq (angle * (1/2))
  linear_combination (Real.sin (angle * (1/2)))^2 * h + hsc

example : normSq3 ((0 : ℝ), (3/5 : ℝ), (4/5 : ℝ)) = 1 := by simp only [normSq3]; norm_num

/-- the rotation built by `mju_axisAngle2Quat` fixes its axis (any axis, any angle) -/
theorem rotVecQuat_axisAngle2Quat_axis (axis : Vec3) (angle : ℝ) :
    rotVecQuat axis (axisAngle2Quat axis angle) = axis := by
  obtain ⟨x0, x1, x2⟩ := axis
  simp only [rotVecQuat, axisAngle2Quat, mju_axisAngle2Quat_eq, mju_rotVecQuat_eq, rotF, Prod.mk.injEq]
  tuple_ring

/-- angles add for rotations about a common unit axis:
    `axisAngle2Quat x s * axisAngle2Quat x t = axisAngle2Quat x (s + t)` -/
theorem axisAngle2Quat_add (axis : Vec3) (s t : ℝ) (h : normSq3 axis = 1) :
    mulQuat (axisAngle2Quat axis s) (axisAngle2Quat axis t) = axisAngle2Quat axis (s + t) := by
  obtain ⟨x0, x1, x2⟩ := axis
  simp only [normSq3] at h
  simp only [mulQuat, axisAngle2Quat, mju_axisAngle2Quat_eq, mju_mulQuat_eq, Prod.mk.injEq]
  have e : (s + t) * (1/2) = s * (1/2) + t * (1/2) := by ring
  rw [e, Real.cos_add, Real.sin_add]
  refine ⟨?_, ?_, ?_, ?_⟩
  · linear_combination (-(Real.sin (s * (1/2)) * Real.sin (t * (1/2)))) * h
  · ring
  · ring
  · ring

/-! ### normalisation -/

theorem normalize3_norm (v : Vec3) : (normalize3 v).1 = Real.sqrt (normSq3 v) := by
  obtain ⟨v0, v1, v2⟩ := v
  simp only [normalize3, mju_normalize3_eq, normSq3]

/-- `mju_normalize3` returns a unit vector for *every* input (the fallback (1,0,0) is a unit vector too) -/
theorem normalize3_unit (v : Vec3) : normSq3 (normalize3 v).2 = 1 := by
  obtain ⟨v0, v1, v2⟩ := v
  simp only [normalize3, mju_normalize3_eq]
  split_ifs with h
  · simp [normSq3]
  · have hn : minval ≤ Real.sqrt (v0*v0 + v1*v1 + v2*v2) := not_lt.mp h
    have hpos : 0 < Real.sqrt (v0*v0 + v1*v1 + v2*v2) := lt_of_lt_of_le minval_pos hn
    have hsq := Real.mul_self_sqrt (sumsq3_nonneg v0 v1 v2)
    simp only [normSq3]
    exact unit3_of_div _ _ _ _ hpos hsq

/-- when it divides (norm ≥ mjMINVAL) the result is the input scaled by 1/norm -/
theorem normalize3_parallel (v : Vec3) (h : minval ≤ Real.sqrt (normSq3 v)) :
    (normalize3 v).2 = (v.1 / Real.sqrt (normSq3 v), v.2.1 / Real.sqrt (normSq3 v),
      v.2.2 / Real.sqrt (normSq3 v)) := by
  obtain ⟨v0, v1, v2⟩ := v
  simp only [normSq3] at h
  simp only [normalize3, mju_normalize3_eq, normSq3, if_neg (not_lt.mpr h)]

example : minval ≤ Real.sqrt (normSq3 ((0 : ℝ), (2 : ℝ), (0 : ℝ))) := by
  have e : Real.sqrt (normSq3 ((0 : ℝ), (2 : ℝ), (0 : ℝ))) = 2 := by
    rw [show normSq3 ((0 : ℝ), (2 : ℝ), (0 : ℝ)) = 2 ^ 2 by simp only [normSq3]; norm_num]
    exact Real.sqrt_sq (by norm_num)
  rw [e]; linarith [minval_lt_one]

theorem normalize4_norm (q : Quat) : (normalize4 q).1 = Real.sqrt (normSq4 q) := by
  obtain ⟨q0, q1, q2, q3⟩ := q
  simp only [normalize4, mju_normalize4_eq, normSq4]

/-- `mju_normalize4`: unit result whenever it resets (norm < mjMINVAL) or divides (|norm − 1| > mjMINVAL);
    otherwise the input, whose norm is within mjMINVAL of 1, is returned unchanged -/
theorem normalize4_cases (q : Quat) :
    ((Real.sqrt (normSq4 q) < minval ∨ minval < |Real.sqrt (normSq4 q) - 1|) ∧ normSq4 (normalize4 q).2 = 1) ∨
    (|Real.sqrt (normSq4 q) - 1| ≤ minval ∧ (normalize4 q).2 = q) := by
  obtain ⟨v0, v1, v2, v3⟩ := q
  simp only [normalize4, mju_normalize4_eq, normSq4]
  split_ifs with h1 h2
  · left; exact ⟨Or.inl h1, by simp⟩
  · left
    refine ⟨Or.inr h2, ?_⟩
    have hn : minval ≤ Real.sqrt (v0*v0 + v1*v1 + v2*v2 + v3*v3) := not_lt.mp h1
    have hpos : 0 < Real.sqrt (v0*v0 + v1*v1 + v2*v2 + v3*v3) := lt_of_lt_of_le minval_pos hn
    have hsq := Real.mul_self_sqrt (sumsq4_nonneg v0 v1 v2 v3)
    exact unit4_of_div _ _ _ _ _ hpos hsq
  · right; exact ⟨not_lt.mp h2, rfl⟩

/-- a unit quaternion is left unchanged -/
theorem normalize4_of_unit (q : Quat) (h : normSq4 q = 1) : normalize4 q = (1, q) := by
  obtain ⟨v0, v1, v2, v3⟩ := q
  simp only [normSq4] at h
  simp only [normalize4]
  exact mju_normalize4_of_unit v0 v1 v2 v3 h

/-! ### quaternion integration -/

/-- structure of `mju_quatIntegrate`: normalise q, right-multiply by the axis-angle quaternion of the
    normalised velocity with angle `scale · |vel|` -/
theorem quatIntegrate_eq (q : Quat) (vel : Vec3) (scale : ℝ) :
    quatIntegrate q vel scale =
      mulQuat (normalize4 q).2 (axisAngle2Quat (normalize3 vel).2 (scale * (normalize3 vel).1)) := by
  obtain ⟨q0, q1, q2, q3⟩ := q; obtain ⟨v0, v1, v2⟩ := vel
  simp only [quatIntegrate, mulQuat, normalize4, normalize3, axisAngle2Quat, mju_quatIntegrate_eq]

/-- the integration step multiplies by a unit quaternion: |result|² = |normalize4 q|² for all inputs -/
theorem quatIntegrate_normSq (q : Quat) (vel : Vec3) (scale : ℝ) :
    normSq4 (quatIntegrate q vel scale) = normSq4 (normalize4 q).2 := by
  rw [quatIntegrate_eq, mulQuat_normSq, axisAngle2Quat_unit _ _ (normalize3_unit vel), mul_one]

/-- the result is a unit quaternion whenever `mju_normalize4` resets or divides, in particular for every
    input of norm ≥ mjMINVAL that is not already within mjMINVAL of unit norm; in the remaining case
    (| |q| − 1 | ≤ mjMINVAL) the norm of the input is preserved exactly -/
theorem quatIntegrate_unit (q : Quat) (vel : Vec3) (scale : ℝ) :
    ((Real.sqrt (normSq4 q) < minval ∨ minval < |Real.sqrt (normSq4 q) - 1|) ∧
        normSq4 (quatIntegrate q vel scale) = 1) ∨
    (|Real.sqrt (normSq4 q) - 1| ≤ minval ∧ normSq4 (quatIntegrate q vel scale) = normSq4 q) := by
  rw [quatIntegrate_normSq]
  rcases normalize4_cases q with ⟨h, e⟩ | ⟨h, e⟩
  · exact Or.inl ⟨h, e⟩
  · exact Or.inr ⟨h, by rw [e]⟩

theorem quatIntegrate_unit_of_unit (q : Quat) (vel : Vec3) (scale : ℝ) (h : normSq4 q = 1) :
    normSq4 (quatIntegrate q vel scale) = 1 := by
  rw [quatIntegrate_normSq, normalize4_of_unit q h, h]

/-- zero velocity or zero step: a unit quaternion is unchanged -/
theorem quatIntegrate_zero_scale (q : Quat) (vel : Vec3) (h : normSq4 q = 1) :
    quatIntegrate q vel 0 = q := by
  rw [quatIntegrate_eq, normalize4_of_unit q h]
  obtain ⟨q0, q1, q2, q3⟩ := q
  simp only [mulQuat, axisAngle2Quat, mju_axisAngle2Quat_eq, mju_mulQuat_eq, zero_mul, Real.cos_zero,
    Real.sin_zero, Prod.mk.injEq]
  tuple_ring

/-! ### poses (position, unit quaternion): a group acting on vectors -/

/-- for unit quaternions `mju_mulPose` composes exactly: its `mju_normalize4` call sees norm 1 and leaves
    the product unchanged -/
theorem mulPose_unit (A B : Pose) (ha : normSq4 (poseQuat A) = 1) (hb : normSq4 (poseQuat B) = 1) :
    mulPose A B = mkPose (vadd (rotVecQuat (posePos B) (poseQuat A)) (posePos A))
      (mulQuat (poseQuat A) (poseQuat B)) := by
  have hab : normSq4 (mulQuat (poseQuat A) (poseQuat B)) = 1 := by rw [mulQuat_normSq, ha, hb, mul_one]
  rw [mulPose_eq, normalize4_of_unit _ hab]

/-- closure: the composed pose carries a unit quaternion again -/
theorem mulPose_quat_unit (A B : Pose) (ha : normSq4 (poseQuat A) = 1) (hb : normSq4 (poseQuat B) = 1) :
    normSq4 (poseQuat (mulPose A B)) = 1 := by
  rw [mulPose_unit A B ha hb, poseQuat_mkPose, mulQuat_normSq, ha, hb, mul_one]

theorem negPose_quat_unit (P : Pose) (h : normSq4 (poseQuat P) = 1) : normSq4 (poseQuat (negPose P)) = 1 := by
  rw [negPose_eq, poseQuat_mkPose, negQuat_normSq, h]

theorem poseOne_quat_unit : normSq4 (poseQuat poseOne) = 1 := by
  simp [poseOne, poseQuat, normSq4]

/-- `mju_negPose` is the two-sided inverse for `mju_mulPose` -/
theorem mulPose_negPose (P : Pose) (h : normSq4 (poseQuat P) = 1) :
    mulPose P (negPose P) = poseOne ∧ mulPose (negPose P) P = poseOne := by
  have hn := negPose_quat_unit P h
  constructor
  · rw [mulPose_unit P _ h hn, negPose_eq, poseQuat_mkPose, posePos_mkPose, rotVecQuat_vneg,
      (rotVecQuat_negQuat _ _ h).2, vneg_vadd3, (negQuat_inverse _ h).1]
    rfl
  · rw [mulPose_unit _ P hn h, negPose_eq, poseQuat_mkPose, posePos_mkPose, vadd3_vneg,
      (negQuat_inverse _ h).2]
    rfl

theorem mulPose_one_left (P : Pose) (h : normSq4 (poseQuat P) = 1) : mulPose poseOne P = P := by
  rw [mulPose_unit _ _ poseOne_quat_unit h]
  have e1 : poseQuat poseOne = quatOne := rfl
  have e2 : posePos poseOne = (0, 0, 0) := rfl
  rw [e1, e2, rotVecQuat_one, vadd3_zero, mulQuat_one_left]
  rfl

theorem mulPose_one_right (P : Pose) (h : normSq4 (poseQuat P) = 1) : mulPose P poseOne = P := by
  rw [mulPose_unit _ _ h poseOne_quat_unit]
  have e1 : poseQuat poseOne = quatOne := rfl
  have e2 : posePos poseOne = (0, 0, 0) := rfl
  have e3 : rotVecQuat (0, 0, 0) (poseQuat P) = (0, 0, 0) := by
    obtain ⟨p0, p1, p2, q0, q1, q2, q3⟩ := P
    simp only [rotVecQuat, poseQuat, mju_rotVecQuat_eq, rotF, Prod.mk.injEq]
    tuple_ring
  rw [e1, e2, e3, zero_vadd3, mulQuat_one_right]
  rfl

theorem mulPose_assoc (A B C : Pose) (ha : normSq4 (poseQuat A) = 1) (hb : normSq4 (poseQuat B) = 1)
    (hc : normSq4 (poseQuat C) = 1) : mulPose (mulPose A B) C = mulPose A (mulPose B C) := by
  have hab := mulPose_quat_unit A B ha hb
  have hbc := mulPose_quat_unit B C hb hc
  rw [mulPose_unit _ C hab hc, mulPose_unit A _ ha hbc, mulPose_unit A B ha hb, mulPose_unit B C hb hc]
  simp only [poseQuat_mkPose, posePos_mkPose]
  rw [rotVecQuat_mulQuat _ _ _ ha hb, rotVecQuat_vadd, mulQuat_assoc, vadd3_assoc]

/-- the action of a composed pose is the composition of the actions -/
theorem trnVecPose_mulPose (A B : Pose) (v : Vec3) (ha : normSq4 (poseQuat A) = 1)
    (hb : normSq4 (poseQuat B) = 1) : trnVecPose (mulPose A B) v = trnVecPose A (trnVecPose B v) := by
  rw [mulPose_unit A B ha hb, trnVecPose_eq, trnVecPose_eq, trnVecPose_eq]
  simp only [poseQuat_mkPose, posePos_mkPose]
  rw [rotVecQuat_mulQuat _ _ _ ha hb, rotVecQuat_vadd, vadd3_assoc]

theorem trnVecPose_one (v : Vec3) : trnVecPose poseOne v = v := by
  rw [trnVecPose_eq]
  have e1 : poseQuat poseOne = quatOne := rfl
  have e2 : posePos poseOne = (0, 0, 0) := rfl
  rw [e1, e2, rotVecQuat_one, vadd3_zero]

/-- the inverse pose undoes the transformation -/
theorem trnVecPose_negPose (P : Pose) (v : Vec3) (h : normSq4 (poseQuat P) = 1) :
    trnVecPose (negPose P) (trnVecPose P v) = v ∧ trnVecPose P (trnVecPose (negPose P) v) = v := by
  have hn := negPose_quat_unit P h
  constructor
  · rw [← trnVecPose_mulPose _ _ _ hn h, (mulPose_negPose P h).2, trnVecPose_one]
  · rw [← trnVecPose_mulPose _ _ _ h hn, (mulPose_negPose P h).1, trnVecPose_one]

example : normSq4 (poseQuat ((1 : ℝ), (2 : ℝ), (3 : ℝ), (0 : ℝ), (3/5 : ℝ), (0 : ℝ), (4/5 : ℝ))) = 1 := by
  simp only [poseQuat, normSq4]; norm_num

/-! ### matrix → quaternion (stage 2) -/

/-- `mju_mat2Quat (mju_quat2Mat q) = ±q` for every unit quaternion: in each of the four branches of
    `mju_mat2Quat` (largest of q0, q1, q2, q3 by the trace/diagonal tests) the selected component is non-zero,
    the square root recovers its absolute value, the divisions recover the other components with the sign of
    the selected one, and the final `mju_normalize4` sees a unit vector and leaves it unchanged. -/
theorem mat2Quat_quat2Mat (q : Quat) (hq : normSq4 q = 1) :
    mat2Quat (quat2Mat q) = q ∨ mat2Quat (quat2Mat q) = quatNeg q := by
  obtain ⟨q0, q1, q2, q3⟩ := q
  have h : q0*q0 + q1*q1 + q2*q2 + q3*q3 = 1 := by simpa only [normSq4] using hq
  have hn := neg_unit q0 q1 q2 q3 h
  simp only [mat2Quat, quat2Mat, mju_quat2Mat_eq, matF, quatNeg]
  simp only [mju_mat2Quat, real_ofInt, real_sqrt, ofSci_half, ofSci_quarter, decide_eq_true_eq, real_lt_iff, Bool.decide_and, Bool.and_eq_true]
  push_cast
  split_ifs with h1 h2 h3
  · have hx : q0 ≠ 0 := by
      rintro rfl
      nlinarith [mul_self_nonneg q1, mul_self_nonneg q2, mul_self_nonneg q3]
    rcases lt_or_gt_of_ne hx with hneg | hpos
    · right
      rw [pivot_neg q0 _ (by linear_combination (-1 : ℝ) * h) hneg]
      have e1 : 1 / 4 * (2 * (q2 * q3 + q0 * q1) - 2 * (q2 * q3 - q0 * q1)) / (-q0) = -q1 := by
        field_simp; ring
      have e2 : 1 / 4 * (2 * (q1 * q3 + q0 * q2) - 2 * (q1 * q3 - q0 * q2)) / (-q0) = -q2 := by
        field_simp; ring
      have e3 : 1 / 4 * (2 * (q1 * q2 + q0 * q3) - 2 * (q1 * q2 - q0 * q3)) / (-q0) = -q3 := by
        field_simp; ring
      rw [e1, e2, e3, mju_normalize4_of_unit _ _ _ _ hn]
    · left
      rw [pivot_pos q0 _ (by linear_combination (-1 : ℝ) * h) hpos]
      have e1 : 1 / 4 * (2 * (q2 * q3 + q0 * q1) - 2 * (q2 * q3 - q0 * q1)) / q0 = q1 := by
        field_simp; ring
      have e2 : 1 / 4 * (2 * (q1 * q3 + q0 * q2) - 2 * (q1 * q3 - q0 * q2)) / q0 = q2 := by
        field_simp; ring
      have e3 : 1 / 4 * (2 * (q1 * q2 + q0 * q3) - 2 * (q1 * q2 - q0 * q3)) / q0 = q3 := by
        field_simp; ring
      rw [e1, e2, e3, mju_normalize4_of_unit _ _ _ _ h]
  · have hx : q1 ≠ 0 := by
      rintro rfl
      nlinarith [mul_self_nonneg q2, h2.1]
    rcases lt_or_gt_of_ne hx with hneg | hpos
    · right
      rw [pivot_neg q1 _ (by linear_combination (-1 : ℝ) * h) hneg]
      have e0 : 1 / 4 * (2 * (q2 * q3 + q0 * q1) - 2 * (q2 * q3 - q0 * q1)) / (-q1) = -q0 := by
        field_simp; ring
      have e1 : 1 / 4 * (2 * (q1 * q2 - q0 * q3) + 2 * (q1 * q2 + q0 * q3)) / (-q1) = -q2 := by
        field_simp; ring
      have e2 : 1 / 4 * (2 * (q1 * q3 + q0 * q2) + 2 * (q1 * q3 - q0 * q2)) / (-q1) = -q3 := by
        field_simp; ring
      rw [e0, e1, e2, mju_normalize4_of_unit _ _ _ _ hn]
    · left
      rw [pivot_pos q1 _ (by linear_combination (-1 : ℝ) * h) hpos]
      have e0 : 1 / 4 * (2 * (q2 * q3 + q0 * q1) - 2 * (q2 * q3 - q0 * q1)) / q1 = q0 := by
        field_simp; ring
      have e1 : 1 / 4 * (2 * (q1 * q2 - q0 * q3) + 2 * (q1 * q2 + q0 * q3)) / q1 = q2 := by
        field_simp; ring
      have e2 : 1 / 4 * (2 * (q1 * q3 + q0 * q2) + 2 * (q1 * q3 - q0 * q2)) / q1 = q3 := by
        field_simp; ring
      rw [e0, e1, e2, mju_normalize4_of_unit _ _ _ _ h]
  · have hx : q2 ≠ 0 := by
      rintro rfl
      nlinarith [mul_self_nonneg q3, h3]
    rcases lt_or_gt_of_ne hx with hneg | hpos
    · right
      rw [pivot_neg q2 _ (by linear_combination (-1 : ℝ) * h) hneg]
      have e0 : 1 / 4 * (2 * (q1 * q3 + q0 * q2) - 2 * (q1 * q3 - q0 * q2)) / (-q2) = -q0 := by
        field_simp; ring
      have e1 : 1 / 4 * (2 * (q1 * q2 - q0 * q3) + 2 * (q1 * q2 + q0 * q3)) / (-q2) = -q1 := by
        field_simp; ring
      have e2 : 1 / 4 * (2 * (q2 * q3 - q0 * q1) + 2 * (q2 * q3 + q0 * q1)) / (-q2) = -q3 := by
        field_simp; ring
      rw [e0, e1, e2, mju_normalize4_of_unit _ _ _ _ hn]
    · left
      rw [pivot_pos q2 _ (by linear_combination (-1 : ℝ) * h) hpos]
      have e0 : 1 / 4 * (2 * (q1 * q3 + q0 * q2) - 2 * (q1 * q3 - q0 * q2)) / q2 = q0 := by
        field_simp; ring
      have e1 : 1 / 4 * (2 * (q1 * q2 - q0 * q3) + 2 * (q1 * q2 + q0 * q3)) / q2 = q1 := by
        field_simp; ring
      have e2 : 1 / 4 * (2 * (q2 * q3 - q0 * q1) + 2 * (q2 * q3 + q0 * q1)) / q2 = q3 := by
        field_simp; ring
      rw [e0, e1, e2, mju_normalize4_of_unit _ _ _ _ h]
  · have hx : q3 ≠ 0 := by
      rintro rfl
      have hq2 : q2 = 0 := by
        have : q2 * q2 ≤ 0 := by nlinarith [not_lt.mp h3]
        exact mul_self_eq_zero.mp (le_antisymm this (mul_self_nonneg q2))
      subst hq2
      apply h2
      constructor <;> nlinarith [not_lt.mp h1, mul_self_nonneg q0, mul_self_nonneg q1]
    rcases lt_or_gt_of_ne hx with hneg | hpos
    · right
      rw [pivot_neg q3 _ (by linear_combination (-1 : ℝ) * h) hneg]
      have e0 : 1 / 4 * (2 * (q1 * q2 + q0 * q3) - 2 * (q1 * q2 - q0 * q3)) / (-q3) = -q0 := by
        field_simp; ring
      have e1 : 1 / 4 * (2 * (q1 * q3 + q0 * q2) + 2 * (q1 * q3 - q0 * q2)) / (-q3) = -q1 := by
        field_simp; ring
      have e2 : 1 / 4 * (2 * (q2 * q3 - q0 * q1) + 2 * (q2 * q3 + q0 * q1)) / (-q3) = -q2 := by
        field_simp; ring
      rw [e0, e1, e2, mju_normalize4_of_unit _ _ _ _ hn]
    · left
      rw [pivot_pos q3 _ (by linear_combination (-1 : ℝ) * h) hpos]
      have e0 : 1 / 4 * (2 * (q1 * q2 + q0 * q3) - 2 * (q1 * q2 - q0 * q3)) / q3 = q0 := by
        field_simp; ring
      have e1 : 1 / 4 * (2 * (q1 * q3 + q0 * q2) + 2 * (q1 * q3 - q0 * q2)) / q3 = q1 := by
        field_simp; ring
      have e2 : 1 / 4 * (2 * (q2 * q3 - q0 * q1) + 2 * (q2 * q3 + q0 * q1)) / q3 = q2 := by
        field_simp; ring
      rw [e0, e1, e2, mju_normalize4_of_unit _ _ _ _ h]

/-- round trip on rotation matrices: quat → mat → quat → mat is the identity (unit q) -/
theorem quat2Mat_mat2Quat_quat2Mat (q : Quat) (hq : normSq4 q = 1) :
    quat2Mat (mat2Quat (quat2Mat q)) = quat2Mat q := by
  rcases mat2Quat_quat2Mat q hq with e | e
  · rw [e]
  · rw [e]
    obtain ⟨q0, q1, q2, q3⟩ := q
    simp only [quat2Mat, quatNeg, mju_quat2Mat_eq, matF, Prod.mk.injEq]
    tuple_ring

/-! ### `mju_subQuat` inverts `mju_quatIntegrate` (stage 2) -/

/-- `mju_subQuat qa qb = mju_quat2Vel (conj qb · qa) 1` (structure of the generated code) -/
theorem subQuat_eq_quat2Vel (a b : Quat) : subQuat a b = quat2Vel (mulQuat (negQuat b) a) 1 := by
  obtain ⟨a0, a1, a2, a3⟩ := a; obtain ⟨b0, b1, b2, b3⟩ := b
  simp only [subQuat, quat2Vel, mulQuat, negQuat, mju_subQuat_eq, mju_negQuat_eq]

/-- **`mju_subQuat` inverts `mju_quatIntegrate`**: for a unit quaternion `q`, a velocity that `mju_normalize3`
    does not reset (|v| ≥ mjMINVAL), a rotation angle `|h|·|v|` not exceeding the `mjPI` literal of the C code
    (3.1415926535897931 < π; beyond it `mju_quat2Vel` wraps) and large enough that the axis of the difference
    quaternion is not reset (|sin(h|v|/2)| ≥ mjMINVAL), `subQuat (quatIntegrate q v h) q = h·v`. -/
theorem subQuat_quatIntegrate (q : Quat) (v : Vec3) (h : ℝ) (hq : normSq4 q = 1)
    (hv : minval ≤ Real.sqrt (normSq3 v)) (ha : |h * Real.sqrt (normSq3 v)| ≤ piLit)
    (hs : minval ≤ |Real.sin (h * Real.sqrt (normSq3 v) * (1/2))|) :
    subQuat (quatIntegrate q v h) q = (h * v.1, h * v.2.1, h * v.2.2) := by
  rw [quatIntegrate_eq, normalize4_of_unit q hq, subQuat_eq_quat2Vel, ← mulQuat_assoc,
    (negQuat_inverse q hq).2, mulQuat_one_left, normalize3_norm, normalize3_parallel v hv]
  have hn : 0 < Real.sqrt (normSq3 v) := lt_of_lt_of_le minval_pos hv
  obtain ⟨v0, v1, v2⟩ := v
  have hnn : Real.sqrt (normSq3 (v0, v1, v2)) * Real.sqrt (normSq3 (v0, v1, v2)) = v0*v0 + v1*v1 + v2*v2 :=
    Real.mul_self_sqrt (sumsq3_nonneg v0 v1 v2)
  set n := Real.sqrt (normSq3 (v0, v1, v2)) with hn_def
  have hu := unit3_of_div v0 v1 v2 n hn hnn
  simp only [quat2Vel, axisAngle2Quat, mju_axisAngle2Quat_eq]
  rw [mju_quat2Vel_axisAngle _ _ _ _ hu ha hs]
  simp only [Prod.mk.injEq]
  refine ⟨?_, ?_, ?_⟩ <;> (field_simp)

/-- the remaining case of a zero step: the difference of a unit quaternion with itself is the zero vector
    (the axis is reset to (1,0,0) but the angle `2·atan2(0, 1)` is 0) -/
theorem subQuat_self (q : Quat) (hq : normSq4 q = 1) : subQuat q q = (0, 0, 0) := by
  rw [subQuat_eq_quat2Vel, (negQuat_inverse q hq).2]
  have hm : (0 : ℝ) < minval := minval_pos
  simp only [quat2Vel, quatOne, mju_quat2Vel, mju_normalize3_eq, real_ofInt, real_atan2, ofSci_pi,
    decide_eq_true_eq, real_lt_iff]
  push_cast
  have ha : realAtan2 0 1 = 0 := by simp [realAtan2]
  simp [ha, hm, not_lt.mpr piLit_pos.le]

theorem subQuat_quatIntegrate_zero (q : Quat) (v : Vec3) (hq : normSq4 q = 1) :
    subQuat (quatIntegrate q v 0) q = (0, 0, 0) := by
  rw [quatIntegrate_zero_scale q v hq, subQuat_self q hq]

/-- the hypotheses of `subQuat_quatIntegrate` are satisfiable: q = 1, v = e_x, h = 1 (a rotation by 1 rad) -/
example : normSq4 quatOne = 1 ∧ minval ≤ Real.sqrt (normSq3 ((1 : ℝ), (0 : ℝ), (0 : ℝ))) ∧
    |(1 : ℝ) * Real.sqrt (normSq3 ((1 : ℝ), (0 : ℝ), (0 : ℝ)))| ≤ piLit ∧
    minval ≤ |Real.sin ((1 : ℝ) * Real.sqrt (normSq3 ((1 : ℝ), (0 : ℝ), (0 : ℝ))) * (1/2))| := by
  have e : Real.sqrt (normSq3 ((1 : ℝ), (0 : ℝ), (0 : ℝ))) = 1 := by simp [normSq3]
  rw [e]
  refine ⟨by simp [normSq4, quatOne], minval_lt_one.le, ?_, ?_⟩
  · unfold piLit; norm_num
  · have hs := Real.sin_gt_sub_cube (x := (1 : ℝ) * 1 * (1/2)) (by norm_num)
    have hm : minval < 1/4 := by unfold minval; norm_num
    rw [abs_of_pos (by nlinarith)]
    nlinarith

/-! ### analytic derivatives `mjd_subQuat`, `mjd_quatIntegrate` (engine_derivative.c) — partial

The property "the analytic derivatives are the derivatives" (`HasDerivAt` of `mju_subQuat` / `mju_quatIntegrate`
in tangent-space coordinates) is **not proved**; it is covered by the finite-difference oracle of
`checks/c24.py` on the compiled code.  The theorems below are the algebraic part that is proved about the
generated kernels. -/

/-- partial: `Db = -Daᵀ` for every input (what is missing: `Da` is the tangent-space derivative of
    `mju_subQuat` w.r.t. `qa`). -/
theorem mjd_subQuat_Db_partial (qa qb : Quat) :
    (mjdSubQuat qa qb).2 = matScale (-1) (matT (mjdSubQuat qa qb).1) := by
  obtain ⟨a0, a1, a2, a3⟩ := qa; obtain ⟨b0, b1, b2, b3⟩ := qb
  simp only [mjdSubQuat, mjd_subQuat, matT, matScale, real_ofInt, Prod.mk.injEq]
  push_cast
  tuple_ring

/-- partial: `Dscale = Dvel · vel` for every input (chain rule through the scaled velocity; what is missing:
    `Dvel` is the derivative w.r.t. the scaled velocity). -/
theorem mjd_quatIntegrate_Dscale_partial (vel : Vec3) (scale : ℝ) :
    (mjdQuatIntegrate vel scale).2.2 = mulMatVec3 (mjdQuatIntegrate vel scale).2.1 vel := by
  obtain ⟨v0, v1, v2⟩ := vel
  simp only [mjdQuatIntegrate, mjd_quatIntegrate, mulMatVec3, mju_mulMatVec3_eq, Prod.mk.injEq]
  tuple_ring

/-- partial: in the branch `|scale·vel| > 1/32` (closed-form coefficients, no Taylor expansion) the matrix `Dquat`
    is exactly the rotation matrix of the *inverse* of the increment quaternion that `mju_quatIntegrate`
    multiplies by, i.e. the adjoint of the increment — the known closed form of the derivative w.r.t. the
    quaternion (what is missing: the `HasDerivAt` statement itself and the Taylor branch). -/
theorem mjd_quatIntegrate_Dquat_partial (vel : Vec3) (scale : ℝ)
    (hx : 1 / 32 < Real.sqrt (normSq3 (scale * vel.1, scale * vel.2.1, scale * vel.2.2))) :
    (mjdQuatIntegrate vel scale).1 =
      quat2Mat (negQuat (axisAngle2Quat (normalize3 (scale * vel.1, scale * vel.2.1, scale * vel.2.2)).2
        (normalize3 (scale * vel.1, scale * vel.2.1, scale * vel.2.2)).1)) := by
  obtain ⟨v0, v1, v2⟩ := vel
  have hmv : minval ≤ Real.sqrt (normSq3 (scale * v0, scale * v1, scale * v2)) := by
    have : minval < 1 / 32 := by unfold minval; norm_num
    linarith
  rw [normalize3_norm, normalize3_parallel _ hmv]
  have hxx0 := Real.mul_self_sqrt (sumsq3_nonneg (scale * v0) (scale * v1) (scale * v2))
  simp only [normSq3] at hx ⊢
  set x := Real.sqrt (scale * v0 * (scale * v0) + scale * v1 * (scale * v1) + scale * v2 * (scale * v2)) with hx_def
  have hxpos : 0 < x := by linarith
  have hxne : x ≠ 0 := ne_of_gt hxpos
  have hcond : (1 : ℝ) / 32 < |x| := by rw [abs_of_pos hxpos]; exact hx
  have hc : Real.cos x = 2 * Real.cos (x * (1/2)) ^ 2 - 1 := by
    rw [← Real.cos_two_mul]; ring_nf
  have hs : Real.sin x = 2 * Real.sin (x * (1/2)) * Real.cos (x * (1/2)) := by
    rw [← Real.sin_two_mul]; ring_nf
  have hsc := Real.sin_sq_add_cos_sq (x * (1/2))
  have key := dquat_entries x (scale * v0) (scale * v1) (scale * v2) (Real.sin (x * (1/2)))
    (Real.cos (x * (1/2))) hxne hxx0 hsc
  simp only [Prod.mk.injEq] at key
  obtain ⟨k0, k1, k2, k3, k4, k5, k6, k7, k8⟩ := key
  simp only [mjdQuatIntegrate, mjd_quatIntegrate, mju_dot3, quat2Mat, negQuat, axisAngle2Quat,
    mju_axisAngle2Quat_eq, mju_negQuat_eq, mju_quat2Mat_eq, matF, real_ofInt, real_sqrt, real_cos, real_sin,
    real_abs, decide_eq_true_eq, real_lt_iff]
  push_cast
  rw [← hx_def]
  simp only [if_pos hcond]
  rw [hc, hs]
  simp only [Prod.mk.injEq]
  refine ⟨?_, ?_, ?_, ?_, ?_, ?_, ?_, ?_, ?_⟩
  · linear_combination k0
  · linear_combination k1
  · linear_combination k2
  · linear_combination k3
  · linear_combination k4
  · linear_combination k5
  · linear_combination k6
  · linear_combination k7
  · linear_combination k8

/-- the hypothesis of `mjd_quatIntegrate_Dquat_partial` is satisfiable: vel = e_x, scale = 1 -/
example : 1 / 32 < Real.sqrt (normSq3 ((1 : ℝ) * (1 : ℝ), (1 : ℝ) * (0 : ℝ), (1 : ℝ) * (0 : ℝ))) := by
  have e : Real.sqrt (normSq3 ((1 : ℝ) * (1 : ℝ), (1 : ℝ) * (0 : ℝ), (1 : ℝ) * (0 : ℝ))) = 1 := by simp [normSq3]
  rw [e]; norm_num

end MjProof.C24
