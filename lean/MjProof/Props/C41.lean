import MjProof.Lemmas.SchemaValidate
import MjProof.Lemmas.SchemaParse
/-
C41  The MJCF schema-language parser is total and its checks sound.

Property theorems only.  The model is `MjProof/Model/Schema*.lean` (`parseString`, a re-statement of
`doc/generate/mjcf_schema.py: parse_string`), tied to the tree by the exact differential run of
`checks/c41.py`; the documented rules are `MjProof/Spec/SchemaWF.lean`.

* Totality ("for every input text the parser either returns a schema or raises a schema error; no other
  exception escapes") is the fact that `parseString` is a total Lean function into `Except`: every recursion
  (lexer, all parser loops, `_check_group_cycle`, `_group_attrs`) is accepted by Lean's termination checker
  without fuel.  NOT modelled: Python's recursion limit (see `checks/c41.py` META and the oracle key
  `c41:recursionerror-deep-use-chain`).
* The error line bound holds by construction: line numbers have type `Line N = {l // 1 ≤ l ≤ N}`.
* Soundness: `accepted_*`, one theorem per documented rule; converse for the validator rules:
  `validate_ok_iff_wf`, `breach_rejected` and its instances.
All statements quantify over every text (`List Char`, i.e. every Python `str` without lone surrogates).
-/
namespace MjProof.C41
open MjProof.Schema

/-- The parser returns a schema or a schema error, for every text (totality of the model). -/
theorem parseString_total (text : List Char) :
    (∃ s, parseString text = .ok s) ∨ (∃ l c, parseString text = .error (l, c)) := by
  cases h : parseString text with
  | ok s => exact Or.inl ⟨s, rfl⟩
  | error e => exact Or.inr ⟨e.1, e.2, rfl⟩

/-- A reported error line lies within the text: `1 ≤ line ≤ 1 + (number of '\n')` (the line numbering
    of `_lex`; the last line is the one holding the `eof` token). -/
theorem error_line_within_text (text : List Char) (l : Line (nlines text)) (c : Cls)
    (_h : parseString text = .error (l, c)) : 1 ≤ l.val ∧ l.val ≤ 1 + text.count '\n' := by
  have := l.property
  simp only [nlines, nl] at this
  omega

theorem parseString_ok_iff {text : List Char} {s : Schema (nlines text)} :
    parseString text = .ok s ↔ parseText text = .ok s ∧ validate s = .ok () := by
  unfold parseString
  cases hp : parseText text with
  | error e => simp
  | ok s' =>
    cases hv : validate s' with
    | error e =>
      simp only [hv, reduceCtorEq, Except.ok.injEq, false_iff, not_and]
      rintro rfl; rw [hv]; simp
    | ok u =>
      cases u
      simp only [hv, Except.ok.injEq]
      constructor
      · rintro rfl; exact ⟨rfl, hv⟩
      · rintro ⟨rfl, _⟩; rfl

/-- `_validate` accepts exactly the schemas satisfying the declarative rules (soundness and rejection of
    every breach), for every schema value. -/
theorem validate_ok_iff_wf {N : Nat} (s : Schema N) : validate s = .ok () ↔ WF s := validate_ok_iff s

/-- Every accepted schema satisfies all documented rules (parse-level and validation-level). -/
theorem accepted_wf {text : List Char} {s : Schema (nlines text)} (h : parseString text = .ok s) :
    ParseWF s ∧ WF s :=
  let ⟨hp, hv⟩ := parseString_ok_iff.mp h
  ⟨parseText_wf hp, (validate_ok_iff s).mp hv⟩

section accepted
variable {text : List Char} {s : Schema (nlines text)} (h : parseString text = .ok s)
include h

/-- unique declarations: enum, group and element names are unique (per table). -/
theorem accepted_unique_declarations :
    (enumNames s).Nodup ∧ (groupNames s).Nodup ∧ (elementNames s).Nodup :=
  let w := (accepted_wf h).1
  ⟨w.enumsUnique, w.groupsUnique, w.elementsUnique⟩

/-- enums are non-empty and their XML keywords unique. -/
theorem accepted_enums_wellformed : ∀ e ∈ s.enums, e.items ≠ [] ∧ (e.items.map (·.1)).Nodup :=
  (accepted_wf h).1.enums

/-- groups are non-empty and contain no `child` / `set`. -/
theorem accepted_groups_nonempty :
    ∀ g ∈ s.groups, g.members ≠ [] ∧ ∀ m ∈ g.members, (∀ c, m ≠ .child c) ∧ (∀ c, m ≠ .const c) := by
  intro g hg
  have w := (accepted_wf h).1.groups g hg
  refine ⟨w.1, fun m hm => ?_⟩
  have := w.2 m hm
  cases m <;> simp_all [MemberParseWF]

/-- well-formed arities: a numeric upper bound is not below the lower bound; `enum/flags/ref/id` attributes
    are scalars with a target, scalar-typed attributes have none. -/
theorem accepted_arities_wellformed :
    ∀ ms ∈ containers s, ∀ a : Attr (nlines text), Member.attr a ∈ ms →
      (∀ hi, a.arity.hi = .num hi → a.arity.lo ≤ hi) ∧
      (a.type.hasTarget = true → a.target.isSome ∧ a.arity = ⟨1, .num 1⟩) ∧
      (a.type.hasTarget = false → a.target = none) := by
  intro ms hms a ha
  have w := (accepted_wf h).1
  have hw : AttrParseWF a := by
    rcases mem_containers.mp hms with ⟨g, hg, rfl⟩ | ⟨e, he, rfl⟩
    · exact (w.groups g hg).2 _ ha
    · exact (w.elements e he).2 _ ha
  exact ⟨hw.arity, hw.target, hw.noTarget⟩

/-- facets are known for their context (attribute / element) and not repeated. -/
theorem accepted_facets_known_unique :
    (∀ ms ∈ containers s, ∀ a : Attr (nlines text), Member.attr a ∈ ms → FacetsWF KNOWN_FACETS a.facets) ∧
    (∀ e ∈ s.elements, FacetsWF ELEMENT_FACETS e.facets) := by
  have w := (accepted_wf h).1
  refine ⟨fun ms hms a ha => ?_, fun e he => (w.elements e he).1⟩
  rcases mem_containers.mp hms with ⟨g, hg, rfl⟩ | ⟨e, he, rfl⟩
  · exact ((w.groups g hg).2 _ ha).facets
  · exact ((w.elements e he).2 _ ha).facets

/-- presence constraints have at least two bundles, none empty. -/
theorem accepted_constraints_wellformed :
    ∀ ms ∈ containers s, ∀ c : Constraint (nlines text), Member.con c ∈ ms →
      2 ≤ c.bundles.length ∧ ∀ b ∈ c.bundles, b ≠ [] := by
  intro ms hms c hc
  have w := (accepted_wf h).1
  rcases mem_containers.mp hms with ⟨g, hg, rfl⟩ | ⟨e, he, rfl⟩
  · exact (w.groups g hg).2 _ hc
  · exact (w.elements e he).2 _ hc

/-- no cyclic `use` references. -/
theorem accepted_no_use_cycle : ∀ n : String, ¬ Reach s n n := (accepted_wf h).2.noUseCycle

/-- no dangling `use` references. -/
theorem accepted_no_dangling_use :
    ∀ ms ∈ containers s, ∀ u : Use (nlines text), Member.use u ∈ ms → u.group ∈ groupNames s :=
  (accepted_wf h).2.noDanglingUse

/-- variant groups contain no `use` and no required attribute. -/
theorem accepted_variant_groups : VariantGroupsWF s := (accepted_wf h).2.variantGroups

/-- constraints refer to declared attributes (direct ones in a group, expanded ones in an element) and
    `requires` takes exactly two attributes. -/
theorem accepted_constraints_resolved : GroupConstraintsResolved s ∧ ElementConstraintsWF s :=
  ⟨(accepted_wf h).2.groupConstraints, (accepted_wf h).2.elementConstraints⟩

/-- element facets `xml`/`alias` carry names and the alias is a declared element. -/
theorem accepted_element_facets : ElementFacetsWF s := (accepted_wf h).2.elementFacets

/-- children refer to declared elements, each at most once. -/
theorem accepted_children_resolved_unique : ChildrenWF s := (accepted_wf h).2.children

/-- no duplicate attributes after group expansion. -/
theorem accepted_expanded_attrs_nodup :
    ∀ e ∈ s.elements, ((expandedAttrs s e.members).map (·.name)).Nodup := (accepted_wf h).2.expandedNodup

/-- every attribute satisfies the per-attribute rules (targets declared, arity restrictions of
    file/bool/chars, facet payloads, required ⇒ no default, default consistent). -/
theorem accepted_attrs_wellformed : AttrsWF s := (accepted_wf h).2.attrs

/-- defaults are consistent with type and arity. -/
theorem accepted_defaults_consistent :
    ∀ ms ∈ containers s, ∀ a : Attr (nlines text), Member.attr a ∈ ms →
      ∀ d, a.default = some d → DefaultWF s a d :=
  fun ms hms a ha => ((accepted_wf h).2.attrs ms hms a ha).default

/-- In an accepted schema the model's group expansion satisfies the recursion of Python's `_group_attrs`
    (the path argument that makes the model total is immaterial). -/
theorem groupAttrs_unfold {n : String} {g : Group (nlines text)} (hf : findGroup s n = some g) :
    groupAttrs s n [] = expandedAttrs s g.members :=
  groupAttrs_unfold' (accepted_wf h).2.noUseCycle hf

end accepted

/-! ## the converse: a schema breaking a validation rule is rejected -/

/-- Any breach of a validation rule is rejected: if the parsed schema is not `WF`, `parse_string` raises. -/
theorem breach_rejected {text : List Char} {s : Schema (nlines text)} (hp : parseText text = .ok s)
    (hb : ¬ WF s) : ∃ e, parseString text = .error e := by
  cases hr : parseString text with
  | error e => exact ⟨e, rfl⟩
  | ok s' =>
    have ⟨hp', hv⟩ := parseString_ok_iff.mp hr
    rw [hp] at hp'; cases hp'
    exact absurd ((validate_ok_iff s).mp hv) hb

/-- a `use` cycle is rejected. -/
theorem use_cycle_rejected {text : List Char} {s : Schema (nlines text)} (hp : parseText text = .ok s)
    {n : String} (hc : Reach s n n) : ∃ e, parseString text = .error e :=
  breach_rejected hp (fun w => w.noUseCycle n hc)

/-- a dangling `use` is rejected. -/
theorem dangling_use_rejected {text : List Char} {s : Schema (nlines text)} (hp : parseText text = .ok s)
    {ms : List (Member (nlines text))} (hms : ms ∈ containers s) {u : Use (nlines text)}
    (hu : Member.use u ∈ ms) (hd : u.group ∉ groupNames s) : ∃ e, parseString text = .error e :=
  breach_rejected hp (fun w => hd (w.noDanglingUse ms hms u hu))

/-- a duplicate attribute after group expansion is rejected. -/
theorem duplicate_expanded_attr_rejected {text : List Char} {s : Schema (nlines text)}
    (hp : parseText text = .ok s) {e : Element (nlines text)} (he : e ∈ s.elements)
    (hd : ¬ ((expandedAttrs s e.members).map (·.name)).Nodup) : ∃ e, parseString text = .error e :=
  breach_rejected hp (fun w => hd (w.expandedNodup e he))

/-- a default inconsistent with type or arity is rejected. -/
theorem bad_default_rejected {text : List Char} {s : Schema (nlines text)} (hp : parseText text = .ok s)
    {ms : List (Member (nlines text))} (hms : ms ∈ containers s) {a : Attr (nlines text)}
    (ha : Member.attr a ∈ ms) {d : Default} (hd : a.default = some d) (hbad : ¬ DefaultWF s a d) :
    ∃ e, parseString text = .error e :=
  breach_rejected hp (fun w => hbad ((w.attrs ms hms a ha).default d hd))

/-! ## non-vacuity -/

/-- The empty text is accepted (trivial instance of the hypotheses of the `accepted_*` theorems; non-trivial
    accepted texts — e.g. the real `src/xml/mjcf.schema` — are evaluated by the compiled model in the
    differential run, they are too large for in-kernel evaluation of the well-founded recursions). -/
example : parseString [] = .ok ⟨[], [], []⟩ := by
  simp [parseString, parseText, lex, lexAux, parseDecls, nextTok, validate, forAll, andThen, containers]

/-- A text that is rejected, with its line. -/
example : ∃ l c, parseString "e".toList = .error (l, c) ∧ l.val = 1 := by
  simp [parseString, parseText, lex, lexAux, isIdentStart, countWhile, numberLen, unsignedLen,
    isDigit, digitVal?, parseDecls, nextTok]

def ln (n : Nat) (h : 1 ≤ n ∧ n ≤ 9 := by omega) : Line 9 := ⟨n, h⟩

def aPos : Attr 9 :=
  ⟨"pos", .double, none, ⟨3, .num 3⟩, some (.vec [⟨false, 0⟩, ⟨false, 0⟩, ⟨false, 0⟩]), [], none, ln 3⟩
def aSize : Attr 9 := ⟨"size", .double, none, ⟨0, .num 3⟩, none, [("min", .num ⟨false, 0⟩)], none, ln 6⟩
def aT : Attr 9 := ⟨"t", .enum, some "k", ⟨1, .num 1⟩, some (.str "a"), [], none, ln 6⟩
def demoGroup : Group 9 := ⟨"g", false, [.attr aPos], none, ln 2⟩
def demoElem : Element 9 :=
  ⟨"e", none, [],
   [.use ⟨"g", ln 5⟩, .attr aSize, .attr aT, .con ⟨.exclusive, [["pos"], ["size"]], none, ln 7⟩,
    .child ⟨"e", .star, none, ln 8⟩], none, ln 4⟩

/-- enum k { a = 0 }
    group g { pos : double[3] = {0, 0, 0} }
    element e { use g;  size : double[0..3] (min=0);  t : enum<k> = a;  exclusive pos size;  child e * } -/
def demo : Schema 9 := ⟨[⟨"k", none, [("a", "0")], none, ln 1⟩], [demoGroup], [demoElem]⟩

theorem demo_noEdge (a b : String) : ¬ UseEdge demo a b := by
  rintro ⟨g, u, hg, hu, _⟩
  have hm := List.mem_of_find?_eq_some hg
  simp only [demo, List.mem_singleton] at hm
  subst hm
  simp [demoGroup] at hu

theorem demo_noCycle : NoUseCycle demo := by
  intro n h
  cases h with
  | step e => exact demo_noEdge _ _ e
  | trans e _ => exact demo_noEdge _ _ e

theorem demo_expanded : expandedAttrs demo demoElem.members = [aPos, aSize, aT] := by
  have hf : findGroup demo "g" = some demoGroup := by simp [findGroup, demo, demoGroup]
  have hg := groupAttrs_unfold' demo_noCycle hf
  simp only [demoGroup, expandedAttrs] at hg
  simp only [demoElem, expandedAttrs, hg, List.cons_append, List.nil_append]

theorem demo_valid : validate demo = .ok () := by
  unfold validate
  simp only [andThen_ok, forAll_ok]
  refine ⟨(checkCycle_all_iff demo).mpr demo_noCycle, ?_, ?_, ?_, ?_⟩
  · intro g hg
    simp only [demo, List.mem_singleton] at hg
    subst hg
    simp [validateGroup, demoGroup, forAll, memberCons, andThen]
  · intro ms hms
    simp only [containers, demo, List.map_cons, List.map_nil, List.cons_append, List.nil_append,
      List.mem_cons, List.not_mem_nil, or_false] at hms
    rcases hms with rfl | rfl <;>
      simp [checkUses, memberUses, forAll, chk, groupNames, demoGroup, demoElem, demo]
  · intro e he
    simp only [demo, List.mem_singleton] at he
    subst he
    unfold validateElement
    rw [demo_expanded]
    simp [demoElem, Facets.get, isBadNameFacet, danglingAlias, memberChildren, checkChildren,
      elementNames, demo, checkDupAttrs, seenLine, aPos, aSize, aT, memberCons, forAll, checkElementCon,
      checkConNames, chk, andThen, ln]
  · intro ms hms
    have hns : namespaces demo = [] := by
      simp [namespaces, containers, demo, demoGroup, demoElem, memberAttrs, aPos, aSize, aT]
    rw [hns]
    simp only [containers, demo, List.map_cons, List.map_nil, List.cons_append, List.nil_append,
      List.mem_cons, List.not_mem_nil, or_false] at hms
    rcases hms with rfl | rfl <;>
      simp [demoGroup, demoElem, memberAttrs, validateAttr, chk, andThen, aPos, aSize, aT, targetIn,
        enumNames, Facets.get, badMinMax, minGtMax, truthy, Arity.isScalar, Hi.isNum, Ty.numeric,
        FacetVal.isNumeric, validateDefault, Hi.ltNat, enumKeywords, findEnum, demo]

/-- A non-trivial schema (an enum, a group, an element with `use`, attributes with vector / enum defaults
    and a `min` facet, a presence constraint, a recursive child) satisfies every validation rule: the
    right-hand side of `validate_ok_iff_wf` and the conclusions of the `accepted_*` theorems are inhabited. -/
theorem demo_wf : WF demo := (validate_ok_iff_wf demo).mp demo_valid

/-- A schema with a `use` cycle: the hypotheses of `use_cycle_rejected` / `breach_rejected` are satisfiable. -/
def cyc : Schema 9 :=
  ⟨[], [⟨"a", false, [.use ⟨"b", ln 2⟩], none, ln 1⟩, ⟨"b", false, [.use ⟨"a", ln 4⟩], none, ln 3⟩], []⟩

example : Reach cyc "a" "a" ∧ ¬ WF cyc := by
  have hab : UseEdge cyc "a" "b" := ⟨_, ⟨"b", ln 2⟩, by simp [findGroup, cyc]; rfl, by simp, rfl⟩
  have hba : UseEdge cyc "b" "a" := ⟨_, ⟨"a", ln 4⟩, by simp [findGroup, cyc]; rfl, by simp, rfl⟩
  have hr : Reach cyc "a" "a" := .trans hab (.step hba)
  exact ⟨hr, fun w => w.noUseCycle _ hr⟩

end MjProof.C41
