/-
C30  Numerical blow-ups are contained (DESIGN.md §5.C30).

What is proved (for all inputs):
* `isBad_iff`, `isBad_values`: the translator-generated `mju_isBad` on the reals is 1 exactly when |x| > mjMAXVAL = 1e10
  (and is 0 otherwise).  NaN and ±Inf are not real numbers: `isBadFC_iff` is the same statement for the value
  classes of a double (`BadCheck.FloatClass`, IEEE comparison rules written out), and `isBadFC_fin_eq_gen` says the
  two agree on finite values.  The classification itself (a hand model of IEEE comparisons) is tied to the real
  function by the bit-pattern differential of checks/c30.py, not by a proof.
* `gen_checkPos_refines`, `gen_checkVel_refines`, `gen_checkAcc_refines`: running the translator-generated skeleton
  of mj_checkPos / mj_checkVel / mj_checkAcc (`Gen.Pipeline`, regenerated from engine_forward.c on every run) under
  the atom semantics of Model/BadCheck.lean terminates normally, executes no unknown atom and computes exactly the
  decision logic `BadCheck.check`, for every vector, every warning record, both values of the autoreset flag and of
  the sleep flag, every awake-index list and every loop fuel > n.
* `check_catches`, `check_catches_every_index`, `check_reports_first`, `check_clean`, `check_fires_iff`: a bad entry at
  ANY scanned index makes the check fire: the warning record is bumped (twice: `mj_warning` and `number++`); with
  autoreset the data is reset first (so the counter restarts: it is 1 afterwards, whatever it was before), for
  mj_checkAcc `mj_forward` is re-run after the reset; the reported index is the first bad one in scan order; a
  vector without bad scanned entries is left alone.  mj_checkPos scans every index; mj_checkVel / mj_checkAcc scan
  every index unless sleeping is enabled and some dof is asleep (then only `dof_awake_ind[0..nv_awake)`).
* `scan_sites_cover`, `scan_sites_complete`, `covers_of_wellBounded`, `wellBounded_of_covers`: the table of bad-value scan
  loops regenerated from engine_forward.c (`Gen.C30Scans.sites`: mj_checkPos, mj_checkVel, mj_checkAcc and the control
  validation inside mj_fwdActuation) is exactly these four loops, nothing was refused, and every one of them visits
  EVERY index below the declared length of its array for ALL values of the model dimensions (m->nq, m->nv, m->nu,
  m->nactuator, ... are independent numbers: nq ≠ nv with ball / free joints, nu ≠ nactuator with multi-input
  actuators).  The criterion (counter starts at 0, bound textually the declared length) is proved equivalent to the
  semantic statement, so a loop bounded by another dimension breaks `scan_sites_cover`.
* `ctrlScan_catches`, `ctrlScan_clean`, `gen_ctrl_scan_catches`, `gen_ctrl_site_exists`, `ctrlScan_misses_beyond_bound`:
  the control validation of mj_fwdActuation on the local copy of the controls, with the bound and the zeroed count of
  the generated site evaluated under an arbitrary size assignment: a bad entry at any index of the nu controls raises
  the warning with the first bad index and replaces ALL controls by zero; clean controls are used as they are; and
  (sharpness) a loop that stops earlier lets a bad control behind its bound through, unreported.
* `step_check_order`: in the generated skeleton of mj_step the first four stages are mj_checkPos, mj_checkVel,
  mj_forward, mj_checkAcc (kernel-evaluated on the generated program).
* `post_step_finite_partial`: if no check fires, the explicit Euler update of a scalar joint stays far below the
  largest finite double for |h| ≤ 1e140 (real arithmetic; quaternion joints, the implicit integrators, RK4 and
  rounding are not covered — hence `_partial`; the engine oracle of checks/c30.py covers mj_step itself).
-/
import MjProof.Lemmas.BadCheck
import MjProof.Lemmas.RealNum
import MjProof.Gen.Kernels
import MjProof.Gen.C30Scans
import Mathlib.Tactic.Ring
import Mathlib.Tactic.Linarith
import Mathlib.Tactic.NormNum

namespace MjProof.C30
open MjProof MjProof.Prog MjProof.BadCheck

/-! ### the predicate -/

/-- the generated `mju_isBad` on the reals: 1 exactly for |x| > 1e10 -/
theorem isBad_iff (x : ℝ) : Gen.mju_isBad x = 1 ↔ (10000000000 : ℝ) < |x| := by
  simp only [Gen.mju_isBad, real_beq, real_ofInt, real_lt_iff]
  have : ((10000000000 : Int) : ℝ) = 10000000000 := by norm_num
  rw [this]
  rcases le_or_gt 0 x with h | h
  · rw [abs_of_nonneg h]
    by_cases hx : (10000000000 : ℝ) < x
    · simp [hx]
    · have : ¬ x < -10000000000 := by linarith
      simp [hx, this]
  · rw [abs_of_neg h]
    by_cases hx : x < -(10000000000 : ℝ)
    · have : (10000000000 : ℝ) < -x := by linarith
      simp [hx, this]
    · have h1 : ¬ (10000000000 : ℝ) < x := by linarith
      have h2 : ¬ (10000000000 : ℝ) < -x := by linarith
      simp [hx, h1, h2]

/-- it returns 0 or 1 -/
theorem isBad_values (x : ℝ) : Gen.mju_isBad x = 0 ∨ Gen.mju_isBad x = 1 := by
  simp only [Gen.mju_isBad]
  split <;> simp

example : Gen.mju_isBad (20000000000 : ℝ) = 1 := (isBad_iff _).2 (by rw [abs_of_pos] <;> norm_num)
example : Gen.mju_isBad (-3 : ℝ) ≠ 1 := fun h => by
  have := (isBad_iff _).1 h; rw [abs_of_neg (by norm_num)] at this; norm_num at this

/-- on finite values the value-class model of the C expression is the generated kernel -/
theorem isBadFC_fin_eq_gen (r : ℝ) : (FloatClass.fin r).isBad = decide (Gen.mju_isBad r = 1) := by
  simp only [FloatClass.isBad, FloatClass.neSelf, FloatClass.gt, FloatClass.lt, maxval, Gen.mju_isBad, real_beq,
    real_ofInt, real_lt_iff]
  by_cases h1 : (10000000000 : ℝ) < r
  · have : ¬ r ≤ 10000000000 := not_le.2 h1
    simp [h1, this]
  · have : r ≤ 10000000000 := not_lt.1 h1
    simp [h1, this]

/-- `mju_isBad` on the value classes of a double: true exactly for NaN, ±Inf and finite values beyond ±1e10 -/
theorem isBadFC_iff (x : FloatClass ℝ) :
    x.isBad = true ↔ match x with
      | .nan => True
      | .pinf => True
      | .ninf => True
      | .fin r => (10000000000 : ℝ) < |r| := by
  cases x with
  | nan => simp [FloatClass.isBad, FloatClass.neSelf]
  | pinf => simp [FloatClass.isBad, FloatClass.neSelf, FloatClass.gt]
  | ninf => simp [FloatClass.isBad, FloatClass.neSelf, FloatClass.gt, FloatClass.lt]
  | fin r => rw [isBadFC_fin_eq_gen]; simp [isBad_iff]

/-! ### the generated skeletons compute `check` -/
section Refine
variable {α : Type} {n : Nat}

theorem scanned_length (W : Which) (c : Cfg α n) :
    (scanned W c).length = if sleepFilter W c then c.awake.length else n := by
  unfold scanned; split <;> simp

theorem scanned_length_le (W : Which) (c : Cfg α n) : (scanned W c).length ≤ n := by
  rw [scanned_length]
  split
  · next h =>
    cases W
    · simp [sleepFilter] at h
    all_goals (simp [sleepFilter] at h; omega)
  · exact Nat.le_refl n

theorem scanned_getElem? (W : Which) (c : Cfg α n) (j : Nat) :
    (scanned W c)[j]? = if sleepFilter W c then c.awake[j]? else fin? n j := by
  unfold scanned; split <;> simp [finRange_getElem?]

/-- mj_checkPos: generated skeleton = decision logic -/
theorem gen_checkPos_refines (c : Cfg α n) (fuel : Nat) (hf : n < fuel) (d : Dat α n) :
    let r := run fuel (menv c) (sem .pos c) [] (.scope "mj_checkPos" [] Gen.Pipeline.mj_checkPos) (start d)
    r.1 = .norm ∧ r.2.d = check .pos c d ∧ r.2.junk = false := by
  simp only [Gen.Pipeline.mj_checkPos, seqs, run, bindEnv, List.map_nil, sem]
  have hL : (scanned .pos c).length = n := by simp [scanned, sleepFilter]
  refine scope_scan .pos c (scanned .pos c) _ _
    (fun s => s.cnt = n ∧ s.junk = false ∧ s.i = (scanned .pos c)[s.j]?)
    ?hcond ?hjunk ?hbody fuel _ ?hI ?hj0 ?hf |>.imp id (And.imp ?res id)
  case res =>
    intro h; refine Eq.trans h ?_; simp [check, firstBad, start, atom_nq, atom_qpos, atom_i0]
  case hcond =>
    intro s ⟨h1, _, _⟩
    simp [Guard.eval, guard_iq, h1, hL]
  case hjunk => intro s h; exact h.2.1
  case hbody =>
    intro s hj ⟨h1, h2, h3⟩
    have hi : s.i = some (scanned .pos c)[s.j] := by rw [h3]; exact List.getElem?_eq_getElem hj
    constructor
    · intro hbad
      cases hauto : c.autoreset <;>
        simp [Guard.eval, guard_bad .pos c _ _ rfl, badAt, atom_warn .pos c _ _ rfl, atom_reset,
          atom_incr .pos c _ _ rfl, atom_info .pos c _ _ rfl, infoM, bumpM, menv_autoreset, hi, hbad, hauto, fire,
          bump, reset, h2]
    · intro hbad
      have hnext : fin? n (s.j + 1) = (scanned .pos c)[s.j + 1]? := by
        simp [scanned, sleepFilter, finRange_getElem?]
      simp [Guard.eval, guard_bad .pos c _ _ rfl, badAt, atom_ipp, hi, hbad, h1, h2, hnext]
  case hI => simp [start, atom_nq, atom_qpos, atom_i0, scanned, sleepFilter, finRange_getElem?]
  case hj0 => simp [atom_i0]
  case hf => omega

/-- mj_checkVel: generated skeleton = decision logic (sleep filter included) -/
theorem gen_checkVel_refines (c : Cfg α n) (fuel : Nat) (hf : n < fuel) (d : Dat α n) :
    let r := run fuel (menv c) (sem .vel c) [] (.scope "mj_checkVel" [] Gen.Pipeline.mj_checkVel) (start d)
    r.1 = .norm ∧ r.2.d = check .vel c d ∧ r.2.junk = false := by
  simp only [Gen.Pipeline.mj_checkVel, seqs, run, bindEnv, List.map_nil, sem]
  have hF : sleepFilter .vel c = (c.enblSleep && decide (c.awake.length < n)) := rfl
  refine scope_scan .vel c (scanned .vel c) _ _
    (fun s => s.cnt = (scanned .vel c).length ∧ s.junk = false ∧ s.filter = sleepFilter .vel c)
    ?hcond ?hjunk ?hbody fuel _ ?hI ?hj0 ?hf |>.imp id (And.imp ?res id)
  case res =>
    intro h; refine Eq.trans h ?_; simp [check, firstBad, start, atom_filter, atom_nv, atom_j0]
  case hcond =>
    intro s ⟨h1, _, _⟩
    simp [Guard.eval, guard_jv, h1]
  case hjunk => intro s h; exact h.2.1
  case hbody =>
    intro s hj ⟨h1, h2, h3⟩
    have hi : (if sleepFilter .vel c then c.awake[s.j]? else fin? n s.j) = some (scanned .vel c)[s.j] := by
      rw [← scanned_getElem?]; exact List.getElem?_eq_getElem hj
    constructor
    · intro hbad
      cases hauto : c.autoreset <;>
        simp [Guard.eval, guard_bad .vel c _ _ rfl, badAt, atom_warn .vel c _ _ rfl, atom_reset,
          atom_incr .vel c _ _ rfl, atom_info .vel c _ _ rfl, atom_idx, infoM, bumpM, menv_autoreset, h3, hi, hbad,
          hauto, fire, bump, reset, h2]
    · intro hbad
      simp [Guard.eval, guard_bad .vel c _ _ rfl, badAt, atom_jpp, atom_idx, hi, hbad, h1, h2, h3]
  case hI => simp [start, atom_filter, atom_nv, atom_j0, scanned_length, hF]
  case hj0 => simp [atom_j0]
  case hf => have := scanned_length_le .vel c; omega

/-- mj_checkAcc: generated skeleton = decision logic (reset, then mj_forward, when autoreset is on) -/
theorem gen_checkAcc_refines (c : Cfg α n) (fuel : Nat) (hf : n < fuel) (d : Dat α n) :
    let r := run fuel (menv c) (sem .acc c) [] (.scope "mj_checkAcc" [] Gen.Pipeline.mj_checkAcc) (start d)
    r.1 = .norm ∧ r.2.d = check .acc c d ∧ r.2.junk = false := by
  simp only [Gen.Pipeline.mj_checkAcc, seqs, run, bindEnv, List.map_nil, sem]
  have hF : sleepFilter .acc c = (c.enblSleep && decide (c.awake.length < n)) := rfl
  refine scope_scan .acc c (scanned .acc c) _ _
    (fun s => s.cnt = (scanned .acc c).length ∧ s.junk = false ∧ s.filter = sleepFilter .acc c)
    ?hcond ?hjunk ?hbody fuel _ ?hI ?hj0 ?hf |>.imp id (And.imp ?res id)
  case res =>
    intro h; refine Eq.trans h ?_; simp [check, firstBad, start, atom_filter, atom_nv, atom_j0]
  case hcond =>
    intro s ⟨h1, _, _⟩
    simp [Guard.eval, guard_jv, h1]
  case hjunk => intro s h; exact h.2.1
  case hbody =>
    intro s hj ⟨h1, h2, h3⟩
    have hi : (if sleepFilter .acc c then c.awake[s.j]? else fin? n s.j) = some (scanned .acc c)[s.j] := by
      rw [← scanned_getElem?]; exact List.getElem?_eq_getElem hj
    constructor
    · intro hbad
      cases hauto : c.autoreset <;>
        simp [Guard.eval, guard_bad .acc c _ _ rfl, badAt, atom_warn .acc c _ _ rfl, atom_reset,
          atom_incr .acc c _ _ rfl, atom_info .acc c _ _ rfl, atom_idx, atom_forward, infoM, bumpM, menv_autoreset,
          h3, hi, hbad, hauto, fire, bump, reset, forward, h2]
    · intro hbad
      simp [Guard.eval, guard_bad .acc c _ _ rfl, badAt, atom_jpp, atom_idx, hi, hbad, h1, h2, h3]
  case hI => simp [start, atom_filter, atom_nv, atom_j0, scanned_length, hF]
  case hj0 => simp [atom_j0]
  case hf => have := scanned_length_le .acc c; omega

end Refine

/-! ### what the decision logic guarantees -/
section Logic
variable {α : Type} {n : Nat}

/-- the check fires exactly when some scanned entry is bad -/
theorem check_fires_iff (W : Which) (c : Cfg α n) (d : Dat α n) :
    (firstBad W c d).isSome = true ↔ ∃ i ∈ scanned W c, c.isBad d.vec[i.val] = true := by
  simp [firstBad, List.find?_isSome]

/-- the reported index is the first bad one in scan order -/
theorem check_reports_first (W : Which) (c : Cfg α n) (d : Dat α n) (i : Fin n) (h : firstBad W c d = some i) :
    c.isBad d.vec[i.val] = true ∧ (check W c d).lastinfo = (i.val : Int) ∧
    ∃ k : Nat, ∃ hk : k < (scanned W c).length, (scanned W c)[k] = i ∧
      ∀ (j : Nat) (hj : j < k), c.isBad d.vec[((scanned W c)[j]'(by omega)).val] = false := by
  unfold firstBad at h
  refine ⟨by simpa using List.find?_some h, ?_, ?_⟩
  · have : firstBad W c d = some i := h
    simp only [check, this, react, fire, bump, reset, forward]
    split <;> split <;> rfl
  · obtain ⟨k, hk, hki, hlt⟩ := List.find?_eq_some_iff_getElem.1 h |>.2
    refine ⟨k, hk, hki, ?_⟩
    intro j hj
    simpa using hlt j hj

/-- a bad entry at a scanned index is caught: warning bumped; with autoreset the data is reset (and, for the
    acceleration check, mj_forward re-run); without autoreset the vector is left as it is -/
theorem check_catches (W : Which) (c : Cfg α n) (d : Dat α n) (i : Fin n) (hi : i ∈ scanned W c)
    (hbad : c.isBad d.vec[i.val] = true) :
    0 < (check W c d).number ∧
    (c.autoreset = false →
      (check W c d).number = d.number + 2 ∧ (check W c d).vec = d.vec ∧ (check W c d).resets = d.resets ∧
      (check W c d).forwards = d.forwards) ∧
    (c.autoreset = true →
      (check W c d).number = 1 ∧ (check W c d).resets = d.resets + 1 ∧
      (W ≠ .acc → (check W c d).vec = c.vec0 ∧ (check W c d).forwards = d.forwards) ∧
      (W = .acc → (check W c d).vec = c.fwd c.vec0 ∧ (check W c d).forwards = d.forwards + 1)) := by
  have hs : (firstBad W c d).isSome = true := (check_fires_iff W c d).2 ⟨i, hi, hbad⟩
  obtain ⟨k, hk⟩ := Option.isSome_iff_exists.1 hs
  simp only [check, hk, react, fire]
  cases hauto : c.autoreset <;> cases W <;> simp [bump, reset, forward]

/-- mj_checkPos always, and mj_checkVel / mj_checkAcc whenever no dof is filtered out by sleeping, scan every
    index: a bad entry ANYWHERE is caught -/
theorem check_catches_every_index (W : Which) (c : Cfg α n) (d : Dat α n) (i : Fin n)
    (hs : sleepFilter W c = false) (hbad : c.isBad d.vec[i.val] = true) :
    0 < (check W c d).number ∧ (c.autoreset = true → (check W c d).resets = d.resets + 1) := by
  have hi : i ∈ scanned W c := by simp [scanned, hs]
  obtain ⟨h1, _, h3⟩ := check_catches W c d i hi hbad
  exact ⟨h1, fun h => (h3 h).2.1⟩

theorem sleepFilter_pos (c : Cfg α n) : sleepFilter .pos c = false := rfl
theorem sleepFilter_nosleep (W : Which) (c : Cfg α n) (h : c.enblSleep = false) : sleepFilter W c = false := by
  cases W <;> simp [sleepFilter, h]

/-- no bad scanned entry: the check changes nothing (no warning, no reset) -/
theorem check_clean (W : Which) (c : Cfg α n) (d : Dat α n)
    (h : ∀ i ∈ scanned W c, c.isBad d.vec[i.val] = false) : check W c d = d := by
  have : firstBad W c d = none := by
    simp only [firstBad, List.find?_eq_none]
    intro i hi; simp [h i hi]
  simp [check, this, react]

/-- end to end for positions: the generated mj_checkPos catches a bad value at every index -/
theorem gen_checkPos_catches (c : Cfg α n) (fuel : Nat) (hf : n < fuel) (d : Dat α n) (i : Fin n)
    (hbad : c.isBad d.vec[i.val] = true) :
    let r := run fuel (menv c) (sem .pos c) [] (.scope "mj_checkPos" [] Gen.Pipeline.mj_checkPos) (start d)
    0 < r.2.d.number ∧ (c.autoreset = true → r.2.d.resets = d.resets + 1 ∧ r.2.d.vec = c.vec0) := by
  intro r
  obtain ⟨_, h2, _⟩ := gen_checkPos_refines c fuel hf d
  have hi : i ∈ scanned .pos c := by simp [scanned, sleepFilter]
  obtain ⟨h1, _, h3⟩ := check_catches .pos c d i hi hbad
  show 0 < r.2.d.number ∧ _
  rw [show r.2.d = check .pos c d from h2]
  exact ⟨h1, fun h => ⟨(h3 h).2.1, ((h3 h).2.2.1 (by decide)).1⟩⟩

/-- non-vacuity: a concrete vector with one bad entry, counter already at 5, autoreset on: the counter is 1
    afterwards (reset clears it), the data is reset -/
example :
    let c : Cfg Nat 3 := { isBad := fun x => decide (10 < x), vec0 := #v[0, 0, 0], fwd := id, autoreset := true,
                           enblSleep := false, awake := [] }
    let d : Dat Nat 3 := { vec := #v[1, 50, 2], number := 5, lastinfo := 0, resets := 0, forwards := 0 }
    (check .vel c d).number = 1 ∧ (check .vel c d).lastinfo = 1 ∧ (check .vel c d).vec = #v[0, 0, 0] ∧
    (check .vel c d).resets = 1 := by decide

example :
    let c : Cfg Nat 3 := { isBad := fun x => decide (10 < x), vec0 := #v[0, 0, 0], fwd := id, autoreset := false,
                           enblSleep := false, awake := [] }
    let d : Dat Nat 3 := { vec := #v[1, 50, 2], number := 5, lastinfo := 0, resets := 0, forwards := 0 }
    (check .acc c d).number = 7 ∧ (check .acc c d).vec = #v[1, 50, 2] := by decide

end Logic

/-! ### which indices the scan loops visit, for every model size

`Gen.C30Scans.sites` is regenerated from engine_forward.c by translate/c30_scans.py on every run. -/
section Sites
open Gen.C30Scans

theorem covers_of_wellBounded (s : ScanSite) (h : s.wellBounded = true) : s.covers := by
  intro sz i hi
  simp only [ScanSite.wellBounded, Bool.and_eq_true, beq_iff_eq] at h
  obtain ⟨h0, hb⟩ := h
  simp only [ScanSite.visited, List.mem_range'_1, h0, hb]
  omega

theorem wellBounded_of_covers (s : ScanSite) (h : s.covers) : s.wellBounded = true := by
  simp only [ScanSite.wellBounded, Bool.and_eq_true, beq_iff_eq]
  constructor
  · have := h (fun _ => 1) 0 (by simp)
    simp only [ScanSite.visited, List.mem_range'_1] at this
    omega
  · by_cases hne : s.bound = s.declared
    · exact hne
    exfalso
    have := h (fun t => if t = s.declared then 1 else 0) 0 (by simp)
    simp only [ScanSite.visited, List.mem_range'_1, hne, if_false] at this
    omega

theorem scan_sites_wellBounded : ∀ s ∈ sites, s.wellBounded = true := by decide

theorem scan_sites_cover : ∀ s ∈ sites, s.covers := fun s hs => covers_of_wellBounded s (scan_sites_wellBounded s hs)

theorem scan_sites_complete :
    sites.map (fun s => (s.func, s.array, s.warn)) =
      [("mj_checkPos", "d->qpos", "mjWARN_BADQPOS"), ("mj_checkVel", "d->qvel", "mjWARN_BADQVEL"),
       ("mj_checkAcc", "d->qacc", "mjWARN_BADQACC"), ("mj_fwdActuation", "local ctrl", "mjWARN_BADCTRL")] ∧
    refused = [] := by decide
end Sites

section Ctrl
variable {α : Type}

/-- the predicate the loop evaluates at index `i` -/
theorem firstBadBelow_spec (isBad : α → Bool) (v : List α) (bound k : Nat) (h : firstBadBelow isBad v bound = some k) :
    k < bound ∧ (∃ hk : k < v.length, isBad v[k] = true) ∧
    ∀ j, j < k → ∀ hj : j < v.length, isBad v[j] = false := by
  unfold firstBadBelow at h
  obtain ⟨hp, idx, hidx, hget, hlt⟩ := List.find?_eq_some_iff_getElem.1 h
  simp only [List.getElem_range] at hget
  subst hget
  refine ⟨by simpa using hidx, ?_, ?_⟩
  · cases hv : v[idx]? with
    | none => simp [hv] at hp
    | some x =>
      obtain ⟨hk, hx⟩ := List.getElem?_eq_some_iff.1 hv
      exact ⟨hk, by simpa [hv, hx] using hp⟩
  · intro j hj hjl
    have := hlt j hj
    simpa [List.getElem_range, List.getElem?_eq_getElem hjl] using this

theorem firstBadBelow_isSome (isBad : α → Bool) (v : List α) (bound i : Nat) (hib : i < bound) (hi : i < v.length)
    (hbad : isBad v[i] = true) : ∃ k, firstBadBelow isBad v bound = some k ∧ k ≤ i := by
  cases hf : firstBadBelow isBad v bound with
  | none =>
    unfold firstBadBelow at hf
    have := List.find?_eq_none.1 hf i (List.mem_range.2 hib)
    simp [List.getElem?_eq_getElem hi, hbad] at this
  | some k =>
    refine ⟨k, rfl, ?_⟩
    obtain ⟨_, _, hlt⟩ := firstBadBelow_spec isBad v bound k hf
    by_cases hki : k ≤ i
    · exact hki
    · have := hlt i (by omega) hi
      simp [hbad] at this

theorem zeroFirst_all (zero : α) (v : List α) : zeroFirst zero v.length v = List.replicate v.length zero := by
  apply List.ext_getElem
  · simp [zeroFirst]
  · intro i h1 h2
    simp only [zeroFirst, List.length_mapIdx] at h1
    simp [zeroFirst, h1]

/-- when the loop bound and the zeroed count are the length of the array, a bad entry at ANY index fires the warning
    (reported index = first bad entry) and ALL controls are replaced by zero -/
theorem ctrlScan_catches (isBad : α → Bool) (zero : α) (v : List α) (i : Nat) (hi : i < v.length)
    (hbad : isBad v[i] = true) :
    ∃ k, (ctrlScan isBad zero v.length v.length v).fired = some k ∧ k ≤ i ∧
      (∃ hk : k < v.length, isBad v[k] = true) ∧ (∀ j, j < k → ∀ hj : j < v.length, isBad v[j] = false) ∧
      (ctrlScan isBad zero v.length v.length v).ctrl = List.replicate v.length zero ∧
      (ctrlScan isBad zero v.length v.length v).oob = false := by
  obtain ⟨k, hk, hki⟩ := firstBadBelow_isSome isBad v v.length i hi hi hbad
  obtain ⟨hkb, hkbad, hfirst⟩ := firstBadBelow_spec isBad v v.length k hk
  refine ⟨k, ?_, hki, hkbad, hfirst, ?_, ?_⟩
  · simp [ctrlScan, hk]
  · simp [ctrlScan, hk, zeroFirst_all]
  · simp [ctrlScan, hk]; omega

/-- no bad entry: no warning, the controls are used as they are -/
theorem ctrlScan_clean (isBad : α → Bool) (zero : α) (v : List α) (bound zc : Nat) (hb : bound ≤ v.length)
    (h : ∀ i, ∀ hi : i < v.length, isBad v[i] = false) :
    ctrlScan isBad zero bound zc v = { fired := none, ctrl := v, oob := false } := by
  have : firstBadBelow isBad v bound = none := by
    unfold firstBadBelow
    rw [List.find?_eq_none]
    intro j hj
    have hjb : j < bound := List.mem_range.1 hj
    have hjl : j < v.length := by omega
    simp [List.getElem?_eq_getElem hjl, h j hjl]
  simp [ctrlScan, this]; omega

/-- sharpness: a loop that stops below the length misses a bad entry behind its bound: no warning, and the bad value
    stays in the controls the actuation stage goes on to use -/
theorem ctrlScan_misses_beyond_bound (isBad : α → Bool) (zero : α) (v : List α) (bound zc i : Nat)
    (hb : bound ≤ i) (hi : i < v.length) (hbad : isBad v[i] = true)
    (hclean : ∀ j, j < bound → ∀ hj : j < v.length, isBad v[j] = false) :
    (ctrlScan isBad zero bound zc v).fired = none ∧
    ∃ h : i < (ctrlScan isBad zero bound zc v).ctrl.length, isBad ((ctrlScan isBad zero bound zc v).ctrl[i]) = true := by
  have : firstBadBelow isBad v bound = none := by
    unfold firstBadBelow
    rw [List.find?_eq_none]
    intro j hj
    have hjb : j < bound := List.mem_range.1 hj
    have hjl : j < v.length := by omega
    simp [List.getElem?_eq_getElem hjl, hclean j hjb hjl]
  simp [ctrlScan, this, hi, hbad]

open Gen.C30Scans in
/-- the control validation that is in the source (generated site of mj_fwdActuation), for EVERY assignment of the model
    dimensions (nu and nactuator independent) and every local control vector of the declared length: a bad entry at any
    index is reported and all controls are zeroed -/
theorem gen_ctrl_scan_catches (s : ScanSite) (hs : s ∈ sites) (harr : s.array = "local ctrl")
    (sz : Sizes) (isBad : α → Bool) (zero : α) (v : List α) (hv : v.length = sz s.declared)
    (i : Nat) (hi : i < v.length) (hbad : isBad v[i] = true) :
    ∃ k, (s.runCtrl sz isBad zero v).fired = some k ∧ k ≤ i ∧
      (s.runCtrl sz isBad zero v).ctrl = List.replicate v.length zero ∧ (s.runCtrl sz isBad zero v).oob = false := by
  have key : ∀ s ∈ sites, s.array = "local ctrl" → s.bound = s.declared ∧ s.zeroCount = some s.declared := by decide
  obtain ⟨hb, hz⟩ := key s hs harr
  obtain ⟨k, h1, h2, _, _, h5, h6⟩ := ctrlScan_catches isBad zero v i hi hbad
  refine ⟨k, ?_, h2, ?_, ?_⟩ <;> simp only [ScanSite.runCtrl, hb, hz, ← hv] <;> assumption

open Gen.C30Scans in
/-- such a site exists (the theorem above is not vacuous) -/
theorem gen_ctrl_site_exists : ∃ s ∈ sites, s.array = "local ctrl" ∧ s.func = "mj_fwdActuation" ∧
    s.warn = "mjWARN_BADCTRL" ∧ s.exit = "break" := by decide

example : (ctrlScan (fun x : Nat => decide (10 < x)) 0 4 4 [1, 2, 50, 3]).fired = some 2 ∧
    (ctrlScan (fun x : Nat => decide (10 < x)) 0 4 4 [1, 2, 50, 3]).ctrl = [0, 0, 0, 0] := by decide
/-- two actuators, four controls, loop bound 2 (the number of actuators): the bad control 3 is missed -/
example : (ctrlScan (fun x : Nat => decide (10 < x)) 0 2 4 [1, 2, 3, 50]).fired = none ∧
    (ctrlScan (fun x : Nat => decide (10 < x)) 0 2 4 [1, 2, 3, 50]).ctrl = [1, 2, 3, 50] := by decide
end Ctrl

/-! ### mj_step -/

/-- the generated skeleton of mj_step starts with: check positions, check velocities, forward, check
    accelerations -/
theorem step_check_order :
    (stageKeys Gen.Pipeline.mj_step).take 4 = ["mj_checkPos", "mj_checkVel", "mj_forward", "mj_checkAcc"] := by
  decide

/-- if none of the checks fires (all of qpos, qvel, qacc within ±1e10) the explicit Euler update
    `v' = v + h a`, `q' = q + h v'` of a scalar joint stays below 1e292 in magnitude for |h| ≤ 1e140 — far below
    the largest finite double (≈ 1.797e308).  Real arithmetic. -/
theorem post_step_finite_partial (q v a h : ℝ)
    (hq : Gen.mju_isBad q ≠ 1) (hv : Gen.mju_isBad v ≠ 1) (ha : Gen.mju_isBad a ≠ 1) (hh : |h| ≤ 1e140) :
    |v + h * a| ≤ 1e151 ∧ |q + h * (v + h * a)| ≤ 1e292 := by
  have bq : |q| ≤ 1e10 := by
    have := (isBad_iff q).not.1 hq; push Not at this; norm_num at this ⊢; exact this
  have bv : |v| ≤ 1e10 := by
    have := (isBad_iff v).not.1 hv; push Not at this; norm_num at this ⊢; exact this
  have ba : |a| ≤ 1e10 := by
    have := (isBad_iff a).not.1 ha; push Not at this; norm_num at this ⊢; exact this
  have h0 : 0 ≤ |h| := abs_nonneg h
  have a0 : 0 ≤ |a| := abs_nonneg a
  have hha : |h * a| ≤ 1e140 * 1e10 := by
    rw [abs_mul]; exact mul_le_mul hh ba a0 (by norm_num)
  have hv' : |v + h * a| ≤ 1e151 := by
    calc |v + h * a| ≤ |v| + |h * a| := abs_add_le _ _
      _ ≤ 1e10 + 1e140 * 1e10 := add_le_add bv hha
      _ ≤ 1e151 := by norm_num
  refine ⟨hv', ?_⟩
  have hhv : |h * (v + h * a)| ≤ 1e140 * 1e151 := by
    rw [abs_mul]; exact mul_le_mul hh hv' (abs_nonneg _) (by norm_num)
  calc |q + h * (v + h * a)| ≤ |q| + |h * (v + h * a)| := abs_add_le _ _
    _ ≤ 1e10 + 1e140 * 1e151 := add_le_add bq hhv
    _ ≤ 1e292 := by norm_num

example : Gen.mju_isBad (3 : ℝ) ≠ 1 := fun h => by
  have := (isBad_iff _).1 h; rw [abs_of_pos (by norm_num)] at this; norm_num at this

end MjProof.C30
