import MjProof.Lemmas.SupportMesh
import MjProof.Lemmas.SupportBall
/-
C15 — Convex narrow-phase distances are correct and swap-symmetric.

What is proved (all over ℝ, for every geom pose and every direction / witness point):

* `support_maximises` / `mesh_support_maximises`: each support function of `engine_collision_convex.c` (model
  `MjProof/Model/Support.lean`, bitwise-tied to the compiled functions on every run) returns a point of the
  shape that maximises `⟨d,·⟩` over the shape;
* `distance_certificate`: whenever the checker `sepOK` accepts witness points / a direction / a reported distance,
  the reported distance is within the stated gap of the true distance `setDist A B` of the two shapes;
  `distance_lower_bound`: a direction accepted by `sepLowerOK` bounds the distance of every pair of points from below
  (a reported distance below it is wrong);
* `penetration_certificate_partial`, `depth_upper_bound_partial`, `reported_depth_refuted`,
  `depth_lower_of_inner_ball`: the same for penetration — the depth is bounded from above by the overlap along the
  reported normal, the reported depth is attained by a non-separating translation, a direction with smaller overlap
  refutes a reported depth, and a ball inside both shapes bounds the depth from below;
* `swap_distance_of_certified`, `swap_symmetry_of_certified`: two certified runs with the geoms swapped report
  the same distance and (for separated shapes) opposite witness vectors, within the certified gaps.

What is NOT proved: the GJK / EPA iterations of `engine_collision_gjk.c` are not modelled — their outputs are
checked per call with `sepOK` / `penOK` (the same definitions, run on `Float`) by `checks/c15.py`; for penetration
only the upper bound of the depth is certified (`_partial`): that no direction has a smaller overlap is searched,
not proved.
-/
set_option linter.unusedVariables false
set_option linter.unusedSimpArgs false
namespace MjProof.C15
open MjProof MjProof.Support MjProof.SupportLemmas

/-! ### support functions -/

/-- Every support function (sphere, capsule, ellipsoid, cylinder, box, and the shrunken point / line supports used
    for spheres and capsules): for a well-formed geom and a unit direction `d`, the returned point lies in the shape
    and maximises `⟨d,·⟩` over it.  `degSlack` is `0` except in the `n2 < mjMINVAL2` branch of `mjc_cylinderSupport`,
    where it is `radius · 1e-15` (`degSlack_zero`). -/
theorem support_maximises (g : Geom ℝ) (h : WF g) (d : V3 ℝ) (hd : V3.dot d d = 1) :
    InGeom g (support g d) ∧ ∀ y, InGeom g y → V3.dot d y ≤ V3.dot d (support g d) + degSlack g d :=
  ⟨support_in g h d hd, support_ge g h d hd⟩

/-- the maximisation is exact unless the geom is a cylinder and the direction is within `1e-15` of its axis -/
theorem degSlack_zero (g : Geom ℝ) (d : V3 ℝ)
    (h : g.kind ≠ .cylinder ∨
      minval * minval ≤ (mulMatTVec3 g.mat d).x * (mulMatTVec3 g.mat d).x + (mulMatTVec3 g.mat d).y * (mulMatTVec3 g.mat d).y) :
    degSlack g d = 0 := by
  unfold degSlack
  cases hk : g.kind <;> simp only []
  rcases h with h | h
  · exact absurd hk h
  · simp [not_lt.2 h]

example : WF ({ kind := .box, size := ⟨1, 2, 3⟩, pos := ⟨0, 0, 0⟩, mat := idM } : Geom ℝ) :=
  ⟨isRot_id, by simp [SizeOK]⟩
example : V3.dot (⟨1, 0, 0⟩ : V3 ℝ) ⟨1, 0, 0⟩ = 1 := by simp [dot_real]

/-- `mjc_meshSupport` (exhaustive search, with or without a cached start vertex): the result is a posed vertex of
    the mesh and maximises `⟨d,·⟩` over every convex combination of the posed vertices.  (`hinit`: the scan starts
    from `-FLT_MAX` when nothing is cached, so some vertex must project above it.) -/
theorem mesh_support_maximises (verts : List (V3 ℝ)) (mat : M3 ℝ) (pos : V3 ℝ) (cached : Option Nat) (d s : V3 ℝ)
    (i : Nat) (h : meshSupport verts mat pos cached d = some (s, i))
    (hinit : cached = none → ∃ v ∈ verts, -fltMax < V3.dot (mulMatTVec3 mat d) v) :
    (∃ v, verts[i]? = some v ∧ s = localToGlobal mat v pos) ∧
    ∀ ws : List (ℝ × V3 ℝ), (∀ p ∈ ws, 0 ≤ p.1 ∧ p.2 ∈ verts) → wsum ws = 1 →
      V3.dot d (localToGlobal mat (combo ws) pos) ≤ V3.dot d s := by
  obtain ⟨v, hv, hs, hmax⟩ := meshSupport_spec verts mat pos cached d s i h hinit
  refine ⟨⟨v, hv, hs⟩, ?_⟩
  intro ws hws hsum
  have := dot_combo_le (mulMatTVec3 mat d) (V3.dot (mulMatTVec3 mat d) v) ws
    (fun p hp => ⟨(hws p hp).1, hmax p.2 (hws p hp).2⟩)
  rw [hsum, one_mul] at this
  rw [hs, dot_l2g, dot_l2g]; linarith

example : meshSupport ([⟨1, 0, 0⟩, ⟨0, 1, 0⟩] : List (V3 ℝ)) idM ⟨0, 0, 0⟩ (some 0) ⟨0, 1, 0⟩
    = some (⟨0, 1, 0⟩, 1) := by
  simp [meshSupport, meshScan, mulMatTVec3, localToGlobal, idM, V3.dot, r_lt]

/-! ### separated shapes -/

/-- **Distance certificate.**  If `sepOK` accepts witness points `x1`, `x2` (members of `A`, `B` scaled by `k ≥ 1`
    about their centres), a direction `w` (normally `x2 − x1`), the reported distance `dist` and the tolerance `tol`,
    then with `n = w/‖w‖`:  `bound − δ ≤ setDist A B ≤ len + slack`  where `bound = −h_A(n) − h_B(−n)` is evaluated
    through the support functions, and the reported distance is within `2·tol + slack + δ` of the true distance.
    (`δ = pairSlack` is the cylinder degenerate-branch loss, `≤ (r_A + r_B)·1e-15`.) -/
theorem distance_certificate (A B : Geom ℝ) (hA : WF A) (hB : WF B) (x1 x2 w : V3 ℝ) (dist k tol : ℝ) (hk : 1 ≤ k)
    (h : sepOK A B x1 x2 w dist k tol = true) :
    let c := sepCert A B x1 x2 w k
    let δ := pairSlack A B (V3.divs w (V3.norm w))
    c.bound - δ ≤ setDist A B ∧ setDist A B ≤ c.len + c.slack ∧ |dist - setDist A B| ≤ 2 * tol + c.slack + δ := by
  intro c δ
  have hk0 : 0 < k := by linarith
  unfold sepOK at h
  simp only [Bool.and_eq_true, decide_eq_true_eq] at h
  obtain ⟨⟨⟨⟨hmA, hmB⟩, hw⟩, hgap⟩, hdist⟩ := h
  simp only [zero_real, r_lt, r_le, r_add, r_sub, r_neg, real_abs] at hw hgap hdist
  change 0 < V3.norm w at hw
  change c.len + c.slack - c.bound ≤ tol at hgap
  change |dist - c.len| ≤ tol at hdist
  -- the shrunken witness points
  have ha := mem_scaled A k hk0 x1 hmA
  have hb := mem_scaled B k hk0 x2 hmB
  have d1 := shrink_dist A k hk x1
  have d2 := shrink_dist B k hk x2
  -- upper bound
  have hup : setDist A B ≤ c.len + c.slack := by
    refine le_trans (setDist_le ha hb) ?_
    have t1 := norm_sub_le (shrink B k x2) x2 (shrink A k x1)
    have t2 := norm_sub_le x2 x1 (shrink A k x1)
    rw [norm_sub_comm (shrink B k x2) x2] at t1
    have es : c.slack = (k - 1) * (V3.norm (V3.sub x1 A.pos) + V3.norm (V3.sub x2 B.pos)) := sepCert_slack A B x1 x2 w k
    have el : c.len = V3.norm (V3.sub x2 x1) := rfl
    rw [es, el]; nlinarith
  -- lower bound
  have hn : V3.dot (V3.divs w (V3.norm w)) (V3.divs w (V3.norm w)) = 1 := dot_divs_norm hw
  have eb : c.bound = -(overlapUnit A B (V3.divs w (V3.norm w))) := rfl
  have hlo : c.bound - δ ≤ setDist A B := by
    apply le_setDist ha hb
    intro a b haa hbb
    rw [eb]; exact sep_lower A B hA hB _ hn a b haa hbb
  have hδ : 0 ≤ δ := pairSlack_nonneg A B hA hB _
  have hsl : 0 ≤ c.slack := by
    have es : c.slack = (k - 1) * (V3.norm (V3.sub x1 A.pos) + V3.norm (V3.sub x2 B.pos)) := sepCert_slack A B x1 x2 w k
    rw [es]; exact mul_nonneg (by linarith) (add_nonneg (norm_nonneg _) (norm_nonneg _))
  refine ⟨hlo, hup, ?_⟩
  rw [abs_le] at hdist ⊢
  constructor <;> linarith [hdist.1, hdist.2]

/-- non-vacuity: two unit spheres three apart, witness points on the line of centres, reported distance 1 -/
example : sepOK ({ kind := .sphere, size := ⟨1, 0, 0⟩, pos := ⟨0, 0, 0⟩, mat := idM } : Geom ℝ)
    { kind := .sphere, size := ⟨1, 0, 0⟩, pos := ⟨3, 0, 0⟩, mat := idM } ⟨1, 0, 0⟩ ⟨2, 0, 0⟩ ⟨1, 0, 0⟩ 1 1 0 = true := by
  simp [sepOK, sepCert, mem, scaled, memLocal, toLocal, mulMatTVec3, overlapAlong, support, sphereSupport, idM,
    V3.norm, V3.dot, V3.sub, V3.scale, V3.divs, V3.neg, r_mul, r_add, r_sub, r_div, r_neg, r_le, r_lt, zero_real,
    one_real]
  norm_num

/-- **Certified lower bound (no witness points needed).**  A direction accepted by `sepLowerOK` proves that every pair
    of points of the two geoms is at least `lo − δ` apart: a reported distance below that is wrong.  (Used by the
    oracle to *prove* that a reported distance is too small.) -/
theorem distance_lower_bound (A B : Geom ℝ) (hA : WF A) (hB : WF B) (w : V3 ℝ) (lo : ℝ)
    (h : sepLowerOK A B w lo = true) :
    ∀ a b, InGeom A a → InGeom B b → lo - pairSlack A B (V3.divs w (V3.norm w)) ≤ V3.norm (V3.sub b a) := by
  unfold sepLowerOK at h
  simp only [Bool.and_eq_true, decide_eq_true_eq] at h
  obtain ⟨hw, hlo⟩ := h
  simp only [zero_real, r_lt, r_le, r_neg] at hw hlo
  have hn : V3.dot (V3.divs w (V3.norm w)) (V3.divs w (V3.norm w)) = 1 := dot_divs_norm hw
  intro a b ha hb
  have := sep_lower A B hA hB _ hn a b ha hb
  rw [overlapAlong_eq] at hlo
  linarith

example : sepLowerOK ({ kind := .sphere, size := ⟨1, 0, 0⟩, pos := ⟨0, 0, 0⟩, mat := idM } : Geom ℝ)
    { kind := .sphere, size := ⟨1, 0, 0⟩, pos := ⟨3, 0, 0⟩, mat := idM } ⟨1, 0, 0⟩ 1 = true := by
  simp [sepLowerOK, overlapAlong, support, sphereSupport, idM,
    V3.norm, V3.dot, V3.sub, V3.scale, V3.divs, V3.neg, r_mul, r_add, r_sub, r_div, r_neg, r_le, r_lt, zero_real]
  norm_num

/-! ### penetrating shapes -/

/-- **Penetration certificate (partial).**  If `penOK` accepts witness points `x1`, `x2`, a direction `w` (the
    reported normal), the reported distance `dist ≤ 0` and `tol`, then with `n = w/‖w‖`:
    * translating `A` by more than `bound + δ` against `n` makes it disjoint from `B`, hence the penetration depth is
      at most `max 0 (bound + δ)` and at most `max 0 (−dist + 2·tol + δ)`;
    * some translation of length `≥ len − slack` (the vector between the shrunken witness points) does **not**
      separate — the reported depth is attained.
    Partial: that no other direction has a smaller overlap (i.e. `penDepth A B ≥ −dist − …`) is not certified. -/
theorem penetration_certificate_partial (A B : Geom ℝ) (hA : WF A) (hB : WF B) (x1 x2 w : V3 ℝ) (dist k tol : ℝ)
    (hk : 1 ≤ k) (h : penOK A B x1 x2 w dist k tol = true) :
    let c := penCert A B x1 x2 w k
    let n := V3.divs w (V3.norm w)
    let δ := pairSlack A B n
    (∀ s, c.bound + δ < s → Separates A B (V3.scale (-s) n)) ∧
    penDepth A B ≤ max 0 (c.bound + δ) ∧
    penDepth A B ≤ max 0 (-dist + 2 * tol + δ) ∧
    (∃ t, ¬ Separates A B (V3.neg t) ∧ c.len - c.slack ≤ V3.norm t) := by
  intro c n δ
  have hk0 : 0 < k := by linarith
  unfold penOK at h
  simp only [Bool.and_eq_true, decide_eq_true_eq] at h
  obtain ⟨⟨⟨⟨hmA, hmB⟩, hw⟩, hgap⟩, hdist⟩ := h
  simp only [zero_real, r_lt, r_le, r_add, r_sub, r_neg, real_abs] at hw hgap hdist
  change 0 < V3.norm w at hw
  change c.bound + c.slack - c.len ≤ tol at hgap
  change |(-dist) - c.len| ≤ tol at hdist
  have hn : V3.dot n n = 1 := dot_divs_norm hw
  have eb : c.bound = overlapUnit A B n := rfl
  have hsep : ∀ s, c.bound + δ < s → Separates A B (V3.scale (-s) n) := by
    intro s hs; rw [eb] at hs; exact pen_separates A B hA hB n hn s hs
  have hpd : penDepth A B ≤ max 0 (c.bound + δ) := by rw [eb]; exact penDepth_le A B hA hB n hn
  have ha := mem_scaled A k hk0 x1 hmA
  have hb := mem_scaled B k hk0 x2 hmB
  have d1 := shrink_dist A k hk x1
  have d2 := shrink_dist B k hk x2
  have hsl : 0 ≤ c.slack := by
    have es : c.slack = (k - 1) * (V3.norm (V3.sub x1 A.pos) + V3.norm (V3.sub x2 B.pos)) := penCert_slack A B x1 x2 w k
    rw [es]; exact mul_nonneg (by linarith) (add_nonneg (norm_nonneg _) (norm_nonneg _))
  refine ⟨hsep, hpd, ?_, ?_⟩
  · refine le_trans hpd (max_le_max (le_refl 0) ?_)
    rw [abs_le] at hdist; linarith [hdist.1, hdist.2]
  · refine ⟨V3.sub (shrink A k x1) (shrink B k x2), ?_, ?_⟩
    · intro hs
      apply hs (shrink A k x1) (shrink B k x2) ha hb
      apply V3.ext' <;> simp
    · -- ‖x2 − x1‖ ≤ ‖x2 − b‖ + ‖b − a‖ + ‖a − x1‖
      have t1 := norm_sub_le x2 (shrink B k x2) x1
      have t2 := norm_sub_le (shrink B k x2) (shrink A k x1) x1
      rw [norm_sub_comm (shrink A k x1) x1] at t2
      rw [norm_sub_comm (shrink B k x2) (shrink A k x1)] at t2
      have es : c.slack = (k - 1) * (V3.norm (V3.sub x1 A.pos) + V3.norm (V3.sub x2 B.pos)) := penCert_slack A B x1 x2 w k
      have el : c.len = V3.norm (V3.sub x2 x1) := rfl
      rw [es, el]; nlinarith

/-- non-vacuity: two unit spheres one apart (depth 1), witness points on the line of centres -/
example : penOK ({ kind := .sphere, size := ⟨1, 0, 0⟩, pos := ⟨0, 0, 0⟩, mat := idM } : Geom ℝ)
    { kind := .sphere, size := ⟨1, 0, 0⟩, pos := ⟨1, 0, 0⟩, mat := idM } ⟨1, 0, 0⟩ ⟨0, 0, 0⟩ ⟨1, 0, 0⟩ (-1) 1 0 = true := by
  simp [penOK, penCert, mem, scaled, memLocal, toLocal, mulMatTVec3, overlapAlong, support, sphereSupport, idM,
    V3.norm, V3.dot, V3.sub, V3.scale, V3.divs, V3.neg, r_mul, r_add, r_sub, r_div, r_neg, r_le, r_lt, zero_real,
    one_real]

/-- **Depth certificate (no witness points needed).**  If `penDepthOK` accepts a direction `w` (the reported normal),
    the reported distance `dist` and `tol`: translating `A` by more than `−dist + tol + δ` against `n = w/‖w‖` makes it
    disjoint from `B`; hence the penetration depth is at most `max 0 (−dist + tol + δ)` — the reported depth is not too
    small.  Partial in the same sense as `penetration_certificate_partial`. -/
theorem depth_upper_bound_partial (A B : Geom ℝ) (hA : WF A) (hB : WF B) (w : V3 ℝ) (dist tol : ℝ)
    (h : penDepthOK A B w dist tol = true) :
    let n := V3.divs w (V3.norm w)
    let δ := pairSlack A B n
    (∀ s, -dist + tol + δ < s → Separates A B (V3.scale (-s) n)) ∧ penDepth A B ≤ max 0 (-dist + tol + δ) := by
  intro n δ
  unfold penDepthOK at h
  simp only [Bool.and_eq_true, decide_eq_true_eq] at h
  obtain ⟨hw, hgap⟩ := h
  simp only [zero_real, r_lt, r_le, r_neg, r_sub] at hw hgap
  have hn : V3.dot n n = 1 := dot_divs_norm hw
  rw [overlapAlong_eq] at hgap
  change overlapUnit A B n - -dist ≤ tol at hgap
  constructor
  · intro s hs
    exact pen_separates A B hA hB n hn s (by linarith)
  · refine le_trans (penDepth_le A B hA hB n hn) (max_le_max (le_refl 0) (by linarith))

example : penDepthOK ({ kind := .sphere, size := ⟨1, 0, 0⟩, pos := ⟨0, 0, 0⟩, mat := idM } : Geom ℝ)
    { kind := .sphere, size := ⟨1, 0, 0⟩, pos := ⟨1, 0, 0⟩, mat := idM } ⟨1, 0, 0⟩ (-1) 0 = true := by
  simp [penDepthOK, overlapAlong, support, sphereSupport, idM,
    V3.norm, V3.dot, V3.sub, V3.scale, V3.divs, V3.neg, r_mul, r_add, r_sub, r_div, r_neg, r_le, r_lt, zero_real]

/-- a unit direction whose overlap is smaller than a reported depth `r` refutes it: the true depth is `< r` -/
theorem reported_depth_refuted (A B : Geom ℝ) (hA : WF A) (hB : WF B) (w : V3 ℝ) (hw : 0 < V3.norm w) (r : ℝ)
    (hr : 0 < r) (h : overlapAlong A B w + pairSlack A B (V3.divs w (V3.norm w)) < r) : penDepth A B < r := by
  have hn := dot_divs_norm hw
  have := penDepth_le A B hA hB _ hn
  rw [overlapAlong_eq] at h
  exact lt_of_le_of_lt this (max_lt hr h)

/-- **Inner-ball certificate.**  If the ball of radius `ρ` about `c` passes the containment test of both shapes,
    every translation that separates the geoms is at least `2ρ` long: the penetration depth is at least `2ρ`.  (Used by
    the oracle to *prove* that an answer "touching / no contact" is wrong.) -/
theorem depth_lower_of_inner_ball (A B : Geom ℝ) (hA : WF A) (hB : WF B) (c : V3 ℝ) (ρ : ℝ)
    (h : innerBallOK A B c ρ = true) :
    2 * ρ ≤ penDepth A B ∧ ∀ t, V3.norm t < 2 * ρ → ¬ Separates A B t :=
  ⟨penDepth_ge_of_ball A B hA hB c ρ h, fun t ht => not_separates_of_ball A B hA hB c ρ h t ht⟩

/-- non-vacuity: the unit cube and the unit ball about the origin both contain the ball of radius 1/2 -/
example : innerBallOK ({ kind := .box, size := ⟨1, 1, 1⟩, pos := ⟨0, 0, 0⟩, mat := idM } : Geom ℝ)
    { kind := .sphere, size := ⟨1, 0, 0⟩, pos := ⟨0, 0, 0⟩, mat := idM } ⟨0, 0, 0⟩ (1 / 2) = true := by
  simp [innerBallOK, ballIn, ballInLocal, toLocal, mulMatTVec3, idM, V3.norm, V3.dot, V3.sub, r_mul, r_add, r_sub,
    r_le, r_lt, zero_real, one_real]
  norm_num

/-! ### swapping the geoms -/

/-- the distance does not depend on the order of the geoms -/
theorem setDist_symm (A B : Geom ℝ) : setDist A B = setDist B A := setDist_comm A B

/-- two certified runs, one with the geoms swapped, report the same distance up to the certified gaps -/
theorem swap_distance_of_certified (A B : Geom ℝ) (hA : WF A) (hB : WF B) (x1 x2 y1 y2 : V3 ℝ)
    (dist dist' k tol : ℝ) (hk : 1 ≤ k)
    (w w' : V3 ℝ)
    (h : sepOK A B x1 x2 w dist k tol = true) (h' : sepOK B A y1 y2 w' dist' k tol = true) :
    |dist - dist'| ≤ 4 * tol + (sepCert A B x1 x2 w k).slack + (sepCert B A y1 y2 w' k).slack
      + pairSlack A B (V3.divs w (V3.norm w)) + pairSlack B A (V3.divs w' (V3.norm w')) := by
  have c1 := (distance_certificate A B hA hB x1 x2 w dist k tol hk h).2.2
  have c2 := (distance_certificate B A hB hA y1 y2 w' dist' k tol hk h').2.2
  rw [setDist_comm B A] at c2
  rw [abs_le] at c1 c2 ⊢
  constructor <;> linarith [c1.1, c1.2, c2.1, c2.2]

/-- **Swap symmetry of the normal (separated shapes).**  Let the run on `(A, B)` be certified by `sepOK` (exact
    membership, `k = 1`) with witness vector `v = x2 − x1`, and let `a' ∈ A`, `b' ∈ B` be the witness points of any
    other run (e.g. the swapped one: `a' = y2`, `b' = y1`) with `‖b' − a'‖ ≤ ρ`.  Then
    `‖v − (b' − a')‖² ≤ ρ² − ‖v‖² + 2‖v‖(tol + δ)`: the witness vector of the swapped run is the reverse of `v`
    up to the certified gaps (the closest vector between two convex sets is unique; no convexity is needed once one
    run is certified). -/
theorem swap_symmetry_of_certified (A B : Geom ℝ) (hA : WF A) (hB : WF B) (x1 x2 a' b' : V3 ℝ) (dist tol ρ : ℝ)
    (h : sepOK A B x1 x2 (V3.sub x2 x1) dist 1 tol = true) (ha' : InGeom A a') (hb' : InGeom B b')
    (hρ : V3.norm (V3.sub b' a') ≤ ρ) :
    let v := V3.sub x2 x1
    let δ := pairSlack A B (V3.divs v (V3.norm v))
    V3.dot (V3.sub v (V3.sub b' a')) (V3.sub v (V3.sub b' a'))
      ≤ ρ * ρ - V3.norm v * V3.norm v + 2 * V3.norm v * (tol + δ) := by
  intro v δ
  unfold sepOK at h
  simp only [Bool.and_eq_true, decide_eq_true_eq] at h
  obtain ⟨⟨⟨⟨hmA, hmB⟩, hlen⟩, hgap⟩, hdist⟩ := h
  simp only [zero_real, r_lt, r_le, r_add, r_sub, r_neg, real_abs] at hlen hgap hdist
  set c := sepCert A B x1 x2 (V3.sub x2 x1) 1 with hc
  change 0 < V3.norm v at hlen
  change c.len + c.slack - c.bound ≤ tol at hgap
  have el : c.len = V3.norm v := rfl
  have es : c.slack = (1 - 1) * (V3.norm (V3.sub x1 A.pos) + V3.norm (V3.sub x2 B.pos)) := sepCert_slack A B x1 x2 (V3.sub x2 x1) 1
  have es0 : c.slack = 0 := by rw [es]; ring
  have eb : c.bound = -(overlapUnit A B (V3.divs v (V3.norm v))) := rfl
  have hn : V3.dot (V3.divs v (V3.norm v)) (V3.divs v (V3.norm v)) = 1 := dot_divs_norm hlen
  have hal := sep_along A B hA hB _ hn a' b' ha' hb'
  have hL : V3.norm v - (tol + δ) ≤ V3.dot (V3.divs v (V3.norm v)) (V3.sub b' a') := by
    rw [el, es0, eb] at hgap
    linarith
  have := witness_vector_close (V3.divs v (V3.norm v)) (V3.sub b' a') hn (V3.norm v) (tol + δ) ρ hlen.le hL hρ
  rw [divs_norm_smul hlen] at this
  exact this

end MjProof.C15
