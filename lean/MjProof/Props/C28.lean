import MjProof.Model.Sensor
import MjProof.Lemmas.RealNum
import MjProof.Lemmas.Spatial
import Mathlib.Tactic.Ring
import Mathlib.Tactic.Linarith
import Mathlib.Tactic.LinearCombination
/-
C28 — Sensors report the quantities they are documented to measure.

Theorems over ℝ about the hand model `MjProof/Model/Sensor.lean` (tied bitwise to the unmodified
`apply_cutoff` / `mj_computeSensor` of `engine_sensor.c` by `checks/c28.py`), which is written on top of the
generated kernels `mju_clip`, `mju_min`, `mju_mulMatTVec3`, `mju_negQuat`, `mju_mulQuat`, `mju_cross`,
`mju_transformSpatial`, `mju_transformSpatial_world` (`MjProof/Gen/Kernels.lean`, regenerated from the tree).

PARTIAL (stated in checks/c28.py META): only the cutoff, the `sensor_adr` layout, FRAMEPOS / FRAME?AXIS /
FRAMEQUAT / FRAMELINVEL / FRAMEANGVEL, velocimeter, gyro, accelerometer / FRAMELINACC / FRAMEANGACC (given `cacc`),
force and torque (given `cfrc_int`) are modelled; every other sensor type is decided by the property oracle only.
-/
set_option linter.unusedVariables false
set_option linter.unusedSimpArgs false
set_option linter.unusedTactic false
set_option linter.unreachableTactic false
namespace MjProof.C28
open MjProof MjProof.Gen MjProof.Sensor MjProof.Spatial

/-! ### cutoff -/

/-- `apply_cutoff` never changes the number of entries of a slice (any number type) -/
theorem applyCutoff_length {α : Type} [MjNum α] (cls : CutoffClass) (dt : DataType) (c : α) (xs : List α) :
    (applyCutoff cls dt c xs).length = xs.length := by
  unfold applyCutoff
  split
  · rfl
  · cases cls <;> simp

theorem mju_clip_real (x lo hi : ℝ) : mju_clip x lo hi = if x < lo then lo else if hi < x then hi else x := by
  simp only [mju_clip, real_lt_iff]

theorem mju_min_real (a b : ℝ) : mju_min a b = min a b := by
  unfold mju_min
  split_ifs with h
  · have h' : a ≤ b := h
    exact (min_eq_left h').symm
  · have h' : ¬ a ≤ b := h
    exact (min_eq_right (le_of_lt (not_le.mp h'))).symm

theorem cutoffElem_real (c x : ℝ) (hc : 0 < c) : cutoffElem .real c x = max (-c) (min c x) := by
  simp only [cutoffElem, mju_clip_real]
  split_ifs with h1 h2
  · rw [min_eq_right (by linarith), max_eq_left (by linarith)]
  · rw [min_eq_left (by linarith), max_eq_right (by linarith)]
  · rw [min_eq_right (by linarith), max_eq_right (by linarith)]

theorem applyCutoff_pos (cls : CutoffClass) (dt : DataType) (c : ℝ) (hc : 0 < c) (xs : List ℝ) :
    applyCutoff cls dt c xs = match cls with
      | .exempt => xs
      | .regular => xs.map (cutoffElem dt c) := by
  unfold applyCutoff
  have hn : ¬ (c ≤ (MjNum.ofInt 0 : ℝ)) := by
    intro h
    have h' : c ≤ ((0 : Int) : ℝ) := h
    simp only [Int.cast_zero] at h'
    linarith
  rw [if_neg hn]
  cases cls <;> rfl

/-- REAL data, positive cutoff, non-exempt type: every entry becomes its clamp to `[-c, c]`; so every output lies
in `[-c, c]` and entries already in range are unchanged -/
theorem cutoff_clamps_real (c : ℝ) (hc : 0 < c) (xs : List ℝ) :
    applyCutoff .regular .real c xs = xs.map (fun x => max (-c) (min c x)) ∧
    (∀ y ∈ applyCutoff .regular .real c xs, -c ≤ y ∧ y ≤ c) ∧
    ((∀ x ∈ xs, -c ≤ x ∧ x ≤ c) → applyCutoff .regular .real c xs = xs) := by
  have h : applyCutoff .regular .real c xs = xs.map (fun x => max (-c) (min c x)) := by
    rw [applyCutoff_pos _ _ _ hc]
    exact List.map_congr_left (fun x _ => cutoffElem_real c x hc)
  refine ⟨h, ?_, ?_⟩
  · intro y hy
    rw [h, List.mem_map] at hy
    obtain ⟨x, _, rfl⟩ := hy
    exact ⟨le_max_left _ _, max_le (by linarith) (min_le_left _ _)⟩
  · intro hin
    rw [h]
    conv_rhs => rw [← List.map_id xs]
    apply List.map_congr_left
    intro x hx
    obtain ⟨h1, h2⟩ := hin x hx
    simp [min_eq_right h2, max_eq_right h1]

example : applyCutoff .regular .real (2 : ℝ) [3, -5, 1] = [2, -2, 1] := by
  rw [(cutoff_clamps_real 2 (by norm_num) _).1]; norm_num

/-- POSITIVE data, positive cutoff, non-exempt type: every entry becomes `min(c, x)` (clamped on the positive side only) -/
theorem cutoff_clamps_positive (c : ℝ) (hc : 0 < c) (xs : List ℝ) :
    applyCutoff .regular .positive c xs = xs.map (fun x => min c x) ∧
    (∀ y ∈ applyCutoff .regular .positive c xs, y ≤ c) ∧
    ((∀ x ∈ xs, x ≤ c) → applyCutoff .regular .positive c xs = xs) := by
  have h : applyCutoff .regular .positive c xs = xs.map (fun x => min c x) := by
    rw [applyCutoff_pos _ _ _ hc]
    exact List.map_congr_left (fun x _ => by simp only [cutoffElem, mju_min_real])
  refine ⟨h, ?_, ?_⟩
  · intro y hy
    rw [h, List.mem_map] at hy
    obtain ⟨x, _, rfl⟩ := hy
    exact min_le_left _ _
  · intro hin
    rw [h]
    conv_rhs => rw [← List.map_id xs]
    apply List.map_congr_left
    intro x hx
    simp [min_eq_right (hin x hx)]

example : applyCutoff .regular .positive (2 : ℝ) [3, -5, 1] = [2, -5, 1] := by
  rw [(cutoff_clamps_positive 2 (by norm_num) _).1]; norm_num

/-- no clamping: cutoff ≤ 0, the exempt types (CONTACT, GEOMFROMTO), AXIS and QUATERNION data -/
theorem cutoff_noop (cls : CutoffClass) (dt : DataType) (c : ℝ) (xs : List ℝ)
    (h : c ≤ 0 ∨ cls = .exempt ∨ dt = .axis ∨ dt = .quaternion) : applyCutoff cls dt c xs = xs := by
  unfold applyCutoff
  split_ifs with hc
  · rfl
  · rcases h with h | h | h | h
    · exact absurd (by simpa [real_le_iff, real_ofInt] using h) hc
    · subst h; rfl
    · subst h; cases cls
      · rfl
      · exact (List.map_congr_left (fun x _ => rfl)).trans (List.map_id _)
    · subst h; cases cls
      · rfl
      · exact (List.map_congr_left (fun x _ => rfl)).trans (List.map_id _)

example : applyCutoff .regular .quaternion (0.1 : ℝ) [3, -5, 1, 7] = [3, -5, 1, 7] :=
  cutoff_noop _ _ _ _ (Or.inr (Or.inr (Or.inr rfl)))

/-- applying the cutoff twice is applying it once -/
theorem cutoff_idempotent (cls : CutoffClass) (dt : DataType) (c : ℝ) (xs : List ℝ) :
    applyCutoff cls dt c (applyCutoff cls dt c xs) = applyCutoff cls dt c xs := by
  by_cases hc : 0 < c
  · rw [applyCutoff_pos _ _ _ hc, applyCutoff_pos _ _ _ hc]
    cases cls
    · rfl
    · simp only [List.map_map]
      apply List.map_congr_left
      intro x _
      cases dt
      · simp only [Function.comp, cutoffElem_real _ _ hc]
        rw [min_eq_right (max_le (by linarith) (min_le_left _ _)), max_eq_right (le_max_left _ _)]
      · simp only [Function.comp, cutoffElem, mju_min_real]
        rw [min_eq_right (min_le_left _ _)]
      · simp [cutoffElem]
      · simp [cutoffElem]
  · rw [cutoff_noop _ _ _ _ (Or.inl (not_lt.mp hc)), cutoff_noop _ _ _ _ (Or.inl (not_lt.mp hc))]

/-! ### `sensor_adr` layout -/

theorem foldl_add (ds : List Nat) (s : Nat) : ds.foldl (· + ·) s = s + ds.sum := by
  induction ds generalizing s with
  | nil => simp
  | cons d ds ih => simp [List.foldl_cons, ih, Nat.add_assoc]

/-- `nsensordata` is the sum of the sensor dimensions -/
theorem nsensordata_eq_sum (ds : List Nat) : nsensordata ds = ds.sum := by
  simp [nsensordata, foldl_add]

theorem adrFrom_length (s : Nat) (ds : List Nat) : (adrFrom s ds).length = ds.length := by
  induction ds generalizing s with
  | nil => rfl
  | cons d ds ih => simp [adrFrom, ih]

theorem sensorAdr_length (ds : List Nat) : (sensorAdr ds).length = ds.length := adrFrom_length 0 ds

/-- address of sensor `i` = start + the dimensions before it -/
theorem adrFrom_getElem? (s : Nat) (ds : List Nat) (i : Nat) (hi : i < ds.length) :
    (adrFrom s ds)[i]? = some (s + (ds.take i).sum) := by
  induction ds generalizing s i with
  | nil => simp at hi
  | cons d ds ih =>
    cases i with
    | zero => simp [adrFrom]
    | succ i =>
      simp only [adrFrom, List.getElem?_cons_succ, List.take_succ_cons, List.sum_cons]
      rw [ih (s + d) i (by simpa using hi)]
      simp [Nat.add_assoc]

theorem take_sum_succ (ds : List Nat) (i : Nat) (hi : i < ds.length) :
    (ds.take (i + 1)).sum = (ds.take i).sum + ds[i] := by
  induction ds generalizing i with
  | nil => simp at hi
  | cons d ds ih =>
    cases i with
    | zero => simp
    | succ i =>
      simp only [List.take_succ_cons, List.sum_cons, List.getElem_cons_succ]
      rw [ih i (by simpa using hi)]
      omega

theorem take_sum_mono (ds : List Nat) (i j : Nat) (hij : i ≤ j) : (ds.take i).sum ≤ (ds.take j).sum := by
  induction ds generalizing i j with
  | nil => simp
  | cons d ds ih =>
    cases i with
    | zero => simp
    | succ i =>
      cases j with
      | zero => omega
      | succ j =>
        simp only [List.take_succ_cons, List.sum_cons]
        have := ih i j (by omega)
        omega

/-- every slice lies inside `[0, nsensordata)` -/
theorem sensor_slice_bound (ds : List Nat) (i : Nat) (hi : i < ds.length) :
    ∃ a, (sensorAdr ds)[i]? = some a ∧ a + ds[i] ≤ nsensordata ds := by
  refine ⟨(ds.take i).sum, by simpa [sensorAdr] using adrFrom_getElem? 0 ds i hi, ?_⟩
  rw [nsensordata_eq_sum, ← take_sum_succ ds i hi]
  have := take_sum_mono ds (i + 1) ds.length (by omega)
  simpa using this

/-- slices are ordered, hence pairwise disjoint: the slice of an earlier sensor ends before a later one starts -/
theorem sensor_slices_disjoint (ds : List Nat) (i j : Nat) (hij : i < j) (hj : j < ds.length) :
    ∃ ai aj, (sensorAdr ds)[i]? = some ai ∧ (sensorAdr ds)[j]? = some aj ∧
      ai + ds[i]'(by omega) ≤ aj := by
  have hi : i < ds.length := by omega
  refine ⟨(ds.take i).sum, (ds.take j).sum, by simpa [sensorAdr] using adrFrom_getElem? 0 ds i hi,
    by simpa [sensorAdr] using adrFrom_getElem? 0 ds j hj, ?_⟩
  rw [← take_sum_succ ds i hi]
  exact take_sum_mono ds (i + 1) j (by omega)

example : sensorAdr [3, 0, 4, 1] = [0, 3, 3, 7] ∧ nsensordata [3, 0, 4, 1] = 8 := by decide

/-- the slices tile `sensordata`: every index below `nsensordata` lies in exactly one slice `[adr_i, adr_i + dim_i)` -/
theorem sensor_slices_tile (ds : List Nat) (k : Nat) (hk : k < nsensordata ds) :
    ∃! i, ∃ (h : i < ds.length), (ds.take i).sum ≤ k ∧ k < (ds.take i).sum + ds[i] ∧
      (sensorAdr ds)[i]? = some (ds.take i).sum := by
  rw [nsensordata_eq_sum] at hk
  -- existence: induction on the list, shifting the start
  have ex : ∀ (ds : List Nat) (k : Nat), k < ds.sum →
      ∃ i, ∃ (h : i < ds.length), (ds.take i).sum ≤ k ∧ k < (ds.take i).sum + ds[i] := by
    intro ds
    induction ds with
    | nil => intro k hk; simp at hk
    | cons d ds ih =>
      intro k hk
      by_cases h : k < d
      · exact ⟨0, by simp, by simp, by simpa using h⟩
      · have hk' : k - d < ds.sum := by simp only [List.sum_cons] at hk; omega
        obtain ⟨i, hi, h1, h2⟩ := ih (k - d) hk'
        refine ⟨i + 1, by simpa using hi, ?_, ?_⟩
        · simp only [List.take_succ_cons, List.sum_cons]; omega
        · simp only [List.take_succ_cons, List.sum_cons, List.getElem_cons_succ]; omega
  obtain ⟨i, hi, h1, h2⟩ := ex ds k hk
  refine ⟨i, ⟨hi, h1, h2, by simpa [sensorAdr] using adrFrom_getElem? 0 ds i hi⟩, ?_⟩
  rintro j ⟨hj, g1, g2, _⟩
  -- two different slices are ordered, so they cannot both contain k
  rcases Nat.lt_trichotomy i j with hlt | heq | hgt
  · have := take_sum_mono ds (i + 1) j (by omega)
    rw [take_sum_succ ds i hi] at this
    omega
  · exact heq.symm
  · have := take_sum_mono ds (j + 1) i (by omega)
    rw [take_sum_succ ds j hj] at this
    omega

/-! ### frame sensors -/

/-- `Rᵀ v` for a row-major matrix (specification) -/
def matTVec (m : Mat3) (v : Vec3) : Vec3 :=
  match m, v with
  | (m0, m1, m2, m3, m4, m5, m6, m7, m8), (v0, v1, v2) =>
    (m0*v0 + m3*v1 + m6*v2, m1*v0 + m4*v1 + m7*v2, m2*v0 + m5*v1 + m8*v2)
/-- `R v` (specification) -/
def matVec (m : Mat3) (v : Vec3) : Vec3 :=
  match m, v with
  | (m0, m1, m2, m3, m4, m5, m6, m7, m8), (v0, v1, v2) =>
    (m0*v0 + m1*v1 + m2*v2, m3*v0 + m4*v1 + m5*v2, m6*v0 + m7*v1 + m8*v2)
def vsub (a b : Vec3) : Vec3 := (a.1 - b.1, a.2.1 - b.2.1, a.2.2 - b.2.2)
def vcross (a b : Vec3) : Vec3 :=
  (a.2.1 * b.2.2 - a.2.2 * b.2.1, a.2.2 * b.1 - a.1 * b.2.2, a.1 * b.2.1 - a.2.1 * b.1)
/-- `[w]×` as a row-major matrix -/
def skew (w : Vec3) : Mat3 := (0, -w.2.2, w.2.1, w.2.2, 0, -w.1, -w.2.1, w.1, 0)
def conj (q : Quat) : Quat := (q.1, -q.2.1, -q.2.2.1, -q.2.2.2)

theorem mulMatTVec3_eq (m : Mat3) (v : Vec3) : Sensor.mulMatTVec3 m v = matTVec m v := by
  obtain ⟨m0, m1, m2, m3, m4, m5, m6, m7, m8⟩ := m
  obtain ⟨v0, v1, v2⟩ := v
  simp only [Sensor.mulMatTVec3, mju_mulMatTVec3, matTVec]

theorem cross_eq (a b : Vec3) : Sensor.cross a b = vcross a b := by
  obtain ⟨a0, a1, a2⟩ := a
  obtain ⟨b0, b1, b2⟩ := b
  simp only [Sensor.cross, mju_cross, vcross]

/-- FRAMEPOS with a reference frame is `R_refᵀ (p − p_ref)` -/
theorem framePos_eq_spec (p pr : Vec3) (R Rr : Mat3) :
    framePos (p, R) (some (pr, Rr)) = matTVec Rr (vsub p pr) := by
  simp only [framePos, mulMatTVec3_eq, Sensor.sub3, vsub]

/-- FRAMEPOS without a reference frame is the global position -/
theorem framePos_global (o : Vec3 × Mat3) : framePos o none = o.1 := rfl

/-- for an orthogonal reference orientation the reading determines the global position: `p = p_ref + R_ref · reading` -/
theorem framePos_inverts (p pr : Vec3) (R Rr : Mat3) (hR : matMul Rr (matT Rr) = matOne) :
    Spatial.vadd pr (matVec Rr (framePos (p, R) (some (pr, Rr)))) = p := by
  rw [framePos_eq_spec]
  obtain ⟨r0, r1, r2, r3, r4, r5, r6, r7, r8⟩ := Rr
  obtain ⟨p0, p1, p2⟩ := p
  obtain ⟨q0, q1, q2⟩ := pr
  simp only [matMul, matT, matOne, Prod.mk.injEq] at hR
  obtain ⟨h00, h01, h02, h10, h11, h12, h20, h21, h22⟩ := hR
  simp only [matTVec, matVec, vsub, Spatial.vadd, Prod.mk.injEq]
  refine ⟨?_, ?_, ?_⟩
  · linear_combination (p0 - q0) * h00 + (p1 - q1) * h01 + (p2 - q2) * h02
  · linear_combination (p0 - q0) * h10 + (p1 - q1) * h11 + (p2 - q2) * h12
  · linear_combination (p0 - q0) * h20 + (p1 - q1) * h21 + (p2 - q2) * h22

example : matMul (0, -1, 0, 1, 0, 0, 0, 0, 1) (matT (0, -1, 0, 1, 0, 0, 0, 0, 1)) = matOne := by
  simp [matMul, matT, matOne]

/-- column `k` of a matrix (specification) -/
def col (m : Mat3) (k : Fin 3) : Vec3 :=
  match m, k with
  | (m0, _, _, m3, _, _, m6, _, _), 0 => (m0, m3, m6)
  | (_, m1, _, _, m4, _, _, m7, _), 1 => (m1, m4, m7)
  | (_, _, m2, _, _, m5, _, _, m8), 2 => (m2, m5, m8)

/-- FRAMEXAXIS / YAXIS / ZAXIS: column `k` of the object's rotation matrix, or, with a reference frame, `R_refᵀ` times
it, which is column `k` of the relative rotation `R_refᵀ R` -/
theorem frameAxis_eq_spec (k : Fin 3) (p pr : Vec3) (R Rr : Mat3) :
    frameAxis k (p, R) none = col R k ∧
    frameAxis k (p, R) (some (pr, Rr)) = matTVec Rr (col R k) ∧
    frameAxis k (p, R) (some (pr, Rr)) = col (matMul (matT Rr) R) k := by
  obtain ⟨r0, r1, r2, r3, r4, r5, r6, r7, r8⟩ := Rr
  obtain ⟨m0, m1, m2, m3, m4, m5, m6, m7, m8⟩ := R
  fin_cases k <;>
    simp [frameAxis, mulMatTVec3_eq, Sensor.matCol, col, matTVec, matMul, matT]

/-- FRAMEQUAT: the global quaternion, or with a reference `conj(q_ref) · q` -/
theorem frameQuat_eq_spec (q r : Quat) :
    frameQuat q none = q ∧ frameQuat q (some r) = Spatial.mulQuat (conj r) q := by
  obtain ⟨r0, r1, r2, r3⟩ := r
  obtain ⟨q0, q1, q2, q3⟩ := q
  refine ⟨rfl, ?_⟩
  simp only [frameQuat, Sensor.mulQuat, Sensor.negQuat, Spatial.mulQuat, conj, mju_negQuat]

/-- for a unit reference quaternion the reading is the relative orientation: `q_ref · reading = q` -/
theorem frameQuat_recovers (q r : Quat) (hr : normSq4 r = 1) :
    Spatial.mulQuat r (frameQuat q (some r)) = q := by
  obtain ⟨r0, r1, r2, r3⟩ := r
  obtain ⟨q0, q1, q2, q3⟩ := q
  simp only [normSq4] at hr
  simp only [frameQuat, Sensor.mulQuat, Sensor.negQuat, Spatial.mulQuat, mju_negQuat, mju_mulQuat, Prod.mk.injEq]
  refine ⟨?_, ?_, ?_, ?_⟩
  · linear_combination q0 * hr
  · linear_combination q1 * hr
  · linear_combination q2 * hr
  · linear_combination q3 * hr

example : normSq4 ((1:ℝ)/2, 1/2, 1/2, 1/2) = 1 := by simp [normSq4]; norm_num

/-- the rotation matrix of the FRAMEQUAT reading is `R(q_ref)ᵀ R(q)` (for all quaternions: `mju_quat2Mat` is
multiplicative and maps the conjugate to the transpose) -/
theorem frameQuat_matrix (q r : Quat) :
    quat2Mat (frameQuat q (some r)) = matMul (matT (quat2Mat r)) (quat2Mat q) := by
  obtain ⟨r0, r1, r2, r3⟩ := r
  obtain ⟨q0, q1, q2, q3⟩ := q
  simp only [frameQuat, Sensor.mulQuat, Sensor.negQuat, mju_negQuat, mju_mulQuat, quat2Mat, mju_quat2Mat_eq, matF,
    matMul, matT, Prod.mk.injEq]
  tuple_ring

/-- 6D velocity in a (moving, rotating) reference frame -/
theorem frameVel_eq_spec (w v wr vr p pr : Vec3) (Rr : Mat3) :
    frameVel6 (mk6 w v) p (some (mk6 wr vr, pr, Rr)) =
      mk6 (matTVec Rr (vsub w wr)) (matTVec Rr (vsub (vsub v vr) (vcross wr (vsub p pr)))) ∧
    frameVel6 (mk6 w v) p none = mk6 w v := by
  obtain ⟨w0, w1, w2⟩ := w
  obtain ⟨v0, v1, v2⟩ := v
  obtain ⟨a0, a1, a2⟩ := wr
  obtain ⟨b0, b1, b2⟩ := vr
  obtain ⟨p0, p1, p2⟩ := p
  obtain ⟨q0, q1, q2⟩ := pr
  obtain ⟨r0, r1, r2, r3, r4, r5, r6, r7, r8⟩ := Rr
  refine ⟨?_, rfl⟩
  simp only [frameVel6, mk6, sub6, Sensor.sub3, Sensor.add3, Sensor.ang, Sensor.lin, Sensor.cross, mju_cross,
    Sensor.mulMatTVec3, mju_mulMatTVec3, matTVec, vsub, vcross, Prod.mk.injEq]
  first | done | (refine ⟨?_, ?_, ?_, ?_, ?_, ?_⟩ <;> first | trivial | ring)

/-- the FRAMELINVEL reading is the time derivative of the FRAMEPOS reading `R_refᵀ (p − p_ref)`: for every matrix
`Rdot` with `Rdot = [w_ref]× R_ref` (the kinematic equation of the reference orientation) it equals
`Rdotᵀ (p − p_ref) + R_refᵀ (v − v_ref)` (product rule) -/
theorem frameLinVel_is_derivative (w v wr vr p pr : Vec3) (Rr Rdot : Mat3) (hR : Rdot = matMul (skew wr) Rr) :
    Sensor.lin (frameVel6 (mk6 w v) p (some (mk6 wr vr, pr, Rr))) =
      Spatial.vadd (matTVec Rdot (vsub p pr)) (matTVec Rr (vsub v vr)) := by
  subst hR
  obtain ⟨w0, w1, w2⟩ := w
  obtain ⟨v0, v1, v2⟩ := v
  obtain ⟨a0, a1, a2⟩ := wr
  obtain ⟨b0, b1, b2⟩ := vr
  obtain ⟨p0, p1, p2⟩ := p
  obtain ⟨q0, q1, q2⟩ := pr
  obtain ⟨r0, r1, r2, r3, r4, r5, r6, r7, r8⟩ := Rr
  simp only [frameVel6, mk6, sub6, Sensor.sub3, Sensor.add3, Sensor.ang, Sensor.lin, Sensor.cross, mju_cross,
    Sensor.mulMatTVec3, mju_mulMatTVec3, matTVec, vsub, skew, matMul, Spatial.vadd, Prod.mk.injEq]
  refine ⟨?_, ?_, ?_⟩ <;> first | trivial | ring

example : (0, -1, 0, 1, 0, 0, 0, 0, (0:ℝ)) = matMul (skew (0, 0, 1)) matOne := by
  simp [matMul, skew, matOne]

/-! ### `mju_transformSpatial` as used by `mj_objectVelocity`, `mj_objectAcceleration`, force / torque -/

/-- motion vector (ω, v) given at `c`, read at `p` in the frame `R` (velocimeter, gyro): `(Rᵀ ω, Rᵀ (v + ω × (p − c)))` -/
theorem objectVelocity_local_eq_spec (w v p c : Vec3) (R : Mat3) :
    transformSpatial (mk6 w v) false p c (some R) =
      mk6 (matTVec R w) (matTVec R (Spatial.vadd v (vcross w (vsub p c)))) := by
  obtain ⟨w0, w1, w2⟩ := w
  obtain ⟨v0, v1, v2⟩ := v
  obtain ⟨p0, p1, p2⟩ := p
  obtain ⟨c0, c1, c2⟩ := c
  obtain ⟨r0, r1, r2, r3, r4, r5, r6, r7, r8⟩ := R
  simp only [transformSpatial, mk6, mju_transformSpatial, matTVec, vsub, vcross, Spatial.vadd, Bool.false_eq_true,
    if_false, ne_eq, not_true_eq_false, decide_false, Prod.mk.injEq]
  first | done | (refine ⟨?_, ?_, ?_, ?_, ?_, ?_⟩ <;> first | trivial | ring)

/-- the same in global orientation (`rotnew2old == NULL`: FRAMELINVEL / FRAMEANGVEL): `(ω, v + ω × (p − c))` -/
theorem objectVelocity_world_eq_spec (w v p c : Vec3) :
    transformSpatial (mk6 w v) false p c none = mk6 w (Spatial.vadd v (vcross w (vsub p c))) := by
  obtain ⟨w0, w1, w2⟩ := w
  obtain ⟨v0, v1, v2⟩ := v
  obtain ⟨p0, p1, p2⟩ := p
  obtain ⟨c0, c1, c2⟩ := c
  simp only [transformSpatial, mk6, mju_transformSpatial_world, vsub, vcross, Spatial.vadd, Bool.false_eq_true,
    if_false, ne_eq, not_true_eq_false, decide_false, Prod.mk.injEq]
  first | done | (refine ⟨?_, ?_, ?_, ?_, ?_, ?_⟩ <;> first | trivial | ring)

/-- the scene-level functions: when every lookup succeeds and the body is not welded to a dof-less body,
`mj_objectVelocity` is the transported com-based velocity and `mj_objectAcceleration` (global orientation) is the
classical acceleration of the point: `a + α × r + ω × (v + ω × r)`, `r = p − c` -/
theorem objectAcceleration_eq_spec (s : Scene ℝ) (t : ObjType) (id bid : Nat) (p c : Vec3) (R : Mat3)
    (b w root : Body ℝ) (hb : objBody s t id = some bid) (hx : getXposXmat s t id = some (p, R))
    (hbody : s.bodies[bid]? = some b) (hw : s.bodies[b.weldid]? = some w) (hdof : w.dofnum ≠ 0)
    (hroot : s.bodies[b.rootid]? = some root) (hc : root.subtreeCom = c) :
    objectVelocity s t id false =
      some (mk6 (Sensor.ang b.cvel) (Spatial.vadd (Sensor.lin b.cvel) (vcross (Sensor.ang b.cvel) (vsub p c)))) ∧
    objectAcceleration s t id false =
      some (mk6 (Sensor.ang b.cacc)
        (Spatial.vadd (Spatial.vadd (Sensor.lin b.cacc) (vcross (Sensor.ang b.cacc) (vsub p c)))
          (vcross (Sensor.ang b.cvel)
            (Spatial.vadd (Sensor.lin b.cvel) (vcross (Sensor.ang b.cvel) (vsub p c)))))) := by
  subst hc
  have e6 : ∀ x : V6 ℝ, x = mk6 (Sensor.ang x) (Sensor.lin x) := fun x => rfl
  constructor
  · simp only [objectVelocity, hb, hx, hbody, hw, hroot, hdof, Option.bind_eq_bind, Option.bind_some, if_false,
      Option.pure_def, Bool.false_eq_true]
    rw [e6 b.cvel, objectVelocity_world_eq_spec]
    try rfl
  · simp only [objectAcceleration, hb, hx, hbody, hw, hroot, hdof, Option.bind_eq_bind, Option.bind_some, if_false,
      Option.pure_def, Bool.false_eq_true]
    rw [e6 b.cacc, e6 b.cvel, objectVelocity_world_eq_spec, objectVelocity_world_eq_spec]
    simp only [cross_eq]
    try rfl

/-- force / torque sensors: the interaction wrench (τ, f) given about `c`, read about the site `p` in the site frame:
`(Rᵀ (τ − (p − c) × f), Rᵀ f)` -/
theorem siteWrench_eq_spec (tau f p c : Vec3) (R : Mat3) :
    transformSpatial (mk6 tau f) true p c (some R) =
      mk6 (matTVec R (vsub tau (vcross (vsub p c) f))) (matTVec R f) := by
  obtain ⟨t0, t1, t2⟩ := tau
  obtain ⟨f0, f1, f2⟩ := f
  obtain ⟨p0, p1, p2⟩ := p
  obtain ⟨c0, c1, c2⟩ := c
  obtain ⟨r0, r1, r2, r3, r4, r5, r6, r7, r8⟩ := R
  simp only [transformSpatial, mk6, mju_transformSpatial, matTVec, vsub, vcross, if_true, ne_eq, one_ne_zero,
    not_false_eq_true, decide_true, Prod.mk.injEq]
  first | done | (refine ⟨?_, ?_, ?_, ?_, ?_, ?_⟩ <;> first | trivial | ring)

/-- objects on a body welded to a dof-less body (world, static or mocap bodies) read zero velocity and acceleration:
the quick return of `mj_objectVelocity` / `mj_objectAcceleration` -/
theorem static_body_zero_motion (s : Scene ℝ) (t : ObjType) (id bid : Nat) (pr : Vec3 × Mat3) (loc : Bool)
    (b w : Body ℝ) (hb : objBody s t id = some bid) (hx : getXposXmat s t id = some pr)
    (hbody : s.bodies[bid]? = some b) (hw : s.bodies[b.weldid]? = some w) (hdof : w.dofnum = 0) :
    objectVelocity s t id loc = some zero6 ∧ objectAcceleration s t id loc = some zero6 := by
  constructor
  · simp [objectVelocity, hb, hx, hbody, hw, hdof]
  · simp [objectAcceleration, hb, hx, hbody, hw, hdof]

/-! ### property level -/

/-- **PARTIAL.** The property "every sensor reports its documented quantity, clamped by the cutoff where documented" at
the level of `mj_computeSensor`, for the frame position / axis sensors: whenever the object and reference frames
exist, the reading is `apply_cutoff` of `R_refᵀ (p − p_ref)` (FRAMEPOS), of `p` (no reference) and of `R_refᵀ` times the
object's axis.  What is missing for the full property: the other modelled kinds are covered by the per-formula theorems
above (`frameQuat_eq_spec`, `frameVel_eq_spec`, `objectVelocity_*`, `objectAcceleration_eq_spec`, `siteWrench_eq_spec`)
but not restated at this level, and every sensor type outside the model (joint / tendon / actuator / limit / ball /
touch / subtree / magnetometer / clock / energy / insidesite / user / rangefinder / geomdist / contact / tactile / plugin)
is decided by the property oracle of `checks/c28.py` only. -/
theorem computeSensor_frame_eq_spec_partial (s : Scene ℝ) (dt : DataType) (c : ℝ) (ot rt : ObjType) (oid rid : Nat)
    (p pr : Vec3) (R Rr : Mat3) (ho : getXposXmat s ot oid = some (p, R)) (hr : getXposXmat s rt rid = some (pr, Rr)) :
    computeSensor s .framepos dt c ot oid (some (rt, rid)) =
      some (applyCutoff .regular dt c (l3 (matTVec Rr (vsub p pr)))) ∧
    computeSensor s .framepos dt c ot oid none = some (applyCutoff .regular dt c (l3 p)) ∧
    ∀ k, computeSensor s (.frameaxis k) dt c ot oid (some (rt, rid)) =
      some (applyCutoff .regular dt c (l3 (matTVec Rr (col R k)))) := by
  refine ⟨?_, ?_, ?_⟩
  · simp [computeSensor, computeRaw, ho, hr, framePos_eq_spec]
  · simp [computeSensor, computeRaw, ho, framePos_global]
  · intro k
    simp [computeSensor, computeRaw, ho, hr, (frameAxis_eq_spec k p pr R Rr).2.1]

example : getXposXmat (α := ℝ) ⟨[], [], [⟨0, (1, 2, 3), matOne, quatOne⟩], []⟩ .site 0 = some ((1, 2, 3), matOne) := rfl

end MjProof.C28
