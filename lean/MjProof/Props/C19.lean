import MjProof.Lemmas.Arena
/-
C19  Internal stack and arena allocation is memory-safe.

Property theorems only.  The model is `MjProof/Model/Arena.lean` (tied to `engine_memory.c` by the exact
differential run of `checks/c19.py`: offsets, pstack, parena, pbase and the usage statistics after every
operation on a real mjData).  Addresses are naturals below `W = 2^64`; the model wraps exactly where the
C code wraps.  The safety theorems carry the explicit side condition `NoWrap` — the guard that
`engine_memory.c` does **not** have — and `*_wrap_witness` show the model (hence the code, by the
correspondence) violating safety when it fails.
-/
namespace MjProof.C19
open MjProof.Arena

/-! ### Sequential phase (`d->threadlock == 0`): every operation sequence -/

/-- states reachable from a fresh `mj_makeData` by any sequence of
    mark / free / alloc / num / int / arenaAlloc whose sizes do not wrap `size_t`. -/
inductive Reach (c : Cfg) : G → Prop
  | init : Reach c G.init
  | step {g : G} {op : Op} : Reach c g → op.isSeq = true → NoWrap c g.s op → Reach c (gstep c g op).2

/-- a fresh mjData satisfies the invariant. -/
theorem init_inv {c : Cfg} (hw : WFCfg c) : Inv c G.init := by
  unfold WFCfg at hw
  refine ⟨rfl, by simp [G.init, State.init], ?_, rfl, rfl, trivial, ?_⟩
  · show c.base + c.narena - 0 ≤ c.base + c.narena; omega
  · show c.base ≤ c.base + 0; omega

/-- **Main invariant**: after *every* operation sequence the live stack objects (client blocks and
    frame records) are laid out consecutively inside `[top, bottom)`, the arena blocks inside
    `[base, base+parena)`, `parena + pstack ≤ narena`, and `d->pbase` addresses the latest record. -/
theorem all_sequences_safe {c : Cfg} {g : G} (hw : WFCfg c) (h : Reach c g) : Inv c g := by
  induction h with
  | init => exact init_inv hw
  | step _ hs hn ih => exact inv_gstep hw ih hs hn

/-- every live stack object lies inside the arena buffer, above the arena-allocated region. -/
theorem live_stack_in_bounds {c : Cfg} {g : G} (hw : WFCfg c) (h : Reach c g) :
    ∀ o ∈ g.objs, c.base + g.s.parena ≤ o.ext.addr ∧ o.ext.addr + o.ext.size ≤ c.base + c.narena := by
  obtain ⟨_, hfit, hch, _⟩ := all_sequences_safe hw h
  intro o ho
  have := chain_bounds hch o ho
  exact ⟨by omega, this.2⟩

/-- every arena block lies inside `[arena, arena + parena)`, hence inside the buffer and below the stack. -/
theorem live_arena_in_bounds {c : Cfg} {g : G} (hw : WFCfg c) (h : Reach c g) :
    ∀ b ∈ g.arena, c.base ≤ b.addr ∧ b.addr + b.size ≤ c.base + g.s.parena ∧
      c.base + g.s.parena ≤ c.base + c.narena - g.s.pstack := by
  obtain ⟨_, hfit, _, _, _, _, hac⟩ := all_sequences_safe hw h
  intro b hb
  have := (achain_bounds hac).2 b hb
  exact ⟨this.1, this.2, by omega⟩

/-- live stack objects (blocks *and* frame records) are pairwise disjoint. -/
theorem live_stack_pairwise_disjoint {c : Cfg} {g : G} (hw : WFCfg c) (h : Reach c g) :
    g.objs.Pairwise (fun a b => a.ext.Disjoint b.ext) := by
  obtain ⟨_, _, hch, _⟩ := all_sequences_safe hw h
  exact (chain_pairwise hch).imp (fun h => Or.inl h)

/-- arena blocks are pairwise disjoint. -/
theorem live_arena_pairwise_disjoint {c : Cfg} {g : G} (hw : WFCfg c) (h : Reach c g) :
    g.arena.Pairwise Block.Disjoint := by
  obtain ⟨_, _, _, _, _, _, hac⟩ := all_sequences_safe hw h
  exact (achain_pairwise hac).imp (fun h => Or.inr h)

/-- no stack object overlaps an arena block. -/
theorem stack_arena_disjoint {c : Cfg} {g : G} (hw : WFCfg c) (h : Reach c g) :
    ∀ o ∈ g.objs, ∀ b ∈ g.arena, b.Disjoint o.ext := by
  intro o ho b hb
  have h1 := live_stack_in_bounds hw h o ho
  have h2 := live_arena_in_bounds hw h b hb
  exact Or.inl (by omega)

/-- `mj_freeStack` never reads a frame record that was not written. -/
theorem free_never_undef {c : Cfg} {g : G} (hw : WFCfg c) (h : Reach c g) :
    (freeStack c g.s).1 = .unit := by
  obtain ⟨hl, _, _, _, hpb, hfok, _⟩ := all_sequences_safe hw h
  unfold freeStack
  simp only [hl, Bool.false_eq_true, ↓reduceIte]
  split
  · rfl
  · next hp =>
    cases hfs : g.s.frames with
    | nil => rw [hfs] at hpb; exact absurd hpb hp
    | cons f rest =>
      rw [hfs] at hpb
      simp only [headAddr] at hpb
      simp [hpb]

/-! ### Single calls: alignment, bounds, exhaustion -/

/-- A granted stack block is aligned (absolute address), and lies with its red zones in the free gap
    between the arena region and the current top of stack; nothing but `pstack` and the statistics change. -/
theorem stackAlloc_granted {c : Cfg} {s s' : State} {size al a : Nat} (hw : WFCfg c)
    (hl : s.threadlock = false) (hfit : s.parena + s.pstack ≤ c.narena)
    (hal : 0 < al) (hnw : size + al + 2 * c.rz < W)
    (h : stackAlloc c s size al = (.ptr a, s')) :
    a % al = 0 ∧ c.base + s.parena + c.rz ≤ a ∧ a + size + c.rz ≤ c.base + c.narena - s.pstack ∧
    s'.parena = s.parena ∧ s'.pbase = s.pbase ∧ s'.frames = s.frames ∧ s.pstack < s'.pstack ∧
    s'.parena + s'.pstack ≤ c.narena := by
  have hsz : 0 < size := by
    rcases Nat.eq_zero_or_pos size with h0 | h0
    · subst h0; simp [stackAlloc] at h
    · exact h0
  rcases stackAlloc_seq (size := size) (al := al) hw hl hfit hsz hal hnw with
    h' | ⟨a', s'', nt, h', h1, h2, h3, h4, h5, h6, h7, h8, h9⟩
  · rw [h'] at h; simp at h
  · rw [h'] at h
    simp only [Prod.mk.injEq, Res.ptr.injEq] at h
    obtain ⟨rfl, rfl⟩ := h
    unfold WFCfg at hw
    refine ⟨h9, by omega, h8, h1, h2, h3, by omega, by omega⟩

/-- **Stack exhaustion is reported**: with `d->threadlock == 0`, `mju_error` is raised exactly when no
    aligned block with its red zones fits between the arena region and the top of stack, and the
    mjData is left unchanged. -/
theorem stack_exhaustion_reported {c : Cfg} {s : State} {size al : Nat} (hw : WFCfg c)
    (hl : s.threadlock = false) (hfit : s.parena + s.pstack ≤ c.narena) (hsz : 0 < size)
    (hal : 0 < al) (hnw : size + al + 2 * c.rz < W) :
    ((stackAlloc c s size al).1 = .error ↔
      ¬ ∃ p, p % al = 0 ∧ c.base + s.parena + c.rz ≤ p ∧ p + size + c.rz ≤ c.base + c.narena - s.pstack) ∧
    ((stackAlloc c s size al).1 = .error → (stackAlloc c s size al).2 = s) := by
  have hw' := hw; unfold WFCfg at hw'
  rw [stackAlloc_unlocked hl (by omega)]
  have ht := top_eq (s := s) hw (by omega)
  have hlim := limit_eq (s := s) hw (by omega)
  cases h : stackAllocInternal c (bottom c) (top c s) (limit c s) size al with
  | none =>
    rw [ht, hlim] at h
    have := sai_none (by omega) (by omega) hsz hal (by omega) h
    exact ⟨⟨fun _ => this, fun _ => rfl⟩, fun _ => rfl⟩
  | some r =>
    obtain ⟨start, newTop, usage⟩ := r
    rw [ht, hlim] at h
    have := sai_some (by omega) (by omega) hsz hal (by omega) h
    refine ⟨⟨fun h' => by simp at h', fun h' => ?_⟩, fun h' => by simp at h'⟩
    exact absurd ⟨start, this.2.2.2.1, by omega, this.2.2.1⟩ h'

/-- A granted arena block starts at the next multiple of `al` (relative to the arena base) at or
    above `parena`, ends at the new `parena`, which stays below the stack; the address itself is
    aligned whenever the base is (mj_makeData arenas are 64-byte aligned). -/
theorem arenaAlloc_granted {c : Cfg} {s s' : State} {bytes al a : Nat} (hw : WFCfg c)
    (hfit : s.parena + s.pstack ≤ c.narena) (hal : 0 < al) (hnw : s.parena + al + bytes < W)
    (h : arenaAlloc c s bytes al = (.ptr a, s')) :
    c.base + s.parena ≤ a ∧ a < c.base + s.parena + al ∧ (a - c.base) % al = 0 ∧
    (c.base % al = 0 → a % al = 0) ∧
    s'.parena = a - c.base + bytes ∧ s'.parena + s'.pstack ≤ c.narena ∧ s'.pstack = s.pstack ∧
    s'.pbase = s.pbase ∧ s'.frames = s.frames := by
  unfold WFCfg at hw
  have hspec := arenaAlloc_spec (c := c) (s := s) (bytes := bytes) (al := al) (by omega) hfit hal hnw
  have hpad := pad_spec s.parena al hal
  simp only at hspec hpad
  generalize (if s.parena % al ≠ 0 then al - s.parena % al else 0) = pad at hspec hpad
  split at hspec
  · rw [hspec] at h; simp at h
  · rw [hspec] at h
    simp only [Prod.mk.injEq, Res.ptr.injEq] at h
    obtain ⟨rfl, rfl⟩ := h
    have e : c.base + s.parena + pad - c.base = s.parena + pad := by omega
    refine ⟨by omega, by omega, by rw [e]; exact hpad.2.1, ?_, by simp only [e], by simp only; omega, rfl, rfl, rfl⟩
    intro hb
    have : c.base + s.parena + pad = c.base + (s.parena + pad) := by omega
    rw [this, Nat.add_mod, hb, hpad.2.1]; simp

/-- **Arena exhaustion is reported**: `mj_arenaAllocByte` returns NULL exactly when the block, placed at
    the next multiple of `al` at or above `parena`, would not end below the stack
    (`narena - pstack`); the mjData is then unchanged; and it never returns anything else than a
    pointer or NULL. -/
theorem arena_exhaustion_reported {c : Cfg} {s : State} {bytes al : Nat} (hw : WFCfg c)
    (hfit : s.parena + s.pstack ≤ c.narena) (hal : 0 < al) (hnw : s.parena + al + bytes < W) :
    ((arenaAlloc c s bytes al).1 = .null ↔
      ¬ ∃ off, off % al = 0 ∧ s.parena ≤ off ∧ off + bytes ≤ c.narena - s.pstack) ∧
    ((arenaAlloc c s bytes al).1 = .null → (arenaAlloc c s bytes al).2 = s) ∧
    ((arenaAlloc c s bytes al).1 = .null ∨ ∃ a, (arenaAlloc c s bytes al).1 = .ptr a) := by
  unfold WFCfg at hw
  have hspec := arenaAlloc_spec (c := c) (s := s) (bytes := bytes) (al := al) (by omega) hfit hal hnw
  have hpad := pad_spec s.parena al hal
  simp only at hspec hpad
  generalize (if s.parena % al ≠ 0 then al - s.parena % al else 0) = pad at hspec hpad
  split at hspec
  · next hgt =>
    rw [hspec]
    refine ⟨⟨fun _ => ?_, fun _ => rfl⟩, fun _ => rfl, Or.inl rfl⟩
    rintro ⟨off, h1, h2, h3⟩
    have := hpad.2.2 off h1 h2
    omega
  · next hle =>
    rw [hspec]
    refine ⟨⟨fun h' => by simp at h', fun h' => ?_⟩, fun h' => by simp at h', Or.inr ⟨_, rfl⟩⟩
    exact absurd ⟨s.parena + pad, hpad.2.1, by omega, by omega⟩ h'

/-- **Reservation under the thread lock** (`d->threadlock != 0`): the reservation
    `A = size + al - 1 + 2*rz` is added to `pstack` by the fetch-add in every case; `mju_error` is raised
    exactly when `pstack + A > narena - parena` (the reservation is *not* rolled back); otherwise the
    block is aligned and lies, with its red zones, inside the reserved interval. -/
theorem locked_reservation {c : Cfg} {s : State} {size al : Nat} (hw : WFCfg c)
    (hl : s.threadlock = true) (hpa : s.parena ≤ c.narena) (hsz : 0 < size) (hal : 0 < al)
    (hnw : s.pstack + size + al + 2 * c.rz < W) :
    (stackAlloc c s size al).2 = { s with pstack := s.pstack + (size + al - 1 + 2 * c.rz) } ∧
    ((stackAlloc c s size al).1 = .error ↔ s.pstack + (size + al - 1 + 2 * c.rz) > c.narena - s.parena) ∧
    (∀ a, (stackAlloc c s size al).1 = .ptr a →
      a % al = 0 ∧ c.base + c.narena - (s.pstack + (size + al - 1 + 2 * c.rz)) + c.rz ≤ a ∧
      a + size + c.rz ≤ c.base + c.narena - s.pstack ∧ c.base + s.parena ≤ a) := by
  unfold WFCfg at hw
  have hspec := lockedAlloc_spec (c := c) (s := s) (size := size) (al := al) (by omega) hl hpa hsz hal hnw
  split at hspec
  · next hgt =>
    rw [hspec]
    exact ⟨rfl, ⟨fun _ => hgt, fun _ => rfl⟩, fun a h => by simp at h⟩
  · next hle =>
    obtain ⟨a, he, h1, h2, h3⟩ := hspec
    rw [he]
    refine ⟨rfl, ⟨fun h => by simp at h, fun h => absurd h hle⟩, fun a' h => ?_⟩
    simp only [Res.ptr.injEq] at h
    subst h
    exact ⟨h1, h2, h3, by omega⟩

/-! ### Well-nested sequences: free restores the marked stack pointer -/

/-- **`mj_freeStack` restores the marked stack pointer.**  From any reachable state, run
    `mj_markStack; ops; mj_freeStack` where `ops` is any well-nested sequence (every free inside
    matches a mark inside) and no call raised `mju_error`: `pstack`, `pbase`, the frame records and the
    set of live stack objects are exactly what they were before the mark (every block allocated in
    between is dead, nothing else is). -/
theorem free_restores {c : Cfg} {g : G} (hw : WFCfg c) (hr : Reach c g) (ops : List Op)
    (hops : ∀ op ∈ ops, op.isSeq = true ∧ NoWrapS c op) (hbal : balanced 0 ops = true)
    (hne : Res.error ∉ (grun c g (.mark :: ops ++ [.free])).1) :
    (grun c g (.mark :: ops ++ [.free])).2.s.pstack = g.s.pstack ∧
    (grun c g (.mark :: ops ++ [.free])).2.s.pbase = g.s.pbase ∧
    (grun c g (.mark :: ops ++ [.free])).2.s.frames = g.s.frames ∧
    (grun c g (.mark :: ops ++ [.free])).2.objs = g.objs := by
  have hi := all_sequences_safe hw hr
  have hw' := hw; unfold WFCfg at hw'
  have e : Op.mark :: ops ++ [Op.free] = Op.mark :: (ops ++ [Op.free]) := rfl
  rw [e] at hne ⊢
  simp only [grun, grun_append, List.mem_cons, List.mem_append, not_or, List.not_mem_nil, or_false] at hne ⊢
  obtain ⟨hne1, hne2, hne3⟩ := hne
  have hi1 : Inv c (gstep c g .mark).2 := inv_gstep hw hi rfl trivial
  rcases gstep_mark_objs hw hi with he | ⟨_, a, hobj⟩
  · exact absurd he.symm hne1
  · obtain ⟨hi2, pfx', hobj2, hpf⟩ := run_balanced hw ops 0 (gstep c g .mark).2 [] _ hi1
      (by rw [hobj]; rfl) rfl hops hbal hne2
    generalize (grun c (gstep c g .mark).2 ops).2 = g2 at *
    have hfr : g2.s.frames = ⟨a, g.s.pbase, c.base + c.narena - g.s.pstack⟩ :: g.s.frames := by
      rw [← hi2.2.2.2.1, hobj2, framesOf_append, hpf, ← hi.2.2.2.1]; rfl
    have hp : g2.s.pbase ≠ 0 := by
      have h5 := hi2.2.2.2.2.1
      have h6 := hi2.2.2.2.2.2.1
      rw [hfr] at h5 h6
      rw [h5]; exact h6.2.1
    have hst := gstep_free_state hi2 hfr hp
    have hob := (gstep_free_objs hi2 hp).2
    refine ⟨?_, by rw [hst], by rw [hst], ?_⟩
    · rw [hst]
      show sub64 (bottom c) (c.base + c.narena - g.s.pstack) = g.s.pstack
      rw [bottom_eq hw]
      have := hi.2.1
      rw [sub64_eq (by omega) (by omega)]; omega
    · rw [hob, hobj2]
      have : dropToFrame (pfx' ++ (Obj.frm ⟨a, g.s.pbase, c.base + c.narena - g.s.pstack⟩ :: g.objs)) = g.objs := by
        clear hobj2
        induction pfx' with
        | nil => rfl
        | cons o t ih =>
          cases o with
          | blk b => simp only [List.cons_append, dropToFrame]; exact ih (by simpa [framesOf] using hpf)
          | frm f => simp [framesOf] at hpf
      exact this

/-! ### Concurrent reservations under the thread lock -/

/-- **Concurrent reservations are disjoint for every interleaving.**  Pool threads run programs
    `progs` (lists of `(size, alignment)` requests); `sched` is any schedule; the atomic fetch-adds on
    `d->pstack` happen in the order `interleave progs sched` (each reservation reads only its own
    fetch-add result and quantities that are constant while the lock is held).  Provided the summed
    requests do not wrap the 64-bit counter, the granted blocks are pairwise disjoint, aligned, and lie
    in the gap `[arena + parena, bottom - pstack₀)` that was free when the lock was taken — hence they
    overlap neither the arena region nor any object live at that moment — whatever happens to the
    requests that overflow; and every reservation is accounted for in the final `pstack`. -/
theorem concurrent_reservations_disjoint {c : Cfg} (hw : WFCfg c) (s : State)
    (hl : s.threadlock = true) (hpa : s.parena ≤ c.narena)
    (progs : List (List (Nat × Nat))) (sched : List Nat)
    (hal : ∀ p ∈ progs, ∀ r ∈ p, 0 < r.2) (hnw : s.pstack + totalAll c progs < W) :
    (granted (interleave progs sched) (lockedRun c s (interleave progs sched)).1).Pairwise
      (fun x y => x.1.Disjoint y.1) ∧
    (∀ x ∈ granted (interleave progs sched) (lockedRun c s (interleave progs sched)).1,
      c.base + s.parena ≤ x.1.addr ∧ x.1.addr + x.1.size ≤ c.base + c.narena - s.pstack ∧
      x.1.addr % x.2 = 0) ∧
    (lockedRun c s (interleave progs sched)).2 =
      { s with pstack := s.pstack + reserved c (interleave progs sched) } := by
  have ht := interleave_total c sched progs
  refine locked_core hw _ s hl hpa (fun r hr => ?_) (by omega)
  obtain ⟨q, hq, hrq⟩ := ht.2 r hr
  exact hal q hq r hrq

/-- the blocks reserved under the lock are disjoint from everything that was live when the lock was
    taken (sequential invariant + the gap property above). -/
theorem locked_blocks_disjoint_from_live {c : Cfg} {g : G} (hw : WFCfg c) (hr : Reach c g)
    (reqs : List (Nat × Nat)) (hal : ∀ r ∈ reqs, 0 < r.2) (hnw : g.s.pstack + total c reqs < W) :
    ∀ x ∈ granted reqs (lockedRun c { g.s with threadlock := true } reqs).1,
      (∀ o ∈ g.objs, x.1.Disjoint o.ext) ∧ (∀ b ∈ g.arena, b.Disjoint x.1) := by
  have hi := all_sequences_safe hw hr
  have hfit := hi.2.1
  have hcore := locked_core hw reqs { g.s with threadlock := true } rfl (by simp only; omega) hal hnw
  intro x hx
  have hb := hcore.2.1 x hx
  simp only at hb
  refine ⟨fun o ho => ?_, fun b hbm => ?_⟩
  · have := chain_bounds hi.2.2.1 o ho
    exact Or.inl (by omega)
  · have := (achain_bounds hi.2.2.2.2.2.2).2 b hbm
    exact Or.inl (by omega)

/-- the locked run changes nothing but `pstack`. -/
theorem lockedRun_only_pstack (c : Cfg) : ∀ (reqs : List (Nat × Nat)) (s : State), s.threadlock = true →
    ∃ p, (lockedRun c s reqs).2 = { s with pstack := p }
  | [], s, _ => ⟨s.pstack, rfl⟩
  | (size, al) :: rest, s, hl => by
    rw [lockedRun_cons]
    have h1 : ∃ p, (stackAlloc c s size al).2 = { s with pstack := p } := by
      obtain ⟨pa, ps, pb, tl, ms, ma, fr⟩ := s
      simp only at hl; subst hl
      unfold stackAlloc
      simp only [↓reduceIte]
      split
      · exact ⟨ps, rfl⟩
      · split <;> exact ⟨_, rfl⟩
    obtain ⟨p, hp⟩ := h1
    rw [hp]
    obtain ⟨p', hp'⟩ := lockedRun_only_pstack c rest { s with pstack := p } hl
    exact ⟨p', by rw [hp']⟩

/-- **`mju_dispatch` returns with the stack pointer it started with**, for every list of task
    reservations in every order, *including* reservations that overflow (whose `pstack` increments are
    never rolled back by `stackalloc` itself) and sizes that wrap: the frame marked before the lock is
    taken is popped after it is released.  If the initial `mj_markStack` overflows, the state is unchanged. -/
theorem dispatch_restores {c : Cfg} {g : G} (hw : WFCfg c) (hr : Reach c g) (reqs : List (Nat × Nat)) :
    ((dispatch c g.s reqs).1 = .error ∧ (dispatch c g.s reqs).2.2 = g.s) ∨
    ((dispatch c g.s reqs).1 = .unit ∧
      (dispatch c g.s reqs).2.2.pstack = g.s.pstack ∧ (dispatch c g.s reqs).2.2.pbase = g.s.pbase ∧
      (dispatch c g.s reqs).2.2.frames = g.s.frames ∧ (dispatch c g.s reqs).2.2.parena = g.s.parena ∧
      (dispatch c g.s reqs).2.2.threadlock = false) := by
  have hi := all_sequences_safe hw hr
  obtain ⟨hl, hfit, _, _, _, _, _⟩ := hi
  have hw' := hw; unfold WFCfg at hw'
  rcases markStack_seq hw hl hfit with h | ⟨a, s', nt, h, h1, h2, h3, h4, h5, h6, h7, h8, _⟩
  · left; simp [dispatch, h]
  · right
    obtain ⟨p, hp⟩ := lockedRun_only_pstack c reqs { s' with threadlock := true } rfl
    have ha : a ≠ 0 := by omega
    have hsub : sub64 (bottom c) (c.base + c.narena - g.s.pstack) = g.s.pstack := by
      rw [bottom_eq hw, sub64_eq (by omega) (by omega)]; omega
    unfold dispatch
    rw [h]
    simp only []
    rw [hp]
    simp only [freeStack, Bool.false_eq_true, ↓reduceIte, h2, ha, h3, hsub, h1]
    simp

/-! ### The guard the code lacks: wrap-around witnesses -/

/-- a 4 KiB arena at a 64-byte aligned address, as in the replay of `checks/c19.py`. -/
def wc : Cfg := ⟨35184372088832, 4096, 0⟩

example : WFCfg wc := by unfold WFCfg; decide +kernel

/-- **Missing guard, unlocked path.**  `mj_stackAllocByte(d, SIZE_MAX, 8)` on a fresh mjData raises no
    error and returns `arena + narena` (one past the end of the buffer) for a block of 2^64-1 bytes:
    `size + fastmod(start, alignment)` wraps to 0 in `stack_required_bytes`. -/
theorem stackAlloc_wrap_witness :
    stackAlloc wc State.init (W - 1) 8 = (.ptr (wc.base + wc.narena), State.init) := by decide +kernel

/-- **Missing guard, thread-lock path.**  With 64 bytes already reserved, a request of 2^64-16 bytes
    (`mj_stackAllocNum(d, 2^61-2)` passes that function's own guard) is granted: `old_pstack + alloc_size`
    wraps, the returned block starts *above* the previous top (inside the live reservation) and
    `pstack` goes down from 64 to 55. -/
theorem locked_wrap_witness :
    stackAllocElems wc { State.init with threadlock := true, pstack := 64 } (2305843009213693950) 8 =
      (.ptr (wc.base + wc.narena - 64 + 16), { State.init with threadlock := true, pstack := 55 }) := by
  decide +kernel

/-- **Missing guard, arena.**  After 256 bytes are handed out, `mj_arenaAllocByte(d, 2^64-128, 8)` is
    granted (`parena + padding + bytes` wraps) and moves `parena` *back* to 128, so that the next
    allocation of 64 bytes overlaps the first block. -/
theorem arena_wrap_witness :
    let s1 := (arenaAlloc wc State.init 256 8).2
    let s2 := (arenaAlloc wc s1 (W - 128) 8).2
    (arenaAlloc wc State.init 256 8).1 = .ptr wc.base ∧
    (arenaAlloc wc s1 (W - 128) 8).1 = .ptr (wc.base + 256) ∧ s2.parena = 128 ∧
    (arenaAlloc wc s2 64 8).1 = .ptr (wc.base + 128) := by decide +kernel

/-- `fastmod` is `%` on all of `size_t × size_t` (the power-of-two fast path is correct). -/
theorem fastmod_correct {a b : Nat} (ha : a < W) (hb : b < W) : fastmod a b = a % b := fastmod_eq_mod ha hb

/-- `mj_stackAllocNum/Int`'s own guard implies the no-wrap condition in the regular (non-ASAN) build. -/
theorem elems_guard_suffices {c : Cfg} (s : State) (hrz : c.rz = 0) (n : Nat) :
    NoWrap c s (.num n) ∧ NoWrap c s (.int n) := by
  unfold NoWrap W
  simp only [hrz]
  constructor <;> omega

/-! ### Non-vacuity -/

/-- a concrete reachable history with live blocks, frames and arena blocks. -/
example : ∃ g, Reach wc g ∧ g.objs.length = 4 ∧ g.arena.length = 1 ∧ g.s.frames.length = 1 := by
  refine ⟨(gstep wc (gstep wc (gstep wc (gstep wc (gstep wc G.init (.alloc 100 8)).2 .mark).2
            (.alloc 7 64)).2 (.arena 100 8)).2 (.num 10)).2, ?_, by decide +kernel, by decide +kernel, by decide +kernel⟩
  refine Reach.step (Reach.step (Reach.step (Reach.step (Reach.step Reach.init rfl ?_) rfl trivial) rfl ?_) rfl ?_) rfl ?_
  all_goals (unfold NoWrap W; first | decide +kernel | omega)

example : balanced 0 [.alloc 8 8, .mark, .num 3, .free, .arena 16 8] = true := by decide

example : interleave [[(8, 8), (16, 16)], [(24, 8)]] [1, 0, 1, 0, 5] = [(24, 8), (8, 8), (16, 16)] := by decide

end MjProof.C19
