import MjProof.Lemmas.SolverCert
import MjProof.Gen.C09Calls
import MjProof.Model.FwdInv
import Mathlib.LinearAlgebra.Matrix.NonsingularInverse
import Mathlib.Algebra.Order.Star.Real
/-
C09  Forward and inverse dynamics agree.

Abstract linear-algebra model of the two pipelines at one state (both run the same position and velocity
stages, so `M`, `J`, `aref`, the bias force `c = qfrc_bias (+ tendon bias)` and the passive force `p` are shared):

  forward   qfrc_smooth = p − c + u,          u = qfrc_applied + Jxᵀ xfrc_applied + qfrc_actuator
            efc_force   = F(J a − aref)        (last `PrimalUpdateConstraint` of the primal solver; `F` = mj_constraintUpdate)
            converged:    M a = qfrc_smooth + Jᵀ efc_force                              (stationarity)
  inverse   efc_force   = F(J a − aref)        (`mj_invConstraint`)
            qfrc_inverse = c + M a − p − Jᵀ efc_force     (`mj_rne(flg_acc = 0)` + tendon bias + `Ma − qfrc_passive − qfrc_constraint`)

  inverse_of_forward            stationarity ⇒ qfrc_inverse = u and equal constraint forces
  inverse_residual_is_gradient  without convergence: qfrc_inverse − u is exactly the gradient of the solver's objective
                                (the quantity C10's certificate bounds), so the fwd/inv discrepancy measures non-convergence
  both_reach_constraintUpdate   on the call graph generated from the sources: mj_inverseSkip → mj_invConstraint →
                                mj_constraintUpdate → mj_constraintUpdate_impl, and mj_fwdConstraint reaches the same
                                function through mj_solNewton / mj_solCG / solveIslandTask → mj_solPrimal →
                                PrimalUpdateConstraint and through warmstart
  invdiscrete_euler / invdiscrete_implicit   the discrete-time correction `mj_discreteAcc` recovers the continuous acceleration
-/
namespace MjProof.C09
open Matrix

variable {n m : ℕ}

/-- what both pipelines share at one state -/
structure Dyn (n m : ℕ) where
  M : Matrix (Fin n) (Fin n) ℝ
  J : Matrix (Fin m) (Fin n) ℝ
  aref : Fin m → ℝ
  /-- bias forces (Coriolis, centrifugal, gravity, tendon bias) -/
  c : Fin n → ℝ
  /-- passive forces -/
  p : Fin n → ℝ

/-- the constraint forces both pipelines compute at an acceleration `a`: one function, `mj_constraintUpdate` -/
def constraintForce (D : Dyn n m) (F : (Fin m → ℝ) → (Fin m → ℝ)) (a : Fin n → ℝ) : Fin m → ℝ :=
  F (D.J *ᵥ a - D.aref)

/-- forward dynamics converged at `a` under the generalized applied force `u` -/
def FwdStationary (D : Dyn n m) (F : (Fin m → ℝ) → (Fin m → ℝ)) (u a : Fin n → ℝ) : Prop :=
  D.M *ᵥ a = (D.p - D.c + u) + D.Jᵀ *ᵥ constraintForce D F a

/-- `mj_inverse`: `qfrc_inverse` at the acceleration `a` -/
def qfrcInverse (D : Dyn n m) (F : (Fin m → ℝ) → (Fin m → ℝ)) (a : Fin n → ℝ) : Fin n → ℝ :=
  D.c + D.M *ᵥ a - D.p - D.Jᵀ *ᵥ constraintForce D F a

/-- **Forward and inverse dynamics agree.**  If the forward solver has converged at `a` (stationarity), then
    `mj_inverse` at `a` returns `qfrc_inverse = qfrc_applied + Jᵀ xfrc_applied + qfrc_actuator` and the same
    constraint forces — for every constraint law `F`, because both sides evaluate the same `F`. -/
theorem inverse_of_forward (D : Dyn n m) (F : (Fin m → ℝ) → (Fin m → ℝ)) (u a : Fin n → ℝ)
    (h : FwdStationary D F u a) :
    qfrcInverse D F a = u ∧ constraintForce D F a = F (D.J *ᵥ a - D.aref) := by
  refine ⟨?_, rfl⟩
  unfold qfrcInverse
  unfold FwdStationary at h
  rw [h]
  abel

/-- Without convergence the discrepancy is exactly the gradient of the solver's objective at `a`
    (`grad = M a − qfrc_smooth − Jᵀ F(J a − aref)`, written with `a₀ = M⁻¹ qfrc_smooth` in C10). -/
theorem inverse_residual_is_gradient (D : Dyn n m) (F : (Fin m → ℝ) → (Fin m → ℝ)) (u a : Fin n → ℝ) :
    qfrcInverse D F a - u = D.M *ᵥ a - (D.p - D.c + u) - D.Jᵀ *ᵥ constraintForce D F a := by
  unfold qfrcInverse; abel

/-- … and with `M a₀ = qfrc_smooth` that gradient is C10's `grad` (so `‖qfrc_inverse − u‖` is what C10's
    certificate bounds) -/
theorem inverse_residual_is_c10_gradient (D : Dyn n m) (F : (Fin m → ℝ) → (Fin m → ℝ)) (u a a0 : Fin n → ℝ)
    (h0 : D.M *ᵥ a0 = D.p - D.c + u) :
    qfrcInverse D F a - u = MjProof.SolverCert.grad D.M D.J a0 D.aref F a := by
  rw [inverse_residual_is_gradient]
  unfold MjProof.SolverCert.grad constraintForce
  rw [Matrix.mulVec_sub, h0]

example : ∃ (D : Dyn 1 1) (F : (Fin 1 → ℝ) → (Fin 1 → ℝ)) (u a : Fin 1 → ℝ), FwdStationary D F u a :=
  ⟨⟨1, 1, 0, 0, 0⟩, fun r => -r, 2, 1, by
    funext i; simp [FwdStationary, constraintForce]; norm_num⟩

/-! ### both pipelines call the same constraint update (generated call graph) -/

open MjProof.Gen.C09Calls in
/-- `p` is a path of the generated call graph -/
def isPath (p : List String) : Bool :=
  match p with
  | [] => false
  | _ :: rest =>
    (p.zip rest).all (fun e =>
      match names.idxOf? e.1, names.idxOf? e.2 with
      | some a, some b => edges.contains (a, b)
      | _, _ => false)

open MjProof.Gen.C09Calls in
/-- On the call graph extracted from the sources on every run: the inverse pipeline reaches
    `mj_constraintUpdate_impl` through `mj_invConstraint`, and the forward constraint stage reaches the SAME
    function through each primal solver entry point (`mj_solNewton`, `mj_solCG`, the island task) via
    `PrimalUpdateConstraint`, and through `warmstart`. -/
theorem both_reach_constraintUpdate :
    (isPath invPath = true ∧ invPath.head? = some "mj_inverseSkip" ∧ "mj_invConstraint" ∈ invPath ∧
      invPath.getLast? = some "mj_constraintUpdate_impl") ∧
    (isPath newtonPath = true ∧ newtonPath.head? = some "mj_fwdConstraint" ∧ "mj_solNewton" ∈ newtonPath ∧
      "PrimalUpdateConstraint" ∈ newtonPath ∧ newtonPath.getLast? = some "mj_constraintUpdate_impl") ∧
    (isPath cgPath = true ∧ cgPath.head? = some "mj_fwdConstraint" ∧ "mj_solCG" ∈ cgPath ∧
      "PrimalUpdateConstraint" ∈ cgPath ∧ cgPath.getLast? = some "mj_constraintUpdate_impl") ∧
    (isPath islandPath = true ∧ islandPath.head? = some "mj_fwdConstraint" ∧ "solveIslandTask" ∈ islandPath ∧
      "PrimalUpdateConstraint" ∈ islandPath ∧ islandPath.getLast? = some "mj_constraintUpdate_impl") ∧
    (isPath warmPath = true ∧ warmPath.head? = some "mj_fwdConstraint" ∧ "warmstart" ∈ warmPath ∧
      warmPath.getLast? = some "mj_constraintUpdate_impl") := by
  decide +kernel

/-! ### discrete-time inverse dynamics -/

/-- generic form: the integrator solves `Mhat a_d = M a_c`; `mj_discreteAcc` computes `x` with `M x = Mhat a_d`;
    for invertible `M` that `x` is the continuous acceleration -/
theorem discreteAcc_recovers (M Mhat : Matrix (Fin n) (Fin n) ℝ) (hM : IsUnit M.det) (ac ad x : Fin n → ℝ)
    (hfwd : Mhat *ᵥ ad = M *ᵥ ac) (hinv : M *ᵥ x = Mhat *ᵥ ad) : x = ac := by
  have h : M *ᵥ x = M *ᵥ ac := by rw [hinv, hfwd]
  have := congrArg (fun v => M⁻¹ *ᵥ v) h
  simpa [Matrix.mulVec_mulVec, Matrix.nonsing_inv_mul M hM] using this

/-- **Euler with implicit joint damping.**  `mj_EulerSkip` advances the velocity with
    `a_d = (M + h·diag B)⁻¹ (qfrc_smooth + qfrc_constraint) = (M + h·diag B)⁻¹ M a_c`; with `mjENBL_INVDISCRETE`,
    `mj_discreteAcc` maps `a_d` to `M⁻¹ (M + h·diag B) a_d`, which is `a_c`: the inverse dynamics is then evaluated at the
    continuous acceleration and `inverse_of_forward` applies. -/
theorem invdiscrete_euler (M : Matrix (Fin n) (Fin n) ℝ) (hM : M.PosDef) (B : Fin n → ℝ) (h : ℝ)
    (ac ad x : Fin n → ℝ)
    (hfwd : (M + h • Matrix.diagonal B) *ᵥ ad = M *ᵥ ac)
    (hinv : M *ᵥ x = M *ᵥ ad + h • (fun i => B i * ad i)) : x = ac := by
  have hu : IsUnit M.det := (Matrix.isUnit_iff_isUnit_det M).mp hM.isUnit
  refine discreteAcc_recovers M (M + h • Matrix.diagonal B) hu ac ad x hfwd ?_
  rw [hinv, Matrix.add_mulVec, Matrix.smul_mulVec]
  congr 2
  funext i
  simp [Matrix.mulVec_diagonal]

/-- **Euler, with the branch condition of the code.**  `mj_EulerSkip` integrates implicitly in the joint damping only
    when `eulerDampActive` (neither `mjDSBL_EULERDAMP` nor `mjDSBL_DAMPER` set, some dof damped), otherwise
    `a_d = a_c`; `mj_discreteAcc` applies the correction under the SAME condition (fix 12e0c5659; before it the inverse
    ignored `mjDSBL_DAMPER`), otherwise leaves `qacc` alone.  In every flag combination the continuous acceleration
    is recovered. -/
theorem invdiscrete_euler_flags (M : Matrix (Fin n) (Fin n) ℝ) (hM : M.PosDef) (B : Fin n → ℝ) (h : ℝ)
    (disEulerDamp disDamper anyDamping : Bool) (ac ad x : Fin n → ℝ)
    (hfwd : if FwdInv.eulerDampActive disEulerDamp disDamper anyDamping = true
              then (M + h • Matrix.diagonal B) *ᵥ ad = M *ᵥ ac else ad = ac)
    (hinv : if FwdInv.eulerDampActive disEulerDamp disDamper anyDamping = true
              then M *ᵥ x = M *ᵥ ad + h • (fun i => B i * ad i) else x = ad) : x = ac := by
  by_cases hc : FwdInv.eulerDampActive disEulerDamp disDamper anyDamping = true
  · rw [if_pos hc] at hfwd hinv
    exact invdiscrete_euler M hM B h ac ad x hfwd hinv
  · rw [if_neg hc] at hfwd hinv
    rw [hinv, hfwd]

/-- the defect fixed by 12e0c5659, as a statement about the model: an inverse that ignores `mjDSBL_DAMPER` (applies the
    correction although the forward step was explicit) does not recover the acceleration: `M = B = h = 1`, `a_c = a_d = 2` -/
example : FwdInv.eulerDampActive false true true = false ∧
    ∃ (M B h ac ad x : ℝ), ad = ac ∧ M * x = M * ad + h * (B * ad) ∧ x ≠ ac :=
  ⟨rfl, 1, 1, 1, 2, 2, 4, rfl, by norm_num, by norm_num⟩

/-- non-vacuity: `M = 1, B = 1, h = 1`: `a_c = 2` is integrated as `a_d = 1`, and the correction returns `2` -/
example : ∃ (M : Matrix (Fin 1) (Fin 1) ℝ) (B : Fin 1 → ℝ) (h : ℝ) (ac ad x : Fin 1 → ℝ), M.PosDef ∧
    (M + h • Matrix.diagonal B) *ᵥ ad = M *ᵥ ac ∧ M *ᵥ x = M *ᵥ ad + h • (fun i => B i * ad i) := by
  refine ⟨1, fun _ => 1, 1, fun _ => 2, fun _ => 1, fun _ => 2, Matrix.PosDef.one, ?_, ?_⟩
  · funext i; simp [Matrix.add_mulVec, Matrix.mulVec_diagonal]; norm_num
  · funext i; simp; norm_num

/-- **implicit / implicitfast.**  The integrator solves `(M − h·D) a_d = M a_c` (`D = ∂(smooth force)/∂v`, `qDeriv`);
    `mj_discreteAcc` computes `M⁻¹ (M − h·D) a_d = a_c`. -/
theorem invdiscrete_implicit (M Dq : Matrix (Fin n) (Fin n) ℝ) (hM : M.PosDef) (h : ℝ) (ac ad x : Fin n → ℝ)
    (hfwd : (M - h • Dq) *ᵥ ad = M *ᵥ ac) (hinv : M *ᵥ x = (M - h • Dq) *ᵥ ad) : x = ac :=
  discreteAcc_recovers M (M - h • Dq) ((Matrix.isUnit_iff_isUnit_det M).mp hM.isUnit) ac ad x hfwd hinv

/-- a sign error in the correction (`M − h·diag B` instead of `M + h·diag B`) does NOT recover the continuous
    acceleration: 1-dof witness `M = 1, B = 1, h = 1, a_c = 2` -/
example : ∃ (M B h ac ad x : ℝ), (M + h * B) * ad = M * ac ∧ M * x = (M - h * B) * ad ∧ x ≠ ac :=
  ⟨1, 1, 1, 2, 1, 0, by norm_num, by norm_num, by norm_num⟩

end MjProof.C09
