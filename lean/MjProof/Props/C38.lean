import MjProof.Lemmas.Cache
/-
C38  The asset cache behaves as a bounded priority cache.

Property theorems only.  The model is `MjProof/Model/Cache.lean` (`mjCCache` of
src/user/user_cache.{h,cc}; tied to the tree by the exact differential run of `checks/c38.py`, which
compares complete internal state dumps of the real class with the model after every operation).

All history theorems quantify over *every* list of operations executed from the empty cache
(`run (empty cap) ops`), under the only precondition `OpOk`: inserted byte counts and capacities are
below 2^63, so that `size_t` arithmetic does not wrap (with larger byte counts the real code — and
the model, which follows it — can accept an asset whose size wraps the capacity test).

Sequential histories only: the step from concurrent to sequential histories is the lock discipline
checked syntactically by `checks/c38.py` (every public method holds the one mutex for its whole body).
-/
namespace MjProof.C38
open MjProof.Cache

/-! ### the invariant, for every operation history -/

/-- The freshly constructed cache satisfies the invariant. -/
theorem inv_empty {cap : Nat} (h : cap < HALF) : Inv (empty cap) := inv_empty' h

/-- Every public operation preserves the invariant (from *any* state satisfying it). -/
theorem inv_step {c : Cache} (h : Inv c) (op : Op) (hop : OpOk op) : Inv (step c op).1 := inv_step' h op hop

/-- The invariant holds after every history of inserts, lookups, deletions, model removals, resets
    and capacity changes. -/
theorem inv_run {cap : Nat} (hcap : cap < HALF) (ops : List Op) (hok : ∀ op ∈ ops, OpOk op) :
    Inv (run (empty cap) ops) := inv_run' ops _ (inv_empty' hcap) hok

/-- `Size()` equals the sum of the sizes of the held assets. -/
theorem size_eq_sum {cap : Nat} (hcap : cap < HALF) (ops : List Op) (hok : ∀ op ∈ ops, OpOk op) :
    (run (empty cap) ops).size = sumSizes (run (empty cap) ops).assets :=
  (inv_run hcap ops hok).wf.base.size_eq

/-- `Size()` never exceeds the capacity. -/
theorem size_le_capacity {cap : Nat} (hcap : cap < HALF) (ops : List Op) (hok : ∀ op ∈ ops, OpOk op) :
    (run (empty cap) ops).size ≤ (run (empty cap) ops).capacity :=
  (inv_run hcap ops hok).size_le

/-- Asset ids are unique. -/
theorem ids_unique {cap : Nat} (hcap : cap < HALF) (ops : List Op) (hok : ∀ op ∈ ops, OpOk op) :
    ((run (empty cap) ops).assets.map (·.id)).Nodup :=
  (inv_run hcap ops hok).wf.base.ids_nodup

/-- Insertion numbers are unique (so the priority order `(access, insertNum)` is total and the
    `std::set` never drops an entry), and all lie below the running counter. -/
theorem insert_nums_unique {cap : Nat} (hcap : cap < HALF) (ops : List Op) (hok : ∀ op ∈ ops, OpOk op) :
    ((run (empty cap) ops).assets.map (·.insertNum)).Nodup ∧
    ∀ a ∈ (run (empty cap) ops).assets, a.insertNum < (run (empty cap) ops).insertNum :=
  ⟨(inv_run hcap ops hok).wf.base.nums_nodup, (inv_run hcap ops hok).wf.base.nums_lt⟩

/-- The two reference tables are mutually consistent: model `m` lists asset `id` iff the asset
    stored under `id` lists model `m` (in particular no model references a deleted asset). -/
theorem refs_consistent {cap : Nat} (hcap : cap < HALF) (ops : List Op) (hok : ∀ op ∈ ops, OpOk op) (m id : Nat) :
    id ∈ msGet (run (empty cap) ops).models m ↔
      ∃ a, find (run (empty cap) ops).assets id = some a ∧ m ∈ a.refs :=
  (inv_run hcap ops hok).wf.cons m id

/-- No history reaches undefined behaviour (`Trim` on an empty queue, dangling asset pointer). -/
theorem no_ub {cap : Nat} (hcap : cap < HALF) (ops : List Op) (hok : ∀ op ∈ ops, OpOk op) :
    (run (empty cap) ops).ub = false :=
  (inv_run hcap ops hok).wf.base.noub

/-- The lists that stand for sets in the model never hold duplicates: every asset's reference set and
    the key set of the model table (together with `Base.sets_nodup` for the per-model asset sets), so
    the model state is a faithful image of the `std::set` / `unordered_map` state.  No precondition. -/
theorem rep_run (cap : Nat) (ops : List Op) :
    (∀ a ∈ (run (empty cap) ops).assets, a.refs.Nodup) ∧ ((run (empty cap) ops).models.map (·.1)).Nodup :=
  ⟨(rep_run' ops _ (rep_empty cap)).refs_nodup, (rep_run' ops _ (rep_empty cap)).keys_nodup⟩

/-! ### lookups -/

/-- A lookup hits exactly when the asset is cached and the resource is unmodified (its timestamp
    equals the cached one); it then returns the cached data.  Holds in every state. -/
theorem lookup_hit_iff (c : Cache) (id : Nat) (rts : Option Nat) (d : Nat) :
    (populate c id rts).2 = some d ↔ ∃ a, find c.assets id = some a ∧ rts = some a.ts ∧ d = a.data :=
  populate_hit

/-- After every history, a lookup hit with resource timestamp `t` returns the data `d` of the most
    recent *storing* insert of that asset — `lastStore` scans the history from its end for an accepted
    `Insert` of `id` that found the asset absent or with a different timestamp — and that insert
    carried the timestamp `t`.  (An insert with an unchanged timestamp keeps the cached data: that is
    the code's notion of "unmodified".)  No precondition on sizes is needed. -/
theorem lookup_latest_unmodified (cap : Nat) (ops : List Op) (id t d : Nat)
    (h : (populate (run (empty cap) ops) id (some t)).2 = some d) :
    lastStore (empty cap) ops id = some (t, d) := by
  obtain ⟨a, hf, ht, hd⟩ := populate_hit.mp h
  rcases find_lastStore ops (empty cap) id a hf with h1 | ⟨_, a0, ha0, _⟩
  · simp at ht; subst ht; subst hd; exact h1
  · simp [empty, find_nil] at ha0

/-- If the data is a function of `(id, timestamp)` in every insert of the history (the same version
    of a file always has the same contents), a lookup hit returns the contents of exactly the version
    the resource asks for. -/
theorem lookup_coherent (content : Nat → Nat → Nat) (cap : Nat) (ops : List Op)
    (hco : ∀ m id ts d sz, Op.insert m id ts d sz ∈ ops → d = content id ts) (id t d : Nat)
    (h : (populate (run (empty cap) ops) id (some t)).2 = some d) : d = content id t := by
  obtain ⟨m, sz, hm⟩ := lastStore_mem ops _ id t d (lookup_latest_unmodified cap ops id t d h)
  exact hco m id t d sz hm

/-! ### eviction -/

/-- `SetCapacity(n)` re-establishes the invariant (in particular `size ≤ n`). -/
theorem trim_inv {c : Cache} (h : Inv c) (n : Nat) (hn : n < HALF) :
    Inv (setCapacity c n) ∧ (setCapacity c n).capacity = n :=
  ⟨inv_setCapacity h n hn, by unfold setCapacity trim; rw [trimN_capacity]⟩

/-- Eviction follows `(access count, insertion order)`: every asset evicted by `SetCapacity` precedes
    every surviving asset in that order. -/
theorem trim_evicts_min {c : Cache} (h : Inv c) (n : Nat) (hn : n < HALF) (a b : Asset)
    (ha : a ∈ c.assets) (hout : a ∉ (setCapacity c n).assets) (hb : b ∈ (setCapacity c n).assets) :
    keyLt a b = true := by
  have hb0 := h.wf.base
  have hwf : Wf { c with capacity := n } :=
    ⟨⟨hb0.noub, hb0.size_eq, hb0.size_lt, hn, hb0.ids_nodup, hb0.nums_nodup, hb0.nums_lt, hb0.sets_nodup⟩, h.wf.cons⟩
  exact trimN_evicts_min _ _ hwf a ha hout b hb

/-- Eviction stops as soon as the size fits: putting back the last evicted asset (the evicted one
    with the greatest key) would exceed the new capacity. -/
theorem trim_stops_early {c : Cache} (h : Inv c) (n : Nat) (hn : n < HALF) (a : Asset)
    (ha : a ∈ c.assets) (hout : a ∉ (setCapacity c n).assets)
    (hmax : ∀ b ∈ c.assets, b ∉ (setCapacity c n).assets → ¬ keyLt a b = true) :
    (setCapacity c n).size + a.size > n := by
  have hb0 := h.wf.base
  have hwf : Wf { c with capacity := n } :=
    ⟨⟨hb0.noub, hb0.size_eq, hb0.size_lt, hn, hb0.ids_nodup, hb0.nums_nodup, hb0.nums_lt, hb0.sets_nodup⟩, h.wf.cons⟩
  exact trimN_stops_early _ _ hwf (Nat.le_refl _) a ha hout hmax

/-! ### model removal -/

/-- An asset still referenced by another model survives `RemoveModel(m)` unchanged (same data,
    timestamp, size, access count, insertion number) except that it no longer references `m`. -/
theorem removeModel_keeps_shared {c : Cache} (h : Inv c) (m id : Nat) (a : Asset)
    (hf : find c.assets id = some a) (hshared : ∃ m' ∈ a.refs, m' ≠ m) :
    find (removeModel c m).assets id = some { a with refs := setErase m a.refs } := by
  rw [removeModel_find h m id hf]
  obtain ⟨m', hm', hne⟩ := hshared
  have hne' : (setErase m a.refs).isEmpty = false := by
    cases hs : setErase m a.refs with
    | nil =>
      have : m' ∈ setErase m a.refs := mem_setErase.mpr ⟨hm', hne⟩
      rw [hs] at this; simp at this
    | cons x xs => rfl
  unfold afterRemove
  by_cases hm : m ∈ a.refs
  · simp [hm, hne']
  · simp [hm, setErase_of_not_mem hm]

/-- An asset referenced only by `m` is dropped by `RemoveModel(m)`. -/
theorem removeModel_drops_unshared {c : Cache} (h : Inv c) (m id : Nat) (a : Asset)
    (hf : find c.assets id = some a) (hm : m ∈ a.refs) (honly : ∀ m' ∈ a.refs, m' = m) :
    find (removeModel c m).assets id = none := by
  rw [removeModel_find h m id hf]
  have : setErase m a.refs = [] := by
    cases hs : setErase m a.refs with
    | nil => rfl
    | cons x xs =>
      have hx : x ∈ setErase m a.refs := by rw [hs]; simp
      have := mem_setErase.mp hx
      exact absurd (honly x this.1) this.2
  unfold afterRemove
  simp [hm, this]

/-- An asset that does not reference `m` is untouched by `RemoveModel(m)`. -/
theorem removeModel_keeps_unrelated {c : Cache} (h : Inv c) (m id : Nat) (a : Asset)
    (hf : find c.assets id = some a) (hm : m ∉ a.refs) :
    find (removeModel c m).assets id = some a := by
  rw [removeModel_find h m id hf]
  unfold afterRemove
  simp [hm]

/-! ### non-vacuity: concrete instances of the hypotheses and of the behaviours -/

/-- a history mixing all operation kinds -/
def sampleOps : List Op :=
  [.insert 0 1 5 77 4, .insert 1 1 5 78 6, .insert 1 1 6 79 6, .insert 1 2 1 20 5, .populate 1 (some 6),
   .insert 0 3 1 30 1, .populate 3 (some 1), .populate 3 (some 1)]

example : (10 : Nat) < HALF := by unfold HALF; omega
example : ∀ op ∈ sampleOps, OpOk op := by
  intro op h
  simp [sampleOps] at h
  rcases h with rfl | rfl | rfl | rfl | rfl | rfl | rfl <;> simp [OpOk, HALF]
/-- the invariant is about a non-empty cache: two assets, 7 of 10 bytes, asset 1 shared by two models -/
example : (run (empty 10) sampleOps).size = 7 ∧ (run (empty 10) sampleOps).assets.map (·.id) = [1, 3] ∧
    (find (run (empty 10) sampleOps).assets 1).map (·.refs) = some [0, 1] := by decide
/-- a lookup hit (hypothesis of `lookup_latest_unmodified`): the second insert with the unchanged
    timestamp 5 did not replace the data, the third (timestamp 6) did -/
example : (populate (run (empty 10) sampleOps) 1 (some 6)).2 = some 79 ∧
    lastStore (empty 10) sampleOps 1 = some (6, 79) := by decide
example : (populate (run (empty 10) (sampleOps.take 2)) 1 (some 5)).2 = some 77 := by decide
/-- hypotheses of `trim_evicts_min` / `trim_stops_early`: asset 1 (access 1) is evicted, asset 3
    (access 2) survives, and 1 + 6 > 5 -/
example : (setCapacity (run (empty 10) sampleOps) 5).assets.map (·.id) = [3] ∧
    (setCapacity (run (empty 10) sampleOps) 5).size = 1 := by decide
/-- hypotheses of the `removeModel_*` theorems: asset 1 is shared by models 0 and 1, asset 3 belongs
    to model 0 only -/
example : (removeModel (run (empty 10) sampleOps) 0).assets.map (fun a => (a.id, a.refs)) = [(1, [1])] := by decide
example : (removeModel (run (empty 10) sampleOps) 1).assets.map (fun a => (a.id, a.refs)) = [(1, [0]), (3, [0])] := by
  decide

end MjProof.C38
