import MjProof.Props.C49
import MjProof.Lemmas.Introspect
import MjProof.Props.C49GenEnums
import MjProof.Props.C49GenParse
import MjProof.Props.C49GenStructs
import MjProof.Props.C49GenFunctions
import MjProof.Props.C49GenWf
/-
C49 (table half): the metadata shipped in python/mujoco/introspect/{enums,structs,functions}.py
(`Gen/IntrospectPython.lean`, dumped from the imported modules) equals what the C compiler sees in
include/mujoco (`Gen/IntrospectHeaders.lean`, from `clang -ast-dump=json` plus the header text).
Both files are regenerated from the working tree on every run by translate/c49_tables.py; a
disagreement makes the corresponding `decide +kernel` fail, i.e. one of the imported modules stops
compiling:
  C49GenEnums      enum_tables_equal
  C49GenStructs    struct_tables_equal
  C49GenFunctions  function_tables_equal
  C49GenParse      header_type_strings_parse
  C49GenWf         python_types_ok
The statements about the generated tables are closed terms decided by kernel evaluation; texts are
numerals (see Model/Introspect.lean), decoded by `dS` where the parser or printer is involved.
-/
namespace MjProof.C49
open MjProof.CType MjProof.Introspect
open MjProof.Gen

/-- Every type AST in the shipped struct and function tables is well formed … -/
theorem python_types_wf :
    ∀ t ∈ structTypes IntrospectPython.structs ++ funcTypes IntrospectPython.functions, WF t.decode = true :=
  typesOk_wf python_types_ok

/-- … hence printing it (`str(t)`) and parsing the text gives the same AST back. -/
theorem python_types_roundtrip :
    ∀ t ∈ structTypes IntrospectPython.structs ++ funcTypes IntrospectPython.functions,
      parseType (decl t.decode) = some t.decode :=
  fun t ht => parse_decl_roundtrip t.decode (python_types_wf t ht)

/-- The AST of every header-side member / parameter / return type is the parse of its spelling:
    whatever index a header-side table entry carries, the looked-up AST is what the model parser
    returns on the spelling stored next to it. -/
theorem header_lookup_is_parse (i : Nat) (t : CTypeN) (h : lookup IntrospectHeaders.typeTable i = some t) :
    ∃ s : Nat, IntrospectHeaders.typeTable[i]? = some (s, t) ∧ parseType (dS s) = some t.decode :=
  lookup_parses header_type_strings_parse i t h

end MjProof.C49
