import MjProof.Lemmas.TimeSeries
import Mathlib.Algebra.Order.Field.Rat
import Mathlib.Tactic.NormNum
/-
C48  System-identification signal transforms are pure.

What is proved here (about the model `MjProof/Model/TimeSeries.lean`, for every number of samples and columns):
* `grouped_eq_columnwise`, `groupByDelay_eq_columnwise`, `resampleGroups_spec`: the group loop of
  `apply_resample_and_delay` equals the column-by-column result for ANY grouping consistent with the
  per-column delays -- over an arbitrary carrier (no law of arithmetic is used, so this also holds for the
  IEEE-double instance the driver runs), and `applyResampleAndDelay_eq_columnwise` for the whole function
  including its exceptions (over an ordered field);
* `resample_at_original_times_id`, `lerp_between_neighbours`, `interp_within_global_range`, `clamp_below`,
  `clamp_above`, `applyDelay_zero_id`, `window_times_in_range` over an arbitrary linearly ordered field.
Purity ("the inputs are not modified") is not a statement about immutable values: it is checked on the real
code by the harness on every run (checks/c48.py).
-/
namespace MjProof.C48
open MjProof.TimeSeries

/-! ### grouped = column-wise -/
section Grouped
variable {α : Type} {m : Nat} [Add α] [Sub α] [Mul α] [Div α] [LT α] [DecidableLT α]

/-- For any grouping of the columns that is consistent with the per-column delays and covers every column,
    cell `(r, c)` of the grouped result is the linear interpolation of the single-column series
    `data[:, c:c+1]` at `times[r] + delays[c]` (and no cell is left uninitialised).  Both variants of
    `interpolate` (`hold`, see the model header). -/
theorem resampleGroups_spec (hold : Bool) (l : List (Sample α m)) (hl : 0 < l.length) (nt : List α)
    (delays : Vector α m) (groups : List (α × List (Fin m))) (hc : Consistent delays groups) (hcov : Covers groups) :
    resampleGroups hold l hl nt groups =
      nt.map (fun t => Vector.ofFn fun c : Fin m =>
        some ((interp hold (selectCols [c] l) (by rw [selectCols_length]; exact hl) (t + delays[c]))[0])) :=
  resampleGroups_spec' hold l hl nt delays groups hc hcov

/-- Resampling with grouped per-sensor delays equals the column-by-column result, for any grouping
    (consistent with the delays, covering the columns), any number of columns and samples. -/
theorem grouped_eq_columnwise (hold : Bool) (l : List (Sample α m)) (hl : 0 < l.length) (nt : List α)
    (delays : Vector α m) (groups : List (α × List (Fin m))) (hc : Consistent delays groups) (hcov : Covers groups) :
    resampleGroups hold l hl nt groups = resampleGroups hold l hl nt (singletons delays) := by
  rw [resampleGroups_spec hold l hl nt delays groups hc hcov,
      resampleGroups_spec hold l hl nt delays _ (singletons_consistent delays) (singletons_covers delays)]

/-- ... in particular for the grouping the code computes with its `delay_to_cols` dict. -/
theorem groupByDelay_eq_columnwise [BEq α] [LawfulBEq α] (hold : Bool) (l : List (Sample α m)) (hl : 0 < l.length)
    (nt : List α) (delays : Vector α m) :
    resampleGroups hold l hl nt (groupByDelay delays) = resampleGroups hold l hl nt (singletons delays) :=
  grouped_eq_columnwise hold l hl nt delays _ (groupByDelay_consistent delays) (groupByDelay_covers delays)

end Grouped

-- non-vacuity: a grouping with a non-contiguous, unsorted group is consistent and covering
example : Consistent (#v[(1 : ℚ), 2, 1]) [((1 : ℚ), [2, 0]), (2, [1])] ∧
    Covers (m := 3) [((1 : ℚ), [(2 : Fin 3), 0]), (2, [1])] := by
  constructor
  · intro g hg c hc
    simp only [List.mem_cons, List.not_mem_nil, or_false] at hg
    rcases hg with rfl | rfl <;> simp only [List.mem_cons, List.not_mem_nil, or_false] at hc
    · rcases hc with rfl | rfl <;> rfl
    · subst hc; rfl
  · intro c
    match c with
    | ⟨0, _⟩ => exact ⟨(1, [2, 0]), List.mem_cons_self, by simp⟩
    | ⟨1, _⟩ => exact ⟨(2, [1]), List.mem_cons_of_mem _ List.mem_cons_self, by simp⟩
    | ⟨2, _⟩ => exact ⟨(1, [2, 0]), List.mem_cons_self, by simp⟩

/-! ### interpolation over a linearly ordered field -/
section Field
variable {K : Type} [Field K] [LinearOrder K] [IsStrictOrderedRing K] {m : Nat}

/-- the series shapes on which `interpolate` is well behaved: two samples, or one sample in the guarded variant -/
def Regular (hold : Bool) (l : List (Sample K m)) : Prop := 2 ≤ l.length ∨ (hold = true ∧ l.length = 1)

theorem Regular.pos {hold : Bool} {l : List (Sample K m)} (h : Regular hold l) : 0 < l.length := by
  rcases h with h | ⟨_, h⟩ <;> omega

theorem pos_of_two {n : Nat} (h : 2 ≤ n) : 0 < n := by omega

/-- a query before the first timestamp returns the first row -/
theorem clamp_below (hold : Bool) (l : List (Sample K m)) (hl : 0 < l.length) (hs : Sorted l) (t : K)
    (ht : t < l[0].t) : interp hold l hl t = l[0].row := by
  unfold interp
  split
  · rfl
  · exact interpRow_below hl hs t ht

/-- a query after the last timestamp returns the last row -/
theorem clamp_above (hold : Bool) (l : List (Sample K m)) (hl : 0 < l.length) (t : K)
    (ht : (l[l.length - 1]'(by omega)).t < t) : interp hold l hl t = (l[l.length - 1]'(by omega)).row := by
  unfold interp
  split
  · rename_i h
    have h1 : l.length = 1 := by simp at h; exact h.2
    simp [h1]
  · exact interpRow_above hl t ht

/-- interpolation at a sample time returns that sample's row -/
theorem interp_at_sample (hold : Bool) (l : List (Sample K m)) (hr : Regular hold l) (hs : Sorted l)
    (i : Nat) (hi : i < l.length) : interp hold l hr.pos l[i].t = l[i].row := by
  rcases hr with h2 | ⟨hh, h1⟩
  · rw [interp_eq_interpRow hold h2]; exact interpRow_at_sample h2 hs i hi
  · subst hh
    have : i = 0 := by omega
    subst this
    exact interp_hold_single h1 _

/-- Resampling at the original (strictly increasing) timestamps returns the original series: from two samples
    on in the code as found, for every series in the guarded variant. -/
theorem resample_at_original_times_id (hold : Bool) (s : TS K m) (hr : Regular hold s.samples)
    (hs : Sorted s.samples) : resample hold s (times s.samples) = .ok s := by
  have hl : 0 < s.samples.length := hr.pos
  have hinc : strictInc (times s.samples) = true := (sorted_iff_strictInc _).1 hs
  have hne : (times s.samples).isEmpty = false := by
    cases hsm : s.samples with
    | nil => rw [hsm] at hl; simp at hl
    | cons p l => simp [times]
  unfold resample checked
  rw [dif_pos hl]
  simp only [hinc, hne, if_true, Bool.not_true, Bool.false_eq_true, if_false]
  congr 1
  cases s with
  | mk samples mapping =>
    simp only [TS.mk.injEq, and_true]
    apply List.ext_getElem
    · simp [times]
    · intro i h1 h2'
      simp only [times, List.getElem_map, List.map_map, Function.comp_def]
      rw [interp_at_sample hold samples hr hs i h2']

/-- Linear interpolation stays within the range of the two neighbouring samples: for an in-range query there
    are neighbours `i, i+1` whose timestamps enclose it and, in every column, the interpolated value lies
    between their two values. -/
theorem lerp_between_neighbours (hold : Bool) (l : List (Sample K m)) (h2 : 2 ≤ l.length) (hs : Sorted l) (t : K)
    (h0 : l[0].t ≤ t) (h1 : t ≤ (l[l.length - 1]'(by omega)).t) :
    ∃ (i : Nat) (hi : i + 1 < l.length), l[i].t ≤ t ∧ t ≤ l[i + 1].t ∧
      ∀ (c : Nat) (hc : c < m),
        min l[i].row[c] l[i + 1].row[c] ≤ (interp hold l (pos_of_two h2) t)[c] ∧
        (interp hold l (pos_of_two h2) t)[c] ≤ max l[i].row[c] l[i + 1].row[c] := by
  have hl : 0 < l.length := by omega
  rw [interp_eq_interpRow hold h2 t]
  obtain ⟨lo, hlo, ehi, elo, hx0, hx1⟩ := bracket' h2 hs t h0 h1
  refine ⟨lo, hlo, hx0, hx1, fun c hc => ?_⟩
  rw [interpRow_inrange' hl t (not_lt.2 h0) (not_lt.2 h1) c hc lo (lo + 1) ehi elo hlo (by omega)]
  exact lerp_between _ _ _ _ _ (hs.lt (by omega) hlo (by omega)) hx0 hx1

/-- For every query time (in range or not) each interpolated value lies between two values of its column. -/
theorem interp_within_global_range (hold : Bool) (l : List (Sample K m)) (h2 : 2 ≤ l.length) (hs : Sorted l) (t : K)
    (c : Nat) (hc : c < m) :
    ∃ (i j : Nat) (hi : i < l.length) (hj : j < l.length),
      l[i].row[c] ≤ (interp hold l (pos_of_two h2) t)[c] ∧ (interp hold l (pos_of_two h2) t)[c] ≤ l[j].row[c] := by
  have hl : 0 < l.length := by omega
  by_cases h0 : t < l[0].t
  · exact ⟨0, 0, hl, hl, by rw [clamp_below hold l hl hs t h0], by rw [clamp_below hold l hl hs t h0]⟩
  by_cases h1 : (l[l.length - 1]'(by omega)).t < t
  · exact ⟨l.length - 1, l.length - 1, by omega, by omega, by rw [clamp_above hold l hl t h1], by rw [clamp_above hold l hl t h1]⟩
  obtain ⟨i, hi, _, _, hcol⟩ := lerp_between_neighbours hold l h2 hs t (not_lt.1 h0) (not_lt.1 h1)
  obtain ⟨hmin, hmax⟩ := hcol c hc
  have hi' : i < l.length := by omega
  refine ⟨if l[i].row[c] ≤ l[i + 1].row[c] then i else i + 1, if l[i].row[c] ≤ l[i + 1].row[c] then i + 1 else i,
    by split <;> omega, by split <;> omega, ?_, ?_⟩
  · split
    · rename_i h; rwa [min_eq_left h] at hmin
    · rename_i h; rwa [min_eq_right (le_of_lt (not_le.1 h))] at hmin
  · split
    · rename_i h; rwa [max_eq_right h] at hmax
    · rename_i h; rwa [max_eq_left (le_of_lt (not_le.1 h))] at hmax

/-- `apply_resample_and_delay` equals its column-wise reference as a whole function: same exceptions, same
    target times, same data (the dict grouping versus one group per column). -/
theorem applyResampleAndDelay_eq_columnwise [BEq K] [LawfulBEq K] (hold : Bool) (s : TS K m) (nt : List K) (dflt : K)
    (sd : List (String × K)) (pred : Bool) :
    applyResampleAndDelay hold s nt dflt sd pred = applyResampleAndDelayColumnwise hold s nt dflt sd pred := by
  unfold applyResampleAndDelay applyResampleAndDelayColumnwise resampleAndDelayWith checked
  split
  · rename_i hl
    split
    · cases hb : buildDelays s.mapping dflt sd pred with
      | error e => rfl
      | ok delays =>
        simp only [strictInc_shift, groupByDelay_eq_columnwise]
        cases hinc : strictInc nt with
        | true => simp
        | false => simp
    · rfl
  · rfl

/-- A zero delay leaves the series unchanged (`apply_delay` with `delay = 0`). -/
theorem applyDelay_zero_id (hold : Bool) (s : TS K m) (hr : Regular hold s.samples) (hs : Sorted s.samples)
    (name : String) (idx : List Nat) (hname : lookup s.mapping name = some idx)
    (cols : List (Fin m)) (hidx : toFin m idx = some cols) :
    applyDelay hold s name 0 = .ok s := by
  have hl : 0 < s.samples.length := hr.pos
  have hinc : strictInc (times s.samples) = true := (sorted_iff_strictInc _).1 hs
  unfold applyDelay checked
  rw [dif_pos hl]
  simp only [hinc, if_true, hname, hidx, sub_zero, List.map_id', Bool.not_true, Bool.false_eq_true, if_false]
  congr 1
  cases s with
  | mk samples mapping =>
    simp only [TS.mk.injEq, and_true]
    apply List.ext_getElem
    · simp [resampleRows, times]
    · intro i h1 h2'
      simp only [List.getElem_zipWith, resampleRows, times, List.getElem_map]
      have hrow : setCols cols (interp hold (selectCols cols samples) (by rw [selectCols_length]; exact hl)
          samples[i].t).toList samples[i].row = samples[i].row := by
        apply setCols_self
        · simp
        · intro j hj1 hj2
          simp only [Vector.getElem_toList]
          rw [interp_selectCols hold cols samples hl _ _ j hj1, interp_at_sample hold samples hr hs i h2']
      rw [hrow]

/-- `apply_time_window` keeps exactly the samples with `min_t ≤ t ≤ max_t` (and the signal mapping). -/
theorem window_times_in_range (s s' : TS K m) (hs : Sorted s.samples) (lo hi : K)
    (h : applyTimeWindow s lo hi = .ok s') :
    s'.mapping = s.mapping ∧ ∀ p, p ∈ s'.samples ↔ (p ∈ s.samples ∧ lo ≤ p.t ∧ p.t ≤ hi) := by
  unfold applyTimeWindow checked windowCore at h
  split at h
  · split at h
    · simp only at h
      split at h
      · cases h
      · cases h
        exact ⟨rfl, fun p => mem_window hs lo hi p⟩
    · cases h
  · cases h

end Field

-- non-vacuity: a named signal with in-range, unsorted column indices
example : lookup [("a", [0]), ("b", [2, 1])] "b" = some [2, 1] ∧ toFin 3 [2, 1] = some [2, 1] := by
  constructor <;> rfl
-- non-vacuity of the hypotheses of the interpolation theorems
example : Sorted [(⟨0, #v[1, 5]⟩ : Sample ℚ 2), ⟨1, #v[3, 2]⟩, ⟨4, #v[0, 0]⟩] := by
  simp [Sorted]
example : Regular false [(⟨0, #v[1, 5]⟩ : Sample ℚ 2), ⟨1, #v[3, 2]⟩, ⟨4, #v[0, 0]⟩] := Or.inl (by simp)
example : Regular true [(⟨7, #v[1, 5]⟩ : Sample ℚ 2)] := Or.inr ⟨rfl, rfl⟩
-- `Regular` cannot be dropped for the code as found: on a one-sample series interp1d's kernel is 0/0 (NaN for
-- doubles, 0 in a field), so interpolation at the only timestamp does not return the data
example : interp false [(⟨1, #v[2]⟩ : Sample ℚ 1)] (by simp) 1 = #v[0] := by
  show interpRow [(⟨1, #v[2]⟩ : Sample ℚ 1)] (by simp) 1 = #v[0]
  apply Vector.ext; intro i hi
  have : i = 0 := by omega
  subst this
  simp [interpRow, hiIdx, loIdx, searchLeft, lerp]

end MjProof.C48
