import MjProof.Lemmas.Island
import Mathlib.Logic.Relation
/-
C17  Constraint islands are the connected components of coupling.

Property theorems only.  The model is `MjProof/Model/Island.lean` (tied to `src/engine/engine_island.c` by the
differential runs of `checks/c17.py`).  Every statement is for an arbitrary number of trees and an arbitrary
history of merges (and root queries) from the all -1 `parent` array.

Vocabulary (defined in `Lemmas/Island.lean`):
  `MergeOk n (a,b)`   arguments of `mj_dsuMerge` in [-1,n), not both static (-1)
  `edgeOf (a,b)`      the pair of trees united (a static endpoint is replaced by the other endpoint)
  `Conn E a b`        equivalence closure of the edge list `E` (= `Relation.EqvGen`, see `conn_iff_eqvGen`)
  `Touched E t`       `t` is an endpoint of an edge: some constraint is incident to tree `t`
  `IsMinOf E a m`     `m` is the smallest tree connected to `a`
-/
namespace MjProof.C17
open MjProof.Island

/-- `Conn` is the standard equivalence closure of the edge relation. -/
theorem conn_iff_eqvGen (E : List (Nat × Nat)) (a b : Nat) :
    Conn E a b ↔ Relation.EqvGen (fun x y => (x, y) ∈ E) a b := by
  constructor
  · intro c
    induction c with
    | refl a => exact .refl a
    | edge h => exact .rel _ _ h
    | symm _ ih => exact .symm _ _ ih
    | trans _ _ ih1 ih2 => exact .trans _ _ _ ih1 ih2
  · intro c
    induction c with
    | rel a b h => exact .edge h
    | refl a => exact .refl a
    | symm _ _ _ ih => exact .symm ih
    | trans _ _ _ _ _ ih1 ih2 => exact .trans ih1 ih2

/-- **Union-find invariant** (`dsu_inv`).  After any valid history of merges and root queries on `n` trees:
    no call left the array or looped (`runOps … = some p`), `parent` is a forest of descending pointers whose
    active entries point to active entries, a tree is active iff a merge touched it, and for every touched tree
    the root loop of `mj_dsuRoot` terminates at a self-loop which is the *minimum* of the tree's class. -/
theorem dsu_inv (n : Nat) (ops : List DsuOp) (hok : OpsOk n ops) :
    ∃ p, runOps (initParent n) ops = some p ∧ p.size = n ∧
      (∀ t (h : t < p.size), p[t] = -1 ∨
          (0 ≤ p[t] ∧ p[t] ≤ (t : Int) ∧ ∃ h' : p[t].toNat < p.size, p[p[t].toNat] ≠ -1)) ∧
      (∀ t (h : t < p.size), p[t] ≠ -1 ↔ Touched (opsEdges ops) t) ∧
      (∀ t, Touched (opsEdges ops) t →
          ∃ r, findRoot p t = some r ∧ IsMinOf (opsEdges ops) t r ∧ p[r]? = some (r : Int)) := by
  obtain ⟨p, e, hs, hI, hact, hconn⟩ := runOps_spec n ops hok
  refine ⟨p, e, hs, ?_, ?_, ?_⟩
  · intro t h
    rcases hI t h with h1 | ⟨h0, h1, h2⟩
    · left; rw [← par_eq h]; exact h1
    · right
      rw [par_eq h] at h0 h1 h2
      have hlt : p[t].toNat < p.size := by omega
      refine ⟨h0, h1, hlt, ?_⟩
      rw [← par_eq hlt]; exact h2
  · intro t h; rw [← par_eq h]; exact hact t
  · intro t ht
    have ha := (hact t).mpr ht
    refine ⟨rootOf p t, findRoot_eq hI ha, rootOf_isMin hI hconn t, ?_⟩
    have hlt : rootOf p t < p.size := rootOf_lt_size (hI.lt_size ha)
    rw [Array.getElem?_eq_getElem hlt, ← par_eq hlt, par_rootOf hI ha]

/-- **Termination and effect of `mj_dsuRoot`** in any reachable state: on a touched tree both loops
    terminate inside the array, the result is the minimum of the class, the queried tree now points at it,
    and nothing else observable changes (same size, same active set, same classes). -/
theorem dsuRoot_total (n : Nat) (ops : List DsuOp) (hok : OpsOk n ops) (t : Nat)
    (ht : Touched (opsEdges ops) t) :
    ∃ p r p', runOps (initParent n) ops = some p ∧ dsuRoot p t = some (r, p') ∧
      IsMinOf (opsEdges ops) t r ∧ p'.size = n ∧ p'[t]? = some (r : Int) ∧
      runOps (initParent n) (ops ++ [.root t]) = some p' := by
  obtain ⟨p, e, hs, hI, hact, hconn⟩ := runOps_spec n ops hok
  have ha := (hact t).mpr ht
  obtain ⟨p', e', hc⟩ := dsuRoot_spec hI ha
  refine ⟨p, rootOf p t, p', e, e', rootOf_isMin hI hconn t, by rw [hc.1]; exact hs, ?_, ?_⟩
  · have hts : t < p'.size := by rw [hc.1]; exact hI.lt_size ha
    rw [Array.getElem?_eq_getElem hts, ← par_eq hts]
    congr 1
    unfold dsuRoot at e'
    rw [findRoot_eq hI ha] at e'
    simp only at e'
    split at e'
    · cases e'
    · next q hq =>
      cases e'
      exact compress_self hq (fun h => rootOf_self h)
  · rw [runOps_snoc, e]; simp [opStep, e']

/-- **Classes = connected components** (`dsu_classes_eq_connected_components`).  After any valid history, two
    touched trees have the same `mj_dsuRoot` result iff they are connected in the graph of merged pairs;
    untouched trees stay at -1. -/
theorem dsu_classes_eq_connected_components (n : Nat) (ops : List DsuOp) (hok : OpsOk n ops) :
    ∃ p, runOps (initParent n) ops = some p ∧
      ∀ a b, Touched (opsEdges ops) a → Touched (opsEdges ops) b →
        (findRoot p a = findRoot p b ↔ Conn (opsEdges ops) a b) := by
  obtain ⟨p, e, hs, hI, hact, hconn⟩ := runOps_spec n ops hok
  refine ⟨p, e, fun a b ha hb => ?_⟩
  rw [findRoot_eq hI ((hact a).mpr ha), findRoot_eq hI ((hact b).mpr hb), ← hconn a b]
  simp

/-- The same for plain merge histories as issued by `unionConstraintTrees` (`runMerges`). -/
theorem merges_classes_eq_connected_components (n : Nat) (ms : List (Int × Int)) (hok : ∀ m ∈ ms, MergeOk n m) :
    ∃ p, runMerges (initParent n) ms = some p ∧ p.size = n ∧
      (∀ t (h : t < p.size), p[t] ≠ -1 ↔ Touched (ms.map edgeOf) t) ∧
      ∀ a b, Touched (ms.map edgeOf) a → Touched (ms.map edgeOf) b →
        (findRoot p a = findRoot p b ↔ Conn (ms.map edgeOf) a b) := by
  obtain ⟨p, e, hs, hI, hact, hconn⟩ := runMerges_spec n ms hok
  refine ⟨p, e, hs, fun t h => by rw [← par_eq h]; exact hact t, fun a b ha hb => ?_⟩
  rw [findRoot_eq hI ((hact a).mpr ha), findRoot_eq hI ((hact b).mpr hb), ← hconn a b]
  simp

/-- `mj_dsuMerge(-1, -1)` is the documented error and nothing else is. -/
theorem merge_static_error (p : Array Int) : dsuMerge p (-1) (-1) = .staticError := dsuMerge_static p

/-- **Island numbering** (`assign_ascending`).  After any valid history, `mj_dsuAssign` succeeds (every read
    of `island[parent[tree]]` hits an entry already written) and
    * `island[t] = -1` exactly for the trees no constraint touches, all other ids lie in `[0, nisland)`;
    * two touched trees get the same id iff they are connected;
    * ids ascend with the smallest tree of the island;
    * every id below `nisland` is used;
    * `parent` is fully compressed (every touched tree points at the minimum of its class);
    * `nidof` is the total `tree_dofnum` of the touched trees. -/
theorem assign_ascending (n : Nat) (ops : List DsuOp) (hok : OpsOk n ops) (dofnum : Array Int)
    (hd : n ≤ dofnum.size) :
    ∃ p out, runOps (initParent n) ops = some p ∧ dsuAssign p dofnum n = some out ∧
      out.island.size = n ∧ out.parent.size = n ∧
      (∀ t (h : t < out.island.size), out.island[t] = -1 ↔ ¬ Touched (opsEdges ops) t) ∧
      (∀ t (h : t < out.island.size), Touched (opsEdges ops) t →
          0 ≤ out.island[t] ∧ out.island[t] < (out.nisland : Int)) ∧
      (∀ a b (ha : a < out.island.size) (hb : b < out.island.size),
          Touched (opsEdges ops) a → Touched (opsEdges ops) b →
          (out.island[a] = out.island[b] ↔ Conn (opsEdges ops) a b)) ∧
      (∀ a b (ha : a < out.island.size) (hb : b < out.island.size) (ma mb : Nat),
          Touched (opsEdges ops) a → Touched (opsEdges ops) b →
          IsMinOf (opsEdges ops) a ma → IsMinOf (opsEdges ops) b mb →
          (out.island[a] < out.island[b] ↔ ma < mb)) ∧
      (∀ c, c < out.nisland → ∃ t, ∃ h : t < out.island.size, out.island[t] = (c : Int)) ∧
      (∀ t (h : t < out.parent.size) (m : Nat), Touched (opsEdges ops) t → IsMinOf (opsEdges ops) t m →
          out.parent[t] = (m : Int)) ∧
      out.nidof = activeDofs p dofnum n := by
  obtain ⟨p, e, hs, hI, hact, hconn⟩ := runOps_spec n ops hok
  obtain ⟨out, eo, ho⟩ := dsuAssign_spec (dofnum := dofnum) hI (by omega)
  rw [hs] at eo ho
  have hisz := ho.isz
  have hpsz : out.parent.size = n := by rw [ho.compr.1]; exact hs
  -- rank of roots
  have hroot : ∀ t, Touched (opsEdges ops) t → par p (rootOf p t) = rootOf p t :=
    fun t ht => par_rootOf hI ((hact t).mpr ht)
  have hrank : ∀ a b, Touched (opsEdges ops) a → Touched (opsEdges ops) b →
      (rootsBelow p (rootOf p a) < rootsBelow p (rootOf p b) ↔ rootOf p a < rootOf p b) := by
    intro a b ha hb
    constructor
    · intro h
      by_cases hlt : rootOf p a < rootOf p b
      · exact hlt
      · have := rootsBelow_mono p (show rootOf p b ≤ rootOf p a by omega); omega
    · intro h; exact rootsBelow_lt p h (hroot a ha)
  have hrank_eq : ∀ a b, Touched (opsEdges ops) a → Touched (opsEdges ops) b →
      (rootsBelow p (rootOf p a) = rootsBelow p (rootOf p b) ↔ rootOf p a = rootOf p b) := by
    intro a b ha hb
    constructor
    · intro h
      rcases Nat.lt_trichotomy (rootOf p a) (rootOf p b) with h1 | h1 | h1
      · have := (hrank a b ha hb).mpr h1; omega
      · exact h1
      · have := (hrank b a hb ha).mpr h1; omega
    · intro h; rw [h]
  refine ⟨p, out, e, eo, hisz, hpsz, ?_, ?_, ?_, ?_, ?_, ?_, ho.ndof⟩
  · intro t h
    by_cases ht : par p t = -1
    · rw [ho.isl_neg t h ht]
      simp only [true_iff]
      intro htt; exact (hact t).mpr htt ht
    · rw [ho.isl_pos t h ht]
      constructor
      · intro h'; omega
      · intro h'; exact absurd ((hact t).mp ht) h'
  · intro t h ht
    rw [ho.isl_pos t h ((hact t).mpr ht)]
    refine ⟨by omega, ?_⟩
    rw [ho.nisl]
    have hlt : rootOf p t < n := by
      have := rootOf_lt_size (hI.lt_size ((hact t).mpr ht)); omega
    have := rootsBelow_lt p hlt (hroot t ht)
    omega
  · intro a b ha hb hta htb
    rw [ho.isl_pos a ha ((hact a).mpr hta), ho.isl_pos b hb ((hact b).mpr htb), ← hconn a b,
      ← hrank_eq a b hta htb]
    omega
  · intro a b ha hb ma mb hta htb hma hmb
    rw [ho.isl_pos a ha ((hact a).mpr hta), ho.isl_pos b hb ((hact b).mpr htb)]
    rw [isMinOf_unique hma (rootOf_isMin hI hconn a), isMinOf_unique hmb (rootOf_isMin hI hconn b),
      ← hrank a b hta htb]
    omega
  · intro c hc
    rw [ho.nisl] at hc
    obtain ⟨r, hr, hself, hrc⟩ := rootsBelow_surj p n c hc
    have hra : par p r ≠ -1 := by omega
    refine ⟨r, by omega, ?_⟩
    rw [ho.isl_pos r (by omega) hra, rootOf_self hself, hrc]
  · intro t h m ht hm
    rw [← par_eq h, ho.done t (by omega) ((hact t).mpr ht),
      isMinOf_unique hm (rootOf_isMin hI hconn t)]

end MjProof.C17
