import MjProof.Lemmas.IslandPipe
import MjProof.Lemmas.IslandFlood
import Mathlib.Logic.Relation
/-
C17  Constraint islands are the connected components of coupling.

Property theorems only.  The model is `MjProof/Model/Island.lean` (tied to `src/engine/engine_island.c` by the
differential runs of `checks/c17.py`).  Every statement is for an arbitrary number of trees and an arbitrary
history of merges (and root queries) from the all -1 `parent` array.

Vocabulary (defined in `Lemmas/Island.lean`):
  `MergeOk n (a,b)`   arguments of `mj_dsuMerge` in [-1,n), not both static (-1)
  `edgeOf (a,b)`      the pair of trees united (a static endpoint is replaced by the other endpoint)
  `Conn E a b`        equivalence closure of the edge list `E` (= `Relation.EqvGen`, see `conn_iff_eqvGen`)
  `Touched E t`       `t` is an endpoint of an edge: some constraint is incident to tree `t`
  `IsMinOf E a m`     `m` is the smallest tree connected to `a`
  `schedule rows flexes`  the merges `unionConstraintTrees` issues for constraint rows / stiffness-active flexes
  `RowOk n ts`        tree lists `treeNext` can yield for one constraint; `RowsShape` rows start with a constraint
  `owners [] rows`    for every scalar row of efc, the tree list of its constraint
  `MapsSpec keys nb m`  counting-sort maps: mutually inverse permutations, contiguous ascending blocks
-/
namespace MjProof.C17
open MjProof.Island

/-- `Conn` is the standard equivalence closure of the edge relation. -/
theorem conn_iff_eqvGen (E : List (Nat × Nat)) (a b : Nat) :
    Conn E a b ↔ Relation.EqvGen (fun x y => (x, y) ∈ E) a b := by
  constructor
  · intro c
    induction c with
    | refl a => exact .refl a
    | edge h => exact .rel _ _ h
    | symm _ ih => exact .symm _ _ ih
    | trans _ _ ih1 ih2 => exact .trans _ _ _ ih1 ih2
  · intro c
    induction c with
    | rel a b h => exact .edge h
    | refl a => exact .refl a
    | symm _ _ _ ih => exact .symm ih
    | trans _ _ _ _ _ ih1 ih2 => exact .trans ih1 ih2

/-- **Union-find invariant** (`dsu_inv`).  After any valid history of merges and root queries on `n` trees:
    no call left the array or looped (`runOps … = some p`), `parent` is a forest of descending pointers whose
    active entries point to active entries, a tree is active iff a merge touched it, and for every touched tree
    the root loop of `mj_dsuRoot` terminates at a self-loop which is the *minimum* of the tree's class. -/
theorem dsu_inv (n : Nat) (ops : List DsuOp) (hok : OpsOk n ops) :
    ∃ p, runOps (initParent n) ops = some p ∧ p.size = n ∧
      (∀ t (h : t < p.size), p[t] = -1 ∨
          (0 ≤ p[t] ∧ p[t] ≤ (t : Int) ∧ ∃ h' : p[t].toNat < p.size, p[p[t].toNat] ≠ -1)) ∧
      (∀ t (h : t < p.size), p[t] ≠ -1 ↔ Touched (opsEdges ops) t) ∧
      (∀ t, Touched (opsEdges ops) t →
          ∃ r, findRoot p t = some r ∧ IsMinOf (opsEdges ops) t r ∧ p[r]? = some (r : Int)) := by
  obtain ⟨p, e, hs, hI, hact, hconn⟩ := runOps_spec n ops hok
  refine ⟨p, e, hs, ?_, ?_, ?_⟩
  · intro t h
    rcases hI t h with h1 | ⟨h0, h1, h2⟩
    · left; rw [← par_eq h]; exact h1
    · right
      rw [par_eq h] at h0 h1 h2
      have hlt : p[t].toNat < p.size := by omega
      refine ⟨h0, h1, hlt, ?_⟩
      rw [← par_eq hlt]; exact h2
  · intro t h; rw [← par_eq h]; exact hact t
  · intro t ht
    have ha := (hact t).mpr ht
    refine ⟨rootOf p t, findRoot_eq hI ha, rootOf_isMin hI hconn t, ?_⟩
    have hlt : rootOf p t < p.size := rootOf_lt_size (hI.lt_size ha)
    rw [Array.getElem?_eq_getElem hlt, ← par_eq hlt, par_rootOf hI ha]

/-- **Termination and effect of `mj_dsuRoot`** in any reachable state: on a touched tree both loops
    terminate inside the array, the result is the minimum of the class, the queried tree now points at it,
    and nothing else observable changes (same size, same active set, same classes). -/
theorem dsuRoot_total (n : Nat) (ops : List DsuOp) (hok : OpsOk n ops) (t : Nat)
    (ht : Touched (opsEdges ops) t) :
    ∃ p r p', runOps (initParent n) ops = some p ∧ dsuRoot p t = some (r, p') ∧
      IsMinOf (opsEdges ops) t r ∧ p'.size = n ∧ p'[t]? = some (r : Int) ∧
      runOps (initParent n) (ops ++ [.root t]) = some p' := by
  obtain ⟨p, e, hs, hI, hact, hconn⟩ := runOps_spec n ops hok
  have ha := (hact t).mpr ht
  obtain ⟨p', e', hc⟩ := dsuRoot_spec hI ha
  refine ⟨p, rootOf p t, p', e, e', rootOf_isMin hI hconn t, by rw [hc.1]; exact hs, ?_, ?_⟩
  · have hts : t < p'.size := by rw [hc.1]; exact hI.lt_size ha
    rw [Array.getElem?_eq_getElem hts, ← par_eq hts]
    congr 1
    unfold dsuRoot at e'
    rw [findRoot_eq hI ha] at e'
    simp only at e'
    split at e'
    · cases e'
    · next q hq =>
      cases e'
      exact compress_self hq (fun h => rootOf_self h)
  · rw [runOps_snoc, e]; simp [opStep, e']

/-- **Classes = connected components** (`dsu_classes_eq_connected_components`).  After any valid history, two
    touched trees have the same `mj_dsuRoot` result iff they are connected in the graph of merged pairs;
    untouched trees stay at -1. -/
theorem dsu_classes_eq_connected_components (n : Nat) (ops : List DsuOp) (hok : OpsOk n ops) :
    ∃ p, runOps (initParent n) ops = some p ∧
      ∀ a b, Touched (opsEdges ops) a → Touched (opsEdges ops) b →
        (findRoot p a = findRoot p b ↔ Conn (opsEdges ops) a b) := by
  obtain ⟨p, e, hs, hI, hact, hconn⟩ := runOps_spec n ops hok
  refine ⟨p, e, fun a b ha hb => ?_⟩
  rw [findRoot_eq hI ((hact a).mpr ha), findRoot_eq hI ((hact b).mpr hb), ← hconn a b]
  simp

/-- The same for plain merge histories as issued by `unionConstraintTrees` (`runMerges`). -/
theorem merges_classes_eq_connected_components (n : Nat) (ms : List (Int × Int)) (hok : ∀ m ∈ ms, MergeOk n m) :
    ∃ p, runMerges (initParent n) ms = some p ∧ p.size = n ∧
      (∀ t (h : t < p.size), p[t] ≠ -1 ↔ Touched (ms.map edgeOf) t) ∧
      ∀ a b, Touched (ms.map edgeOf) a → Touched (ms.map edgeOf) b →
        (findRoot p a = findRoot p b ↔ Conn (ms.map edgeOf) a b) := by
  obtain ⟨p, e, hs, hI, hact, hconn⟩ := runMerges_spec n ms hok
  refine ⟨p, e, hs, fun t h => by rw [← par_eq h]; exact hact t, fun a b ha hb => ?_⟩
  rw [findRoot_eq hI ((hact a).mpr ha), findRoot_eq hI ((hact b).mpr hb), ← hconn a b]
  simp

/-- `mj_dsuMerge(-1, -1)` is the documented error and nothing else is. -/
theorem merge_static_error (p : Array Int) : dsuMerge p (-1) (-1) = .staticError := dsuMerge_static p

/-- **Island numbering** (`assign_ascending`).  After any valid history, `mj_dsuAssign` succeeds (every read
    of `island[parent[tree]]` hits an entry already written) and
    * `island[t] = -1` exactly for the trees no constraint touches, all other ids lie in `[0, nisland)`;
    * two touched trees get the same id iff they are connected;
    * ids ascend with the smallest tree of the island;
    * every id below `nisland` is used;
    * `parent` is fully compressed (every touched tree points at the minimum of its class);
    * `nidof` is the total `tree_dofnum` of the touched trees. -/
theorem assign_ascending (n : Nat) (ops : List DsuOp) (hok : OpsOk n ops) (dofnum : Array Int)
    (hd : n ≤ dofnum.size) :
    ∃ p out, runOps (initParent n) ops = some p ∧ dsuAssign p dofnum n = some out ∧
      out.island.size = n ∧ out.parent.size = n ∧
      (∀ t (h : t < out.island.size), out.island[t] = -1 ↔ ¬ Touched (opsEdges ops) t) ∧
      (∀ t (h : t < out.island.size), Touched (opsEdges ops) t →
          0 ≤ out.island[t] ∧ out.island[t] < (out.nisland : Int)) ∧
      (∀ a b (ha : a < out.island.size) (hb : b < out.island.size),
          Touched (opsEdges ops) a → Touched (opsEdges ops) b →
          (out.island[a] = out.island[b] ↔ Conn (opsEdges ops) a b)) ∧
      (∀ a b (ha : a < out.island.size) (hb : b < out.island.size) (ma mb : Nat),
          Touched (opsEdges ops) a → Touched (opsEdges ops) b →
          IsMinOf (opsEdges ops) a ma → IsMinOf (opsEdges ops) b mb →
          (out.island[a] < out.island[b] ↔ ma < mb)) ∧
      (∀ c, c < out.nisland → ∃ t, ∃ h : t < out.island.size, out.island[t] = (c : Int)) ∧
      (∀ t (h : t < out.parent.size) (m : Nat), Touched (opsEdges ops) t → IsMinOf (opsEdges ops) t m →
          out.parent[t] = (m : Int)) ∧
      out.nidof = activeDofs p dofnum n := by
  obtain ⟨p, e, hs, hI, hact, hconn⟩ := runOps_spec n ops hok
  obtain ⟨out, eo, ho⟩ := dsuAssign_spec (dofnum := dofnum) hI (by omega)
  rw [hs] at eo ho
  have f := assign_facts hs hI hact hconn ho
  exact ⟨p, out, e, eo, f.isz, f.psz, f.neg, f.rng, f.eq_iff, f.lt_iff, f.surj, f.compressed, ho.ndof⟩


/-- **The island numbering depends only on the partition** (merge-order independence).  Two `mj_dsuAssign`
    results whose merge graphs touch the same trees and have the same connectivity — e.g. the same constraints
    merged in a different order, or a constraint's incidence given by two different tree lists with the same
    closure — are identical: same `island` array, same `nisland`. -/
theorem island_numbering_unique {E E' : List (Nat × Nat)} {n : Nat} {out out' : Assign}
    (s : AssignSpec E n out) (s' : AssignSpec E' n out')
    (hT : ∀ u, Touched E u ↔ Touched E' u) (hC : ∀ u v, Conn E u v ↔ Conn E' u v) :
    out.island = out'.island ∧ out.nisland = out'.nisland :=
  assignSpec_unique s s' hT hC

/-- every class has a smallest tree (so the statements about `IsMinOf` are never vacuous) -/
theorem exists_smallest_tree (E : List (Nat × Nat)) (a : Nat) : ∃ m, IsMinOf E a m := exists_isMinOf E a

/-! ## the whole of `mj_island` -/

/-- **Islands are the connected components of coupling; index maps** (`maps_inverse`).  For any number of
    trees, dofs and constraint rows: given the trees incident to each constraint (`rows`; as produced by
    `treeNext`: one dynamic tree, two trees at most one of which is static, or the dynamic trees of a Jacobian
    scan) and the tree lists of the stiffness-active flexes, the model of `mj_island` runs to completion — no read
    or write outside an array, no SHOULD-NOT-OCCUR miscount — and its output satisfies `IslandSpec`:
    * `tree_island` numbers the connected components of the graph of merged tree pairs in ascending order of
      their smallest tree, -1 exactly for trees without constraint (`AssignSpec`);
    * `dof_island[d] = tree_island[dof_treeid[d]]`, `nidof` = number of constrained dofs;
    * `efc_island[i]` is the island of *every* dynamic tree of the constraint that row `i` belongs to;
    * `map_dof2idof`/`map_idof2dof`, `map_efc2iefc`/`map_iefc2efc` and (`map_itree2tree` with its ghost inverse)
      are mutually inverse permutations; island `k` occupies the contiguous block
      `[island_*adr[k], island_*adr[k] + island_n*[k])`, blocks are sized by the island's member count, addressed
      by the exclusive prefix sums, keep the original order, and unconstrained objects follow (`MapsSpec`);
    * `island_dofadr[k] = map_idof2dof[island_idofadr[k]]` is read inside the array. -/
theorem maps_inverse (ntree : Nat) (dofnum : Array Int) (dofTree : List Nat)
    (rows : List (Option (List Int))) (flexes : List (List (Int × Bool)))
    (hshape : RowsShape false rows) (hrows : ∀ ts, some ts ∈ rows → RowOk ntree ts) (hne : rows ≠ [])
    (hflex : ∀ f ∈ flexes, ∀ x ∈ f, x.1 < (ntree : Int))
    (hdn : dofnum.size = ntree) (hdt : ∀ d ∈ dofTree, d < ntree)
    (hcount : ∀ t (h : t < dofnum.size), dofnum[t] = (dofTree.count t : Int))
    (hevery : ∀ t, t < ntree → t ∈ dofTree) :
    ∃ out, island ntree dofnum dofTree rows flexes = some out ∧ IslandSpec ntree dofTree rows flexes out :=
  island_spec ntree dofnum dofTree rows flexes hshape hrows hne hflex hdn hdt hcount hevery

/-- Unconstrained dofs belong to no island, constrained dofs to the island of their tree: a dof has island -1
    iff no constraint (and no flex coupling) touches its tree. -/
theorem dof_unconstrained_iff {ntree : Nat} {dofTree : List Nat} {rows : List (Option (List Int))}
    {flexes : List (List (Int × Bool))} {out : IslandOut} (s : IslandSpec ntree dofTree rows flexes out)
    (hdt : ∀ d ∈ dofTree, d < ntree) (d : Nat) (h : d < out.dof_island.size) (h' : d < dofTree.length) :
    out.dof_island[d] = -1 ↔ ¬ Touched ((schedule rows flexes).map edgeOf) dofTree[d] := by
  have hlt : dofTree[d] < out.tree_island.size := by
    have := s.assign.isz; simp only at this; rw [this]; exact hdt _ (List.getElem_mem h')
  rw [s.dof_eq d h h' hlt]
  exact s.assign.neg _ hlt

/-- Two constraint rows lie in the same island iff (some, equivalently all) of their trees are connected. -/
theorem efc_same_island_iff {ntree : Nat} {dofTree : List Nat} {rows : List (Option (List Int))}
    {flexes : List (List (Int × Bool))} {out : IslandOut} (s : IslandSpec ntree dofTree rows flexes out)
    (i j : Nat) (hi : i < out.efc_island.size) (hj : j < out.efc_island.size) (ts ts' : List Int)
    (hts : (owners [] rows)[i]? = some ts) (hts' : (owners [] rows)[j]? = some ts')
    (t t' : Int) (ht : t ∈ ts) (ht' : t' ∈ ts') (h0 : 0 ≤ t) (h0' : 0 ≤ t')
    (htt : Touched ((schedule rows flexes).map edgeOf) t.toNat)
    (htt' : Touched ((schedule rows flexes).map edgeOf) t'.toNat) :
    out.efc_island[i] = out.efc_island[j] ↔ Conn ((schedule rows flexes).map edgeOf) t.toNat t'.toNat := by
  obtain ⟨h1, e1, _⟩ := s.efc_eq i hi ts hts t ht h0
  obtain ⟨h2, e2, _⟩ := s.efc_eq j hj ts' hts' t' ht' h0'
  rw [e1, e2]
  exact s.assign.eq_iff _ _ h1 h2 htt htt'

/-! ## `mj_floodFill` (exported, not used by `mj_island`) -/

/-- `mj_floodFill` on a well-formed CSR matrix terminates without leaving `island[nr]`. -/
theorem floodFill_total {nr : Nat} {rownnz rowadr colind : Array Nat} (ok : CsrOk nr rownnz rowadr colind) :
    ∃ isl n, floodFill nr rownnz rowadr colind = some (isl, n) ∧ isl.size = nr :=
  MjProof.Island.floodFill_total ok

/-- **Flood fill labels connected components** (`floodFill_components`): for a symmetric adjacency matrix,
    -1 exactly for vertices without edges, two labelled vertices share a label iff one is reachable from the
    other, every id below the returned count is used, and ids ascend with the smallest vertex. -/
theorem floodFill_components {nr : Nat} {rownnz rowadr colind : Array Nat} (ok : CsrOk nr rownnz rowadr colind)
    (symm : ∀ u v, Adj rownnz rowadr colind u v → Adj rownnz rowadr colind v u)
    {isl : Array Int} {n : Nat} (h : floodFill nr rownnz rowadr colind = some (isl, n)) :
    isl.size = nr ∧
    (∀ v (hv : v < isl.size), (isl[v] = -1 ↔ rownnz[v]? = some 0) ∧ (-1 ≤ isl[v] ∧ isl[v] < (n : Int))) ∧
    (∀ u v (hu : u < isl.size) (hv : v < isl.size), isl[u] ≠ -1 → isl[v] ≠ -1 →
        (isl[u] = isl[v] ↔ Relation.ReflTransGen (Adj rownnz rowadr colind) u v)) ∧
    (∀ c : Nat, c < n → ∃ v, ∃ hv : v < isl.size, isl[v] = (c : Int)) ∧
    (∀ u v (hu : u < isl.size) (hv : v < isl.size), isl[u] ≠ -1 → isl[v] ≠ -1 → isl[u] < isl[v] →
        ∃ u', Relation.ReflTransGen (Adj rownnz rowadr colind) u u' ∧
              ∀ v', Relation.ReflTransGen (Adj rownnz rowadr colind) v v' → u' < v') :=
  MjProof.Island.floodFill_components ok symm h

/-- The explicit DFS stack never holds more than `nnz` (= sum of `rownnz`) entries — the size the caller must
    provide — in any call of the inner loop reachable from a `mj_floodFill` run. -/
theorem floodFill_stack_bound {nr : Nat} {rownnz rowadr colind : Array Nat} (ok : CsrOk nr rownnz rowadr colind)
    {i : Nat} (hi : i < nr) {isl : Array Int} {n : Nat}
    (hpre : (List.range i).foldlM (ffOuterStep rownnz rowadr colind) (Array.replicate nr (-1), 0) = some (isl, n))
    (hunl : isl[i]? = some (-1)) (hnz : rownnz[i]? ≠ some 0) {isl' : Array Int} {stack' : List Nat}
    (hc : InnerCalls rownnz rowadr colind n isl [i] isl' stack') :
    stack'.length ≤ rownnz.toList.sum :=
  MjProof.Island.floodFill_stack_bound ok hi hpre hunl hnz hc

/-! ## non-vacuity -/

/-- a valid history on 4 trees: contact of tree 2 with the world, contact 3–1, a root query, contact 1–2 -/
def exOps : List DsuOp := [.merge 2 (-1), .merge 3 1, .root 3, .merge 1 2]

theorem exOps_ok : OpsOk 4 exOps := by
  have h0 : OpsOk 4 [] := .nil
  have h1 : OpsOk 4 ([] ++ [DsuOp.merge 2 (-1)]) := .merge h0 (by decide)
  have h2 : OpsOk 4 (([] ++ [DsuOp.merge 2 (-1)]) ++ [DsuOp.merge 3 1]) := .merge h1 (by decide)
  have h3 := OpsOk.root (t := 3) h2 ⟨(3, 1), by decide, Or.inl rfl⟩
  exact OpsOk.merge (a := 1) (b := 2) h3 (by decide)

example := dsu_inv 4 exOps exOps_ok
example := dsu_classes_eq_connected_components 4 exOps exOps_ok
example := assign_ascending 4 exOps exOps_ok #[6, 1, 6, 2] (by decide)
example := dsuRoot_total 4 ([DsuOp.merge 2 (-1), DsuOp.merge 3 1]) (.merge (.merge .nil (by decide)) (by decide)) 3
  ⟨(3, 1), by decide, Or.inl rfl⟩
example := merges_classes_eq_connected_components 4 [(2, -1), (3, 1), (1, 2)] (by decide)

/-- a scene: 4 trees (6,1,6,2 dofs); a contact of tree 2 with the world (3 rows), a contact 3–1 (2 rows) -/
example : ∃ out, island 4 #[6, 1, 6, 2] [0,0,0,0,0,0,1,2,2,2,2,2,2,3,3]
      [some [-1, 2], none, none, some [3, 1], none] [] = some out ∧
    IslandSpec 4 [0,0,0,0,0,0,1,2,2,2,2,2,2,3,3] [some [-1, 2], none, none, some [3, 1], none] [] out := by
  apply maps_inverse
  · exact .row (by decide) (by decide) (.same (.same (.row (by decide) (by decide) (.same .nil))))
  · intro ts hts
    simp only [List.mem_cons, Option.some.injEq, reduceCtorEq, List.not_mem_nil, or_false, false_or] at hts
    rcases hts with rfl | rfl
    · exact ⟨by decide, Or.inr (Or.inl ⟨-1, 2, rfl, by decide⟩)⟩
    · exact ⟨by decide, Or.inr (Or.inl ⟨3, 1, rfl, by decide⟩)⟩
  · decide
  · intro f hf; simp at hf
  · rfl
  · decide
  · decide
  · decide

example := floodFill_components exOk exSymm exRun

end MjProof.C17
