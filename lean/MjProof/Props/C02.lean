import MjProof.Lemmas.Dispatch
import MjProof.Props.C03
import MjProof.Props.C17
import MjProof.Props.C19
/-
C02 — Multithreaded stepping is bit-identical to single-threaded.

General theorems (full over the model of Model/Dispatch.lean):
* `dispatch_schedule_independent`: for task bodies that respect pairwise non-conflicting footprints, any two complete
  executions of the batch — any two assignments of tasks to pool threads, any two interleavings of the threads at the
  granularity of single task steps, any execution contexts (thread ids, scratch addresses) — leave the same value in
  every location outside the scratch regions.
* `pool_eq_sequential`: in particular the pooled result equals that of the pool-less loop `for i: func(…, 0, i)`.
* `sequential_exists`: and the pool-less loop terminates whenever some pooled execution does.
* `wellFormed_of_execBy` / `pool_assignment_wellformed`: the well-formedness assumed of an assignment is what C03's
  `exactly_once` establishes for `mju_dispatch`.

Instances (the index sets the three dispatch sites hand to their tasks are pairwise disjoint and cover the work):
* narrow phase: `chunks_disjoint`, `chunks_cover`, `chunks_within`, `chunks_concat`, `chunked_fold_eq` (the chunking —
  which depends on the pool size — does not change what the sequential traversal computes), `con_slots_disjoint`,
  `epa_scratch_disjoint`;
* tactile sensor: `tactile_slices_*`, `tactile_tasks_le_nthread`, `forces_index_inj`;
* island solves: `island_blocks_disjoint`, `island_members_disjoint`, `mj_island_blocks_disjoint` (from C17);
* shared stack under `d->threadlock`: `stack_shards_disjoint` (from C19).

`*_partial`: `narrowphase_…`, `island_…`, `tactile_schedule_independent_partial` apply the general theorem to the
three sites.  What is missing: that the real task bodies (`collisionTask`, `solveIslandTask`, `tactileTask` and
everything they call) respect the stated footprints is a hypothesis (`Respects`), hand-stated from reading the code and
validated only by the oracle of checks/c02.py; the C++ memory model (data races are undefined behaviour, so
"interleaving of atomic steps" is itself an assumption that holds only for race-free bodies) is outside the model; the
clause "the race detector finds nothing" is not claimed.
-/
namespace MjProof.C02

open MjProof.Dispatch

variable {L V K S : Type}

/-! ## Schedule independence -/

section General

variable {tasks : Nat → Task L V K S} {R W : Nat → L → Prop} {Scr : K → L → Prop}

/-- **Schedule independence.**  Two complete executions of the same batch from the same memory agree on every
    location that is not scratch — whatever the assignments of tasks to threads, the execution contexts and the
    interleavings. -/
theorem dispatch_schedule_independent (hR : Respects tasks R W Scr) (hN : NonConflict R W Scr) {n : Nat}
    {m0 : Mem L V} {asg asg' : Nat → List (Nat × K)} (hW : WellFormed n Scr asg) (hW' : WellFormed n Scr asg')
    (sched sched' : List Nat) (hT : Terminal (exec tasks (start m0 asg) sched))
    (hT' : Terminal (exec tasks (start m0 asg') sched')) :
    ∀ l, (∀ k, ¬ Scr k l) →
      (exec tasks (start m0 asg) sched).mem l = (exec tasks (start m0 asg') sched').mem l := by
  intro l hl
  obtain ⟨h1, h2⟩ := terminal_finished hR hN hW sched hT
  obtain ⟨h1', h2'⟩ := terminal_finished hR hN hW' sched' hT'
  by_cases hw : ∃ i, i < n ∧ W i l
  · obtain ⟨i, hi, hwi⟩ := hw
    obtain ⟨k, ms, mf, a1, a2, a3⟩ := h2 i hi
    obtain ⟨k', ms', mf', b1, b2, b3⟩ := h2' i hi
    rw [a3 l hwi, b3 l hwi]
    exact hR.det i k k' ms ms' mf mf' (a1.trans b1.symm) a2 b2 l hwi
  · have hw' : ∀ i, i < n → ¬ W i l := fun i hi h => hw ⟨i, hi, h⟩
    rw [h1 l hw' hl, h1' l hw' hl]

/-- along the pool-less loop, a location that the tasks `a … b-1` do not write (and that is not scratch of the
    context) keeps its value -/
theorem chain_frame (hR : Respects tasks R W Scr) {n : Nat} {k0 : K} {ms : Nat → Mem L V}
    (hc : ∀ i, i < n → TaskRun (tasks i) k0 (ms i) (ms (i + 1))) (a : Nat) :
    ∀ b, a ≤ b → b ≤ n → ∀ l, (∀ j, a ≤ j → j < b → ¬ W j l) → ¬ Scr k0 l → ms b l = ms a l := by
  intro b
  induction b with
  | zero => intro h _ l _ _; have : a = 0 := by omega
            subst this; rfl
  | succ b ih =>
    intro hab hbn l hl hs
    by_cases hb : a = b + 1
    · subst hb; rfl
    · have hab' : a ≤ b := by omega
      rw [taskRun_frame hR (hc b (by omega)) l (hl b hab' (by omega)) hs]
      exact ih hab' (by omega) l (fun j h1 h2 => hl j h1 (by omega)) hs

/-- **The pooled result is the pool-less result.** -/
theorem pool_eq_sequential (hR : Respects tasks R W Scr) (hN : NonConflict R W Scr) {n : Nat}
    {m0 : Mem L V} {asg : Nat → List (Nat × K)} (hW : WellFormed n Scr asg) (sched : List Nat)
    (hT : Terminal (exec tasks (start m0 asg) sched)) (k0 : K) (mf : Mem L V)
    (hseq : SeqResult tasks n k0 m0 mf) :
    ∀ l, (∀ k, ¬ Scr k l) → (exec tasks (start m0 asg) sched).mem l = mf l := by
  intro l hl
  obtain ⟨h1, h2⟩ := terminal_finished hR hN hW sched hT
  obtain ⟨ms, hms0, hc, hmsn⟩ := hseq
  subst hmsn
  by_cases hw : ∃ i, i < n ∧ W i l
  · obtain ⟨i, hi, hwi⟩ := hw
    obtain ⟨k, ms', mf', a1, a2, a3⟩ := h2 i hi
    rw [a3 l hwi]
    -- the sequential loop: nothing before task i touches its read set, nothing after it touches its write set
    have hpre : AgreeOn (R i) (ms i) m0 := by
      intro x hx
      rw [chain_frame hR hc 0 i (by omega) (by omega) x
        (fun j _ hj hwj => hN.rw j i (by omega) x hwj hx) (fun hs => hN.sr k0 i x hs hx), hms0]
    have hpost : ms n l = ms (i + 1) l :=
      chain_frame hR hc (i + 1) n (by omega) (by omega) l
        (fun j hj _ hwj => hN.ww j i (by omega) l hwj hwi) (hl k0)
    rw [hpost]
    exact hR.det i k k0 ms' (ms i) mf' (ms (i + 1)) (a1.trans hpre.symm) a2 (hc i hi) l hwi
  · have hw' : ∀ i, i < n → ¬ W i l := fun i hi h => hw ⟨i, hi, h⟩
    rw [h1 l hw' hl, chain_frame hR hc 0 n (by omega) (by omega) l (fun j _ hj => hw' j hj) (hl k0), hms0]

theorem seqResult_succ {n : Nat} {k0 : K} {m0 mf mf' : Mem L V} (h : SeqResult tasks n k0 m0 mf)
    (hr : TaskRun (tasks n) k0 mf mf') : SeqResult tasks (n + 1) k0 m0 mf' := by
  obtain ⟨ms, h0, hc, hn⟩ := h
  refine ⟨fun x => if x ≤ n then ms x else mf', ?_, ?_, ?_⟩
  · simp [h0]
  · intro i hi
    by_cases hin : i = n
    · subst hin
      simp only [Nat.le_refl, if_true, show ¬ (i + 1 ≤ i) by omega, if_false, hn]
      exact hr
    · have h1 : i ≤ n := by omega
      have h2 : i + 1 ≤ n := by omega
      simp only [h1, h2, if_true]
      exact hc i (by omega)
  · simp

/-- **The pool-less loop terminates whenever a pooled execution does**, provided termination of a task body does
    not depend on the context or on memory outside its read set (`hterm`). -/
theorem sequential_exists (hR : Respects tasks R W Scr) (hN : NonConflict R W Scr) {n : Nat}
    {m0 : Mem L V} {asg : Nat → List (Nat × K)} (hW : WellFormed n Scr asg) (sched : List Nat)
    (hT : Terminal (exec tasks (start m0 asg) sched)) (k0 : K)
    (hterm : ∀ i k k' m m' mf, AgreeOn (R i) m m' → TaskRun (tasks i) k m mf → ∃ mf', TaskRun (tasks i) k' m' mf') :
    ∃ mf, SeqResult tasks n k0 m0 mf := by
  obtain ⟨_, h2⟩ := terminal_finished hR hN hW sched hT
  suffices h : ∀ n', n' ≤ n → ∃ mf, SeqResult tasks n' k0 m0 mf from h n (Nat.le_refl n)
  intro n'
  induction n' with
  | zero => intro _; exact ⟨m0, fun _ => m0, rfl, fun i hi => by omega, rfl⟩
  | succ n' ih =>
    intro hn
    obtain ⟨mf, hs⟩ := ih (by omega)
    obtain ⟨k, ms', mf', a1, a2, _⟩ := h2 n' (by omega)
    have hpre : AgreeOn (R n') mf m0 := by
      obtain ⟨ms, h0, hc, hmn⟩ := hs
      intro x hx
      rw [← hmn, chain_frame hR hc 0 n' (by omega) (by omega) x
        (fun j _ hj hwj => hN.rw j n' (by omega) x hwj hx) (fun hsx => hN.sr k0 n' x hsx hx), h0]
    obtain ⟨mf'', hr⟩ := hterm n' k k0 ms' mf mf' (a1.trans hpre.symm) a2
    exact ⟨mf'', seqResult_succ hs hr⟩

end General

/-! ## The assignment produced by the pool (C03) -/

/-- the assignment in which thread `t` runs the tasks `i < n` with `by i = t` (in ascending order; the order is
    irrelevant by `dispatch_schedule_independent`), task `i` in context `ctx i` -/
def asgOfBy {K : Type} (n : Nat) (execBy : Nat → Nat) (ctx : Nat → K) (t : Nat) : List (Nat × K) :=
  ((List.range n).filter (fun i => execBy i = t)).map (fun i => (i, ctx i))

/-- "every id `< n` is executed exactly once, by some pool thread" (the conclusion of C03's `exactly_once`) makes the
    induced assignment well-formed, provided concurrently running tasks have disjoint scratch. -/
theorem wellFormed_of_execBy {L K : Type} (n : Nat) (execBy : Nat → Nat) (ctx : Nat → K) (Scr : K → L → Prop)
    (hscr : ∀ i j, i < n → j < n → execBy i ≠ execBy j → ∀ l, Scr (ctx i) l → ¬ Scr (ctx j) l) :
    WellFormed n Scr (asgOfBy n execBy ctx) := by
  have hmem : ∀ t (x : Nat × K), x ∈ asgOfBy n execBy ctx t ↔ x.1 < n ∧ execBy x.1 = t ∧ x.2 = ctx x.1 := by
    intro t x
    simp only [asgOfBy, List.mem_map, List.mem_filter, List.mem_range, decide_eq_true_eq]
    constructor
    · rintro ⟨i, ⟨h1, h2⟩, rfl⟩; exact ⟨h1, h2, rfl⟩
    · rintro ⟨h1, h2, h3⟩; exact ⟨x.1, ⟨h1, h2⟩, by rw [← h3]⟩
  refine ⟨?_, ?_, ?_, ?_, ?_⟩
  · intro t x hx; exact ((hmem t x).mp hx).1
  · intro t
    simp only [asgOfBy, List.map_map]
    have : (Prod.fst ∘ fun i => (i, ctx i)) = (id : Nat → Nat) := rfl
    rw [this, List.map_id]
    exact (List.nodup_range).filter _
  · intro t t' htt x hx y hy he
    have h1 := (hmem t x).mp hx
    have h2 := (hmem t' y).mp hy
    exact htt (by rw [← h1.2.1, ← h2.2.1, he])
  · intro i hi
    exact ⟨execBy i, ctx i, (hmem _ _).mpr ⟨hi, rfl, rfl⟩⟩
  · intro t t' htt x hx y hy l
    have h1 := (hmem t x).mp hx
    have h2 := (hmem t' y).mp hy
    rw [h1.2.2, h2.2.2]
    exact hscr x.1 y.1 h1.1 h2.1 (by rw [h1.2.1, h2.2.1]; exact htt) l

/-- **C03 ⇒ well-formed assignment.**  When `mju_dispatch(…, n)` returns in the thread-pool model of C03, the map
    "task ↦ thread that executed it" of the state it returns to induces a well-formed assignment (every id exactly
    once, by a thread id below `mju_numThread`). -/
theorem pool_assignment_wellformed {L K : Type} {s s' : ThreadPool.State} {a : ThreadPool.Act}
    {evs : List ThreadPool.Ev} {n k : Nat} (hr : ThreadPool.Reachable s)
    (hs : ThreadPool.step s a = some (s', evs)) (hret : ThreadPool.Ev.ret (.dispatch n) k ∈ evs)
    (ctx : Nat → K) (Scr : K → L → Prop)
    (hscr : ∀ i j, i < n → j < n → s'.execBy i ≠ s'.execBy j → ∀ l, Scr (ctx i) l → ¬ Scr (ctx j) l) :
    WellFormed n Scr (asgOfBy n s'.execBy ctx) ∧
    (∀ t, ThreadPool.numThread s' ≤ t → asgOfBy n s'.execBy ctx t = []) := by
  obtain ⟨_, _, hby, _⟩ := C03.exactly_once hr hs hret
  refine ⟨wellFormed_of_execBy n _ ctx Scr hscr, fun t ht => ?_⟩
  simp only [asgOfBy, List.map_eq_nil_iff, List.filter_eq_nil_iff, List.mem_range, decide_eq_true_eq]
  intro i hi he
  have := hby i hi
  omega

/-! ## Narrow phase: chunks of the pair list -/

theorem chunkSize_ge (npair nthread : Nat) : 16 ≤ chunkSize npair nthread := Nat.le_max_left _ _

theorem chunkSize_mod16 (npair nthread : Nat) : chunkSize npair nthread % 16 = 0 := by
  unfold chunkSize; omega

/-- the chunks cover the pair list: `npair ≤ chunk * nchunk` -/
theorem numChunk_covers (npair chunk : Nat) (hc : 0 < chunk) : npair ≤ chunk * numChunk npair chunk := by
  unfold numChunk
  have h1 := Nat.div_add_mod (npair + chunk - 1) chunk
  have h2 := Nat.mod_lt (npair + chunk - 1) hc
  omega

/-- no chunk task starts behind the end of the pair list: `chunk * idx < npair` for `idx < nchunk` -/
theorem chunk_start_lt (npair chunk idx : Nat) (hc : 0 < chunk) (hi : idx < numChunk npair chunk) :
    chunk * idx < npair := by
  unfold numChunk at hi
  have h1 := Nat.div_add_mod (npair + chunk - 1) chunk
  have h2 := Nat.mod_lt (npair + chunk - 1) hc
  have h3 : chunk * (idx + 1) ≤ chunk * ((npair + chunk - 1) / chunk) := Nat.mul_le_mul_left chunk hi
  rw [Nat.mul_succ] at h3
  omega

/-- every task of the batch has work: `1 ≤ n = mjMIN(chunksize, npair - globalidx)` and stays inside the list -/
theorem chunks_nonempty (npair chunk idx : Nat) (hc : 0 < chunk) (hi : idx < numChunk npair chunk) :
    0 < chunkLen npair chunk idx ∧ chunkLo chunk idx + chunkLen npair chunk idx ≤ npair := by
  have := chunk_start_lt npair chunk idx hc hi
  unfold chunkLen chunkLo
  omega

/-- **Chunks are pairwise disjoint.** -/
theorem chunks_disjoint (npair chunk : Nat) {i j : Nat} (hij : i ≠ j) (p : Nat) :
    InChunk npair chunk i p → ¬ InChunk npair chunk j p := by
  unfold InChunk chunkLo chunkLen
  intro h1 h2
  rcases Nat.lt_or_gt_of_ne hij with h | h
  · have := Nat.mul_le_mul_left chunk (Nat.succ_le_of_lt h)
    rw [Nat.mul_succ] at this
    omega
  · have := Nat.mul_le_mul_left chunk (Nat.succ_le_of_lt h)
    rw [Nat.mul_succ] at this
    omega

/-- a chunk contains only pairs of the list -/
theorem chunks_within (npair chunk idx p : Nat) (h : InChunk npair chunk idx p) : p < npair := by
  unfold InChunk chunkLo chunkLen at h
  omega

/-- **Chunks cover the pair list**: pair `p` is processed by task `p / chunk`, which is a task of the batch. -/
theorem chunks_cover (npair chunk p : Nat) (hc : 0 < chunk) (hp : p < npair) :
    p / chunk < numChunk npair chunk ∧ InChunk npair chunk (p / chunk) p := by
  have h1 := Nat.mul_div_le p chunk
  have h2 := Nat.lt_mul_div_succ p hc
  rw [Nat.mul_succ] at h2
  refine ⟨?_, ?_⟩
  · have := numChunk_covers npair chunk hc
    exact Nat.div_lt_of_lt_mul (by omega)
  · unfold InChunk chunkLo chunkLen
    omega

theorem chunks_concat_aux (npair chunk : Nat) : ∀ q,
    (List.range q).flatMap (fun i => List.range' (chunkLo chunk i) (chunkLen npair chunk i)) =
      List.range (min npair (chunk * q))
  | 0 => by simp
  | q + 1 => by
    rw [List.range_succ, List.flatMap_append, chunks_concat_aux npair chunk q]
    simp only [List.flatMap_cons, List.flatMap_nil, List.append_nil, List.range_eq_range', chunkLo, chunkLen]
    by_cases h : chunk * q ≤ npair
    · have e1 : min npair (chunk * q) = chunk * q := by omega
      have e2 : min npair (chunk * (q + 1)) = chunk * q + min chunk (npair - chunk * q) := by
        rw [Nat.mul_succ]; omega
      rw [e1, e2]
      have := @List.range'_append 0 (chunk * q) (min chunk (npair - chunk * q)) 1
      simpa using this
    · have e1 : min npair (chunk * q) = npair := by omega
      have e2 : min npair (chunk * (q + 1)) = npair := by rw [Nat.mul_succ]; omega
      have e3 : min chunk (npair - chunk * q) = 0 := by omega
      rw [e1, e2, e3]
      simp

/-- **The chunks, taken in task order, enumerate the pair list in order.** -/
theorem chunks_concat (npair chunk : Nat) (hc : 0 < chunk) :
    (List.range (numChunk npair chunk)).flatMap
      (fun i => List.range' (chunkLo chunk i) (chunkLen npair chunk i)) = List.range npair := by
  rw [chunks_concat_aux]
  have := numChunk_covers npair chunk hc
  rw [Nat.min_eq_left this]

/-- **The chunking does not matter for the pool-less result**: processing the chunks one after the other (each chunk
    its pairs in order, as `collisionTask` does) is processing the pairs `0 … npair-1` in order — for every chunk
    size, hence for the chunk size of every pool size. -/
theorem chunked_fold_eq {M : Type} (f : M → Nat → M) (m0 : M) (npair chunk : Nat) (hc : 0 < chunk) :
    (List.range (numChunk npair chunk)).foldl
      (fun m i => (List.range' (chunkLo chunk i) (chunkLen npair chunk i)).foldl f m) m0 =
    (List.range npair).foldl f m0 := by
  rw [← chunks_concat npair chunk hc, List.foldl_flatMap]

/-- the chunk size of every pool size gives the same sequential traversal -/
theorem narrowphase_chunking_irrelevant {M : Type} (f : M → Nat → M) (m0 : M) (npair nthread nthread' : Nat) :
    (List.range (numChunk npair (chunkSize npair nthread))).foldl
      (fun m i => (List.range' (chunkLo (chunkSize npair nthread) i)
        (chunkLen npair (chunkSize npair nthread) i)).foldl f m) m0 =
    (List.range (numChunk npair (chunkSize npair nthread'))).foldl
      (fun m i => (List.range' (chunkLo (chunkSize npair nthread') i)
        (chunkLen npair (chunkSize npair nthread') i)).foldl f m) m0 := by
  rw [chunked_fold_eq f m0 npair _ (by have := chunkSize_ge npair nthread; omega),
    chunked_fold_eq f m0 npair _ (by have := chunkSize_ge npair nthread'; omega)]

theorem conPos_succ_le (mc : Nat → Nat) {p q : Nat} (h : p < q) : conPos mc p + mc p ≤ conPos mc q := by
  induction q with
  | zero => omega
  | succ q ih =>
    simp only [conPos]
    by_cases hpq : p = q
    · subst hpq; omega
    · have := ih (by omega); omega

/-- **The contact slots of different pairs are disjoint**: pair `p` owns `conbuffer[conpos p … conpos p + maxcon p)`
    (`collisionTask` raises an error if a collision function returns more). -/
theorem con_slots_disjoint (mc : Nat → Nat) {p q : Nat} (hpq : p ≠ q) (s : Nat) :
    conPos mc p ≤ s ∧ s < conPos mc p + mc p → ¬ (conPos mc q ≤ s ∧ s < conPos mc q + mc q) := by
  intro h1 h2
  rcases Nat.lt_or_gt_of_ne hpq with h | h
  · have := conPos_succ_le mc h; omega
  · have := conPos_succ_le mc h; omega

/-- **Per-thread CCD scratch is disjoint**: thread `t` uses `epabuffer[t*ccd_size … (t+1)*ccd_size)`. -/
theorem epa_scratch_disjoint (ccd : Nat) {t t' : Nat} (h : t ≠ t') (b : Nat) :
    t * ccd ≤ b ∧ b < (t + 1) * ccd → ¬ (t' * ccd ≤ b ∧ b < (t' + 1) * ccd) := by
  intro h1 h2
  rcases Nat.lt_or_gt_of_ne h with h | h
  · have := Nat.mul_le_mul_right ccd (show t + 1 ≤ t' from h); omega
  · have := Nat.mul_le_mul_right ccd (show t' + 1 ≤ t from h); omega

/-! ## Tactile sensor: taxel batches -/

/-- taxel `p` belongs to batch `t` (`for j = start_taxel; j < end_taxel`) -/
def InSlice (ncon batch t p : Nat) : Prop := taxelLo batch t ≤ p ∧ p < taxelHi ncon batch t

theorem inSlice_iff_inChunk (ncon batch t p : Nat) : InSlice ncon batch t p ↔ InChunk ncon batch t p := by
  unfold InSlice InChunk taxelLo taxelHi chunkLo chunkLen
  rw [Nat.succ_mul, Nat.mul_comm t batch]
  omega

theorem tactileBatch_pos (ncon nthread : Nat) (hn : 0 < ncon) (ht : 0 < nthread) :
    0 < tactileBatch ncon nthread := by
  unfold tactileBatch
  exact Nat.div_pos (by omega) ht

theorem tactileTasks_eq (ncon batch : Nat) : tactileTasks ncon batch = numChunk ncon batch := rfl

/-- at most one batch per pool thread -/
theorem tactile_tasks_le_nthread (ncon nthread : Nat) (hn : 0 < ncon) (ht : 0 < nthread) :
    tactileTasks ncon (tactileBatch ncon nthread) ≤ nthread := by
  have hb := tactileBatch_pos ncon nthread hn ht
  have hcov : ncon ≤ nthread * tactileBatch ncon nthread := numChunk_covers ncon nthread ht
  unfold tactileTasks
  rw [Nat.div_le_iff_le_mul_add_pred hb, Nat.mul_comm]
  omega

/-- **Taxel batches are pairwise disjoint.** -/
theorem tactile_slices_disjoint (ncon batch : Nat) {t t' : Nat} (h : t ≠ t') (p : Nat) :
    InSlice ncon batch t p → ¬ InSlice ncon batch t' p := by
  rw [inSlice_iff_inChunk, inSlice_iff_inChunk]
  exact chunks_disjoint ncon batch h p

/-- **Taxel batches cover the taxels**, and only them. -/
theorem tactile_slices_cover (ncon nthread p : Nat) (ht : 0 < nthread) (hp : p < ncon) :
    p / tactileBatch ncon nthread < tactileTasks ncon (tactileBatch ncon nthread) ∧
    InSlice ncon (tactileBatch ncon nthread) (p / tactileBatch ncon nthread) p := by
  rw [inSlice_iff_inChunk]
  exact chunks_cover ncon _ p (tactileBatch_pos ncon nthread (by omega) ht) hp

theorem tactile_slices_within (ncon batch t p : Nat) (h : InSlice ncon batch t p) : p < ncon := by
  rw [inSlice_iff_inChunk] at h
  exact chunks_within ncon batch t p h

/-- the three channels of different taxels never share a cell of `forcesT` (`forcesT[ch*ncon + j]`) -/
theorem forces_index_inj (ncon : Nat) {ch ch' j j' : Nat} (hj : j < ncon) (hj' : j' < ncon)
    (h : ch * ncon + j = ch' * ncon + j') : ch = ch' ∧ j = j' := by
  have hc : ch = ch' := by
    rcases Nat.lt_trichotomy ch ch' with h1 | h1 | h1
    · have := Nat.mul_le_mul_right ncon (Nat.succ_le_of_lt h1); rw [Nat.succ_mul] at this; omega
    · exact h1
    · have := Nat.mul_le_mul_right ncon (Nat.succ_le_of_lt h1); rw [Nat.succ_mul] at this; omega
  subst hc
  exact ⟨rfl, by omega⟩

/-! ## Island solves: blocks of the island maps (C17) -/

open MjProof.Island in
theorem countP_disjoint_le (l : List Int) (p q r : Int → Bool) (hd : ∀ x, p x = true → q x = true → False)
    (hp : ∀ x, p x = true → r x = true) (hq : ∀ x, q x = true → r x = true) :
    l.countP p + l.countP q ≤ l.countP r := by
  induction l with
  | nil => simp
  | cons x xs ih =>
    simp only [List.countP_cons]
    have h1 := hd x
    have h2 := hp x
    have h3 := hq x
    cases hpx : p x <;> cases hqx : q x <;> cases hrx : r x <;> simp_all <;> omega

open MjProof.Island in
/-- the block of island `k` ends before the block of every later island starts -/
theorem island_block_order {keys : List Int} {nb : Nat} {m : Maps} (s : MapsSpec keys nb m) {k k' : Nat}
    (hk : k < k') (h1 : k < m.adr.size) (h2 : k < m.cnt.size) (h3 : k' < m.adr.size) :
    m.adr[k] + m.cnt[k] ≤ m.adr[k'] := by
  rw [s.adr_eq k h1, s.cnt_eq k h2, s.adr_eq k' h3, List.count_eq_countP]
  apply countP_disjoint_le
  · intro x hx hx'
    simp only [decide_eq_true_eq, beq_iff_eq] at hx hx'
    omega
  · intro x hx
    simp only [decide_eq_true_eq] at hx ⊢
    omega
  · intro x hx
    simp only [decide_eq_true_eq, beq_iff_eq] at hx ⊢
    omega

open MjProof.Island in
/-- **Island blocks are pairwise disjoint**: position `x` of the island-ordered arrays (`iacc`, `ifrc_*`, `iefc_*`, …)
    lies in the block `[adr k, adr k + cnt k)` of at most one island. -/
theorem island_blocks_disjoint {keys : List Int} {nb : Nat} {m : Maps} (s : MapsSpec keys nb m) {k k' : Nat}
    (_hk : k < nb) (_hk' : k' < nb) (hne : k ≠ k') (x : Nat)
    (h1 : k < m.adr.size) (h2 : k < m.cnt.size) (h3 : k' < m.adr.size) (h4 : k' < m.cnt.size) :
    m.adr[k] ≤ x ∧ x < m.adr[k] + m.cnt[k] → ¬ (m.adr[k'] ≤ x ∧ x < m.adr[k'] + m.cnt[k']) := by
  intro ha hb
  rcases Nat.lt_or_gt_of_ne hne with h | h
  · have := island_block_order s h h1 h2 h3; omega
  · have := island_block_order s h h3 h4 h1; omega

open MjProof.Island in
/-- **The members of different islands are different objects**: the island-to-global map (`map_idof2dof`,
    `map_iefc2efc`) is injective, so the global rows / dofs that two island tasks reach through it are disjoint
    (this is what `solPGS` relies on when it writes `efc_force[efclist[c]]`). -/
theorem island_members_disjoint {keys : List Int} {nb : Nat} {m : Maps} (s : MapsSpec keys nb m) {k k' : Nat}
    (hk : k < nb) (hk' : k' < nb) (hne : k ≠ k')
    (h1 : k < m.adr.size) (h2 : k < m.cnt.size) (h3 : k' < m.adr.size) (h4 : k' < m.cnt.size)
    (x y : Nat) (hx : x < m.inv.size) (hy : y < m.inv.size)
    (bx : m.adr[k] ≤ x ∧ x < m.adr[k] + m.cnt[k]) (by' : m.adr[k'] ≤ y ∧ y < m.adr[k'] + m.cnt[k']) :
    m.inv[x] ≠ m.inv[y] := by
  intro he
  obtain ⟨hx', ex⟩ := s.fwd_inv x hx
  obtain ⟨hy', ey⟩ := s.fwd_inv y hy
  have hxy : x = y := by
    rw [← ex, ← ey]
    congr 1
  subst hxy
  exact island_blocks_disjoint s hk hk' hne x h1 h2 h3 h4 bx by'

open MjProof.Island in
/-- **`mj_island` hands disjoint blocks to the island tasks** (import of C17's `maps_inverse`): under the
    preconditions of that theorem the model of `mj_island` runs to completion and the dof blocks
    (`island_idofadr`, `island_nv`) and the constraint blocks (`island_iefcadr`, `island_nefc`) of different islands
    are disjoint. -/
theorem mj_island_blocks_disjoint (ntree : Nat) (dofnum : Array Int) (dofTree : List Nat)
    (rows : List (Option (List Int))) (flexes : List (List (Int × Bool)))
    (hshape : RowsShape false rows) (hrows : ∀ ts, some ts ∈ rows → RowOk ntree ts) (hne : rows ≠ [])
    (hflex : ∀ f ∈ flexes, ∀ x ∈ f, x.1 < (ntree : Int))
    (hdn : dofnum.size = ntree) (hdt : ∀ d ∈ dofTree, d < ntree)
    (hcount : ∀ t (h : t < dofnum.size), dofnum[t] = (dofTree.count t : Int))
    (hevery : ∀ t, t < ntree → t ∈ dofTree) :
    ∃ out, island ntree dofnum dofTree rows flexes = some out ∧
      ∀ k k', k < out.nisland → k' < out.nisland → k ≠ k' →
        (∀ x (h1 : k < out.dofs.adr.size) (h2 : k < out.dofs.cnt.size) (h3 : k' < out.dofs.adr.size)
            (h4 : k' < out.dofs.cnt.size),
          out.dofs.adr[k] ≤ x ∧ x < out.dofs.adr[k] + out.dofs.cnt[k] →
            ¬ (out.dofs.adr[k'] ≤ x ∧ x < out.dofs.adr[k'] + out.dofs.cnt[k'])) ∧
        (∀ x (h1 : k < out.efcs.adr.size) (h2 : k < out.efcs.cnt.size) (h3 : k' < out.efcs.adr.size)
            (h4 : k' < out.efcs.cnt.size),
          out.efcs.adr[k] ≤ x ∧ x < out.efcs.adr[k] + out.efcs.cnt[k] →
            ¬ (out.efcs.adr[k'] ≤ x ∧ x < out.efcs.adr[k'] + out.efcs.cnt[k'])) := by
  obtain ⟨out, ho, sp⟩ := C17.maps_inverse ntree dofnum dofTree rows flexes hshape hrows hne hflex hdn hdt hcount hevery
  refine ⟨out, ho, fun k k' hk hk' hkk => ⟨?_, ?_⟩⟩
  · intro x h1 h2 h3 h4
    exact island_blocks_disjoint sp.dofs hk hk' hkk x h1 h2 h3 h4
  · intro x h1 h2 h3 h4
    exact island_blocks_disjoint sp.efcs hk hk' hkk x h1 h2 h3 h4

/-! ## Shared stack under `d->threadlock` (C19) -/

open MjProof.Arena in
/-- **Concurrent stack reservations are disjoint** (import of C19's `concurrent_reservations_disjoint`): whatever the
    interleaving `sched` of the pool threads' `mj_stackAlloc` requests `progs` while the thread lock is held, no byte
    belongs to two granted blocks, and every granted block lies in the gap that was free when the lock was taken. -/
theorem stack_shards_disjoint {c : Cfg} (hw : WFCfg c) (s : State) (hl : s.threadlock = true)
    (hpa : s.parena ≤ c.narena) (progs : List (List (Nat × Nat))) (sched : List Nat)
    (hal : ∀ p ∈ progs, ∀ r ∈ p, 0 < r.2) (hnw : s.pstack + totalAll c progs < W) :
    (granted (interleave progs sched) (lockedRun c s (interleave progs sched)).1).Pairwise
      (fun x y => ∀ a, ¬ ((x.1.addr ≤ a ∧ a < x.1.addr + x.1.size) ∧ (y.1.addr ≤ a ∧ a < y.1.addr + y.1.size))) ∧
    (∀ x ∈ granted (interleave progs sched) (lockedRun c s (interleave progs sched)).1,
      c.base + s.parena ≤ x.1.addr ∧ x.1.addr + x.1.size ≤ c.base + c.narena - s.pstack) := by
  obtain ⟨h1, h2, _⟩ := C19.concurrent_reservations_disjoint hw s hl hpa progs sched hal hnw
  refine ⟨h1.imp ?_, fun x hx => ⟨(h2 x hx).1, (h2 x hx).2.1⟩⟩
  intro x y hd a ha
  unfold Block.Disjoint at hd
  omega

/-! ## The three dispatch sites as instances of the general theorem -/

/-- locations of a dispatch site: an element of an array written by the tasks, a byte of the per-thread CCD scratch,
    a byte of the shared stack, anything else (model, and every `mjData` field computed before the dispatch) -/
inductive Loc where
  | out (arr idx : Nat)
  | epa (byte : Nat)
  | stk (addr : Nat)
  | inp (x : Nat)

/-- execution context of a task: the `thread_id` argument and the blocks `mj_stackAlloc` reserved for it -/
abbrev Ctx := Nat × List (Nat × Nat)

/-- write set: the task's index set `Wset i` of the output arrays -/
def siteW (Wset : Nat → Nat → Nat → Prop) (i : Nat) : Loc → Prop
  | .out a x => Wset i a x
  | _ => False

/-- read set: the task's own output cells and all inputs (which no task writes) -/
def siteR (Wset : Nat → Nat → Nat → Prop) (i : Nat) : Loc → Prop
  | .out a x => Wset i a x
  | .inp _ => True
  | _ => False

/-- scratch: the thread's CCD buffer and the task's stack blocks -/
def siteScr (ccd : Nat) (k : Ctx) : Loc → Prop
  | .epa b => k.1 * ccd ≤ b ∧ b < (k.1 + 1) * ccd
  | .stk a => ∃ s ∈ k.2, s.1 ≤ a ∧ a < s.1 + s.2
  | _ => False

/-- pairwise disjoint index sets give non-conflicting footprints -/
theorem site_nonconflict (Wset : Nat → Nat → Nat → Prop) (ccd : Nat)
    (hdis : ∀ i j, i ≠ j → ∀ a x, Wset i a x → ¬ Wset j a x) :
    NonConflict (siteR Wset) (siteW Wset) (siteScr ccd) := by
  refine ⟨?_, ?_, ?_, ?_⟩
  · intro i j hij l hw
    cases l <;> simp only [siteW] at hw ⊢
    · exact hdis i j hij _ _ hw
  · intro i j hij l hw
    cases l <;> simp only [siteW, siteR] at hw ⊢
    · exact hdis i j hij _ _ hw
  · intro k i l hs
    cases l <;> simp only [siteScr, siteW] at hs ⊢
    all_goals first | exact hs.elim | exact fun h => h
  · intro k i l hs
    cases l <;> simp only [siteScr, siteR] at hs ⊢
    all_goals first | exact hs.elim | exact fun h => h

/-- assignments whose contexts carry the executing thread's id and pairwise disjoint stack blocks (C19) have
    separated scratch -/
theorem site_scratch_sep (ccd : Nat) (asg : Nat → List (Nat × Ctx))
    (htid : ∀ t x, x ∈ asg t → x.2.1 = t)
    (hsh : ∀ t t', t ≠ t' → ∀ x ∈ asg t, ∀ y ∈ asg t', ∀ s ∈ x.2.2, ∀ s' ∈ y.2.2,
      s.1 + s.2 ≤ s'.1 ∨ s'.1 + s'.2 ≤ s.1) :
    ∀ t t', t ≠ t' → ∀ x ∈ asg t, ∀ y ∈ asg t', ∀ l, siteScr ccd x.2 l → ¬ siteScr ccd y.2 l := by
  intro t t' htt x hx y hy l h1 h2
  cases l with
  | out a i => exact h1
  | inp i => exact h1
  | epa b =>
    simp only [siteScr, htid t x hx, htid t' y hy] at h1 h2
    exact epa_scratch_disjoint ccd htt b h1 h2
  | stk a =>
    simp only [siteScr] at h1 h2
    obtain ⟨s, hs, h1⟩ := h1
    obtain ⟨s', hs', h2⟩ := h2
    have := hsh t t' htt x hx y hy s hs s' hs'
    omega

/-- an assignment of a dispatch site: ids exactly once (C03), `thread_id` = executing thread (C03), stack blocks of
    tasks on different threads disjoint (C19) -/
structure SiteAssignment (n : Nat) (asg : Nat → List (Nat × Ctx)) : Prop where
  bound : ∀ t x, x ∈ asg t → x.1 < n
  nodup : ∀ t, ((asg t).map Prod.fst).Nodup
  apart : ∀ t t', t ≠ t' → ∀ x ∈ asg t, ∀ y ∈ asg t', x.1 ≠ y.1
  complete : ∀ i, i < n → ∃ t k, (i, k) ∈ asg t
  tid : ∀ t x, x ∈ asg t → x.2.1 = t
  shards : ∀ t t', t ≠ t' → ∀ x ∈ asg t, ∀ y ∈ asg t', ∀ s ∈ x.2.2, ∀ s' ∈ y.2.2,
    s.1 + s.2 ≤ s'.1 ∨ s'.1 + s'.2 ≤ s.1

theorem SiteAssignment.wellFormed {n : Nat} {asg : Nat → List (Nat × Ctx)} (h : SiteAssignment n asg) (ccd : Nat) :
    WellFormed n (siteScr ccd) asg :=
  ⟨h.bound, h.nodup, h.apart, h.complete, site_scratch_sep ccd asg h.tid h.shards⟩

/-- the general theorem at a dispatch site: every output cell and every input has the same value after any two
    complete executions -/
theorem site_schedule_independent {V S : Type} (Wset : Nat → Nat → Nat → Prop) (ccd n : Nat)
    (hdis : ∀ i j, i ≠ j → ∀ a x, Wset i a x → ¬ Wset j a x)
    (tasks : Nat → Task Loc V Ctx S) (hR : Respects tasks (siteR Wset) (siteW Wset) (siteScr ccd))
    {asg asg' : Nat → List (Nat × Ctx)} (hA : SiteAssignment n asg) (hA' : SiteAssignment n asg')
    (m0 : Mem Loc V) (sched sched' : List Nat) (hT : Terminal (exec tasks (start m0 asg) sched))
    (hT' : Terminal (exec tasks (start m0 asg') sched')) :
    (∀ a x, (exec tasks (start m0 asg) sched).mem (.out a x) = (exec tasks (start m0 asg') sched').mem (.out a x)) ∧
    (∀ x, (exec tasks (start m0 asg) sched).mem (.inp x) = (exec tasks (start m0 asg') sched').mem (.inp x)) := by
  have h := dispatch_schedule_independent hR (site_nonconflict Wset ccd hdis) (hA.wellFormed ccd) (hA'.wellFormed ccd)
    sched sched' hT hT'
  exact ⟨fun a x => h _ (fun k hk => hk), fun x => h _ (fun k hk => hk)⟩

/-- narrow phase: chunk task `i` writes `nconbuffer[p]` (array 0) and the contact slots
    `conbuffer[conpos p … conpos p + maxcon p)` (array 1) of the pairs `p` of its chunk -/
def npWset (npair chunk : Nat) (mc : Nat → Nat) (i a x : Nat) : Prop :=
  (a = 0 ∧ InChunk npair chunk i x) ∨
  (a = 1 ∧ ∃ p, InChunk npair chunk i p ∧ conPos mc p ≤ x ∧ x < conPos mc p + mc p)

theorem npWset_disjoint (npair chunk : Nat) (mc : Nat → Nat) :
    ∀ i j, i ≠ j → ∀ a x, npWset npair chunk mc i a x → ¬ npWset npair chunk mc j a x := by
  intro i j hij a x h1 h2
  rcases h1 with ⟨ha, h1⟩ | ⟨ha, p, hp, h1⟩ <;> rcases h2 with ⟨ha', h2⟩ | ⟨ha', q, hq, h2⟩
  · exact chunks_disjoint npair chunk hij x h1 h2
  · omega
  · omega
  · by_cases hpq : p = q
    · subst hpq; exact chunks_disjoint npair chunk hij p hp hq
    · exact con_slots_disjoint mc hpq x h1 h2

/-- **Narrow phase (`mj_narrowphase` / `collisionTask`).**  `_partial`: `hR` — the real `collisionTask` respects
    these footprints (reads the model, the geom poses and the pair list; writes only its chunk's `nconbuffer` cells
    and contact slots, the thread's CCD buffer and its own stack blocks) — is hand-stated, not derived from the C
    source. -/
theorem narrowphase_schedule_independent_partial {V S : Type} (npair nthread ccd : Nat) (mc : Nat → Nat)
    (tasks : Nat → Task Loc V Ctx S)
    (hR : Respects tasks (siteR (npWset npair (chunkSize npair nthread) mc))
      (siteW (npWset npair (chunkSize npair nthread) mc)) (siteScr ccd))
    {asg asg' : Nat → List (Nat × Ctx)}
    (hA : SiteAssignment (numChunk npair (chunkSize npair nthread)) asg)
    (hA' : SiteAssignment (numChunk npair (chunkSize npair nthread)) asg')
    (m0 : Mem Loc V) (sched sched' : List Nat) (hT : Terminal (exec tasks (start m0 asg) sched))
    (hT' : Terminal (exec tasks (start m0 asg') sched')) :
    (∀ a x, (exec tasks (start m0 asg) sched).mem (.out a x) = (exec tasks (start m0 asg') sched').mem (.out a x)) ∧
    (∀ x, (exec tasks (start m0 asg) sched).mem (.inp x) = (exec tasks (start m0 asg') sched').mem (.inp x)) :=
  site_schedule_independent _ ccd _ (npWset_disjoint npair _ mc) tasks hR hA hA' m0 sched sched' hT hT'

/-- tactile sensor: batch task `t` writes `forcesT[ch*ncon + j]` (array 0) for the taxels `j` of its slice -/
def tacWset (ncon batch : Nat) (t a x : Nat) : Prop :=
  a = 0 ∧ ∃ ch j, InSlice ncon batch t j ∧ x = ch * ncon + j

theorem tacWset_disjoint (ncon batch : Nat) :
    ∀ i j, i ≠ j → ∀ a x, tacWset ncon batch i a x → ¬ tacWset ncon batch j a x := by
  intro i j hij a x h1 h2
  obtain ⟨_, ch, p, hp, rfl⟩ := h1
  obtain ⟨_, ch', q, hq, he⟩ := h2
  have := forces_index_inj ncon (tactile_slices_within ncon batch i p hp) (tactile_slices_within ncon batch j q hq) he
  rw [this.2] at hp
  exact tactile_slices_disjoint ncon batch hij q hp hq

/-- **Tactile sensor (`tactileTask` / `tactile_taxel_batch`).**  `_partial`: `hR` is hand-stated. -/
theorem tactile_schedule_independent_partial {V S : Type} (ncon nthread : Nat)
    (tasks : Nat → Task Loc V Ctx S)
    (hR : Respects tasks (siteR (tacWset ncon (tactileBatch ncon nthread)))
      (siteW (tacWset ncon (tactileBatch ncon nthread))) (siteScr 0))
    {asg asg' : Nat → List (Nat × Ctx)}
    (hA : SiteAssignment (tactileTasks ncon (tactileBatch ncon nthread)) asg)
    (hA' : SiteAssignment (tactileTasks ncon (tactileBatch ncon nthread)) asg')
    (m0 : Mem Loc V) (sched sched' : List Nat) (hT : Terminal (exec tasks (start m0 asg) sched))
    (hT' : Terminal (exec tasks (start m0 asg') sched')) :
    (∀ a x, (exec tasks (start m0 asg) sched).mem (.out a x) = (exec tasks (start m0 asg') sched').mem (.out a x)) ∧
    (∀ x, (exec tasks (start m0 asg) sched).mem (.inp x) = (exec tasks (start m0 asg') sched').mem (.inp x)) :=
  site_schedule_independent _ 0 _ (tacWset_disjoint ncon _) tasks hR hA hA' m0 sched sched' hT hT'

open MjProof.Island in
/-- island solves: task `k` writes its block of the island-ordered dof arrays (array 0: `iacc`, `ifrc_constraint`,
    `iMa`, …), its block of the island-ordered constraint arrays (array 1: `iefc_force`, `iefc_state`, …), the global
    rows and dofs it reaches through the island maps (arrays 2, 3: `efc_force[map_iefc2efc[·]]`, `efc_state[…]`, …)
    and its own statistics slot (array 4: `solver[k*mjNSOLVER …]`, `solver_niter[k]`, `solver_nnz[k]`) -/
def islWset (dofs efcs : Maps) (k a x : Nat) : Prop :=
  (a = 0 ∧ ∃ (h1 : k < dofs.adr.size) (h2 : k < dofs.cnt.size), dofs.adr[k] ≤ x ∧ x < dofs.adr[k] + dofs.cnt[k]) ∨
  (a = 1 ∧ ∃ (h1 : k < efcs.adr.size) (h2 : k < efcs.cnt.size), efcs.adr[k] ≤ x ∧ x < efcs.adr[k] + efcs.cnt[k]) ∨
  (a = 2 ∧ ∃ (h1 : k < efcs.adr.size) (h2 : k < efcs.cnt.size) (y : Nat) (hy : y < efcs.inv.size),
    efcs.adr[k] ≤ y ∧ y < efcs.adr[k] + efcs.cnt[k] ∧ efcs.inv[y] = x) ∨
  (a = 3 ∧ ∃ (h1 : k < dofs.adr.size) (h2 : k < dofs.cnt.size) (y : Nat) (hy : y < dofs.inv.size),
    dofs.adr[k] ≤ y ∧ y < dofs.adr[k] + dofs.cnt[k] ∧ dofs.inv[y] = x) ∨
  (a = 4 ∧ x = k)

open MjProof.Island in
theorem islWset_disjoint {dkeys ekeys : List Int} {nb : Nat} {dofs efcs : Maps}
    (sd : MapsSpec dkeys nb dofs) (se : MapsSpec ekeys nb efcs) :
    ∀ i j, i < nb → j < nb → i ≠ j → ∀ a x, islWset dofs efcs i a x → ¬ islWset dofs efcs j a x := by
  intro i j hi hj hij a x h1 h2
  rcases h1 with ⟨ha, p1, p2, hb⟩ | ⟨ha, p1, p2, hb⟩ | ⟨ha, p1, p2, y, hy, hb1, hb2, hb3⟩ |
      ⟨ha, p1, p2, y, hy, hb1, hb2, hb3⟩ | ⟨ha, hb⟩ <;>
    rcases h2 with ⟨ha', q1, q2, hc⟩ | ⟨ha', q1, q2, hc⟩ | ⟨ha', q1, q2, z, hz, hc1, hc2, hc3⟩ |
      ⟨ha', q1, q2, z, hz, hc1, hc2, hc3⟩ | ⟨ha', hc⟩
  all_goals try omega
  · exact island_blocks_disjoint sd hi hj hij x p1 p2 q1 q2 hb hc
  · exact island_blocks_disjoint se hi hj hij x p1 p2 q1 q2 hb hc
  · exact island_members_disjoint se hi hj hij p1 p2 q1 q2 y z hy hz ⟨hb1, hb2⟩ ⟨hc1, hc2⟩ (by rw [hb3, hc3])
  · exact island_members_disjoint sd hi hj hij p1 p2 q1 q2 y z hy hz ⟨hb1, hb2⟩ ⟨hc1, hc2⟩ (by rw [hb3, hc3])

open MjProof.Island in
/-- **Island solves (`mj_fwdConstraint` / `solveIslandTask`).**  The island maps satisfy C17's `MapsSpec` (which
    `mj_island_blocks_disjoint` / `C17.maps_inverse` establish for the model of `mj_island`).  `_partial`: `hR` — each
    `mj_sol*_island` reads and writes only its island's blocks, rows, dofs and statistics slot (for PGS this uses that
    `efc_AR` couples only constraints of one island) — is hand-stated.  Task ids `≥ nisland` do not occur
    (`SiteAssignment.bound`), so disjointness is needed only below `nisland`. -/
theorem island_schedule_independent_partial {V S : Type} {dkeys ekeys : List Int} {nisland : Nat} {dofs efcs : Maps}
    (sd : MapsSpec dkeys nisland dofs) (se : MapsSpec ekeys nisland efcs)
    (tasks : Nat → Task Loc V Ctx S)
    (hR : Respects tasks (siteR (fun i a x => i < nisland ∧ islWset dofs efcs i a x))
      (siteW (fun i a x => i < nisland ∧ islWset dofs efcs i a x)) (siteScr 0))
    {asg asg' : Nat → List (Nat × Ctx)}
    (hA : SiteAssignment nisland asg) (hA' : SiteAssignment nisland asg')
    (m0 : Mem Loc V) (sched sched' : List Nat) (hT : Terminal (exec tasks (start m0 asg) sched))
    (hT' : Terminal (exec tasks (start m0 asg') sched')) :
    (∀ a x, (exec tasks (start m0 asg) sched).mem (.out a x) = (exec tasks (start m0 asg') sched').mem (.out a x)) ∧
    (∀ x, (exec tasks (start m0 asg) sched).mem (.inp x) = (exec tasks (start m0 asg') sched').mem (.inp x)) :=
  site_schedule_independent _ 0 _
    (fun i j hij a x h1 h2 => islWset_disjoint sd se i j h1.1 h2.1 hij a x h1.2 h2.2)
    tasks hR hA hA' m0 sched sched' hT hT'

/-! ## Non-vacuity -/

section NonVacuity

/-- a two-step task with per-thread scratch: `scratch[k] := in[i]; out[i] := scratch[k] + 1`
    (`in[i]` = location `10+i`, `out[i]` = location `i`, `scratch[k]` = location `100+k`; ids `≥ 10` do nothing) -/
def exTask (i : Nat) : Task Nat Nat Nat Nat :=
  ⟨0, fun k pc m =>
    if i < 10 then
      if pc = 0 then some (1, fun x => if x = 100 + k then m (10 + i) else m x)
      else if pc = 1 then some (2, fun x => if x = i then m (100 + k) + 1 else m x)
      else none
    else none⟩

def exR (i l : Nat) : Prop := l = 10 + i ∧ i < 10
def exW (i l : Nat) : Prop := l = i ∧ i < 10
def exScr (k l : Nat) : Prop := l = 100 + k

theorem ex_nonconflict : NonConflict exR exW exScr := by
  refine ⟨?_, ?_, ?_, ?_⟩ <;> intros <;> simp only [exR, exW, exScr] at * <;> omega

theorem exTask_iter_none (i k : Nat) (x : Nat × Mem Nat Nat) (j : Nat) (h : iter (exTask i) k j x = none) :
    iter (exTask i) k (j + 1) x = none := by
  rw [iter_succ, h]; rfl

theorem exTask_run {i k : Nat} (hi : i < 10) {m mf : Mem Nat Nat} (h : TaskRun (exTask i) k m mf) :
    mf i = m (10 + i) + 1 := by
  obtain ⟨j, s, hj, hs⟩ := h
  have h3 : ∀ j, iter (exTask i) k (j + 3) ((exTask i).init, m) = none := by
    intro j
    induction j with
    | zero => simp [iter, exTask, hi]
    | succ j ih => exact exTask_iter_none i k _ _ ih
  match j with
  | 0 =>
    simp only [iter, exTask, Option.some.injEq, Prod.mk.injEq] at hj
    obtain ⟨rfl, rfl⟩ := hj
    simp [exTask, hi] at hs
  | 1 =>
    simp only [iter, exTask, hi, if_true, Option.bind_some, Option.some.injEq, Prod.mk.injEq] at hj
    obtain ⟨rfl, rfl⟩ := hj
    simp [exTask, hi] at hs
  | 2 =>
    simp only [iter, exTask, hi, if_true, Option.bind_some, Nat.one_ne_zero, if_false, Option.some.injEq,
      Prod.mk.injEq] at hj
    obtain ⟨_, rfl⟩ := hj
    simp
  | j + 3 => rw [h3 j] at hj; cases hj

theorem ex_respects : Respects exTask exR exW exScr := by
  refine ⟨?_, ?_, ?_⟩
  · intro i k s m s' m' h l hw hs
    simp only [exTask] at h
    simp only [exW, exScr] at hw hs
    split at h
    · split at h
      · simp only [Option.some.injEq, Prod.mk.injEq] at h
        obtain ⟨_, rfl⟩ := h
        simp [hs]
      · split at h
        · simp only [Option.some.injEq, Prod.mk.injEq] at h
          obtain ⟨_, rfl⟩ := h
          have : ¬ l = i := by omega
          simp [this]
        · cases h
    · cases h
  · intro i k s m m' h
    by_cases hi : i < 10
    · have hin : m (10 + i) = m' (10 + i) := h _ (Or.inl ⟨rfl, hi⟩)
      have hsc : m (100 + k) = m' (100 + k) := h _ (Or.inr (Or.inr rfl))
      by_cases h0 : s = 0
      · right
        refine ⟨1, fun x => if x = 100 + k then m (10 + i) else m x,
          fun x => if x = 100 + k then m' (10 + i) else m' x, by simp [exTask, hi, h0], by simp [exTask, hi, h0], ?_⟩
        intro l hl
        by_cases hl' : l = 100 + k
        · simp [hl', hin]
        · simp only [hl', if_false]; exact h l hl
      · by_cases h1 : s = 1
        · right
          refine ⟨2, fun x => if x = i then m (100 + k) + 1 else m x,
            fun x => if x = i then m' (100 + k) + 1 else m' x, by simp [exTask, hi, h1], by simp [exTask, hi, h1], ?_⟩
          intro l hl
          by_cases hl' : l = i
          · simp [hl', hsc]
          · simp only [hl', if_false]; exact h l hl
        · left; simp [exTask, hi, h0, h1]
    · left; simp [exTask, hi]
  · intro i k k' m m' mf mf' h r r' l hl
    obtain ⟨rfl, hi⟩ := hl
    rw [exTask_run hi r, exTask_run hi r', h _ ⟨rfl, hi⟩]

/-- two assignments of the batch `{0, 1}`: one task per thread / both on thread 0 in reverse order -/
def exAsg : Nat → List (Nat × Nat) := fun t => if t = 0 then [(0, 0)] else if t = 1 then [(1, 1)] else []
def exAsg' : Nat → List (Nat × Nat) := fun t => if t = 0 then [(1, 0), (0, 0)] else []

theorem mem_exAsg (t : Nat) (x : Nat × Nat) : x ∈ exAsg t ↔ (t = 0 ∧ x = (0, 0)) ∨ (t = 1 ∧ x = (1, 1)) := by
  unfold exAsg
  split
  · simp_all
  · split <;> simp_all

theorem mem_exAsg' (t : Nat) (x : Nat × Nat) : x ∈ exAsg' t ↔ t = 0 ∧ (x = (1, 0) ∨ x = (0, 0)) := by
  unfold exAsg'
  split <;> simp_all

theorem exAsg_wf : WellFormed 2 exScr exAsg := by
  refine ⟨?_, ?_, ?_, ?_, ?_⟩
  · intro t x hx
    rcases (mem_exAsg t x).mp hx with ⟨_, rfl⟩ | ⟨_, rfl⟩ <;> decide
  · intro t; unfold exAsg; split
    · decide
    · split <;> decide
  · intro t t' htt x hx y hy
    rcases (mem_exAsg t x).mp hx with ⟨h1, rfl⟩ | ⟨h1, rfl⟩ <;>
      rcases (mem_exAsg t' y).mp hy with ⟨h2, rfl⟩ | ⟨h2, rfl⟩ <;> omega
  · intro i hi
    match i, hi with
    | 0, _ => exact ⟨0, 0, by simp [exAsg]⟩
    | 1, _ => exact ⟨1, 1, by simp [exAsg]⟩
  · intro t t' htt x hx y hy l
    rcases (mem_exAsg t x).mp hx with ⟨h1, rfl⟩ | ⟨h1, rfl⟩ <;>
      rcases (mem_exAsg t' y).mp hy with ⟨h2, rfl⟩ | ⟨h2, rfl⟩ <;> simp only [exScr] <;> omega

theorem exAsg'_wf : WellFormed 2 exScr exAsg' := by
  refine ⟨?_, ?_, ?_, ?_, ?_⟩
  · intro t x hx
    rcases (mem_exAsg' t x).mp hx with ⟨_, rfl | rfl⟩ <;> decide
  · intro t; unfold exAsg'; split <;> decide
  · intro t t' htt x hx y hy
    have h1 := ((mem_exAsg' t x).mp hx).1
    have h2 := ((mem_exAsg' t' y).mp hy).1
    omega
  · intro i hi
    match i, hi with
    | 0, _ => exact ⟨0, 0, by simp [exAsg']⟩
    | 1, _ => exact ⟨0, 0, by simp [exAsg']⟩
  · intro t t' htt x hx y hy l
    have h1 := ((mem_exAsg' t x).mp hx).1
    have h2 := ((mem_exAsg' t' y).mp hy).1
    omega

theorem ex_terminal (m0 : Mem Nat Nat) :
    Terminal (exec exTask (start m0 exAsg) [0, 1, 1, 0, 1, 0, 0, 1]) := by
  intro t
  by_cases h0 : t = 0 <;> by_cases h1 : t = 1 <;>
    simp [exec, stepThread, start, setThr, exAsg, exTask, h0, h1]

theorem ex_terminal' (m0 : Mem Nat Nat) :
    Terminal (exec exTask (start m0 exAsg') [0, 0, 0, 0, 0, 0, 0, 0]) := by
  intro t
  by_cases h0 : t = 0 <;> simp [exec, stepThread, start, setThr, exAsg', exTask, h0]

/-- the hypotheses of `dispatch_schedule_independent` are satisfiable: a batch with per-thread scratch, run once
    with one task per thread (steps interleaved) and once entirely on thread 0 in reverse order -/
example (m0 : Mem Nat Nat) := dispatch_schedule_independent ex_respects ex_nonconflict exAsg_wf exAsg'_wf
  [0, 1, 1, 0, 1, 0, 0, 1] [0, 0, 0, 0, 0, 0, 0, 0] (ex_terminal m0) (ex_terminal' m0)

/-- …and of `pool_eq_sequential` / `sequential_exists` -/
example (m0 : Mem Nat Nat) := sequential_exists ex_respects ex_nonconflict exAsg_wf _ (ex_terminal m0) 0
  (by
    intro i k k' m m' mf _ _
    by_cases hi : i < 10
    · exact ⟨fun x => if x = i then m' (10 + i) + 1 else if x = 100 + k' then m' (10 + i) else m' x, 2, 2,
        by simp [iter, exTask, hi], by simp [exTask, hi]⟩
    · exact ⟨m', 0, 0, rfl, by simp [exTask, hi]⟩)

/-- the batch of C03's demo run (pool of one worker, two tasks) induces a well-formed assignment -/
example := pool_assignment_wellformed (L := Nat) (K := Nat) (s := C03.demoState) (a := .main)
  (n := 2) (k := 2) C03.demo_reachable (ThreadPool.step_eq_getD (ThreadPool.init, []) (by decide)) (by decide) id exScr
  (by
    intro i j _ _ hne l h1 h2
    simp only [exScr, id] at h1 h2
    have : i = j := by omega
    subst this
    exact hne rfl)

example : chunkSize 100 4 = 16 ∧ numChunk 100 16 = 7 ∧ chunkSize 4000 1 = 800 ∧ chunkSize 4000 9 = 96 := by decide
example := chunks_concat 100 (chunkSize 100 4) (by decide)
example := chunks_cover 100 (chunkSize 100 4) 99 (by decide) (by decide)
example := tactile_tasks_le_nthread 2562 5 (by decide) (by decide)
example : tactileBatch 2562 5 = 513 ∧ tactileTasks 2562 513 = 5 := by decide

open MjProof.Island in
/-- the scene of C17's example (4 trees; a contact of tree 2 with the world, a contact 3–1): two islands, disjoint
    blocks -/
example := mj_island_blocks_disjoint 4 #[6, 1, 6, 2] [0,0,0,0,0,0,1,2,2,2,2,2,2,3,3]
  [some [-1, 2], none, none, some [3, 1], none] []
  (.row (by decide) (by decide) (.same (.same (.row (by decide) (by decide) (.same .nil)))))
  (by
    intro ts hts
    simp only [List.mem_cons, Option.some.injEq, reduceCtorEq, List.not_mem_nil, or_false, false_or] at hts
    rcases hts with rfl | rfl
    · exact ⟨by decide, Or.inr (Or.inl ⟨-1, 2, rfl, by decide⟩)⟩
    · exact ⟨by decide, Or.inr (Or.inl ⟨3, 1, rfl, by decide⟩)⟩)
  (by decide) (by intro f hf; simp at hf) rfl (by decide) (by decide) (by decide)

open MjProof.Arena in
example := stack_shards_disjoint (c := C19.wc) (by unfold WFCfg; decide +kernel)
  { State.init with threadlock := true } rfl (by decide) [[(8, 8), (16, 16)], [(24, 8)]] [1, 0, 1, 0, 5]
  (by decide) (by unfold W; decide +kernel)

end NonVacuity

end MjProof.C02
