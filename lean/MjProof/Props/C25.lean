import MjProof.Model.FDBook
import MjProof.Lemmas.RealNum
import Mathlib.Analysis.Calculus.Deriv.Mul
import Mathlib.Analysis.Calculus.Deriv.Pow
import Mathlib.Analysis.Calculus.Deriv.Add
import Mathlib.Analysis.Calculus.Deriv.Slope
import Mathlib.Analysis.Calculus.Deriv.Comp
import Mathlib.Tactic.Ring
import Mathlib.Tactic.Linarith
import Mathlib.Tactic.FieldSimp
/-
C25 — Analytic derivatives match finite differences.

Theorems over ℝ about
  * the *generated* scalar kernels `mju_polyForce_damper`, `mjd_xPolyForce_damper` (c2lean, regenerated from the tree),
    through the force laws `damperForce`, `affineActuatorForce` of `MjProof/Model/FDBook.lean`;
  * the hand model of the finite-difference drivers (`stepFD` = `mjd_stepFD` as called by `mjd_transitionFD`,
    `inverseFD` = `mjd_inverseFD`), tied to the unmodified drivers by the trace differential of `checks/c25.py`;
  * the differencing helpers `diff`, `clampedDiff`, `clampedStateDiff`.

PARTIAL (stated in checks/c25.py META): `mjd_rne_vel`, the fluid derivatives, the muscle-gain derivative and the
numerical content of the FD Jacobians are decided by the property oracle only.
-/
set_option linter.unusedVariables false
set_option linter.unusedSimpArgs false
set_option linter.unusedTactic false
set_option linter.unreachableTactic false
namespace MjProof.C25
open MjProof MjProof.Gen MjProof.FDBook

/-! ### velocity derivatives of the scalar force laws -/

/-- `x ↦ x |x|` is differentiable everywhere, with derivative `2 |x|` (also at 0) -/
theorem hasDerivAt_mul_abs (v : ℝ) : HasDerivAt (fun x : ℝ => x * |x|) (2 * |v|) v := by
  rcases lt_trichotomy v 0 with h | h | h
  · have hsq : HasDerivAt (fun x : ℝ => x ^ 2) (2 * v) v := by
      simpa using hasDerivAt_pow 2 v
    have h1 : HasDerivAt (fun x : ℝ => -(x ^ 2)) (-(2 * v)) v := hsq.neg
    have e : (fun x : ℝ => x * |x|) =ᶠ[nhds v] fun x => -(x ^ 2) := by
      filter_upwards [Iio_mem_nhds h] with x hx
      rw [abs_of_neg hx]; ring
    have h2 := h1.congr_of_eventuallyEq e
    have hv : 2 * |v| = -(2 * v) := by rw [abs_of_neg h]; ring
    rw [hv]
    exact h2
  · subst h
    have key : HasDerivAt (fun x : ℝ => x * |x|) 0 0 := by
      rw [hasDerivAt_iff_tendsto_slope_zero]
      have e : (fun t : ℝ => |t|) =ᶠ[nhdsWithin 0 {0}ᶜ]
          (fun t : ℝ => t⁻¹ • ((0 + t) * |0 + t| - 0 * |(0:ℝ)|)) := by
        filter_upwards [self_mem_nhdsWithin] with t ht
        have ht' : t ≠ 0 := ht
        simp only [zero_add, abs_zero, mul_zero, sub_zero, smul_eq_mul]
        field_simp
      refine Filter.Tendsto.congr' e ?_
      have h0 : Filter.Tendsto (fun t : ℝ => |t|) (nhds 0) (nhds |(0:ℝ)|) := continuous_abs.tendsto 0
      rw [abs_zero] at h0
      exact h0.mono_left nhdsWithin_le_nhds
    simpa using key
  · have h1 : HasDerivAt (fun x : ℝ => x ^ 2) (2 * v) v := by
      simpa using hasDerivAt_pow 2 v
    have e : (fun x : ℝ => x * |x|) =ᶠ[nhds v] fun x => x ^ 2 := by
      filter_upwards [Ioi_mem_nhds h] with x hx
      rw [abs_of_pos hx]; ring
    have h2 := h1.congr_of_eventuallyEq e
    rw [abs_of_pos h]
    exact h2

theorem damperForce_eq (b p0 p1 v : ℝ) : damperForce b p0 p1 v = -(b * v + p0 * (v * |v|) + p1 * v ^ 3) := by
  have h : |v| * |v| = v * v := abs_mul_abs_self v
  simp only [damperForce, mju_polyForce_damper, real_abs, real_ofInt, Int.cast_one]
  linear_combination (-(v * p1)) * h

theorem damperForceVel_eq (b p0 p1 v : ℝ) : damperForceVel b p0 p1 v = -(b + 2 * p0 * |v| + 3 * p1 * v ^ 2) := by
  have h : |v| * |v| = v * v := abs_mul_abs_self v
  simp only [damperForceVel, mjd_xPolyForce_damper, real_abs, real_ofInt, Int.cast_one, Int.cast_ofNat]
  linear_combination (-(3 * p1)) * h

/-- the damper force as coded (`-v * mju_polyForce(b, poly, v, 2, 1)`, generated kernel) has velocity derivative
`-mjd_xPolyForce(b, poly, v, 2, 1)` (generated kernel) at EVERY velocity, including `v = 0` where `|v|` has a kink:
the diagonal term `mjd_passive_vel` subtracts from qDeriv is the exact derivative -/
theorem polyForce_deriv (b p0 p1 v : ℝ) :
    HasDerivAt (fun x => damperForce b p0 p1 x) (damperForceVel b p0 p1 v) v := by
  have hf : (fun x => damperForce b p0 p1 x) = fun x => -(b * x + p0 * (x * |x|) + p1 * x ^ 3) := by
    funext x; exact damperForce_eq b p0 p1 x
  rw [hf, damperForceVel_eq]
  have h1 : HasDerivAt (fun x : ℝ => b * x) b v := by simpa using (hasDerivAt_id v).const_mul b
  have h2 : HasDerivAt (fun x : ℝ => p0 * (x * |x|)) (p0 * (2 * |v|)) v := (hasDerivAt_mul_abs v).const_mul p0
  have h3 : HasDerivAt (fun x : ℝ => p1 * x ^ 3) (p1 * (3 * v ^ 2)) v := by
    simpa using (hasDerivAt_pow 3 v).const_mul p1
  have h : HasDerivAt (fun x : ℝ => -(b * x + p0 * (x * |x|) + p1 * x ^ 3))
      (-(b + p0 * (2 * |v|) + p1 * (3 * v ^ 2))) v := ((h1.add h2).add h3).neg
  have hv : -(b + 2 * p0 * |v| + 3 * p1 * v ^ 2) = -(b + p0 * (2 * |v|) + p1 * (3 * v ^ 2)) := by ring
  rw [hv]
  exact h

/-- the affine actuator force of `mj_fwdActuation`, `(g0 + g1 l + g2 v) u + b0 + b1 l + b2 v`, has velocity derivative
`b2 + g2 u`: what `mjd_actuator_vel` computes as `bias_vel` for an affine gain and bias.  (`u` is the control / activation
the force law actually uses, i.e. after the clamp to ctrlrange.) -/
theorem affine_actuator_vel_deriv (g0 g1 g2 b0 b1 b2 len u v : ℝ) :
    HasDerivAt (fun x => affineActuatorForce g0 g1 g2 b0 b1 b2 len x u) (affineActuatorForceVel g2 b2 u) v := by
  have hf : (fun x => affineActuatorForce g0 g1 g2 b0 b1 b2 len x u) =
      fun x => ((g0 + g1 * len) * u + (b0 + b1 * len)) + (b2 + g2 * u) * x := by
    funext x; simp only [affineActuatorForce]; ring
  rw [hf]
  have h := ((hasDerivAt_id v).const_mul (b2 + g2 * u)).const_add ((g0 + g1 * len) * u + (b0 + b1 * len))
  simpa [affineActuatorForceVel] using h

/-! ### the muscle gain (`mjd_actuator_vel`, gaintype MUSCLE) -/

/-- force-velocity curve of the muscle model as coded -/
noncomputable def FV (y p8 my V : ℝ) : ℝ :=
  if V ≤ -1 then 0 else if V ≤ 0 then (V + 1) * (V + 1) else if V ≤ y then p8 - (y - V) * (y - V) / my else p8
noncomputable def dFV (y my V : ℝ) : ℝ :=
  if V ≤ -1 then 0 else if V ≤ 0 then 2 * V + 2 else if V ≤ y then (-2 * V + 2 * y) / my else 0

theorem FV_deriv (y p8 my V : ℝ) (h1 : V ≠ -1) (h2 : V ≠ 0) (h3 : V ≠ y) :
    HasDerivAt (FV y p8 my) (dFV y my V) V := by
  unfold dFV
  by_cases c1 : V ≤ -1
  · have hlt : V < -1 := lt_of_le_of_ne c1 h1
    rw [if_pos c1]
    have e : FV y p8 my =ᶠ[nhds V] fun _ => (0:ℝ) := by
      filter_upwards [Iio_mem_nhds hlt] with x hx
      have hx' : x ≤ -1 := le_of_lt hx
      simp [FV, hx']
    exact (hasDerivAt_const V (0:ℝ)).congr_of_eventuallyEq e
  · rw [if_neg c1]
    have g1 : -1 < V := not_le.mp c1
    by_cases c2 : V ≤ 0
    · have hlt : V < 0 := lt_of_le_of_ne c2 h2
      rw [if_pos c2]
      have e : FV y p8 my =ᶠ[nhds V] fun x => (x + 1) * (x + 1) := by
        filter_upwards [Ioo_mem_nhds g1 hlt] with x hx
        simp [FV, not_le.mpr hx.1, le_of_lt hx.2]
      have hd : HasDerivAt (fun x : ℝ => (x + 1) * (x + 1)) (2 * V + 2) V := by
        have hd0 := ((hasDerivAt_id' V).add_const (1:ℝ)).mul ((hasDerivAt_id' V).add_const (1:ℝ))
        have hv : 2 * V + 2 = 1 * (V + 1) + (V + 1) * 1 := by ring
        rw [hv]; exact hd0
      exact hd.congr_of_eventuallyEq e
    · rw [if_neg c2]
      have g2 : 0 < V := not_le.mp c2
      by_cases c3 : V ≤ y
      · have hlt : V < y := lt_of_le_of_ne c3 h3
        rw [if_pos c3]
        have e : FV y p8 my =ᶠ[nhds V] fun x => p8 - (y - x) * (y - x) / my := by
          filter_upwards [Ioo_mem_nhds g2 hlt] with x hx
          have : ¬ x ≤ -1 := by linarith [hx.1]
          simp [FV, this, not_le.mpr hx.1, le_of_lt hx.2]
        have hd : HasDerivAt (fun x : ℝ => p8 - (y - x) * (y - x) / my) ((-2 * V + 2 * y) / my) V := by
          have hyx : HasDerivAt (fun x : ℝ => y - x) (-1) V := (hasDerivAt_id' V).const_sub y
          have hd0 := ((hyx.mul hyx).div_const my).const_sub p8
          have hv : (-2 * V + 2 * y) / my = -(((-1) * (y - V) + (y - V) * (-1)) / my) := by ring
          rw [hv]; exact hd0
        exact hd.congr_of_eventuallyEq e
      · rw [if_neg c3]
        have g3 : y < V := not_le.mp c3
        have e : FV y p8 my =ᶠ[nhds V] fun _ => p8 := by
          filter_upwards [Ioi_mem_nhds g3, Ioi_mem_nhds g2] with x hx hx0
          have a1 : ¬ x ≤ -1 := by have : (0:ℝ) < x := hx0; linarith
          have a2 : ¬ x ≤ 0 := not_le.mpr hx0
          have a3 : ¬ x ≤ y := not_le.mpr hx
          simp [FV, a1, a2, a3]
        exact (hasDerivAt_const V p8).congr_of_eventuallyEq e

noncomputable def minv : ℝ := (MjNum.ofSci 10000000000000001 true 31 : ℝ)
noncomputable def clampMin (x : ℝ) : ℝ := if x < minv then minv else x

theorem mju_max_minv (x : ℝ) : mju_max minv x = clampMin x := by
  unfold mju_max clampMin
  by_cases h : x ≤ minv
  · have h' : @LE.le ℝ MjNum.toLE x minv := h
    rw [if_pos h']
    by_cases h2 : x < minv
    · rw [if_pos h2]
    · rw [if_neg h2]; exact le_antisymm (not_lt.mp h2) h
  · have h' : ¬ @LE.le ℝ MjNum.toLE x minv := h
    rw [if_neg h', if_neg (fun hh => h (le_of_lt hh))]

noncomputable def mK (len lr0 lr1 acc0 p0 p1 p2 p3 p4 p5 : ℝ) : ℝ :=
  let force := if p2 < 0 then p3 / clampMin acc0 else p2
  let L0 := (lr1 - lr0) / clampMin (p1 - p0)
  let L := p0 + (len - lr0) / clampMin L0
  (-force) * mju_muscleGainLength L p4 p5
noncomputable def mC (lr0 lr1 p0 p1 p6 : ℝ) : ℝ := clampMin ((lr1 - lr0) / clampMin (p1 - p0) * p6)

theorem muscleGain_eq (len v lr0 lr1 acc0 p0 p1 p2 p3 p4 p5 p6 p8 : ℝ) :
    mju_muscleGain len v lr0 lr1 acc0 p0 p1 p2 p3 p4 p5 p6 p8 =
      mK len lr0 lr1 acc0 p0 p1 p2 p3 p4 p5 * FV (p8 - 1) p8 (clampMin (p8 - 1)) (v / mC lr0 lr1 p0 p1 p6) := by
  simp only [mju_muscleGain, mK, mC, FV, clampMin, minv, real_ofInt, real_lt_iff, real_le_iff, decide_eq_true_eq,
    Int.cast_zero, Int.cast_one, Int.cast_neg]
  rfl

theorem muscleGain_vel_eq (len v lr0 lr1 acc0 p0 p1 p2 p3 p4 p5 p6 p8 : ℝ) :
    mjd_muscleGain_vel len v lr0 lr1 acc0 p0 p1 p2 p3 p4 p5 p6 p8 =
      mK len lr0 lr1 acc0 p0 p1 p2 p3 p4 p5 * dFV (p8 - 1) (clampMin (p8 - 1)) (v / mC lr0 lr1 p0 p1 p6) /
        mC lr0 lr1 p0 p1 p6 := by
  have e := mju_max_minv
  simp only [minv] at e
  simp only [mjd_muscleGain_vel, e, mK, mC, dFV, real_ofInt, real_lt_iff, real_le_iff, decide_eq_true_eq,
    Int.cast_zero, Int.cast_one, Int.cast_neg, Int.cast_ofNat]
  rfl

/-- **the muscle gain derivative**: the generated `mjd_muscleGain_vel` is the velocity derivative of the generated
`mju_muscleGain` at every velocity whose normalised value `V = vel / max(mjMINVAL, L0 vmax)` is not one of the three
breakpoints `-1, 0, fvmax - 1` of the force-velocity curve (all parameter values, including the mjMINVAL clamps and the
`force < 0` scaling branch) -/
theorem muscleGain_vel_deriv (len vel lr0 lr1 acc0 p0 p1 p2 p3 p4 p5 p6 p8 : ℝ)
    (h1 : vel / mC lr0 lr1 p0 p1 p6 ≠ -1) (h2 : vel / mC lr0 lr1 p0 p1 p6 ≠ 0)
    (h3 : vel / mC lr0 lr1 p0 p1 p6 ≠ p8 - 1) :
    HasDerivAt (fun v => mju_muscleGain len v lr0 lr1 acc0 p0 p1 p2 p3 p4 p5 p6 p8)
      (mjd_muscleGain_vel len vel lr0 lr1 acc0 p0 p1 p2 p3 p4 p5 p6 p8) vel := by
  have hf : (fun v => mju_muscleGain len v lr0 lr1 acc0 p0 p1 p2 p3 p4 p5 p6 p8) =
      fun v => mK len lr0 lr1 acc0 p0 p1 p2 p3 p4 p5 *
        FV (p8 - 1) p8 (clampMin (p8 - 1)) (v / mC lr0 lr1 p0 p1 p6) :=
    funext fun v => muscleGain_eq len v lr0 lr1 acc0 p0 p1 p2 p3 p4 p5 p6 p8
  rw [hf, muscleGain_vel_eq]
  have hdiv : HasDerivAt (fun v : ℝ => v / mC lr0 lr1 p0 p1 p6) (1 / mC lr0 lr1 p0 p1 p6) vel :=
    (hasDerivAt_id' vel).div_const _
  have hcomp := (FV_deriv (p8 - 1) p8 (clampMin (p8 - 1)) _ h1 h2 h3).comp vel hdiv
  have hfin := hcomp.const_mul (mK len lr0 lr1 acc0 p0 p1 p2 p3 p4 p5)
  have hv : mK len lr0 lr1 acc0 p0 p1 p2 p3 p4 p5 * dFV (p8 - 1) (clampMin (p8 - 1)) (vel / mC lr0 lr1 p0 p1 p6) /
      mC lr0 lr1 p0 p1 p6 = mK len lr0 lr1 acc0 p0 p1 p2 p3 p4 p5 *
        (dFV (p8 - 1) (clampMin (p8 - 1)) (vel / mC lr0 lr1 p0 p1 p6) * (1 / mC lr0 lr1 p0 p1 p6)) := by ring
  rw [hv]
  exact hfin

theorem minv_lt_one : minv < 1 := by
  simp only [minv, real_ofSci]; norm_num

example : (1:ℝ) / 2 / mC 0 1 0 1 1 ≠ -1 ∧ (1:ℝ) / 2 / mC 0 1 0 1 1 ≠ 0 ∧ (1:ℝ) / 2 / mC 0 1 0 1 1 ≠ 2 - 1 := by
  have h : mC 0 1 0 1 1 = 1 := by
    have := minv_lt_one
    simp only [mC, clampMin, sub_zero, if_neg (not_lt.mpr (le_of_lt this)), div_one, mul_one]
  rw [h]; norm_num

/-! ### `mj_getState` / `mj_setState` -/

section State
variable {α : Type}

@[simp] theorem set_get (d : Data α) (f g : Fld) (v : List α) :
    (d.set f v) g = if g = f then v else d g := rfl

/-- fields outside the saved specification are untouched by `mj_setState` -/
theorem setState_of_not_mem (d : Data α) (saved : List (Fld × List α)) (f : Fld)
    (h : f ∉ saved.map Prod.fst) : (setState d saved) f = d f := by
  induction saved generalizing d with
  | nil => rfl
  | cons p rest ih =>
    simp only [List.map_cons, List.mem_cons, not_or] at h
    simp only [setState, List.foldl_cons]
    have := ih (d.set p.1 p.2) h.2
    simp only [setState] at this
    rw [this, set_get, if_neg h.1]

/-- restoring a saved state gives back the saved value of every field of the specification -/
theorem setState_getState_of_mem (d d0 : Data α) (spec : List Fld) (f : Fld) (h : f ∈ spec) :
    (setState d (getState d0 spec)) f = d0 f := by
  induction spec generalizing d with
  | nil => simp at h
  | cons g rest ih =>
    simp only [getState, List.map_cons, setState, List.foldl_cons]
    by_cases hr : f ∈ rest
    · have := ih (d.set g (d0 g)) hr
      simpa [getState, setState] using this
    · have hfg : f = g := by
        rcases List.mem_cons.mp h with h | h
        · exact h
        · exact absurd h hr
      subst hfg
      have hn : f ∉ (getState d0 rest).map Prod.fst := by
        simpa [getState, List.map_map, Function.comp] using hr
      have := setState_of_not_mem (d.set f (d0 f)) (getState d0 rest) f hn
      simp only [setState, getState] at this
      rw [this, set_get, if_pos rfl]

end State

/-! ### `mjd_transitionFD` leaves the state unchanged -/

section StepFD
variable {α : Type} [MjNum α]

/-- agreement with the input on a set of fields -/
def Agree (S : List Fld) (d d0 : Data α) : Prop := ∀ f ∈ S, d f = d0 f

theorem perturbStep_agree (e : Env α) (c : Cfg α) (d0 d : Data α) (stage : Nat) (sk : Bool) (f : Fld)
    (upd : List α → List α) :
    Agree (restoreSpec c) (perturbStep e (getState d0 (restoreSpec c)) stage sk f upd d) d0 := by
  intro g hg
  exact setState_getState_of_mem _ d0 _ g hg

theorem foldl_agree {β : Type} (S : List Fld) (d0 : Data α) (body : Data α → β → Data α)
    (hbody : ∀ d x, Agree S d d0 → Agree S (body d x) d0) (l : List β) (d : Data α) (hd : Agree S d d0) :
    Agree S (l.foldl body d) d0 := by
  induction l generalizing d with
  | nil => exact hd
  | cons x xs ih => exact ih _ (hbody d x hd)

theorem ctrlLoop_agree (e : Env α) (c : Cfg α) (d0 d : Data α) (sk : Bool) (ctrl : List α)
    (hd : Agree (restoreSpec c) d d0) :
    Agree (restoreSpec c) (ctrlLoop e c (getState d0 (restoreSpec c)) sk ctrl d) d0 := by
  unfold ctrlLoop
  split
  · refine foldl_agree _ d0 _ ?_ _ _ hd
    intro d x hd
    simp only [ctrlIter]
    split
    · exact perturbStep_agree e c d0 _ _ _ _ _
    · split
      · exact perturbStep_agree e c d0 _ _ _ _ _
      · exact hd
  · exact hd

theorem plainIter_agree (e : Env α) (c : Cfg α) (d0 d : Data α) (sk : Bool) (stage : Nat) (f : Fld) (i : Nat) :
    Agree (restoreSpec c) (plainIter e c (getState d0 (restoreSpec c)) sk stage f d i) d0 := by
  unfold plainIter
  split
  · exact perturbStep_agree e c d0 _ _ _ _ _
  · exact perturbStep_agree e c d0 _ _ _ _ _

theorem actLoop_agree (e : Env α) (c : Cfg α) (d0 d : Data α) (sk : Bool) (na : Nat)
    (hd : Agree (restoreSpec c) d d0) :
    Agree (restoreSpec c) (actLoop e c (getState d0 (restoreSpec c)) sk na d) d0 := by
  unfold actLoop
  split
  · exact foldl_agree _ d0 _ (fun d x _ => plainIter_agree e c d0 d sk _ _ x) _ _ hd
  · exact hd

theorem velLoop_agree (e : Env α) (c : Cfg α) (d0 d : Data α) (sk : Bool) (nv : Nat)
    (hd : Agree (restoreSpec c) d d0) :
    Agree (restoreSpec c) (velLoop e c (getState d0 (restoreSpec c)) sk nv d) d0 := by
  unfold velLoop
  split
  · exact foldl_agree _ d0 _ (fun d x _ => plainIter_agree e c d0 d sk _ _ x) _ _ hd
  · exact hd

theorem posLoop_agree (e : Env α) (c : Cfg α) (d0 d : Data α) (sk : Bool) (nv : Nat)
    (hd : Agree (restoreSpec c) d d0) :
    Agree (restoreSpec c) (posLoop e c (getState d0 (restoreSpec c)) sk nv d) d0 := by
  unfold posLoop
  split
  · refine foldl_agree _ d0 _ ?_ _ _ hd
    intro d x _
    unfold posIter
    split
    · exact perturbStep_agree e c d0 _ _ _ _ _
    · exact perturbStep_agree e c d0 _ _ _ _ _
  · exact hd

/-- **`mjd_transitionFD` restores every perturbed field.**  For every stand-in for `mj_stepSkip` and `mj_integratePos`
(arbitrary functions), every configuration and every input data, the mjData left behind by the modelled `mjd_stepFD`
agrees with the input on every field of `restore_spec`: time, qpos, qvel, act, history, plugin state, ctrl, and
qacc_warmstart unless warmstart is disabled -/
theorem fd_restores_state (e : Env α) (c : Cfg α) (d0 d' : Data α) (h : stepFD e c d0 = some d') :
    ∀ f ∈ restoreSpec c, d' f = d0 f := by
  unfold stepFD at h
  split at h
  · exact absurd h (by simp)
  · simp only [Option.some.injEq] at h
    subst h
    have base : Agree (restoreSpec c) (setState (e.step stageNone
        (!c.dsDq && !c.dsDv && !c.dsDa && !c.dsDu) d0) (getState d0 (restoreSpec c))) d0 :=
      fun g hg => setState_getState_of_mem _ d0 _ g hg
    exact posLoop_agree e c d0 _ _ _ (velLoop_agree e c d0 _ _ _ (actLoop_agree e c d0 _ _ _
      (ctrlLoop_agree e c d0 _ _ _ base)))

example : stepFD (α := ℝ) ⟨fun _ _ d => d.set .qvel [], fun l _ _ => l⟩
    ⟨1, true, true, true, true, true, true, true, true, true, false, []⟩ ⟨fun _ => []⟩ ≠ none := by
  simp [stepFD]

/-- fields outside `restore_spec` are not restored by the driver, so they are preserved exactly when the step
stand-in leaves them alone (as `mj_step` does for the user inputs qfrc_applied, xfrc_applied, mocap, userdata,
eq_active): for such a field the result agrees with the input -/
theorem fd_preserves_untouched_inputs (e : Env α) (c : Cfg α) (d0 d' : Data α) (g : Fld)
    (hg : g ∉ restoreSpec c) (hstep : ∀ stage sk d, (e.step stage sk d) g = d g)
    (h : stepFD e c d0 = some d') : d' g = d0 g := by
  have hgs : g ∉ (getState d0 (restoreSpec c)).map Prod.fst := by
    simpa [getState, List.map_map, Function.comp] using hg
  have hne : ∀ f ∈ [Fld.ctrl, Fld.act, Fld.qvel, Fld.qpos], g ≠ f := by
    intro f hf hgf
    subst hgf
    apply hg
    simp only [restoreSpec, List.mem_append, List.mem_cons] at hf ⊢
    rcases hf with h | h | h | h | h <;> simp_all
  have hP : ∀ (stage : Nat) (sk : Bool) (f : Fld) (upd : List α → List α) (d : Data α),
      f ∈ [Fld.ctrl, Fld.act, Fld.qvel, Fld.qpos] → d g = d0 g →
      (perturbStep e (getState d0 (restoreSpec c)) stage sk f upd d) g = d0 g := by
    intro stage sk f upd d hf hd
    unfold perturbStep
    rw [setState_of_not_mem _ _ _ hgs, hstep, set_get, if_neg (hne f hf), hd]
  have hfold : ∀ {β : Type} (body : Data α → β → Data α) (hb : ∀ d x, d g = d0 g → (body d x) g = d0 g)
      (l : List β) (d : Data α), d g = d0 g → (l.foldl body d) g = d0 g := by
    intro β body hb l
    induction l with
    | nil => intro d hd; exact hd
    | cons x xs ih => intro d hd; exact ih _ (hb d x hd)
  unfold stepFD at h
  split at h
  · exact absurd h (by simp)
  · simp only [Option.some.injEq] at h
    subst h
    have base : (setState (e.step stageNone (!c.dsDq && !c.dsDv && !c.dsDa && !c.dsDu) d0)
        (getState d0 (restoreSpec c))) g = d0 g := by
      rw [setState_of_not_mem _ _ _ hgs, hstep]
    have hplain : ∀ (sk : Bool) (stage : Nat) (f : Fld), f ∈ [Fld.ctrl, Fld.act, Fld.qvel, Fld.qpos] →
        ∀ (d : Data α) (i : Nat), d g = d0 g →
        (plainIter e c (getState d0 (restoreSpec c)) sk stage f d i) g = d0 g := by
      intro sk stage f hf d i hd
      unfold plainIter
      split
      · exact hP _ _ _ _ _ hf (hP _ _ _ _ _ hf hd)
      · exact hP _ _ _ _ _ hf hd
    have s1 : (ctrlLoop e c (getState d0 (restoreSpec c)) (!c.dsDq && !c.dsDv && !c.dsDa && !c.dsDu) (d0 .ctrl)
        (setState (e.step stageNone (!c.dsDq && !c.dsDv && !c.dsDa && !c.dsDu) d0)
          (getState d0 (restoreSpec c)))) g = d0 g := by
      unfold ctrlLoop
      split
      · refine hfold _ ?_ _ _ base
        intro d x hd
        simp only [ctrlIter]
        split
        · exact hP _ _ _ _ _ (by simp) (by split; exact hP _ _ _ _ _ (by simp) hd; exact hd)
        · split
          · exact hP _ _ _ _ _ (by simp) hd
          · exact hd
      · exact base
    have s2 := (show (actLoop e c (getState d0 (restoreSpec c)) (!c.dsDq && !c.dsDv && !c.dsDa && !c.dsDu)
        (d0 .act).length _) g = d0 g from by
      unfold actLoop
      split
      · exact hfold _ (fun d x hd => hplain _ _ _ (by simp) d x hd) _ _ s1
      · exact s1)
    have s3 := (show (velLoop e c (getState d0 (restoreSpec c)) (!c.dsDq && !c.dsDv && !c.dsDa && !c.dsDu)
        (d0 .qvel).length _) g = d0 g from by
      unfold velLoop
      split
      · exact hfold _ (fun d x hd => hplain _ _ _ (by simp) d x hd) _ _ s2
      · exact s2)
    unfold posLoop
    split
    · refine hfold _ ?_ _ _ s3
      intro d x hd
      unfold posIter
      split
      · exact hP _ _ _ _ _ (by simp) (hP _ _ _ _ _ (by simp) hd)
      · exact hP _ _ _ _ _ (by simp) hd
    · exact s3

end StepFD

/-! ### `mjd_inverseFD` leaves its inputs unchanged -/

section InverseFD
variable {α : Type} [MjNum α]

theorem setAt_nudge (l : List α) (i : Nat) (e x : α) (h : l[i]? = some x) : setAt (nudge l i e) i x = l := by
  induction l generalizing i with
  | nil => simp at h
  | cons y ys ih =>
    cases i with
    | zero =>
      simp only [List.getElem?_cons_zero, Option.some.injEq] at h
      subst h; rfl
    | succ i =>
      simp only [List.getElem?_cons_succ] at h
      simp only [nudge, setAt, ih i h]

/-- the three inputs of inverse dynamics are as in the input data -/
def Kept (d0 : Data α) (od : Option (Data α)) : Prop :=
  ∃ d, od = some d ∧ d .qpos = d0 .qpos ∧ d .qvel = d0 .qvel ∧ d .qacc = d0 .qacc

theorem foldl_kept {β : Type} (d0 : Data α) (body : Option (Data α) → β → Option (Data α)) (l : List β)
    (hb : ∀ x ∈ l, ∀ od, Kept d0 od → Kept d0 (body od x)) (od : Option (Data α)) (h : Kept d0 od) :
    Kept d0 (l.foldl body od) := by
  induction l generalizing od with
  | nil => exact h
  | cons x xs ih =>
    exact ih (fun y hy => hb y (List.mem_cons_of_mem _ hy)) _ (hb x (List.mem_cons_self) od h)

/-- **`mjd_inverseFD` restores qpos, qvel and qacc**, for every stand-in for `inverseSkip` (mj_inverseSkip, optionally
followed by mj_fwdActuation) that leaves those three arrays alone — the frame condition of inverse dynamics, checked on
the real code by the state hashes of the oracle — and every stand-in for `mj_integratePos`, every configuration -/
theorem fd_restores_state_inverse (e : InvEnv α) (c : InvCfg α) (d0 : Data α)
    (hframe : ∀ stage sk d, (e.inv stage sk d) .qpos = d .qpos ∧ (e.inv stage sk d) .qvel = d .qvel ∧
      (e.inv stage sk d) .qacc = d .qacc)
    (hlen : (d0 .qacc).length = (d0 .qvel).length) :
    ∃ d', inverseFD e c d0 = some d' ∧ d' .qpos = d0 .qpos ∧ d' .qvel = d0 .qvel ∧ d' .qacc = d0 .qacc := by
  have helem : ∀ (sk : Bool) (stage : Nat) (f : Fld), (f = .qacc ∨ f = .qvel) →
      ∀ i ∈ List.range (d0 .qvel).length, ∀ od, Kept d0 od → Kept d0 (elemIter e c sk stage f od i) := by
    intro sk stage f hf i hi od ⟨d, hod, hq, hv, ha⟩
    subst hod
    have hi' : i < (d0 .qvel).length := List.mem_range.mp hi
    have hlf : i < (d f).length := by
      rcases hf with rfl | rfl
      · rw [ha, hlen]; exact hi'
      · rw [hv]; exact hi'
    obtain ⟨tmp, htmp⟩ : ∃ t, (d f)[i]? = some t := ⟨(d f)[i], List.getElem?_eq_getElem hlf⟩
    obtain ⟨f1, f2, f3⟩ := hframe stage sk (d.set f (nudge (d f) i c.eps))
    refine ⟨(e.inv stage sk (d.set f (nudge (d f) i c.eps))).set f
      (setAt ((e.inv stage sk (d.set f (nudge (d f) i c.eps))) f) i tmp), by simp [elemIter, htmp], ?_, ?_, ?_⟩
    · rcases hf with rfl | rfl <;> simp [f1, hq]
    · rcases hf with rfl | rfl
      · simp [f2, hv]
      · simp only [set_get, if_true]
        rw [f2, set_get, if_pos rfl, setAt_nudge _ _ _ _ htmp, hv]
    · rcases hf with rfl | rfl
      · simp only [set_get, if_true]
        rw [f3, set_get, if_pos rfl, setAt_nudge _ _ _ _ htmp, ha]
      · simp [f3, ha]
  have hpos : ∀ (sk : Bool) (i : Nat) od, Kept d0 od → Kept d0 (invPosIter e c sk (d0 .qpos) od i) := by
    intro sk i od ⟨d, hod, hq, hv, ha⟩
    subst hod
    obtain ⟨f1, f2, f3⟩ := hframe stageNone sk (d.set .qpos (e.integratePos (d .qpos) i c.eps))
    refine ⟨(e.inv stageNone sk (d.set .qpos (e.integratePos (d .qpos) i c.eps))).set .qpos (d0 .qpos),
      by simp [invPosIter], ?_, ?_, ?_⟩
    · simp
    · simp [f2, hv]
    · simp [f3, ha]
  obtain ⟨g1, g2, g3⟩ := hframe stageNone (!c.dsDq && !c.dsDv && !c.dsDa) d0
  have k0 : Kept d0 (some (e.inv stageNone (!c.dsDq && !c.dsDv && !c.dsDa) d0)) := ⟨_, rfl, g1, g2, g3⟩
  have l1 : ∀ (sk : Bool) od, Kept d0 od → Kept d0 (accLoop e c sk (d0 .qvel).length od) := by
    intro sk od hk
    unfold accLoop
    split
    · exact foldl_kept d0 _ _ (fun i hi od h => helem _ _ _ (Or.inl rfl) i hi od h) _ hk
    · exact hk
  have l2 : ∀ (sk : Bool) od, Kept d0 od → Kept d0 (invVelLoop e c sk (d0 .qvel).length od) := by
    intro sk od hk
    unfold invVelLoop
    split
    · exact foldl_kept d0 _ _ (fun i hi od h => helem _ _ _ (Or.inr rfl) i hi od h) _ hk
    · exact hk
  have l3 : ∀ (sk : Bool) od, Kept d0 od → Kept d0 (invPosLoop e c sk (d0 .qvel).length (d0 .qpos) od) := by
    intro sk od hk
    unfold invPosLoop
    split
    · exact foldl_kept d0 _ _ (fun i _ od h => hpos _ i od h) _ hk
    · exact hk
  have k3 := l3 (!c.dsDq && !c.dsDv && !c.dsDa) _ (l2 (!c.dsDq && !c.dsDv && !c.dsDa) _
    (l1 (!c.dsDq && !c.dsDv && !c.dsDa) _ k0))
  have key : Kept d0 (inverseFD e c d0) := k3
  obtain ⟨d, hd, h1, h2, h3⟩ := key
  exact ⟨d, hd, h1, h2, h3⟩

example : ∃ d', inverseFD (α := ℝ) ⟨fun _ _ d => d.set .derived [1], fun l i h => nudge l i h⟩
    ⟨1, true, true, true, false, false, false, false⟩ ⟨fun f => if f = .derived then [] else [0, 0]⟩ = some d' ∧
    d' .qacc = [0, 0] :=
  let ⟨d, h, _, _, h3⟩ := fd_restores_state_inverse (α := ℝ) ⟨fun _ _ d => d.set .derived [1], fun l i h => nudge l i h⟩
    ⟨1, true, true, true, false, false, false, false⟩ ⟨fun f => if f = .derived then [] else [0, 0]⟩
    (by intro _ _ d; simp) (by simp)
  ⟨d, h, by simpa using h3⟩

/-- the frame condition is needed: the driver restores only the element it nudged, so an evaluation that itself
changes qacc leaves a changed qacc behind -/
theorem fd_inverse_frame_needed :
    ∃ (e : InvEnv ℝ) (c : InvCfg ℝ) (d0 d' : Data ℝ), inverseFD e c d0 = some d' ∧ d' .qacc ≠ d0 .qacc := by
  refine ⟨⟨fun _ _ d => d.set .qacc ((d .qacc).map (· + 1)), fun l _ _ => l⟩,
    ⟨1, false, false, false, false, false, false, false⟩, ⟨fun _ => [0]⟩, _, rfl, ?_⟩
  simp [inverseFD, accLoop, invVelLoop, invPosLoop]

end InverseFD

/-! ### the differencing helpers on affine maps -/

theorem diff_real (x1 x2 : List ℝ) (h : ℝ) :
    diff x1 x2 h = List.zipWith (fun a b => 1 / h * (b - a)) x1 x2 := by
  simp only [diff, real_ofInt, Int.cast_one]

/-- the values of the affine maps `t ↦ a t + b`, one per row `(a, b)`, at the point `t` -/
def affAt (L : List (ℝ × ℝ)) (t : ℝ) : List ℝ := L.map fun p => p.1 * t + p.2

theorem diff_affAt (L : List (ℝ × ℝ)) (s t h : ℝ) (hh : h ≠ 0) (hst : t - s = h) :
    diff (affAt L s) (affAt L t) h = L.map Prod.fst := by
  rw [diff_real]
  induction L with
  | nil => rfl
  | cons p ps ih =>
    simp only [affAt, List.map_cons, List.zipWith_cons_cons] at ih ⊢
    rw [ih]
    congr 1
    have : p.1 * t + p.2 - (p.1 * s + p.2) = p.1 * h := by rw [← hst]; ring
    rw [this]; field_simp

/-- **finite differences are exact on affine maps**: `diff` (the engine's `(x2 - x1) * (1/h)`) of the values of affine
maps at `x` and `x + h`, and at `x − h` and `x + h` with step `2h`, returns the slopes -/
theorem fd_affine_exact (L : List (ℝ × ℝ)) (x h : ℝ) (hh : h ≠ 0) :
    diff (affAt L x) (affAt L (x + h)) h = L.map Prod.fst ∧
    diff (affAt L (x - h)) (affAt L (x + h)) (2 * h) = L.map Prod.fst :=
  ⟨diff_affAt L _ _ h hh (by ring), diff_affAt L _ _ (2 * h) (by simpa using hh) (by ring)⟩

theorem two_real : (MjNum.ofInt 2 : ℝ) = 2 := by simp [real_ofInt]

/-- `clampedStateDiff` (rows of A, B: next state w.r.t. state / control) is exact on affine maps in all three modes -/
theorem clampedStateDiff_affine_exact (L : List (ℝ × ℝ)) (x h : ℝ) (hh : h ≠ 0) :
    clampedStateDiff (affAt L x) (some (affAt L (x + h))) none h = L.map Prod.fst ∧
    clampedStateDiff (affAt L x) none (some (affAt L (x - h))) h = L.map Prod.fst ∧
    clampedStateDiff (affAt L x) (some (affAt L (x + h))) (some (affAt L (x - h))) h = L.map Prod.fst := by
  refine ⟨?_, ?_, ?_⟩
  · exact diff_affAt L _ _ h hh (by ring)
  · exact diff_affAt L _ _ h hh (by ring)
  · simp only [clampedStateDiff, two_real]
    exact diff_affAt L _ _ (2 * h) (by simpa using hh) (by ring)

/-- `clampedDiff` (rows of D: sensors w.r.t. control) is exact on affine maps in all three modes: forward, backward
and centred (`diff(dx, x_minus, x_plus, 2*h, nx)`).  Before /repo commit 8c58e7e22 the centred branch had its arguments
swapped and returned the negated slopes; the oracle keeps probing for that (key `c25:transitionFD:D-centered-sign`). -/
theorem clampedDiff_affine_exact (L : List (ℝ × ℝ)) (x h : ℝ) (hh : h ≠ 0) :
    clampedDiff (affAt L x) (some (affAt L (x + h))) none h = L.map Prod.fst ∧
    clampedDiff (affAt L x) none (some (affAt L (x - h))) h = L.map Prod.fst ∧
    clampedDiff (affAt L x) (some (affAt L (x + h))) (some (affAt L (x - h))) h = L.map Prod.fst := by
  refine ⟨diff_affAt L _ _ h hh (by ring), diff_affAt L _ _ h hh (by ring), ?_⟩
  simp only [clampedDiff, two_real]
  exact diff_affAt L _ _ (2 * h) (by simpa using hh) (by ring)

example : clampedDiff (affAt [(3, 1)] 0) (some (affAt [(3, 1)] 1)) (some (affAt [(3, 1)] (-1))) 1 = [3] := by
  have := (clampedDiff_affine_exact [(3, 1)] 0 1 one_ne_zero).2.2
  simpa using this

/-- the sensor rows and the state rows are differenced the same way: `clampedDiff` and `clampedStateDiff` (on plain
vectors) are the same function -/
theorem clampedDiff_eq_clampedStateDiff (x : List ℝ) (p m : Option (List ℝ)) (h : ℝ) :
    clampedDiff x p m h = clampedStateDiff x p m h := by
  cases p <;> cases m <;> rfl

end MjProof.C25
