import MjProof.Model.FDBook
import MjProof.Lemmas.RealNum
import Mathlib.Analysis.Calculus.Deriv.Mul
import Mathlib.Analysis.Calculus.Deriv.Pow
import Mathlib.Analysis.Calculus.Deriv.Add
import Mathlib.Analysis.Calculus.Deriv.Slope
import Mathlib.Tactic.Ring
import Mathlib.Tactic.Linarith
import Mathlib.Tactic.FieldSimp
/-
C25 — Analytic derivatives match finite differences.

Theorems over ℝ about
  * the *generated* scalar kernels `mju_polyForce_damper`, `mjd_xPolyForce_damper` (c2lean, regenerated from the tree),
    through the force laws `damperForce`, `affineActuatorForce` of `MjProof/Model/FDBook.lean`;
  * the hand model of the finite-difference drivers (`stepFD` = `mjd_stepFD` as called by `mjd_transitionFD`,
    `inverseFD` = `mjd_inverseFD`), tied to the unmodified drivers by the trace differential of `checks/c25.py`;
  * the differencing helpers `diff`, `clampedDiff`, `clampedStateDiff`.

PARTIAL (stated in checks/c25.py META): `mjd_rne_vel`, the fluid derivatives, the muscle-gain derivative and the
numerical content of the FD Jacobians are decided by the property oracle only.
-/
set_option linter.unusedVariables false
set_option linter.unusedSimpArgs false
set_option linter.unusedTactic false
set_option linter.unreachableTactic false
namespace MjProof.C25
open MjProof MjProof.Gen MjProof.FDBook

/-! ### velocity derivatives of the scalar force laws -/

/-- `x ↦ x |x|` is differentiable everywhere, with derivative `2 |x|` (also at 0) -/
theorem hasDerivAt_mul_abs (v : ℝ) : HasDerivAt (fun x : ℝ => x * |x|) (2 * |v|) v := by
  rcases lt_trichotomy v 0 with h | h | h
  · have h1 : HasDerivAt (fun x : ℝ => -(x ^ 2)) (-(2 * v)) v := by
      simpa using (hasDerivAt_pow 2 v).neg
    have e : (fun x : ℝ => x * |x|) =ᶠ[nhds v] fun x => -(x ^ 2) := by
      filter_upwards [Iio_mem_nhds h] with x hx
      rw [abs_of_neg hx]; ring
    have h2 := h1.congr_of_eventuallyEq e
    rw [abs_of_neg h]
    convert h2 using 1; ring
  · subst h
    rw [hasDerivAt_iff_tendsto_slope_zero]
    have e : (fun t : ℝ => t⁻¹ • ((0 + t) * |0 + t| - 0 * |(0:ℝ)|)) =ᶠ[nhdsWithin 0 {0}ᶜ] fun t => |t| := by
      filter_upwards [self_mem_nhdsWithin] with t ht
      have ht' : t ≠ 0 := ht
      simp only [zero_add, abs_zero, mul_zero, sub_zero, smul_eq_mul]
      field_simp
    rw [abs_zero, mul_zero]
    refine Filter.Tendsto.congr' e.symm ?_
    have : Filter.Tendsto (fun t : ℝ => |t|) (nhds 0) (nhds |0|) := (continuous_abs.tendsto 0)
    rw [abs_zero] at this
    exact this.mono_left nhdsWithin_le_nhds
  · have h1 : HasDerivAt (fun x : ℝ => x ^ 2) (2 * v) v := by
      simpa using hasDerivAt_pow 2 v
    have e : (fun x : ℝ => x * |x|) =ᶠ[nhds v] fun x => x ^ 2 := by
      filter_upwards [Ioi_mem_nhds h] with x hx
      rw [abs_of_pos hx]; ring
    have h2 := h1.congr_of_eventuallyEq e
    rw [abs_of_pos h]
    exact h2

theorem damperForce_eq (b p0 p1 v : ℝ) : damperForce b p0 p1 v = -(b * v + p0 * (v * |v|) + p1 * v ^ 3) := by
  simp only [damperForce, mju_polyForce_damper, real_abs, real_ofInt, Int.cast_one]
  have h : |v| * |v| = v * v := abs_mul_abs_self v
  have : v * (b + p0 * (1 * |v|) + p1 * (1 * |v| * |v|)) = b * v + p0 * (v * |v|) + p1 * (v * (|v| * |v|)) := by ring
  rw [this, h]; ring

theorem damperForceVel_eq (b p0 p1 v : ℝ) : damperForceVel b p0 p1 v = -(b + 2 * p0 * |v| + 3 * p1 * v ^ 2) := by
  simp only [damperForceVel, mjd_xPolyForce_damper, real_abs, real_ofInt, Int.cast_one, Int.cast_ofNat]
  have h : |v| * |v| = v * v := abs_mul_abs_self v
  have : b + 2 * p0 * (1 * |v|) + 3 * p1 * (1 * |v| * |v|) = b + 2 * p0 * |v| + 3 * p1 * (|v| * |v|) := by ring
  rw [this, h]; ring

/-- the damper force as coded (`-v * mju_polyForce(b, poly, v, 2, 1)`, generated kernel) has velocity derivative
`-mjd_xPolyForce(b, poly, v, 2, 1)` (generated kernel) at EVERY velocity, including `v = 0` where `|v|` has a kink:
the diagonal term `mjd_passive_vel` subtracts from qDeriv is the exact derivative -/
theorem polyForce_deriv (b p0 p1 v : ℝ) :
    HasDerivAt (fun x => damperForce b p0 p1 x) (damperForceVel b p0 p1 v) v := by
  have hf : (fun x => damperForce b p0 p1 x) = fun x => -(b * x + p0 * (x * |x|) + p1 * x ^ 3) := by
    funext x; exact damperForce_eq b p0 p1 x
  rw [hf, damperForceVel_eq]
  have h1 : HasDerivAt (fun x : ℝ => b * x) b v := by simpa using (hasDerivAt_id v).const_mul b
  have h2 : HasDerivAt (fun x : ℝ => p0 * (x * |x|)) (p0 * (2 * |v|)) v := (hasDerivAt_mul_abs v).const_mul p0
  have h3 : HasDerivAt (fun x : ℝ => p1 * x ^ 3) (p1 * (3 * v ^ 2)) v := by
    simpa using (hasDerivAt_pow 3 v).const_mul p1
  have h := ((h1.add h2).add h3).neg
  convert h using 1
  ring

/-- the affine actuator force of `mj_fwdActuation`, `(g0 + g1 l + g2 v) u + b0 + b1 l + b2 v`, has velocity derivative
`b2 + g2 u`: what `mjd_actuator_vel` computes as `bias_vel` for an affine gain and bias.  (`u` is the control / activation
the force law actually uses, i.e. after the clamp to ctrlrange.) -/
theorem affine_actuator_vel_deriv (g0 g1 g2 b0 b1 b2 len u v : ℝ) :
    HasDerivAt (fun x => affineActuatorForce g0 g1 g2 b0 b1 b2 len x u) (affineActuatorForceVel g2 b2 u) v := by
  have hf : (fun x => affineActuatorForce g0 g1 g2 b0 b1 b2 len x u) =
      fun x => ((g0 + g1 * len) * u + (b0 + b1 * len)) + (b2 + g2 * u) * x := by
    funext x; simp only [affineActuatorForce]; ring
  rw [hf]
  have h := ((hasDerivAt_id v).const_mul (b2 + g2 * u)).const_add ((g0 + g1 * len) * u + (b0 + b1 * len))
  simpa [affineActuatorForceVel] using h

/-! ### `mj_getState` / `mj_setState` -/

section State
variable {α : Type}

@[simp] theorem set_get (d : Data α) (f g : Fld) (v : List α) :
    (d.set f v) g = if g = f then v else d g := rfl

/-- fields outside the saved specification are untouched by `mj_setState` -/
theorem setState_of_not_mem (d : Data α) (saved : List (Fld × List α)) (f : Fld)
    (h : f ∉ saved.map Prod.fst) : (setState d saved) f = d f := by
  induction saved generalizing d with
  | nil => rfl
  | cons p rest ih =>
    simp only [List.map_cons, List.mem_cons, not_or] at h
    simp only [setState, List.foldl_cons]
    have := ih (d.set p.1 p.2) h.2
    simp only [setState] at this
    rw [this, set_get, if_neg h.1]

/-- restoring a saved state gives back the saved value of every field of the specification -/
theorem setState_getState_of_mem (d d0 : Data α) (spec : List Fld) (f : Fld) (h : f ∈ spec) :
    (setState d (getState d0 spec)) f = d0 f := by
  induction spec generalizing d with
  | nil => simp at h
  | cons g rest ih =>
    simp only [getState, List.map_cons, setState, List.foldl_cons]
    by_cases hr : f ∈ rest
    · have := ih (d.set g (d0 g)) hr
      simpa [getState, setState] using this
    · have hfg : f = g := by
        rcases List.mem_cons.mp h with h | h
        · exact h
        · exact absurd h hr
      subst hfg
      have hn : f ∉ (getState d0 rest).map Prod.fst := by
        simpa [getState, List.map_map, Function.comp] using hr
      have := setState_of_not_mem (d.set f (d0 f)) (getState d0 rest) f hn
      simp only [setState, getState] at this
      rw [this, set_get, if_pos rfl]

end State

/-! ### `mjd_transitionFD` leaves the state unchanged -/

section StepFD
variable {α : Type} [MjNum α]

/-- agreement with the input on a set of fields -/
def Agree (S : List Fld) (d d0 : Data α) : Prop := ∀ f ∈ S, d f = d0 f

theorem perturbStep_agree (e : Env α) (c : Cfg α) (d0 d : Data α) (stage : Nat) (sk : Bool) (f : Fld)
    (upd : List α → List α) :
    Agree (restoreSpec c) (perturbStep e (getState d0 (restoreSpec c)) stage sk f upd d) d0 := by
  intro g hg
  exact setState_getState_of_mem _ d0 _ g hg

theorem foldl_agree {β : Type} (S : List Fld) (d0 : Data α) (body : Data α → β → Data α)
    (hbody : ∀ d x, Agree S d d0 → Agree S (body d x) d0) (l : List β) (d : Data α) (hd : Agree S d d0) :
    Agree S (l.foldl body d) d0 := by
  induction l generalizing d with
  | nil => exact hd
  | cons x xs ih => exact ih _ (hbody d x hd)

/-- **`mjd_transitionFD` restores every perturbed field.**  For every stand-in for `mj_stepSkip` and `mj_integratePos`
(arbitrary functions), every configuration and every input data, the mjData left behind by the modelled `mjd_stepFD`
agrees with the input on every field of `restore_spec`: time, qpos, qvel, act, history, plugin state, ctrl, and
qacc_warmstart unless warmstart is disabled -/
theorem fd_restores_state (e : Env α) (c : Cfg α) (d0 d' : Data α) (h : stepFD e c d0 = some d') :
    ∀ f ∈ restoreSpec c, d' f = d0 f := by
  unfold stepFD at h
  split at h
  · exact absurd h (by simp)
  · simp only [Option.some.injEq] at h
    subst h
    set full := getState d0 (restoreSpec c) with hfull
    have base : Agree (restoreSpec c) (setState (e.step stageNone
        (!c.dsDq && !c.dsDv && !c.dsDa && !c.dsDu) d0) full) d0 :=
      fun g hg => setState_getState_of_mem _ d0 _ g hg
    have hplain : ∀ (stage : Nat) (f : Fld) (sk : Bool) (d : Data α) (i : Nat), Agree (restoreSpec c) d d0 →
        Agree (restoreSpec c) (plainIter e c full sk stage f d i) d0 := by
      intro stage f sk d i _
      unfold plainIter
      split
      · exact perturbStep_agree e c d0 _ _ _ _ _
      · exact perturbStep_agree e c d0 _ _ _ _ _
    have hpos : ∀ (sk : Bool) (d : Data α) (i : Nat), Agree (restoreSpec c) d d0 →
        Agree (restoreSpec c) (posIter e c full sk d i) d0 := by
      intro sk d i _
      unfold posIter
      split
      · exact perturbStep_agree e c d0 _ _ _ _ _
      · exact perturbStep_agree e c d0 _ _ _ _ _
    have hctrl : ∀ (sk : Bool) (d : Data α) (x : Nat × α × Bool × α × α), Agree (restoreSpec c) d d0 →
        Agree (restoreSpec c) (ctrlIter e c full sk d x) d0 := by
      intro sk d x hd
      obtain ⟨i, ci, limited, lo, hi⟩ := x
      simp only [ctrlIter]
      split
      · exact perturbStep_agree e c d0 _ _ _ _ _
      · split
        · exact perturbStep_agree e c d0 _ _ _ _ _
        · exact hd
    intro f hf
    -- thread the invariant through the four optional loops
    have s1 := base
    have s2 : Agree (restoreSpec c) _ d0 := by
      refine (?_ : Agree (restoreSpec c) (if c.dyDu || c.dsDu then _ else _) d0)
      split
      · exact foldl_agree _ d0 _ (fun d x hd => hctrl _ d _ hd) _ _ s1
      · exact s1
    have s3 : Agree (restoreSpec c) _ d0 := by
      refine (?_ : Agree (restoreSpec c) (if c.dyDa || c.dsDa then _ else _) d0)
      split
      · exact foldl_agree _ d0 _ (fun d x hd => hplain _ _ _ d x hd) _ _ s2
      · exact s2
    have s4 : Agree (restoreSpec c) _ d0 := by
      refine (?_ : Agree (restoreSpec c) (if c.dyDv || c.dsDv then _ else _) d0)
      split
      · exact foldl_agree _ d0 _ (fun d x hd => hplain _ _ _ d x hd) _ _ s3
      · exact s3
    have s5 : Agree (restoreSpec c) _ d0 := by
      refine (?_ : Agree (restoreSpec c) (if c.dyDq || c.dsDq then _ else _) d0)
      split
      · exact foldl_agree _ d0 _ (fun d x hd => hpos _ d x hd) _ _ s4
      · exact s4
    exact s5 f hf

end StepFD

end MjProof.C25
