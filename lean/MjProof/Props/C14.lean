import MjProof.Lemmas.Broadphase
import MjProof.Lemmas.CollideDriver
import MjProof.Lemmas.RealNum
/-
C14  Collision pair selection is complete and respects the filters.

Property theorems only.  Models: `MjProof/Model/Broadphase.lean` (hand model of `mj_SAP`, `mj_broadphase`, the
pair loop of `mj_collision`, `contactcompare`; tied to engine_collision_driver.c by the differential and
scene-replay runs of `checks/c14.py`) and the generated kernels `MjProof.Gen.filterBitmask`,
`filterBodyPair`, `filterBox`, `filterSphereBox`, `filterSphere` (regenerated from the C source on every run).
-/
namespace MjProof.C14
open List MjProof.Sort MjProof.Broadphase

/-! ## Sweep and prune -/

section sap
variable {ι K β : Type} [DecidableEq ι]

/-- **`mj_SAP` is complete and exact** (any number of boxes).  For a box set with distinct ids, a comparator
    that is a total preorder (`SAPcmp` on non-NaN floats) and `xlo ≤ xhi` for every box:

    * every output pair consists of the ids of two different boxes;
    * for a box `bi` that is earlier in the array than `bj`, the ordered pair `(bi.id, bj.id)` is output iff
      the y/z tests pass and `xlo_i ≤ xlo_j < xhi_i`, and `(bj.id, bi.id)` is output iff the y/z tests pass and
      `xlo_j < xlo_i ≤ xhi_j` — the comparisons are those of the code, on the `(float)`-cast values;
    * no ordered pair is output twice and no pair is output in both orientations (exactly once).

    The proof uses the stability and sortedness of `mjSORT` (C22): ties between endpoints are resolved by the
    buffer order `[min0, max0, min1, max1, …]`. -/
theorem sap_complete {cmp : K → K → Int} (hc : TotalPreorder cmp) (gt : β → β → Bool)
    (boxes : List (Box ι K β)) (hid : (boxes.map (·.id)).Nodup) (hwf : ∀ b ∈ boxes, cmp b.xlo b.xhi ≤ 0) :
    (∀ i j, (i, j) ∈ sapPairs cmp gt boxes → ∃ bi ∈ boxes, ∃ bj ∈ boxes, bi.id = i ∧ bj.id = j ∧ i ≠ j) ∧
    (∀ P Q R bi bj, boxes = P ++ bi :: Q ++ bj :: R →
      ((bi.id, bj.id) ∈ sapPairs cmp gt boxes ↔
        yzPrune gt bi.yz bj.yz = false ∧ cmp bi.xlo bj.xlo ≤ 0 ∧ ¬ cmp bi.xhi bj.xlo ≤ 0) ∧
      ((bj.id, bi.id) ∈ sapPairs cmp gt boxes ↔
        yzPrune gt bj.yz bi.yz = false ∧ ¬ cmp bi.xlo bj.xlo ≤ 0 ∧ cmp bi.xlo bj.xhi ≤ 0)) ∧
    (sapPairs cmp gt boxes).Nodup ∧
    (∀ i j, (i, j) ∈ sapPairs cmp gt boxes → (j, i) ∉ sapPairs cmp gt boxes) := by
  refine ⟨fun i j h => sapPairs_sound hc gt hid h, ?_, (sapPairs_once hc gt hid).1, (sapPairs_once hc gt hid).2⟩
  intro P Q R bi bj hb
  subst hb
  exact sapPairs_mem hc gt hid hwf

/-- the y/z test is symmetric in its two boxes -/
theorem yzPrune_comm (gt : β → β → Bool) (a b : YZ β) : yzPrune gt a b = yzPrune gt b a := by
  unfold yzPrune
  cases gt a.ylo b.yhi <;> cases gt b.ylo a.yhi <;> cases gt a.zlo b.zhi <;> cases gt b.zlo a.zhi <;> rfl

/-- **No overlapping pair is dropped**: two boxes whose x-intervals overlap *strictly* as the code compares
    them (`xlo_j < xhi_i` and `xlo_i < xhi_j` on the cast values) and that pass the y/z tests are reported (in
    one of the two orientations). -/
theorem sap_no_drop {cmp : K → K → Int} (hc : TotalPreorder cmp) (gt : β → β → Bool)
    (boxes : List (Box ι K β)) (hid : (boxes.map (·.id)).Nodup) (hwf : ∀ b ∈ boxes, cmp b.xlo b.xhi ≤ 0)
    {P Q R : List (Box ι K β)} {bi bj : Box ι K β} (hb : boxes = P ++ bi :: Q ++ bj :: R)
    (hyz : yzPrune gt bi.yz bj.yz = false)
    (h1 : ¬ cmp bi.xhi bj.xlo ≤ 0) (h2 : ¬ cmp bj.xhi bi.xlo ≤ 0) :
    (bi.id, bj.id) ∈ sapPairs cmp gt boxes ∨ (bj.id, bi.id) ∈ sapPairs cmp gt boxes := by
  obtain ⟨ha, hb'⟩ := (sap_complete hc gt boxes hid hwf).2.1 P Q R bi bj hb
  by_cases hle : cmp bi.xlo bj.xlo ≤ 0
  · exact Or.inl (ha.mpr ⟨hyz, hle, h1⟩)
  · refine Or.inr (hb'.mpr ⟨by rw [yzPrune_comm]; exact hyz, hle, ?_⟩)
    rcases hc.total bi.xlo bj.xhi with h | h
    · exact h
    · exact absurd h h2

/-- **Nothing else is output**: a reported pair overlaps on x as closed intervals (on the cast values) and
    passes the y/z tests. -/
theorem sap_sound {cmp : K → K → Int} (hc : TotalPreorder cmp) (gt : β → β → Bool)
    (boxes : List (Box ι K β)) (hid : (boxes.map (·.id)).Nodup) (hwf : ∀ b ∈ boxes, cmp b.xlo b.xhi ≤ 0)
    {P Q R : List (Box ι K β)} {bi bj : Box ι K β} (hb : boxes = P ++ bi :: Q ++ bj :: R)
    (h : (bi.id, bj.id) ∈ sapPairs cmp gt boxes ∨ (bj.id, bi.id) ∈ sapPairs cmp gt boxes) :
    yzPrune gt bi.yz bj.yz = false ∧ cmp bi.xlo bj.xhi ≤ 0 ∧ cmp bj.xlo bi.xhi ≤ 0 := by
  obtain ⟨ha, hb'⟩ := (sap_complete hc gt boxes hid hwf).2.1 P Q R bi bj hb
  have wfi : cmp bi.xlo bi.xhi ≤ 0 := hwf bi (by simp [hb])
  have wfj : cmp bj.xlo bj.xhi ≤ 0 := hwf bj (by simp [hb])
  rcases h with h | h
  · obtain ⟨hyz, hle, hlt⟩ := ha.mp h
    refine ⟨hyz, hc.trans _ _ _ hle wfj, ?_⟩
    rcases hc.total bj.xlo bi.xhi with h' | h'
    · exact h'
    · exact absurd h' hlt
  · obtain ⟨hyz, hlt, hle⟩ := hb'.mp h
    refine ⟨by rw [yzPrune_comm]; exact hyz, hle, ?_⟩
    have : cmp bj.xlo bi.xlo ≤ 0 := by
      rcases hc.total bj.xlo bi.xlo with h' | h'
      · exact h'
      · exact absurd h' hlt
    exact hc.trans _ _ _ this wfi

/-- **Touching intervals are handled asymmetrically** (a consequence of `sap_complete`, recorded because it
    decides what a `<` / `<=` rewrite changes): when the cast x-intervals only touch, the pair is reported iff the
    box on the *left* is the one with the *higher* index. -/
theorem sap_touching {cmp : K → K → Int} (hc : TotalPreorder cmp) (gt : β → β → Bool)
    (boxes : List (Box ι K β)) (hid : (boxes.map (·.id)).Nodup) (hwf : ∀ b ∈ boxes, cmp b.xlo b.xhi ≤ 0)
    {P Q R : List (Box ι K β)} {bi bj : Box ι K β} (hb : boxes = P ++ bi :: Q ++ bj :: R)
    (hyz : yzPrune gt bi.yz bj.yz = false) :
    -- lower-index box on the left, touching: dropped
    ((cmp bi.xhi bj.xlo ≤ 0 ∧ cmp bi.xlo bj.xlo ≤ 0) →
      (bi.id, bj.id) ∉ sapPairs cmp gt boxes ∧ (bj.id, bi.id) ∉ sapPairs cmp gt boxes) ∧
    -- higher-index box on the left, touching: reported
    ((cmp bi.xlo bj.xhi ≤ 0 ∧ ¬ cmp bi.xlo bj.xlo ≤ 0) → (bj.id, bi.id) ∈ sapPairs cmp gt boxes) := by
  obtain ⟨ha, hb'⟩ := (sap_complete hc gt boxes hid hwf).2.1 P Q R bi bj hb
  refine ⟨?_, ?_⟩
  · rintro ⟨h1, h2⟩
    exact ⟨fun h => (ha.mp h).2.2 h1, fun h => (hb'.mp h).2.1 h2⟩
  · rintro ⟨h1, h2⟩
    exact hb'.mpr ⟨by rw [yzPrune_comm]; exact hyz, h2, h1⟩

/-- the return value and buffer of `mj_SAP`: all pairs when the buffer is large enough -/
theorem mjSAP_all {cmp : K → K → Int} (gt : β → β → Bool) (boxes : List (Box ι K β)) (maxpair : Int)
    (hn : boxes.length < 65536) (hm : 1 ≤ maxpair) (hfit : (sapPairs cmp gt boxes).length ≤ maxpair.toNat) :
    (mjSAP cmp gt boxes maxpair).2 = sapPairs cmp gt boxes ∧
    (mjSAP cmp gt boxes maxpair).1 = (sapPairs cmp gt boxes).length := by
  unfold mjSAP
  have h0 : ¬ (boxes.length ≥ 65536 ∨ maxpair < 1) := by omega
  simp only [h0, ↓reduceIte]
  by_cases hge : (sapPairs cmp gt boxes).length ≥ maxpair.toNat
  · have heq : (sapPairs cmp gt boxes).length = maxpair.toNat := by omega
    simp only [hge, ↓reduceIte]
    refine ⟨by rw [← heq]; exact take_length, ?_⟩
    rw [heq]; omega
  · simp [hge]

/-- **the buffer of `mj_broadphase` always suffices**: `n` boxes produce at most `n (n-1) / 2` pairs (a consequence of
    exactly-once), so the call `mj_SAP(d, aamm, ncollide, 0, sappair, ncollide (ncollide-1) / 2)` is never truncated
    and returns all pairs. -/
theorem sap_never_truncated {cmp : K → K → Int} (hc : TotalPreorder cmp) (gt : β → β → Bool)
    (boxes : List (Box ι K β)) (hid : (boxes.map (·.id)).Nodup) (h1 : 1 < boxes.length) (hn : boxes.length < 65536) :
    (sapPairs cmp gt boxes).length ≤ boxes.length * (boxes.length - 1) / 2 ∧
    (mjSAP cmp gt boxes ((boxes.length * (boxes.length - 1) / 2 : Nat) : Int)).2 = sapPairs cmp gt boxes := by
  have hle := sapPairs_length_le hc gt hid
  refine ⟨hle, (mjSAP_all gt boxes _ hn ?_ ?_).1⟩
  · have : 1 ≤ boxes.length * (boxes.length - 1) / 2 := by
      have h2 : 2 ≤ boxes.length * (boxes.length - 1) := by
        have : 2 * 1 ≤ boxes.length * (boxes.length - 1) := Nat.mul_le_mul (by omega) (by omega)
        omega
      exact (Nat.le_div_iff_mul_le (by decide : 0 < 2)).mpr (by omega)
    exact_mod_cast this
  · rw [Int.toNat_natCast]; exact hle

end sap

/-! non-vacuity of the hypotheses of `sap_complete`: an order comparator on integers is a total preorder, and
    a concrete three-box instance (touching boxes 0|1, overlapping 1&2) evaluates as the theorem says -/

def cmpInt (a b : Int) : Int := if a < b then -1 else if a = b then 0 else 1

theorem cmpInt_totalPreorder : TotalPreorder cmpInt := by
  constructor
  · intro a b; unfold cmpInt; split <;> split <;> (try split) <;> (try split) <;> omega
  · intro a b c; unfold cmpInt; intro h1 h2
    split at h1 <;> split at h2 <;> (try split at h1) <;> (try split at h2) <;> split <;> (try split) <;> omega

/-- the hypotheses of `sap_complete` are satisfiable: three concrete boxes (0|1 touching, 1&2 overlapping); the
    theorem then says that (1, 2) is reported and that the touching pair (0, 1) is not -/
example :
    let boxes : List (Box Nat Int Int) := [⟨0, 0, 1, ⟨0, 1, 0, 1⟩⟩, ⟨1, 1, 3, ⟨0, 1, 0, 1⟩⟩, ⟨2, 2, 4, ⟨0, 1, 0, 1⟩⟩]
    (1, 2) ∈ sapPairs cmpInt (fun (a b : Int) => decide (a > b)) boxes ∧
    (0, 1) ∉ sapPairs cmpInt (fun (a b : Int) => decide (a > b)) boxes := by
  intro boxes
  have hid : (boxes.map (·.id)).Nodup := by decide
  have hwf : ∀ b ∈ boxes, cmpInt b.xlo b.xhi ≤ 0 := by decide
  have h := (sap_complete cmpInt_totalPreorder (fun (a b : Int) => decide (a > b)) boxes hid hwf).2.1
  constructor
  · exact ((h [⟨0, 0, 1, ⟨0, 1, 0, 1⟩⟩] [] [] ⟨1, 1, 3, ⟨0, 1, 0, 1⟩⟩ ⟨2, 2, 4, ⟨0, 1, 0, 1⟩⟩ rfl).1).mpr (by decide)
  · intro hc
    have := ((h [] [] [⟨2, 2, 4, ⟨0, 1, 0, 1⟩⟩] ⟨0, 0, 1, ⟨0, 1, 0, 1⟩⟩ ⟨1, 1, 3, ⟨0, 1, 0, 1⟩⟩ rfl).1).mp hc
    exact absurd this (by decide)

/-! ## Filter kernels (generated from the C source) -/

section filters

/-- `filterBitmask` returns 0 (keep) iff the contype of one geom and the conaffinity of the other share a bit:
    `(contype1 & conaffinity2) || (contype2 & conaffinity1)`, the rule of the documentation; otherwise 1. -/
theorem filterBitmask_spec (ct1 ca1 ct2 ca2 : Int) :
    (Gen.filterBitmask (α := Float) ct1 ca1 ct2 ca2 = 0 ↔ (intLand ct1 ca2 ≠ 0 ∨ intLand ct2 ca1 ≠ 0)) ∧
    (Gen.filterBitmask (α := Float) ct1 ca1 ct2 ca2 = 0 ∨ Gen.filterBitmask (α := Float) ct1 ca1 ct2 ca2 = 1) :=
  ⟨genFilterBitmask_iff ct1 ca1 ct2 ca2, genFilterBitmask_values ct1 ca1 ct2 ca2⟩

/-- `filterBodyPair` discards (≠ 0) exactly in the documented cases: same weld group; both weld groups
    without degrees of freedom; both asleep; one asleep and the other welded to the world; parent and child
    weld groups, unless one of them is the world's or the parent filter is disabled. -/
theorem filterBodyPair_spec (w1 pw1 as1 d1 w2 pw2 as2 d2 f : Int) :
    Gen.filterBodyPair (α := Float) w1 pw1 as1 d1 w2 pw2 as2 d2 f ≠ 0 ↔
      (w1 = w2 ∨ (d1 = 0 ∧ d2 = 0) ∨ (as1 ≠ 0 ∧ as2 ≠ 0) ∨ ((as1 ≠ 0 ∧ w2 = 0) ∨ (as2 ≠ 0 ∧ w1 = 0)) ∨
       (f = 0 ∧ w1 ≠ 0 ∧ w2 ≠ 0 ∧ (w1 = pw2 ∨ w2 = pw1))) :=
  genFilterBodyPair_iff w1 pw1 as1 d1 w2 pw2 as2 d2 f

/-- `filterBodyPair` does not depend on the order of the two bodies. -/
theorem filterBodyPair_symm (w1 pw1 as1 d1 w2 pw2 as2 d2 f : Int) :
    (Gen.filterBodyPair (α := Float) w1 pw1 as1 d1 w2 pw2 as2 d2 f ≠ 0) ↔
    (Gen.filterBodyPair (α := Float) w2 pw2 as2 d2 w1 pw1 as1 d1 f ≠ 0) :=
  genFilterBodyPair_symm w1 pw1 as1 d1 w2 pw2 as2 d2 f

/-- `filterBox` over the reals: boxes `(center, half-size)` are discarded iff on some axis the gap between them
    exceeds `margin`; so a pair whose margin-inflated boxes intersect is never pruned. -/
theorem filterBox_spec (c1 c2 c3 h1 h2 h3 d1 d2 d3 k1 k2 k3 margin : ℝ) :
    Gen.filterBox (α := ℝ) c1 c2 c3 h1 h2 h3 d1 d2 d3 k1 k2 k3 margin = 0 ↔
      (|c1 - d1| ≤ h1 + k1 + margin ∧ |c2 - d2| ≤ h2 + k2 + margin ∧ |c3 - d3| ≤ h3 + k3 + margin) := by
  unfold Gen.filterBox
  simp only [decide_eq_true_eq, abs_le]
  split_ifs <;> constructor <;> intro h <;>
    first
    | rfl
    | (refine ⟨⟨?_, ?_⟩, ⟨?_, ?_⟩, ⟨?_, ?_⟩⟩ <;> linarith)
    | (obtain ⟨⟨_, _⟩, ⟨_, _⟩, ⟨_, _⟩⟩ := h; exfalso; linarith)
    | (exact absurd h (by norm_num))

/-- `filterSphere` over the reals: discard (1) iff the squared centre distance exceeds `bound²`, else 0; for the
    non-negative bound of a valid model (`filterSphere_keep_iff`) a pair is kept iff `dist ≤ bound`, i.e. iff the
    bounding spheres inflated by the margin intersect. -/
theorem filterSphere_spec (p1 p2 p3 q1 q2 q3 bound : ℝ) :
    Gen.filterSphere (α := ℝ) p1 p2 p3 q1 q2 q3 bound =
      if bound * bound < (p1 - q1) * (p1 - q1) + (p2 - q2) * (p2 - q2) + (p3 - q3) * (p3 - q3) then 1 else 0 := by
  unfold Gen.filterSphere
  simp only [decide_eq_true_eq]

theorem filterSphere_keep_iff (p1 p2 p3 q1 q2 q3 bound : ℝ) (hb : 0 ≤ bound) :
    Gen.filterSphere (α := ℝ) p1 p2 p3 q1 q2 q3 bound = 0 ↔
      Real.sqrt ((p1 - q1) ^ 2 + (p2 - q2) ^ 2 + (p3 - q3) ^ 2) ≤ bound := by
  rw [filterSphere_spec]
  have e : (p1 - q1) * (p1 - q1) + (p2 - q2) * (p2 - q2) + (p3 - q3) * (p3 - q3) =
      (p1 - q1) ^ 2 + (p2 - q2) ^ 2 + (p3 - q3) ^ 2 := by ring
  rw [e, Real.sqrt_le_left hb]
  split_ifs with h
  · constructor
    · intro h'; exact absurd h' (by norm_num)
    · intro h'; nlinarith
  · constructor
    · intro _; nlinarith
    · intro _; rfl

/-- `filterSphereBox` over the reals: a sphere (treated as a box of half-size `bound`) against an AABB. -/
theorem filterSphereBox_spec (s1 s2 s3 bound c1 c2 c3 h1 h2 h3 : ℝ) :
    Gen.filterSphereBox (α := ℝ) s1 s2 s3 bound c1 c2 c3 h1 h2 h3 = 0 ↔
      (|s1 - c1| ≤ bound + h1 ∧ |s2 - c2| ≤ bound + h2 ∧ |s3 - c3| ≤ bound + h3) := by
  unfold Gen.filterSphereBox
  simp only [decide_eq_true_eq, abs_le]
  split_ifs <;> constructor <;> intro h <;>
    first
    | rfl
    | (refine ⟨⟨?_, ?_⟩, ⟨?_, ?_⟩, ⟨?_, ?_⟩⟩ <;> linarith)
    | (obtain ⟨⟨_, _⟩, ⟨_, _⟩, ⟨_, _⟩⟩ := h; exfalso; linarith)
    | (exact absurd h (by norm_num))

end filters

/-! ## The filters of the driver against the documented rule set -/

section driver
open MjProof.Spec.Collide
variable (M : Model)

/-- **filters_match_spec.**  On a well-formed compiled model the filters the driver applies are the documented
    ones: the body-level call of the generated `filterBodyPair` is filter 3 (same body / welded / neither can
    move / parent-child unless the parent is the world or the flag is off); for geoms `g1 ∈ b1`, `g2 ∈ b2` of a
    broad-phase pair, `canCollide2` + the exclude scan + `filterCollisionPair` (generated `filterBitmask`, merge
    window, sphere filter, function table) pass iff the rule set selects the pair; and the `exclude` scan is
    membership in the exclude list. -/
theorem filters_match_spec (hw : WF M) :
    (∀ b1 b2, filterBody M b1 b2 = true ↔ bodyFiltered M b1 b2) ∧
    (∀ s, excluded M s = true ↔ s ∈ M.excludes) ∧
    (enabled M → ∀ (b : Fin M.nbody × Fin M.nbody) (g1 g2 : Fin M.ngeom), b.1.val < b.2.val →
      filterBody M b.1 b.2 = false → g1 ∈ geomsOf M b.1 → g2 ∈ geomsOf M b.2 →
      ((BodyPairOK M b ∧ DynOK M M.pairs g1 g2) ↔ Spec.Collide.Dynamic M g1 g2)) :=
  ⟨filterBody_iff_spec M hw, excluded_iff M hw.excl_sorted,
   fun he _ _ _ hlt hf h1 h2 => dynFrom_spec M hw he hlt hf h1 h2⟩

/-- **`mj_broadphase` (model) is exact and sorted**: when it returns, its output is sorted by signature and is
    exactly the set of ordered body pairs `(min, max)` of the init-loop pairs and of the SAP pairs that pass
    `filterBodyPair`, restricted to the pairs whose OR-ed geom masks are compatible. -/
theorem broadphase_exact {boxes : List (Box (Fin M.nbody) Float32 Float)} {maxpair : Nat}
    {bfs : List (Fin M.nbody × Fin M.nbody)} (hg : ∃ g : Fin M.ngeom, (M.geom[g].bodyid).val ≠ 0)
    (h : broadphase M boxes maxpair = .ok bfs) :
    (∀ b, b ∈ bfs ↔ ∃ x y, ((x, y) ∈ initPairs M ∨ ((x, y) ∈ sapList M boxes ∧ filterBody M x y = false)) ∧
        orCompat M x y ∧ b = ordPair M x y) ∧
    bfs.Pairwise (fun a b => sigp M a ≤ sigp M b) :=
  mem_broadphase M hg h

/-- **driver_eq_bruteforce** (partial: see below).  For a well-formed model with at least two bodies and a geom
    outside the world body, whenever the modelled `mj_collision` returns (no `broadphase buffer full` error):

    * soundness — a geom pair `{g1, g2}` handed to the narrow phase through the body-pair mechanism is selected by
      the documented rule set: collision enabled, not the same / welded / parent-child / both-immovable bodies,
      contype/conaffinity compatible, bodies not excluded, no explicit pair on the two geoms, collision function
      defined, bounding-sphere test with the margin passed;
    * completeness — a pair that the rule set selects and whose geoms are `close` (any symmetric predicate for
      "truly within margin"; the narrow phase reporting a contact is the intended instance) is handed to the
      narrow phase, provided the broad phase is complete for `close` pairs (`BroadComplete`);
    * explicit pairs — pair `k` is handed to the narrow phase iff collision is enabled and the pair passes the
      function-table and bounding-sphere tests with its own margin (no bitmask, body or exclude filter).

    Consequently the geom pairs that receive contacts (candidates for which the narrow phase reports a contact)
    are exactly those of the brute-force rule set for which the narrow phase reports a contact.

    **Partial**: (1) mid-phase body pairs are represented by their all-to-all candidate set (`flat`); the BVH
    traversal `mj_collideTree`, which prunes inside that set, is not modelled; (2) `makeAAMM` is not modelled:
    completeness assumes `BroadComplete` (for `close` geoms of two non-world bodies the body pair is covered by the
    init loop or reported by `mj_SAP` on the given boxes) — `sap_complete` characterises `mj_SAP` on any boxes; that
    the boxes bound the margin-inflated geoms is checked by the engine oracle only (and is false by less than one
    float32 ulp: see `sap_touching`); (3) flexes, sleeping and `mjcb_contactfilter` are outside the model. -/
theorem driver_eq_bruteforce_partial (hw : WF M) {boxes : List (Box (Fin M.nbody) Float32 Float)}
    {items : List (Item M.nbody M.ngeom)} (h2 : 2 ≤ M.nbody)
    (hg : ∃ g : Fin M.ngeom, (M.geom[g].bodyid).val ≠ 0)
    (hsymm : ∀ a b, M.near a b = M.near b a)
    (hok : collide M boxes = .ok items) :
    (∀ g1 g2, (∃ c ∈ flat items, c.ipair = none ∧ ((c.g1 = g1 ∧ c.g2 = g2) ∨ (c.g1 = g2 ∧ c.g2 = g1))) →
        Spec.Collide.Dynamic M g1 g2) ∧
    (∀ (close : Fin M.ngeom → Fin M.ngeom → Prop), (∀ a b, close a b → close b a) → BroadComplete M close boxes →
      ∀ g1 g2, Spec.Collide.Dynamic M g1 g2 → close g1 g2 →
        ∃ c ∈ flat items, c.ipair = none ∧ ((c.g1 = g1 ∧ c.g2 = g2) ∨ (c.g1 = g2 ∧ c.g2 = g1))) ∧
    (∀ c k, c.ipair = some k → (c ∈ flat items ↔ ∃ p, Explicit M p ∧ p.idx = k ∧ c = push M p.g1 p.g2 (some k))) :=
  ⟨fun g1 g2 => collide_dynamic_sound M hw hg hsymm hok g1 g2,
   fun _ hcs hb g1 g2 hD hcl => collide_dynamic_complete M hw h2 hg hsymm hcs hb hok g1 g2 hD hcl,
   fun c k hk => collide_explicit M h2 hok c k hk⟩

end driver

/-! non-vacuity: a concrete well-formed model (world plane + one free sphere) satisfies every hypothesis of
    `driver_eq_bruteforce_partial`, the modelled `mj_collision` returns the plane-sphere candidate on it, and the
    theorem yields that the rule set selects that pair -/

def exM : Model where
  nbody := 2
  ngeom := 2
  body := #v[⟨0, 0, 0, 0, 1, 1, 1, false⟩, ⟨1, 0, 6, 1, 1, 1, 1, false⟩]
  geom := #v[⟨0, 1, 1, 0⟩, ⟨2, 1, 1, 1⟩]
  pairs := []
  excludes := []
  planeType := 0
  dsblConstraint := false
  dsblContact := false
  dsblFilterParent := false
  dsblMidphase := false
  func := fun a b => a == 0 && b == 2
  near := fun _ _ => true
  nearPair := fun _ => false

theorem exM_wf : WF exM where
  nbody_le := by decide
  geom_body := by decide
  pair_sig := by intro p hp; cases hp
  pairs_sorted := List.Pairwise.nil
  excl_sorted := List.Pairwise.nil
  body_masks := by decide
  world := by decide

def exG0 : Fin exM.ngeom := ⟨0, by decide⟩
def exG1 : Fin exM.ngeom := ⟨1, by decide⟩

theorem exM_broad : BroadComplete exM (fun _ _ => True) [] := by
  intro a b _ ha hb hne
  exfalso
  have h1 : ∀ g : Fin exM.ngeom, (exM.geom[g].bodyid).val ≠ 0 → exM.geom[g].bodyid = ⟨1, by decide⟩ := by decide
  exact hne ((h1 a ha).trans (h1 b hb).symm)

example : collide exM [] = .ok [.cand ⟨exG0, exG1, none⟩] := by rfl

example : broadphase exM [] 1 = .ok [(⟨0, by decide⟩, ⟨1, by decide⟩)] := by rfl

example : Spec.Collide.Dynamic exM exG0 exG1 :=
  (driver_eq_bruteforce_partial exM exM_wf (boxes := []) (items := [.cand ⟨exG0, exG1, none⟩]) (by decide)
    ⟨exG1, by decide⟩ (fun _ _ => rfl) (by rfl)).1 exG0 exG1
    ⟨⟨exG0, exG1, none⟩, by simp [flat, Item.cands], rfl, Or.inl ⟨rfl, rfl⟩⟩

example : ∃ c ∈ flat [Item.cand (nbody := exM.nbody) ⟨exG0, exG1, none⟩], c.ipair = none ∧
    ((c.g1 = exG0 ∧ c.g2 = exG1) ∨ (c.g1 = exG1 ∧ c.g2 = exG0)) :=
  (driver_eq_bruteforce_partial exM exM_wf (boxes := []) (items := [.cand ⟨exG0, exG1, none⟩]) (by decide)
    ⟨exG1, by decide⟩ (fun _ _ => rfl) (by rfl)).2.1 (fun _ _ => True) (fun _ _ h => h) exM_broad exG0 exG1
    ((driver_eq_bruteforce_partial exM exM_wf (boxes := []) (items := [.cand ⟨exG0, exG1, none⟩]) (by decide)
      ⟨exG1, by decide⟩ (fun _ _ => rfl) (by rfl)).1 exG0 exG1
      ⟨⟨exG0, exG1, none⟩, by simp [flat, Item.cands], rfl, Or.inl ⟨rfl, rfl⟩⟩) trivial

/-! ## Contact order -/

section order
variable {n : Nat}

theorem contactCompare_le_iff (gtype : Fin n → Nat) (c1 c2 : Fin n × Fin n) :
    contactCompare gtype c1 c2 ≤ 0 ↔
      (contactKey gtype c1).1 < (contactKey gtype c2).1 ∨
      ((contactKey gtype c1).1 = (contactKey gtype c2).1 ∧ (contactKey gtype c1).2 ≤ (contactKey gtype c2).2) := by
  unfold contactCompare
  simp only
  split_ifs <;> omega

/-- `contactcompare` is a total preorder (lexicographic order of the type-ordered geom pair) -/
theorem contactCompare_totalPreorder (gtype : Fin n → Nat) : TotalPreorder (contactCompare gtype) := by
  constructor
  · intro a b; rw [contactCompare_le_iff, contactCompare_le_iff]; omega
  · intro a b c; rw [contactCompare_le_iff, contactCompare_le_iff, contactCompare_le_iff]; omega

/-- **contact_order_deterministic.**  `contactSort` (mjSORT with `contactcompare`) applied to any list of
    contacts (`proj` extracts `(geom[0], geom[1])`; the rest of the record is payload): the result is a
    permutation sorted by the key of `contactcompare`, and for every key the contacts with that key appear in their
    original relative order.  Hence the sorted list is a function of the input list alone: keys ascending, equal
    keys in generation order. -/
theorem contact_order_deterministic {γ : Type} (gtype : Fin n → Nat) (proj : γ → Fin n × Fin n) (l : List γ) :
    let cmp : γ → γ → Int := fun a b => contactCompare gtype (proj a) (proj b)
    StableSorted cmp l (mjSort cmp l) ∧
    ∀ k : Nat × Nat, [DecidableEq (Nat × Nat)] →
      (mjSort cmp l).filter (fun c => decide (contactKey gtype (proj c) = k)) =
        l.filter (fun c => decide (contactKey gtype (proj c) = k)) := by
  intro cmp
  have hc : TotalPreorder cmp :=
    ⟨fun a b => (contactCompare_totalPreorder gtype).total _ _, fun a b c => (contactCompare_totalPreorder gtype).trans _ _ _⟩
  have hst := MjProof.C22.mjSort_stableSorted hc l
  refine ⟨hst, ?_⟩
  intro k _
  obtain ⟨hperm, _, hstable⟩ := hst
  -- the contacts of one key form a sorted subsequence of the input, hence survive in order
  have hsub : l.filter (fun c => decide (contactKey gtype (proj c) = k)) <+ mjSort cmp l := by
    apply hstable _ filter_sublist
    apply pairwise_of_forall_mem_list
    intro a ha b hb
    have ka : contactKey gtype (proj a) = k := by simpa using (mem_filter.mp ha).2
    have kb : contactKey gtype (proj b) = k := by simpa using (mem_filter.mp hb).2
    show contactCompare gtype (proj a) (proj b) ≤ 0
    rw [contactCompare_le_iff, ka, kb]
    exact Or.inr ⟨rfl, Nat.le_refl _⟩
  have hsub2 := hsub.filter (fun c => decide (contactKey gtype (proj c) = k))
  rw [filter_filter] at hsub2
  simp only [Bool.and_self] at hsub2
  have hlen : (l.filter (fun c => decide (contactKey gtype (proj c) = k))).length =
      ((mjSort cmp l).filter (fun c => decide (contactKey gtype (proj c) = k))).length :=
    (hperm.filter _).length_eq.symm
  exact (hsub2.eq_of_length hlen).symm

end order

end MjProof.C14
