import MjProof.Lemmas.Broadphase
import MjProof.Lemmas.RealNum
/-
C14  Collision pair selection is complete and respects the filters.

Property theorems only.  Models: `MjProof/Model/Broadphase.lean` (hand model of `mj_SAP`, `mj_broadphase`, the
pair loop of `mj_collision`, `contactcompare`; tied to engine_collision_driver.c by the differential and
scene-replay runs of `checks/c14.py`) and the generated kernels `MjProof.Gen.filterBitmask`,
`filterBodyPair`, `filterBox`, `filterSphereBox`, `filterSphere` (regenerated from the C source on every run).
-/
namespace MjProof.C14
open List MjProof.Sort MjProof.Broadphase

/-! ## Sweep and prune -/

section sap
variable {ι K β : Type} [DecidableEq ι]

/-- **`mj_SAP` is complete and exact** (any number of boxes).  For a box set with distinct ids, a comparator
    that is a total preorder (`SAPcmp` on non-NaN floats) and `xlo ≤ xhi` for every box:

    * every output pair consists of the ids of two different boxes;
    * for a box `bi` that is earlier in the array than `bj`, the ordered pair `(bi.id, bj.id)` is output iff
      the y/z tests pass and `xlo_i ≤ xlo_j < xhi_i`, and `(bj.id, bi.id)` is output iff the y/z tests pass and
      `xlo_j < xlo_i ≤ xhi_j` — the comparisons are those of the code, on the `(float)`-cast values;
    * no ordered pair is output twice and no pair is output in both orientations (exactly once).

    The proof uses the stability and sortedness of `mjSORT` (C22): ties between endpoints are resolved by the
    buffer order `[min0, max0, min1, max1, …]`. -/
theorem sap_complete {cmp : K → K → Int} (hc : TotalPreorder cmp) (gt : β → β → Bool)
    (boxes : List (Box ι K β)) (hid : (boxes.map (·.id)).Nodup) (hwf : ∀ b ∈ boxes, cmp b.xlo b.xhi ≤ 0) :
    (∀ i j, (i, j) ∈ sapPairs cmp gt boxes → ∃ bi ∈ boxes, ∃ bj ∈ boxes, bi.id = i ∧ bj.id = j ∧ i ≠ j) ∧
    (∀ P Q R bi bj, boxes = P ++ bi :: Q ++ bj :: R →
      ((bi.id, bj.id) ∈ sapPairs cmp gt boxes ↔
        yzPrune gt bi.yz bj.yz = false ∧ cmp bi.xlo bj.xlo ≤ 0 ∧ ¬ cmp bi.xhi bj.xlo ≤ 0) ∧
      ((bj.id, bi.id) ∈ sapPairs cmp gt boxes ↔
        yzPrune gt bj.yz bi.yz = false ∧ ¬ cmp bi.xlo bj.xlo ≤ 0 ∧ cmp bi.xlo bj.xhi ≤ 0)) ∧
    (sapPairs cmp gt boxes).Nodup ∧
    (∀ i j, (i, j) ∈ sapPairs cmp gt boxes → (j, i) ∉ sapPairs cmp gt boxes) := by
  refine ⟨fun i j h => sapPairs_sound hc gt hid h, ?_, (sapPairs_once hc gt hid).1, (sapPairs_once hc gt hid).2⟩
  intro P Q R bi bj hb
  subst hb
  exact sapPairs_mem hc gt hid hwf

/-- the y/z test is symmetric in its two boxes -/
theorem yzPrune_comm (gt : β → β → Bool) (a b : YZ β) : yzPrune gt a b = yzPrune gt b a := by
  unfold yzPrune
  cases gt a.ylo b.yhi <;> cases gt b.ylo a.yhi <;> cases gt a.zlo b.zhi <;> cases gt b.zlo a.zhi <;> rfl

/-- **No overlapping pair is dropped**: two boxes whose x-intervals overlap *strictly* as the code compares
    them (`xlo_j < xhi_i` and `xlo_i < xhi_j` on the cast values) and that pass the y/z tests are reported (in
    one of the two orientations). -/
theorem sap_no_drop {cmp : K → K → Int} (hc : TotalPreorder cmp) (gt : β → β → Bool)
    (boxes : List (Box ι K β)) (hid : (boxes.map (·.id)).Nodup) (hwf : ∀ b ∈ boxes, cmp b.xlo b.xhi ≤ 0)
    {P Q R : List (Box ι K β)} {bi bj : Box ι K β} (hb : boxes = P ++ bi :: Q ++ bj :: R)
    (hyz : yzPrune gt bi.yz bj.yz = false)
    (h1 : ¬ cmp bi.xhi bj.xlo ≤ 0) (h2 : ¬ cmp bj.xhi bi.xlo ≤ 0) :
    (bi.id, bj.id) ∈ sapPairs cmp gt boxes ∨ (bj.id, bi.id) ∈ sapPairs cmp gt boxes := by
  obtain ⟨ha, hb'⟩ := (sap_complete hc gt boxes hid hwf).2.1 P Q R bi bj hb
  by_cases hle : cmp bi.xlo bj.xlo ≤ 0
  · exact Or.inl (ha.mpr ⟨hyz, hle, h1⟩)
  · refine Or.inr (hb'.mpr ⟨by rw [yzPrune_comm]; exact hyz, hle, ?_⟩)
    rcases hc.total bi.xlo bj.xhi with h | h
    · exact h
    · exact absurd h h2

/-- **Nothing else is output**: a reported pair overlaps on x as closed intervals (on the cast values) and
    passes the y/z tests. -/
theorem sap_sound {cmp : K → K → Int} (hc : TotalPreorder cmp) (gt : β → β → Bool)
    (boxes : List (Box ι K β)) (hid : (boxes.map (·.id)).Nodup) (hwf : ∀ b ∈ boxes, cmp b.xlo b.xhi ≤ 0)
    {P Q R : List (Box ι K β)} {bi bj : Box ι K β} (hb : boxes = P ++ bi :: Q ++ bj :: R)
    (h : (bi.id, bj.id) ∈ sapPairs cmp gt boxes ∨ (bj.id, bi.id) ∈ sapPairs cmp gt boxes) :
    yzPrune gt bi.yz bj.yz = false ∧ cmp bi.xlo bj.xhi ≤ 0 ∧ cmp bj.xlo bi.xhi ≤ 0 := by
  obtain ⟨ha, hb'⟩ := (sap_complete hc gt boxes hid hwf).2.1 P Q R bi bj hb
  have wfi : cmp bi.xlo bi.xhi ≤ 0 := hwf bi (by simp [hb])
  have wfj : cmp bj.xlo bj.xhi ≤ 0 := hwf bj (by simp [hb])
  rcases h with h | h
  · obtain ⟨hyz, hle, hlt⟩ := ha.mp h
    refine ⟨hyz, hc.trans _ _ _ hle wfj, ?_⟩
    rcases hc.total bj.xlo bi.xhi with h' | h'
    · exact h'
    · exact absurd h' hlt
  · obtain ⟨hyz, hlt, hle⟩ := hb'.mp h
    refine ⟨by rw [yzPrune_comm]; exact hyz, hle, ?_⟩
    have : cmp bj.xlo bi.xlo ≤ 0 := by
      rcases hc.total bj.xlo bi.xlo with h' | h'
      · exact h'
      · exact absurd h' hlt
    exact hc.trans _ _ _ this wfi

/-- **Touching intervals are handled asymmetrically** (a consequence of `sap_complete`, recorded because it
    decides what a `<` / `<=` rewrite changes): when the cast x-intervals only touch, the pair is reported iff the
    box on the *left* is the one with the *higher* index. -/
theorem sap_touching {cmp : K → K → Int} (hc : TotalPreorder cmp) (gt : β → β → Bool)
    (boxes : List (Box ι K β)) (hid : (boxes.map (·.id)).Nodup) (hwf : ∀ b ∈ boxes, cmp b.xlo b.xhi ≤ 0)
    {P Q R : List (Box ι K β)} {bi bj : Box ι K β} (hb : boxes = P ++ bi :: Q ++ bj :: R)
    (hyz : yzPrune gt bi.yz bj.yz = false) :
    -- lower-index box on the left, touching: dropped
    ((cmp bi.xhi bj.xlo ≤ 0 ∧ cmp bi.xlo bj.xlo ≤ 0) →
      (bi.id, bj.id) ∉ sapPairs cmp gt boxes ∧ (bj.id, bi.id) ∉ sapPairs cmp gt boxes) ∧
    -- higher-index box on the left, touching: reported
    ((cmp bi.xlo bj.xhi ≤ 0 ∧ ¬ cmp bi.xlo bj.xlo ≤ 0) → (bj.id, bi.id) ∈ sapPairs cmp gt boxes) := by
  obtain ⟨ha, hb'⟩ := (sap_complete hc gt boxes hid hwf).2.1 P Q R bi bj hb
  refine ⟨?_, ?_⟩
  · rintro ⟨h1, h2⟩
    exact ⟨fun h => (ha.mp h).2.2 h1, fun h => (hb'.mp h).2.1 h2⟩
  · rintro ⟨h1, h2⟩
    exact hb'.mpr ⟨by rw [yzPrune_comm]; exact hyz, h2, h1⟩

/-- the return value and buffer of `mj_SAP`: all pairs when the buffer is large enough -/
theorem mjSAP_all {cmp : K → K → Int} (gt : β → β → Bool) (boxes : List (Box ι K β)) (maxpair : Int)
    (hn : boxes.length < 65536) (hm : 1 ≤ maxpair) (hfit : (sapPairs cmp gt boxes).length ≤ maxpair.toNat) :
    (mjSAP cmp gt boxes maxpair).2 = sapPairs cmp gt boxes ∧
    (mjSAP cmp gt boxes maxpair).1 = (sapPairs cmp gt boxes).length := by
  unfold mjSAP
  have h0 : ¬ (boxes.length ≥ 65536 ∨ maxpair < 1) := by omega
  simp only [h0, ↓reduceIte]
  by_cases hge : (sapPairs cmp gt boxes).length ≥ maxpair.toNat
  · have heq : (sapPairs cmp gt boxes).length = maxpair.toNat := by omega
    simp only [hge, ↓reduceIte]
    refine ⟨by rw [← heq]; exact take_length, ?_⟩
    rw [heq]; omega
  · simp [hge]

end sap

/-! non-vacuity of the hypotheses of `sap_complete`: an order comparator on integers is a total preorder, and
    a concrete three-box instance (touching boxes 0|1, overlapping 1&2) evaluates as the theorem says -/

def cmpInt (a b : Int) : Int := if a < b then -1 else if a = b then 0 else 1

theorem cmpInt_totalPreorder : TotalPreorder cmpInt := by
  constructor
  · intro a b; unfold cmpInt; split <;> split <;> (try split) <;> (try split) <;> omega
  · intro a b c; unfold cmpInt; intro h1 h2
    split at h1 <;> split at h2 <;> (try split at h1) <;> (try split at h2) <;> split <;> (try split) <;> omega

/-- the hypotheses of `sap_complete` are satisfiable: three concrete boxes (0|1 touching, 1&2 overlapping); the
    theorem then says that (1, 2) is reported and that the touching pair (0, 1) is not -/
example :
    let boxes : List (Box Nat Int Int) := [⟨0, 0, 1, ⟨0, 1, 0, 1⟩⟩, ⟨1, 1, 3, ⟨0, 1, 0, 1⟩⟩, ⟨2, 2, 4, ⟨0, 1, 0, 1⟩⟩]
    (1, 2) ∈ sapPairs cmpInt (fun (a b : Int) => decide (a > b)) boxes ∧
    (0, 1) ∉ sapPairs cmpInt (fun (a b : Int) => decide (a > b)) boxes := by
  intro boxes
  have hid : (boxes.map (·.id)).Nodup := by decide
  have hwf : ∀ b ∈ boxes, cmpInt b.xlo b.xhi ≤ 0 := by decide
  have h := (sap_complete cmpInt_totalPreorder (fun (a b : Int) => decide (a > b)) boxes hid hwf).2.1
  constructor
  · exact ((h [⟨0, 0, 1, ⟨0, 1, 0, 1⟩⟩] [] [] ⟨1, 1, 3, ⟨0, 1, 0, 1⟩⟩ ⟨2, 2, 4, ⟨0, 1, 0, 1⟩⟩ rfl).1).mpr (by decide)
  · intro hc
    have := ((h [] [] [⟨2, 2, 4, ⟨0, 1, 0, 1⟩⟩] ⟨0, 0, 1, ⟨0, 1, 0, 1⟩⟩ ⟨1, 1, 3, ⟨0, 1, 0, 1⟩⟩ rfl).1).mp hc
    exact absurd this (by decide)

/-! ## Filter kernels (generated from the C source) -/

section filters

/-- `filterBitmask` returns 0 (keep) iff the contype of one geom and the conaffinity of the other share a bit:
    `(contype1 & conaffinity2) || (contype2 & conaffinity1)`, the rule of the documentation; otherwise 1. -/
theorem filterBitmask_spec (ct1 ca1 ct2 ca2 : Int) :
    (Gen.filterBitmask (α := Float) ct1 ca1 ct2 ca2 = 0 ↔ (intLand ct1 ca2 ≠ 0 ∨ intLand ct2 ca1 ≠ 0)) ∧
    (Gen.filterBitmask (α := Float) ct1 ca1 ct2 ca2 = 0 ∨ Gen.filterBitmask (α := Float) ct1 ca1 ct2 ca2 = 1) := by
  unfold Gen.filterBitmask
  by_cases h1 : intLand ct1 ca2 = 0 <;> by_cases h2 : intLand ct2 ca1 = 0 <;> simp [h1, h2]

/-- `filterBodyPair` discards (≠ 0) exactly in the documented cases: same weld group; both weld groups
    without degrees of freedom; both asleep; one asleep and the other welded to the world; parent and child
    weld groups, unless one of them is the world's or the parent filter is disabled. -/
theorem filterBodyPair_spec (w1 pw1 as1 d1 w2 pw2 as2 d2 f : Int) :
    Gen.filterBodyPair (α := Float) w1 pw1 as1 d1 w2 pw2 as2 d2 f ≠ 0 ↔
      (w1 = w2 ∨ (d1 = 0 ∧ d2 = 0) ∨ (as1 ≠ 0 ∧ as2 ≠ 0) ∨ ((as1 ≠ 0 ∧ w2 = 0) ∨ (as2 ≠ 0 ∧ w1 = 0)) ∨
       (f = 0 ∧ w1 ≠ 0 ∧ w2 ≠ 0 ∧ (w1 = pw2 ∨ w2 = pw1))) := by
  unfold Gen.filterBodyPair
  simp only [decide_eq_true_eq]
  split_ifs <;> omega

/-- `filterBodyPair` does not depend on the order of the two bodies. -/
theorem filterBodyPair_symm (w1 pw1 as1 d1 w2 pw2 as2 d2 f : Int) :
    (Gen.filterBodyPair (α := Float) w1 pw1 as1 d1 w2 pw2 as2 d2 f ≠ 0) ↔
    (Gen.filterBodyPair (α := Float) w2 pw2 as2 d2 w1 pw1 as1 d1 f ≠ 0) := by
  rw [filterBodyPair_spec, filterBodyPair_spec]
  omega

/-- `filterBox` over the reals: boxes `(center, half-size)` are discarded iff on some axis the gap between them
    exceeds `margin`; so a pair whose margin-inflated boxes intersect is never pruned. -/
theorem filterBox_spec (c1 c2 c3 h1 h2 h3 d1 d2 d3 k1 k2 k3 margin : ℝ) :
    Gen.filterBox (α := ℝ) c1 c2 c3 h1 h2 h3 d1 d2 d3 k1 k2 k3 margin = 0 ↔
      (|c1 - d1| ≤ h1 + k1 + margin ∧ |c2 - d2| ≤ h2 + k2 + margin ∧ |c3 - d3| ≤ h3 + k3 + margin) := by
  unfold Gen.filterBox
  simp only [decide_eq_true_eq, abs_le]
  split_ifs <;> constructor <;> intro h <;>
    first
    | rfl
    | (refine ⟨⟨?_, ?_⟩, ⟨?_, ?_⟩, ⟨?_, ?_⟩⟩ <;> linarith)
    | (obtain ⟨⟨_, _⟩, ⟨_, _⟩, ⟨_, _⟩⟩ := h; exfalso; linarith)
    | (exact absurd h (by norm_num))

/-- `filterSphere` over the reals: discard (1) iff the squared centre distance exceeds `bound²`, else 0; for the
    non-negative bound of a valid model (`filterSphere_keep_iff`) a pair is kept iff `dist ≤ bound`, i.e. iff the
    bounding spheres inflated by the margin intersect. -/
theorem filterSphere_spec (p1 p2 p3 q1 q2 q3 bound : ℝ) :
    Gen.filterSphere (α := ℝ) p1 p2 p3 q1 q2 q3 bound =
      if bound * bound < (p1 - q1) * (p1 - q1) + (p2 - q2) * (p2 - q2) + (p3 - q3) * (p3 - q3) then 1 else 0 := by
  unfold Gen.filterSphere
  simp only [decide_eq_true_eq]

theorem filterSphere_keep_iff (p1 p2 p3 q1 q2 q3 bound : ℝ) (hb : 0 ≤ bound) :
    Gen.filterSphere (α := ℝ) p1 p2 p3 q1 q2 q3 bound = 0 ↔
      Real.sqrt ((p1 - q1) ^ 2 + (p2 - q2) ^ 2 + (p3 - q3) ^ 2) ≤ bound := by
  rw [filterSphere_spec]
  have e : (p1 - q1) * (p1 - q1) + (p2 - q2) * (p2 - q2) + (p3 - q3) * (p3 - q3) =
      (p1 - q1) ^ 2 + (p2 - q2) ^ 2 + (p3 - q3) ^ 2 := by ring
  rw [e, Real.sqrt_le_left hb]
  split_ifs with h
  · constructor
    · intro h'; exact absurd h' (by norm_num)
    · intro h'; nlinarith
  · constructor
    · intro _; nlinarith
    · intro _; rfl

/-- `filterSphereBox` over the reals: a sphere (treated as a box of half-size `bound`) against an AABB. -/
theorem filterSphereBox_spec (s1 s2 s3 bound c1 c2 c3 h1 h2 h3 : ℝ) :
    Gen.filterSphereBox (α := ℝ) s1 s2 s3 bound c1 c2 c3 h1 h2 h3 = 0 ↔
      (|s1 - c1| ≤ bound + h1 ∧ |s2 - c2| ≤ bound + h2 ∧ |s3 - c3| ≤ bound + h3) := by
  unfold Gen.filterSphereBox
  simp only [decide_eq_true_eq, abs_le]
  split_ifs <;> constructor <;> intro h <;>
    first
    | rfl
    | (refine ⟨⟨?_, ?_⟩, ⟨?_, ?_⟩, ⟨?_, ?_⟩⟩ <;> linarith)
    | (obtain ⟨⟨_, _⟩, ⟨_, _⟩, ⟨_, _⟩⟩ := h; exfalso; linarith)
    | (exact absurd h (by norm_num))

end filters

end MjProof.C14
