import MjProof.Model.Broadphase
namespace MjProof.C14
end MjProof.C14
