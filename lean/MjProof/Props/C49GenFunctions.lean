import MjProof.Model.Introspect
import MjProof.Gen.IntrospectHeaders
import MjProof.Gen.IntrospectPython
/-
C49 (table half, part: function tables).  See Props/C49Gen.lean.  Split into several modules only so that lake
checks the kernel evaluations in parallel.
-/
namespace MjProof.C49
open MjProof.CType MjProof.Introspect
open MjProof.Gen

/-- Every function of the API: same return type, same parameters (name, type AST, nullability) in
    the same order. -/
theorem function_tables_equal :
    mapMOpt (resolveFunc IntrospectHeaders.typeTable) IntrospectHeaders.functions = some IntrospectPython.functions := by
  decide +kernel

end MjProof.C49
